(* Proofs/StmtParserProofs.v -- the statement parser twin (Model/StmtParser.v) and the
   expression parser twin (Model/ExprParser.v) on EVERY token list:
     A. the expression parser never runs out of fuel at the fuel it is run with ([fuel_of]),
        and a successful parse consumes at least one token;
     B. position provenance of the expression parser: every Pos of a returned tree and the
        position of a returned error is the pos of an input token;
     C. the statement parser: never out of fuel, never a nil dereference, for every hook;
     D. position provenance of the statement parser: -1, 0 or the pos of an input token,
        for every hook that reports positions of the nodes it is given;
     E. composition with the lexer (Proofs/LexerProofs.v): offsets lie inside the query. *)
From Coq Require Import String List Arith Bool ZArith Lia.
Import ListNotations.
From KV Require Import Base.Num Model.Token Model.Ast Model.ExprParser Model.ErrPos Model.StmtParser
                       Proofs.ExprParserProofs.
Local Open Scope list_scope.

(* ================================================================ A. fuel *)

(* [r] is not "out of fuel", and a success leaves at most [n - d] tokens *)
Definition good {A} (n d : nat) (r : pres A) : Prop :=
  r <> PFuel /\ forall a rest, r = POk a rest -> length rest + d <= n.

Lemma good_ok {A} n d (a : A) rest : length rest + d <= n -> good n d (POk a rest).
Proof. intros H. split; [discriminate|]. intros a' r' E. inversion E; subst. exact H. Qed.

Lemma good_err {A} n d p : good n d (@PErr A p).
Proof. split; [discriminate|]. intros a r E. discriminate. Qed.

Lemma good_panic {A} n d : good n d (@PPanic A).
Proof. split; [discriminate|]. intros a r E. discriminate. Qed.

Lemma good_weaken {A} n d n' d' (r : pres A) : good n d r -> n + d' <= n' + d -> good n' d' r.
Proof. intros [H1 H2] H. split; [exact H1|]. intros a rest E. specialize (H2 a rest E). lia. Qed.

Lemma good_bind {A B} n d1 d (r : pres A) (k : A -> list token -> pres B) :
  good n d1 r ->
  (forall a rest, r = POk a rest -> length rest + d1 <= n -> good n d (k a rest)) ->
  good n d (bind r k).
Proof.
  intros [H1 H2] Hk. destruct r as [a rest| | |]; cbn [bind].
  - apply Hk; [reflexivity|]. exact (H2 a rest eq_refl).
  - apply good_err.
  - apply good_panic.
  - congruence.
Qed.

Lemma good_expect n k ts : length ts <= n -> good n 1 (expect k ts).
Proof.
  intros H. destruct ts as [|t ts']; cbn [expect]; [apply good_err|].
  destruct (toktype_eqb (tp t) k); [|apply good_err]. apply good_ok. cbn [length] in H. lia.
Qed.

Lemma expect_rest k ts u rest : expect k ts = POk u rest -> length ts = S (length rest).
Proof.
  destruct ts as [|t ts']; cbn [expect]; [discriminate|].
  destruct (toktype_eqb (tp t) k); [|discriminate]. intros E. inversion E; subst. reflexivity.
Qed.

Definition total (fuel : nat) : Prop :=
  (forall ts, 8 * length ts + 6 <= fuel -> good (length ts) 1 (parse_expr fuel ts)) /\
  (forall x p ts, 8 * length ts + 5 <= fuel ->
     good (length ts) (match x with None => 1 | Some _ => 0 end) (parse_binary_expr fuel x p ts)) /\
  (forall x p ts, 8 * length ts + 1 <= fuel -> good (length ts) 0 (binary_loop fuel x p ts)) /\
  (forall ts, 8 * length ts + 4 <= fuel -> good (length ts) 1 (parse_unary_expr fuel ts)) /\
  (forall x ts, 8 * length ts + 3 <= fuel ->
     good (length ts) (match x with None => 1 | Some _ => 0 end) (parse_primary_expr fuel x ts)) /\
  (forall x ts, 8 * length ts + 2 <= fuel -> good (length ts) 0 (primary_loop fuel x ts)) /\
  (forall fn ts, 8 * length ts + 1 <= fuel -> good (length ts) 2 (parse_func_call fuel fn ts)) /\
  (forall ts, 8 * length ts + 7 <= fuel -> good (length ts) 0 (func_args fuel ts)) /\
  (forall p l ts, 8 * length ts + 1 <= fuel -> good (length ts) 2 (parse_field_access fuel p l ts)) /\
  (forall c ts, 8 * length ts + 7 <= fuel -> good (length ts) 0 (list_items fuel c ts)) /\
  (forall p ts, 8 * length ts + 1 <= fuel -> good (length ts) 2 (parse_list fuel p ts)) /\
  (forall p q ts, 8 * length ts + 6 <= fuel -> good (length ts) 3 (parse_between fuel p q ts)) /\
  (forall ts, 8 * length ts + 1 <= fuel -> good (length ts) 1 (parse_operand fuel ts)).

Ltac lenlia := cbn [length] in *; lia.

Lemma total_all : forall fuel, total fuel.
Proof.
  induction fuel as [|f IH].
  { unfold total. repeat apply conj; intros; lenlia. }
  destruct IH as (Hexpr & Hbin & Hloop & Hun & Hprim & Hploop & Hcall & Hargs & Hacc & Hitems & Hlist & Hbtw & Hopd).
  unfold total. repeat apply conj.
  - (* parse_expr *) intros ts Hf. rewrite parse_expr_S. apply (Hbin None). lenlia.
  - (* parse_binary_expr *) intros x p ts Hf. rewrite parse_binary_expr_S.
    destruct x as [x|]; [apply Hloop; lenlia|].
    eapply good_bind; [apply Hun; lenlia|]. intros a rest _ Hl.
    eapply good_weaken; [apply Hloop; lenlia|lenlia].
  - (* binary_loop *) intros x p ts Hf. rewrite binary_loop_S.
    destruct ts as [|o ts']; [apply good_ok; cbn; lenlia|]. cbv zeta. cbn [length] in *.
    destruct (Nat.ltb (precedence o) p); [apply good_ok; cbn; lenlia|].
    eapply (good_bind _ 2).
    + destruct (data o =? "in")%string.
      * destruct ts' as [|t ts'']; [apply good_err|].
        destruct (is_tp t LPAREN).
        -- eapply good_weaken; [apply Hlist; cbn [length] in *; lenlia|lenlia].
        -- eapply good_weaken; [apply (Hbin None); cbn [length] in *; lenlia|cbn [length]; lenlia].
      * destruct (data o =? "between")%string.
        -- eapply good_weaken; [apply Hbtw; lenlia|lenlia].
        -- eapply good_weaken; [apply (Hbin None); lenlia|lenlia].
    + intros y rest _ Hl. destruct (build_op (data o)); [|apply good_err].
      eapply good_weaken; [apply Hloop; lenlia|lenlia].
  - (* parse_unary_expr *) intros ts Hf. rewrite parse_unary_expr_S.
    destruct ts as [|t ts']; [apply good_err|]. cbn [length] in *.
    destruct (is_tp t OPERATOR && (data t =? "!")%string).
    + eapply (good_bind _ 2).
      * eapply good_weaken; [apply Hun; lenlia|lenlia].
      * intros a rest _ Hl. apply good_ok. lenlia.
    + apply (Hprim None (t :: ts')). cbn [length]. lenlia.
  - (* parse_primary_expr *) intros x ts Hf. rewrite parse_primary_expr_S.
    destruct x as [x|]; [apply Hploop; lenlia|].
    eapply good_bind; [apply Hopd; lenlia|]. intros a rest _ Hl.
    eapply good_weaken; [apply Hploop; lenlia|lenlia].
  - (* primary_loop *) intros x ts Hf. rewrite primary_loop_S.
    destruct ts as [|t ts']; [apply good_ok; cbn; lenlia|].
    destruct (is_tp t LPAREN).
    + eapply good_bind; [apply Hcall; lenlia|]. intros a rest _ Hl.
      eapply good_weaken; [apply Hploop; lenlia|lenlia].
    + destruct (is_tp t LBRACK); [|apply good_ok; lenlia].
      eapply good_bind; [apply Hacc; lenlia|]. intros a rest _ Hl.
      eapply good_weaken; [apply Hploop; lenlia|lenlia].
  - (* parse_func_call *) intros fn ts Hf. rewrite parse_func_call_S.
    eapply good_bind; [apply good_expect; lenlia|]. intros u ts1 E Hl.
    apply expect_rest in E.
    eapply (good_bind _ 1).
    + eapply good_weaken; [apply Hargs; lenlia|lenlia].
    + intros args ts2 _ Hl2. eapply (good_bind _ 2).
      * eapply good_weaken; [apply (good_expect (length ts2)); lenlia|lenlia].
      * intros u2 ts3 _ Hl3. apply good_ok. lenlia.
  - (* func_args *) intros ts Hf. rewrite func_args_S.
    destruct ts as [|t ts']; [apply good_ok; cbn; lenlia|].
    destruct (is_tp t RPAREN); [apply good_ok; lenlia|].
    eapply good_bind; [apply Hexpr; lenlia|]. intros arg ts1 _ Hl.
    destruct ts1 as [|t1 ts2]; [apply good_ok; cbn; lenlia|].
    destruct (is_tp t1 RPAREN); [apply good_ok; lenlia|].
    destruct (is_tp t1 SEP && (data t1 =? ",")%string); [|apply good_err].
    cbn [length] in Hl.
    eapply (good_bind _ 2).
    + eapply good_weaken; [apply Hargs; lenlia|lenlia].
    + intros l r _ Hl2. apply good_ok. lenlia.
  - (* parse_field_access *) intros p l ts Hf. rewrite parse_field_access_S.
    eapply good_bind; [apply good_expect; lenlia|]. intros u ts1 E Hl.
    apply expect_rest in E.
    eapply (good_bind _ 1).
    + eapply good_weaken; [apply Hitems; lenlia|lenlia].
    + intros names ts2 _ Hl2. eapply (good_bind _ 2).
      * eapply good_weaken; [apply (good_expect (length ts2)); lenlia|lenlia].
      * intros u2 ts3 _ Hl3. destruct names as [|n1 [|n2 ns]]; try apply good_err. apply good_ok. lenlia.
  - (* list_items *) intros c ts Hf. rewrite list_items_S.
    destruct ts as [|t ts']; [apply good_ok; cbn; lenlia|].
    destruct (is_tp t c); [apply good_ok; lenlia|].
    eapply good_bind; [apply Hexpr; lenlia|]. intros arg ts1 _ Hl.
    destruct ts1 as [|t1 ts2]; [apply good_ok; cbn; lenlia|].
    destruct (is_tp t1 c); [apply good_ok; lenlia|].
    cbn [length] in Hl.
    eapply (good_bind _ 2).
    + eapply good_weaken; [apply Hitems; lenlia|lenlia].
    + intros l r _ Hl2. apply good_ok. lenlia.
  - (* parse_list *) intros p ts Hf. rewrite parse_list_S.
    eapply good_bind; [apply good_expect; lenlia|]. intros u ts1 E Hl.
    apply expect_rest in E.
    eapply (good_bind _ 1).
    + eapply good_weaken; [apply Hitems; lenlia|lenlia].
    + intros l ts2 _ Hl2. eapply (good_bind _ 2).
      * eapply good_weaken; [apply (good_expect (length ts2)); lenlia|lenlia].
      * intros u2 ts3 _ Hl3. apply good_ok. lenlia.
  - (* parse_between *) intros p q ts Hf. rewrite parse_between_S.
    eapply good_bind; [apply (Hbin None); lenlia|]. intros lo ts1 _ Hl.
    eapply (good_bind _ 2).
    + eapply good_weaken; [apply (good_expect (length ts1)); lenlia|lenlia].
    + intros u ts2 _ Hl2. eapply (good_bind _ 3).
      * eapply good_weaken; [apply (Hbin None); lenlia|cbn; lenlia].
      * intros hi ts3 _ Hl3. apply good_ok. lenlia.
  - (* parse_operand *) intros ts Hf. rewrite parse_operand_S.
    destruct ts as [|t ts']; [apply good_panic|]. cbn [length] in *.
    destruct (tp t); try apply good_err; try (apply good_ok; lenlia).
    eapply (good_bind _ 2).
    + eapply good_weaken; [apply Hexpr; lenlia|lenlia].
    + intros x ts1 _ Hl. eapply (good_bind _ 3).
      * eapply good_weaken; [apply (good_expect (length ts1)); lenlia|lenlia].
      * intros u ts2 _ Hl2. apply good_ok. lenlia.
Qed.

(* at the fuel the twins are run with *)
Lemma pexpr_good ts : good (length ts) 1 (pexpr ts).
Proof.
  unfold pexpr, fuel_of. destruct (total_all (8 * length ts + 8)) as (H & _). apply H. lia.
Qed.

Theorem parse_expr_top_total ts :
  parse_expr_top ts <> PFuel /\ parse_expr_top ts <> PPanic /\
  forall e rest, parse_expr_top ts = POk e rest -> length rest < length ts.
Proof.
  destruct (pexpr_good ts) as [H1 H2]. pose proof (parse_image_thm ts) as Hi.
  unfold pexpr in *. unfold parse_expr_top in *.
  split; [exact H1|]. split.
  - intros E. rewrite E in Hi. exact Hi.
  - intros e rest E. specialize (H2 e rest E). lia.
Qed.

(* ================================================================ B. positions of the
   expression parser *)

Section Prov.
Variable P : nat -> Prop.

Definition TP (ts : list token) : Prop := Forall (fun t => P (pos t)) ts.
Definition AP (e : expr) : Prop := Forall P (positions e).

(* outcome: a value satisfying Q and remaining tokens with P-positions, or an error at a
   P-position (or at end of input) *)
Definition okres {A} (Q : A -> Prop) (r : pres A) : Prop :=
  match r with
  | POk a rest => Q a /\ TP rest
  | PErr (Some p) => P p
  | _ => True
  end.

Lemma okres_bind {A B} (QA : A -> Prop) (QB : B -> Prop) (r : pres A) (k : A -> list token -> pres B) :
  okres QA r -> (forall a rest, QA a -> TP rest -> okres QB (k a rest)) -> okres QB (bind r k).
Proof.
  intros H Hk. destruct r as [a rest|p| |]; cbn [bind okres] in *; auto.
  destruct H as [H1 H2]. apply Hk; assumption.
Qed.

Lemma okres_expect k ts : TP ts -> okres (fun _ : unit => True) (expect k ts).
Proof.
  intros H. destruct ts as [|t ts']; cbn [expect okres]; [exact I|].
  inversion H; subst. destruct (toktype_eqb (tp t) k); cbn [okres]; auto.
Qed.

Lemma TP_tail t ts : TP (t :: ts) -> TP ts.
Proof. intros H. inversion H; assumption. Qed.
Lemma TP_head t ts : TP (t :: ts) -> P (pos t).
Proof. intros H. inversion H; assumption. Qed.

Lemma AP_flat l : Forall AP l -> Forall P (flat_map positions l).
Proof.
  induction 1 as [|e l He _ IH]; cbn [flat_map]; [constructor|].
  apply Forall_app. split; assumption.
Qed.

Lemma AP_epos e : AP e -> P (epos e).
Proof. unfold AP. destruct e; cbn [positions epos]; intros H; inversion H; assumption. Qed.

Lemma AP_bin p o l r : P p -> AP l -> AP r -> AP (EBin p o l r).
Proof. intros. unfold AP. cbn [positions]. constructor; [assumption|]. apply Forall_app. split; assumption. Qed.
Lemma AP_not p r : P p -> AP r -> AP (ENot p r).
Proof. intros. unfold AP. cbn [positions]. constructor; assumption. Qed.
Lemma AP_call n args : AP n -> Forall AP args -> AP (ECall (epos n) n args).
Proof.
  intros Hn Ha. unfold AP. cbn [positions]. constructor; [apply AP_epos; exact Hn|].
  apply Forall_app. split; [exact Hn|apply AP_flat; exact Ha].
Qed.
Lemma AP_list p l : P p -> Forall AP l -> AP (EList p l).
Proof. intros. unfold AP. cbn [positions]. constructor; [assumption|]. apply AP_flat. assumption. Qed.
Lemma AP_access p l f : P p -> AP l -> AP f -> AP (EAccess p l f).
Proof. intros. unfold AP. cbn [positions]. constructor; [assumption|]. apply Forall_app. split; assumption. Qed.
Lemma AP_atom p (e : expr) : positions e = [p] -> P p -> AP e.
Proof. intros E H. unfold AP. rewrite E. constructor; [exact H|constructor]. Qed.

Definition provenance (fuel : nat) : Prop :=
  (forall ts, TP ts -> okres AP (parse_expr fuel ts)) /\
  (forall x p ts, TP ts -> match x with Some x' => AP x' | None => True end ->
                  okres AP (parse_binary_expr fuel x p ts)) /\
  (forall x p ts, TP ts -> AP x -> okres AP (binary_loop fuel x p ts)) /\
  (forall ts, TP ts -> okres AP (parse_unary_expr fuel ts)) /\
  (forall x ts, TP ts -> match x with Some x' => AP x' | None => True end ->
                okres AP (parse_primary_expr fuel x ts)) /\
  (forall x ts, TP ts -> AP x -> okres AP (primary_loop fuel x ts)) /\
  (forall fn ts, TP ts -> AP fn -> okres AP (parse_func_call fuel fn ts)) /\
  (forall ts, TP ts -> okres (Forall AP) (func_args fuel ts)) /\
  (forall p l ts, TP ts -> P p -> AP l -> okres AP (parse_field_access fuel p l ts)) /\
  (forall c ts, TP ts -> okres (Forall AP) (list_items fuel c ts)) /\
  (forall p ts, TP ts -> P p -> okres AP (parse_list fuel p ts)) /\
  (forall p q ts, TP ts -> P p -> okres AP (parse_between fuel p q ts)) /\
  (forall ts, TP ts -> okres AP (parse_operand fuel ts)).

Lemma provenance_all : forall fuel, provenance fuel.
Proof.
  induction fuel as [|f IH].
  { unfold provenance. repeat apply conj; intros; exact I. }
  destruct IH as (Hexpr & Hbin & Hloop & Hun & Hprim & Hploop & Hcall & Hargs & Hacc & Hitems & Hlist & Hbtw & Hopd).
  unfold provenance. repeat apply conj.
  - (* parse_expr *) intros ts HT. rewrite parse_expr_S. apply (Hbin None); [exact HT|exact I].
  - (* parse_binary_expr *) intros x p ts HT Hx. rewrite parse_binary_expr_S.
    destruct x as [x|]; [apply Hloop; assumption|].
    eapply okres_bind; [apply Hun; exact HT|]. intros a rest Ha Hr. apply Hloop; assumption.
  - (* binary_loop *) intros x p ts HT Hx. rewrite binary_loop_S.
    destruct ts as [|o ts']; [cbn [okres]; split; [exact Hx|constructor]|]. cbv zeta.
    pose proof (TP_head _ _ HT) as Ho. pose proof (TP_tail _ _ HT) as HT'.
    destruct (Nat.ltb (precedence o) p); [cbn [okres]; split; assumption|].
    eapply (okres_bind AP).
    + destruct (data o =? "in")%string.
      * destruct ts' as [|t ts'']; [exact I|].
        destruct (is_tp t LPAREN); [apply Hlist; assumption|apply (Hbin None); [assumption|exact I]].
      * destruct (data o =? "between")%string; [apply Hbtw; assumption|apply (Hbin None); [assumption|exact I]].
    + intros y rest Hy Hr. destruct (build_op (data o)); [|exact Ho].
      apply Hloop; [exact Hr|]. apply AP_bin; assumption.
  - (* parse_unary_expr *) intros ts HT. rewrite parse_unary_expr_S.
    destruct ts as [|t ts']; [exact I|].
    pose proof (TP_head _ _ HT) as Ht. pose proof (TP_tail _ _ HT) as HT'.
    destruct (is_tp t OPERATOR && (data t =? "!")%string).
    + eapply okres_bind; [apply Hun; exact HT'|]. intros a rest Ha Hr.
      cbn [okres]. split; [apply AP_not; assumption|exact Hr].
    + apply (Hprim None); [exact HT|exact I].
  - (* parse_primary_expr *) intros x ts HT Hx. rewrite parse_primary_expr_S.
    destruct x as [x|]; [apply Hploop; assumption|].
    eapply okres_bind; [apply Hopd; exact HT|]. intros a rest Ha Hr. apply Hploop; assumption.
  - (* primary_loop *) intros x ts HT Hx. rewrite primary_loop_S.
    destruct ts as [|t ts']; [cbn [okres]; split; [exact Hx|constructor]|].
    pose proof (TP_head _ _ HT) as Ht.
    destruct (is_tp t LPAREN).
    + eapply okres_bind; [apply Hcall; assumption|]. intros a rest Ha Hr. apply Hploop; assumption.
    + destruct (is_tp t LBRACK); [|cbn [okres]; split; assumption].
      eapply okres_bind; [apply Hacc; assumption|]. intros a rest Ha Hr. apply Hploop; assumption.
  - (* parse_func_call *) intros fn ts HT Hfn. rewrite parse_func_call_S.
    eapply okres_bind; [apply okres_expect; exact HT|]. intros u ts1 _ HT1.
    eapply okres_bind; [apply Hargs; exact HT1|]. intros args ts2 Ha HT2.
    eapply okres_bind; [apply okres_expect; exact HT2|]. intros u2 ts3 _ HT3.
    cbn [okres]. split; [apply AP_call; assumption|exact HT3].
  - (* func_args *) intros ts HT. rewrite func_args_S.
    destruct ts as [|t ts']; [cbn [okres]; split; constructor|].
    destruct (is_tp t RPAREN); [cbn [okres]; split; [constructor|exact HT]|].
    eapply okres_bind; [apply Hexpr; exact HT|]. intros arg ts1 Ha HT1.
    destruct ts1 as [|t1 ts2]; [cbn [okres]; split; [repeat constructor; exact Ha|constructor]|].
    destruct (is_tp t1 RPAREN); [cbn [okres]; split; [repeat constructor; exact Ha|exact HT1]|].
    destruct (is_tp t1 SEP && (data t1 =? ",")%string); [|exact (TP_head _ _ HT1)].
    eapply okres_bind; [apply Hargs; exact (TP_tail _ _ HT1)|]. intros l r Hl Hr.
    cbn [okres]. split; [constructor; assumption|exact Hr].
  - (* parse_field_access *) intros p l ts HT Hp Hl. rewrite parse_field_access_S.
    eapply okres_bind; [apply okres_expect; exact HT|]. intros u ts1 _ HT1.
    eapply okres_bind; [apply Hitems; exact HT1|]. intros names ts2 Hn HT2.
    eapply okres_bind; [apply okres_expect; exact HT2|]. intros u2 ts3 _ HT3.
    destruct names as [|n1 [|n2 ns]]; cbn [okres]; try exact Hp.
    inversion Hn; subst. split; [apply AP_access; assumption|exact HT3].
  - (* list_items *) intros c ts HT. rewrite list_items_S.
    destruct ts as [|t ts']; [cbn [okres]; split; constructor|].
    destruct (is_tp t c); [cbn [okres]; split; [constructor|exact HT]|].
    eapply okres_bind; [apply Hexpr; exact HT|]. intros arg ts1 Ha HT1.
    destruct ts1 as [|t1 ts2]; [cbn [okres]; split; [repeat constructor; exact Ha|constructor]|].
    destruct (is_tp t1 c); [cbn [okres]; split; [repeat constructor; exact Ha|exact HT1]|].
    eapply okres_bind; [apply Hitems; exact (TP_tail _ _ HT1)|]. intros l r Hl Hr.
    cbn [okres]. split; [constructor; assumption|exact Hr].
  - (* parse_list *) intros p ts HT Hp. rewrite parse_list_S.
    eapply okres_bind; [apply okres_expect; exact HT|]. intros u ts1 _ HT1.
    eapply okres_bind; [apply Hitems; exact HT1|]. intros l ts2 Hl HT2.
    eapply okres_bind; [apply okres_expect; exact HT2|]. intros u2 ts3 _ HT3.
    cbn [okres]. split; [apply AP_list; assumption|exact HT3].
  - (* parse_between *) intros p q ts HT Hp. rewrite parse_between_S.
    eapply okres_bind; [apply (Hbin None); [exact HT|exact I]|]. intros lo ts1 Hlo HT1.
    eapply okres_bind; [apply okres_expect; exact HT1|]. intros u ts2 _ HT2.
    eapply okres_bind; [apply (Hbin None); [exact HT2|exact I]|]. intros hi ts3 Hhi HT3.
    cbn [okres]. split; [apply AP_list; [exact Hp|repeat constructor; assumption]|exact HT3].
  - (* parse_operand *) intros ts HT. rewrite parse_operand_S.
    destruct ts as [|t ts']; [exact I|].
    pose proof (TP_head _ _ HT) as Ht. pose proof (TP_tail _ _ HT) as HT'.
    destruct (tp t); cbn [okres]; try exact Ht;
      try (split; [eapply AP_atom; [reflexivity|exact Ht]|exact HT']).
    eapply okres_bind; [apply Hexpr; exact HT'|]. intros x ts1 Hx HT1.
    eapply okres_bind; [apply okres_expect; exact HT1|]. intros u ts2 _ HT2.
    cbn [okres]. split; assumption.
Qed.

Lemma pexpr_prov ts : TP ts -> okres AP (pexpr ts).
Proof. intros H. unfold pexpr. destruct (provenance_all (fuel_of ts)) as (H1 & _). apply H1. exact H. Qed.

End Prov.

(* ================================================================ C. the statement parser is
   total: never out of fuel, never a nil dereference *)

Definition fine {A} (n d : nat) (r : pres A) : Prop :=
  r <> PFuel /\ r <> PPanic /\ forall a rest, r = POk a rest -> length rest + d <= n.

Lemma fine_ok {A} n d (a : A) rest : length rest + d <= n -> fine n d (POk a rest).
Proof.
  intros H. split; [discriminate|]. split; [discriminate|].
  intros a' r' E. inversion E; subst. exact H.
Qed.

Lemma fine_err {A} n d p : fine n d (@PErr A p).
Proof. split; [discriminate|]. split; [discriminate|]. intros a r E. discriminate. Qed.

Lemma fine_weaken {A} n d n' d' (r : pres A) : fine n d r -> n + d' <= n' + d -> fine n' d' r.
Proof.
  intros (H1 & H2 & H3) H. split; [exact H1|]. split; [exact H2|].
  intros a rest E. specialize (H3 a rest E). lia.
Qed.

Lemma fine_bind {A B} n d1 d (r : pres A) (k : A -> list token -> pres B) :
  fine n d1 r ->
  (forall a rest, r = POk a rest -> length rest + d1 <= n -> fine n d (k a rest)) ->
  fine n d (bind r k).
Proof.
  intros (H1 & H2 & H3) Hk. destruct r as [a rest| | |]; cbn [bind].
  - apply Hk; [reflexivity|]. exact (H3 a rest eq_refl).
  - apply fine_err.
  - congruence.
  - congruence.
Qed.

Lemma fine_expect n k ts : length ts <= n -> fine n 1 (expect k ts).
Proof.
  intros H. destruct ts as [|t ts']; cbn [expect]; [apply fine_err|].
  destruct (toktype_eqb (tp t) k); [|apply fine_err]. apply fine_ok. cbn [length] in H. lia.
Qed.

Lemma pexpr_fine ts : fine (length ts) 1 (pexpr ts).
Proof.
  destruct (pexpr_good ts) as [H1 H2]. split; [exact H1|]. split; [|exact H2].
  pose proof (parse_image_thm ts) as Hi. unfold pexpr, parse_expr_top in *.
  intros E. rewrite E in Hi. exact Hi.
Qed.

(* ---- parseLimit *)

Lemma limit_loop_fine : forall ts acc, fine (length ts) 0 (limit_loop acc ts).
Proof.
  induction ts as [|t ts' IH]; intros acc; cbn [limit_loop]; [apply fine_ok; cbn; lia|].
  destruct (tp t); try (apply fine_ok; lia).
  - (* SEP *) destruct ts' as [|t' ts'']; [apply fine_err|].
    destruct (is_tp t' NUMBER); [|apply fine_err].
    eapply fine_weaken; [apply IH|cbn [length]; lia].
  - (* NUMBER *) eapply fine_weaken; [apply IH|cbn [length]; lia].
Qed.

Lemma parse_limit_fine t ts : fine (S (length ts)) 1 (parse_limit (t :: ts)).
Proof.
  cbn [parse_limit].
  eapply fine_bind; [apply (fine_expect (S (length ts))); cbn [length]; lia|].
  intros u ts1 _ Hl.
  eapply (fine_bind _ 1); [eapply fine_weaken; [apply limit_loop_fine|lia]|].
  intros nums rest _ Hr.
  destruct nums as [|c [|s [|x l]]]; try apply fine_err; apply fine_ok; lia.
Qed.

(* ---- parseSelect *)

Lemma select_next_fine loop n fields names ts :
  length ts <= n ->
  (forall fs ns ts', S (length ts') <= n -> fine (length ts') 0 (loop fs ns ts')) ->
  fine n 0 (select_next loop fields names ts).
Proof.
  intros Hl Hloop. destruct ts as [|t ts']; cbn [select_next]; [apply fine_ok; cbn; lia|].
  destruct (is_tp t WHERE); [apply fine_ok; lia|].
  eapply fine_weaken; [apply Hloop; cbn [length] in Hl; lia|cbn [length] in Hl; lia].
Qed.

Lemma select_loop_fine : forall fuel fields names ts,
  length ts < fuel -> fine (length ts) 0 (select_loop fuel fields names ts).
Proof.
  induction fuel as [|f IH]; intros fields names ts Hf; [lia|]. cbn [select_loop].
  destruct ts as [|t ts1]; [apply fine_ok; cbn; lia|].
  destruct (is_tp t WHERE); [apply fine_ok; lia|].
  destruct (is_tp t OPERATOR && (data t =? "*")%string).
  - destruct ts1 as [|t1 ts2].
    + destruct fields; [apply fine_ok; cbn; lia|apply fine_err].
    + destruct (negb (is_tp t1 WHERE)); [apply fine_err|].
      destruct fields; [apply fine_ok; cbn [length]; lia|apply fine_err].
  - eapply fine_bind; [apply pexpr_fine|]. intros field ts2 _ Hl.
    assert (Hnext : forall fs ns ts', length ts' < length (t :: ts1) ->
                    fine (length (t :: ts1)) 0 (select_next (select_loop f) fs ns ts')).
    { intros fs ns ts' Hlt. apply select_next_fine; [lia|].
      intros fs' ns' ts'' Hlt'. apply IH. cbn [length] in *. lia. }
    destruct ts2 as [|t2 ts3]; [apply Hnext; cbn [length]; lia|].
    cbn [length] in Hl.
    destruct (is_tp t2 AS).
    + destruct ts3 as [|t3 ts4]; [apply fine_err|].
      destruct (is_tp t3 NAME); [|apply fine_err]. apply Hnext. cbn [length] in *. lia.
    + destruct (is_comma t2 || is_tp t2 WHERE); [|apply fine_err]. apply Hnext. cbn [length] in *. lia.
Qed.

Lemma parse_select_fine t ts : fine (S (length ts)) 1 (parse_select (t :: ts)).
Proof.
  cbn [parse_select].
  eapply fine_bind; [apply (fine_expect (S (length ts))); cbn [length]; lia|].
  intros u ts1 _ Hl.
  eapply (fine_bind _ 1); [eapply fine_weaken; [apply select_loop_fine; lia|lia]|].
  intros [[all fields] names] rest _ Hr.
  destruct all; [apply fine_ok; lia|].
  destruct fields; [apply fine_err|apply fine_ok; lia].
Qed.

(* ---- parseOrderBy, parseGroupBy, the tail loop *)

Section TotalHooks.
Variable h : hooks.
Variable names : list string.
Variable fields : list expr.

Lemma order_loop_fine : forall fuel acc ts,
  length ts < fuel -> fine (length ts) 0 (order_loop h names fields fuel acc ts).
Proof.
  induction fuel as [|f IH]; intros acc ts Hf; [lia|]. cbn [order_loop].
  destruct ts as [|t ts0]; [apply fine_ok; cbn; lia|].
  eapply fine_bind; [apply pexpr_fine|]. intros e ts1 _ Hl.
  destruct (hk_order h names fields e); [apply fine_err|].
  destruct ts1 as [|t1 ts2]; [apply fine_ok; cbn; lia|]. cbn [length] in *.
  destruct (is_tp t1 SEP).
  { eapply fine_weaken; [apply IH; lia|lia]. }
  destruct (is_tp t1 ASC || is_tp t1 DESC); [|apply fine_ok; cbn [length]; lia].
  cbv zeta. destruct ts2 as [|t2 ts3]; [apply fine_ok; cbn; lia|]. cbn [length] in *.
  destruct (is_tp t2 SEP); [|apply fine_ok; cbn [length]; lia].
  eapply fine_weaken; [apply IH; lia|lia].
Qed.

Lemma parse_order_by_fine t ts : fine (S (length ts)) 1 (parse_order_by h names fields (t :: ts)).
Proof.
  cbn [parse_order_by].
  eapply fine_bind; [apply (fine_expect (S (length ts))); cbn [length]; lia|].
  intros u ts1 _ Hl.
  eapply (fine_bind _ 2); [eapply fine_weaken; [apply (fine_expect (length ts1)); lia|lia]|].
  intros u2 ts2 _ Hl2.
  eapply (fine_bind _ 2); [eapply fine_weaken; [apply order_loop_fine; lia|lia]|].
  intros items rest _ Hr. apply fine_ok. lia.
Qed.

Lemma group_loop_fine : forall fuel acc ts,
  length ts < fuel -> fine (length ts) 0 (group_loop h names fields fuel acc ts).
Proof.
  induction fuel as [|f IH]; intros acc ts Hf; [lia|]. cbn [group_loop].
  destruct ts as [|t ts0]; [apply fine_ok; cbn; lia|].
  eapply fine_bind; [apply pexpr_fine|]. intros e ts1 _ Hl.
  destruct (gitem_test h names fields e); [apply fine_err|].
  destruct ts1 as [|t1 ts2]; [apply fine_ok; cbn; lia|]. cbn [length] in *.
  destruct (is_tp t1 SEP); [|apply fine_ok; cbn [length]; lia].
  eapply fine_weaken; [apply IH; lia|lia].
Qed.

Lemma parse_group_by_fine t ts : fine (S (length ts)) 1 (parse_group_by h names fields (t :: ts)).
Proof.
  cbn [parse_group_by].
  eapply fine_bind; [apply (fine_expect (S (length ts))); cbn [length]; lia|].
  intros u ts1 _ Hl.
  eapply (fine_bind _ 2); [eapply fine_weaken; [apply (fine_expect (length ts1)); lia|lia]|].
  intros u2 ts2 _ Hl2.
  eapply (fine_bind _ 2); [eapply fine_weaken; [apply group_loop_fine; lia|lia]|].
  intros items rest _ Hr.
  destruct (hk_gcheck h names fields items); [apply fine_err|]. apply fine_ok. lia.
Qed.

Lemma tail_loop_fine : forall fuel acc ts,
  length ts < fuel -> fine (length ts) 0 (tail_loop h names fields fuel acc ts).
Proof.
  induction fuel as [|f IH]; intros acc ts Hf; [lia|]. cbn [tail_loop].
  destruct ts as [|t ts0]; [apply fine_ok; cbn; lia|]. cbn [length] in Hf.
  destruct (is_tp t ORDER).
  { destruct (t_order acc); [apply fine_err|].
    eapply fine_bind; [apply parse_order_by_fine|]. intros o rest _ Hl.
    destruct (o_items o); [apply fine_err|].
    eapply fine_weaken; [apply IH; lenlia|lenlia]. }
  destruct (is_tp t GROUP).
  { destruct (t_group acc); [apply fine_err|].
    eapply fine_bind; [apply parse_group_by_fine|]. intros g rest _ Hl.
    destruct (g_items g); [apply fine_err|].
    eapply fine_weaken; [apply IH; lenlia|lenlia]. }
  destruct (is_tp t LIMIT); [|apply fine_err].
  destruct (t_limit acc); [apply fine_err|].
  eapply fine_bind; [apply parse_limit_fine|]. intros l rest _ Hl.
  destruct rest as [|t' rest']; [|apply fine_err].
  eapply fine_weaken; [apply IH; lenlia|lenlia].
Qed.

End TotalHooks.

(* ---- parsePut, parseRemove, parseDelete *)

Lemma parse_put_pair_fine ts : fine (length ts) 1 (parse_put_pair ts).
Proof.
  unfold parse_put_pair.
  eapply fine_bind; [apply fine_expect; lia|]. intros u ts1 _ Hl.
  eapply (fine_bind _ 1); [eapply fine_weaken; [apply pexpr_fine|lia]|]. intros k ts2 _ Hl2.
  destruct ts2 as [|t2 ts3]; [apply fine_err|]. cbn [length] in Hl2.
  destruct (is_comma t2); [|apply fine_err].
  eapply (fine_bind _ 1); [eapply fine_weaken; [apply pexpr_fine|lia]|]. intros v ts4 _ Hl4.
  eapply (fine_bind _ 1); [eapply fine_weaken; [apply (fine_expect (length ts4)); lia|lia]|].
  intros u5 ts5 _ Hl5. apply fine_ok. lia.
Qed.

Lemma put_loop_fine : forall fuel acc ts,
  length ts < fuel -> fine (length ts) 0 (put_loop fuel acc ts).
Proof.
  induction fuel as [|f IH]; intros acc ts Hf; [lia|]. cbn [put_loop].
  destruct ts as [|t ts0]; [apply fine_ok; cbn; lia|].
  eapply fine_bind; [apply parse_put_pair_fine|]. intros kv ts1 _ Hl.
  destruct ts1 as [|t1 ts2]; [apply fine_ok; cbn; lia|].
  eapply (fine_bind _ 1); [eapply fine_weaken; [apply (fine_expect (length (t1 :: ts2))); lia|lia]|].
  intros u ts3 _ Hl3. eapply fine_weaken; [apply IH; lia|lia].
Qed.

Lemma parse_put_fine t ts : fine (S (length ts)) 1 (parse_put (t :: ts)).
Proof.
  cbn [parse_put].
  eapply fine_bind; [apply (fine_expect (S (length ts))); cbn [length]; lia|].
  intros u ts1 _ Hl.
  eapply (fine_bind _ 1); [eapply fine_weaken; [apply put_loop_fine; lia|lia]|].
  intros pairs rest _ Hr. apply fine_ok. lia.
Qed.

Lemma remove_loop_fine : forall fuel acc ts,
  length ts < fuel -> fine (length ts) 0 (remove_loop fuel acc ts).
Proof.
  induction fuel as [|f IH]; intros acc ts Hf; [lia|]. cbn [remove_loop].
  destruct ts as [|t ts0]; [apply fine_ok; cbn; lia|].
  eapply fine_bind; [apply pexpr_fine|]. intros k ts1 _ Hl.
  destruct ts1 as [|t1 ts2]; [apply fine_ok; cbn; lia|].
  eapply (fine_bind _ 1); [eapply fine_weaken; [apply (fine_expect (length (t1 :: ts2))); lia|lia]|].
  intros u ts3 _ Hl3. eapply fine_weaken; [apply IH; lia|lia].
Qed.

Lemma parse_remove_fine t ts : fine (S (length ts)) 1 (parse_remove (t :: ts)).
Proof.
  cbn [parse_remove].
  eapply fine_bind; [apply (fine_expect (S (length ts))); cbn [length]; lia|].
  intros u ts1 _ Hl.
  eapply (fine_bind _ 1); [eapply fine_weaken; [apply remove_loop_fine; lia|lia]|].
  intros keys rest _ Hr. apply fine_ok. lia.
Qed.

Lemma parse_delete_fine t ts : fine (S (length ts)) 1 (parse_delete (t :: ts)).
Proof.
  cbn [parse_delete].
  eapply fine_bind; [apply (fine_expect (S (length ts))); cbn [length]; lia|].
  intros u ts1 _ Hl.
  eapply (fine_bind _ 1); [eapply fine_weaken; [apply (fine_expect (length ts1)); lia|lia]|].
  intros u2 ts2 E2 Hl2.
  destruct ts1 as [|tw ts1']; [cbn [expect] in E2; discriminate|].
  eapply (fine_bind _ 1); [eapply fine_weaken; [apply pexpr_fine|lia]|]. intros w ts3 _ Hl3.
  destruct ts3 as [|t3 ts3']; [apply fine_ok; cbn; lia|].
  destruct (is_tp t3 LIMIT); [|apply fine_err].
  eapply (fine_bind _ 1); [eapply fine_weaken; [apply parse_limit_fine|cbn [length] in *; lia]|].
  intros l ts4 _ Hl4. destruct ts4; [apply fine_ok; cbn; lia|apply fine_err].
Qed.

(* ---- Parser.Parse *)

Lemma parse_where_tail_fine h sh wpos ts : fine (length ts) 0 (parse_where_tail h sh wpos ts).
Proof.
  unfold parse_where_tail. destruct ts as [|t ts0]; [apply fine_err|].
  eapply fine_bind; [apply pexpr_fine|]. intros w ts1 _ Hl.
  destruct (hk_cycles h (sh_names sh) (sh_fields sh)); [apply fine_err|].
  eapply (fine_bind _ 0); [eapply fine_weaken; [apply tail_loop_fine; lia|lia]|].
  intros tl rest _ Hr. apply fine_ok. lia.
Qed.

Lemma parse_query_fine h ts : fine (length (trim_end_semis ts)) 0 (parse_query h ts).
Proof.
  unfold parse_query. cbv zeta. destruct (trim_end_semis ts) as [|t ts1]; [apply fine_err|].
  destruct (tp t); try apply fine_err.
  - (* SELECT *)
    eapply fine_bind; [apply parse_select_fine|]. intros sh rest _ Hl.
    destruct rest as [|tw rest1]; [apply fine_err|].
    eapply fine_weaken; [apply parse_where_tail_fine|cbn [length] in *; lia].
  - (* WHERE *) eapply fine_weaken; [apply parse_where_tail_fine|cbn [length]; lia].
  - (* PUT *) eapply fine_weaken; [apply parse_put_fine|cbn [length]; lia].
  - (* REMOVE *) eapply fine_weaken; [apply parse_remove_fine|cbn [length]; lia].
  - (* DELETE *) eapply fine_weaken; [apply parse_delete_fine|cbn [length]; lia].
Qed.

(* totality: on EVERY token list and for every behaviour of the semantic tests the statement
   parser twin, with the fuel it is run with, returns a statement or a syntax error -- it never
   runs out of fuel and never reaches a nil dereference of the Go code *)
Theorem parse_with_total h ts :
  (exists s, parse_with h ts = SOk s) \/ (exists p, parse_with h ts = SErr p).
Proof.
  destruct (parse_query_fine h ts) as (H1 & H2 & _). unfold parse_with.
  destruct (parse_query h ts) as [s rest|p| |]; [left; eauto|right; eauto|congruence|congruence].
Qed.

Theorem parse_statement_total ts :
  (exists s, parse_statement ts = SOk s) \/ (exists p, parse_statement ts = SErr p).
Proof. apply parse_with_total. Qed.

(* ================================================================ D. positions of the
   statement parser.  Two predicates: [P] holds of the pos of every input token (and so of
   every syntax-error position), [Pt] of every Pos stored in a tree -- it also holds of 0, the
   Pos of the FieldExpr pair made for `select *` and of a SelectStmt made for a statement that
   starts at WHERE. *)

Section StmtProv.
Variables P Pt : nat -> Prop.
Hypothesis Hsub : forall p, P p -> Pt p.
Hypothesis Hzero : Pt 0.

Notation TPp := (TP P).
Notation APp := (AP P).
Notation APt := (AP Pt).
Notation ok := (okres P).

Lemma AP_mono e : APp e -> APt e.
Proof. unfold AP. apply Forall_impl. exact Hsub. Qed.

Lemma APs_mono l : Forall APp l -> Forall APt l.
Proof. apply Forall_impl. exact AP_mono. Qed.

(* a semantic test reports the position of a node it is given (or, more generally, a position
   that satisfies [P] as soon as the positions in the select fields satisfy [Pt] and those in
   the item at hand satisfy [P]) *)
Definition hooks_ok (h : hooks) : Prop :=
  (forall ns fs p, Forall APt fs -> hk_cycles h ns fs = Some p -> P p) /\
  (forall ns fs e p, Forall APt fs -> APp e -> hk_order h ns fs e = Some p -> P p) /\
  (forall ns fs e p, Forall APt fs -> APp e -> hk_gitem h ns fs e = Some p -> P p) /\
  (forall ns fs items p, Forall APt fs -> Forall APp items -> hk_gcheck h ns fs items = Some p -> P p).

Lemma ok_head_pos {A} (Q : A -> Prop) rest : TPp rest -> ok Q (PErr (head_pos rest)).
Proof. intros H. destruct rest as [|t r]; cbn [head_pos okres]; [exact I|exact (TP_head P _ _ H)]. Qed.

Lemma TP_nil : TPp [].
Proof. constructor. Qed.

(* ---- parseLimit *)

Lemma limit_loop_prov : forall ts acc, TPp ts -> ok (fun _ => True) (limit_loop acc ts).
Proof.
  induction ts as [|t ts' IH]; intros acc HT; cbn [limit_loop]; [cbn [okres]; split; [exact I|exact HT]|].
  pose proof (TP_head P _ _ HT) as Ht. pose proof (TP_tail P _ _ HT) as HT'.
  destruct (tp t); try (cbn [okres]; split; [exact I|exact HT]).
  - (* SEP *) destruct ts' as [|t' ts'']; [exact Ht|].
    destruct (is_tp t' NUMBER); [apply IH; exact HT'|exact (TP_head P _ _ HT')].
  - (* NUMBER *) apply IH; exact HT'.
Qed.

Lemma parse_limit_prov t ts : TPp (t :: ts) -> ok (fun l => P (l_pos l)) (parse_limit (t :: ts)).
Proof.
  intros HT. cbn [parse_limit]. pose proof (TP_head P _ _ HT) as Ht.
  eapply okres_bind; [apply okres_expect; exact HT|]. intros u ts1 _ HT1.
  eapply okres_bind; [apply limit_loop_prov; exact HT1|]. intros nums rest _ Hr.
  destruct nums as [|c [|s [|x l]]]; try (apply ok_head_pos; exact Hr);
    cbn [okres l_pos]; split; assumption.
Qed.

(* ---- parseSelect *)

Definition sel_ok (r : bool * list expr * list string) : Prop := Forall APp (snd (fst r)).

Lemma select_next_prov loop fields names ts :
  TPp ts -> Forall APp fields ->
  (forall fs ns ts', TPp ts' -> Forall APp fs -> ok sel_ok (loop fs ns ts')) ->
  ok sel_ok (select_next loop fields names ts).
Proof.
  intros HT Hf Hloop. destruct ts as [|t ts']; cbn [select_next]; [cbn [okres]; split; [exact Hf|exact HT]|].
  destruct (is_tp t WHERE); [cbn [okres]; split; [exact Hf|exact HT]|].
  apply Hloop; [exact (TP_tail P _ _ HT)|exact Hf].
Qed.

Lemma Forall_snoc {A} (Q : A -> Prop) l x : Forall Q l -> Q x -> Forall Q (l ++ [x]).
Proof. intros Hl Hx. apply Forall_app. split; [exact Hl|constructor; [exact Hx|constructor]]. Qed.

Lemma select_loop_prov : forall fuel fields names ts,
  TPp ts -> Forall APp fields -> ok sel_ok (select_loop fuel fields names ts).
Proof.
  induction fuel as [|f IH]; intros fields names ts HT Hf; [exact I|]. cbn [select_loop].
  destruct ts as [|t ts1]; [cbn [okres]; split; [exact Hf|exact HT]|].
  pose proof (TP_tail P _ _ HT) as HT1.
  destruct (is_tp t WHERE); [cbn [okres]; split; [exact Hf|exact HT]|].
  destruct (is_tp t OPERATOR && (data t =? "*")%string).
  - destruct ts1 as [|t1 ts2].
    + destruct fields; [cbn [okres]; split; [exact Hf|exact HT1]|exact I].
    + pose proof (TP_head P _ _ HT1) as Ht1.
      destruct (negb (is_tp t1 WHERE)); [exact Ht1|].
      destruct fields; [cbn [okres]; split; [exact Hf|exact HT1]|exact Ht1].
  - eapply okres_bind; [apply pexpr_prov; exact HT|]. intros field ts2 Hfield HT2.
    assert (Hnext : forall ns ts', TPp ts' ->
                    ok sel_ok (select_next (select_loop f) (fields ++ [field]) ns ts')).
    { intros ns ts' HT'. apply select_next_prov; [exact HT'|apply Forall_snoc; assumption|].
      intros fs ns' ts'' HT'' Hfs. apply IH; assumption. }
    destruct ts2 as [|t2 ts3]; [apply Hnext; exact HT2|].
    pose proof (TP_head P _ _ HT2) as Ht2. pose proof (TP_tail P _ _ HT2) as HT3.
    destruct (is_tp t2 AS).
    + destruct ts3 as [|t3 ts4]; [exact I|].
      destruct (is_tp t3 NAME); [apply Hnext; exact (TP_tail P _ _ HT3)|exact (TP_head P _ _ HT3)].
    + destruct (is_comma t2 || is_tp t2 WHERE); [apply Hnext; exact HT2|exact Ht2].
Qed.

Definition head_ok (sh : sel_head) : Prop := Pt (sh_pos sh) /\ Forall APt (sh_fields sh).

Lemma star_fields_ok : Forall APt star_fields.
Proof. unfold star_fields. repeat constructor; exact Hzero. Qed.

Lemma parse_select_prov t ts : TPp (t :: ts) -> ok head_ok (parse_select (t :: ts)).
Proof.
  intros HT. cbn [parse_select]. pose proof (TP_head P _ _ HT) as Ht.
  eapply okres_bind; [apply okres_expect; exact HT|]. intros u ts1 _ HT1.
  eapply okres_bind; [apply select_loop_prov; [exact HT1|constructor]|].
  intros [[all fields] names] rest Hr HTr. unfold sel_ok in Hr. cbn [fst snd] in Hr.
  destruct all.
  - cbn [okres]. split; [|exact HTr]. split; [apply Hsub; exact Ht|exact star_fields_ok].
  - destruct fields as [|f0 fs]; [exact Ht|].
    cbn [okres]. split; [|exact HTr]. split; [apply Hsub; exact Ht|apply APs_mono; exact Hr].
Qed.

(* ---- parseOrderBy, parseGroupBy, the tail loop *)

Section ProvHooks.
Variable h : hooks.
Hypothesis Hh : hooks_ok h.
Variable names : list string.
Variable fields : list expr.
Hypothesis Hfields : Forall APt fields.

Definition oitems_ok (l : list (expr * dir)) : Prop := Forall (fun it => APp (fst it)) l.

Lemma order_loop_prov : forall fuel acc ts,
  TPp ts -> oitems_ok acc -> ok oitems_ok (order_loop h names fields fuel acc ts).
Proof.
  induction fuel as [|f IH]; intros acc ts HT Hacc; [exact I|]. cbn [order_loop].
  destruct ts as [|t ts0]; [cbn [okres]; split; [exact Hacc|exact HT]|].
  eapply okres_bind; [apply pexpr_prov; exact HT|]. intros e ts1 He HT1.
  destruct (hk_order h names fields e) as [p|] eqn:Ehk.
  { destruct Hh as (_ & Ho & _). exact (Ho _ _ _ _ Hfields He Ehk). }
  assert (Hsn : forall d, oitems_ok (acc ++ [(e, d)])).
  { intros d. apply Forall_snoc; [exact Hacc|exact He]. }
  destruct ts1 as [|t1 ts2]; [cbn [okres]; split; [apply Hsn|exact HT1]|].
  pose proof (TP_tail P _ _ HT1) as HT2.
  destruct (is_tp t1 SEP); [apply IH; [exact HT2|apply Hsn]|].
  destruct (is_tp t1 ASC || is_tp t1 DESC); [|cbn [okres]; split; [apply Hsn|exact HT1]].
  cbv zeta. destruct ts2 as [|t2 ts3]; [cbn [okres]; split; [apply Hsn|exact HT2]|].
  destruct (is_tp t2 SEP); [|cbn [okres]; split; [apply Hsn|exact HT2]].
  apply IH; [exact (TP_tail P _ _ HT2)|apply Hsn].
Qed.

Definition order_ok (o : order_t) : Prop := P (o_pos o) /\ oitems_ok (o_items o).

Lemma parse_order_by_prov t ts : TPp (t :: ts) -> ok order_ok (parse_order_by h names fields (t :: ts)).
Proof.
  intros HT. cbn [parse_order_by]. pose proof (TP_head P _ _ HT) as Ht.
  eapply okres_bind; [apply okres_expect; exact HT|]. intros u ts1 _ HT1.
  eapply okres_bind; [apply okres_expect; exact HT1|]. intros u2 ts2 _ HT2.
  eapply okres_bind; [apply order_loop_prov; [exact HT2|constructor]|]. intros items rest Hi Hr.
  cbn [okres]. split; [|exact Hr]. split; assumption.
Qed.

Lemma group_loop_prov : forall fuel acc ts,
  TPp ts -> Forall APp acc -> ok (Forall APp) (group_loop h names fields fuel acc ts).
Proof.
  induction fuel as [|f IH]; intros acc ts HT Hacc; [exact I|]. cbn [group_loop].
  destruct ts as [|t ts0]; [cbn [okres]; split; [exact Hacc|exact HT]|].
  eapply okres_bind; [apply pexpr_prov; exact HT|]. intros e ts1 He HT1.
  destruct (gitem_test h names fields e) as [p|] eqn:Ehk.
  { destruct Hh as (_ & _ & Hg & _). unfold gitem_test in Ehk.
    destruct e; try discriminate; exact (Hg _ _ _ _ Hfields He Ehk). }
  pose proof (Forall_snoc _ _ _ Hacc He) as Hsn.
  destruct ts1 as [|t1 ts2]; [cbn [okres]; split; [exact Hsn|exact HT1]|].
  destruct (is_tp t1 SEP); [|cbn [okres]; split; [exact Hsn|exact HT1]].
  apply IH; [exact (TP_tail P _ _ HT1)|exact Hsn].
Qed.

Definition group_ok (g : group_t) : Prop := P (g_pos g) /\ Forall APp (g_items g).

Lemma parse_group_by_prov t ts : TPp (t :: ts) -> ok group_ok (parse_group_by h names fields (t :: ts)).
Proof.
  intros HT. cbn [parse_group_by]. pose proof (TP_head P _ _ HT) as Ht.
  eapply okres_bind; [apply okres_expect; exact HT|]. intros u ts1 _ HT1.
  eapply okres_bind; [apply okres_expect; exact HT1|]. intros u2 ts2 _ HT2.
  eapply okres_bind; [apply group_loop_prov; [exact HT2|constructor]|]. intros items rest Hi Hr.
  destruct (hk_gcheck h names fields items) as [p|] eqn:Ehk.
  { destruct Hh as (_ & _ & _ & Hc). exact (Hc _ _ _ _ Hfields Hi Ehk). }
  cbn [okres]. split; [|exact Hr]. split; assumption.
Qed.

Definition limit_ok (l : limit_t) : Prop := P (l_pos l).

Definition opt_ok {A} (Q : A -> Prop) (o : option A) : Prop :=
  match o with Some x => Q x | None => True end.

Definition tails_ok (tl : tails) : Prop :=
  opt_ok order_ok (t_order tl) /\ opt_ok group_ok (t_group tl) /\ opt_ok limit_ok (t_limit tl).

Lemma tail_loop_prov : forall fuel acc ts,
  TPp ts -> tails_ok acc -> ok tails_ok (tail_loop h names fields fuel acc ts).
Proof.
  induction fuel as [|f IH]; intros acc ts HT Hacc; [exact I|]. cbn [tail_loop].
  destruct ts as [|t ts0]; [cbn [okres]; split; [exact Hacc|exact HT]|].
  pose proof (TP_head P _ _ HT) as Ht. destruct Hacc as (Ho & Hg & Hl).
  destruct (is_tp t ORDER).
  { destruct (t_order acc); [exact Ht|].
    eapply okres_bind; [apply parse_order_by_prov; exact HT|]. intros o rest Hok Hr.
    destruct (o_items o) eqn:Eo; [exact (proj1 Hok)|].
    apply IH; [exact Hr|]. repeat split; cbn [t_order t_group t_limit opt_ok]; try assumption; apply Hok. }
  destruct (is_tp t GROUP).
  { destruct (t_group acc); [exact Ht|].
    eapply okres_bind; [apply parse_group_by_prov; exact HT|]. intros g rest Hok Hr.
    destruct (g_items g) eqn:Eg; [exact (proj1 Hok)|].
    apply IH; [exact Hr|]. repeat split; cbn [t_order t_group t_limit opt_ok]; try assumption; apply Hok. }
  destruct (is_tp t LIMIT); [|exact Ht].
  destruct (t_limit acc); [exact Ht|].
  eapply okres_bind; [apply parse_limit_prov; exact HT|]. intros l rest Hok Hr.
  destruct rest as [|t' rest']; [|exact (TP_head P _ _ Hr)].
  apply IH; [exact Hr|]. repeat split; cbn [t_order t_group t_limit opt_ok]; assumption.
Qed.

End ProvHooks.

(* ---- statements *)

(* every Pos of the statement structs and every tree of the statement *)
Definition stmt_ok (s : stmt) : Prop :=
  Forall Pt (stmt_own_positions s) /\ Forall APt (stmt_exprs s).

Lemma stmt_ok_positions s : stmt_ok s -> Forall Pt (stmt_positions s).
Proof.
  intros [H1 H2]. unfold stmt_positions. apply Forall_app. split; [exact H1|].
  apply AP_flat. exact H2.
Qed.

Lemma parse_put_pair_prov ts :
  TPp ts -> ok (fun kv => APp (fst kv) /\ APp (snd kv)) (parse_put_pair ts).
Proof.
  intros HT. unfold parse_put_pair.
  eapply okres_bind; [apply okres_expect; exact HT|]. intros u ts1 _ HT1.
  eapply okres_bind; [apply pexpr_prov; exact HT1|]. intros k ts2 Hk HT2.
  destruct ts2 as [|t2 ts3]; [exact I|].
  destruct (is_comma t2); [|exact (TP_head P _ _ HT2)].
  eapply okres_bind; [apply pexpr_prov; exact (TP_tail P _ _ HT2)|]. intros v ts4 Hv HT4.
  eapply okres_bind; [apply okres_expect; exact HT4|]. intros u5 ts5 _ HT5.
  cbn [okres fst snd]. split; [split; assumption|exact HT5].
Qed.

Definition pairs_ok (l : list (expr * expr)) : Prop := Forall (fun kv => APp (fst kv) /\ APp (snd kv)) l.

Lemma put_loop_prov : forall fuel acc ts,
  TPp ts -> pairs_ok acc -> ok pairs_ok (put_loop fuel acc ts).
Proof.
  induction fuel as [|f IH]; intros acc ts HT Hacc; [exact I|]. cbn [put_loop].
  destruct ts as [|t ts0]; [cbn [okres]; split; [exact Hacc|exact HT]|].
  eapply okres_bind; [apply parse_put_pair_prov; exact HT|]. intros kv ts1 Hkv HT1.
  pose proof (Forall_snoc _ _ _ Hacc Hkv) as Hsn.
  destruct ts1 as [|t1 ts2]; [cbn [okres]; split; [exact Hsn|exact HT1]|].
  eapply okres_bind; [apply okres_expect; exact HT1|]. intros u ts3 _ HT3.
  apply IH; assumption.
Qed.

Lemma pairs_ok_exprs l : pairs_ok l -> Forall APt (flat_map (fun kv => [fst kv; snd kv]) l).
Proof.
  induction 1 as [|kv l [Hk Hv] _ IH]; cbn [flat_map app]; [constructor|].
  constructor; [apply AP_mono; exact Hk|]. constructor; [apply AP_mono; exact Hv|exact IH].
Qed.

Lemma parse_put_prov t ts : TPp (t :: ts) -> ok stmt_ok (parse_put (t :: ts)).
Proof.
  intros HT. cbn [parse_put]. pose proof (TP_head P _ _ HT) as Ht.
  eapply okres_bind; [apply okres_expect; exact HT|]. intros u ts1 _ HT1.
  eapply okres_bind; [apply put_loop_prov; [exact HT1|constructor]|]. intros pairs rest Hp Hr.
  cbn [okres]. split; [|exact Hr]. split; cbn [stmt_own_positions stmt_exprs].
  - constructor; [apply Hsub; exact Ht|constructor].
  - apply pairs_ok_exprs. exact Hp.
Qed.

Lemma remove_loop_prov : forall fuel acc ts,
  TPp ts -> Forall APp acc -> ok (Forall APp) (remove_loop fuel acc ts).
Proof.
  induction fuel as [|f IH]; intros acc ts HT Hacc; [exact I|]. cbn [remove_loop].
  destruct ts as [|t ts0]; [cbn [okres]; split; [exact Hacc|exact HT]|].
  eapply okres_bind; [apply pexpr_prov; exact HT|]. intros k ts1 Hk HT1.
  pose proof (Forall_snoc _ _ _ Hacc Hk) as Hsn.
  destruct ts1 as [|t1 ts2]; [cbn [okres]; split; [exact Hsn|exact HT1]|].
  eapply okres_bind; [apply okres_expect; exact HT1|]. intros u ts3 _ HT3.
  apply IH; assumption.
Qed.

Lemma parse_remove_prov t ts : TPp (t :: ts) -> ok stmt_ok (parse_remove (t :: ts)).
Proof.
  intros HT. cbn [parse_remove]. pose proof (TP_head P _ _ HT) as Ht.
  eapply okres_bind; [apply okres_expect; exact HT|]. intros u ts1 _ HT1.
  eapply okres_bind; [apply remove_loop_prov; [exact HT1|constructor]|]. intros keys rest Hk Hr.
  cbn [okres]. split; [|exact Hr]. split; cbn [stmt_own_positions stmt_exprs].
  - constructor; [apply Hsub; exact Ht|constructor].
  - apply APs_mono. exact Hk.
Qed.

Lemma limit_positions_ok l : opt_ok limit_ok l -> Forall Pt (limit_positions l).
Proof.
  destruct l as [x|]; cbn [opt_ok limit_positions]; [|constructor].
  intros H. constructor; [apply Hsub; exact H|constructor].
Qed.

Lemma parse_delete_prov t ts : TPp (t :: ts) -> ok stmt_ok (parse_delete (t :: ts)).
Proof.
  intros HT. cbn [parse_delete]. pose proof (TP_head P _ _ HT) as Ht.
  eapply okres_bind; [apply okres_expect; exact HT|]. intros u ts1 _ HT1.
  eapply okres_bind; [apply okres_expect; exact HT1|]. intros u2 ts2 _ HT2.
  destruct ts1 as [|tw ts1']; [exact I|]. pose proof (TP_head P _ _ HT1) as Htw.
  eapply okres_bind; [apply pexpr_prov; exact HT2|]. intros w ts3 Hw HT3.
  assert (Hst : forall l rest, opt_ok limit_ok l -> TPp rest ->
                ok stmt_ok (POk (StDelete (pos t) (pos tw) w l) rest)).
  { intros l rest Hl Hr. cbn [okres]. split; [|exact Hr]. split; cbn [stmt_own_positions stmt_exprs].
    - constructor; [apply Hsub; exact Ht|]. constructor; [apply Hsub; exact Htw|].
      apply limit_positions_ok. exact Hl.
    - constructor; [apply AP_mono; exact Hw|constructor]. }
  destruct ts3 as [|t3 ts3']; [apply Hst; [exact I|exact HT3]|].
  destruct (is_tp t3 LIMIT); [|exact (TP_head P _ _ HT3)].
  eapply okres_bind; [apply parse_limit_prov; exact HT3|]. intros l ts4 Hl HT4.
  destruct ts4 as [|t4 ts4']; [apply Hst; [exact Hl|exact HT4]|exact (TP_head P _ _ HT4)].
Qed.

Lemma parse_where_tail_prov h sh wpos ts :
  hooks_ok h -> head_ok sh -> Pt wpos -> TPp ts -> ok stmt_ok (parse_where_tail h sh wpos ts).
Proof.
  intros Hh [Hsp Hsf] Hw HT. unfold parse_where_tail. destruct ts as [|t ts0]; [exact I|].
  eapply okres_bind; [apply pexpr_prov; exact HT|]. intros w ts1 Hwe HT1.
  destruct (hk_cycles h (sh_names sh) (sh_fields sh)) as [p|] eqn:Ehk.
  { destruct Hh as (Hc & _). exact (Hc _ _ _ Hsf Ehk). }
  eapply okres_bind.
  { apply (tail_loop_prov h Hh (sh_names sh) (sh_fields sh) Hsf); [exact HT1|].
    repeat split; exact I. }
  intros tl rest (Ho & Hg & Hl) Hr. cbn [okres]. split; [|exact Hr].
  split; cbn [stmt_own_positions stmt_exprs s_pos s_wpos s_order s_group s_limit s_fields s_where].
  - constructor; [exact Hsp|]. constructor; [exact Hw|].
    apply Forall_app. split.
    { destruct (t_order tl) as [o|]; [|constructor]. constructor; [apply Hsub; apply Ho|constructor]. }
    apply Forall_app. split.
    { destruct (t_group tl) as [g|]; [|constructor]. constructor; [apply Hsub; apply Hg|constructor]. }
    apply limit_positions_ok. exact Hl.
  - apply Forall_app. split; [exact Hsf|].
    constructor; [apply AP_mono; exact Hwe|].
    apply Forall_app. split.
    { destruct (t_order tl) as [o|]; [|constructor]. destruct Ho as [_ Ho].
      induction Ho as [|it l Hit _ IH]; cbn [map]; constructor; [apply AP_mono; exact Hit|exact IH]. }
    destruct (t_group tl) as [g|]; [|constructor]. apply APs_mono. apply Hg.
Qed.

Lemma TP_drop_semis l : TPp l -> TPp (drop_semis l).
Proof.
  induction 1 as [|t l Ht Hl IH]; cbn [drop_semis]; [constructor|].
  destruct (is_tp t SEMI); [exact IH|constructor; assumption].
Qed.

Lemma TP_trim ts : TPp ts -> TPp (trim_end_semis ts).
Proof.
  intros H. destruct ts as [|t r]; cbn [trim_end_semis]; [constructor|].
  inversion H; subst. constructor; [assumption|].
  apply Forall_rev. apply TP_drop_semis. apply Forall_rev. assumption.
Qed.

Lemma parse_query_prov h ts : hooks_ok h -> TPp ts -> ok stmt_ok (parse_query h ts).
Proof.
  intros Hh HT0. unfold parse_query. cbv zeta. pose proof (TP_trim _ HT0) as HT.
  destruct (trim_end_semis ts) as [|t ts1]; [exact I|].
  pose proof (TP_head P _ _ HT) as Ht. pose proof (TP_tail P _ _ HT) as HT1.
  destruct (tp t); try exact Ht.
  - (* SELECT *)
    eapply okres_bind; [apply parse_select_prov; exact HT|]. intros sh rest Hsh Hr.
    destruct rest as [|tw rest1]; [exact I|].
    apply parse_where_tail_prov; [exact Hh|exact Hsh|apply Hsub; exact (TP_head P _ _ Hr)|exact (TP_tail P _ _ Hr)].
  - (* WHERE *)
    apply parse_where_tail_prov; [exact Hh| |apply Hsub; exact Ht|exact HT1].
    split; cbn [sh_pos sh_fields]; [exact Hzero|constructor].
  - (* PUT *) apply parse_put_prov. exact HT.
  - (* REMOVE *) apply parse_remove_prov. exact HT.
  - (* DELETE *) apply parse_delete_prov. exact HT.
Qed.

End StmtProv.

(* ================================================================ the theorems *)

(* p is the pos of one of the tokens / 0 or the pos of one of the tokens *)
Definition tok_pos (ts : list token) (p : nat) : Prop := In p (map pos ts).
Definition tok_pos0 (ts : list token) (p : nat) : Prop := p = 0 \/ In p (map pos ts).

(* an error position as Go reports it: -1, or a natural number satisfying Q *)
Definition err_at (Q : nat -> Prop) (z : Z) : Prop :=
  z = (-1)%Z \/ exists p, z = Z.of_nat p /\ Q p.

Lemma TP_tok_pos ts : TP (tok_pos ts) ts.
Proof.
  unfold TP, tok_pos. apply Forall_forall. intros t Ht. apply in_map. exact Ht.
Qed.

Lemma TP_tok_pos0 ts : TP (tok_pos0 ts) ts.
Proof.
  unfold TP, tok_pos0. apply Forall_forall. intros t Ht. right. apply in_map. exact Ht.
Qed.

Lemma no_hooks_ok P Pt : hooks_ok P Pt no_hooks.
Proof. unfold hooks_ok, no_hooks. cbn. repeat split; intros; discriminate. Qed.

(* the hooks the correspondence uses (Model/StmtParser.observed_hooks) are within the scope of
   the theorems *)
Lemma mem_pos_In p l : mem_pos p l = true -> In p l.
Proof.
  unfold mem_pos. intros H. apply existsb_exists in H. destruct H as (x & Hx & E).
  apply Nat.eqb_eq in E. subst. exact Hx.
Qed.

Lemma AP_flat_in (Q : nat -> Prop) l p : Forall (AP Q) l -> In p (flat_map positions l) -> Q p.
Proof. intros H Hin. pose proof (AP_flat Q l H) as HF. rewrite Forall_forall in HF. auto. Qed.

Lemma epos_in e : In (epos e) (positions e).
Proof. destruct e; cbn [epos positions]; left; reflexivity. Qed.

Lemma AP_map_epos (Q : nat -> Prop) l p : Forall (AP Q) l -> In p (map epos l) -> Q p.
Proof.
  intros H Hin. apply in_map_iff in Hin. destruct Hin as (e & <- & He).
  rewrite Forall_forall in H. apply (AP_epos Q). apply H. exact He.
Qed.

Lemma observed_hooks_ok (Q : nat -> Prop) p : hooks_ok Q Q (observed_hooks p).
Proof.
  unfold hooks_ok, observed_hooks. cbn [hk_cycles hk_order hk_gitem hk_gcheck]. repeat split.
  - intros ns fs q Hfs. destruct (mem_pos p (flat_map positions fs)) eqn:E; [|discriminate].
    intros H; inversion H; subst. eapply AP_flat_in; [exact Hfs|apply mem_pos_In; exact E].
  - intros ns fs e q Hfs He.
    destruct (Nat.eqb p (epos e) || mem_pos p (map epos fs)) eqn:E; [|discriminate].
    intros H; inversion H; subst. apply orb_prop in E. destruct E as [E|E].
    + apply Nat.eqb_eq in E. subst. apply AP_epos. exact He.
    + eapply AP_map_epos; [exact Hfs|apply mem_pos_In; exact E].
  - intros ns fs e q Hfs He.
    destruct (mem_pos p (positions e) || mem_pos p (map epos fs)) eqn:E; [|discriminate].
    intros H; inversion H; subst. apply orb_prop in E. destruct E as [E|E].
    + unfold AP in He. rewrite Forall_forall in He. apply He. apply mem_pos_In. exact E.
    + eapply AP_map_epos; [exact Hfs|apply mem_pos_In; exact E].
  - intros ns fs items q Hfs Hit.
    destruct (mem_pos p (flat_map positions (fs ++ items))) eqn:E; [|discriminate].
    intros H; inversion H; subst. eapply AP_flat_in; [|apply mem_pos_In; exact E].
    apply Forall_app. split; assumption.
Qed.

(* ---- the expression parser (ExprParser.parse_expr_top), on every token list: every Pos in
   the returned tree is the pos of an input token; so is the position of a returned error
   (None = -1 = end of input) *)
Theorem expr_tree_positions_thm ts e rest :
  parse_expr_top ts = POk e rest -> Forall (tok_pos ts) (positions e).
Proof.
  intros E. pose proof (pexpr_prov (tok_pos ts) ts (TP_tok_pos ts)) as H.
  unfold pexpr in H. unfold parse_expr_top in E. rewrite E in H. exact (proj1 H).
Qed.

Theorem expr_err_position_thm ts p :
  parse_expr_top ts = PErr (Some p) -> tok_pos ts p.
Proof.
  intros E. pose proof (pexpr_prov (tok_pos ts) ts (TP_tok_pos ts)) as H.
  unfold pexpr in H. unfold parse_expr_top in E. rewrite E in H. exact H.
Qed.

(* ---- the statement parser with any semantic tests that report positions of their arguments *)
Theorem stmt_tree_positions_thm h ts s :
  hooks_ok (tok_pos0 ts) (tok_pos0 ts) h ->
  parse_with h ts = SOk s -> Forall (tok_pos0 ts) (stmt_positions s).
Proof.
  intros Hh E.
  pose proof (parse_query_prov (tok_pos0 ts) (tok_pos0 ts) (fun p H => H) (or_introl eq_refl)
                h ts Hh (TP_tok_pos0 ts)) as H.
  unfold parse_with in E. destruct (parse_query h ts) as [s' rest|p| |]; try discriminate.
  inversion E; subst. apply stmt_ok_positions. exact (proj1 H).
Qed.

Theorem stmt_err_position_thm h ts z :
  hooks_ok (tok_pos0 ts) (tok_pos0 ts) h ->
  parse_with h ts = SErr z -> err_at (tok_pos0 ts) z.
Proof.
  intros Hh E.
  pose proof (parse_query_prov (tok_pos0 ts) (tok_pos0 ts) (fun p H => H) (or_introl eq_refl)
                h ts Hh (TP_tok_pos0 ts)) as H.
  unfold parse_with in E. destruct (parse_query h ts) as [s' rest|p| |]; try discriminate.
  inversion E; subst. destruct p as [p|]; cbn [zpos okres] in *; [right; eauto|left; reflexivity].
Qed.

(* ---- the pure syntax: tree positions are 0 or token positions, error positions are -1 or
   token positions (never a made-up 0) *)
Theorem syntax_tree_positions_thm ts s :
  parse_statement ts = SOk s -> Forall (tok_pos0 ts) (stmt_positions s).
Proof. apply stmt_tree_positions_thm. apply no_hooks_ok. Qed.

Theorem syntax_err_position_thm ts z :
  parse_statement ts = SErr z -> err_at (tok_pos ts) z.
Proof.
  intros E.
  pose proof (parse_query_prov (tok_pos ts) (tok_pos0 ts) (fun p H => or_intror H) (or_introl eq_refl)
                no_hooks ts (no_hooks_ok _ _) (TP_tok_pos ts)) as H.
  unfold parse_statement, parse_with in E.
  destruct (parse_query no_hooks ts) as [s' rest|p| |]; try discriminate.
  inversion E; subst. destruct p as [p|]; cbn [zpos okres] in *; [right; eauto|left; reflexivity].
Qed.
