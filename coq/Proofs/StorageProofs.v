(* Proofs/StorageProofs.v -- facts about the store model of Model/Storage.v: byte order,
   get/put/delete as map operations, preservation of strict key order, the call log. *)
From Coq Require Import List String Ascii Bool Arith NArith Lia.
Import ListNotations.
From KV Require Import Base.Bytes Model.Storage.

Set Implicit Arguments.
Local Open Scope list_scope.

(* ------------------------------------------------------------------ byte order *)

Lemma N_of_ascii_inj : forall a b, N_of_ascii a = N_of_ascii b -> a = b.
Proof.
  intros a b H. rewrite <- (ascii_N_embedding a), <- (ascii_N_embedding b), H. reflexivity.
Qed.

Lemma bcompare_refl : forall a, bcompare a a = Eq.
Proof.
  induction a as [|x a IH]; cbn [bcompare]; [reflexivity|].
  rewrite N.compare_refl. exact IH.
Qed.

Lemma bcompare_eq : forall a b, bcompare a b = Eq -> a = b.
Proof.
  induction a as [|x a IH]; intros [|y b] H; cbn [bcompare] in H; try discriminate; [reflexivity|].
  destruct (N.compare_spec (N_of_ascii x) (N_of_ascii y)) as [E|L|G]; try discriminate.
  apply N_of_ascii_inj in E. subst y. f_equal. apply IH. exact H.
Qed.

Lemma bcompare_eq_iff : forall a b, bcompare a b = Eq <-> a = b.
Proof. split; [apply bcompare_eq | intros ->; apply bcompare_refl]. Qed.

Lemma bcompare_antisym : forall a b, bcompare b a = CompOpp (bcompare a b).
Proof.
  induction a as [|x a IH]; intros [|y b]; cbn [bcompare CompOpp]; try reflexivity.
  rewrite (N.compare_antisym (N_of_ascii x) (N_of_ascii y)).
  destruct (N.compare (N_of_ascii x) (N_of_ascii y)); cbn [CompOpp]; try reflexivity.
  apply IH.
Qed.

Lemma bcompare_gt_lt : forall a b, bcompare a b = Gt -> bcompare b a = Lt.
Proof. intros a b H. rewrite bcompare_antisym, H. reflexivity. Qed.

Lemma bcompare_lt_gt : forall a b, bcompare a b = Lt -> bcompare b a = Gt.
Proof. intros a b H. rewrite bcompare_antisym, H. reflexivity. Qed.

Lemma bcompare_lt_trans : forall a b c,
  bcompare a b = Lt -> bcompare b c = Lt -> bcompare a c = Lt.
Proof.
  induction a as [|x a IH]; intros [|y b] [|z c] H1 H2; cbn [bcompare] in *;
    try discriminate; try reflexivity.
  destruct (N.compare_spec (N_of_ascii x) (N_of_ascii y)) as [E1|L1|G1]; try discriminate;
  destruct (N.compare_spec (N_of_ascii y) (N_of_ascii z)) as [E2|L2|G2]; try discriminate.
  - rewrite E1, E2, N.compare_refl. eapply IH; eassumption.
  - rewrite E1. apply N.compare_lt_iff in L2. rewrite L2. reflexivity.
  - rewrite <- E2. apply N.compare_lt_iff in L1. rewrite L1. reflexivity.
  - assert (L : (N_of_ascii x < N_of_ascii z)%N) by (eapply N.lt_trans; eassumption).
    apply N.compare_lt_iff in L. rewrite L. reflexivity.
Qed.

Lemma bcompare_lt_neq : forall a b, bcompare a b = Lt -> a <> b.
Proof. intros a b H ->. rewrite bcompare_refl in H. discriminate. Qed.

Lemma eqb_false_of_lt : forall a b, bcompare a b = Lt -> String.eqb a b = false.
Proof. intros a b H. apply String.eqb_neq. apply bcompare_lt_neq. exact H. Qed.

Lemma eqb_false_of_gt : forall a b, bcompare a b = Gt -> String.eqb a b = false.
Proof.
  intros a b H. apply String.eqb_neq. intros ->. rewrite bcompare_refl in H. discriminate.
Qed.

(* ------------------------------------------------------------------ get / put / delete *)

Lemma sget_sput_same : forall k v st, sget k (sput k v st) = Some v.
Proof.
  intros k v st. induction st as [|[k' v'] st IH]; cbn [sput sget].
  - rewrite String.eqb_refl. reflexivity.
  - destruct (bcompare k k') eqn:C; cbn [sget].
    + rewrite String.eqb_refl. reflexivity.
    + rewrite String.eqb_refl. reflexivity.
    + rewrite (eqb_false_of_gt _ _ C). exact IH.
Qed.

Lemma sget_sput_other : forall k k' v st, k <> k' -> sget k' (sput k v st) = sget k' st.
Proof.
  intros k k' v st N. induction st as [|[k0 v0] st IH]; cbn [sput sget].
  - destruct (String.eqb_spec k' k); [congruence|reflexivity].
  - destruct (bcompare k k0) eqn:C; cbn [sget].
    + apply bcompare_eq in C. subst k0.
      destruct (String.eqb_spec k' k); [congruence|reflexivity].
    + destruct (String.eqb_spec k' k); [congruence|reflexivity].
    + destruct (String.eqb k' k0); [reflexivity|exact IH].
Qed.

Lemma sget_sput : forall k k' v st,
  sget k' (sput k v st) = if String.eqb k' k then Some v else sget k' st.
Proof.
  intros. destruct (String.eqb_spec k' k) as [->|N].
  - apply sget_sput_same.
  - apply sget_sput_other. congruence.
Qed.

Lemma sget_sdel : forall k k' st,
  sget k' (sdel k st) = if String.eqb k' k then None else sget k' st.
Proof.
  intros k k' st. induction st as [|[k0 v0] st IH]; cbn [sdel sget].
  - destruct (String.eqb k' k); reflexivity.
  - destruct (String.eqb_spec k k0) as [->|N].
    + rewrite IH. destruct (String.eqb_spec k' k0); reflexivity.
    + cbn [sget]. rewrite IH.
      destruct (String.eqb_spec k' k0) as [->|N2].
      * destruct (String.eqb_spec k0 k); [congruence|reflexivity].
      * reflexivity.
Qed.

(* the map view of BatchPut: a later binding of the same key wins *)
Fixpoint last_binding (k : bytes) (kvs : list kvp) (acc : option bytes) : option bytes :=
  match kvs with
  | [] => acc
  | kv :: kvs' => last_binding k kvs' (if String.eqb k (fst kv) then Some (snd kv) else acc)
  end.

Lemma sget_sput_all : forall kvs st k,
  sget k (sput_all kvs st) = last_binding k kvs (sget k st).
Proof.
  unfold sput_all. induction kvs as [|[k0 v0] kvs IH]; intros st k; cbn [fold_left last_binding fst snd].
  - reflexivity.
  - rewrite IH, sget_sput. reflexivity.
Qed.

Lemma sget_sdel_all : forall ks st k,
  sget k (sdel_all ks st) = if existsb (String.eqb k) ks then None else sget k st.
Proof.
  unfold sdel_all. induction ks as [|k0 ks IH]; intros st k; cbn [fold_left existsb].
  - reflexivity.
  - rewrite IH, sget_sdel. destruct (String.eqb k k0); cbn [orb].
    + destruct (existsb (String.eqb k) ks); reflexivity.
    + reflexivity.
Qed.

Lemma last_binding_acc : forall k kvs acc,
  last_binding k kvs acc =
    match last_binding k kvs None with Some v => Some v | None => acc end.
Proof.
  intros k kvs. induction kvs as [|kv kvs IH]; intros acc; cbn [last_binding].
  - reflexivity.
  - rewrite IH. rewrite (IH (if String.eqb k (fst kv) then Some (snd kv) else None)).
    destruct (last_binding k kvs None); [reflexivity|].
    destruct (String.eqb k (fst kv)); reflexivity.
Qed.

Lemma last_binding_app : forall k l1 l2 acc,
  last_binding k (l1 ++ l2) acc = last_binding k l2 (last_binding k l1 acc).
Proof.
  intros k l1. induction l1 as [|kv l1 IH]; intros l2 acc; cbn [app last_binding].
  - reflexivity.
  - apply IH.
Qed.

(* ------------------------------------------------------------------ strict key order *)

Definition head_above (k : bytes) (st : store) : Prop :=
  match st with
  | [] => True
  | (k', _) :: _ => bcompare k k' = Lt
  end.

Fixpoint ssorted (st : store) : Prop :=
  match st with
  | [] => True
  | (k, _) :: st' => head_above k st' /\ ssorted st'
  end.

Lemma head_above_sput : forall k0 k v st,
  bcompare k0 k = Lt -> head_above k0 st -> head_above k0 (sput k v st).
Proof.
  intros k0 k v [|[k' v'] st] L H; cbn [sput head_above]; [exact L|].
  destruct (bcompare k k'); cbn [head_above]; assumption.
Qed.

Lemma ssorted_sput : forall k v st, ssorted st -> ssorted (sput k v st).
Proof.
  intros k v st. induction st as [|[k' v'] st IH]; intros S; cbn [sput].
  - cbn. auto.
  - destruct S as [H S]. destruct (bcompare k k') eqn:C.
    + apply bcompare_eq in C. subst k'. cbn [ssorted]. auto.
    + cbn [ssorted head_above]. auto.
    + cbn [ssorted]. split; [|apply IH; exact S].
      apply head_above_sput; [apply bcompare_gt_lt; exact C|exact H].
Qed.

Lemma ssorted_sput_all : forall kvs st, ssorted st -> ssorted (sput_all kvs st).
Proof.
  unfold sput_all. induction kvs as [|kv kvs IH]; intros st S; cbn [fold_left]; [exact S|].
  apply IH. apply ssorted_sput. exact S.
Qed.

Lemma head_above_trans : forall k0 k1 st,
  bcompare k0 k1 = Lt -> head_above k1 st -> head_above k0 st.
Proof.
  intros k0 k1 [|[k' v'] st] L H; cbn [head_above] in *; [exact I|].
  eapply bcompare_lt_trans; eassumption.
Qed.

Lemma head_above_sdel : forall k0 k st, ssorted st -> head_above k0 st -> head_above k0 (sdel k st).
Proof.
  intros k0 k st. revert k0. induction st as [|[k' v'] st IH]; intros k0 S H; cbn [sdel]; [exact I|].
  destruct S as [H' S]. destruct (String.eqb k k').
  - apply IH; [exact S|]. eapply head_above_trans; [exact H|exact H'].
  - exact H.
Qed.

Lemma ssorted_sdel : forall k st, ssorted st -> ssorted (sdel k st).
Proof.
  intros k st. induction st as [|[k' v'] st IH]; intros S; cbn [sdel]; [exact I|].
  destruct S as [H S]. destruct (String.eqb k k').
  - apply IH. exact S.
  - cbn [ssorted]. split; [apply head_above_sdel; assumption|apply IH; exact S].
Qed.

Lemma ssorted_sdel_all : forall ks st, ssorted st -> ssorted (sdel_all ks st).
Proof.
  unfold sdel_all. induction ks as [|k ks IH]; intros st S; cbn [fold_left]; [exact S|].
  apply IH. apply ssorted_sdel. exact S.
Qed.

(* a sorted store is determined by its lookups *)
Lemma sget_above : forall k st, ssorted st -> head_above k st -> sget k st = None.
Proof.
  intros k st. induction st as [|[k' v'] st IH]; intros S H; cbn [sget]; [reflexivity|].
  destruct S as [H' S]. cbn [head_above] in H.
  rewrite (eqb_false_of_lt _ _ H). apply IH; [exact S|].
  eapply head_above_trans; eassumption.
Qed.

Lemma ssorted_ext : forall a b, ssorted a -> ssorted b ->
  (forall k, sget k a = sget k b) -> a = b.
Proof.
  induction a as [|[ka va] a IH]; intros [|[kb vb] b] Sa Sb Hx.
  - reflexivity.
  - specialize (Hx kb). cbn [sget] in Hx. rewrite String.eqb_refl in Hx. discriminate.
  - specialize (Hx ka). cbn [sget] in Hx. rewrite String.eqb_refl in Hx. discriminate.
  - destruct Sa as [Ha Sa], Sb as [Hb Sb].
    assert (ka = kb) as ->.
    { destruct (bcompare ka kb) eqn:C.
      - apply bcompare_eq. exact C.
      - (* ka < kb: ka is not in (kb::b) *)
        pose proof (Hx ka) as H. cbn [sget] in H. rewrite String.eqb_refl in H.
        rewrite (eqb_false_of_lt _ _ C) in H.
        rewrite (sget_above ka b Sb) in H; [discriminate|].
        eapply head_above_trans; eassumption.
      - apply bcompare_gt_lt in C.
        pose proof (Hx kb) as H. cbn [sget] in H. rewrite String.eqb_refl in H.
        rewrite (eqb_false_of_lt _ _ C) in H.
        rewrite (sget_above kb a Sa) in H; [discriminate|].
        eapply head_above_trans; eassumption. }
    pose proof (Hx kb) as H. cbn [sget] in H. rewrite String.eqb_refl in H.
    injection H as ->. f_equal. apply IH; [exact Sa|exact Sb|].
    intros k. specialize (Hx k). cbn [sget] in Hx.
    destruct (String.eqb_spec k kb) as [Ek|N]; [|exact Hx].
    rewrite Ek, (sget_above kb a Sa Ha), (sget_above kb b Sb Hb). reflexivity.
Qed.

(* ------------------------------------------------------------------ [call] and the log *)

Lemma call_log : forall c s, slog (snd (call c s)) = slog s ++ [c].
Proof. reflexivity. Qed.

Lemma call_data : forall c s, sdata (snd (call c s)) = sdata s.
Proof. reflexivity. Qed.

Lemma call_fault : forall c s, sfault (snd (call c s)) = sfault s.
Proof. reflexivity. Qed.

Lemma faulted_none : forall s, sfault s = None -> faulted s = false.
Proof. intros s H. unfold faulted. rewrite H. reflexivity. Qed.

Lemma writes_app : forall l1 l2, writes (l1 ++ l2) = writes l1 ++ writes l2.
Proof. intros. unfold writes. apply filter_app. Qed.
