(* Proofs/TypeSafety2Proofs.v -- type soundness of the ROW evaluator twin (Model/Eval.v) on the
   trees the checker twin accepts, for the whole scalar language except json(): every operator,
   every scalar function body of Model/Eval.v [func_info] (conversions, substr, split, join, len,
   strlen, the list constructors list / int_list / ilist / float_list / flist, the distance
   functions), IN over explicit lists AND over list-valued functions / field references, and the
   regular-expression match under a premise on the oracle.

   What a function body can answer, function by function (Go: scalar_func.go, func.go):

     lower upper str int float strlen is_int is_float
              one argument of any type; total conversions (int('x') = 0, float('x') = 0.0 by the
              documented conversion rule): no failure of their own.
     substr(s, start, end)
              OPERAND-TYPE error (ExecuteError at the argument) when the STATIC type of start /
              end is not Number -- a test on ReturnType() made when the function runs; excluded
              by [params_static].  With Number arguments: toInt is total, the slice is clipped;
              no failure of its own.
     split(s, sep) / join(sep, a, ...)
              OPERAND-TYPE error when the static type of the separator is not String
              ([params_static]); otherwise total.
     len(a)   OPERAND-TYPE error ("invalid type", ExecuteError at the argument) when the VALUE
              has no length: a Boolean, nil, a list literal, a JSON object.  [params_static]
              (static type not Boolean / json) plus the typing of values proved here exclude it.
     list int_list ilist float_list flist
              every argument converted by toInt / toFloat: total.
     cosine_distance(a, b) / l2_distance(a, b)
              OPERAND-TYPE error "Cannot convert to float list" (a plain error) when an argument
              VALUE is not a list; excluded by [params_static] (static type list) plus value
              typing.  DATA-DEPENDENT failures (plain errors as well): an element of a list of
              strings does not parse as a float (strconv.ParseFloat), the two lists differ in
              length ("length must equals").
   Data-dependent failures of the operators (as before): division by zero (ExecuteError at the
   divisor), BETWEEN with lower bound not below the upper one (ExecuteError at the BETWEEN);
   ~= : the pattern does not compile (library error, plain).

   [sites2 e] lists them by error class and position; [fsites] carries the kind.

   IN over a list-valued function never fails row by row: an element of the wrong kind makes
   the comparison fail, which execIn answers with "not a member".

   Field references: a reference carries (a copy of) the definition it names; the premises are
   stated for the tree AND for every definition carried by a reference at any nesting depth
   ([defs_ok]) -- the checker checks every definition as a field of its own. *)
From Coq Require Import List String ZArith Bool Arith Lia.
Import ListNotations.
From KV Require Import Base.Bytes Base.Num Model.Ast Model.Value Model.Eval Model.Checker
                       Spec.Typing Proofs.CheckerProofs Proofs.TypeSafetyProofs.
Open Scope string_scope.
Set Warnings "-unused-intro-pattern".

(* ---------------------------------------------------------------- the data-dependent failures *)
Inductive fkind :=
  | FDivZero        (* division by zero, at the divisor *)
  | FBetween        (* BETWEEN with crossed bounds, at the BETWEEN *)
  | FDistance       (* distance function: unparsable list element / lists of different length *)
  | FRegexp.        (* ~= : the pattern does not compile *)

Definition is_distance (nm : string) : bool :=
  String.eqb nm "cosine_distance" || String.eqb nm "l2_distance".

Definition call_sites (n : expr) : list (fkind * err) :=
  match call_name n with
  | Some nm => if is_distance nm then [(FDistance, EOther)] else []
  | None => []
  end.

Fixpoint fsites (e : expr) : list (fkind * err) :=
  match e with
  | EBin p o l r =>
      (match o with
       | ODiv => [(FDivZero, EExec (epos r))]
       | OBetween => [(FBetween, EExec p)]
       | ORegExpMatch => [(FRegexp, EOther)]
       | _ => []
       end) ++ fsites l ++ fsites r
  | ENot _ r => fsites r
  | ECall _ n args => call_sites n ++ flat_map fsites args
  | ERef _ _ d => fsites d
  | EList _ items => flat_map fsites items
  | EAccess _ l _ => fsites l
  | _ => []
  end.

Fixpoint sites2 (e : expr) : list err :=
  match e with
  | EBin p o l r =>
      (match o with
       | ODiv => [EExec (epos r)]
       | OBetween => [EExec p]
       | ORegExpMatch => [EOther]
       | _ => []
       end) ++ sites2 l ++ sites2 r
  | ENot _ r => sites2 r
  | ECall _ n args => map snd (call_sites n) ++ flat_map sites2 args
  | ERef _ _ d => sites2 d
  | EList _ items => flat_map sites2 items
  | EAccess _ l _ => sites2 l
  | _ => []
  end.

(* ---------------------------------------------------------------- the language covered *)
(* every scalar function of the table except json (dynamically typed by design) *)
Definition core2_fn (nm : string) : bool :=
  match func_info nm with Some _ => negb (String.eqb nm "json") | None => false end.

(* - no ! as a binary operator (not a parser output), no field access (dynamically typed);
   - a list literal stands to the right of IN / BETWEEN only (the parser builds it nowhere
     else: `len((1,2))` is a syntax error);
   - a reference is opaque here: its definition is covered by [defs_ok]. *)
Fixpoint core2 (e : expr) : bool :=
  match e with
  | EBin _ o l r =>
      match o with
      | ONot => false
      | OIn => match r with
               | EList _ items => forallb core2 items
               | ECall _ _ _ | ERef _ _ _ => core2 r
               | _ => false
               end
      | OBetween => match r with EList _ items => forallb core2 items | _ => false end
      | _ => core2 r
      end && core2 l
  | ENot _ r => core2 r
  | ECall _ n args =>
      match call_name n with Some nm => core2_fn nm | None => false end && forallb core2 args
  | EList _ _ => false
  | EAccess _ _ _ => false
  | _ => true
  end.

(* the argument counts of the function table (what checkFunctionCalls validates when the plan
   is built) *)
Definition count_fits (nm : string) (cnt : nat) : bool :=
  match func_info nm with
  | Some (nargs, varargs, _) =>
      negb ((negb varargs && negb (Nat.eqb cnt nargs)) || (varargs && Nat.ltb cnt nargs))
  | None => false
  end.

Fixpoint counts_ok (e : expr) : bool :=
  match e with
  | EBin _ _ l r => counts_ok l && counts_ok r
  | ENot _ r => counts_ok r
  | ECall _ n args =>
      match call_name n with
      | Some nm => match func_info nm with Some _ => count_fits nm (List.length args) | None => true end
      | None => true
      end && forallb counts_ok args
  | EList _ items => forallb counts_ok items
  | EAccess _ l _ => counts_ok l
  | _ => true
  end.

(* [P] holds for every definition carried by a reference, at any nesting depth *)
Fixpoint defs_ok (P : expr -> bool) (e : expr) : bool :=
  match e with
  | EBin _ _ l r => defs_ok P l && defs_ok P r
  | ENot _ r => defs_ok P r
  | ECall _ _ args => forallb (defs_ok P) args
  | ERef _ _ d => P d && defs_ok P d
  | EList _ items => forallb (defs_ok P) items
  | EAccess _ l _ => defs_ok P l
  | _ => true
  end.

Section TS2.
Variable fo : fops.
Variable re : bytes -> bytes -> res bool.
(* regexp.Compile / Match: a library error (plain error) or a verdict; it does not panic *)
Hypothesis re_ok : forall p t, match re p t with Err x => x = EOther | Panic => False | _ => True end.

Notation eval := (eval fo re).
Notation wt := (wt fo).

(* what holds at every node of an accepted tree: the checker's operator tests [wt] (from Check),
   the argument counts (from the call validation), the language fragment and the documented
   parameter types (premises) *)
Definition node_ok (e : expr) : bool := wt e && core2 e && params_static e && counts_ok e.

(* ---------------------------------------------------------------- values and static types *)
Definition vty2 (v : value fo) (t : ty) : bool :=
  match t, v with
  | TStr, (VBytes _ | VStr _) => true
  | TNumber, (VInt _ | VFlt _) => true
  | TBool, VBool _ => true
  | TIdent, (VBytes _ | VStr _) => true
  | TList, (VStrs _ | VInts _ | VFlts _) => true
  | _, _ => false
  end.

Definition good (t : ty) (allowed : list err) (r : res (value fo)) : Prop :=
  match r with
  | Ok val => vty2 val t = true
  | Err x => In x allowed
  | Panic => False
  | OutOfModel => True
  end.

(* evaluation of e on (k, v): a value of the static type, or one of the data-dependent failures
   of e; never an operand-type error, never a panic *)
Definition dyn_ok2 (k v : bytes) (e : expr) : Prop := good (rtype e) (sites2 e) (eval k v e).

Lemma good_weaken : forall t a b r, (forall x, In x a -> In x b) -> good t a r -> good t b r.
Proof. intros t a b [val|x| |] H G; cbn in *; auto. Qed.

Lemma in_sites2_l : forall x p o l r, In x (sites2 l) -> In x (sites2 (EBin p o l r)).
Proof. intros. cbn [sites2]. apply in_or_app. right. apply in_or_app. left. assumption. Qed.
Lemma in_sites2_r : forall x p o l r, In x (sites2 r) -> In x (sites2 (EBin p o l r)).
Proof. intros. cbn [sites2]. apply in_or_app. right. apply in_or_app. right. assumption. Qed.
Lemma in_sites2_item : forall x p o l q items it,
  In it items -> In x (sites2 it) -> In x (sites2 (EBin p o l (EList q items))).
Proof. intros x p o l q items it Hin Hx. apply in_sites2_r. cbn [sites2]. apply in_flat_map. eauto. Qed.
Lemma in_sites2_arg : forall x p n args a,
  In a args -> In x (sites2 a) -> In x (sites2 (ECall p n args)).
Proof. intros x p n args a Hin Hx. cbn [sites2]. apply in_or_app. right. apply in_flat_map. eauto. Qed.

Section Ops.
Variables k v : bytes.
Notation ev := (Eval.eval fo re k v).

Definition both2 (l r : expr) (f : value fo -> value fo -> res (value fo)) : res (value fo) :=
  do lv <- ev l; do rv <- ev r; f lv rv.

Lemma both2_good : forall p o l r f t,
  dyn_ok2 k v l -> dyn_ok2 k v r ->
  (forall lv rv, vty2 lv (rtype l) = true -> vty2 rv (rtype r) = true ->
     good t (sites2 (EBin p o l r)) (f lv rv)) ->
  good t (sites2 (EBin p o l r)) (both2 l r f).
Proof.
  intros p o l r f t Dl Dr Hf. unfold both2, dyn_ok2, good in *.
  destruct (ev l) as [lv|x| |]; cbn [bind]; [ | apply in_sites2_l; exact Dl | contradiction | exact I].
  destruct (ev r) as [rv|x| |]; cbn [bind]; [ | apply in_sites2_r; exact Dr | contradiction | exact I].
  apply Hf; assumption.
Qed.

(* ---- the per-value facts: what the primitive operations answer on typed values *)
Lemma math_op_typed : forall lv rv o rpos, (o = OAdd \/ o = OSub \/ o = OMul \/ o = ODiv) ->
  vty2 lv TNumber = true -> vty2 rv TNumber = true ->
  match math_op fo lv rv o rpos with
  | Ok val => vty2 val TNumber = true
  | Err x => o = ODiv /\ x = EExec rpos
  | Panic => False
  | OutOfModel => True
  end.
Proof.
  intros lv rv o rpos Ho Vl Vr.
  destruct lv; try discriminate Vl; destruct rv; try discriminate Vr;
    destruct Ho as [ -> | [ -> | [ -> | -> ] ] ]; cbn;
    try reflexivity;
    try (destruct (Z.eqb z0 0); [split; reflexivity | reflexivity]);
    try (match goal with |- context [feqb fo ?a ?b] => destruct (feqb fo a b) end;
         [split; reflexivity | reflexivity]).
Qed.

Lemma compare_typed : forall (number : bool) (a b : value fo) (c : cmpop),
  vty2 a (if number then TNumber else TStr) = true -> vty2 b (if number then TNumber else TStr) = true ->
  exists r, (if number then number_compare fo a b c else string_compare fo a b c) = Ok r.
Proof.
  intros number a b c Va Vb. destruct number.
  - destruct a; try discriminate Va; destruct b; try discriminate Vb; eexists; reflexivity.
  - destruct a; try discriminate Va; destruct b; try discriminate Vb; eexists; reflexivity.
Qed.

Lemma equal_typed : forall (a b : value fo) (t : ty) (p : nat),
  is_scalar_ty t = true -> vty2 a t = true -> vty2 b t = true -> exists x, equal_values fo a b p = Ok x.
Proof.
  intros a b t p Hs Va Vb. destruct t; try discriminate Hs;
    destruct a; try discriminate Va; destruct b; try discriminate Vb; eexists; reflexivity.
Qed.

Lemma conv_bytes_typed : forall a : value fo, vty2 a TStr = true -> exists s, conv_bytes fo a = Some s.
Proof. intros a Va. destruct a; try discriminate Va; eexists; reflexivity. Qed.

(* ---- operators *)
Lemma dyn2_andor : forall p o l r,
  (o = OAnd \/ o = OKWAnd \/ o = OOr \/ o = OKWOr) ->
  rtype l = TBool -> rtype r = TBool -> dyn_ok2 k v l -> dyn_ok2 k v r -> dyn_ok2 k v (EBin p o l r).
Proof.
  intros p o l r Ho Hl Hr Dl Dr. unfold dyn_ok2, good in *.
  rewrite Hl in Dl. rewrite Hr in Dr.
  destruct Ho as [ -> | [ -> | [ -> | -> ] ] ]; cbn [Eval.eval rtype];
    (destruct (Eval.eval fo re k v l) as [lv|x| |]; cbn [bind];
     [ destruct lv; try discriminate Dl; destruct b; cbn [bind]; try reflexivity;
       (destruct (Eval.eval fo re k v r) as [rv|y| |]; cbn [bind];
        [ destruct rv; try discriminate Dr; reflexivity
        | apply in_sites2_r; exact Dr | contradiction | exact I ])
     | apply in_sites2_l; exact Dl | contradiction | exact I ]).
Qed.

Lemma eval2_eq : forall p l r,
  ev (EBin p OEq l r) = both2 l r (fun lv rv => do b <- equal_values fo lv rv p; Ok (VBool b)).
Proof. reflexivity. Qed.
Lemma eval2_neq : forall p l r,
  ev (EBin p ONotEq l r) = both2 l r (fun lv rv => do b <- equal_values fo lv rv p; Ok (VBool (negb b))).
Proof. reflexivity. Qed.
Lemma eval2_prefix : forall p l r,
  ev (EBin p OPrefixMatch l r) =
  both2 l r (fun lv rv => match conv_bytes fo lv, conv_bytes fo rv with
                          | Some a, Some b => Ok (VBool (has_prefix b a))
                          | _, _ => Err (EExec p)
                          end).
Proof. reflexivity. Qed.
Lemma eval2_regexp : forall p l r,
  ev (EBin p ORegExpMatch l r) =
  both2 l r (fun lv rv => match conv_bytes fo lv, conv_bytes fo rv with
                          | Some a, Some b => do m <- re b a; Ok (VBool m)
                          | _, _ => Err (EExec p)
                          end).
Proof. reflexivity. Qed.
Lemma eval2_add : forall p l r,
  ev (EBin p OAdd l r) =
  match rtype l with
  | TStr => both2 l r (fun lv rv => Ok (VStr (to_string fo lv ++ to_string fo rv)))
  | _ => both2 l r (fun lv rv => math_op fo lv rv OAdd (epos r))
  end.
Proof. intros. cbn [Eval.eval]. destruct (rtype l); reflexivity. Qed.
Lemma eval2_arith : forall p o l r, (o = OSub \/ o = OMul \/ o = ODiv) ->
  ev (EBin p o l r) = both2 l r (fun lv rv => math_op fo lv rv o (epos r)).
Proof. intros p o l r [ -> | [ -> | -> ] ]; reflexivity. Qed.
Lemma eval2_cmp : forall p o l r, (o = OGt \/ o = OGte \/ o = OLt \/ o = OLte) ->
  ev (EBin p o l r) =
  both2 l r (fun lv rv => do b <- (match rtype l with
                                   | TStr => string_compare fo lv rv (cmpop_of o)
                                   | _ => number_compare fo lv rv (cmpop_of o)
                                   end); Ok (VBool b)).
Proof. intros p o l r [ -> | [ -> | [ -> | -> ] ] ]; reflexivity. Qed.

Lemma dyn2_eq : forall p o l r, (o = OEq \/ o = ONotEq) ->
  rtype l = rtype r -> is_scalar_ty (rtype l) = true ->
  dyn_ok2 k v l -> dyn_ok2 k v r -> dyn_ok2 k v (EBin p o l r).
Proof.
  intros p o l r Ho Ht Hs Dl Dr. unfold dyn_ok2 at 1.
  assert (Hrt : rtype (EBin p o l r) = TBool) by (destruct Ho as [ -> | -> ]; reflexivity). rewrite Hrt.
  assert (Hcore : forall neg : bool,
            good TBool (sites2 (EBin p o l r))
              (both2 l r (fun lv rv => do b <- equal_values fo lv rv p; Ok (VBool (if neg then negb b else b))))).
  { intros neg. apply both2_good; try assumption. intros lv rv Vl Vr. rewrite <- Ht in Vr.
    destruct (equal_typed lv rv (rtype l) p Hs Vl Vr) as [x Hx]. rewrite Hx. reflexivity. }
  destruct Ho as [ -> | -> ].
  - rewrite eval2_eq. exact (Hcore false).
  - rewrite eval2_neq. exact (Hcore true).
Qed.

Lemma dyn2_prefix : forall p l r,
  rtype l = TStr -> rtype r = TStr -> dyn_ok2 k v l -> dyn_ok2 k v r ->
  dyn_ok2 k v (EBin p OPrefixMatch l r).
Proof.
  intros p l r Hl Hr Dl Dr. unfold dyn_ok2 at 1. rewrite eval2_prefix. cbn [rtype].
  apply both2_good; try assumption. intros lv rv Vl Vr. rewrite Hl in Vl. rewrite Hr in Vr.
  destruct (conv_bytes_typed lv Vl) as [a ->]. destruct (conv_bytes_typed rv Vr) as [b ->]. reflexivity.
Qed.

Lemma dyn2_regexp : forall p l r,
  rtype l = TStr -> rtype r = TStr -> dyn_ok2 k v l -> dyn_ok2 k v r ->
  dyn_ok2 k v (EBin p ORegExpMatch l r).
Proof.
  intros p l r Hl Hr Dl Dr. unfold dyn_ok2 at 1. rewrite eval2_regexp. cbn [rtype].
  apply both2_good; try assumption. intros lv rv Vl Vr. rewrite Hl in Vl. rewrite Hr in Vr.
  destruct (conv_bytes_typed lv Vl) as [a ->]. destruct (conv_bytes_typed rv Vr) as [b ->].
  pose proof (re_ok b a) as Hre. destruct (re b a) as [m|x| |]; cbn [bind good]; try assumption.
  - reflexivity.
  - subst x. cbn [sites2]. left. reflexivity.
Qed.

Lemma dyn2_concat : forall p l r,
  rtype l = TStr -> rtype r = TStr -> dyn_ok2 k v l -> dyn_ok2 k v r -> dyn_ok2 k v (EBin p OAdd l r).
Proof.
  intros p l r Hl Hr Dl Dr. unfold dyn_ok2 at 1. rewrite eval2_add. cbn [rtype]. rewrite Hl.
  apply both2_good; try assumption. intros lv rv _ _. reflexivity.
Qed.

Lemma dyn2_arith : forall p o l r, (o = OAdd \/ o = OSub \/ o = OMul \/ o = ODiv) ->
  rtype l = TNumber -> rtype r = TNumber -> dyn_ok2 k v l -> dyn_ok2 k v r ->
  dyn_ok2 k v (EBin p o l r).
Proof.
  intros p o l r Ho Hl Hr Dl Dr.
  assert (Hev : ev (EBin p o l r) = both2 l r (fun lv rv => math_op fo lv rv o (epos r))).
  { destruct Ho as [ -> | Ho ]; [rewrite eval2_add, Hl; reflexivity | apply eval2_arith; exact Ho]. }
  assert (Hrt : rtype (EBin p o l r) = TNumber).
  { destruct Ho as [ -> | [ -> | [ -> | -> ] ] ]; cbn [rtype]; rewrite ?Hl; reflexivity. }
  unfold dyn_ok2 at 1. rewrite Hev, Hrt. apply both2_good; try assumption.
  intros lv rv Vl Vr. rewrite Hl in Vl. rewrite Hr in Vr.
  pose proof (math_op_typed lv rv o (epos r) Ho Vl Vr) as Hm.
  destruct (math_op fo lv rv o (epos r)) as [val|x| |]; cbn [good]; try assumption.
  destruct Hm as [-> ->]. cbn [sites2]. left. reflexivity.
Qed.

Lemma dyn2_cmp : forall p o l r, (o = OGt \/ o = OGte \/ o = OLt \/ o = OLte) ->
  rtype l = rtype r -> is_strnum_ty (rtype l) = true -> dyn_ok2 k v l -> dyn_ok2 k v r ->
  dyn_ok2 k v (EBin p o l r).
Proof.
  intros p o l r Ho Ht Hs Dl Dr. unfold dyn_ok2 at 1. rewrite (eval2_cmp p o l r Ho).
  assert (Hrt : rtype (EBin p o l r) = TBool) by (destruct Ho as [ -> | [ -> | [ -> | -> ] ] ]; reflexivity).
  rewrite Hrt. apply both2_good; try assumption. intros lv rv Vl Vr. rewrite <- Ht in Vr.
  destruct (rtype l); try discriminate Hs.
  - destruct (compare_typed false lv rv (cmpop_of o) Vl Vr) as [c ->]. reflexivity.
  - destruct (compare_typed true lv rv (cmpop_of o) Vl Vr) as [c ->]. reflexivity.
Qed.

Lemma in_list_good : forall (number : bool) lv items,
  vty2 lv (if number then TNumber else TStr) = true ->
  Forall (fun it => rtype it = (if number then TNumber else TStr)) items ->
  Forall (dyn_ok2 k v) items ->
  match in_list fo lv number items (map ev items) with
  | Ok _ => True
  | Err x => In x (flat_map sites2 items)
  | Panic => False
  | OutOfModel => True
  end.
Proof.
  intros number lv items Vl. induction items as [|it items IH]; intros Ht Hd; [exact I|].
  inversion Ht as [|? ? Hit Htr]; subst. inversion Hd as [|? ? Dit Dr]; subst.
  cbn [in_list map flat_map]. rewrite Hit.
  replace (ty_eqb (if number then TNumber else TStr) (if number then TNumber else TStr)) with true
    by (destruct number; reflexivity).
  cbn [negb]. unfold dyn_ok2, good in Dit. rewrite Hit in Dit.
  destruct (ev it) as [iv|x| |]; cbn [bind]; [ | apply in_or_app; left; exact Dit | contradiction | exact I].
  destruct (compare_typed number lv iv CEq Vl Dit) as [c Hc]. rewrite Hc. cbn [bind].
  destruct c; [exact I|]. specialize (IH Htr Dr).
  destruct (in_list fo lv number items (map ev items)); try assumption.
  apply in_or_app. right. exact IH.
Qed.

Lemma eval2_in_list : forall p l q items,
  ev (EBin p OIn l (EList q items)) =
  (do lv <- ev l;
   do b <- in_list fo lv (match rtype l with TStr => false | _ => true end) items (map ev items);
   Ok (VBool b)).
Proof. reflexivity. Qed.

Lemma number_flag : forall t, is_strnum_ty t = true ->
  (if (match t with TStr => false | _ => true end) then TNumber else TStr) = t.
Proof. destruct t; try discriminate; reflexivity. Qed.

Lemma dyn2_in_list : forall p l q items,
  is_strnum_ty (rtype l) = true -> Forall (fun it => rtype it = rtype l) items ->
  dyn_ok2 k v l -> Forall (dyn_ok2 k v) items ->
  dyn_ok2 k v (EBin p OIn l (EList q items)).
Proof.
  intros p l q items Hs Ht Dl Di. unfold dyn_ok2 at 1. rewrite eval2_in_list. cbn [rtype].
  unfold dyn_ok2, good in Dl.
  destruct (ev l) as [lv|x| |]; cbn [bind good];
    [ | apply in_sites2_l; exact Dl | contradiction | exact I].
  pose proof (in_list_good (match rtype l with TStr => false | _ => true end) lv items) as H.
  rewrite (number_flag _ Hs) in H. specialize (H Dl Ht Di).
  destruct (in_list fo lv _ items (map ev items)); cbn [bind good]; try assumption; try reflexivity.
  apply in_sites2_r. exact H.
Qed.

(* IN over a list-valued function call / field reference: the list value is unpacked, a failing
   comparison counts as "not a member" -- no failure of its own *)
Lemma eval2_in_fn : forall p l r,
  match r with ECall _ _ _ | ERef _ _ _ => True | _ => False end ->
  ev (EBin p OIn l r) =
  (do lv <- ev l;
   if negb (ty_eqb (rtype r) TList) then Err (EExec (epos r))
   else
     do fv <- ev r;
     match unpack_list fo fv with
     | Some vals => Ok (VBool (in_values fo lv (match rtype l with TStr => false | _ => true end) vals))
     | None => Err (EExec (epos r))
     end).
Proof. intros p l r Hr. destruct r; try contradiction; reflexivity. Qed.

Lemma dyn2_in_fn : forall p l r,
  match r with ECall _ _ _ | ERef _ _ _ => True | _ => False end ->
  rtype r = TList -> dyn_ok2 k v l -> dyn_ok2 k v r -> dyn_ok2 k v (EBin p OIn l r).
Proof.
  intros p l r Hshape Hr Dl Dr. unfold dyn_ok2 at 1. rewrite (eval2_in_fn p l r Hshape). cbn [rtype].
  rewrite Hr. cbn [ty_eqb negb]. unfold dyn_ok2, good in Dl, Dr. rewrite Hr in Dr.
  destruct (ev l) as [lv|x| |]; cbn [bind good];
    [ | apply in_sites2_l; exact Dl | contradiction | exact I].
  destruct (ev r) as [fv|x| |]; cbn [bind good];
    [ | apply in_sites2_r; exact Dr | contradiction | exact I].
  destruct fv; try discriminate Dr; reflexivity.
Qed.

Lemma eval2_between : forall p l q lo hi,
  ev (EBin p OBetween l (EList q [lo; hi])) =
  (let number := match rtype l with TStr => false | _ => true end in
   let want := if number then TNumber else TStr in
   let cmp a b c := if number then number_compare fo a b c else string_compare fo a b c in
   do lv <- ev l;
   if negb (ty_eqb (rtype lo) want) then Err (EExec (epos lo))
   else if negb (ty_eqb (rtype hi) want) then Err (EExec (epos hi))
   else
     do lov <- ev lo; do hiv <- ev hi;
     do c <- cmp lov hiv CLt;
     if negb c then Err (EExec p)
     else
       do lc <- cmp lov lv CLte;
       if negb lc then Ok (VBool false)
       else (do uc <- cmp lv hiv CLte; Ok (VBool uc))).
Proof. reflexivity. Qed.

Lemma dyn2_between : forall p l q lo hi,
  is_strnum_ty (rtype l) = true -> rtype lo = rtype l -> rtype hi = rtype l ->
  dyn_ok2 k v l -> dyn_ok2 k v lo -> dyn_ok2 k v hi ->
  dyn_ok2 k v (EBin p OBetween l (EList q [lo; hi])).
Proof.
  intros p l q lo hi Hs Hlo Hhi Dl Dlo Dhi. unfold dyn_ok2 at 1. rewrite eval2_between. cbv zeta.
  cbn [rtype].
  pose proof (number_flag _ Hs) as Hk.
  rewrite Hk, Hlo, Hhi.
  replace (ty_eqb (rtype l) (rtype l)) with true by (symmetry; apply ty_eqb_eq; reflexivity). cbn [negb].
  unfold dyn_ok2, good in Dl, Dlo, Dhi. rewrite Hlo in Dlo. rewrite Hhi in Dhi.
  destruct (ev l) as [lv|x| |]; cbn [bind good];
    [ | apply in_sites2_l; exact Dl | contradiction | exact I].
  destruct (ev lo) as [lov|x| |]; cbn [bind good];
    [ | apply (in_sites2_item x p OBetween l q [lo; hi] lo); [left; reflexivity | exact Dlo] | contradiction | exact I].
  destruct (ev hi) as [hiv|x| |]; cbn [bind good];
    [ | apply (in_sites2_item x p OBetween l q [lo; hi] hi); [right; left; reflexivity | exact Dhi] | contradiction | exact I].
  set (number := match rtype l with TStr => false | _ => true end) in *.
  rewrite <- Hk in Dl, Dlo, Dhi.
  destruct (compare_typed number lov hiv CLt Dlo Dhi) as [c Hc]. rewrite Hc. cbn [bind].
  destruct c; cbn [negb good]; [|cbn [sites2]; left; reflexivity].
  destruct (compare_typed number lov lv CLte Dlo Dl) as [c2 Hc2]. rewrite Hc2. cbn [bind].
  destruct c2; cbn [negb good]; [|reflexivity].
  destruct (compare_typed number lv hiv CLte Dl Dhi) as [c3 Hc3]. rewrite Hc3. reflexivity.
Qed.

Lemma dyn2_not : forall p r, rtype r = TBool -> dyn_ok2 k v r -> dyn_ok2 k v (ENot p r).
Proof.
  intros p r Hr Dr. unfold dyn_ok2, good in *. cbn [Eval.eval rtype sites2]. rewrite Hr in Dr.
  destruct (ev r) as [rv|x| |]; cbn [bind]; try assumption.
  destruct rv; try discriminate Dr. reflexivity.
Qed.


(* ---------------------------------------------------------------- function calls *)
Lemma to_int_tot : forall a, match to_int fo a with Ok _ | OutOfModel => True | _ => False end.
Proof.
  intros a. destruct a; cbn; trivial;
    try (destruct (parse_int _); trivial; destruct (f_parse fo _); trivial; destruct (f_trunc fo _); trivial).
  destruct (f_trunc fo f); trivial.
Qed.

Lemma to_float_tot : forall a, match to_float fo a with Ok _ | OutOfModel => True | _ => False end.
Proof. intros a. destruct a; cbn; trivial; destruct (f_parse fo _); trivial. Qed.

Lemma map_to_int_tot : forall vals,
  match map_res (to_int fo) vals with Ok _ | OutOfModel => True | _ => False end.
Proof.
  induction vals as [|a vals IH]; cbn [map_res]; [exact I|].
  pose proof (to_int_tot a) as Ha. destruct (to_int fo a); cbn [bind]; try contradiction; try exact I.
  destruct (map_res (to_int fo) vals); cbn [bind]; try contradiction; exact I.
Qed.

Lemma map_to_float_tot : forall vals,
  match map_res (to_float fo) vals with Ok _ | OutOfModel => True | _ => False end.
Proof.
  induction vals as [|a vals IH]; cbn [map_res]; [exact I|].
  pose proof (to_float_tot a) as Ha. destruct (to_float fo a); cbn [bind]; try contradiction; try exact I.
  destruct (map_res (to_float fo) vals); cbn [bind]; try contradiction; exact I.
Qed.

Lemma list_use_int_tot : forall a, match list_use_int fo a with Ok _ | OutOfModel => True | _ => False end.
Proof.
  intros a. destruct a; cbn; trivial; destruct (parse_int _); trivial; destruct (f_parse fo _); trivial.
Qed.

(* the arguments evaluated left to right: all values, typed; or the first failure *)
Lemma all_ok_good : forall args, Forall (dyn_ok2 k v) args ->
  match all_ok (map ev args) with
  | Ok vals => Forall2 (fun a val => vty2 val (rtype a) = true) args vals
  | Err x => In x (flat_map sites2 args)
  | Panic => False
  | OutOfModel => True
  end.
Proof.
  induction 1 as [|a args Da _ IH]; cbn [map all_ok flat_map]; [constructor|].
  unfold dyn_ok2, good in Da.
  destruct (ev a) as [av|x| |]; cbn [bind]; [ | apply in_or_app; left; exact Da | contradiction | exact I].
  destruct (all_ok (map ev args)) as [vals|x| |]; cbn [bind];
    [ constructor; assumption | apply in_or_app; right; exact IH | contradiction | exact I].
Qed.

(* a parsed list of strings: a plain error (unparsable element) is the only failure *)
Lemma parse_floats_cases : forall l,
  match parse_floats fo l with Err x => x = EOther | Panic => False | _ => True end.
Proof.
  induction l as [|s l IH]; cbn [parse_floats]; [exact I|].
  destruct (f_parse fo s); try reflexivity; try exact I.
  destruct (parse_floats fo l); cbn [bind]; try assumption; exact I.
Qed.

Lemma to_float_list_typed : forall a, vty2 a TList = true ->
  match to_float_list fo a with Err x => x = EOther | Panic => False | _ => True end.
Proof. intros a Va. destruct a; try discriminate Va; cbn [to_float_list]; try exact I. apply parse_floats_cases. Qed.

Lemma cosine_cases : forall l r,
  match cosine_distance fo l r with Err x => x = EOther | Panic => False | OutOfModel => False | Ok _ => True end.
Proof.
  intros l r. unfold cosine_distance. destruct (Nat.eqb _ _); [|reflexivity].
  destruct (dot3 fo l r _ _ _) as [[t1 t2] t3]. exact I.
Qed.

Lemma l2_cases : forall l r,
  match l2_distance fo l r with Err x => x = EOther | Panic => False | OutOfModel => False | Ok _ => True end.
Proof. intros l r. unfold l2_distance. destruct (Nat.eqb _ _); [exact I|reflexivity]. Qed.

(* the bodies, one equation each (by computation on the name) *)
Lemma body_lower : forall args rs, apply_func fo "lower" args rs =
  (do a <- nth_res fo rs 0; match ascii_lower (to_string fo a) with Some s => Ok (VStr s) | None => OutOfModel end).
Proof. reflexivity. Qed.
Lemma body_upper : forall args rs, apply_func fo "upper" args rs =
  (do a <- nth_res fo rs 0; match ascii_upper (to_string fo a) with Some s => Ok (VStr s) | None => OutOfModel end).
Proof. reflexivity. Qed.
Lemma body_int : forall args rs, apply_func fo "int" args rs =
  (do a <- nth_res fo rs 0; do z <- to_int fo a; Ok (VInt z)).
Proof. reflexivity. Qed.
Lemma body_float : forall args rs, apply_func fo "float" args rs =
  (do a <- nth_res fo rs 0; do f <- to_float fo a; Ok (VFlt f)).
Proof. reflexivity. Qed.
Lemma body_str : forall args rs, apply_func fo "str" args rs =
  (do a <- nth_res fo rs 0; Ok (VStr (to_string fo a))).
Proof. reflexivity. Qed.
Lemma body_is_int : forall args rs, apply_func fo "is_int" args rs =
  (do a <- nth_res fo rs 0;
   match a with
   | VStr s | VBytes s => Ok (VBool (match parse_int s with Some _ => true | None => false end))
   | VInt _ => Ok (VBool true)
   | _ => Ok (VBool false)
   end).
Proof. reflexivity. Qed.
Lemma body_is_float : forall args rs, apply_func fo "is_float" args rs =
  (do a <- nth_res fo rs 0;
   match a with
   | VStr s | VBytes s =>
       match f_parse fo s with
       | PF_ok _ => Ok (VBool true) | PF_err => Ok (VBool false) | PF_oom => OutOfModel
       end
   | VFlt _ => Ok (VBool true)
   | _ => Ok (VBool false)
   end).
Proof. reflexivity. Qed.
Lemma body_substr : forall args rs, apply_func fo "substr" args rs =
  (do a <- nth_res fo rs 0;
   if negb (ty_eqb (rtype (nth_arg args 1)) TNumber) then Err (EExec (epos (nth_arg args 1)))
   else if negb (ty_eqb (rtype (nth_arg args 2)) TNumber) then Err (EExec (epos (nth_arg args 2)))
   else
     do b <- nth_res fo rs 1; do st <- to_int fo b;
     do c <- nth_res fo rs 2; do ln <- to_int fo c;
     Ok (VStr (substr_val (to_string fo a) st ln))).
Proof. reflexivity. Qed.
Lemma body_split : forall args rs, apply_func fo "split" args rs =
  (do a <- nth_res fo rs 0;
   if negb (ty_eqb (rtype (nth_arg args 1)) TStr) then Err (EExec (epos (nth_arg args 1)))
   else
     do b <- nth_res fo rs 1;
     match split_str (to_string fo a) (to_string fo b) with
     | Some l => Ok (VStrs l)
     | None => OutOfModel
     end).
Proof. reflexivity. Qed.
Lemma body_join : forall args rs, apply_func fo "join" args rs =
  (if negb (ty_eqb (rtype (nth_arg args 0)) TStr) then Err (EExec (epos (nth_arg args 0)))
   else
     do sep <- nth_res fo rs 0;
     do vals <- all_ok (tl rs);
     Ok (VStr (join_str (to_string fo sep) (map (to_string fo) vals)))).
Proof. reflexivity. Qed.
Lemma body_int_list : forall nm args rs, nm = "int_list" \/ nm = "ilist" -> apply_func fo nm args rs =
  (do vals <- all_ok rs; do zs <- map_res (to_int fo) vals; Ok (VInts zs)).
Proof. intros nm args rs [-> | ->]; reflexivity. Qed.
Lemma body_float_list : forall nm args rs, nm = "float_list" \/ nm = "flist" -> apply_func fo nm args rs =
  (do vals <- all_ok rs; do fs <- map_res (to_float fo) vals; Ok (VFlts fs)).
Proof. intros nm args rs [-> | ->]; reflexivity. Qed.
Lemma body_list : forall args rs, apply_func fo "list" args rs =
  match rs with
  | [] => Ok (VInts [])
  | r0 :: _ =>
      do first <- r0;
      do ui <- list_use_int fo first;
      do vals <- all_ok rs;
      if ui then (do zs <- map_res (to_int fo) vals; Ok (VInts zs))
      else (do fs <- map_res (to_float fo) vals; Ok (VFlts fs))
  end.
Proof. reflexivity. Qed.
Lemma body_len : forall args rs, apply_func fo "len" args rs =
  (do a <- nth_res fo rs 0;
   match list_length fo a with
   | Some n => Ok (VInt n)
   | None => Err (EExec (epos (nth_arg args 0)))
   end).
Proof. reflexivity. Qed.
Lemma body_strlen : forall args rs, apply_func fo "strlen" args rs =
  (do a <- nth_res fo rs 0; Ok (VInt (Z.of_nat (String.length (to_string fo a))))).
Proof. reflexivity. Qed.
Lemma body_cosine : forall args rs, apply_func fo "cosine_distance" args rs =
  (do a <- nth_res fo rs 0; do b <- nth_res fo rs 1;
   do l <- to_float_list fo a; do r <- to_float_list fo b;
   do d <- cosine_distance fo l r; Ok (VFlt d)).
Proof. reflexivity. Qed.
Lemma body_l2 : forall args rs, apply_func fo "l2_distance" args rs =
  (do a <- nth_res fo rs 0; do b <- nth_res fo rs 1;
   do l <- to_float_list fo a; do r <- to_float_list fo b;
   do d <- l2_distance fo l r; Ok (VFlt d)).
Proof. reflexivity. Qed.

Definition core2_names : list string :=
  ["lower"; "upper"; "int"; "float"; "str"; "is_int"; "is_float"; "substr"; "split"; "list";
   "float_list"; "int_list"; "flist"; "ilist"; "len"; "join"; "strlen"; "cosine_distance"; "l2_distance"].

Lemma core2_fn_cases : forall nm, core2_fn nm = true -> In nm core2_names.
Proof.
  intros nm H. unfold core2_fn, func_info in H. unfold core2_names.
  repeat match type of H with
         | context [if String.eqb nm ?s then _ else _] =>
             let E := fresh "E" in
             destruct (String.eqb nm s) eqn:E;
             [ apply String.eqb_eq in E; subst nm; cbn in H; try discriminate H; cbn; tauto | ]
         end.
  discriminate H.
Qed.

Lemma eval2_call : forall p n args nm,
  call_name n = Some nm -> core2_fn nm = true -> count_fits nm (List.length args) = true ->
  ev (ECall p n args) = apply_func fo nm args (map ev args).
Proof.
  intros p n args nm Hn Hc Hcnt. destruct n; try discriminate Hn.
  cbn [Eval.eval]. rewrite Hn. unfold core2_fn in Hc. unfold count_fits in Hcnt.
  destruct (func_info nm) as [[[na va] t]|]; [|discriminate Hc].
  apply negb_true_iff in Hcnt. rewrite Hcnt. reflexivity.
Qed.

(* what one call answers, given what its arguments answer *)
Definition call_type (nm : string) : ty :=
  match func_info nm with Some (_, _, t) => t | None => TUnknown end.

Lemma rtype_call : forall p n args nm, call_name n = Some nm -> core2_fn nm = true ->
  rtype (ECall p n args) = call_type nm.
Proof.
  intros p n args nm Hn Hc. cbn [rtype]. rewrite Hn. unfold call_type, core2_fn in *.
  destruct (func_info nm) as [[[na va] t]|]; [reflexivity|discriminate Hc].
Qed.

Ltac in_app Da :=
  first [ exact Da | apply in_or_app; first [ left; in_app Da | right; in_app Da ] ].

Ltac arg_step Da x :=
  unfold dyn_ok2, good in Da;
  match type of Da with
  | match ev ?a with _ => _ end =>
      destruct (ev a) as [x|?| |]; cbn [bind nth_res nth good];
      [ | in_app Da | contradiction | exact I ]
  end.

Lemma apply_func_good : forall nm args,
  core2_fn nm = true -> count_fits nm (List.length args) = true ->
  params_ok nm (map (fun a => sty_of (rtype a)) args) = true ->
  Forall (dyn_ok2 k v) args ->
  good (call_type nm)
       ((if is_distance nm then [EOther] else []) ++ flat_map sites2 args)
       (apply_func fo nm args (map ev args)).
Proof.
  intros nm args Hc Hcnt Hp Hd.
  apply core2_fn_cases in Hc. unfold core2_names in Hc. cbn [In] in Hc.
  repeat (destruct Hc as [<-|Hc]); try contradiction; cbn [is_distance String.eqb Ascii.eqb Bool.eqb orb app];
    unfold count_fits in Hcnt; cbn in Hcnt.
  - (* lower *)
    destruct args as [|a [|]]; try discriminate Hcnt. inversion Hd as [|? ? Da _]; subst.
    rewrite body_lower. cbn [map nth_res nth flat_map]. rewrite app_nil_r. arg_step Da av.
    destruct (ascii_lower (to_string fo av)); [reflexivity|exact I].
  - (* upper *)
    destruct args as [|a [|]]; try discriminate Hcnt. inversion Hd as [|? ? Da _]; subst.
    rewrite body_upper. cbn [map nth_res nth flat_map]. rewrite app_nil_r. arg_step Da av.
    destruct (ascii_upper (to_string fo av)); [reflexivity|exact I].
  - (* int *)
    destruct args as [|a [|]]; try discriminate Hcnt. inversion Hd as [|? ? Da _]; subst.
    rewrite body_int. cbn [map nth_res nth flat_map]. rewrite app_nil_r. arg_step Da av.
    pose proof (to_int_tot av) as Ht. destruct (to_int fo av); cbn [bind good]; try contradiction; [reflexivity|exact I].
  - (* float *)
    destruct args as [|a [|]]; try discriminate Hcnt. inversion Hd as [|? ? Da _]; subst.
    rewrite body_float. cbn [map nth_res nth flat_map]. rewrite app_nil_r. arg_step Da av.
    pose proof (to_float_tot av) as Ht. destruct (to_float fo av); cbn [bind good]; try contradiction; [reflexivity|exact I].
  - (* str *)
    destruct args as [|a [|]]; try discriminate Hcnt. inversion Hd as [|? ? Da _]; subst.
    rewrite body_str. cbn [map nth_res nth flat_map]. rewrite app_nil_r. arg_step Da av. reflexivity.
  - (* is_int *)
    destruct args as [|a [|]]; try discriminate Hcnt. inversion Hd as [|? ? Da _]; subst.
    rewrite body_is_int. cbn [map nth_res nth flat_map]. rewrite app_nil_r. arg_step Da av.
    destruct av; reflexivity.
  - (* is_float *)
    destruct args as [|a [|]]; try discriminate Hcnt. inversion Hd as [|? ? Da _]; subst.
    rewrite body_is_float. cbn [map nth_res nth flat_map]. rewrite app_nil_r. arg_step Da av.
    destruct av; try reflexivity; (destruct (f_parse fo _); [reflexivity|reflexivity|exact I]).
  - (* substr *)
    destruct args as [|a [|b [|c [|]]]]; try discriminate Hcnt.
    inversion Hd as [|? ? Da Hd1]; subst. inversion Hd1 as [|? ? Db Hd2]; subst. inversion Hd2 as [|? ? Dc _]; subst.
    cbn in Hp. apply andb_true_iff in Hp. destruct Hp as [Hpb Hpc].
    apply sty_eqb_eq in Hpb, Hpc. apply (sty_of_inj _ TNumber) in Hpb. apply (sty_of_inj _ TNumber) in Hpc.
    rewrite body_substr. cbn [map nth_res nth nth_arg flat_map]. rewrite app_nil_r.
    rewrite Hpb, Hpc. cbn [ty_eqb negb].
    arg_step Da av. arg_step Db bv.
    pose proof (to_int_tot bv) as Htb. destruct (to_int fo bv); cbn [bind good]; try contradiction; [|exact I].
    arg_step Dc cv.
    pose proof (to_int_tot cv) as Htc. destruct (to_int fo cv); cbn [bind good]; try contradiction; [reflexivity|exact I].
  - (* split *)
    destruct args as [|a [|b [|]]]; try discriminate Hcnt.
    inversion Hd as [|? ? Da Hd1]; subst. inversion Hd1 as [|? ? Db _]; subst.
    cbn in Hp. apply sty_eqb_eq in Hp. apply (sty_of_inj _ TStr) in Hp.
    rewrite body_split. cbn [map nth_res nth nth_arg flat_map]. rewrite app_nil_r.
    rewrite Hp. cbn [ty_eqb negb].
    arg_step Da av. arg_step Db bv.
    destruct (split_str _ _); [reflexivity|exact I].
  - (* list *)
    destruct args as [|a args]; [discriminate Hcnt|].
    rewrite body_list. cbn [map].
    pose proof (all_ok_good _ Hd) as Hall. cbn [map] in Hall.
    inversion Hd as [|? ? Da _]; subst. unfold dyn_ok2, good in Da.
    destruct (ev a) as [av|x| |] eqn:Ea; cbn [bind good];
      [ | cbn [flat_map]; apply in_or_app; left; exact Da | contradiction | exact I].
    pose proof (list_use_int_tot av) as Hu. destruct (list_use_int fo av) as [ui| | |]; cbn [bind good]; try contradiction; [|exact I].
    destruct (all_ok (Ok av :: map ev args)) as [vals|x| |]; cbn [bind good]; try assumption.
    destruct ui.
    + pose proof (map_to_int_tot vals) as Hm. destruct (map_res (to_int fo) vals); cbn [bind good]; try contradiction; [reflexivity|exact I].
    + pose proof (map_to_float_tot vals) as Hm. destruct (map_res (to_float fo) vals); cbn [bind good]; try contradiction; [reflexivity|exact I].
  - (* float_list *)
    rewrite (body_float_list "float_list") by (left; reflexivity).
    pose proof (all_ok_good _ Hd) as Hall.
    destruct (all_ok (map ev args)) as [vals|x| |]; cbn [bind good]; try assumption.
    pose proof (map_to_float_tot vals) as Hm. destruct (map_res (to_float fo) vals); cbn [bind good]; try contradiction; [reflexivity|exact I].
  - (* int_list *)
    rewrite (body_int_list "int_list") by (left; reflexivity).
    pose proof (all_ok_good _ Hd) as Hall.
    destruct (all_ok (map ev args)) as [vals|x| |]; cbn [bind good]; try assumption.
    pose proof (map_to_int_tot vals) as Hm. destruct (map_res (to_int fo) vals); cbn [bind good]; try contradiction; [reflexivity|exact I].
  - (* flist *)
    rewrite (body_float_list "flist") by (right; reflexivity).
    pose proof (all_ok_good _ Hd) as Hall.
    destruct (all_ok (map ev args)) as [vals|x| |]; cbn [bind good]; try assumption.
    pose proof (map_to_float_tot vals) as Hm. destruct (map_res (to_float fo) vals); cbn [bind good]; try contradiction; [reflexivity|exact I].
  - (* ilist *)
    rewrite (body_int_list "ilist") by (right; reflexivity).
    pose proof (all_ok_good _ Hd) as Hall.
    destruct (all_ok (map ev args)) as [vals|x| |]; cbn [bind good]; try assumption.
    pose proof (map_to_int_tot vals) as Hm. destruct (map_res (to_int fo) vals); cbn [bind good]; try contradiction; [reflexivity|exact I].
  - (* len *)
    destruct args as [|a [|]]; try discriminate Hcnt. inversion Hd as [|? ? Da _]; subst.
    cbn in Hp.
    rewrite body_len. cbn [map nth_res nth nth_arg flat_map]. rewrite app_nil_r. arg_step Da av.
    destruct (rtype a); try discriminate Hp; destruct av; try discriminate Da; reflexivity.
  - (* join *)
    destruct args as [|a args]; [discriminate Hcnt|].
    cbn in Hp. apply sty_eqb_eq in Hp. apply (sty_of_inj _ TStr) in Hp.
    rewrite body_join. cbn [map nth_res nth nth_arg tl flat_map]. rewrite Hp. cbn [ty_eqb negb].
    inversion Hd as [|? ? Da Hd1]; subst.
    unfold dyn_ok2, good in Da.
    destruct (ev a) as [av|x| |]; cbn [bind good];
      [ | apply in_or_app; left; exact Da | contradiction | exact I].
    pose proof (all_ok_good _ Hd1) as Hall.
    destruct (all_ok (map ev args)) as [vals|x| |]; cbn [bind good]; try assumption; try reflexivity.
    apply in_or_app. right. exact Hall.
  - (* strlen *)
    destruct args as [|a [|]]; try discriminate Hcnt. inversion Hd as [|? ? Da _]; subst.
    rewrite body_strlen. cbn [map nth_res nth flat_map]. rewrite app_nil_r. arg_step Da av. reflexivity.
  - (* cosine_distance *)
    destruct args as [|a [|b [|]]]; try discriminate Hcnt.
    inversion Hd as [|? ? Da Hd1]; subst. inversion Hd1 as [|? ? Db _]; subst.
    cbn in Hp. apply andb_true_iff in Hp. destruct Hp as [Hpa Hpb].
    rewrite body_cosine. cbn [map nth_res nth flat_map]. rewrite app_nil_r.
    unfold dyn_ok2, good in Da, Db.
    destruct (ev a) as [av|x| |]; cbn [bind good];
      [ | right; apply in_or_app; left; exact Da | contradiction | exact I].
    destruct (ev b) as [bv|x| |]; cbn [bind good];
      [ | right; apply in_or_app; right; exact Db | contradiction | exact I].
    assert (Va : vty2 av TList = true) by (destruct (rtype a); try discriminate Hpa; try discriminate Da; exact Da).
    assert (Vb : vty2 bv TList = true) by (destruct (rtype b); try discriminate Hpb; try discriminate Db; exact Db).
    pose proof (to_float_list_typed av Va) as Hla. destruct (to_float_list fo av) as [la|x| |]; cbn [bind good];
      [ | left; symmetry; exact Hla | contradiction | exact I].
    pose proof (to_float_list_typed bv Vb) as Hlb. destruct (to_float_list fo bv) as [lb|x| |]; cbn [bind good];
      [ | left; symmetry; exact Hlb | contradiction | exact I].
    pose proof (cosine_cases la lb) as Hcs. destruct (cosine_distance fo la lb) as [d|x| |]; cbn [bind good];
      [ reflexivity | left; symmetry; exact Hcs | contradiction | contradiction ].
  - (* l2_distance *)
    destruct args as [|a [|b [|]]]; try discriminate Hcnt.
    inversion Hd as [|? ? Da Hd1]; subst. inversion Hd1 as [|? ? Db _]; subst.
    cbn in Hp. apply andb_true_iff in Hp. destruct Hp as [Hpa Hpb].
    rewrite body_l2. cbn [map nth_res nth flat_map]. rewrite app_nil_r.
    unfold dyn_ok2, good in Da, Db.
    destruct (ev a) as [av|x| |]; cbn [bind good];
      [ | right; apply in_or_app; left; exact Da | contradiction | exact I].
    destruct (ev b) as [bv|x| |]; cbn [bind good];
      [ | right; apply in_or_app; right; exact Db | contradiction | exact I].
    assert (Va : vty2 av TList = true) by (destruct (rtype a); try discriminate Hpa; try discriminate Da; exact Da).
    assert (Vb : vty2 bv TList = true) by (destruct (rtype b); try discriminate Hpb; try discriminate Db; exact Db).
    pose proof (to_float_list_typed av Va) as Hla. destruct (to_float_list fo av) as [la|x| |]; cbn [bind good];
      [ | left; symmetry; exact Hla | contradiction | exact I].
    pose proof (to_float_list_typed bv Vb) as Hlb. destruct (to_float_list fo bv) as [lb|x| |]; cbn [bind good];
      [ | left; symmetry; exact Hlb | contradiction | exact I].
    pose proof (l2_cases la lb) as Hcs. destruct (l2_distance fo la lb) as [d|x| |]; cbn [bind good];
      [ reflexivity | left; symmetry; exact Hcs | contradiction | contradiction ].
Qed.


Lemma dyn2_call : forall p n args nm,
  call_name n = Some nm -> core2_fn nm = true -> count_fits nm (List.length args) = true ->
  params_ok nm (map (fun a => sty_of (rtype a)) args) = true ->
  Forall (dyn_ok2 k v) args -> dyn_ok2 k v (ECall p n args).
Proof.
  intros p n args nm Hn Hc Hcnt Hp Hd. unfold dyn_ok2.
  rewrite (eval2_call p n args nm Hn Hc Hcnt), (rtype_call p n args nm Hn Hc).
  cbn [sites2]. unfold call_sites. rewrite Hn.
  pose proof (apply_func_good nm args Hc Hcnt Hp Hd) as G.
  destruct (is_distance nm); exact G.
Qed.

(* ---------------------------------------------------------------- the induction *)
Definition safe2_at (e : expr) : Prop :=
  node_ok e = true -> defs_ok node_ok e = true -> dyn_ok2 k v e.

Lemma node_ok_split : forall e, node_ok e = true ->
  wt e = true /\ core2 e = true /\ params_static e = true /\ counts_ok e = true.
Proof.
  intros e H. unfold node_ok in H. apply andb_true_iff in H. destruct H as [H H4].
  apply andb_true_iff in H. destruct H as [H H3]. apply andb_true_iff in H. destruct H as [H1 H2]. auto.
Qed.

Lemma node_ok_intro : forall e,
  wt e = true -> core2 e = true -> params_static e = true -> counts_ok e = true -> node_ok e = true.
Proof. intros e H1 H2 H3 H4. unfold node_ok. rewrite H1, H2, H3, H4. reflexivity. Qed.

Lemma safe2_items : forall items, Forall safe2_at items ->
  forallb wt items = true -> forallb core2 items = true -> forallb params_static items = true ->
  forallb counts_ok items = true -> forallb (defs_ok node_ok) items = true ->
  Forall (dyn_ok2 k v) items.
Proof.
  induction 1 as [|x l Hx _ IH]; intros H1 H2 H3 H4 H5; [constructor|].
  cbn [forallb] in *.
  apply andb_true_iff in H1, H2, H3, H4, H5.
  destruct H1 as [H1 H1'], H2 as [H2 H2'], H3 as [H3 H3'], H4 as [H4 H4'], H5 as [H5 H5'].
  constructor; [apply Hx; [apply node_ok_intro; assumption | assumption] | apply IH; assumption].
Qed.

Lemma eval_safe2 : forall e, safe2_at e.
Proof.
  intros e0.
  enough (Hq : safe2_at e0 /\ match e0 with EList _ items => Forall safe2_at items | _ => True end) by apply Hq.
  induction e0 using expr_induction.
  - (* EBin *)
    split; [|exact I]. destruct IHe0_1 as [IHl _]. destruct IHe0_2 as [IHr IHrx].
    intros Hn Hdf. apply node_ok_split in Hn. destruct Hn as [Hw [Hc [Hps Hcn]]].
    cbn [TypeSafetyProofs.wt] in Hw. apply andb_true_iff in Hw. destruct Hw as [Hw Hop].
    apply andb_true_iff in Hw. destruct Hw as [Hwl Hwr].
    destruct (CheckerProofs.op_check fo p o e0_1 e0_2) as [u| | |] eqn:Eop; try discriminate Hop. destruct u. clear Hop.
    cbn [core2] in Hc. apply andb_true_iff in Hc. destruct Hc as [Hco Hcl].
    cbn [params_static] in Hps. apply andb_true_iff in Hps. destruct Hps as [Hpl Hpr].
    cbn [counts_ok] in Hcn. apply andb_true_iff in Hcn. destruct Hcn as [Hnl Hnr].
    cbn [defs_ok] in Hdf. apply andb_true_iff in Hdf. destruct Hdf as [Hdl Hdr].
    pose proof (IHl (node_ok_intro _ Hwl Hcl Hpl Hnl) Hdl) as Dl.
    assert (HDr : core2 e0_2 = true -> dyn_ok2 k v e0_2)
      by (intros Hcr; exact (IHr (node_ok_intro _ Hwr Hcr Hpr Hnr) Hdr)).
    destruct o; cbn [CheckerProofs.op_check] in Eop; try discriminate Eop; try discriminate Hco.
    + (* & *) apply check_andor_spec in Eop. destruct Eop as [Hl Hrt]. apply dyn2_andor; auto.
    + apply check_andor_spec in Eop. destruct Eop as [Hl Hrt]. apply dyn2_andor; auto.
    + (* = *) apply check_compares_spec in Eop; [|reflexivity]. destruct Eop as [_ [Ht Hcc]]. cbn [cmp_cond] in Hcc.
      apply dyn2_eq; auto.
    + apply check_compares_spec in Eop; [|reflexivity]. destruct Eop as [_ [Ht Hcc]]. cbn [cmp_cond] in Hcc.
      apply dyn2_eq; auto.
    + (* ^= *) apply check_compares_spec in Eop; [|reflexivity]. destruct Eop as [_ [Ht Hcc]]. cbn [cmp_cond] in Hcc.
      apply ty_eqb_eq in Hcc. apply dyn2_prefix; auto; congruence.
    + (* ~= *) apply check_compares_spec in Eop; [|reflexivity]. destruct Eop as [_ [Ht Hcc]]. cbn [cmp_cond] in Hcc.
      apply ty_eqb_eq in Hcc. apply dyn2_regexp; auto; congruence.
    + (* + *) apply check_math_spec in Eop; [|reflexivity].
      destruct Eop as [[[_ [Hl Hrt]]|[Hl Hrt]] _].
      * apply dyn2_concat; auto.
      * exact (dyn2_arith p OAdd e0_1 e0_2 (or_introl eq_refl) Hl Hrt Dl (HDr Hco)).
    + apply check_math_spec in Eop; [|reflexivity].
      destruct Eop as [[[Ho _]|[Hl Hrt]] _]; [discriminate Ho|].
      exact (dyn2_arith p OSub e0_1 e0_2 (or_intror (or_introl eq_refl)) Hl Hrt Dl (HDr Hco)).
    + apply check_math_spec in Eop; [|reflexivity].
      destruct Eop as [[[Ho _]|[Hl Hrt]] _]; [discriminate Ho|].
      exact (dyn2_arith p OMul e0_1 e0_2 (or_intror (or_intror (or_introl eq_refl))) Hl Hrt Dl (HDr Hco)).
    + apply check_math_spec in Eop; [|reflexivity].
      destruct Eop as [[[Ho _]|[Hl Hrt]] _]; [discriminate Ho|].
      exact (dyn2_arith p ODiv e0_1 e0_2 (or_intror (or_intror (or_intror eq_refl))) Hl Hrt Dl (HDr Hco)).
    + (* > *) apply check_compares_spec in Eop; [|reflexivity]. destruct Eop as [_ [Ht Hcc]]. cbn [cmp_cond] in Hcc.
      apply dyn2_cmp; auto.
    + apply check_compares_spec in Eop; [|reflexivity]. destruct Eop as [_ [Ht Hcc]]. cbn [cmp_cond] in Hcc.
      apply dyn2_cmp; auto 6.
    + apply check_compares_spec in Eop; [|reflexivity]. destruct Eop as [_ [Ht Hcc]]. cbn [cmp_cond] in Hcc.
      apply dyn2_cmp; auto 6.
    + apply check_compares_spec in Eop; [|reflexivity]. destruct Eop as [_ [Ht Hcc]]. cbn [cmp_cond] in Hcc.
      apply dyn2_cmp; auto 6.
    + (* in *)
      apply check_in_spec in Eop. destruct Eop as [Hs Hr].
      destruct e0_2; try discriminate Hco; try contradiction.
      * (* a function call *) apply dyn2_in_fn; auto.
      * (* a field reference *) apply dyn2_in_fn; auto.
      * (* an explicit list *)
        apply first_mistyped_none in Hr.
        cbn [TypeSafetyProofs.wt] in Hwr. apply andb_true_iff in Hwr. destruct Hwr as [Hwi _].
        cbn [params_static] in Hpr. cbn [counts_ok] in Hnr. cbn [defs_ok] in Hdr.
        apply dyn2_in_list; auto. exact (safe2_items _ IHrx Hwi Hco Hpr Hnr Hdr).
    + (* between *) unfold check_between in Eop.
      destruct e0_2; try discriminate Eop. destruct l as [|lo [|hi [|]]]; try discriminate Eop.
      destruct (is_strnum_ty (rtype e0_1)) eqn:Hs; cbn [negb] in Eop; [|discriminate].
      destruct (ty_eqb (rtype lo) (rtype e0_1) && ty_eqb (rtype hi) (rtype e0_1)) eqn:Eb; [|discriminate].
      apply andb_true_iff in Eb. destruct Eb as [Elo Ehi]. apply ty_eqb_eq in Elo, Ehi.
      cbn [TypeSafetyProofs.wt] in Hwr. apply andb_true_iff in Hwr. destruct Hwr as [Hwi _].
      cbn [params_static] in Hpr. cbn [counts_ok] in Hnr. cbn [defs_ok] in Hdr.
      pose proof (safe2_items _ IHrx Hwi Hco Hpr Hnr Hdr) as Hd.
      inversion Hd as [|? ? Dlo Hd']; subst. inversion Hd' as [|? ? Dhi _]; subst.
      apply dyn2_between; auto.
    + (* and *) apply check_andor_spec in Eop. destruct Eop as [Hl Hrt]. apply dyn2_andor; auto.
    + apply check_andor_spec in Eop. destruct Eop as [Hl Hrt]. apply dyn2_andor; auto 6.
  - (* EField *)
    split; [|exact I]. intros _ _. unfold dyn_ok2. destruct f; reflexivity.
  - split; [|exact I]. intros _ _. reflexivity.
  - (* ENot *)
    split; [|exact I]. destruct IHe0 as [IHr _]. intros Hn Hdf.
    apply node_ok_split in Hn. destruct Hn as [Hw [Hc [Hps Hcn]]].
    cbn [TypeSafetyProofs.wt] in Hw. apply andb_true_iff in Hw. destruct Hw as [Hwr Hb]. apply ty_eqb_eq in Hb.
    cbn [core2] in Hc. cbn [params_static] in Hps. cbn [counts_ok] in Hcn. cbn [defs_ok] in Hdf.
    apply dyn2_not; auto. apply IHr; [apply node_ok_intro; assumption | assumption].
  - (* ECall *)
    split; [|exact I]. clear IHe0. intros Hn Hdf.
    apply node_ok_split in Hn. destruct Hn as [Hw [Hc [Hps Hcn]]].
    cbn [core2] in Hc. apply andb_true_iff in Hc. destruct Hc as [Hcf Hca].
    destruct (call_name e0) as [nm|] eqn:En; [|discriminate Hcf].
    cbn [params_static] in Hps. rewrite En in Hps. apply andb_true_iff in Hps. destruct Hps as [Hpo Hpa].
    cbn [counts_ok] in Hcn. rewrite En in Hcn. apply andb_true_iff in Hcn. destruct Hcn as [Hcnt Hcna].
    assert (Hfi : exists x, func_info nm = Some x).
    { unfold core2_fn in Hcf. destruct (func_info nm); [eauto|discriminate Hcf]. }
    destruct Hfi as [x Hfi]. rewrite Hfi in Hcnt.
    cbn [TypeSafetyProofs.wt] in Hw. cbn [defs_ok] in Hdf.
    assert (HS : Forall safe2_at args) by (eapply Forall_impl; [|exact H]; intros y [Hy _]; exact Hy).
    pose proof (safe2_items _ HS Hw Hca Hpa Hcna Hdf) as Hd.
    exact (dyn2_call p e0 args nm En Hcf Hcnt Hpo Hd).
  - (* EName *)
    split; [|exact I]. intros _ _. reflexivity.
  - (* ERef *)
    split; [|exact I]. destruct IHe0 as [IHd _]. intros _ Hdf. cbn [defs_ok] in Hdf.
    apply andb_true_iff in Hdf. destruct Hdf as [Hnd Hdd]. exact (IHd Hnd Hdd).
  - (* ENum *)
    split; [|exact I]. intros _ _. reflexivity.
  - (* EFloat *)
    split; [|exact I]. intros _ _.
    unfold dyn_ok2. cbn [Eval.eval rtype]. unfold float_value. destruct (f_parse fo d); reflexivity.
  - split; [|exact I]. intros _ _. reflexivity.
  - (* EList *)
    assert (HS : Forall safe2_at l) by (eapply Forall_impl; [|exact H]; intros x [Hx _]; exact Hx).
    split; [|exact HS]. intros Hn _. apply node_ok_split in Hn. destruct Hn as [_ [Hc _]]. discriminate Hc.
  - (* EAccess *)
    split; [|exact I]. intros Hn _. apply node_ok_split in Hn. destruct Hn as [_ [Hc _]]. discriminate Hc.
Qed.

End Ops.

(* ---------------------------------------------------------------- the call validation gives
   the argument counts *)
Lemma calls_list_counts : forall l,
  Forall (fun e => forall a, check_calls a e = Ok tt -> counts_ok e = true) l ->
  calls_list l = Ok tt -> forallb counts_ok l = true.
Proof.
  induction 1 as [|x l Hx _ IH]; intros Hc; [reflexivity|].
  cbn [calls_list] in Hc. inv_bind Hc as u Hu Hc. destruct u.
  cbn [forallb]. rewrite (Hx _ Hu), (IH Hc). reflexivity.
Qed.

Lemma check_calls_counts : forall e a, check_calls a e = Ok tt -> counts_ok e = true.
Proof.
  intros e0. induction e0 using expr_induction; intros a Hc; try reflexivity.
  - rewrite check_calls_bin in Hc. inv_bind Hc as u Hu Hc. destruct u.
    cbn [counts_ok]. rewrite (IHe0_1 _ Hu), (IHe0_2 _ Hc). reflexivity.
  - cbn [check_calls] in Hc. cbn [counts_ok]. exact (IHe0 _ Hc).
  - destruct e0; try (cbn [check_calls] in Hc; discriminate Hc).
    rewrite check_calls_call_eq in Hc. cbn [counts_ok].
    destruct (call_name (EName pos s)) as [nm|]; [|discriminate Hc].
    inv_bind Hc as u Hu Hc. destruct u.
    rewrite (calls_list_counts _ H Hc), andb_true_r.
    unfold count_fits. destruct (func_info nm) as [[[na va] t]|]; [|reflexivity].
    cbv zeta in Hu. destruct ((negb va && negb (Nat.eqb (List.length args) na)) || (va && Nat.ltb (List.length args) na));
      [discriminate Hu|reflexivity].
  - rewrite check_calls_elist_eq in Hc. cbn [counts_ok]. exact (calls_list_counts _ H Hc).
  - cbn [check_calls] in Hc. cbn [counts_ok]. exact (IHe0_1 _ Hc).
Qed.

(* the checker's output is safe to evaluate: composition with Check and the call validation *)
Theorem checked_tree_safe2 : forall ctx e e1 a k v,
  check fo true ctx e = Ok e1 ->
  check_calls a (rewrite_name (c_names ctx) e1) = Ok tt ->
  core2 (rewrite_name (c_names ctx) e1) = true ->
  params_static (rewrite_name (c_names ctx) e1) = true ->
  defs_ok node_ok (rewrite_name (c_names ctx) e1) = true ->
  dyn_ok2 k v (rewrite_name (c_names ctx) e1).
Proof.
  intros ctx e e1 a k v Hc Hcalls Hcore Hps Hdefs.
  apply (eval_safe2 k v); [|exact Hdefs].
  apply node_ok_intro; try assumption.
  - rewrite wt_rw. exact (check_wt fo _ _ _ Hc).
  - exact (check_calls_counts _ _ Hcalls).
Qed.

(* the WHERE clause of a row: a Boolean accepted tree never yields "result is not boolean" *)
Lemma filter_row_safe2 : forall k v e,
  rtype e = TBool -> dyn_ok2 k v e ->
  match filter_row fo re k v e with
  | Ok _ => True
  | Err x => In x (sites2 e)
  | Panic => False
  | OutOfModel => True
  end.
Proof.
  intros k v e Ht D. unfold filter_row, dyn_ok2, good in *. rewrite Ht in D.
  destruct (Eval.eval fo re k v e) as [val|x| |]; cbn [bind]; try assumption.
  destruct val; try discriminate D. exact I.
Qed.

(* the distance functions: their plain errors are the two data-dependent ones *)
Lemma distance_failures : forall (a : value fo) x,
  vty2 a TList = true -> to_float_list fo a = Err x ->
  exists l, a = VStrs l /\ parse_floats fo l = Err x.
Proof. intros a x Va H. destruct a; try discriminate Va; cbn [to_float_list] in H; try discriminate H. eauto. Qed.

Lemma distance_length : forall l r x,
  (cosine_distance fo l r = Err x \/ l2_distance fo l r = Err x) -> List.length l <> List.length r.
Proof.
  intros l r x [H|H]; unfold cosine_distance, l2_distance in H;
    destruct (Nat.eqb (List.length l) (List.length r)) eqn:E; try (apply Nat.eqb_neq; exact E).
  - destruct (dot3 fo l r _ _ _) as [[t1 t2] t3]. discriminate H.
  - discriminate H.
Qed.

(* the plain errors of a distance function on list values are the two data-dependent ones: an
   element of a list of strings that strconv.ParseFloat refuses, lists of different length *)
Lemma distance_failures_data_dependent : forall (a b : value fo) x,
  vty2 a TList = true -> vty2 b TList = true ->
  ((do l <- to_float_list fo a; do r <- to_float_list fo b; do d <- cosine_distance fo l r; Ok (@VFlt fo d)) = Err x \/
   (do l <- to_float_list fo a; do r <- to_float_list fo b; do d <- l2_distance fo l r; Ok (@VFlt fo d)) = Err x) ->
  (exists l, (a = VStrs l \/ b = VStrs l) /\ parse_floats fo l = Err x) \/
  (exists l r, to_float_list fo a = Ok l /\ to_float_list fo b = Ok r /\ List.length l <> List.length r).
Proof.
  intros a b x Va Vb H.
  destruct (to_float_list fo a) as [l|e| |] eqn:Ea.
  2:{ left. assert (e = x) by (destruct H as [H|H]; cbn [bind] in H; inversion H; reflexivity). subst e.
      destruct (distance_failures a x Va Ea) as [l [-> Hl]]. exists l. split; [left; reflexivity|exact Hl]. }
  2:{ destruct H as [H|H]; discriminate H. }
  2:{ destruct H as [H|H]; discriminate H. }
  destruct (to_float_list fo b) as [r|e| |] eqn:Eb.
  2:{ left. assert (e = x) by (destruct H as [H|H]; cbn [bind] in H; inversion H; reflexivity). subst e.
      destruct (distance_failures b x Vb Eb) as [l' [-> Hl]]. exists l'. split; [right; reflexivity|exact Hl]. }
  2:{ destruct H as [H|H]; discriminate H. }
  2:{ destruct H as [H|H]; discriminate H. }
  right. exists l, r. split; [reflexivity|]. split; [reflexivity|]. cbn [bind] in H.
  apply (distance_length l r x).
  destruct H as [H|H]; [left|right].
  - destruct (cosine_distance fo l r); cbn [bind] in H; try discriminate H. inversion H. reflexivity.
  - destruct (l2_distance fo l r); cbn [bind] in H; try discriminate H. inversion H. reflexivity.
Qed.

End TS2.
