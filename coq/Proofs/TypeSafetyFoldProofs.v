(* Proofs/TypeSafetyFoldProofs.v -- the constant folder keeps type safety.

   The plans evaluate the trees the folder returns (Model/Fold.v [fold] = ExpressionOptimizer.
   Optimize; statement level Model/FoldStmt.v [exec_tree] = [fold] plus the in-place rewriting of
   the field objects that references point to); the type-soundness theorems of
   Proofs/TypeSafety2Proofs.v / TypeSafetyVecProofs.v speak about the CHECKED trees.  Here:

     every rewriting step of the folder (tryReorderBinaryOp, tryOptimizeBinaryOpExecute,
     tryOptimizeFunctionCall, tryOptimizeAndOr, and their compositions optimize / Optimize /
     the in-place states [after_pass] / [in_place] / [relink]) maps a tree that satisfies the
     node conditions of an accepted tree to a tree of the SAME static type that satisfies them
     again -- with one exception, the checker's syntactic test "a literal divisor is not zero":
     `x / (1 - 1)` folds to `x / 0`.  The node conditions are therefore the weak ones of
     Proofs/TypeSafetyWeakProofs.v ([node_okt] / [node_oktv]: everything Check tests but that
     one), under which both evaluator inductions have been re-run.

   No evaluation is needed for this: a folded literal takes its kind from the static type
   (tryOptimizeFunctionCall re-wraps by ReturnType()) or from the kind of the computed value,
   which determines the static type of an arithmetic node (FoldProofs.eval_arith_kind); the
   re-association (x op c1) op c2 => x op (c1 op c2) keeps the operand kinds of + and *.

   [vk] selects the batch-mode conditions (node_oktv = node_okt && in_kinds). *)
From Coq Require Import List String ZArith Bool Arith Lia.
Import ListNotations.
From KV Require Import Base.Bytes Base.Num Model.Ast Model.Value Model.Eval Model.EvalVec Model.Checker
                       Model.Fold Model.FoldStmt
                       Spec.Typing Proofs.AstInd Proofs.CheckerProofs Proofs.TypeSafetyProofs Proofs.TypeSafety2Proofs
                       Proofs.TypeSafetyVecProofs Proofs.TypeSafetyWeakProofs Proofs.FoldProofs.
Open Scope string_scope.
Set Warnings "-unused-intro-pattern".

Definition is_ref (e : expr) : bool := match e with ERef _ _ _ => true | _ => false end.

Section FoldTyped.
Variable fo : fops.
Variable re_match : bytes -> bytes -> res bool.
Variable fmt_v : F fo -> string.
Variable vk : bool.

Notation wtt := (wtt fo).
Notation node_okt := (node_okt fo).
Notation op_check_t := (op_check_t fo).

(* the node conditions: row mode (vk = false) / batch mode (vk = true) *)
Definition nk (e : expr) : bool := node_okt e && (if vk then in_kinds e else true).

Definition kinds (e : expr) : bool := if vk then in_kinds e else true.

Lemma nk_split : forall e, nk e = true ->
  wtt e = true /\ core2 e = true /\ params_static e = true /\ counts_ok e = true /\ kinds e = true.
Proof.
  intros e H. unfold nk, TypeSafetyWeakProofs.node_okt in H.
  apply andb_true_iff in H. destruct H as [H H5].
  apply andb_true_iff in H. destruct H as [H H4]. apply andb_true_iff in H. destruct H as [H H3].
  apply andb_true_iff in H. destruct H as [H1 H2]. auto.
Qed.

Lemma nk_intro : forall e,
  wtt e = true -> core2 e = true -> params_static e = true -> counts_ok e = true -> kinds e = true ->
  nk e = true.
Proof.
  intros e H1 H2 H3 H4 H5. unfold nk, TypeSafetyWeakProofs.node_okt. fold (kinds e).
  rewrite H1, H2, H3, H4, H5. reflexivity.
Qed.

(* what the evaluation of the parent sees of the SHAPE of an operand (the right side of IN /
   BETWEEN stays a list, a list-valued call with the same name, or a reference) *)
Definition SH (e e' : expr) : Prop :=
  match e with
  | EList _ _ => e' = e
  | ERef _ _ _ => is_ref e' = true /\ lkind e' = lkind e
  | ECall _ n _ => rtype e = TList -> exists p' args', e' = ECall p' n args'
  | _ => True
  end.

Lemma SH_refl : forall e, SH e e.
Proof. destruct e; cbn [SH]; eauto. Qed.

Lemma SH_trans : forall a b c, SH a b -> SH b c -> SH a c.
Proof.
  intros a b c H1 H2. destruct a; cbn [SH] in *; auto.
  - intros Ht. destruct (H1 Ht) as (p' & args' & ->). cbn [SH] in H2. apply H2. exact Ht.
  - destruct H1 as [Hb Hk]. destruct b; try discriminate Hb. cbn [SH] in H2.
    destruct H2 as [Hc Hk2]. split; [exact Hc | congruence].
  - subst b. exact H2.
Qed.

(* the step e => e' keeps the node conditions *)
Definition N (e e' : expr) : Prop :=
  rtype e' = rtype e /\ nk e' = true /\ defs_ok nk e' = true /\
  (forall p f, e' = EField p f -> e = e').

Definition TG (e e' : expr) : Prop :=
  SH e e' /\ (nk e = true -> defs_ok nk e = true -> N e e').

Lemma N_refl : forall e, nk e = true -> defs_ok nk e = true -> N e e.
Proof. intros e H1 H2. repeat split; auto. Qed.

Lemma TG_refl : forall e, TG e e.
Proof. intros e. split; [apply SH_refl | apply N_refl]. Qed.

Lemma TG_trans : forall a b c, TG a b -> TG b c -> TG a c.
Proof.
  intros a b c [S1 N1] [S2 N2].
  split; [exact (SH_trans a b c S1 S2)|]. intros Ha Hd.
  destruct (N1 Ha Hd) as (R1 & K1 & D1 & F1). destruct (N2 K1 D1) as (R2 & K2 & D2 & F2).
  split; [congruence|]. split; [exact K2|]. split; [exact D2|].
  intros p f E. pose proof (F2 p f E) as E2. subst c. rewrite <- E2. apply (F1 p f). exact E2.
Qed.

(* a literal in place of a node of the same static type *)
Lemma N_lit : forall e lit, is_value lit = true -> rtype lit = rtype e -> N e lit.
Proof.
  intros e lit Hv Hr. split; [exact Hr|].
  destruct lit; try discriminate Hv; (split; [unfold nk, kinds; destruct vk; reflexivity|]);
    (split; [reflexivity|]); intros p' f' E; discriminate E.
Qed.

(* ---------------------------------------------------------------- the operator tests see an
   operand only through its static type, whether it is the key / value field, and (right side
   of IN / BETWEEN) the shape *)
Lemma same_field_pres : forall l r l' r',
  (forall p f, l' = EField p f -> l = l') -> (forall p f, r' = EField p f -> r = r') ->
  same_field l r = false -> same_field l' r' = false.
Proof.
  intros l r l' r' Fl Fr H.
  destruct (same_field l' r') eqn:E; [|reflexivity].
  destruct l'; try discriminate E. destruct r'; try (destruct f; discriminate E).
  rewrite (Fl _ _ eq_refl), (Fr _ _ eq_refl) in H. congruence.
Qed.

Lemma op_pres : forall p o l r l' r',
  rtype l' = rtype l -> rtype r' = rtype r -> SH r r' ->
  (forall p f, l' = EField p f -> l = l') -> (forall p f, r' = EField p f -> r = r') ->
  op_check_t p o l r = Ok tt -> op_check_t p o l' r' = Ok tt.
Proof.
  intros p o l r l' r' Rl Rr Sr Fl Fr H.
  destruct o; cbn [TypeSafetyWeakProofs.op_check_t CheckerProofs.op_check] in *; try exact H.
  1-2,17-18: apply check_andor_spec in H; apply check_andor_spec; rewrite Rl, Rr; exact H.
  1-4,9-12: (apply check_compares_spec in H; [|reflexivity]); (apply check_compares_spec; [reflexivity|]);
       destruct H as [Hs [Ht Hc]]; rewrite Rl, Rr; split; [exact (same_field_pres _ _ _ _ Fl Fr Hs) | auto].
  1-4: (apply check_math_spec in H; [|reflexivity]); (apply check_math_spec; [reflexivity|]);
       rewrite Rl, Rr; split; [exact (proj1 H) | intros Hd; discriminate Hd].
  - (* in *)
    apply check_in_spec in H. apply check_in_spec. rewrite Rl. destruct H as [Hs Hr]. split; [exact Hs|].
    destruct r; try contradiction; cbn [SH] in Sr.
    + destruct (Sr Hr) as (p' & args' & ->). exact Hr.
    + destruct Sr as [Hc _]. destruct r'; try discriminate Hc. congruence.
    + subst r'. exact Hr.
  - (* between *)
    unfold check_between in *. destruct r; try discriminate H. cbn [SH] in Sr. subst r'. rewrite Rl.
    destruct l0 as [|lo [|hi [|]]]; try discriminate H.
    destruct (negb (is_strnum_ty (rtype l))); [discriminate H|].
    destruct (ty_eqb (rtype lo) (rtype l) && ty_eqb (rtype hi) (rtype l)); [reflexivity | discriminate H].
Qed.

(* ---------------------------------------------------------------- congruence: a BinaryOpExpr
   whose operands were rewritten *)
Lemma nk_bin_parts : forall p o l r, nk (EBin p o l r) = true ->
  nk l = true /\ op_check_t p o l r = Ok tt /\
  wtt r = true /\ params_static r = true /\ counts_ok r = true /\ kinds r = true /\
  (match r with EList _ _ => True | _ => core2 r = true end).
Proof.
  intros p o l r H. apply nk_split in H. destruct H as (Hw & Hc & Hp & Hn & Hk).
  cbn [TypeSafetyWeakProofs.wtt] in Hw. apply andb_true_iff in Hw. destruct Hw as [Hw Hop].
  apply andb_true_iff in Hw. destruct Hw as [Hwl Hwr].
  destruct (op_check_t p o l r) as [u| | |] eqn:Eop; try discriminate Hop. destruct u.
  cbn [core2] in Hc. apply andb_true_iff in Hc. destruct Hc as [Hco Hcl].
  cbn [params_static] in Hp. apply andb_true_iff in Hp. destruct Hp as [Hpl Hpr].
  cbn [counts_ok] in Hn. apply andb_true_iff in Hn. destruct Hn as [Hnl Hnr].
  assert (Hkk : kinds l = true /\ kinds r = true).
  { unfold kinds in *. destruct vk; [|auto]. cbn [in_kinds] in Hk.
    apply andb_true_iff in Hk. destruct Hk as [Hk Hkr]. apply andb_true_iff in Hk. tauto. }
  destruct Hkk as [Hkl Hkr].
  split; [apply nk_intro; assumption|]. split; [reflexivity|].
  repeat (split; [assumption|]).
  destruct r; try exact I; destruct o; try discriminate Hco; try exact Hco; reflexivity.
Qed.

Lemma defs_bin : forall P p o l r, defs_ok P (EBin p o l r) = true -> defs_ok P l = true /\ defs_ok P r = true.
Proof. intros P p o l r H. cbn [defs_ok] in H. apply andb_true_iff in H. exact H. Qed.

Lemma N_bin : forall p o l r l' r',
  nk (EBin p o l r) = true -> defs_ok nk (EBin p o l r) = true ->
  TG l l' -> TG r r' -> N (EBin p o l r) (EBin p o l' r').
Proof.
  intros p o l r l' r' Hn Hd [Sl Nl] [Sr Nr].
  pose proof Hn as Hn0. apply nk_bin_parts in Hn. destruct Hn as (Kl & Hop & Hwr & Hpr & Hnr & Hkr & Hcr).
  apply defs_bin in Hd. destruct Hd as [Dl Dr].
  destruct (Nl Kl Dl) as (Rl & Kl' & Dl' & Fl).
  apply nk_split in Hn0. destruct Hn0 as (_ & Hc0 & _ & _ & Hk0).
  apply nk_split in Kl'. destruct Kl' as (Hwl' & Hcl' & Hpl' & Hnl' & Hkl').
  assert (Hrr : rtype r' = rtype r /\ wtt r' = true /\ params_static r' = true /\ counts_ok r' = true /\
                kinds r' = true /\ defs_ok nk r' = true /\ (forall p f, r' = EField p f -> r = r') /\
                (match r with EList _ _ => True | _ => core2 r' = true end)).
  { destruct (match r with EList _ _ => true | _ => false end) eqn:El.
    - destruct r; try discriminate El. cbn [SH] in Sr. subst r'. repeat (split; [auto|]). exact I.
    - assert (Kr : nk r = true) by (apply nk_intro; try assumption; destruct r; try discriminate El; exact Hcr).
      destruct (Nr Kr Dr) as (Rr & Kr' & Dr' & Fr). apply nk_split in Kr'. destruct Kr' as (A & B & C & D & E).
      repeat (split; [assumption|]). destruct r; try exact B; discriminate El. }
  destruct Hrr as (Rr & Hwr' & Hpr' & Hnr' & Hkr' & Dr' & Fr & Hcr').
  split; [cbn [rtype]; rewrite Rl; reflexivity|]. split; [|split; [cbn [defs_ok]; rewrite Dl', Dr'; reflexivity | intros q f E; discriminate E]].
  apply nk_intro.
  - cbn [TypeSafetyWeakProofs.wtt]. rewrite Hwl', Hwr', (op_pres p o l r l' r' Rl Rr Sr Fl Fr Hop). reflexivity.
  - cbn [core2] in *. apply andb_true_iff in Hc0. destruct Hc0 as [Hco _]. rewrite Hcl', andb_true_r.
    destruct o; try discriminate Hco;
      try (destruct r; try discriminate Hco; try exact Hcr'; cbn [SH] in Sr; subst r'; exact Hco).
    + (* in *)
      assert (Hin := Hop). cbn [TypeSafetyWeakProofs.op_check_t CheckerProofs.op_check] in Hin.
      apply check_in_spec in Hin. destruct Hin as [_ Hin].
      destruct r; try discriminate Hco; cbn [SH] in Sr.
      * destruct (Sr Hin) as (p' & args' & ->). exact Hcr'.
      * destruct Sr as [Hc _]. destruct r'; try discriminate Hc. exact Hcr'.
      * subst r'. exact Hco.
  - cbn [params_static]. rewrite Hpl', Hpr'. reflexivity.
  - cbn [counts_ok]. rewrite Hnl', Hnr'. reflexivity.
  - unfold kinds in *. destruct vk; [|reflexivity]. cbn [in_kinds] in *. rewrite Hkl', Hkr', !andb_true_r.
    apply andb_true_iff in Hk0. destruct Hk0 as [Hk0 _]. apply andb_true_iff in Hk0. destruct Hk0 as [Hk0 _].
    destruct o; try reflexivity.
    assert (Hin := Hop). cbn [TypeSafetyWeakProofs.op_check_t CheckerProofs.op_check] in Hin.
    apply check_in_spec in Hin. destruct Hin as [_ Hin].
    destruct r; try contradiction; cbn [SH] in Sr.
    + destruct (Sr Hin) as (p' & args' & ->). cbn [lkind] in *. rewrite Rl. exact Hk0.
    + destruct Sr as [Hc Hlk]. destruct r'; try discriminate Hc. rewrite Hlk, Rl. exact Hk0.
    + subst r'. reflexivity.
Qed.

Lemma TG_bin : forall p o l r l' r', TG l l' -> TG r r' -> TG (EBin p o l r) (EBin p o l' r').
Proof. intros p o l r l' r' Tl Tr. split; [exact I|]. intros Hn Hd. exact (N_bin p o l r l' r' Hn Hd Tl Tr). Qed.

(* ---------------------------------------------------------------- function calls *)
Lemma forallb_nk : forall args,
  forallb nk args = true <->
  (forallb wtt args = true /\ forallb core2 args = true /\ forallb params_static args = true /\
   forallb counts_ok args = true /\ forallb kinds args = true).
Proof.
  induction args as [|a args IH]; cbn [forallb]; [tauto|].
  rewrite !andb_true_iff, IH. split.
  - intros [Ha (H1 & H2 & H3 & H4 & H5)]. apply nk_split in Ha. tauto.
  - intros ((A1 & H1) & (A2 & H2) & (A3 & H3) & (A4 & H4) & (A5 & H5)).
    split; [apply nk_intro; assumption | tauto].
Qed.

Lemma forallb_kinds : forall args, kinds (ECall 0 (EName 0 "") args) = forallb kinds args.
Proof.
  intros args. unfold kinds. destruct vk; cbn [in_kinds]; [reflexivity|].
  induction args as [|a args IH]; [reflexivity|]. cbn [forallb]. exact IH.
Qed.

Definition call_head (n : expr) (args : list expr) : bool :=
  match call_name n with
  | Some nm =>
      core2_fn nm && params_ok nm (map (fun a => sty_of (rtype a)) args) &&
      match func_info nm with Some _ => count_fits nm (List.length args) | None => true end
  | None => false
  end.

Lemma nk_call_iff : forall p n args,
  nk (ECall p n args) = true <-> (call_head n args = true /\ forallb nk args = true).
Proof.
  intros p n args. rewrite forallb_nk. unfold call_head. split.
  - intros H. apply nk_split in H. destruct H as (Hw & Hc & Hp & Hn & Hk).
    cbn [TypeSafetyWeakProofs.wtt] in Hw. cbn [core2] in Hc. cbn [params_static] in Hp. cbn [counts_ok] in Hn.
    destruct (call_name n) as [nm|]; [|discriminate Hc].
    apply andb_true_iff in Hc, Hp, Hn. destruct Hc as [Hc1 Hc2], Hp as [Hp1 Hp2], Hn as [Hn1 Hn2].
    rewrite Hc1, Hp1, Hn1. split; [reflexivity|]. repeat (split; [assumption|]).
    rewrite <- forallb_kinds. unfold kinds in *. destruct vk; [exact Hk | reflexivity].
  - intros [Hh (Hw & Hc & Hp & Hn & Hk)].
    destruct (call_name n) as [nm|] eqn:En; [|discriminate Hh].
    apply andb_true_iff in Hh. destruct Hh as [Hh H3]. apply andb_true_iff in Hh. destruct Hh as [H1 H2].
    apply nk_intro.
    + exact Hw.
    + cbn [core2]. rewrite En, H1, Hc. reflexivity.
    + cbn [params_static]. rewrite En, H2, Hp. reflexivity.
    + cbn [counts_ok]. rewrite En, H3, Hn. reflexivity.
    + rewrite <- forallb_kinds in Hk. unfold kinds in *. destruct vk; [exact Hk | reflexivity].
Qed.

Lemma args_pres : forall args args', Forall2 TG args args' ->
  forallb nk args = true -> forallb (defs_ok nk) args = true ->
  forallb nk args' = true /\ forallb (defs_ok nk) args' = true /\ map rtype args' = map rtype args.
Proof.
  induction 1 as [|a a' args args' [_ Ha] _ IH]; intros Hn Hd; [auto|].
  cbn [forallb map] in *. apply andb_true_iff in Hn, Hd. destruct Hn as [Hn1 Hn2], Hd as [Hd1 Hd2].
  destruct (Ha Hn1 Hd1) as (R & K & D & _). destruct (IH Hn2 Hd2) as (K2 & D2 & R2).
  rewrite K, K2, D, D2, R, R2. auto.
Qed.

Lemma Forall2_length : forall {A B} (R : A -> B -> Prop) l l', Forall2 R l l' -> List.length l' = List.length l.
Proof. induction 1; cbn; congruence. Qed.

Lemma TG_call : forall p n args args', Forall2 TG args args' -> TG (ECall p n args) (ECall p n args').
Proof.
  intros p n args args' HF. split; [cbn [SH]; eauto|]. intros Hn Hd.
  apply nk_call_iff in Hn. destruct Hn as [Hh Hn]. cbn [defs_ok] in Hd.
  destruct (args_pres _ _ HF Hn Hd) as (K & D & R).
  split; [reflexivity|]. split; [|split; [exact D | intros q f E; discriminate E]].
  apply nk_call_iff. split; [|exact K].
  unfold call_head in *. rewrite (Forall2_length _ _ _ HF).
  replace (map (fun a => sty_of (rtype a)) args') with (map (fun a => sty_of (rtype a)) args); [exact Hh|].
  rewrite <- (map_map rtype sty_of args), <- (map_map rtype sty_of args'), R. reflexivity.
Qed.

(* a literal in place of a call that is not list-valued *)
Lemma TG_call_lit : forall p n args lit,
  is_value lit = true -> rtype lit = rtype (ECall p n args) -> rtype lit <> TList ->
  TG (ECall p n args) lit.
Proof.
  intros p n args lit Hv Hr Hl. split.
  - cbn [SH]. intros Ht. rewrite Ht in Hr. contradiction.
  - intros _ _. apply N_lit; assumption.
Qed.

Notation call_fold := (Fold.call_fold fo re_match fmt_v).
Notation try_exec := (Fold.try_exec fo re_match fmt_v).
Notation exec_child := (FoldProofs.exec_child fo re_match fmt_v).
Notation exec_node := (FoldProofs.exec_node fo re_match fmt_v).
Notation optimize := (Fold.optimize fo re_match fmt_v).
Notation opt_args := (Fold.opt_args fo re_match fmt_v).
Notation finish_bin := (Fold.finish_bin fo re_match fmt_v).

Definition step_TG (e : expr) (res : expr * bool) : Prop :=
  TG e (fst res) /\ (snd res = true -> is_value (fst res) = true).

(* tryOptimizeFunctionCall after its argument loop: the literal is re-wrapped by ReturnType() *)
Lemma call_fold_TG : forall p n args, step_TG (ECall p n args) (call_fold p n args).
Proof.
  intros p n args. unfold step_TG, Fold.call_fold.
  assert (Keep : TG (ECall p n args) (fst (ECall p n args, false)) /\
                 (snd (ECall p n args, false) = true -> is_value (fst (ECall p n args, false)) = true))
    by (split; [apply TG_refl | discriminate]).
  destruct (negb (forallb is_value args && is_scalar_func n)); [exact Keep|].
  destruct (rtype (ECall p n args)) eqn:Rt; try exact Keep;
    destruct (Fold.const_eval fo re_match (ECall p n args)) as [ret| | |]; try exact Keep;
    destruct ret; try exact Keep.
  - (* TBool *) split; [apply TG_call_lit; [reflexivity | rewrite Rt; reflexivity | discriminate] | reflexivity].
  - (* TStr *) split; [apply TG_call_lit; [reflexivity | rewrite Rt; reflexivity | discriminate] | reflexivity].
  - (* TNumber, int *)
    destruct (returns_go_int n); [exact Keep|]. destruct (in64 z); [|exact Keep].
    split; [apply TG_call_lit; [reflexivity | rewrite Rt; reflexivity | discriminate] | reflexivity].
  - (* TNumber, float *)
    split; [apply TG_call_lit; [reflexivity | rewrite Rt; reflexivity | discriminate] | reflexivity].
Qed.

(* ---------------------------------------------------------------- tryOptimizeBinaryOpExecute *)
Lemma TG_bin_lit : forall p o l r l' r' lit,
  TG l l' -> TG r r' -> is_value lit = true -> rtype lit = rtype (EBin p o l' r') ->
  TG (EBin p o l r) lit.
Proof.
  intros p o l r l' r' lit Tl Tr Hv Hr. split; [exact I|]. intros Hn Hd.
  destruct (N_bin p o l r l' r' Hn Hd Tl Tr) as (R & _). apply N_lit; [exact Hv | congruence].
Qed.

Lemma exec_node_TG : forall p o l r l' lv r' rv,
  step_TG l (l', lv) -> step_TG r (r', rv) ->
  step_TG (EBin p o l r) (exec_node p o l' lv r' rv).
Proof.
  intros p o l r l' lv r' rv [Tl Vl] [Tr Vr]. cbn [fst snd] in *.
  assert (Keep : step_TG (EBin p o l r) (EBin p o l' r', false))
    by (split; [apply TG_bin; assumption | discriminate]).
  unfold FoldProofs.exec_node.
  destruct (negb (lv && rv)); [exact Keep|].
  destruct (is_arith o) eqn:Ha; [|destruct (is_boolop o) eqn:Hb].
  - assert (Hk := fun ret => eval_arith_kind fo re_match "" "" p o l' r' ret Ha).
    unfold Fold.const_eval.
    destruct (eval fo re_match "" "" (EBin p o l' r')) as [ret| | |] eqn:Ce;
      try (destruct o; try discriminate Ha; exact Keep).
    specialize (Hk ret eq_refl).
    destruct Hk as [(s & -> & Rt) | [[(z & -> & Hz) | (f & ->)] Rt]];
      (destruct o; try discriminate Ha);
      (split; [eapply TG_bin_lit; [exact Tl | exact Tr | reflexivity | rewrite Rt; reflexivity] | reflexivity]).
  - assert (Hk := fun ret => bin_bool_is_bool fo re_match "" "" p o l' r' ret Hb).
    unfold Fold.const_eval.
    destruct (eval fo re_match "" "" (EBin p o l' r')) as [ret| | |] eqn:Ce;
      try (destruct o; try discriminate Hb; exact Keep).
    destruct (Hk ret eq_refl) as (b & ->).
    pose proof (rtype_boolop p o l' r' Hb) as Rt.
    destruct o; try discriminate Hb;
      (split; [eapply TG_bin_lit; [exact Tl | exact Tr | reflexivity | rewrite Rt; reflexivity] | reflexivity]).
  - destruct o; try discriminate Ha; try discriminate Hb; exact Keep.
Qed.

Lemma exec_child_TG : forall c,
  (is_bin c = true -> step_TG c (try_exec c)) -> step_TG c (exec_child c).
Proof.
  intros c IH. destruct c; cbn [FoldProofs.exec_child];
    try (split; [apply TG_refl | cbn [snd fst]; (reflexivity || discriminate)]).
  - apply IH. reflexivity.
  - apply call_fold_TG.
Qed.

Lemma try_exec_TG : forall e, is_bin e = true -> step_TG e (try_exec e).
Proof.
  induction e; intros Hb; try discriminate Hb.
  rewrite try_exec_eq.
  apply exec_node_TG.
  - rewrite <- surjective_pairing. apply exec_child_TG. exact IHe1.
  - rewrite <- surjective_pairing. apply exec_child_TG. exact IHe2.
Qed.

(* ---------------------------------------------------------------- tryOptimizeAndOr *)
Lemma andor_operands : forall p o l r, (o = OAnd \/ o = OOr) ->
  nk (EBin p o l r) = true -> defs_ok nk (EBin p o l r) = true ->
  rtype (EBin p o l r) = TBool /\ N (EBin p o l r) l /\ N (EBin p o l r) r.
Proof.
  intros p o l r Ho Hn Hd. apply nk_bin_parts in Hn. destruct Hn as (Kl & Hop & Hwr & Hpr & Hnr & Hkr & Hcr).
  apply defs_bin in Hd. destruct Hd as [Dl Dr].
  assert (Ht : rtype l = TBool /\ rtype r = TBool).
  { destruct Ho as [-> | ->]; cbn [TypeSafetyWeakProofs.op_check_t CheckerProofs.op_check] in Hop;
      apply check_andor_spec in Hop; exact Hop. }
  destruct Ht as [Tl Tr].
  assert (Rt : rtype (EBin p o l r) = TBool) by (destruct Ho as [-> | ->]; reflexivity).
  split; [exact Rt|]. split.
  - split; [congruence|]. split; [exact Kl|]. split; [exact Dl|].
    intros q f E. subst l. discriminate Tl.
  - split; [congruence|]. split; [|split; [exact Dr | intros q f E; subst r; discriminate Tr]].
    apply nk_intro; try assumption. destruct r; try exact Hcr. discriminate Tr.
Qed.

Lemma and_or_TG : forall e, is_bin e = true -> TG e (fst (and_or e)).
Proof.
  intros e Hb. destruct e as [p o l r| | | | | | | | | | |]; try discriminate Hb. split; [exact I|].
  intros Hn Hd. unfold and_or.
  destruct (negb (op_eqb o OAnd || op_eqb o OOr)) eqn:C; [apply N_refl; assumption|].
  assert (Ho : o = OAnd \/ o = OOr) by (destruct o; try discriminate C; auto).
  destruct (andor_operands p o l r Ho Hn Hd) as (Rt & Nl & Nr).
  assert (Lit : forall q b, N (EBin p o l r) (EBool q b))
    by (intros q b; apply N_lit; [reflexivity | rewrite Rt; reflexivity]).
  destruct l; destruct r; cbn [fst];
    repeat match goal with |- context [if ?c then _ else _] => destruct c end; cbn [fst];
    first [ apply Lit | exact Nl | exact Nr | apply N_refl; assumption ].
Qed.

(* ---------------------------------------------------------------- tryReorderBinaryOp *)
Lemma rvalue_parts : forall c, is_rvalue c = true ->
  wtt c = true /\ core2 c = true /\ params_static c = true /\ counts_ok c = true /\ kinds c = true /\
  defs_ok nk c = true /\ (rtype c = TStr \/ rtype c = TNumber).
Proof.
  intros c H. destruct c; try discriminate H; unfold kinds; destruct vk; cbn; auto 10.
Qed.

Lemma reassoc_TG : forall p lp o x c1 c2, (o = OAdd \/ o = OMul) -> is_rvalue c2 = true ->
  TG (EBin p o (EBin lp o x c1) c2) (EBin p o x (EBin p o c1 c2)).
Proof.
  intros p lp o x c1 c2 Ho Hv. split; [exact I|]. intros Hn Hd.
  apply nk_bin_parts in Hn. destruct Hn as (Ki & Hop & _).
  apply nk_bin_parts in Ki. destruct Ki as (Kx & Hopi & Hw1 & Hp1 & Hn1 & Hk1 & Hc1).
  apply defs_bin in Hd. destruct Hd as [Di D2]. apply defs_bin in Di. destruct Di as [Dx D1].
  destruct (rvalue_parts c2 Hv) as (Hw2 & Hcc2 & Hp2 & Hn2 & Hk2 & _ & _).
  apply nk_split in Kx. destruct Kx as (Hwx & Hcx & Hpx & Hnx & Hkx).
  assert (Hm : forall a b, op_check_t p o a b = Ok tt <->
               ((o = OAdd /\ rtype a = TStr /\ rtype b = TStr) \/ (rtype a = TNumber /\ rtype b = TNumber))).
  { intros a b. destruct Ho as [-> | ->]; cbn [TypeSafetyWeakProofs.op_check_t CheckerProofs.op_check];
      (rewrite check_math_spec; [|reflexivity]); split; try tauto; intros H; (split; [exact H | intros E; discriminate E]). }
  assert (Hm' : op_check_t lp o x c1 = Ok tt <-> op_check_t p o x c1 = Ok tt)
    by (destruct Ho as [-> | ->]; reflexivity).
  apply Hm', Hm in Hopi. apply Hm in Hop.
  assert (Hcc1 : core2 c1 = true).
  { destruct c1; try exact Hc1. destruct Hopi as [(_ & _ & E) | (_ & E)]; discriminate E. }
  assert (Rt : rtype (EBin p o x (EBin p o c1 c2)) = rtype (EBin p o (EBin lp o x c1) c2)).
  { destruct Ho as [-> | ->]; cbn [rtype]; [destruct (rtype x); reflexivity | reflexivity]. }
  assert (Ops : op_check_t p o c1 c2 = Ok tt /\ op_check_t p o x (EBin p o c1 c2) = Ok tt).
  { split; apply Hm.
    - destruct Hopi as [(E & Ex & E1) | (Ex & E1)]; destruct Hop as [(_ & Ei & E2) | (Ei & E2)].
      + left. auto.
      + subst o. cbn [rtype] in Ei. rewrite Ex in Ei. discriminate Ei.
      + destruct Ho as [-> | ->]; [|discriminate (proj1 (conj Ei I))]. cbn [rtype] in Ei. rewrite Ex in Ei. discriminate Ei.
      + right. auto.
    - destruct Hopi as [(E & Ex & E1) | (Ex & E1)]; destruct Hop as [(_ & Ei & E2) | (Ei & E2)].
      + left. subst o. cbn [rtype]. rewrite E1. auto.
      + subst o. cbn [rtype] in Ei. rewrite Ex in Ei. discriminate Ei.
      + destruct Ho as [-> | ->]; [|discriminate (proj1 (conj Ei I))]. cbn [rtype] in Ei. rewrite Ex in Ei. discriminate Ei.
      + right. split; [exact Ex|]. destruct Ho as [-> | ->]; cbn [rtype]; [rewrite E1|]; reflexivity. }
  destruct Ops as [Op1 Op2].
  split; [exact Rt|]. split; [|split; [cbn [defs_ok]; rewrite Dx, D1, D2; reflexivity | intros q f E; discriminate E]].
  apply nk_intro.
  - cbn [TypeSafetyWeakProofs.wtt]. rewrite Hwx, Hw1, Hw2, Op1, Op2. reflexivity.
  - destruct Ho as [-> | ->]; cbn [core2]; rewrite Hcx, Hcc1, Hcc2; reflexivity.
  - cbn [params_static]. rewrite Hpx, Hp1, Hp2. reflexivity.
  - cbn [counts_ok]. rewrite Hnx, Hn1, Hn2. reflexivity.
  - unfold kinds in *. destruct vk; [|reflexivity].
    destruct Ho as [-> | ->]; cbn [in_kinds]; rewrite Hkx, Hk1, Hk2; reflexivity.
Qed.

Lemma reorder_TG : forall e, TG e (reorder e).
Proof.
  induction e; try apply TG_refl.
  rewrite reorder_eq.
  pose proof (TG_bin pos o e1 e2 _ _ IHe1 IHe2) as T0.
  destruct (site_of o (reorder e1) (reorder e2)) as [[[x c1] c2]|] eqn:Hs; [|exact T0].
  apply site_of_inv in Hs. destruct Hs as (Ho & (lp & Hl) & Hr & Hv).
  rewrite Hl, Hr in T0. eapply TG_trans; [exact T0|]. apply reassoc_TG; assumption.
Qed.

(* ---------------------------------------------------------------- optimize / Optimize *)
Lemma finish_bin_TG : forall e, is_bin e = true -> TG e (finish_bin e).
Proof.
  intros e Hb. unfold Fold.finish_bin.
  assert (Hb1 : is_bin (reorder e) = true).
  { destruct e; try discriminate Hb. rewrite reorder_eq.
    destruct (site_of _ _ _) as [[[? ?] ?]|]; reflexivity. }
  eapply TG_trans; [apply reorder_TG|].
  destruct (try_exec_TG (reorder e) Hb1) as [T2 _].
  eapply TG_trans; [exact T2|].
  set (e2 := fst (try_exec (reorder e))).
  destruct (is_bin e2) eqn:Hb2; [apply and_or_TG; exact Hb2|].
  replace (fst (and_or e2)) with e2 by (destruct e2; try discriminate Hb2; reflexivity). apply TG_refl.
Qed.

Lemma optimize_TG : forall e, TG e (optimize e) /\ TG e (opt_args e).
Proof.
  induction e as [p o e1 e2 IHe1 IHe2| | | |p n args H| | | | | | |] using fold_expr_ind;
    try (split; apply TG_refl).
  - destruct IHe1 as [_ A1]. destruct IHe2 as [_ A2].
    pose proof (TG_bin p o e1 e2 _ _ A1 A2) as T0. split.
    + rewrite optimize_bin_eq. eapply TG_trans; [exact T0|]. apply finish_bin_TG. reflexivity.
    + rewrite opt_args_bin_eq. exact T0.
  - assert (HF : Forall2 TG args (map optimize args)).
    { clear -H. induction H as [|a args [Ha _] _ IH]; cbn [map]; constructor; assumption. }
    pose proof (TG_call p n args _ HF) as T0. split.
    + rewrite optimize_call_eq. eapply TG_trans; [exact T0|]. apply call_fold_TG.
    + rewrite opt_args_call_eq. exact T0.
Qed.

Theorem fold_TG : forall e, TG e (Fold.fold fo re_match fmt_v e).
Proof.
  intros e. unfold Fold.fold. exact (TG_trans _ _ _ (proj1 (optimize_TG e)) (proj1 (optimize_TG (optimize e)))).
Qed.

End FoldTyped.

(* ================================================================================================
   the in-place states of the field objects (Model/FoldStmt.v): a reference evaluates the object
   of the field it names in the state the folder left it; [exec_tree] = relink (fold e) is the
   tree the plan executes
   ================================================================================================ *)
Section InPlace.
Variable fo : fops.
Variable re_match : bytes -> bytes -> res bool.
Variable fmt_v : F fo -> string.
Variable vk : bool.

Notation TG := (TG fo vk).
Notation N := (N fo vk).
Notation nk := (nk fo vk).
Notation kinds := (kinds vk).
Notation wtt := (wtt fo).
Notation op_check_t := (op_check_t fo).
Notation optimize := (Fold.optimize fo re_match fmt_v).
Notation opt_args := (Fold.opt_args fo re_match fmt_v).
Notation try_exec := (Fold.try_exec fo re_match fmt_v).
Notation call_fold := (Fold.call_fold fo re_match fmt_v).
Notation exec_operand := (FoldStmt.exec_operand fo re_match fmt_v).
Notation after_pass := (FoldStmt.after_pass fo re_match fmt_v).
Notation in_place := (FoldStmt.in_place fo re_match fmt_v).
Notation relink := (FoldStmt.relink fo re_match fmt_v).
Notation exec_tree := (FoldStmt.exec_tree fo re_match fmt_v).

Lemma exec_operand_TG : forall c, TG c (exec_operand c).
Proof.
  intros c. destruct c; cbn [FoldStmt.exec_operand]; try apply TG_refl.
  - exact (proj1 (try_exec_TG fo re_match fmt_v vk (EBin pos o c1 c2) eq_refl)).
  - exact (proj1 (call_fold_TG fo re_match fmt_v vk pos c args)).
Qed.

Lemma args_optimize_TG : forall args, Forall2 TG args (map optimize args).
Proof.
  induction args as [|a args IH]; cbn [map]; constructor; [|exact IH].
  exact (proj1 (optimize_TG fo re_match fmt_v vk a)).
Qed.

Lemma after_pass_TG : forall e, TG e (after_pass e).
Proof.
  intros e. destruct e; cbn [FoldStmt.after_pass]; try apply TG_refl.
  - eapply TG_trans.
    + apply TG_bin; [exact (proj2 (optimize_TG fo re_match fmt_v vk e1)) | exact (proj2 (optimize_TG fo re_match fmt_v vk e2))].
    + eapply TG_trans; [apply reorder_TG|].
      destruct (reorder (EBin pos o (opt_args e1) (opt_args e2))); try apply TG_refl.
      apply TG_bin; apply exec_operand_TG.
  - apply TG_call. apply args_optimize_TG.
Qed.

Lemma in_place_TG : forall e, TG e (in_place e).
Proof.
  intros e. unfold FoldStmt.in_place.
  pose proof (after_pass_TG e) as T1.
  destruct (FoldStmt.was_folded fo re_match fmt_v e); [exact T1|].
  destruct (after_pass e) as [p o l' r'| | | |p n args| | | | | | |]; try exact T1.
  - assert (T2 : TG e (after_pass (EBin p o l' r'))) by (eapply TG_trans; [exact T1 | apply after_pass_TG]).
    destruct (negb (op_eqb o OAnd || op_eqb o OOr)); [exact T2|].
    destruct (FoldStmt.bool_lit l'), (FoldStmt.bool_lit r'); try exact T1; try exact T2.
    + destruct (Bool.eqb (op_eqb o OAnd) b); [|exact T1].
      eapply TG_trans; [exact T1|]. apply TG_bin; [apply TG_refl | apply after_pass_TG].
    + destruct (Bool.eqb (op_eqb o OAnd) b); [|exact T1].
      eapply TG_trans; [exact T1|]. apply TG_bin; [apply after_pass_TG | apply TG_refl].
  - eapply TG_trans; [exact T1 | apply after_pass_TG].
Qed.

(* in_place never replaces the root object *)
Lemma lkind_after_pass : forall e, lkind (after_pass e) = lkind e.
Proof.
  intros e. destruct e; try reflexivity. cbn [FoldStmt.after_pass].
  rewrite reorder_eq. destruct (site_of _ _ _) as [[[? ?] ?]|]; reflexivity.
Qed.

Lemma lkind_in_place : forall e, lkind (in_place e) = lkind e.
Proof.
  intros e. unfold FoldStmt.in_place.
  destruct (FoldStmt.was_folded fo re_match fmt_v e); [apply lkind_after_pass|].
  pose proof (lkind_after_pass e) as H1.
  destruct (after_pass e) as [p o l' r'| | | |p n args| | | | | | |] eqn:E; try exact H1.
  - rewrite <- H1.
    destruct (negb (op_eqb o OAnd || op_eqb o OOr)); [rewrite lkind_after_pass; reflexivity|].
    destruct (FoldStmt.bool_lit l'), (FoldStmt.bool_lit r'); try reflexivity;
      try (rewrite lkind_after_pass; reflexivity);
      destruct (Bool.eqb (op_eqb o OAnd) b); reflexivity.
Qed.

(* ---------------------------------------------------------------- relink: the references of a
   tree re-pointed to the final state of the definitions *)
Definition SH2 (e e' : expr) : Prop :=
  match e with
  | EList p items => exists items', e' = EList p items' /\ map rtype items' = map rtype items
  | ERef _ _ _ => is_ref e' = true /\ lkind e' = lkind e
  | ECall _ n _ => exists p' args', e' = ECall p' n args'
  | _ => True
  end.

Lemma fm_none_map : forall t l l', map rtype l' = map rtype l ->
  first_mistyped t l = None -> first_mistyped t l' = None.
Proof.
  intros t l. induction l as [|x l IH]; intros [|x' l'] Hm H; try discriminate Hm; [reflexivity|].
  cbn [map] in Hm. injection Hm as Hx Hl. cbn [first_mistyped] in *. rewrite Hx.
  destruct (ty_eqb (rtype x) t); [exact (IH _ Hl H) | discriminate H].
Qed.

Lemma op_pres2 : forall p o l r l' r',
  rtype l' = rtype l -> rtype r' = rtype r -> SH2 r r' ->
  (forall p f, l' = EField p f -> l = l') -> (forall p f, r' = EField p f -> r = r') ->
  op_check_t p o l r = Ok tt -> op_check_t p o l' r' = Ok tt.
Proof.
  intros p o l r l' r' Rl Rr Sr Fl Fr H.
  destruct o; cbn [TypeSafetyWeakProofs.op_check_t CheckerProofs.op_check] in *; try exact H.
  1-2,17-18: apply check_andor_spec in H; apply check_andor_spec; rewrite Rl, Rr; exact H.
  1-4,9-12: (apply check_compares_spec in H; [|reflexivity]); (apply check_compares_spec; [reflexivity|]);
       destruct H as [Hs [Ht Hc]]; rewrite Rl, Rr; split; [exact (same_field_pres _ _ _ _ Fl Fr Hs) | auto].
  1-4: (apply check_math_spec in H; [|reflexivity]); (apply check_math_spec; [reflexivity|]);
       rewrite Rl, Rr; split; [exact (proj1 H) | intros Hd; discriminate Hd].
  - apply check_in_spec in H. apply check_in_spec. rewrite Rl. destruct H as [Hs Hr]. split; [exact Hs|].
    destruct r; try contradiction; cbn [SH2] in Sr.
    + destruct Sr as (p' & args' & ->). congruence.
    + destruct Sr as [Hc _]. destruct r'; try discriminate Hc. congruence.
    + destruct Sr as (items' & -> & Hm). exact (fm_none_map _ _ _ Hm Hr).
  - unfold check_between in *. destruct r; try discriminate H. cbn [SH2] in Sr.
    destruct Sr as (items' & -> & Hm). rewrite Rl.
    destruct l0 as [|lo [|hi [|]]]; try discriminate H.
    destruct items' as [|lo' [|hi' [|]]]; try discriminate Hm. cbn [map] in Hm. injection Hm as H1 H2.
    rewrite H1, H2.
    destruct (negb (is_strnum_ty (rtype l))); [discriminate H|].
    destruct (ty_eqb (rtype lo) (rtype l) && ty_eqb (rtype hi) (rtype l)); [reflexivity | discriminate H].
Qed.

(* what relink keeps, component by component (a list literal is not a tree of the covered
   language by itself, so the components are kept separately) *)
Definition RL (e : expr) : Prop :=
  defs_ok nk e = true ->
  rtype (relink e) = rtype e /\ lkind (relink e) = lkind e /\ SH2 e (relink e) /\
  (forall p f, relink e = EField p f -> e = relink e) /\
  (wtt e = true -> wtt (relink e) = true) /\ (core2 e = true -> core2 (relink e) = true) /\
  (params_static e = true -> params_static (relink e) = true) /\
  (counts_ok e = true -> counts_ok (relink e) = true) /\
  (in_kinds e = true -> in_kinds (relink e) = true) /\
  defs_ok nk (relink e) = true.

Lemma RL_list : forall items, Forall RL items -> forallb (defs_ok nk) items = true ->
  map rtype (map relink items) = map rtype items /\
  (forallb wtt items = true -> forallb wtt (map relink items) = true) /\
  (forallb core2 items = true -> forallb core2 (map relink items) = true) /\
  (forallb params_static items = true -> forallb params_static (map relink items) = true) /\
  (forallb counts_ok items = true -> forallb counts_ok (map relink items) = true) /\
  (forallb in_kinds items = true -> forallb in_kinds (map relink items) = true) /\
  forallb (defs_ok nk) (map relink items) = true.
Proof.
  induction 1 as [|x l Hx _ IH]; intros Hd; cbn [map forallb] in *.
  - repeat split; auto.
  - apply andb_true_iff in Hd. destruct Hd as [Hd1 Hd2].
    destruct (Hx Hd1) as (R & _ & _ & _ & W & C & P & Cn & K & D).
    destruct (IH Hd2) as (R2 & W2 & C2 & P2 & Cn2 & K2 & D2).
    split; [rewrite R, R2; reflexivity|].
    repeat split; try (intros H; apply andb_true_iff in H; destruct H as [Ha Hb]; apply andb_true_iff; split; auto).
    rewrite D, D2. reflexivity.
Qed.

Lemma kinds_in : forall e, (in_kinds e = true -> in_kinds (relink e) = true) -> kinds e = true -> kinds (relink e) = true.
Proof. intros e H. unfold TypeSafetyFoldProofs.kinds. destruct vk; auto. Qed.

Lemma relink_RL : forall e, RL e.
Proof.
  intros e0.
  enough (Hq : RL e0 /\ match e0 with EList _ items => Forall RL items | _ => True end) by apply Hq.
  induction e0 using expr_ind2; (split; [|try exact I]).
  - (* EBin *)
    destruct IHe0_1 as [IHl _]. destruct IHe0_2 as [IHr IHrx].
    intros Hd. apply defs_bin in Hd. destruct Hd as [Dl Dr].
    destruct (IHl Dl) as (Rl & Ll & Sl & Fl & Wl & Cl & Pl & Cnl & Kl & Dl').
    destruct (IHr Dr) as (Rr & Lr & Sr & Fr & Wr & Cr & Pr & Cnr & Kr & Dr').
    cbn [FoldStmt.relink].
    split; [cbn [rtype]; rewrite Rl; reflexivity|]. split; [reflexivity|]. split; [exact I|].
    split; [intros q f E; discriminate E|].
    split; [|split; [|split; [|split; [|split]]]].
    + cbn [TypeSafetyWeakProofs.wtt]. intros H. apply andb_true_iff in H. destruct H as [H Hop].
      apply andb_true_iff in H. destruct H as [H1 H2].
      destruct (op_check_t p o e0_1 e0_2) as [u| | |] eqn:Eop; try discriminate Hop. destruct u.
      rewrite (Wl H1), (Wr H2), (op_pres2 p o _ _ _ _ Rl Rr Sr Fl Fr Eop). reflexivity.
    + cbn [core2]. intros H. apply andb_true_iff in H. destruct H as [Ho Hcl]. rewrite (Cl Hcl), andb_true_r.
      destruct o; try discriminate Ho; try (apply Cr; exact Ho).
      * (* in *) destruct e0_2; try discriminate Ho; cbn [SH2] in Sr.
        -- destruct Sr as (p' & args' & E). rewrite E in *. exact (Cr Ho).
        -- destruct Sr as [Hc _]. destruct (relink (ERef pos name e0_2)); try discriminate Hc. reflexivity.
        -- cbn [FoldStmt.relink]. cbn [defs_ok] in Dr. exact (proj1 (proj2 (proj2 (RL_list _ IHrx Dr))) Ho).
      * (* between *) destruct e0_2; try discriminate Ho.
        cbn [FoldStmt.relink]. cbn [defs_ok] in Dr. exact (proj1 (proj2 (proj2 (RL_list _ IHrx Dr))) Ho).
    + cbn [params_static]. intros H. apply andb_true_iff in H. destruct H as [H1 H2]. rewrite (Pl H1), (Pr H2). reflexivity.
    + cbn [counts_ok]. intros H. apply andb_true_iff in H. destruct H as [H1 H2]. rewrite (Cnl H1), (Cnr H2). reflexivity.
    + cbn [in_kinds]. intros H. apply andb_true_iff in H. destruct H as [H H2]. apply andb_true_iff in H. destruct H as [Ho H1].
      rewrite (Kl H1), (Kr H2), !andb_true_r.
      destruct o; try reflexivity.
      destruct e0_2; try reflexivity; cbn [SH2] in Sr.
      * destruct Sr as (p' & args' & E). rewrite E in *. cbn [lkind] in *. rewrite Rl. exact Ho.
      * destruct Sr as [Hc _]. destruct (relink (ERef pos name e0_2)) eqn:E; try discriminate Hc.
        rewrite Lr, Rl. exact Ho.
    + cbn [defs_ok]. rewrite Dl', Dr'. reflexivity.
  - (* EField *) intros _. cbn [FoldStmt.relink]. repeat split; auto.
  - intros _. cbn [FoldStmt.relink]. repeat split; auto.
  - (* ENot *)
    destruct IHe0 as [IHr _]. intros Hd. cbn [defs_ok] in Hd.
    destruct (IHr Hd) as (Rr & Lr & Sr & Fr & Wr & Cr & Pr & Cnr & Kr & Dr').
    cbn [FoldStmt.relink]. repeat split; auto; try (intros q f E; discriminate E).
    cbn [TypeSafetyWeakProofs.wtt]. intros H. apply andb_true_iff in H. destruct H as [H1 H2].
    rewrite (Wr H1), Rr, H2. reflexivity.
  - (* ECall *)
    clear IHe0. intros Hd. cbn [defs_ok] in Hd.
    assert (HS : Forall RL args) by (eapply Forall_impl; [|exact H]; intros x [Hx _]; exact Hx).
    destruct (RL_list _ HS Hd) as (R & W & C & P & Cn & K & D).
    cbn [FoldStmt.relink]. split; [reflexivity|]. split; [reflexivity|]. split; [cbn [SH2]; eauto|].
    split; [intros q f E; discriminate E|].
    split; [exact W|]. split; [|split; [|split; [|split; [exact K | exact D]]]].
    + cbn [core2]. intros Hc. apply andb_true_iff in Hc. destruct Hc as [H1 H2]. rewrite H1, (C H2). reflexivity.
    + cbn [params_static]. intros Hp. apply andb_true_iff in Hp. destruct Hp as [H1 H2]. rewrite (P H2), andb_true_r.
      rewrite <- (map_map rtype sty_of), R, (map_map rtype sty_of). exact H1.
    + cbn [counts_ok]. intros Hn. apply andb_true_iff in Hn. destruct Hn as [H1 H2].
      rewrite (Cn H2), andb_true_r, map_length. exact H1.
  - intros _. cbn [FoldStmt.relink]. repeat split; auto.
  - (* ERef *)
    destruct IHe0 as [IHd _]. intros Hd. cbn [defs_ok] in Hd. apply andb_true_iff in Hd. destruct Hd as [Kd Dd].
    destruct (IHd Dd) as (Rd & Ld & Sd & Fd & Wd & Cd & Pd & Cnd & Kkd & Dd').
    pose proof Kd as Kd0. apply nk_split in Kd0. destruct Kd0 as (A1 & A2 & A3 & A4 & A5).
    assert (Kr : nk (relink e0) = true).
    { apply nk_intro; auto. unfold TypeSafetyFoldProofs.kinds in *. destruct vk; auto. }
    destruct (in_place_TG (relink e0)) as [_ HN]. destruct (HN Kr Dd') as (Ri & Ki & Di & _).
    cbn [FoldStmt.relink]. split; [cbn [rtype]; congruence|].
    split; [cbn [lkind]; rewrite lkind_in_place; exact Ld|].
    split; [cbn [SH2 lkind]; split; [reflexivity | rewrite lkind_in_place; exact Ld]|].
    split; [intros q f E; discriminate E|].
    repeat (split; [reflexivity|]). cbn [defs_ok]. rewrite Ki, Di. reflexivity.
  - intros _. cbn [FoldStmt.relink]. repeat split; auto.
  - intros _. cbn [FoldStmt.relink]. repeat split; auto.
  - intros _. cbn [FoldStmt.relink]. repeat split; auto.
  - (* EList *)
    assert (HS : Forall RL l) by (eapply Forall_impl; [|exact H]; intros x [Hx _]; exact Hx).
    intros Hd. cbn [defs_ok] in Hd.
    destruct (RL_list _ HS Hd) as (R & W & C & P & Cn & K & D).
    cbn [FoldStmt.relink]. split; [reflexivity|]. split; [reflexivity|].
    split; [cbn [SH2]; eauto|]. split; [intros q f E; discriminate E|].
    split; [|split; [intros Hc; discriminate Hc | split; [exact P | split; [exact Cn | split; [exact K | exact D]]]]].
    cbn [TypeSafetyWeakProofs.wtt]. intros Hw. apply andb_true_iff in Hw. destruct Hw as [H1 H2]. rewrite (W H1). cbn [andb].
    destruct l as [|x rest]; [discriminate H2|]. cbn [map] in *. injection R as Rx Rrest. rewrite Rx.
    destruct (first_mistyped (rtype x) rest) eqn:E; [discriminate H2|].
    rewrite (fm_none_map _ _ _ Rrest E). reflexivity.
  - eapply Forall_impl; [|exact H]. intros x [Hx _]. exact Hx.
  - (* EAccess *)
    destruct IHe0_1 as [IHl _]. intros Hd. cbn [defs_ok] in Hd.
    destruct (IHl Hd) as (Rl & Ll & Sl & Fl & Wl & Cl & Pl & Cnl & Kl & Dl').
    cbn [FoldStmt.relink]. repeat split; auto; try (intros q f E; discriminate E).
Qed.

(* relink keeps the node conditions and the static type *)
Lemma relink_N : forall e, nk e = true -> defs_ok nk e = true ->
  rtype (relink e) = rtype e /\ nk (relink e) = true /\ defs_ok nk (relink e) = true.
Proof.
  intros e Hn Hd. destruct (relink_RL e Hd) as (R & _ & _ & _ & W & C & P & Cn & K & D).
  apply nk_split in Hn. destruct Hn as (A1 & A2 & A3 & A4 & A5).
  split; [exact R|]. split; [|exact D].
  apply nk_intro; auto. unfold TypeSafetyFoldProofs.kinds in *. destruct vk; auto.
Qed.

(* the tree the plan executes *)
Theorem exec_tree_N : forall e, nk e = true -> defs_ok nk e = true ->
  rtype (exec_tree e) = rtype e /\ nk (exec_tree e) = true /\ defs_ok nk (exec_tree e) = true.
Proof.
  intros e Hn Hd. unfold FoldStmt.exec_tree.
  destruct (fold_TG fo re_match fmt_v vk e) as [_ HN]. destruct (HN Hn Hd) as (R & K & D & _).
  destruct (relink_N _ K D) as (R2 & K2 & D2). split; [congruence|]. split; assumption.
Qed.

(* ... and the object a GROUP BY item / a reference points to *)
Theorem in_place_relink_N : forall e, nk e = true -> defs_ok nk e = true ->
  rtype (in_place (relink e)) = rtype e /\ nk (in_place (relink e)) = true /\
  defs_ok nk (in_place (relink e)) = true.
Proof.
  intros e Hn Hd. destruct (relink_N _ Hn Hd) as (R & K & D).
  destruct (in_place_TG (relink e)) as [_ HN]. destruct (HN K D) as (R2 & K2 & D2 & _).
  split; [congruence|]. split; assumption.
Qed.

End InPlace.

(* ================================================================================================
   the folded tree is safe to evaluate
   ================================================================================================ *)
Section FoldSafe.
Variable fo : fops.
Variable re : bytes -> bytes -> res bool.
Hypothesis re_ok : forall p t, match re p t with Err x => x = EOther | Panic => False | _ => True end.
Variable fmt_v : F fo -> string.

Notation fold := (Fold.fold fo re fmt_v).

Lemma nk_row : forall e, nk fo false e = node_okt fo e.
Proof. intros e. unfold nk. apply andb_true_r. Qed.
Lemma nk_vec : forall e, nk fo true e = node_oktv fo e.
Proof. reflexivity. Qed.

Lemma defs_nk_row : forall e, defs_ok (nk fo false) e = true <-> defs_ok (node_okt fo) e = true.
Proof.
  intros e. split; apply defs_ok_mono; intros x; rewrite nk_row; auto.
Qed.

(* what a transformation that keeps the node conditions gives the two evaluators *)
Lemma TG_row_safe : forall e e', TG fo false e e' ->
  node_okt fo e = true -> defs_ok (node_okt fo) e = true ->
  rtype e' = rtype e /\ node_okt fo e' = true /\ defs_ok (node_okt fo) e' = true /\
  forall k v, dyn_ok2 fo re k v e'.
Proof.
  intros e e' [_ HN] Hn Hd. rewrite <- nk_row in Hn. apply defs_nk_row in Hd.
  destruct (HN Hn Hd) as (R & K & D & _). rewrite nk_row in K. apply defs_nk_row in D.
  repeat (split; [assumption|]). intros k v. exact (eval_safe2_weak fo re re_ok k v e' K D).
Qed.

Lemma TG_vec_safe : forall e e', TG fo true e e' ->
  node_oktv fo e = true -> defs_ok (node_oktv fo) e = true ->
  rtype e' = rtype e /\ node_oktv fo e' = true /\ defs_ok (node_oktv fo) e' = true /\
  forall ch, dyn_ok_vec fo re ch e'.
Proof.
  intros e e' [_ HN] Hn Hd. destruct (HN Hn Hd) as (R & K & D & _).
  repeat (split; [assumption|]). intros ch. exact (eval_batch_safe_weak fo re re_ok e' ch K D).
Qed.

(* Expression.Execute on the tree ExpressionOptimizer.Optimize returns: a value of the static
   type of the CHECKED tree, or a data-dependent failure of the folded tree (division by zero at
   a divisor, crossed BETWEEN bounds, a distance function, a regular expression that does not
   compile); never an operand-type error, never a panic *)
Theorem fold_safe_row : forall e,
  node_okt fo e = true -> defs_ok (node_okt fo) e = true ->
  rtype (fold e) = rtype e /\ node_okt fo (fold e) = true /\ defs_ok (node_okt fo) (fold e) = true /\
  forall k v, dyn_ok2 fo re k v (fold e).
Proof. intros e. apply TG_row_safe. apply fold_TG. Qed.

(* ... and ExecuteBatch on any chunk *)
Theorem fold_safe_vec : forall e,
  node_oktv fo e = true -> defs_ok (node_oktv fo) e = true ->
  rtype (fold e) = rtype e /\ node_oktv fo (fold e) = true /\ defs_ok (node_oktv fo) (fold e) = true /\
  forall ch, dyn_ok_vec fo re ch (fold e).
Proof. intros e. apply TG_vec_safe. apply fold_TG. Qed.

(* the tree the plan executes for a checked tree (Model/FoldStmt.v exec_tree: the folded tree
   with every reference re-pointed to the state the folder left the field objects in), and the
   object a reference / a GROUP BY item points to *)
Notation exec_tree := (FoldStmt.exec_tree fo re fmt_v).
Notation in_place := (FoldStmt.in_place fo re fmt_v).
Notation relink := (FoldStmt.relink fo re fmt_v).

Theorem exec_safe_row : forall e,
  node_okt fo e = true -> defs_ok (node_okt fo) e = true ->
  rtype (exec_tree e) = rtype e /\ node_okt fo (exec_tree e) = true /\ defs_ok (node_okt fo) (exec_tree e) = true /\
  forall k v, dyn_ok2 fo re k v (exec_tree e).
Proof.
  intros e Hn Hd. rewrite <- nk_row in Hn. apply defs_nk_row in Hd.
  destruct (exec_tree_N fo re fmt_v false e Hn Hd) as (R & K & D). rewrite nk_row in K. apply defs_nk_row in D.
  repeat (split; [assumption|]). intros k v. exact (eval_safe2_weak fo re re_ok k v _ K D).
Qed.

Theorem exec_safe_vec : forall e,
  node_oktv fo e = true -> defs_ok (node_oktv fo) e = true ->
  rtype (exec_tree e) = rtype e /\ node_oktv fo (exec_tree e) = true /\ defs_ok (node_oktv fo) (exec_tree e) = true /\
  forall ch, dyn_ok_vec fo re ch (exec_tree e).
Proof.
  intros e Hn Hd. destruct (exec_tree_N fo re fmt_v true e Hn Hd) as (R & K & D).
  repeat (split; [assumption|]). intros ch. exact (eval_batch_safe_weak fo re re_ok _ ch K D).
Qed.

Theorem in_place_safe_row : forall e,
  node_okt fo e = true -> defs_ok (node_okt fo) e = true ->
  rtype (in_place (relink e)) = rtype e /\ forall k v, dyn_ok2 fo re k v (in_place (relink e)).
Proof.
  intros e Hn Hd. rewrite <- nk_row in Hn. apply defs_nk_row in Hd.
  destruct (in_place_relink_N fo re fmt_v false e Hn Hd) as (R & K & D). rewrite nk_row in K. apply defs_nk_row in D.
  split; [assumption|]. intros k v. exact (eval_safe2_weak fo re re_ok k v _ K D).
Qed.

Theorem in_place_safe_vec : forall e,
  node_oktv fo e = true -> defs_ok (node_oktv fo) e = true ->
  rtype (in_place (relink e)) = rtype e /\ forall ch, dyn_ok_vec fo re ch (in_place (relink e)).
Proof.
  intros e Hn Hd. destruct (in_place_relink_N fo re fmt_v true e Hn Hd) as (R & K & D).
  split; [assumption|]. intros ch. exact (eval_batch_safe_weak fo re re_ok _ ch K D).
Qed.

(* composition with Check and the call validation: the premises of
   no_dynamic_type_error_functions_partial / _batch_partial, the conclusion for the FOLDED tree *)
Theorem checked_fold_safe2 : forall ctx e e1 a,
  check fo true ctx e = Ok e1 ->
  check_calls a (rewrite_name (c_names ctx) e1) = Ok tt ->
  core2 (rewrite_name (c_names ctx) e1) = true ->
  params_static (rewrite_name (c_names ctx) e1) = true ->
  defs_ok (node_ok fo) (rewrite_name (c_names ctx) e1) = true ->
  rtype (fold (rewrite_name (c_names ctx) e1)) = rtype (rewrite_name (c_names ctx) e1) /\
  forall k v, dyn_ok2 fo re k v (fold (rewrite_name (c_names ctx) e1)).
Proof.
  intros ctx e e1 a Hc Hcalls Hcore Hps Hdefs.
  assert (Hn : node_ok fo (rewrite_name (c_names ctx) e1) = true).
  { apply node_ok_intro; try assumption.
    - rewrite wt_rw. exact (check_wt fo _ _ _ Hc).
    - exact (check_calls_counts _ _ Hcalls). }
  destruct (fold_safe_row _ (node_ok_okt fo _ Hn) (defs_ok_mono _ _ (node_ok_okt fo) _ Hdefs)) as (R & _ & _ & S).
  split; assumption.
Qed.

Theorem checked_fold_safe_vec : forall ctx e e1 a,
  check fo true ctx e = Ok e1 ->
  check_calls a (rewrite_name (c_names ctx) e1) = Ok tt ->
  core2 (rewrite_name (c_names ctx) e1) = true ->
  params_static (rewrite_name (c_names ctx) e1) = true ->
  in_kinds (rewrite_name (c_names ctx) e1) = true ->
  defs_ok (node_okv fo) (rewrite_name (c_names ctx) e1) = true ->
  rtype (fold (rewrite_name (c_names ctx) e1)) = rtype (rewrite_name (c_names ctx) e1) /\
  forall ch, dyn_ok_vec fo re ch (fold (rewrite_name (c_names ctx) e1)).
Proof.
  intros ctx e e1 a Hc Hcalls Hcore Hps Hk Hdefs.
  assert (Hn : node_okv fo (rewrite_name (c_names ctx) e1) = true).
  { apply node_okv_intro; try assumption.
    - rewrite wt_rw. exact (check_wt fo _ _ _ Hc).
    - exact (check_calls_counts _ _ Hcalls). }
  destruct (fold_safe_vec _ (node_okv_oktv fo _ Hn) (defs_ok_mono _ _ (node_okv_oktv fo) _ Hdefs)) as (R & _ & _ & S).
  split; assumption.
Qed.

End FoldSafe.
