(* Proofs/TypeSafetyProofs.v -- type soundness of the row evaluator twin (Model/Eval.v) on the
   trees the checker twin (Model/Checker.v) accepts: a checked tree of the core language never
   evaluates to an operand-type error.  The only errors left are the two data-dependent ones:
   division by zero (reported at the divisor) and a BETWEEN whose lower bound is not below the
   upper one (reported at the BETWEEN). *)
From Coq Require Import List String ZArith Bool Arith Lia.
Import ListNotations.
From KV Require Import Base.Bytes Base.Num Model.Ast Model.Value Model.Eval Model.Checker
                       Spec.Typing Proofs.CheckerProofs.
Open Scope string_scope.
Set Warnings "-unused-intro-pattern".

(* the data-dependent failures a tree can raise *)
Fixpoint sites (e : expr) : list err :=
  match e with
  | EBin p o l r =>
      (match o with ODiv => [EExec (epos r)] | OBetween => [EExec p] | _ => [] end)
      ++ sites l ++ sites r
  | ENot _ r => sites r
  | ECall _ _ args => flat_map sites args
  | ERef _ _ d => sites d
  | EList _ items => flat_map sites items
  | EAccess _ l _ => sites l
  | _ => []
  end.

(* the conversion functions: one argument of any type, total conversions *)
Definition core_fn (nm : string) : bool :=
  String.eqb nm "upper" || String.eqb nm "lower" || String.eqb nm "str" || String.eqb nm "int" ||
  String.eqb nm "float" || String.eqb nm "strlen" || String.eqb nm "is_int" || String.eqb nm "is_float".

(* The core language, as a predicate on CHECKED trees:
   - no regular expressions (library oracle), no field access (dynamically typed), no IN over a
     list-valued function (element kinds are dynamic);
   - function calls: the conversion functions (the function bodies with fixed-type
     parameters and the list / distance functions are not covered yet).
   = / != on numbers are covered for integer and float operands alike (the former known
   finding C14/float-equality-fails-at-execution is repaired: execEqual compares numbers with
   the rule of > >= < <=). *)
Fixpoint core (e : expr) : bool :=
  match e with
  | EBin _ o l r =>
      match o with
      | ORegExpMatch | ONot => false
      | OIn => match r with EList _ _ => true | _ => false end
      | _ => true
      end && core l && core r
  | ENot _ r => core r
  | ECall _ n args =>
      match call_name n with Some nm => core_fn nm | None => false end
      && Nat.eqb (List.length args) 1 && forallb core args
  | EList _ items => forallb core items
  | EAccess _ _ _ => false
  | _ => true
  end.

Section TS.
Variable fo : fops.
Variable re : bytes -> bytes -> res bool.

Notation eval := (eval fo re).
Notation op_check := (op_check fo).

(* what the checker establishes at every node of the tree it returns *)
Fixpoint wt (e : expr) : bool :=
  match e with
  | EBin p o l r =>
      wt l && wt r && match op_check p o l r with Ok _ => true | _ => false end
  | ENot _ r => wt r && ty_eqb (rtype r) TBool
  | ECall _ _ args => forallb wt args
  | EList _ items =>
      forallb wt items &&
      match items with
      | [] => false
      | x :: rest => match first_mistyped (rtype x) rest with None => true | Some _ => false end
      end
  | EAccess _ l _ => wt l
  | _ => true
  end.

Lemma wt_rw : forall names e, wt (rewrite_name names e) = wt e.
Proof. intros names e. destruct e; try reflexivity. cbn. destruct (get_named names s); reflexivity. Qed.

Lemma check_list_wt : forall ctx l,
  Forall (fun e => forall e1, check fo true ctx e = Ok e1 -> wt e1 = true) l ->
  forall l2, check_list fo ctx l = Ok l2 -> forallb wt l2 = true.
Proof.
  induction 1 as [|x l Hx _ IH]; intros l2 H; cbn [check_list] in H.
  - inversion H; reflexivity.
  - inv_bind H as x1 Hx1 H. inv_bind H as r2 Hr2 H. inversion H; subst l2.
    cbn [forallb]. rewrite wt_rw, (Hx _ Hx1), (IH _ Hr2). reflexivity.
Qed.

Lemma check_wt : forall ctx e e1, check fo true ctx e = Ok e1 -> wt e1 = true.
Proof.
  intros ctx e0. induction e0 using expr_induction; intros ec Hc.
  - rewrite check_bin_eq in Hc. inv_bind Hc as l1 Hl1 Hc. inv_bind Hc as r1 Hr1 Hc. inv_bind Hc as u Hu Hc.
    inversion Hc; subst ec. cbn [wt]. rewrite !wt_rw, (IHe0_1 _ Hl1), (IHe0_2 _ Hr1), Hu. reflexivity.
  - cbn [Checker.check] in Hc. destruct f.
    + destruct (c_nokey ctx); inversion Hc; reflexivity.
    + destruct (c_novalue ctx); inversion Hc; reflexivity.
  - inversion Hc; reflexivity.
  - cbn [Checker.check] in Hc. inv_bind Hc as r2 Hr2 Hc. inv_bind Hr2 as r1 Hr1 Hr2. inversion Hr2; subst r2.
    destruct (ty_eqb (rtype (rewrite_name (c_names ctx) r1)) TBool) eqn:Eb; inversion Hc; subst ec.
    cbn [wt]. rewrite wt_rw, (IHe0 _ Hr1), Eb. reflexivity.
  - destruct e0; try (cbn [Checker.check] in Hc; discriminate Hc).
    rewrite check_call_eq in Hc. inv_bind Hc as a2 Ha2 Hc. inversion Hc; subst ec.
    cbn [wt]. exact (check_list_wt _ _ H _ Ha2).
  - inversion Hc; reflexivity.
  - inversion Hc; reflexivity.
  - inversion Hc; reflexivity.
  - inversion Hc; reflexivity.
  - inversion Hc; reflexivity.
  - destruct l as [|x items]; [cbn in Hc; discriminate|].
    rewrite check_list_eq in Hc. inv_bind Hc as i2 Hi2 Hc. destruct i2 as [|y rest2]; [discriminate|].
    destruct (first_mistyped (rtype y) rest2) eqn:Efm; inversion Hc; subst ec.
    cbn [wt]. rewrite (check_list_wt _ _ H _ Hi2), Efm. reflexivity.
  - cbn [Checker.check] in Hc. inv_bind Hc as l2 Hl2 Hc. inv_bind Hl2 as l1 Hl1 Hl2. inversion Hl2; subst l2.
    inv_bind Hc as f2 Hf2 Hc. inv_bind Hc as u Hu Hc. inversion Hc; subst ec. cbn [wt]. rewrite wt_rw. exact (IHe0_1 _ Hl1).
Qed.

(* ---------------------------------------------------------------- values and static types *)
Definition vty (v : value fo) (t : ty) : bool :=
  match t, v with
  | TStr, (VBytes _ | VStr _) => true
  | TNumber, (VInt _ | VFlt _) => true
  | TBool, VBool _ => true
  | TIdent, VStr _ => true
  | (TStr | TNumber | TBool | TIdent), _ => false
  | _, _ => true
  end.

(* evaluation of e on (k, v) is fine: a value of the static type, or one of the data-dependent
   failures of e; never a panic *)
Definition dyn_ok (k v : bytes) (e : expr) : Prop :=
  match eval k v e with
  | Ok val => vty val (rtype e) = true
  | Err x => In x (sites e)
  | Panic => False
  | OutOfModel => True
  end.

(* the definitions of the field references inside e are fine *)
Fixpoint refs_ok (k v : bytes) (e : expr) : Prop :=
  match e with
  | EBin _ _ l r => refs_ok k v l /\ refs_ok k v r
  | ENot _ r => refs_ok k v r
  | ECall _ _ args => (fix go (l : list expr) : Prop := match l with [] => True | a :: l' => refs_ok k v a /\ go l' end) args
  | ERef _ _ d => dyn_ok k v d
  | EList _ items => (fix go (l : list expr) : Prop := match l with [] => True | a :: l' => refs_ok k v a /\ go l' end) items
  | EAccess _ l _ => refs_ok k v l
  | _ => True
  end.

Fixpoint refs_ok_list (k v : bytes) (l : list expr) : Prop :=
  match l with [] => True | a :: l' => refs_ok k v a /\ refs_ok_list k v l' end.

Lemma refs_ok_call : forall k v p n args, refs_ok k v (ECall p n args) = refs_ok_list k v args.
Proof.
  intros. cbn [refs_ok]. induction args as [|a l IH]; [reflexivity|].
  cbn [refs_ok_list]. rewrite <- IH. reflexivity.
Qed.
Lemma refs_ok_elist : forall k v p items, refs_ok k v (EList p items) = refs_ok_list k v items.
Proof.
  intros. cbn [refs_ok]. induction items as [|a l IH]; [reflexivity|].
  cbn [refs_ok_list]. rewrite <- IH. reflexivity.
Qed.

Lemma in_sites_l : forall x p o l r, In x (sites l) -> In x (sites (EBin p o l r)).
Proof. intros. cbn [sites]. apply in_or_app. right. apply in_or_app. left. assumption. Qed.
Lemma in_sites_r : forall x p o l r, In x (sites r) -> In x (sites (EBin p o l r)).
Proof. intros. cbn [sites]. apply in_or_app. right. apply in_or_app. right. assumption. Qed.

Lemma in_sites_item : forall x p o l q items it,
  In it items -> In x (sites it) -> In x (sites (EBin p o l (EList q items))).
Proof.
  intros x p o l q items it Hin Hx. apply in_sites_r. cbn [sites]. apply in_flat_map. eauto.
Qed.

Lemma in_sites_between : forall p l r, In (EExec p) (sites (EBin p OBetween l r)).
Proof. intros. cbn [sites]. left. reflexivity. Qed.

(* ---------------------------------------------------------------- one lemma per operator class *)
Section Ops.
Variables k v : bytes.

Lemma dyn_andor : forall p o l r,
  (o = OAnd \/ o = OKWAnd \/ o = OOr \/ o = OKWOr) ->
  rtype l = TBool -> rtype r = TBool -> dyn_ok k v l -> dyn_ok k v r -> dyn_ok k v (EBin p o l r).
Proof.
  intros p o l r Ho Hl Hr Dl Dr. unfold dyn_ok in *.
  rewrite Hl in Dl. rewrite Hr in Dr.
  destruct Ho as [ -> | [ -> | [ -> | -> ] ] ]; cbn [Eval.eval rtype];
    (destruct (Eval.eval fo re k v l) as [lv|x| |]; cbn [bind];
     [ destruct lv; try discriminate Dl; destruct b; cbn [bind]; try reflexivity;
       (destruct (Eval.eval fo re k v r) as [rv|y| |]; cbn [bind];
        [ destruct rv; try discriminate Dr; reflexivity
        | apply in_sites_r; exact Dr | contradiction | exact I ])
     | apply in_sites_l; exact Dl | contradiction | exact I ]).
Qed.

Notation ev := (Eval.eval fo re k v).

Definition both (l r : expr) (f : value fo -> value fo -> res (value fo)) : res (value fo) :=
  do lv <- ev l; do rv <- ev r; f lv rv.

Lemma eval_eq : forall p l r,
  ev (EBin p OEq l r) = both l r (fun lv rv => do b <- equal_values fo lv rv p; Ok (VBool b)).
Proof. reflexivity. Qed.
Lemma eval_neq : forall p l r,
  ev (EBin p ONotEq l r) = both l r (fun lv rv => do b <- equal_values fo lv rv p; Ok (VBool (negb b))).
Proof. reflexivity. Qed.
Lemma eval_prefix : forall p l r,
  ev (EBin p OPrefixMatch l r) =
  both l r (fun lv rv => match conv_bytes fo lv, conv_bytes fo rv with
                         | Some a, Some b => Ok (VBool (has_prefix b a))
                         | _, _ => Err (EExec p)
                         end).
Proof. reflexivity. Qed.
Lemma eval_add : forall p l r,
  ev (EBin p OAdd l r) =
  match rtype l with
  | TStr => both l r (fun lv rv => Ok (VStr (to_string fo lv ++ to_string fo rv)))
  | _ => both l r (fun lv rv => math_op fo lv rv OAdd (epos r))
  end.
Proof. intros. cbn [Eval.eval]. destruct (rtype l); reflexivity. Qed.
Lemma eval_arith : forall p o l r, (o = OSub \/ o = OMul \/ o = ODiv) ->
  ev (EBin p o l r) = both l r (fun lv rv => math_op fo lv rv o (epos r)).
Proof. intros p o l r [ -> | [ -> | -> ] ]; reflexivity. Qed.

Definition cmpop_of (o : op) : cmpop :=
  match o with OGt => CGt | OGte => CGte | OLt => CLt | _ => CLte end.

Lemma eval_cmp : forall p o l r, (o = OGt \/ o = OGte \/ o = OLt \/ o = OLte) ->
  ev (EBin p o l r) =
  both l r (fun lv rv => do b <- (match rtype l with
                                  | TStr => string_compare fo lv rv (cmpop_of o)
                                  | _ => number_compare fo lv rv (cmpop_of o)
                                  end); Ok (VBool b)).
Proof. intros p o l r [ -> | [ -> | [ -> | -> ] ] ]; reflexivity. Qed.

Lemma both_ok : forall p o l r f t,
  dyn_ok k v l -> dyn_ok k v r ->
  (forall lv rv, vty lv (rtype l) = true -> vty rv (rtype r) = true ->
     match f lv rv with
     | Ok val => vty val t = true
     | Err x => In x (sites (EBin p o l r))
     | Panic => False
     | OutOfModel => True
     end) ->
  match both l r f with
  | Ok val => vty val t = true
  | Err x => In x (sites (EBin p o l r))
  | Panic => False
  | OutOfModel => True
  end.
Proof.
  intros p o l r f t Dl Dr Hf. unfold both, dyn_ok in *.
  destruct (ev l) as [lv|x| |]; cbn [bind]; [ | apply in_sites_l; exact Dl | contradiction | exact I].
  destruct (ev r) as [rv|x| |]; cbn [bind]; [ | apply in_sites_r; exact Dr | contradiction | exact I].
  apply Hf; assumption.
Qed.

(* = on two values of the static type Number never fails, whatever mix of integer and float *)
Lemma number_equality_total : forall (a b : value fo) (p : nat),
  vty a TNumber = true -> vty b TNumber = true -> exists x, equal_values fo a b p = Ok x.
Proof.
  intros a b p Va Vb.
  destruct a; try discriminate Va; destruct b; try discriminate Vb; eexists; reflexivity.
Qed.

Lemma dyn_eq : forall p o l r, (o = OEq \/ o = ONotEq) ->
  rtype l = rtype r -> is_scalar_ty (rtype l) = true ->
  dyn_ok k v l -> dyn_ok k v r -> dyn_ok k v (EBin p o l r).
Proof.
  intros p o l r Ho Ht Hs Dl Dr. unfold dyn_ok.
  assert (Hrt : rtype (EBin p o l r) = TBool) by (destruct Ho as [ -> | -> ]; reflexivity). rewrite Hrt.
  assert (Hcore : forall neg : bool, match both l r (fun lv rv => do b <- equal_values fo lv rv p; Ok (VBool (if neg then negb b else b))) with
                  | Ok val => vty val TBool = true
                  | Err x => In x (sites (EBin p o l r))
                  | Panic => False
                  | OutOfModel => True
                  end).
  { intros neg. unfold both. unfold dyn_ok in Dl, Dr.
    destruct (ev l) as [lv|x| |]; cbn [bind]; [ | apply in_sites_l; exact Dl | contradiction | exact I].
    destruct (ev r) as [rv|x| |]; cbn [bind]; [ | apply in_sites_r; exact Dr | contradiction | exact I].
    rewrite <- Ht in Dr.
    destruct (rtype l); try discriminate Hs.
    - destruct lv; try discriminate Dl; destruct rv; try discriminate Dr; reflexivity.
    - destruct lv; try discriminate Dl; destruct rv; try discriminate Dr; reflexivity.
    - (* numbers: integer or float on either side *)
      destruct lv; try discriminate Dl; destruct rv; try discriminate Dr; reflexivity. }
  destruct Ho as [ -> | -> ].
  - rewrite eval_eq. exact (Hcore false).
  - rewrite eval_neq. exact (Hcore true).
Qed.

Lemma dyn_prefix : forall p l r,
  rtype l = TStr -> rtype r = TStr -> dyn_ok k v l -> dyn_ok k v r ->
  dyn_ok k v (EBin p OPrefixMatch l r).
Proof.
  intros p l r Hl Hr Dl Dr. unfold dyn_ok at 1. rewrite eval_prefix. cbn [rtype].
  apply both_ok; try assumption. intros lv rv Vl Vr. rewrite Hl in Vl. rewrite Hr in Vr.
  destruct lv; try discriminate Vl; destruct rv; try discriminate Vr; reflexivity.
Qed.

Lemma dyn_concat : forall p l r,
  rtype l = TStr -> rtype r = TStr -> dyn_ok k v l -> dyn_ok k v r -> dyn_ok k v (EBin p OAdd l r).
Proof.
  intros p l r Hl Hr Dl Dr. unfold dyn_ok at 1. rewrite eval_add. cbn [rtype]. rewrite Hl.
  apply both_ok; try assumption. intros lv rv _ _. reflexivity.
Qed.

Lemma math_op_ok : forall lv rv o rpos, (o = OAdd \/ o = OSub \/ o = OMul \/ o = ODiv) ->
  vty lv TNumber = true -> vty rv TNumber = true ->
  match math_op fo lv rv o rpos with
  | Ok val => vty val TNumber = true
  | Err x => o = ODiv /\ x = EExec rpos
  | Panic => False
  | OutOfModel => True
  end.
Proof.
  intros lv rv o rpos Ho Vl Vr.
  destruct lv; try discriminate Vl; destruct rv; try discriminate Vr;
    destruct Ho as [ -> | [ -> | [ -> | -> ] ] ]; cbn;
    try reflexivity;
    try (destruct (Z.eqb z0 0); [split; reflexivity | reflexivity]);
    try (match goal with |- context [feqb fo ?a ?b] => destruct (feqb fo a b) end;
         [split; reflexivity | reflexivity]).
Qed.

Lemma dyn_arith : forall p o l r, (o = OAdd \/ o = OSub \/ o = OMul \/ o = ODiv) ->
  rtype l = TNumber -> rtype r = TNumber -> dyn_ok k v l -> dyn_ok k v r ->
  dyn_ok k v (EBin p o l r).
Proof.
  intros p o l r Ho Hl Hr Dl Dr.
  assert (Hev : ev (EBin p o l r) = both l r (fun lv rv => math_op fo lv rv o (epos r))).
  { destruct Ho as [ -> | Ho ]; [rewrite eval_add, Hl; reflexivity | apply eval_arith; exact Ho]. }
  assert (Hrt : rtype (EBin p o l r) = TNumber).
  { destruct Ho as [ -> | [ -> | [ -> | -> ] ] ]; cbn [rtype]; rewrite ?Hl; reflexivity. }
  unfold dyn_ok at 1. rewrite Hev, Hrt. unfold both, dyn_ok in *.
  rewrite Hl in Dl. rewrite Hr in Dr.
  destruct (ev l) as [lv|x| |]; cbn [bind];
    [ | apply in_sites_l; exact Dl | contradiction | exact I].
  destruct (ev r) as [rv|x| |]; cbn [bind];
    [ | apply in_sites_r; exact Dr | contradiction | exact I].
  pose proof (math_op_ok lv rv o (epos r) Ho Dl Dr) as Hm.
  destruct (math_op fo lv rv o (epos r)) as [val|x| |]; try contradiction.
  - exact Hm.
  - destruct Hm as [-> ->]. cbn [sites]. left. reflexivity.
  - exact I.
Qed.

Lemma dyn_cmp : forall p o l r, (o = OGt \/ o = OGte \/ o = OLt \/ o = OLte) ->
  rtype l = rtype r -> is_strnum_ty (rtype l) = true -> dyn_ok k v l -> dyn_ok k v r ->
  dyn_ok k v (EBin p o l r).
Proof.
  intros p o l r Ho Ht Hs Dl Dr. unfold dyn_ok at 1. rewrite (eval_cmp p o l r Ho).
  assert (Hrt : rtype (EBin p o l r) = TBool) by (destruct Ho as [ -> | [ -> | [ -> | -> ] ] ]; reflexivity).
  rewrite Hrt. apply both_ok; try assumption. intros lv rv Vl Vr. rewrite <- Ht in Vr.
  destruct (rtype l); try discriminate Hs.
  - destruct lv; try discriminate Vl; destruct rv; try discriminate Vr; reflexivity.
  - destruct lv; try discriminate Vl; destruct rv; try discriminate Vr; reflexivity.
Qed.

(* comparisons between values of one kind never fail *)
Lemma compare_total : forall (number : bool) (a b : value fo) (c : cmpop),
  vty a (if number then TNumber else TStr) = true -> vty b (if number then TNumber else TStr) = true ->
  exists r, (if number then number_compare fo a b c else string_compare fo a b c) = Ok r.
Proof.
  intros number a b c Va Vb. destruct number.
  - destruct a; try discriminate Va; destruct b; try discriminate Vb; eexists; reflexivity.
  - destruct a; try discriminate Va; destruct b; try discriminate Vb; eexists; reflexivity.
Qed.

Lemma in_list_ok : forall (number : bool) lv items,
  vty lv (if number then TNumber else TStr) = true ->
  Forall (fun it => rtype it = (if number then TNumber else TStr)) items ->
  Forall (dyn_ok k v) items ->
  match in_list fo lv number items (map ev items) with
  | Ok _ => True
  | Err x => In x (flat_map sites items)
  | Panic => False
  | OutOfModel => True
  end.
Proof.
  intros number lv items Vl. induction items as [|it items IH]; intros Ht Hd; [exact I|].
  inversion Ht as [|? ? Hit Htr]; subst. inversion Hd as [|? ? Dit Dr]; subst.
  cbn [in_list map flat_map]. rewrite Hit.
  replace (ty_eqb (if number then TNumber else TStr) (if number then TNumber else TStr)) with true
    by (destruct number; reflexivity).
  cbn [negb]. unfold dyn_ok in Dit. rewrite Hit in Dit.
  destruct (ev it) as [iv|x| |]; cbn [bind]; [ | apply in_or_app; left; exact Dit | contradiction | exact I].
  destruct (compare_total number lv iv CEq Vl Dit) as [c Hc]. rewrite Hc. cbn [bind].
  destruct c; [exact I|]. specialize (IH Htr Dr).
  destruct (in_list fo lv number items (map ev items)); try assumption.
  apply in_or_app. right. exact IH.
Qed.

Lemma eval_in_list : forall p l q items,
  ev (EBin p OIn l (EList q items)) =
  (do lv <- ev l;
   do b <- in_list fo lv (match rtype l with TStr => false | _ => true end) items (map ev items);
   Ok (VBool b)).
Proof. reflexivity. Qed.

Lemma dyn_in_list : forall p l q items,
  is_strnum_ty (rtype l) = true -> Forall (fun it => rtype it = rtype l) items ->
  dyn_ok k v l -> Forall (dyn_ok k v) items ->
  dyn_ok k v (EBin p OIn l (EList q items)).
Proof.
  intros p l q items Hs Ht Dl Di. unfold dyn_ok at 1. rewrite eval_in_list. cbn [rtype].
  unfold dyn_ok in Dl.
  destruct (ev l) as [lv|x| |]; cbn [bind];
    [ | apply in_sites_l; exact Dl | contradiction | exact I].
  pose proof (in_list_ok (match rtype l with TStr => false | _ => true end) lv items) as H.
  assert (Hk : (if (match rtype l with TStr => false | _ => true end) then TNumber else TStr) = rtype l)
    by (destruct (rtype l); try discriminate Hs; reflexivity).
  rewrite Hk in H. specialize (H Dl Ht Di).
  destruct (in_list fo lv _ items (map ev items)); cbn [bind]; try assumption; try reflexivity.
  apply in_sites_r. exact H.
Qed.

Lemma eval_between : forall p l q lo hi,
  ev (EBin p OBetween l (EList q [lo; hi])) =
  (let number := match rtype l with TStr => false | _ => true end in
   let want := if number then TNumber else TStr in
   let cmp a b c := if number then number_compare fo a b c else string_compare fo a b c in
   do lv <- ev l;
   if negb (ty_eqb (rtype lo) want) then Err (EExec (epos lo))
   else if negb (ty_eqb (rtype hi) want) then Err (EExec (epos hi))
   else
     do lov <- ev lo; do hiv <- ev hi;
     do c <- cmp lov hiv CLt;
     if negb c then Err (EExec p)
     else
       do lc <- cmp lov lv CLte;
       if negb lc then Ok (VBool false)
       else (do uc <- cmp lv hiv CLte; Ok (VBool uc))).
Proof. reflexivity. Qed.

Lemma dyn_between : forall p l q lo hi,
  is_strnum_ty (rtype l) = true -> rtype lo = rtype l -> rtype hi = rtype l ->
  dyn_ok k v l -> dyn_ok k v lo -> dyn_ok k v hi ->
  dyn_ok k v (EBin p OBetween l (EList q [lo; hi])).
Proof.
  intros p l q lo hi Hs Hlo Hhi Dl Dlo Dhi. unfold dyn_ok at 1. rewrite eval_between. cbv zeta.
  cbn [rtype].
  assert (Hk : (if (match rtype l with TStr => false | _ => true end) then TNumber else TStr) = rtype l)
    by (destruct (rtype l); try discriminate Hs; reflexivity).
  rewrite Hk, Hlo, Hhi.
  replace (ty_eqb (rtype l) (rtype l)) with true by (symmetry; apply ty_eqb_eq; reflexivity). cbn [negb].
  unfold dyn_ok in Dl, Dlo, Dhi. rewrite Hlo in Dlo. rewrite Hhi in Dhi.
  destruct (ev l) as [lv|x| |]; cbn [bind];
    [ | apply in_sites_l; exact Dl | contradiction | exact I].
  destruct (ev lo) as [lov|x| |]; cbn [bind];
    [ | apply (in_sites_item x p OBetween l q [lo; hi] lo); [left; reflexivity | exact Dlo] | contradiction | exact I].
  destruct (ev hi) as [hiv|x| |]; cbn [bind];
    [ | apply (in_sites_item x p OBetween l q [lo; hi] hi); [right; left; reflexivity | exact Dhi] | contradiction | exact I].
  set (number := match rtype l with TStr => false | _ => true end) in *.
  rewrite <- Hk in Dl, Dlo, Dhi.
  destruct (compare_total number lov hiv CLt Dlo Dhi) as [c Hc]. rewrite Hc. cbn [bind].
  destruct c; cbn [negb]; [|apply in_sites_between].
  destruct (compare_total number lov lv CLte Dlo Dl) as [c2 Hc2]. rewrite Hc2. cbn [bind].
  destruct c2; cbn [negb]; [|reflexivity].
  destruct (compare_total number lv hiv CLte Dl Dhi) as [c3 Hc3]. rewrite Hc3. reflexivity.
Qed.

Lemma dyn_not : forall p r, rtype r = TBool -> dyn_ok k v r -> dyn_ok k v (ENot p r).
Proof.
  intros p r Hr Dr. unfold dyn_ok in *. cbn [Eval.eval rtype sites]. rewrite Hr in Dr.
  destruct (ev r) as [rv|x| |]; cbn [bind]; try assumption.
  destruct rv; try discriminate Dr. reflexivity.
Qed.

Lemma to_int_total : forall a, match to_int fo a with Ok _ | OutOfModel => True | _ => False end.
Proof.
  intros a. destruct a; cbn; trivial;
    try (destruct (parse_int _); trivial; destruct (f_parse fo _); trivial; destruct (f_trunc fo _); trivial).
  destruct (f_trunc fo f); trivial.
Qed.

Lemma to_float_total : forall a, match to_float fo a with Ok _ | OutOfModel => True | _ => False end.
Proof. intros a. destruct a; cbn; trivial; destruct (f_parse fo _); trivial. Qed.

Lemma core_fn_cases : forall nm, core_fn nm = true ->
  nm = "upper" \/ nm = "lower" \/ nm = "str" \/ nm = "int" \/ nm = "float" \/ nm = "strlen" \/
  nm = "is_int" \/ nm = "is_float".
Proof.
  intros nm H. unfold core_fn in H.
  repeat (apply orb_true_iff in H; destruct H as [H|H]);
    apply String.eqb_eq in H; tauto.
Qed.

Lemma dyn_call : forall p n a nm,
  call_name n = Some nm -> core_fn nm = true -> dyn_ok k v a ->
  dyn_ok k v (ECall p n [a]).
Proof.
  intros p n a nm Hn Hc Da.
  destruct n; try discriminate Hn.
  unfold dyn_ok at 1. cbn [Eval.eval rtype sites flat_map]. rewrite Hn, app_nil_r.
  unfold dyn_ok in Da.
  apply core_fn_cases in Hc.
  destruct Hc as [->|[->|[->|[->|[->|[->|[->| ->]]]]]]]; cbn;
    (destruct (ev a) as [av|x| |]; cbn [bind];
      [ | exact Da | contradiction | exact I ]).
  - destruct (ascii_upper (to_string fo av)); try reflexivity; exact I.
  - destruct (ascii_lower (to_string fo av)); try reflexivity; exact I.
  - reflexivity.
  - pose proof (to_int_total av) as Ht. destruct (to_int fo av); cbn [bind]; try contradiction;
      try reflexivity; exact I.
  - pose proof (to_float_total av) as Ht. destruct (to_float fo av); cbn [bind]; try contradiction;
      try reflexivity; exact I.
  - reflexivity.
  - destruct av; try reflexivity; exact I.
  - destruct av; try reflexivity;
      (destruct (f_parse fo _); try reflexivity; exact I).
Qed.

Definition safe_at (e : expr) : Prop :=
  wt e = true -> core e = true -> refs_ok k v e -> dyn_ok k v e.

Lemma safe_items : forall items, Forall safe_at items ->
  forallb wt items = true -> forallb core items = true -> refs_ok_list k v items ->
  Forall (dyn_ok k v) items.
Proof.
  induction 1 as [|x l Hx _ IH]; intros Hw Hc Hr; [constructor|].
  cbn [forallb] in Hw, Hc. apply andb_true_iff in Hw. destruct Hw as [Hwx Hwl].
  apply andb_true_iff in Hc. destruct Hc as [Hcx Hcl]. cbn [refs_ok_list] in Hr. destruct Hr as [Hrx Hrl].
  constructor; [exact (Hx Hwx Hcx Hrx) | exact (IH Hwl Hcl Hrl)].
Qed.

Lemma eval_safe : forall e, safe_at e.
Proof.
  intros e0.
  enough (Hq : safe_at e0 /\ match e0 with EList _ items => Forall safe_at items | _ => True end) by apply Hq.
  induction e0 using expr_induction.
  - (* EBin *)
    split; [|exact I]. destruct IHe0_1 as [IHl _]. destruct IHe0_2 as [IHr IHrx].
    intros Hw Hc Hr. cbn [wt] in Hw. apply andb_true_iff in Hw. destruct Hw as [Hw Hop].
    apply andb_true_iff in Hw. destruct Hw as [Hwl Hwr].
    destruct (op_check p o e0_1 e0_2) as [u| | |] eqn:Eop; try discriminate Hop. destruct u. clear Hop.
    cbn [core] in Hc. apply andb_true_iff in Hc. destruct Hc as [Hc Hcr].
    apply andb_true_iff in Hc. destruct Hc as [Hco Hcl].
    cbn [refs_ok] in Hr. destruct Hr as [Hrl Hrr].
    pose proof (IHl Hwl Hcl Hrl) as Dl.
    destruct o; cbn [CheckerProofs.op_check] in Eop; try discriminate Eop; try discriminate Hco.
    + (* & *) apply check_andor_spec in Eop. destruct Eop as [Hl Hrt].
      pose proof (IHr Hwr Hcr Hrr) as Dr. apply dyn_andor; auto.
    + apply check_andor_spec in Eop. destruct Eop as [Hl Hrt].
      pose proof (IHr Hwr Hcr Hrr) as Dr. apply dyn_andor; auto.
    + (* = *) apply check_compares_spec in Eop; [|reflexivity]. destruct Eop as [_ [Ht Hcc]]. cbn [cmp_cond] in Hcc.
      pose proof (IHr Hwr Hcr Hrr) as Dr. apply dyn_eq; auto.
    + apply check_compares_spec in Eop; [|reflexivity]. destruct Eop as [_ [Ht Hcc]]. cbn [cmp_cond] in Hcc.
      pose proof (IHr Hwr Hcr Hrr) as Dr. apply dyn_eq; auto.
    + (* ^= *) apply check_compares_spec in Eop; [|reflexivity]. destruct Eop as [_ [Ht Hcc]]. cbn [cmp_cond] in Hcc.
      apply ty_eqb_eq in Hcc. pose proof (IHr Hwr Hcr Hrr) as Dr.
      apply dyn_prefix; congruence.
    + (* + *) apply check_math_spec in Eop; [|reflexivity].
      pose proof (IHr Hwr Hcr Hrr) as Dr.
      destruct Eop as [[[_ [Hl Hrt]]|[Hl Hrt]] _].
      * apply dyn_concat; auto.
      * exact (dyn_arith p OAdd e0_1 e0_2 (or_introl eq_refl) Hl Hrt Dl Dr).
    + apply check_math_spec in Eop; [|reflexivity].
      pose proof (IHr Hwr Hcr Hrr) as Dr.
      destruct Eop as [[[Ho _]|[Hl Hrt]] _]; [discriminate Ho|].
      exact (dyn_arith p OSub e0_1 e0_2 (or_intror (or_introl eq_refl)) Hl Hrt Dl Dr).
    + apply check_math_spec in Eop; [|reflexivity].
      pose proof (IHr Hwr Hcr Hrr) as Dr.
      destruct Eop as [[[Ho _]|[Hl Hrt]] _]; [discriminate Ho|].
      exact (dyn_arith p OMul e0_1 e0_2 (or_intror (or_intror (or_introl eq_refl))) Hl Hrt Dl Dr).
    + apply check_math_spec in Eop; [|reflexivity].
      pose proof (IHr Hwr Hcr Hrr) as Dr.
      destruct Eop as [[[Ho _]|[Hl Hrt]] _]; [discriminate Ho|].
      exact (dyn_arith p ODiv e0_1 e0_2 (or_intror (or_intror (or_intror eq_refl))) Hl Hrt Dl Dr).
    + (* > *) apply check_compares_spec in Eop; [|reflexivity]. destruct Eop as [_ [Ht Hcc]]. cbn [cmp_cond] in Hcc.
      pose proof (IHr Hwr Hcr Hrr) as Dr. apply dyn_cmp; auto.
    + apply check_compares_spec in Eop; [|reflexivity]. destruct Eop as [_ [Ht Hcc]]. cbn [cmp_cond] in Hcc.
      pose proof (IHr Hwr Hcr Hrr) as Dr. apply dyn_cmp; auto 6.
    + apply check_compares_spec in Eop; [|reflexivity]. destruct Eop as [_ [Ht Hcc]]. cbn [cmp_cond] in Hcc.
      pose proof (IHr Hwr Hcr Hrr) as Dr. apply dyn_cmp; auto 6.
    + apply check_compares_spec in Eop; [|reflexivity]. destruct Eop as [_ [Ht Hcc]]. cbn [cmp_cond] in Hcc.
      pose proof (IHr Hwr Hcr Hrr) as Dr. apply dyn_cmp; auto 6.
    + (* in *) destruct e0_2; try discriminate Hco.
      apply check_in_spec in Eop. destruct Eop as [Hs Hfm]. apply first_mistyped_none in Hfm.
      cbn [wt] in Hwr. apply andb_true_iff in Hwr. destruct Hwr as [Hwi _]. cbn [core] in Hcr.
      rewrite refs_ok_elist in Hrr.
      apply dyn_in_list; auto. exact (safe_items _ IHrx Hwi Hcr Hrr).
    + (* between *) unfold check_between in Eop.
      destruct e0_2; try discriminate Eop. destruct l as [|lo [|hi [|]]]; try discriminate Eop.
      destruct (is_strnum_ty (rtype e0_1)) eqn:Hs; cbn [negb] in Eop; [|discriminate].
      destruct (ty_eqb (rtype lo) (rtype e0_1) && ty_eqb (rtype hi) (rtype e0_1)) eqn:Eb; [|discriminate].
      apply andb_true_iff in Eb. destruct Eb as [Elo Ehi]. apply ty_eqb_eq in Elo, Ehi.
      cbn [wt] in Hwr. apply andb_true_iff in Hwr. destruct Hwr as [Hwi _]. cbn [core] in Hcr.
      rewrite refs_ok_elist in Hrr.
      pose proof (safe_items _ IHrx Hwi Hcr Hrr) as Hd.
      inversion Hd as [|? ? Dlo Hd']; subst. inversion Hd' as [|? ? Dhi _]; subst.
      apply dyn_between; auto.
    + (* and *) apply check_andor_spec in Eop. destruct Eop as [Hl Hrt].
      pose proof (IHr Hwr Hcr Hrr) as Dr. apply dyn_andor; auto.
    + apply check_andor_spec in Eop. destruct Eop as [Hl Hrt].
      pose proof (IHr Hwr Hcr Hrr) as Dr. apply dyn_andor; auto 6.
  - (* EField *)
    split; [|exact I]. intros _ _ _. unfold dyn_ok. destruct f; reflexivity.
  - split; [|exact I]. intros _ _ _. reflexivity.
  - (* ENot *)
    split; [|exact I]. destruct IHe0 as [IHr _]. intros Hw Hc Hr.
    cbn [wt] in Hw. apply andb_true_iff in Hw. destruct Hw as [Hwr Hb]. apply ty_eqb_eq in Hb.
    cbn [core] in Hc. cbn [refs_ok] in Hr. pose proof (IHr Hwr Hc Hr) as Dr.
    apply dyn_not; auto.
  - (* ECall *)
    split; [|exact I]. clear IHe0. intros Hw Hc Hr.
    cbn [core] in Hc. apply andb_true_iff in Hc. destruct Hc as [Hc Hca].
    apply andb_true_iff in Hc. destruct Hc as [Hcn Hlen].
    destruct (call_name e0) as [nm|] eqn:En; [|discriminate].
    destruct args as [|a [|]]; try discriminate Hlen.
    cbn [wt] in Hw. rewrite refs_ok_call in Hr.
    assert (HS : Forall safe_at [a]) by (eapply Forall_impl; [|exact H]; intros x [Hx _]; exact Hx).
    pose proof (safe_items _ HS Hw Hca Hr) as Hd. inversion Hd as [|? ? Da _]; subst.
    exact (dyn_call p e0 a nm En Hcn Da).
  - (* EName *)
    split; [|exact I]. intros _ _ _. reflexivity.
  - (* ERef *)
    split; [|exact I]. intros _ _ Hr. cbn [refs_ok] in Hr. exact Hr.
  - (* ENum *)
    split; [|exact I]. intros _ _ _. reflexivity.
  - (* EFloat *)
    split; [|exact I]. intros _ _ _.
    unfold dyn_ok. cbn [Eval.eval rtype]. unfold float_value. destruct (f_parse fo d); reflexivity.
  - split; [|exact I]. intros _ _ _. reflexivity.
  - (* EList *)
    assert (HS : Forall safe_at l) by (eapply Forall_impl; [|exact H]; intros x [Hx _]; exact Hx).
    split; [|exact HS]. intros _ _ _. reflexivity.
  - (* EAccess *)
    split; [|exact I]. intros _ Hc. discriminate Hc.
Qed.

End Ops.

(* the checker's output is safe to evaluate: composition with Check *)
Theorem checked_tree_safe : forall ctx e e1 k v,
  check fo true ctx e = Ok e1 ->
  core (rewrite_name (c_names ctx) e1) = true ->
  refs_ok k v (rewrite_name (c_names ctx) e1) ->
  dyn_ok k v (rewrite_name (c_names ctx) e1).
Proof.
  intros ctx e e1 k v Hc Hcore Hrefs.
  apply (eval_safe k v); auto. rewrite wt_rw. exact (check_wt _ _ _ Hc).
Qed.

(* the WHERE clause of a row: a Boolean checked tree never yields "result is not boolean" *)
Lemma filter_row_safe : forall k v e,
  rtype e = TBool -> dyn_ok k v e ->
  match filter_row fo re k v e with
  | Ok _ => True
  | Err x => In x (sites e)
  | Panic => False
  | OutOfModel => True
  end.
Proof.
  intros k v e Ht D. unfold filter_row, dyn_ok in *. rewrite Ht in D.
  destruct (Eval.eval fo re k v e) as [val|x| |]; cbn [bind]; try assumption.
  destruct val; try discriminate D. exact I.
Qed.

End TS.
