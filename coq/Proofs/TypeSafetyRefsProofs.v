(* Proofs/TypeSafetyRefsProofs.v -- the premise [stmt_defs] of the statement-level type-safety
   theorem (Proofs/TypeSafetyStmtProofs.v) discharged for select fields that REFER TO OTHER FIELDS,
   defined before or after them, to any depth (the references between the fields acyclic:
   [fields_ranked], what SelectStmt.checkFieldCycles establishes).

   A FieldReferenceExpr points to the tree of the field it names.  The twin's reference carries a
   copy: after resolveFieldNames ([link]) the copy inside a checked field is the definition
   resolved one round less often, whose references carry copies resolved yet one round less, and
   so on down the (acyclic) chain.  The checker checks the fully resolved fields only.  What has to
   be shown is that the node conditions it establishes there (operator tests, argument counts) and
   the premises stated there (language fragment, parameter types, element kinds) also hold in the
   copies.  They do because every condition looks at a reference only through the static type and
   the list-element kind of its definition, and those are the same in every round from the rank
   of the field on ([tenv_stable], extended to element kinds here).

   Technique: the skeleton [sk e] of a tree replaces the definition carried by every reference
   by a canonical leaf of the same static type and element kind.  Every condition is invariant
   under sk, and the skeletons of a field resolved under two tables that agree (type, kind) on the
   names the field uses are EQUAL. *)
From Coq Require Import List String ZArith Bool Arith Lia.
Import ListNotations.
From KV Require Import Base.Bytes Base.Num Model.Ast Model.Value Model.Eval Model.Checker
                       Spec.Typing Proofs.CheckerProofs Proofs.SelectProofs
                       Proofs.TypeSafetyProofs Proofs.TypeSafety2Proofs Proofs.TypeSafetyVecProofs.
Local Open Scope string_scope.
Set Warnings "-unused-intro-pattern".

(* ---------------------------------------------------------------- skeletons *)
Definition canon_def (t : ty) (k : option bool) : expr :=
  match k with
  | Some false => ECall 0 (EName 0 "split") []
  | Some true => ECall 0 (EName 0 "list") []
  | None =>
      match t with
      | TStr => EStr 0 ""
      | TNumber => ENum 0 "0"
      | TBool => EBool 0 true
      | TIdent => EName 0 ""
      | TList => EList 0 []
      | TJson => ECall 0 (EName 0 "json") []
      | TUnknown => ECall 0 (EName 0 "?") []
      end
  end.

Fixpoint sk (e : expr) : expr :=
  match e with
  | EBin p o l r => EBin p o (sk l) (sk r)
  | ENot p r => ENot p (sk r)
  | ECall p n args => ECall p n (map sk args)
  | ERef p s d => ERef p s (canon_def (rtype d) (lkind d))
  | EList p items => EList p (map sk items)
  | EAccess p l _ => EAccess p (sk l) (EBool 0 true)
  | _ => e
  end.

Lemma fn_lkind_list : forall nm b, fn_lkind nm = Some b ->
  match func_info nm with Some (_, _, t) => t = TList | None => False end.
Proof.
  intros nm b H. unfold fn_lkind in H.
  destruct (String.eqb nm "split") eqn:E1; [apply String.eqb_eq in E1; subst; reflexivity|].
  destruct (String.eqb nm "list") eqn:E2; [apply String.eqb_eq in E2; subst; reflexivity|].
  destruct (String.eqb nm "int_list") eqn:E3; [apply String.eqb_eq in E3; subst; reflexivity|].
  destruct (String.eqb nm "ilist") eqn:E4; [apply String.eqb_eq in E4; subst; reflexivity|].
  destruct (String.eqb nm "float_list") eqn:E5; [apply String.eqb_eq in E5; subst; reflexivity|].
  destruct (String.eqb nm "flist") eqn:E6; [apply String.eqb_eq in E6; subst; reflexivity|].
  cbn in H. discriminate H.
Qed.

Lemma lkind_rtype : forall e b, lkind e = Some b -> rtype e = TList.
Proof.
  induction e; intros k H; cbn [lkind] in H; try discriminate H.
  - cbn [rtype]. destruct (call_name e) as [nm|]; [|discriminate H].
    pose proof (fn_lkind_list nm k H) as Hf. destruct (func_info nm) as [[[na va] t]|]; [exact Hf|contradiction].
  - cbn [rtype]. exact (IHe k H).
Qed.

Lemma canon_def_ok : forall d,
  rtype (canon_def (rtype d) (lkind d)) = rtype d /\ lkind (canon_def (rtype d) (lkind d)) = lkind d.
Proof.
  intros d. destruct (lkind d) as [[|]|] eqn:Ek.
  - rewrite (lkind_rtype _ _ Ek). split; reflexivity.
  - rewrite (lkind_rtype _ _ Ek). split; reflexivity.
  - destruct (rtype d); split; reflexivity.
Qed.

Lemma rtype_sk : forall e, rtype (sk e) = rtype e.
Proof.
  induction e; cbn [sk rtype]; try reflexivity.
  - rewrite IHe1. reflexivity.
  - exact (proj1 (canon_def_ok e)).
Qed.

Lemma lkind_sk : forall e, lkind (sk e) = lkind e.
Proof. destruct e; cbn [sk lkind]; try reflexivity. exact (proj2 (canon_def_ok e)). Qed.

Lemma epos_sk : forall e, epos (sk e) = epos e.
Proof. destruct e; reflexivity. Qed.

Lemma first_mistyped_sk : forall t l, first_mistyped t (map sk l) = option_map sk (first_mistyped t l).
Proof.
  intros t l. induction l as [|x l IH]; [reflexivity|]. cbn [map first_mistyped]. rewrite rtype_sk.
  destruct (ty_eqb (rtype x) t); [exact IH | reflexivity].
Qed.

Section Inv.
Variable fo : fops.

(* ---------------------------------------------------------------- the checker's operator tests *)
Lemma andor_side_sk : forall e, andor_side true (sk e) = andor_side true e.
Proof. intros e. rewrite !andor_side_spec, rtype_sk, epos_sk. reflexivity. Qed.

Lemma math_side_sk : forall e, math_side (sk e) = math_side e.
Proof. intros e. rewrite !math_side_spec, rtype_sk, epos_sk. reflexivity. Qed.

Lemma zero_divisor_sk : forall e, zero_divisor fo (sk e) = zero_divisor fo e.
Proof. destruct e; reflexivity. Qed.

Lemma compare_side_sk : forall e, compare_side true (sk e) = compare_side true e.
Proof. destruct e; reflexivity. Qed.

Lemma op_check_sk : forall p o l r,
  CheckerProofs.op_check fo p o (sk l) (sk r) = CheckerProofs.op_check fo p o l r.
Proof.
  intros p o l r.
  assert (Hao : check_andor true (sk l) (sk r) = check_andor true l r)
    by (unfold check_andor; rewrite !andor_side_sk; reflexivity).
  assert (Hma : check_math fo o (sk l) (sk r) = check_math fo o l r)
    by (unfold check_math; rewrite !math_side_sk, zero_divisor_sk, !epos_sk; reflexivity).
  assert (Hcm : check_compares true p o (sk l) (sk r) = check_compares true p o l r)
    by (unfold check_compares; rewrite !compare_side_sk, !rtype_sk, !epos_sk; reflexivity).
  assert (Hin : check_in true (sk l) (sk r) = check_in true l r).
  { unfold check_in. rewrite !rtype_sk, !epos_sk.
    destruct r; cbn [sk]; try reflexivity.
    rewrite first_mistyped_sk. destruct (first_mistyped (rtype l) l0) as [x|]; cbn [option_map]; [rewrite epos_sk|]; reflexivity. }
  assert (Hbt : check_between (sk l) (sk r) = check_between l r).
  { unfold check_between. rewrite !rtype_sk, !epos_sk.
    destruct r; cbn [sk]; try reflexivity.
    destruct l0 as [|lo [|hi [|z rest]]]; cbn [map]; try reflexivity.
    rewrite !rtype_sk. reflexivity. }
  destruct o; cbn [CheckerProofs.op_check]; assumption || reflexivity.
Qed.

Notation wt := (TypeSafetyProofs.wt fo).

Lemma forallb_map_sk : forall (P : expr -> bool) l,
  Forall (fun e => P (sk e) = P e) l -> forallb P (map sk l) = forallb P l.
Proof. intros P l H. induction H as [|x l Hx _ IH]; [reflexivity|]. cbn [map forallb]. rewrite Hx, IH. reflexivity. Qed.

Lemma wt_sk : forall e, wt (sk e) = wt e.
Proof.
  intros e0. induction e0 using expr_induction; cbn [sk TypeSafetyProofs.wt]; try reflexivity.
  - rewrite IHe0_1, IHe0_2, op_check_sk. reflexivity.
  - rewrite IHe0, rtype_sk. reflexivity.
  - apply forallb_map_sk. exact H.
  - rewrite (forallb_map_sk _ _ H). destruct l as [|x rest]; [reflexivity|]. cbn [map].
    rewrite rtype_sk, first_mistyped_sk. destruct (first_mistyped (rtype x) rest); reflexivity.
  - exact IHe0_1.
Qed.

Lemma core2_sk : forall e, core2 (sk e) = core2 e.
Proof.
  intros e0.
  enough (Hq : core2 (sk e0) = core2 e0 /\
               match e0 with EList _ items => forallb core2 (map sk items) = forallb core2 items | _ => True end)
    by apply Hq.
  induction e0 using expr_induction; cbn [sk core2]; try (split; [reflexivity|exact I]).
  - split; [|exact I]. destruct IHe0_1 as [IHl _]. destruct IHe0_2 as [IHr IHrx]. rewrite IHl.
    destruct o; try reflexivity; try (rewrite IHr; reflexivity);
      (destruct e0_2; cbn [sk]; try reflexivity; try (cbn [sk] in IHr; rewrite IHr; reflexivity);
       try (rewrite IHrx; reflexivity)).
  - split; [|exact I]. exact (proj1 IHe0).
  - split; [|exact I]. f_equal. apply forallb_map_sk.
    eapply Forall_impl; [|exact H]. intros x [Hx _]. exact Hx.
  - split; [reflexivity|]. apply forallb_map_sk. eapply Forall_impl; [|exact H]. intros x [Hx _]. exact Hx.
Qed.

Lemma params_static_sk : forall e, params_static (sk e) = params_static e.
Proof.
  intros e0. induction e0 using expr_induction; cbn [sk params_static]; try reflexivity.
  - rewrite IHe0_1, IHe0_2. reflexivity.
  - exact IHe0.
  - rewrite (forallb_map_sk _ _ H). f_equal. destruct (call_name e0); [|reflexivity]. f_equal.
    rewrite map_map. apply map_ext. intros a. rewrite rtype_sk. reflexivity.
  - apply forallb_map_sk. exact H.
  - exact IHe0_1.
Qed.

Lemma counts_ok_sk : forall e, counts_ok (sk e) = counts_ok e.
Proof.
  intros e0. induction e0 using expr_induction; cbn [sk counts_ok]; try reflexivity.
  - rewrite IHe0_1, IHe0_2. reflexivity.
  - exact IHe0.
  - rewrite (forallb_map_sk _ _ H), map_length. reflexivity.
  - apply forallb_map_sk. exact H.
  - exact IHe0_1.
Qed.

Lemma in_kinds_sk : forall e, in_kinds (sk e) = in_kinds e.
Proof.
  intros e0. induction e0 using expr_induction; cbn [sk in_kinds]; try reflexivity.
  - rewrite IHe0_1, IHe0_2, rtype_sk. f_equal. f_equal.
    destruct o; try reflexivity. destruct e0_2; cbn [sk]; try reflexivity.
    change (ERef pos name (canon_def (rtype e0_2) (lkind e0_2))) with (sk (ERef pos name e0_2)).
    rewrite lkind_sk. reflexivity.
  - exact IHe0.
  - apply forallb_map_sk. exact H.
  - apply forallb_map_sk. exact H.
  - exact IHe0_1.
Qed.

Lemma node_okv_sk : forall e, node_okv fo (sk e) = node_okv fo e.
Proof.
  intros e. unfold node_okv, node_ok. rewrite wt_sk, core2_sk, params_static_sk, counts_ok_sk, in_kinds_sk. reflexivity.
Qed.

End Inv.

(* ---------------------------------------------------------------- resolving under two tables *)
From KV Require Import Model.EvalVec Model.ScanProj Proofs.TypeSafetyStmtProofs.

(* the definitions two tables give a name look alike from outside: same static type, same
   element kind (or the name is a field in neither) *)
Definition dq (D1 D2 : option expr) : Prop :=
  match D1, D2 with
  | Some a, Some b => rtype a = rtype b /\ lkind a = lkind b
  | None, None => True
  | _, _ => False
  end.

Lemma dq_sym : forall a b, dq a b -> dq b a.
Proof. intros [a|] [b|] H; cbn in *; try contradiction; try exact I. destruct H; split; congruence. Qed.

Lemma dq_trans : forall a b c, dq a b -> dq b c -> dq a c.
Proof.
  intros [a|] [b|] [c|] H1 H2; cbn in *; try contradiction; try exact I.
  destruct H1, H2; split; congruence.
Qed.

Definition teq_on (N1 N2 : list (string * expr)) (e : expr) : Prop :=
  forall s, In s (names_of e) -> dq (get_named N1 s) (get_named N2 s).

Lemma sk_rw_not_name : forall N e, match e with EName _ _ => False | _ => True end -> rewrite_name N e = e.
Proof. intros N e H. destruct e; try reflexivity. contradiction. Qed.

Lemma sk_resolve : forall N1 N2 e, no_refs e = true -> teq_on N1 N2 e ->
  sk (resolve N1 e) = sk (resolve N2 e) /\
  sk (rewrite_name N1 (resolve N1 e)) = sk (rewrite_name N2 (resolve N2 e)).
Proof.
  intros N1 N2 e0. induction e0 using expr_induction; intros Hr Ht; cbn [no_refs] in Hr; cbn [resolve].
  - apply andb_true_iff in Hr. destruct Hr as [H1 H2].
    assert (Hl : teq_on N1 N2 e0_1) by (intros s Hs; apply Ht; cbn [names_of]; apply in_or_app; left; exact Hs).
    assert (Hrr : teq_on N1 N2 e0_2) by (intros s Hs; apply Ht; cbn [names_of]; apply in_or_app; right; exact Hs).
    destruct (IHe0_1 H1 Hl) as [_ E1]. destruct (IHe0_2 H2 Hrr) as [_ E2].
    cbn [rewrite_name sk]. rewrite E1, E2. split; reflexivity.
  - split; reflexivity.
  - split; reflexivity.
  - destruct (IHe0 Hr Ht) as [_ E1]. cbn [rewrite_name sk]. rewrite E1. split; reflexivity.
  - apply andb_true_iff in Hr. destruct Hr as [_ Hr]. clear IHe0.
    assert (Ha : map sk (map (fun a => rewrite_name N1 (resolve N1 a)) args) =
                 map sk (map (fun a => rewrite_name N2 (resolve N2 a)) args)).
    { cbn [names_of] in Ht. induction H as [|x l Hx _ IH]; [reflexivity|].
      cbn [forallb] in Hr. apply andb_true_iff in Hr. destruct Hr as [Hr1 Hr2]. cbn [map].
      rewrite (proj2 (Hx Hr1 (fun s Hs => Ht s (in_or_app _ _ _ (or_introl Hs))))).
      rewrite (IH Hr2 (fun s Hs => Ht s (in_or_app _ _ _ (or_intror Hs)))). reflexivity. }
    cbn [rewrite_name sk]. rewrite Ha. split; reflexivity.
  - (* EName *)
    split; [reflexivity|]. specialize (Ht s (or_introl eq_refl)). cbn [rewrite_name].
    destruct (get_named N1 s) as [d1|], (get_named N2 s) as [d2|]; cbn [dq] in Ht; try contradiction; [|reflexivity].
    destruct Ht as [E1 E2]. cbn [sk]. rewrite E1, E2. reflexivity.
  - discriminate Hr.
  - split; reflexivity.
  - split; reflexivity.
  - split; reflexivity.
  - assert (Ha : map sk (map (fun a => rewrite_name N1 (resolve N1 a)) l) =
                 map sk (map (fun a => rewrite_name N2 (resolve N2 a)) l)).
    { cbn [names_of] in Ht. induction H as [|x l Hx _ IH]; [reflexivity|].
      cbn [forallb] in Hr. apply andb_true_iff in Hr. destruct Hr as [Hr1 Hr2]. cbn [map].
      rewrite (proj2 (Hx Hr1 (fun s Hs => Ht s (in_or_app _ _ _ (or_introl Hs))))).
      rewrite (IH Hr2 (fun s Hs => Ht s (in_or_app _ _ _ (or_intror Hs)))). reflexivity. }
    cbn [rewrite_name sk]. rewrite Ha. split; reflexivity.
  - apply andb_true_iff in Hr. destruct Hr as [H1 _].
    destruct (IHe0_1 H1 Ht) as [_ E1]. cbn [rewrite_name sk]. rewrite E1. split; reflexivity.
Qed.

(* the references of a resolved tree carry entries of the table for the names the tree uses *)
Lemma defs_ok_resolve_on : forall (P : expr -> bool) N e,
  (forall s d, In s (names_of e) -> get_named N s = Some d -> P d = true /\ defs_ok P d = true) ->
  no_refs e = true ->
  defs_ok P (resolve N e) = true /\ defs_ok P (rewrite_name N (resolve N e)) = true.
Proof.
  intros P N e0. induction e0 using expr_induction; intros HN Hr; cbn [no_refs] in Hr; cbn [resolve].
  - apply andb_true_iff in Hr. destruct Hr as [H1 H2].
    destruct (IHe0_1 (fun s d Hs => HN s d (in_or_app _ _ _ (or_introl Hs))) H1) as [_ Hl].
    destruct (IHe0_2 (fun s d Hs => HN s d (in_or_app _ _ _ (or_intror Hs))) H2) as [_ Hrr].
    cbn [rewrite_name defs_ok]. rewrite Hl, Hrr. split; reflexivity.
  - split; reflexivity.
  - split; reflexivity.
  - destruct (IHe0 HN Hr) as [_ H1]. cbn [rewrite_name defs_ok]. rewrite H1. split; reflexivity.
  - apply andb_true_iff in Hr. destruct Hr as [_ Hr]. clear IHe0.
    assert (Ha : forallb (defs_ok P) (map (fun a => rewrite_name N (resolve N a)) args) = true).
    { cbn [names_of] in HN. induction H as [|x l Hx _ IH]; [reflexivity|]. cbn [forallb] in Hr. apply andb_true_iff in Hr.
      destruct Hr as [Hr1 Hr2]. cbn [map forallb].
      rewrite (proj2 (Hx (fun s d Hs => HN s d (in_or_app _ _ _ (or_introl Hs))) Hr1)).
      rewrite (IH (fun s d Hs => HN s d (in_or_app _ _ _ (or_intror Hs))) Hr2). reflexivity. }
    cbn [rewrite_name defs_ok]. rewrite Ha. split; reflexivity.
  - split; [reflexivity|]. cbn [rewrite_name]. destruct (get_named N s) as [d|] eqn:Eg; [|reflexivity].
    cbn [defs_ok]. destruct (HN s d (or_introl eq_refl) Eg) as [H1 H2]. rewrite H1, H2. reflexivity.
  - discriminate Hr.
  - split; reflexivity.
  - split; reflexivity.
  - split; reflexivity.
  - assert (Ha : forallb (defs_ok P) (map (fun a => rewrite_name N (resolve N a)) l) = true).
    { cbn [names_of] in HN. induction H as [|x l Hx _ IH]; [reflexivity|]. cbn [forallb] in Hr. apply andb_true_iff in Hr.
      destruct Hr as [Hr1 Hr2]. cbn [map forallb].
      rewrite (proj2 (Hx (fun s d Hs => HN s d (in_or_app _ _ _ (or_introl Hs))) Hr1)).
      rewrite (IH (fun s d Hs => HN s d (in_or_app _ _ _ (or_intror Hs))) Hr2). reflexivity. }
    cbn [rewrite_name defs_ok]. rewrite Ha. split; reflexivity.
  - apply andb_true_iff in Hr. destruct Hr as [H1 H2].
    destruct (IHe0_1 HN H1) as [_ Hl]. cbn [rewrite_name defs_ok]. rewrite Hl. split; reflexivity.
Qed.

(* ---------------------------------------------------------------- the rounds of name resolution *)
Section Levels.
Variable fo : fops.
Variable raw : list (string * expr).
Variable rank : string -> nat.
Hypothesis Hbound : forall s d, get_named raw s = Some d -> rank s < List.length raw.
Hypothesis Hrank : forall s d s', get_named raw s = Some d -> In s' (names_of d) ->
                                  get_named raw s' <> None -> rank s' < rank s.
Hypothesis Hnr : forall s d, get_named raw s = Some d -> no_refs d = true.

Notation below := (below raw rank).
Notation node_okv := (node_okv fo).

Lemma below_mono : forall k m s, below k s -> k <= m -> below m s.
Proof. intros k m s H Hl d Hs. specialize (H d Hs). lia. Qed.

(* type and element kind of a field's entry are final from the rank of the field on *)
Lemma dq_stable : forall k s, below k s -> dq (get_named (link_n k raw) s) (get_named (link_n (S k) raw) s).
Proof.
  induction k as [|k IH]; intros s Hb.
  - destruct (get_named raw s) as [d|] eqn:Hs.
    + specialize (Hb _ Hs). lia.
    + rewrite !get_named_link_none by exact Hs. exact I.
  - destruct (get_named raw s) as [d|] eqn:Hs.
    + rewrite (get_named_link_S raw k), (get_named_link_S raw (S k)), Hs. cbn [option_map dq].
      assert (E : sk (resolve (link_n k raw) d) = sk (resolve (link_n (S k) raw) d)).
      { apply sk_resolve; [exact (Hnr _ _ Hs)|]. intros s' Hin. apply IH.
        exact (below_names raw rank Hrank k s d s' Hs (Hb _ Hs) Hin). }
      split.
      * rewrite <- (rtype_sk (resolve (link_n k raw) d)), E, rtype_sk. reflexivity.
      * rewrite <- (lkind_sk (resolve (link_n k raw) d)), E, lkind_sk. reflexivity.
    + rewrite !get_named_link_none by exact Hs. exact I.
Qed.

Lemma dq_stable_plus : forall m k s, below k s ->
  dq (get_named (link_n k raw) s) (get_named (link_n (m + k) raw) s).
Proof.
  induction m as [|m IH]; intros k s Hb; cbn [plus].
  - destruct (get_named (link_n k raw) s); cbn; auto.
  - eapply dq_trans; [exact (IH k s Hb)|]. apply dq_stable. apply (below_mono k); [exact Hb|lia].
Qed.

(* the checked fields (fully resolved) satisfy the node conditions *)
Let n := List.length raw.
Hypothesis Htop : forall s d, get_named raw s = Some d -> node_okv (resolve (link_n n raw) d) = true.

Lemma level_ok : forall k, k <= n -> forall s d, get_named raw s = Some d ->
  (forall s', In s' (names_of d) -> below k s') ->
  node_okv (resolve (link_n k raw) d) = true /\ defs_ok node_okv (resolve (link_n k raw) d) = true.
Proof.
  induction k as [|k IH]; intros Hk s d Hs Hb.
  - split.
    + rewrite <- node_okv_sk.
      replace (sk (resolve (link_n 0 raw) d)) with (sk (resolve (link_n n raw) d));
        [rewrite node_okv_sk; exact (Htop _ _ Hs)|].
      symmetry. apply sk_resolve; [exact (Hnr _ _ Hs)|]. intros s' Hin.
      replace n with (n + 0) by lia. apply dq_stable_plus. exact (Hb _ Hin).
    + apply (defs_ok_resolve_on node_okv (link_n 0 raw) d); [|exact (Hnr _ _ Hs)].
      intros s' d' Hin Hg. cbn [link_n] in Hg. specialize (Hb _ Hin _ Hg). lia.
  - split.
    + rewrite <- node_okv_sk.
      replace (sk (resolve (link_n (S k) raw) d)) with (sk (resolve (link_n n raw) d));
        [rewrite node_okv_sk; exact (Htop _ _ Hs)|].
      symmetry. apply sk_resolve; [exact (Hnr _ _ Hs)|]. intros s' Hin.
      replace n with ((n - S k) + S k) by lia. apply dq_stable_plus. exact (Hb _ Hin).
    + apply (defs_ok_resolve_on node_okv (link_n (S k) raw) d); [|exact (Hnr _ _ Hs)].
      intros s' D Hin Hg. rewrite get_named_link_S in Hg.
      destruct (get_named raw s') as [d'|] eqn:Hs'; [|discriminate Hg]. cbn [option_map] in Hg. inversion Hg; subst D.
      apply (IH ltac:(lia) s' d' Hs').
      intros s'' Hin''. exact (below_names raw rank Hrank k s' d' s'' Hs' (Hb _ Hin _ Hs') Hin'').
Qed.

End Levels.

(* ---------------------------------------------------------------- the statement *)
Section Stmt.
Variable fo : fops.
Notation node_okv := (node_okv fo).

Lemma no_refs_get_named : forall fields s d,
  forallb (fun nf : string * expr => no_refs (snd nf)) fields = true -> get_named fields s = Some d -> no_refs d = true.
Proof.
  intros fields s d H Hg. destruct (get_named_in _ _ _ Hg) as [n0 Hin].
  rewrite forallb_forall in H. exact (H _ Hin).
Qed.

Lemma checked_field_of : forall all l l2, Forall2 (field_rel fo all) l l2 ->
  forall nf, In nf l -> exists nf2, In nf2 l2 /\ snd nf2 = resolve all (snd nf).
Proof.
  intros all l l2 H. induction H as [|x y l l2 [_ [Hck _]] _ IH]; intros nf Hin; [contradiction|].
  destruct Hin as [->|Hin].
  - exists y. split; [left; reflexivity|]. exact (check_resolve fo _ _ _ Hck).
  - destruct (IH _ Hin) as [nf2 [H1 H2]]. exists nf2. split; [right; exact H1|exact H2].
Qed.

Lemma checked_field_back : forall all l l2, Forall2 (field_rel fo all) l l2 ->
  forall nf2, In nf2 l2 -> exists nf, In nf l /\ snd nf2 = resolve all (snd nf).
Proof.
  intros all l l2 H. induction H as [|x y l l2 [_ [Hck _]] _ IH]; intros nf2 Hin; [contradiction|].
  destruct Hin as [->|Hin].
  - exists x. split; [left; reflexivity|]. exact (check_resolve fo _ _ _ Hck).
  - destruct (IH _ Hin) as [nf [H1 H2]]. exists nf. split; [right; exact H1|exact H2].
Qed.

(* [stmt_defs] from the checker for select fields that refer to other fields, before or after
   their definition, to any depth *)
Theorem ranked_stmt_defs : forall fields w order s2,
  build_check fo true (SSelect fields w order) = Ok s2 ->
  fields_ranked fields -> stmt_no_refs (SSelect fields w order) = true ->
  stmt_frag s2 = true -> stmt_params_static s2 = true -> stmt_defs fo s2 = true.
Proof.
  intros fields w order s2 H [rank [Hbound Hrank]] Hnrs Hfr Hps.
  destruct (accepted_select_nodes fo _ _ _ _ H Hfr Hps) as [f2 [w1 [-> [Hf2 [Hw1 [Hnw [Hb Hnf]]]]]]].
  cbn [stmt_no_refs] in Hnrs. apply andb_true_iff in Hnrs. destruct Hnrs as [Hnrf Hnrw].
  assert (Hnr : forall s d, get_named fields s = Some d -> no_refs d = true)
    by (intros s d; apply no_refs_get_named; exact Hnrf).
  unfold link in *. set (n := List.length fields) in *.
  assert (Htop : forall s d, get_named fields s = Some d -> node_okv (resolve (link_n n fields) d) = true).
  { intros s d Hg. destruct (get_named_in _ _ _ Hg) as [n0 Hin].
    destruct (checked_field_of _ _ _ Hf2 _ Hin) as [nf2 [Hin2 E]]. cbn [snd] in E. rewrite <- E.
    rewrite Forall_forall in Hnf. exact (Hnf _ Hin2). }
  pose proof (level_ok fo fields rank Hrank Hnr Htop) as Hlev. fold n in Hlev.
  cbn [stmt_defs]. apply andb_true_iff. split.
  - (* WHERE: its references carry the entries of the table, resolved one round less *)
    rewrite (check_resolve fo _ _ _ Hw1). cbn [c_names].
    apply (defs_ok_resolve_on node_okv (link_n n fields) w); [|exact Hnrw].
    intros s D _ Hg.
    destruct n as [|n'] eqn:En.
    { cbn [link_n] in Hg. destruct fields; [discriminate Hg | discriminate En]. }
    rewrite get_named_link_S in Hg. destruct (get_named fields s) as [d|] eqn:Hs; [|discriminate Hg].
    cbn [option_map] in Hg. inversion Hg; subst D.
    apply (Hlev n' ltac:(lia) s d Hs). intros s' Hin.
    apply (below_names fields rank Hrank n' s d s' Hs); [|exact Hin].
    pose proof (Hbound _ _ Hs). lia.
  - (* the fields *)
    apply forallb_forall. intros nf2 Hin2.
    destruct (checked_field_back _ _ _ Hf2 _ Hin2) as [nf [Hin E]]. rewrite E.
    destruct nf as [s0 d0]. cbn [snd].
    (* d0 may be a later definition of a name defined twice: only its own tree matters *)
    assert (Hnr0 : no_refs d0 = true) by (rewrite forallb_forall in Hnrf; exact (Hnrf _ Hin)).
    apply (defs_ok_resolve_on node_okv (link_n n fields) d0); [|exact Hnr0].
    intros s D _ Hg.
    destruct n as [|n'] eqn:En.
    { cbn [link_n] in Hg. destruct fields; [contradiction Hin | discriminate En]. }
    rewrite get_named_link_S in Hg. destruct (get_named fields s) as [d|] eqn:Hs; [|discriminate Hg].
    cbn [option_map] in Hg. inversion Hg; subst D.
    apply (Hlev n' ltac:(lia) s d Hs). intros s' Hin'.
    apply (below_names fields rank Hrank n' s d s' Hs); [|exact Hin'].
    pose proof (Hbound _ _ Hs). lia.
Qed.

End Stmt.

(* the statement-level theorem without the premise on definitions *)
Theorem accepted_select_safe_ranked :
  forall (fo : fops) (re : bytes -> bytes -> res bool),
  (forall p t, match re p t with Err x => x = EOther | Panic => False | _ => True end) ->
  forall fields w order s2 (star : bool) slots,
  build_check fo true (SSelect fields w order) = Ok s2 ->
  fields_ranked fields -> stmt_no_refs (SSelect fields w order) = true ->
  stmt_frag s2 = true -> stmt_params_static s2 = true ->
  match s2 with
  | SSelect f2 w2 _ =>
      okerr (fun x => In x (stmt_sites w2 (sel_fields star f2)))
            (select_row fo re w2 (sel_fields star f2) slots) /\
      forall B, 1 <= B ->
        okerr (fun x => In x (stmt_sites w2 (sel_fields star f2)))
              (select_batch fo re B w2 (sel_fields star f2) slots)
  | _ => False
  end.
Proof.
  intros fo re Hre fields w order s2 star slots H Hrk Hnr Hfr Hps.
  apply (accepted_select_safe fo re Hre fields w order s2 star slots H Hfr Hps).
  exact (ranked_stmt_defs fo fields w order s2 H Hrk Hnr Hfr Hps).
Qed.

(* DELETE has no field names: no references, nothing to discharge *)
Lemma defs_ok_no_refs : forall P e, no_refs e = true -> defs_ok P e = true.
Proof.
  intros P e0. induction e0 using expr_induction; intros Hr; cbn [no_refs] in Hr; cbn [defs_ok]; try reflexivity.
  - apply andb_true_iff in Hr. destruct Hr as [H1 H2]. rewrite (IHe0_1 H1), (IHe0_2 H2). reflexivity.
  - exact (IHe0 Hr).
  - apply andb_true_iff in Hr. destruct Hr as [_ Hr]. clear IHe0.
    induction H as [|x l Hx _ IH]; [reflexivity|]. cbn [forallb] in *. apply andb_true_iff in Hr.
    destruct Hr as [H1 H2]. rewrite (Hx H1), (IH H2). reflexivity.
  - discriminate Hr.
  - induction H as [|x l Hx _ IH]; [reflexivity|]. cbn [forallb] in *. apply andb_true_iff in Hr.
    destruct Hr as [H1 H2]. rewrite (Hx H1), (IH H2). reflexivity.
  - apply andb_true_iff in Hr. destruct Hr as [H1 _]. exact (IHe0_1 H1).
Qed.

Theorem accepted_delete_filter_safe_full_premises :
  forall (fo : fops) (re : bytes -> bytes -> res bool),
  (forall p t, match re p t with Err x => x = EOther | Panic => False | _ => True end) ->
  forall w s2,
  build_check fo true (SDelete w) = Ok s2 -> no_refs w = true ->
  stmt_frag s2 = true -> stmt_params_static s2 = true ->
  match s2 with
  | SDelete w2 =>
      (forall kv, okerr (fun x => In x (sites2 w2)) (filter_row fo re (fst kv) (snd kv) w2)) /\
      (forall c, okerr (fun x => In x (sites2 w2)) (filter_batch fo re true w2 c))
  | _ => False
  end.
Proof.
  intros fo re Hre w s2 H Hnr Hfr Hps.
  apply (accepted_delete_filter_safe fo re Hre w s2 H Hfr Hps).
  unfold build_check in H. inv_bind H as s1 Hs1 H. inv_bind H as u Hc H. inversion H; subst s2.
  cbn [check_stmt] in Hs1. inv_bind Hs1 as w2 Hw2 Hs1. inv_bind Hs1 as u2 Hb Hs1. inversion Hs1; subst s1.
  cbn [stmt_defs]. rewrite (check_nil_id fo _ _ _ _ Hw2). apply defs_ok_no_refs. exact Hnr.
Qed.
