(* Proofs/TypeSafetyStmtProofs.v -- the lift of type safety from one expression to a whole
   SELECT run: scan + WHERE filter + projection, drained row-at-a-time and in batches of any size
   B >= 1 (Model/ScanProj.v select_row / select_batch), for the statements build_check accepts.

   Layers:
     1. plan layer, abstract in the filter and the projection: if the per-pair / per-chunk
        filter and projection fail only inside a set A of errors and never panic, so do the
        drains; the fuel of the drains is enough (an OutOfModel outcome of a drain is an
        OutOfModel outcome of an evaluator call);
     2. the evaluator twins: FilterExec.Filter / FilterBatch and processProjection /
        processProjectionBatch on accepted trees (Proofs/TypeSafety2Proofs.v,
        Proofs/TypeSafetyVecProofs.v);
     3. what build_check establishes for the trees of the statement it returns. *)
From Coq Require Import List String ZArith Bool Arith Lia.
Import ListNotations.
From KV Require Import Base.Bytes Base.Num Model.Ast Model.Value Model.Eval Model.EvalVec Model.Checker
                       Model.ScanProj Spec.Typing Proofs.CheckerProofs Proofs.SelectProofs
                       Proofs.TypeSafetyProofs Proofs.TypeSafety2Proofs Proofs.EvalVecProofs
                       Proofs.TypeSafetyVecProofs Proofs.ScanProjProofs.
Local Open Scope nat_scope.
Local Open Scope list_scope.
Set Warnings "-unused-intro-pattern".

(* ---------------------------------------------------------------- 1. the plan layer *)
Section Plan.
Variable P R : Type.
Variable frow : P -> res bool.
Variable fbatch : list P -> res (list bool).
Variable prow : P -> res R.
Variable pbatch : list P -> res (list R).
Variable A : err -> Prop.

Hypothesis Hfrow : forall kv, okerr A (frow kv).
Hypothesis Hprow : forall kv, okerr A (prow kv).
(* FilterBatch answers one verdict per pair *)
Hypothesis Hfbatch : forall c, match fbatch c with
                               | Ok bs => List.length bs = List.length c
                               | Err x => A x
                               | Panic => False
                               | OutOfModel => True
                               end.
Hypothesis Hpbatch : forall c, okerr A (pbatch c).

Lemma row_list_okerr : forall l, okerr A (row_list P R frow prow l).
Proof.
  induction l as [|kv l IH]; cbn [row_list]; [exact I|].
  apply okerr_bind; [apply Hfrow|]. intros ok _. destruct ok; [|exact IH].
  apply okerr_bind; [apply Hprow|]. intros row _. apply okerr_bind; [exact IH|]. intros out _. exact I.
Qed.

Theorem drain_row_okerr : forall rest, okerr A (drain_row frow prow rest).
Proof. intros rest. rewrite drain_row_spec. apply row_list_okerr. Qed.

Lemma select_matches_ok : forall (chunk : list P) ms,
  List.length ms = List.length chunk -> exists sel, select_matches chunk ms = Ok sel.
Proof.
  induction chunk as [|kv chunk IH]; intros [|m ms] Hl; cbn in Hl; try discriminate.
  - exists []. reflexivity.
  - destruct (IH ms ltac:(lia)) as (sel & Es). cbn. rewrite Es. cbn. eauto.
Qed.

Lemma scan_loop_okerr : forall fuel B rest ret, okerr A (scan_batch_loop fbatch fuel B rest ret).
Proof.
  induction fuel as [|f IH]; intros B rest ret; cbn [scan_batch_loop]; [exact I|].
  destruct (somes (firstn B rest)) as [|kv0 chunk'] eqn:Ech.
  - destruct (Nat.ltb (List.length rest) B); [exact I | apply IH].
  - pose proof (Hfbatch (kv0 :: chunk')) as Hf.
    destruct (fbatch (kv0 :: chunk')) as [ms|x| |]; cbn [bind okerr]; try assumption.
    destruct (select_matches_ok _ _ Hf) as (sel & ->). cbn [bind].
    destruct (_ || _); [exact I | apply IH].
Qed.

Lemma drain_batch_fuel_okerr : forall fuel B rest, okerr A (drain_batch_fuel fbatch pbatch fuel B rest).
Proof.
  induction fuel as [|f IH]; intros B rest; cbn [drain_batch_fuel]; [exact I|].
  unfold proj_batch, scan_batch.
  apply okerr_bind.
  - apply okerr_bind; [apply scan_loop_okerr|]. intros [kvs rest'] _.
    destruct kvs; [exact I|]. apply okerr_bind; [apply Hpbatch|]. intros rows _. exact I.
  - intros [rows rest'] _. destruct rows; [exact I|].
    apply okerr_bind; [apply IH|]. intros outs _. exact I.
Qed.

Theorem drain_batch_okerr : forall B rest, okerr A (drain_batch fbatch pbatch B rest).
Proof. intros. apply drain_batch_fuel_okerr. Qed.

(* ---- the fuel is enough: OutOfModel comes from an evaluator call, not from the fuel bound *)
Hypothesis Nfrow : forall kv, frow kv <> OutOfModel.
Hypothesis Nprow : forall kv, prow kv <> OutOfModel.
Hypothesis Nfbatch : forall c, fbatch c <> OutOfModel.
Hypothesis Npbatch : forall c, pbatch c <> OutOfModel.

Lemma row_list_fuel : forall l, row_list P R frow prow l <> OutOfModel.
Proof.
  induction l as [|kv l IH]; cbn [row_list]; [discriminate|].
  pose proof (Nfrow kv) as H1. destruct (frow kv) as [ok|x| |]; cbn [bind]; try discriminate; try contradiction.
  destruct ok; [|exact IH].
  pose proof (Nprow kv) as H2. destruct (prow kv) as [row|x| |]; cbn [bind]; try discriminate; try contradiction.
  destruct (row_list P R frow prow l); cbn [bind]; try discriminate. contradiction.
Qed.

Theorem drain_row_fuel_enough : forall rest, drain_row frow prow rest <> OutOfModel.
Proof. intros rest. rewrite drain_row_spec. apply row_list_fuel. Qed.

Lemma scan_loop_fuel : forall fuel B rest ret, 1 <= B -> List.length rest < fuel ->
  scan_batch_loop fbatch fuel B rest ret <> OutOfModel.
Proof.
  induction fuel as [|f IH]; intros B rest ret HB Hl; [lia|]. cbn [scan_batch_loop].
  assert (Hsk : Nat.ltb (List.length rest) B = false -> List.length (skipn B rest) < f).
  { intros E. apply Nat.ltb_ge in E. rewrite skipn_length. lia. }
  destruct (somes (firstn B rest)) as [|kv0 chunk'] eqn:Ech.
  - destruct (Nat.ltb (List.length rest) B) eqn:Eof; [discriminate | apply IH; auto].
  - pose proof (Hfbatch (kv0 :: chunk')) as Hf. pose proof (Nfbatch (kv0 :: chunk')) as Hn.
    destruct (fbatch (kv0 :: chunk')) as [ms|x| |]; cbn [bind]; try discriminate; try contradiction.
    destruct (select_matches_ok _ _ Hf) as (sel & ->). cbn [bind].
    destruct (Nat.ltb (List.length rest) B) eqn:Eof; cbn [orb]; [discriminate|].
    destruct (Nat.leb B _); [discriminate | apply IH; auto].
Qed.

(* a Batch call of a scan consumes slots unless the stream is already empty (then it returns
   what it was given) *)
Lemma scan_loop_len : forall fuel B rest ret out rest',
  1 <= B -> scan_batch_loop fbatch fuel B rest ret = Ok (out, rest') ->
  (rest = [] /\ out = ret) \/ List.length rest' < List.length rest.
Proof.
  induction fuel as [|f IH]; intros B rest ret out rest' HB H; [discriminate|].
  cbn [scan_batch_loop] in H.
  destruct rest as [|s0 rest0].
  { left. destruct B as [|B']; [lia|]. cbn in H. inversion H. split; reflexivity. }
  right.
  assert (Hlt : List.length (skipn B (s0 :: rest0)) < List.length (s0 :: rest0)).
  { rewrite skipn_length. cbn [List.length]. lia. }
  assert (Hrec : forall ret2, scan_batch_loop fbatch f B (skipn B (s0 :: rest0)) ret2 = Ok (out, rest') ->
                              List.length rest' < List.length (s0 :: rest0)).
  { intros ret2 H2. destruct (IH _ _ _ _ _ HB H2) as [[E _]|Hl]; [|lia].
    assert (rest' = []).
    { rewrite E in H2. destruct f; [discriminate|]. destruct B as [|B']; [lia|]. cbn in H2. inversion H2. reflexivity. }
    subst rest'. cbn [List.length]. lia. }
  destruct (somes (firstn B (s0 :: rest0))) as [|kv0 chunk'].
  - destruct (Nat.ltb _ B); [inversion H; subst; exact Hlt | exact (Hrec _ H)].
  - destruct (fbatch (kv0 :: chunk')) as [ms| | |]; cbn [bind] in H; try discriminate.
    destruct (select_matches (kv0 :: chunk') ms) as [sel| | |]; cbn [bind] in H; try discriminate.
    destruct (_ || _); [inversion H; subst; exact Hlt | exact (Hrec _ H)].
Qed.

Lemma drain_batch_fuel_enough_aux : forall fuel B rest, 1 <= B -> List.length rest < fuel ->
  drain_batch_fuel fbatch pbatch fuel B rest <> OutOfModel.
Proof.
  induction fuel as [|f IH]; intros B rest HB Hl; [lia|]. cbn [drain_batch_fuel].
  unfold proj_batch, scan_batch.
  pose proof (scan_loop_fuel (S (List.length rest)) B rest [] HB ltac:(lia)) as Hs.
  destruct (scan_batch_loop fbatch (S (List.length rest)) B rest []) as [[kvs rest']|x| |] eqn:Es;
    cbn [bind]; try discriminate; try contradiction.
  destruct kvs as [|kv kvs]; cbn [bind]; [discriminate|].
  pose proof (Npbatch (kv :: kvs)) as Hp.
  destruct (pbatch (kv :: kvs)) as [rows|x| |]; cbn [bind]; try discriminate; try contradiction.
  destruct rows as [|r rows]; [discriminate|].
  destruct (scan_loop_len _ _ _ _ _ _ HB Es) as [[_ E]|Hlen]; [discriminate E|].
  pose proof (IH B rest' HB ltac:(lia)) as Hd.
  destruct (drain_batch_fuel fbatch pbatch f B rest'); cbn [bind]; try discriminate. contradiction.
Qed.

Theorem drain_batch_fuel_enough : forall B rest, 1 <= B -> drain_batch fbatch pbatch B rest <> OutOfModel.
Proof. intros B rest HB. apply drain_batch_fuel_enough_aux; [exact HB | lia]. Qed.

End Plan.

(* ---------------------------------------------------------------- 2. the evaluator twins *)
Local Open Scope string_scope.

Section Stmt.
Variable fo : fops.
Variable re : bytes -> bytes -> res bool.
Hypothesis re_ok : forall p t, match re p t with Err x => x = EOther | Panic => False | _ => True end.

Notation value := (value fo).
Notation node_ok := (node_ok fo).
Notation node_okv := (node_okv fo).

(* a tree ready for row-at-a-time / for batch evaluation: the node conditions hold in the tree
   and in every definition carried by a reference *)
Definition tree_ok (e : expr) : Prop := node_ok e = true /\ defs_ok node_ok e = true.
Definition tree_okv (e : expr) : Prop := node_okv e = true /\ defs_ok node_okv e = true.

Lemma tree_okv_ok : forall e, tree_okv e -> tree_ok e.
Proof. intros e [H1 H2]. split; [exact (node_okv_ok fo _ H1) | exact (defs_okv_ok fo _ H2)]. Qed.

(* the data-dependent failures of a statement: of its WHERE clause and of its fields *)
Definition stmt_sites (wh : expr) (fields : option (list expr)) : list err :=
  sites2 wh ++ match fields with Some fs => flat_map sites2 fs | None => [] end.

Lemma filter_row_okerr : forall wh kv, tree_ok wh -> rtype wh = TBool ->
  okerr (fun x => In x (sites2 wh)) (filter_row fo re (fst kv) (snd kv) wh).
Proof.
  intros wh kv [Hn Hd] Ht.
  pose proof (filter_row_safe2 fo re (fst kv) (snd kv) wh Ht (eval_safe2 fo re re_ok _ _ wh Hn Hd)) as H.
  destruct (filter_row fo re (fst kv) (snd kv) wh); cbn [okerr]; auto.
Qed.

Lemma filter_batch_okcol : forall wh c, tree_okv wh -> rtype wh = TBool ->
  match filter_batch fo re true wh c with
  | Ok bs => List.length bs = List.length c
  | Err x => In x (sites2 wh)
  | Panic => False
  | OutOfModel => True
  end.
Proof.
  intros wh c [Hn Hd] Ht.
  exact (filter_batch_safe2 fo re wh c Ht (eval_batch_typed_safe fo re re_ok wh c Hn Hd)).
Qed.

(* processProjection: no field evaluates to a bare []Expression *)
Lemma project_row_okerr : forall fs kv, Forall tree_ok fs ->
  okerr (fun x => In x (flat_map sites2 fs)) (project_row fo re fs kv).
Proof.
  induction fs as [|f fs IH]; intros kv Hf; cbn [project_row flat_map]; [exact I|].
  inversion Hf as [|? ? [Hn Hd] Hf']; subst.
  pose proof (eval_safe2 fo re re_ok (fst kv) (snd kv) f Hn Hd) as D. unfold dyn_ok2, good in D.
  destruct (Eval.eval fo re (fst kv) (snd kv) f) as [x|e| |]; cbn [bind okerr];
    [ | apply in_or_app; left; exact D | contradiction | exact I].
  assert (Hne : forall n, x <> VExprs n) by (intros n ->; destruct (rtype f); discriminate D).
  specialize (IH kv Hf').
  destruct x; try (exfalso; eapply Hne; reflexivity);
    (apply okerr_bind; [eapply okerr_weaken; [|exact IH]; intros e He; apply in_or_app; right; exact He
                       | intros vs _; exact I]).
Qed.

Lemma project_cols_okcols : forall fs ch, Forall tree_okv fs ->
  match project_cols fo re fs ch with
  | Ok cols => Forall (fun col => List.length col = List.length ch) cols
  | Err x => In x (flat_map sites2 fs)
  | Panic => False
  | OutOfModel => True
  end.
Proof.
  induction fs as [|f fs IH]; intros ch Hf; cbn [project_cols flat_map]; [constructor|].
  inversion Hf as [|? ? [Hn Hd] Hf']; subst.
  pose proof (eval_batch_typed_safe fo re re_ok f ch Hn Hd) as D. unfold dyn_ok_vec in D.
  destruct (EvalVec.eval_batch fo re true f ch) as [col|e| |]; cbn [bind];
    [ | apply in_or_app; left; exact D | contradiction | exact I].
  specialize (IH ch Hf').
  destruct (project_cols fo re fs ch) as [cols|e| |]; cbn [bind];
    [ constructor; [exact (proj1 D) | exact IH] | apply in_or_app; right; exact IH | contradiction | exact I].
Qed.

Lemma transpose_total : forall (ch : list kvpair) cols,
  Forall (fun col : list value => List.length col = List.length ch) cols ->
  exists rows, transpose fo ch cols = Ok rows.
Proof.
  induction ch as [|kv ch IH]; intros cols Hl; cbn [transpose]; [eauto|].
  assert (Hh : exists firsts, all_ok (heads fo cols) = Ok firsts).
  { clear IH. induction Hl as [|col cols Hc _ IHc]; [exists []; reflexivity|].
    destruct IHc as [firsts Ef]. destruct col as [|x col]; [discriminate Hc|].
    exists (x :: firsts). unfold heads in *. cbn [map all_ok bind]. rewrite Ef. reflexivity. }
  destruct Hh as [firsts ->]. cbn [bind].
  assert (Ht : Forall (fun col : list value => List.length col = List.length ch) (tails fo cols)).
  { unfold tails. apply Forall_forall. intros c Hin. apply in_map_iff in Hin. destruct Hin as [col [<- Hc]].
    rewrite Forall_forall in Hl. specialize (Hl _ Hc). destruct col; [discriminate Hl|]. cbn in *. lia. }
  destruct (IH _ Ht) as [rows ->]. cbn [bind]. eauto.
Qed.

Lemma project_batch_okerr : forall fs ch, Forall tree_okv fs ->
  okerr (fun x => In x (flat_map sites2 fs)) (project_batch fo re fs ch).
Proof.
  intros fs ch Hf. unfold project_batch. pose proof (project_cols_okcols fs ch Hf) as H.
  destruct (project_cols fo re fs ch) as [cols|e| |]; cbn [bind okerr]; try assumption.
  destruct (transpose_total ch cols H) as [rows ->]. exact I.
Qed.

Definition fields_ready (P : expr -> Prop) (fields : option (list expr)) : Prop :=
  match fields with Some fs => Forall P fs | None => True end.

(* SELECT without ORDER BY / GROUP BY / LIMIT, row at a time: rows, or a data-dependent failure *)
Theorem select_row_safe : forall wh fields slots,
  tree_ok wh -> rtype wh = TBool -> fields_ready tree_ok fields ->
  okerr (fun x => In x (stmt_sites wh fields)) (select_row fo re wh fields slots).
Proof.
  intros wh fields slots Hw Ht Hf. unfold select_row. apply drain_row_okerr.
  - intros kv. eapply okerr_weaken; [|exact (filter_row_okerr wh kv Hw Ht)].
    intros e He. unfold stmt_sites. apply in_or_app. left. exact He.
  - intros kv. destruct fields as [fs|]; cbn [sel_prow].
    + eapply okerr_weaken; [|exact (project_row_okerr fs kv Hf)].
      intros e He. unfold stmt_sites. apply in_or_app. right. exact He.
    + exact I.
Qed.

(* ... and in batches of any size *)
Theorem select_batch_safe : forall B wh fields slots,
  tree_okv wh -> rtype wh = TBool -> fields_ready tree_okv fields ->
  okerr (fun x => In x (stmt_sites wh fields)) (select_batch fo re B wh fields slots).
Proof.
  intros B wh fields slots Hw Ht Hf. unfold select_batch. apply drain_batch_okerr.
  - intros c. pose proof (filter_batch_okcol wh c Hw Ht) as H.
    destruct (filter_batch fo re true wh c); try assumption.
    unfold stmt_sites. apply in_or_app. left. exact H.
  - intros c. destruct fields as [fs|]; cbn [sel_pbatch].
    + eapply okerr_weaken; [|exact (project_batch_okerr fs c Hf)].
      intros e He. unfold stmt_sites. apply in_or_app. right. exact He.
    + exact I.
Qed.

(* both modes in one statement *)
Theorem select_run_safe : forall wh fields slots,
  rtype wh = TBool ->
  (tree_ok wh -> fields_ready tree_ok fields ->
   okerr (fun x => In x (stmt_sites wh fields)) (select_row fo re wh fields slots)) /\
  (tree_okv wh -> fields_ready tree_okv fields -> forall B,
   okerr (fun x => In x (stmt_sites wh fields)) (select_batch fo re B wh fields slots)).
Proof.
  intros wh fields slots Ht. split.
  - intros Hw Hf. exact (select_row_safe wh fields slots Hw Ht Hf).
  - intros Hw Hf B. exact (select_batch_safe B wh fields slots Hw Ht Hf).
Qed.

(* ---------------------------------------------------------------- 3. what build_check
   establishes *)
Definition stmt_frag (s2 : stmt) : bool :=
  match s2 with
  | SSelect f2 w2 _ =>
      core2 w2 && in_kinds w2 && forallb (fun nf => core2 (snd nf) && in_kinds (snd nf)) f2
  | SDelete w2 => core2 w2 && in_kinds w2
  | _ => false
  end.

Definition stmt_defs (s2 : stmt) : bool :=
  match s2 with
  | SSelect f2 w2 _ => defs_ok node_okv w2 && forallb (fun nf => defs_ok node_okv (snd nf)) f2
  | SDelete w2 => defs_ok node_okv w2
  | _ => false
  end.

Lemma field_rel_names : forall all l l2, Forall2 (field_rel fo all) l l2 -> map fst l2 = map fst l.
Proof.
  intros all l l2 H. induction H as [|nf nf2 l l2 [Hn _] _ IH]; [reflexivity|]. cbn [map]. rewrite Hn, IH. reflexivity.
Qed.

Lemma field_rel_wt : forall all l l2, Forall2 (field_rel fo all) l l2 ->
  forall nf2, In nf2 l2 -> TypeSafetyProofs.wt fo (snd nf2) = true.
Proof.
  intros all l l2 H. induction H as [|nf nf2' l l2 [_ [Hck _]] _ IH]; intros nf2 Hin; [contradiction|].
  destruct Hin as [->|Hin]; [exact (check_wt fo _ _ _ Hck) | exact (IH _ Hin)].
Qed.

(* what build_check establishes at the nodes of the statement it returns *)
Lemma accepted_select_nodes : forall fields w order s2,
  build_check fo true (SSelect fields w order) = Ok s2 ->
  stmt_frag s2 = true -> stmt_params_static s2 = true ->
  exists f2 w1, s2 = SSelect f2 (rewrite_name (link fields) w1) order /\
                Forall2 (field_rel fo (link fields)) fields f2 /\
                check fo true (Cctx (link fields) false false) w = Ok w1 /\
                node_okv (rewrite_name (link fields) w1) = true /\
                rtype (rewrite_name (link fields) w1) = TBool /\
                Forall (fun nf2 => node_okv (snd nf2) = true) f2.
Proof.
  intros fields w order s2 H Hfr Hps.
  unfold build_check in H. inv_bind H as s1 Hs1 H. inv_bind H as u Hc H. inversion H; subst s2. clear H. destruct u.
  cbn [check_stmt] in Hs1. unfold check_select in Hs1. cbv zeta in Hs1.
  inv_bind Hs1 as u Hord Hs1. destruct u. inv_bind Hs1 as w1 Hw1 Hs1. inv_bind Hs1 as u Hb Hs1. destruct u.
  inv_bind Hs1 as f2 Hf2 Hs1. inversion Hs1; subst s1. clear Hs1.
  apply validate_fields_spec in Hf2.
  cbn [check_stmt_calls] in Hc. inv_bind Hc as u Hcw Hcf. destruct u. apply calls_fields_ok in Hcf.
  cbn [stmt_params_static] in Hps. apply andb_true_iff in Hps. destruct Hps as [Hpsf Hpsw].
  cbn [stmt_frag] in Hfr. apply andb_true_iff in Hfr. destruct Hfr as [Hfr Hff].
  apply andb_true_iff in Hfr. destruct Hfr as [Hcw2 Hkw2].
  apply where_bool_ok in Hb.
  exists f2, w1. split; [reflexivity|]. split; [exact Hf2|]. split; [exact Hw1|]. split.
  { apply node_okv_intro; try assumption.
    - change (link fields) with (c_names (Cctx (link fields) false false)). rewrite wt_rw. exact (check_wt fo _ _ _ Hw1).
    - exact (check_calls_counts _ _ Hcw). }
  split; [exact Hb|].
  rewrite forallb_forall in Hpsf, Hff. rewrite Forall_forall in Hcf.
  apply Forall_forall. intros nf2 Hin2.
  specialize (Hff _ Hin2). apply andb_true_iff in Hff. destruct Hff as [Hc2 Hk2].
  apply node_okv_intro; try assumption.
  - exact (field_rel_wt _ _ _ Hf2 _ Hin2).
  - exact (Hpsf _ Hin2).
  - exact (check_calls_counts _ _ (Hcf _ Hin2)).
Qed.

Lemma accepted_select_trees : forall fields w order s2,
  build_check fo true (SSelect fields w order) = Ok s2 ->
  stmt_frag s2 = true -> stmt_params_static s2 = true -> stmt_defs s2 = true ->
  exists f2 w2, s2 = SSelect f2 w2 order /\ map fst f2 = map fst fields /\
                tree_okv w2 /\ rtype w2 = TBool /\ Forall tree_okv (map snd f2).
Proof.
  intros fields w order s2 H Hfr Hps Hdf.
  destruct (accepted_select_nodes _ _ _ _ H Hfr Hps) as [f2 [w1 [-> [Hf2 [_ [Hnw [Hb Hnf]]]]]]].
  cbn [stmt_defs] in Hdf. apply andb_true_iff in Hdf. destruct Hdf as [Hdw Hdff].
  exists f2, (rewrite_name (link fields) w1). split; [reflexivity|].
  split; [exact (field_rel_names _ _ _ Hf2)|]. split; [split; assumption|]. split; [exact Hb|].
  rewrite forallb_forall in Hdff. rewrite Forall_forall in Hnf.
  apply Forall_forall. intros e Hin. apply in_map_iff in Hin. destruct Hin as [nf2 [<- Hin2]].
  split; [exact (Hnf _ Hin2) | exact (Hdff _ Hin2)].
Qed.

(* ---- the premise [stmt_defs] discharged for field definitions that use no field names: the
   WHERE clause (and ORDER BY) may use the field names, the definitions themselves are
   reference-free, and each is checked as a field of its own *)
Lemma flat_map_nil : forall {X Y} (f : X -> list Y) l, flat_map f l = [] -> Forall (fun x => f x = []) l.
Proof.
  induction l as [|x l IH]; intros H; [constructor|]. cbn [flat_map] in H.
  apply app_eq_nil in H. destruct H as [H1 H2]. constructor; [exact H1 | exact (IH H2)].
Qed.

(* no field access anywhere name resolution looks *)
Fixpoint acc_free (e : expr) : bool :=
  match e with
  | EBin _ _ l r => acc_free l && acc_free r
  | ENot _ r => acc_free r
  | ECall _ _ args => forallb acc_free args
  | EList _ items => forallb acc_free items
  | EAccess _ _ _ => false
  | _ => true
  end.

Lemma core2_acc_free : forall e, core2 e = true -> acc_free e = true.
Proof.
  intros e0.
  enough (Hq : (core2 e0 = true -> acc_free e0 = true) /\
               match e0 with EList _ items => forallb core2 items = true -> forallb acc_free items = true | _ => True end)
    by apply Hq.
  induction e0 using expr_induction; try (split; [reflexivity || (intros; reflexivity) | exact I]).
  - split; [|exact I]. destruct IHe0_1 as [IHl _]. destruct IHe0_2 as [IHr IHrx]. intros Hc.
    cbn [core2] in Hc. apply andb_true_iff in Hc. destruct Hc as [Hco Hcl]. cbn [acc_free]. rewrite (IHl Hcl).
    destruct o; try discriminate Hco; try (rewrite (IHr Hco); reflexivity);
      (destruct e0_2; try discriminate Hco; try (rewrite (IHr Hco); reflexivity);
       cbn [acc_free]; rewrite (IHrx Hco); reflexivity).
  - split; [|exact I]. destruct IHe0 as [IHr _]. intros Hc. cbn [core2] in Hc. cbn [acc_free]. exact (IHr Hc).
  - split; [|exact I]. intros Hc. cbn [core2] in Hc. apply andb_true_iff in Hc. destruct Hc as [_ Hca].
    cbn [acc_free]. clear IHe0. induction H as [|x l [Hx _] _ IH]; [reflexivity|].
    cbn [forallb] in *. apply andb_true_iff in Hca. destruct Hca as [H1 H2]. rewrite (Hx H1), (IH H2). reflexivity.
  - split; [intros Hc; discriminate Hc|]. intros Hc.
    induction H as [|x l [Hx _] _ IH]; [reflexivity|].
    cbn [forallb] in *. apply andb_true_iff in Hc. destruct Hc as [H1 H2]. rewrite (Hx H1), (IH H2). reflexivity.
  - split; [intros Hc; discriminate Hc | exact I].
Qed.

Lemma acc_free_rw : forall N e, acc_free (rewrite_name N e) = acc_free e.
Proof. intros N e. destruct e; try reflexivity. cbn. destruct (get_named N s); reflexivity. Qed.

Lemma acc_free_resolve : forall N e, acc_free (resolve N e) = acc_free e.
Proof.
  intros N e0. induction e0 using expr_induction; cbn [resolve acc_free]; try reflexivity.
  - rewrite !acc_free_rw, IHe0_1, IHe0_2. reflexivity.
  - rewrite acc_free_rw. exact IHe0.
  - clear IHe0. induction H as [|x l Hx _ IH]; [reflexivity|]. cbn [map forallb]. rewrite acc_free_rw, Hx, IH. reflexivity.
  - induction H as [|x l Hx _ IH]; [reflexivity|]. cbn [map forallb]. rewrite acc_free_rw, Hx, IH. reflexivity.
Qed.

Lemma resolve_plain : forall N e, acc_free e = true -> names_of e = [] -> resolve N e = e.
Proof.
  intros N e0. induction e0 using expr_induction; intros Ha Hn; cbn [names_of] in Hn; cbn [acc_free] in Ha;
    cbn [resolve]; try reflexivity.
  - apply app_eq_nil in Hn. destruct Hn as [H1 H2]. apply andb_true_iff in Ha. destruct Ha as [A1 A2].
    rewrite (IHe0_1 A1 H1), (IHe0_2 A2 H2), (rw_plain N _ H1), (rw_plain N _ H2). reflexivity.
  - rewrite (IHe0 Ha Hn), (rw_plain N _ Hn). reflexivity.
  - f_equal. apply flat_map_nil in Hn. clear IHe0.
    induction H as [|x l Hx _ IH]; [reflexivity|]. inversion Hn as [|? ? Hn1 Hn2]; subst. cbn [map].
    cbn [forallb] in Ha. apply andb_true_iff in Ha. destruct Ha as [A1 A2].
    rewrite (Hx A1 Hn1), (rw_plain N _ Hn1), (IH A2 Hn2). reflexivity.
  - f_equal. apply flat_map_nil in Hn.
    induction H as [|x l Hx _ IH]; [reflexivity|]. inversion Hn as [|? ? Hn1 Hn2]; subst. cbn [map].
    cbn [forallb] in Ha. apply andb_true_iff in Ha. destruct Ha as [A1 A2].
    rewrite (Hx A1 Hn1), (rw_plain N _ Hn1), (IH A2 Hn2). reflexivity.
  - discriminate Ha.
Qed.

Lemma defs_ok_plain : forall P e, names_of e = [] -> defs_ok P e = true.
Proof.
  intros P e0. induction e0 using expr_induction; intros Hn; cbn [names_of] in Hn; cbn [defs_ok]; try reflexivity.
  - apply app_eq_nil in Hn. destruct Hn as [H1 H2]. rewrite (IHe0_1 H1), (IHe0_2 H2). reflexivity.
  - exact (IHe0 Hn).
  - apply flat_map_nil in Hn. clear IHe0.
    induction H as [|x l Hx _ IH]; [reflexivity|]. inversion Hn as [|? ? Hn1 Hn2]; subst. cbn [forallb]. rewrite (Hx Hn1), (IH Hn2). reflexivity.
  - discriminate Hn.
  - apply flat_map_nil in Hn.
    induction H as [|x l Hx _ IH]; [reflexivity|]. inversion Hn as [|? ? Hn1 Hn2]; subst. cbn [forallb]. rewrite (Hx Hn1), (IH Hn2). reflexivity.
  - exact (IHe0_1 Hn).
Qed.

Definition plain_def (nf : string * expr) : Prop := names_of (snd nf) = [] /\ acc_free (snd nf) = true.

Lemma map_resolve_plain : forall N (l : list (string * expr)),
  Forall plain_def l -> map (fun nf => (fst nf, resolve N (snd nf))) l = l.
Proof.
  intros N l Hp. induction Hp as [|[n d] l [Hd Ha] _ IHl]; [reflexivity|].
  cbn [map fst snd] in *. rewrite (resolve_plain _ _ Ha Hd), IHl. reflexivity.
Qed.

Lemma link_n_plain : forall fields k, Forall plain_def fields -> link_n k fields = fields.
Proof.
  intros fields k Hp. induction k as [|k IH]; [reflexivity|]. cbn [link_n]. exact (map_resolve_plain _ _ Hp).
Qed.

(* the tree Check + name resolution leave behind: its references carry entries of the table *)
Lemma defs_ok_resolve : forall (P : expr -> bool) N e,
  (forall s d, get_named N s = Some d -> P d = true /\ defs_ok P d = true) ->
  no_refs e = true ->
  defs_ok P (resolve N e) = true /\ defs_ok P (rewrite_name N (resolve N e)) = true.
Proof.
  intros P N e0 HN. induction e0 using expr_induction; intros Hr; cbn [no_refs] in Hr; cbn [resolve].
  - apply andb_true_iff in Hr. destruct Hr as [H1 H2].
    destruct (IHe0_1 H1) as [_ Hl]. destruct (IHe0_2 H2) as [_ Hrr].
    cbn [rewrite_name defs_ok]. rewrite Hl, Hrr. split; reflexivity.
  - split; reflexivity.
  - split; reflexivity.
  - destruct (IHe0 Hr) as [_ H1]. cbn [rewrite_name defs_ok]. rewrite H1. split; reflexivity.
  - apply andb_true_iff in Hr. destruct Hr as [_ Hr]. clear IHe0.
    assert (Ha : forallb (defs_ok P) (map (fun a => rewrite_name N (resolve N a)) args) = true).
    { induction H as [|x l Hx _ IH]; [reflexivity|]. cbn [forallb] in Hr. apply andb_true_iff in Hr.
      destruct Hr as [Hr1 Hr2]. cbn [map forallb]. rewrite (proj2 (Hx Hr1)), (IH Hr2). reflexivity. }
    cbn [rewrite_name defs_ok]. rewrite Ha. split; reflexivity.
  - (* EName *)
    split; [reflexivity|]. cbn [rewrite_name]. destruct (get_named N s) as [d|] eqn:Eg; [|reflexivity].
    cbn [defs_ok]. destruct (HN _ _ Eg) as [H1 H2]. rewrite H1, H2. reflexivity.
  - discriminate Hr.
  - split; reflexivity.
  - split; reflexivity.
  - split; reflexivity.
  - assert (Ha : forallb (defs_ok P) (map (fun a => rewrite_name N (resolve N a)) l) = true).
    { induction H as [|x l Hx _ IH]; [reflexivity|]. cbn [forallb] in Hr. apply andb_true_iff in Hr.
      destruct Hr as [Hr1 Hr2]. cbn [map forallb]. rewrite (proj2 (Hx Hr1)), (IH Hr2). reflexivity. }
    cbn [rewrite_name defs_ok]. rewrite Ha. split; reflexivity.
  - apply andb_true_iff in Hr. destruct Hr as [H1 H2]. destruct (IHe0_1 H1) as [_ Hl].
    cbn [rewrite_name defs_ok]. rewrite Hl. split; reflexivity.
Qed.

Lemma checked_plain_defs : forall all l l2,
  Forall2 (field_rel fo all) l l2 -> Forall (fun nf2 => node_okv (snd nf2) = true) l2 ->
  Forall (fun nf => names_of (snd nf) = []) l -> Forall plain_def l.
Proof.
  intros all l l2 H. induction H as [|nf nf2 l l2 [_ [Hck _]] _ IH]; intros Hnf Hpl; [constructor|].
  inversion Hpl as [|? ? Hd Hpl']; subst. inversion Hnf as [|? ? Hn2 Hnf']; subst.
  constructor; [|exact (IH Hnf' Hpl')]. split; [exact Hd|].
  unfold TypeSafetyVecProofs.node_okv in Hn2. apply andb_true_iff in Hn2. destruct Hn2 as [Hn2 _].
  apply node_ok_split in Hn2. destruct Hn2 as [_ [Hc2 _]].
  rewrite (check_resolve fo _ _ _ Hck) in Hc2. rewrite <- (acc_free_resolve (c_names (Cctx all false false))).
  exact (core2_acc_free _ Hc2).
Qed.

Lemma checked_plain_same : forall all l l2,
  Forall2 (field_rel fo all) l l2 -> Forall plain_def l ->
  Forall2 (fun nf nf2 => snd nf2 = snd nf /\ names_of (snd nf) = []) l l2.
Proof.
  intros all l l2 H. induction H as [|nf nf2 l l2 [_ [Hck _]] _ IH]; intros Hpd; [constructor|].
  inversion Hpd as [|? ? [Hd Ha] Hpd']; subst. constructor; [|exact (IH Hpd')].
  split; [|exact Hd]. rewrite (check_resolve fo _ _ _ Hck). apply resolve_plain; assumption.
Qed.

Theorem plain_stmt_defs : forall fields w order s2,
  build_check fo true (SSelect fields w order) = Ok s2 ->
  fields_plain fields -> no_refs w = true ->
  stmt_frag s2 = true -> stmt_params_static s2 = true -> stmt_defs s2 = true.
Proof.
  intros fields w order s2 H Hpl Hnr Hfr Hps.
  destruct (accepted_select_nodes _ _ _ _ H Hfr Hps) as [f2 [w1 [-> [Hf2 [Hw1 [Hnw [Hb Hnf]]]]]]].
  (* every definition is name-free and without field access: resolution leaves it alone *)
  pose proof (checked_plain_defs _ _ _ Hf2 Hnf Hpl) as Hpd.
  pose proof (checked_plain_same _ _ _ Hf2 Hpd) as Hsame.
  unfold link in *. rewrite (link_n_plain _ _ Hpd) in *.
  cbn [stmt_defs]. apply andb_true_iff. split.
  - rewrite (check_resolve fo _ _ _ Hw1). cbn [c_names].
    apply (defs_ok_resolve node_okv fields w); [|exact Hnr].
    intros s d Hg. destruct (get_named_in _ _ _ Hg) as [n Hin].
    destruct (Forall2_in_l _ _ _ _ Hsame Hin) as [nf2 [Hin2 [Hs Hd]]]. cbn [snd] in Hs, Hd.
    rewrite Forall_forall in Hnf. split; [rewrite <- Hs; exact (Hnf _ Hin2) | exact (defs_ok_plain _ _ Hd)].
  - apply forallb_forall. intros nf2 Hin2.
    assert (Hx : exists nf, In nf fields /\ snd nf2 = snd nf /\ names_of (snd nf) = []).
    { clear - Hsame Hin2. induction Hsame as [|nf nf2' l l2 Hh _ IH]; [contradiction|].
      destruct Hin2 as [->|Hin2]; [exists nf; split; [left; reflexivity|exact Hh]|].
      destruct (IH Hin2) as [x [Hx1 Hx2]]. exists x. split; [right; exact Hx1|exact Hx2]. }
    destruct Hx as [nf [_ [Hs Hd]]]. rewrite Hs. exact (defs_ok_plain _ _ Hd).
Qed.

(* the projection of the plan: `select *` returns the pair, otherwise the checked fields *)
Definition sel_fields (star : bool) (f2 : list (string * expr)) : option (list expr) :=
  if star then None else Some (map snd f2).

(* An accepted SELECT (named fields or *, WHERE; the scan + filter + projection plan, i.e. no
   ORDER BY / GROUP BY / LIMIT node, no aggregate) drained over any stream of slots -- any store
   under any scan kind -- row at a time and in batches of any size B >= 1: rows, or one of the
   data-dependent failures of its WHERE clause and fields.  Never an operand-type error, never
   "WHERE result is not Boolean", never a panic. *)
Theorem accepted_select_safe : forall fields w order s2 (star : bool) slots,
  build_check fo true (SSelect fields w order) = Ok s2 ->
  stmt_frag s2 = true -> stmt_params_static s2 = true -> stmt_defs s2 = true ->
  match s2 with
  | SSelect f2 w2 _ =>
      okerr (fun x => In x (stmt_sites w2 (sel_fields star f2)))
            (select_row fo re w2 (sel_fields star f2) slots) /\
      forall B, 1 <= B ->
        okerr (fun x => In x (stmt_sites w2 (sel_fields star f2)))
              (select_batch fo re B w2 (sel_fields star f2) slots)
  | _ => False
  end.
Proof.
  intros fields w order s2 star slots H Hfr Hps Hdf.
  destruct (accepted_select_trees _ _ _ _ H Hfr Hps Hdf) as [f2 [w2 [-> [_ [Hw [Ht Hf]]]]]].
  split.
  - apply select_row_safe; [exact (tree_okv_ok _ Hw) | exact Ht |].
    destruct star; cbn [sel_fields fields_ready]; [exact I|].
    eapply Forall_impl; [|exact Hf]. exact tree_okv_ok.
  - intros B _. apply select_batch_safe; [exact Hw | exact Ht |].
    destruct star; cbn [sel_fields fields_ready]; [exact I | exact Hf].
Qed.

(* the fuel of the drains is enough: an OutOfModel outcome is the OutOfModel outcome of an
   evaluator call on some pair / chunk (a float or a case mapping outside the twins) *)
Theorem select_fuel_enough : forall wh fields slots,
  (forall kv, filter_row fo re (fst kv) (snd kv) wh <> OutOfModel) ->
  (forall kv, sel_prow fo re fields kv <> OutOfModel) ->
  (forall c, filter_batch fo re true wh c <> OutOfModel) ->
  (forall c, sel_pbatch fo re fields c <> OutOfModel) ->
  (forall c, match filter_batch fo re true wh c with Ok bs => List.length bs = List.length c | Panic => False | _ => True end) ->
  select_row fo re wh fields slots <> OutOfModel /\
  forall B, 1 <= B -> select_batch fo re B wh fields slots <> OutOfModel.
Proof.
  intros wh fields slots N1 N2 N3 N4 HL. split.
  - unfold select_row. apply drain_row_fuel_enough; assumption.
  - intros B HB. unfold select_batch.
    apply (drain_batch_fuel_enough kvpair (list value) (filter_batch fo re true wh) (sel_pbatch fo re fields)
             (fun _ => True)); assumption.
Qed.

(* DELETE: the scan filters with the WHERE clause in the same way *)
Theorem accepted_delete_filter_safe : forall w s2,
  build_check fo true (SDelete w) = Ok s2 ->
  stmt_frag s2 = true -> stmt_params_static s2 = true -> stmt_defs s2 = true ->
  match s2 with
  | SDelete w2 =>
      (forall kv, okerr (fun x => In x (sites2 w2)) (filter_row fo re (fst kv) (snd kv) w2)) /\
      (forall c, okerr (fun x => In x (sites2 w2)) (filter_batch fo re true w2 c))
  | _ => False
  end.
Proof.
  intros w s2 H Hfr Hps Hdf.
  unfold build_check in H. inv_bind H as s1 Hs1 H. inv_bind H as u Hc H. inversion H; subst s2. clear H. destruct u.
  cbn [check_stmt] in Hs1. inv_bind Hs1 as w2 Hw2 Hs1. inv_bind Hs1 as u Hb Hs1. destruct u. inversion Hs1; subst s1.
  cbn [check_stmt_calls] in Hc. cbn [stmt_params_static] in Hps. cbn [stmt_frag] in Hfr. cbn [stmt_defs] in Hdf.
  apply andb_true_iff in Hfr. destruct Hfr as [Hc2 Hk2]. apply where_bool_ok in Hb.
  assert (Hw : tree_okv w2).
  { split; [|exact Hdf]. apply node_okv_intro; try assumption.
    - exact (check_wt fo _ _ _ Hw2).
    - exact (check_calls_counts _ _ Hc). }
  split.
  - intros kv. exact (filter_row_okerr w2 kv (tree_okv_ok _ Hw) Hb).
  - intros c. pose proof (filter_batch_okcol w2 c Hw Hb) as Hf.
    destruct (filter_batch fo re true w2 c); cbn [okerr]; auto.
Qed.

End Stmt.
