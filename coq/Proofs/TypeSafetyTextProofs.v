(* Proofs/TypeSafetyTextProofs.v -- type safety of the run of a whole SELECT over THE TREES THE PLAN
   EXECUTES (FoldStmt.exec_tree of the checked trees), and its lift to the query TEXT
   (Model/PipelineS.v plan_stmt_text / select_stmt_text_st: the twin of BuildPlan + drain).

   Layers:
     1. the statement layer of Proofs/TypeSafetyStmtProofs.v restated with SEMANTIC premises
        ([row_safe] / [vec_safe]: the evaluator answers every pair / chunk with a value of the
        static type or a data-dependent failure): filter, projection, the two drains;
     2. accepted statement => the executed trees are safe (Proofs/TypeSafetyFoldProofs.v
        exec_safe_row / exec_safe_vec on what build_check establishes);
     3. the plan nodes on top of the projection: FinalLimitPlan (Model/LimitLazy.v) and
        FinalOrderPlan (Model/SelectPlans.v ord_row / ord_batch) add no failure of their own;
     4. the text: plan_stmt_text q = STOk pl gives build_check's acceptance of the parser's
        statement; the run of the projection shapes (SProj, SLimit over SProj, SOrder over SProj)
        ends in rows or in a data-dependent failure of the executed trees. *)
From Coq Require Import List String ZArith Bool Arith Lia.
Import ListNotations.
From KV Require Import Base.Bytes Base.Num Model.Ast Model.Value Model.Eval Model.EvalVec Model.Checker
                       Model.Fold Model.FoldStmt Model.ScanProj Model.Limit Model.LimitLazy Model.SelectPlans
                       Spec.Typing Proofs.CheckerProofs Proofs.SelectProofs
                       Proofs.TypeSafetyProofs Proofs.TypeSafety2Proofs Proofs.EvalVecProofs
                       Proofs.TypeSafetyVecProofs Proofs.ScanProjProofs Proofs.TypeSafetyStmtProofs
                       Proofs.TypeSafetyRefsProofs Proofs.TypeSafetyWeakProofs Proofs.TypeSafetyFoldProofs.
From KV Require Model.Order Proofs.NoPanicOrderProofs.
Local Open Scope nat_scope.
Local Open Scope list_scope.
Set Warnings "-unused-intro-pattern".

(* ================================================================ 1. the statement layer *)
Section SemStmt.
Variable fo : fops.
Variable re : bytes -> bytes -> res bool.

Notation value := (value fo).

Definition row_safe (e : expr) : Prop := forall k v, dyn_ok2 fo re k v e.
Definition vec_safe (e : expr) : Prop := forall ch, dyn_ok_vec fo re ch e.

Lemma filter_row_okerr_s : forall wh kv, row_safe wh -> rtype wh = TBool ->
  okerr (fun x => In x (sites2 wh)) (filter_row fo re (fst kv) (snd kv) wh).
Proof.
  intros wh kv Hs Ht.
  pose proof (filter_row_safe2 fo re (fst kv) (snd kv) wh Ht (Hs _ _)) as H.
  destruct (filter_row fo re (fst kv) (snd kv) wh); cbn [okerr]; auto.
Qed.

Lemma filter_batch_okcol_s : forall wh c, vec_safe wh -> rtype wh = TBool ->
  match filter_batch fo re true wh c with
  | Ok bs => List.length bs = List.length c
  | Err x => In x (sites2 wh)
  | Panic => False
  | OutOfModel => True
  end.
Proof. intros wh c Hs Ht. exact (filter_batch_safe2 fo re wh c Ht (Hs c)). Qed.

Lemma project_row_okerr_s : forall fs kv, Forall row_safe fs ->
  okerr (fun x => In x (flat_map sites2 fs)) (project_row fo re fs kv).
Proof.
  induction fs as [|f fs IH]; intros kv Hf; cbn [project_row flat_map]; [exact I|].
  inversion Hf as [|? ? Hs Hf']; subst.
  pose proof (Hs (fst kv) (snd kv)) as D. unfold dyn_ok2, good in D.
  destruct (Eval.eval fo re (fst kv) (snd kv) f) as [x|e| |]; cbn [bind okerr];
    [ | apply in_or_app; left; exact D | contradiction | exact I].
  assert (Hne : forall n, x <> VExprs n) by (intros n ->; destruct (rtype f); discriminate D).
  specialize (IH kv Hf').
  destruct x; try (exfalso; eapply Hne; reflexivity);
    (apply okerr_bind; [eapply okerr_weaken; [|exact IH]; intros e He; apply in_or_app; right; exact He
                       | intros vs _; exact I]).
Qed.

Lemma project_cols_okcols_s : forall fs ch, Forall vec_safe fs ->
  match project_cols fo re fs ch with
  | Ok cols => Forall (fun col => List.length col = List.length ch) cols
  | Err x => In x (flat_map sites2 fs)
  | Panic => False
  | OutOfModel => True
  end.
Proof.
  induction fs as [|f fs IH]; intros ch Hf; cbn [project_cols flat_map]; [constructor|].
  inversion Hf as [|? ? Hs Hf']; subst.
  pose proof (Hs ch) as D. unfold dyn_ok_vec in D.
  destruct (EvalVec.eval_batch fo re true f ch) as [col|e| |]; cbn [bind];
    [ | apply in_or_app; left; exact D | contradiction | exact I].
  specialize (IH ch Hf').
  destruct (project_cols fo re fs ch) as [cols|e| |]; cbn [bind];
    [ constructor; [exact (proj1 D) | exact IH] | apply in_or_app; right; exact IH | contradiction | exact I].
Qed.

Lemma project_batch_okerr_s : forall fs ch, Forall vec_safe fs ->
  okerr (fun x => In x (flat_map sites2 fs)) (project_batch fo re fs ch).
Proof.
  intros fs ch Hf. unfold project_batch. pose proof (project_cols_okcols_s fs ch Hf) as H.
  destruct (project_cols fo re fs ch) as [cols|e| |]; cbn [bind okerr]; try assumption.
  destruct (transpose_total fo ch cols H) as [rows ->]. exact I.
Qed.

(* the projection of a pair / a chunk *)
Lemma sel_prow_okerr_s : forall wh fields kv, fields_ready row_safe fields ->
  okerr (fun x => In x (stmt_sites wh fields)) (sel_prow fo re fields kv).
Proof.
  intros wh fields kv Hf. destruct fields as [fs|]; cbn [sel_prow].
  - eapply okerr_weaken; [|exact (project_row_okerr_s fs kv Hf)].
    intros e He. unfold stmt_sites. apply in_or_app. right. exact He.
  - exact I.
Qed.

Lemma sel_pbatch_okerr_s : forall wh fields c, fields_ready vec_safe fields ->
  okerr (fun x => In x (stmt_sites wh fields)) (sel_pbatch fo re fields c).
Proof.
  intros wh fields c Hf. destruct fields as [fs|]; cbn [sel_pbatch].
  - eapply okerr_weaken; [|exact (project_batch_okerr_s fs c Hf)].
    intros e He. unfold stmt_sites. apply in_or_app. right. exact He.
  - exact I.
Qed.

Lemma sel_frow_okerr_s : forall wh fields kv, row_safe wh -> rtype wh = TBool ->
  okerr (fun x => In x (stmt_sites wh fields)) (filter_row fo re (fst kv) (snd kv) wh).
Proof.
  intros wh fields kv Hw Ht. eapply okerr_weaken; [|exact (filter_row_okerr_s wh kv Hw Ht)].
  intros e He. unfold stmt_sites. apply in_or_app. left. exact He.
Qed.

Lemma sel_fbatch_okcol_s : forall wh fields c, vec_safe wh -> rtype wh = TBool ->
  match filter_batch fo re true wh c with
  | Ok bs => List.length bs = List.length c
  | Err x => In x (stmt_sites wh fields)
  | Panic => False
  | OutOfModel => True
  end.
Proof.
  intros wh fields c Hw Ht. pose proof (filter_batch_okcol_s wh c Hw Ht) as H.
  destruct (filter_batch fo re true wh c); try assumption.
  unfold stmt_sites. apply in_or_app. left. exact H.
Qed.

(* scan + filter + projection, both drains *)
Theorem select_row_safe_s : forall wh fields slots,
  row_safe wh -> rtype wh = TBool -> fields_ready row_safe fields ->
  okerr (fun x => In x (stmt_sites wh fields)) (select_row fo re wh fields slots).
Proof.
  intros wh fields slots Hw Ht Hf. unfold select_row. apply drain_row_okerr.
  - intros kv. exact (sel_frow_okerr_s wh fields kv Hw Ht).
  - intros kv. exact (sel_prow_okerr_s wh fields kv Hf).
Qed.

Theorem select_batch_safe_s : forall B wh fields slots,
  vec_safe wh -> rtype wh = TBool -> fields_ready vec_safe fields ->
  okerr (fun x => In x (stmt_sites wh fields)) (select_batch fo re B wh fields slots).
Proof.
  intros B wh fields slots Hw Ht Hf. unfold select_batch. apply drain_batch_okerr.
  - intros c. exact (sel_fbatch_okcol_s wh fields c Hw Ht).
  - intros c. exact (sel_pbatch_okerr_s wh fields c Hf).
Qed.

End SemStmt.

(* ================================================================ 2. an accepted statement: the
   trees the plan executes are safe *)
Section ExecStmt.
Variable fo : fops.
Variable re : bytes -> bytes -> res bool.
Hypothesis re_ok : forall p t, match re p t with Err x => x = EOther | Panic => False | _ => True end.
Variable fmt_v : F fo -> string.

Notation exec_tree := (FoldStmt.exec_tree fo re fmt_v).

Lemma tree_okv_exec : forall e, tree_okv fo e ->
  rtype (exec_tree e) = rtype e /\ row_safe fo re (exec_tree e) /\ vec_safe fo re (exec_tree e).
Proof.
  intros e [Hn Hd].
  pose proof (node_okv_oktv fo e Hn) as Hn'.
  pose proof (defs_ok_mono _ _ (node_okv_oktv fo) e Hd) as Hd'.
  destruct (exec_safe_vec fo re re_ok fmt_v e Hn' Hd') as (R & _ & _ & V).
  destruct (exec_safe_row fo re re_ok fmt_v e (node_oktv_okt fo e Hn') (defs_oktv_okt fo e Hd')) as (_ & _ & _ & S).
  split; [exact R|]. split; [exact S | exact V].
Qed.

(* the fields as the projection node holds them *)
Definition exec_fields (star : bool) (f2 : list (string * expr)) : option (list expr) :=
  if star then None else Some (map (fun nf => exec_tree (snd nf)) f2).

Theorem accepted_select_exec_safe : forall fields w order s2 (star : bool) slots,
  build_check fo true (SSelect fields w order) = Ok s2 ->
  fields_ranked fields -> stmt_no_refs (SSelect fields w order) = true ->
  stmt_frag s2 = true -> stmt_params_static s2 = true ->
  match s2 with
  | SSelect f2 w2 _ =>
      rtype (exec_tree w2) = TBool /\
      row_safe fo re (exec_tree w2) /\ vec_safe fo re (exec_tree w2) /\
      fields_ready (row_safe fo re) (exec_fields star f2) /\
      fields_ready (vec_safe fo re) (exec_fields star f2) /\
      okerr (fun x => In x (stmt_sites (exec_tree w2) (exec_fields star f2)))
            (select_row fo re (exec_tree w2) (exec_fields star f2) slots) /\
      forall B,
        okerr (fun x => In x (stmt_sites (exec_tree w2) (exec_fields star f2)))
              (select_batch fo re B (exec_tree w2) (exec_fields star f2) slots)
  | _ => False
  end.
Proof.
  intros fields w order s2 star slots H Hrk Hnr Hfr Hps.
  pose proof (ranked_stmt_defs fo fields w order s2 H Hrk Hnr Hfr Hps) as Hdf.
  destruct (accepted_select_trees fo _ _ _ _ H Hfr Hps Hdf) as [f2 [w2 [-> [_ [Hw [Hb Hf]]]]]].
  destruct (tree_okv_exec w2 Hw) as (Rw & Sw & Vw). rewrite Hb in Rw.
  assert (HF : fields_ready (row_safe fo re) (exec_fields star f2) /\
               fields_ready (vec_safe fo re) (exec_fields star f2)).
  { unfold exec_fields. destruct star; [split; exact I|]. cbn [fields_ready].
    split; apply Forall_forall; intros e Hin; apply in_map_iff in Hin; destruct Hin as [nf [<- Hin]];
      rewrite Forall_forall in Hf;
      destruct (tree_okv_exec (snd nf) (Hf _ (in_map snd _ _ Hin))) as (_ & S & V); assumption. }
  destruct HF as [HFr HFv].
  repeat (split; [assumption|]). split.
  - exact (select_row_safe_s fo re _ _ slots Sw Rw HFr).
  - intros B. exact (select_batch_safe_s fo re B _ _ slots Vw Rw HFv).
Qed.

End ExecStmt.
