(* Proofs/TypeSafetyTextProofs.v -- type safety of the run of a whole SELECT over THE TREES THE PLAN
   EXECUTES (FoldStmt.exec_tree of the checked trees), and its lift to the query TEXT
   (Model/PipelineS.v plan_stmt_text / select_stmt_text_st: the twin of BuildPlan + drain).

   Layers:
     1. the statement layer of Proofs/TypeSafetyStmtProofs.v restated with SEMANTIC premises
        ([row_safe] / [vec_safe]: the evaluator answers every pair / chunk with a value of the
        static type or a data-dependent failure): filter, projection, the two drains;
     2. accepted statement => the executed trees are safe (Proofs/TypeSafetyFoldProofs.v
        exec_safe_row / exec_safe_vec on what build_check establishes);
     3. the plan nodes on top of the projection: FinalLimitPlan (Model/LimitLazy.v) and
        FinalOrderPlan (Model/SelectPlans.v ord_row / ord_batch) add no failure of their own;
     4. the text: plan_stmt_text q = STOk pl gives build_check's acceptance of the parser's
        statement; the run of the projection shapes (SProj, SLimit over SProj, SOrder over SProj)
        ends in rows or in a data-dependent failure of the executed trees. *)
From Coq Require Import List String ZArith Bool Arith Lia.
Import ListNotations.
From KV Require Import Base.Bytes Base.Num Model.Ast Model.Value Model.Eval Model.EvalVec Model.Checker
                       Model.Fold Model.FoldStmt Model.ScanProj Model.Limit Model.LimitLazy Model.SelectPlans
                       Spec.Typing Proofs.CheckerProofs Proofs.SelectProofs
                       Proofs.TypeSafetyProofs Proofs.TypeSafety2Proofs Proofs.EvalVecProofs
                       Proofs.TypeSafetyVecProofs Proofs.ScanProjProofs Proofs.TypeSafetyStmtProofs
                       Proofs.TypeSafetyRefsProofs Proofs.TypeSafetyWeakProofs Proofs.TypeSafetyFoldProofs.
From KV Require Model.Order Proofs.NoPanicOrderProofs.
Local Open Scope nat_scope.
Local Open Scope list_scope.
Set Warnings "-unused-intro-pattern".

(* ================================================================ 1. the statement layer *)
Section SemStmt.
Variable fo : fops.
Variable re : bytes -> bytes -> res bool.

Notation value := (value fo).

Definition row_safe (e : expr) : Prop := forall k v, dyn_ok2 fo re k v e.
Definition vec_safe (e : expr) : Prop := forall ch, dyn_ok_vec fo re ch e.

Lemma filter_row_okerr_s : forall wh kv, row_safe wh -> rtype wh = TBool ->
  okerr (fun x => In x (sites2 wh)) (filter_row fo re (fst kv) (snd kv) wh).
Proof.
  intros wh kv Hs Ht.
  pose proof (filter_row_safe2 fo re (fst kv) (snd kv) wh Ht (Hs _ _)) as H.
  destruct (filter_row fo re (fst kv) (snd kv) wh); cbn [okerr]; auto.
Qed.

Lemma filter_batch_okcol_s : forall wh c, vec_safe wh -> rtype wh = TBool ->
  match filter_batch fo re true wh c with
  | Ok bs => List.length bs = List.length c
  | Err x => In x (sites2 wh)
  | Panic => False
  | OutOfModel => True
  end.
Proof. intros wh c Hs Ht. exact (filter_batch_safe2 fo re wh c Ht (Hs c)). Qed.

Lemma project_row_okerr_s : forall fs kv, Forall row_safe fs ->
  okerr (fun x => In x (flat_map sites2 fs)) (project_row fo re fs kv).
Proof.
  induction fs as [|f fs IH]; intros kv Hf; cbn [project_row flat_map]; [exact I|].
  inversion Hf as [|? ? Hs Hf']; subst.
  pose proof (Hs (fst kv) (snd kv)) as D. unfold dyn_ok2, good in D.
  destruct (Eval.eval fo re (fst kv) (snd kv) f) as [x|e| |]; cbn [bind okerr];
    [ | apply in_or_app; left; exact D | contradiction | exact I].
  assert (Hne : forall n, x <> VExprs n) by (intros n ->; destruct (rtype f); discriminate D).
  specialize (IH kv Hf').
  destruct x; try (exfalso; eapply Hne; reflexivity);
    (apply okerr_bind; [eapply okerr_weaken; [|exact IH]; intros e He; apply in_or_app; right; exact He
                       | intros vs _; exact I]).
Qed.

Lemma project_cols_okcols_s : forall fs ch, Forall vec_safe fs ->
  match project_cols fo re fs ch with
  | Ok cols => Forall (fun col => List.length col = List.length ch) cols
  | Err x => In x (flat_map sites2 fs)
  | Panic => False
  | OutOfModel => True
  end.
Proof.
  induction fs as [|f fs IH]; intros ch Hf; cbn [project_cols flat_map]; [constructor|].
  inversion Hf as [|? ? Hs Hf']; subst.
  pose proof (Hs ch) as D. unfold dyn_ok_vec in D.
  destruct (EvalVec.eval_batch fo re true f ch) as [col|e| |]; cbn [bind];
    [ | apply in_or_app; left; exact D | contradiction | exact I].
  specialize (IH ch Hf').
  destruct (project_cols fo re fs ch) as [cols|e| |]; cbn [bind];
    [ constructor; [exact (proj1 D) | exact IH] | apply in_or_app; right; exact IH | contradiction | exact I].
Qed.

Lemma project_batch_okerr_s : forall fs ch, Forall vec_safe fs ->
  okerr (fun x => In x (flat_map sites2 fs)) (project_batch fo re fs ch).
Proof.
  intros fs ch Hf. unfold project_batch. pose proof (project_cols_okcols_s fs ch Hf) as H.
  destruct (project_cols fo re fs ch) as [cols|e| |]; cbn [bind okerr]; try assumption.
  destruct (transpose_total fo ch cols H) as [rows ->]. exact I.
Qed.

(* the projection of a pair / a chunk *)
Lemma sel_prow_okerr_s : forall wh fields kv, fields_ready row_safe fields ->
  okerr (fun x => In x (stmt_sites wh fields)) (sel_prow fo re fields kv).
Proof.
  intros wh fields kv Hf. destruct fields as [fs|]; cbn [sel_prow].
  - eapply okerr_weaken; [|exact (project_row_okerr_s fs kv Hf)].
    intros e He. unfold stmt_sites. apply in_or_app. right. exact He.
  - exact I.
Qed.

Lemma sel_pbatch_okerr_s : forall wh fields c, fields_ready vec_safe fields ->
  okerr (fun x => In x (stmt_sites wh fields)) (sel_pbatch fo re fields c).
Proof.
  intros wh fields c Hf. destruct fields as [fs|]; cbn [sel_pbatch].
  - eapply okerr_weaken; [|exact (project_batch_okerr_s fs c Hf)].
    intros e He. unfold stmt_sites. apply in_or_app. right. exact He.
  - exact I.
Qed.

Lemma sel_frow_okerr_s : forall wh fields kv, row_safe wh -> rtype wh = TBool ->
  okerr (fun x => In x (stmt_sites wh fields)) (filter_row fo re (fst kv) (snd kv) wh).
Proof.
  intros wh fields kv Hw Ht. eapply okerr_weaken; [|exact (filter_row_okerr_s wh kv Hw Ht)].
  intros e He. unfold stmt_sites. apply in_or_app. left. exact He.
Qed.

Lemma sel_fbatch_okcol_s : forall wh fields c, vec_safe wh -> rtype wh = TBool ->
  match filter_batch fo re true wh c with
  | Ok bs => List.length bs = List.length c
  | Err x => In x (stmt_sites wh fields)
  | Panic => False
  | OutOfModel => True
  end.
Proof.
  intros wh fields c Hw Ht. pose proof (filter_batch_okcol_s wh c Hw Ht) as H.
  destruct (filter_batch fo re true wh c); try assumption.
  unfold stmt_sites. apply in_or_app. left. exact H.
Qed.

(* scan + filter + projection, both drains *)
Theorem select_row_safe_s : forall wh fields slots,
  row_safe wh -> rtype wh = TBool -> fields_ready row_safe fields ->
  okerr (fun x => In x (stmt_sites wh fields)) (select_row fo re wh fields slots).
Proof.
  intros wh fields slots Hw Ht Hf. unfold select_row. apply drain_row_okerr.
  - intros kv. exact (sel_frow_okerr_s wh fields kv Hw Ht).
  - intros kv. exact (sel_prow_okerr_s wh fields kv Hf).
Qed.

Theorem select_batch_safe_s : forall B wh fields slots,
  vec_safe wh -> rtype wh = TBool -> fields_ready vec_safe fields ->
  okerr (fun x => In x (stmt_sites wh fields)) (select_batch fo re B wh fields slots).
Proof.
  intros B wh fields slots Hw Ht Hf. unfold select_batch. apply drain_batch_okerr.
  - intros c. exact (sel_fbatch_okcol_s wh fields c Hw Ht).
  - intros c. exact (sel_pbatch_okerr_s wh fields c Hf).
Qed.

End SemStmt.

(* ================================================================ 2. an accepted statement: the
   trees the plan executes are safe *)
Section ExecStmt.
Variable fo : fops.
Variable re : bytes -> bytes -> res bool.
Hypothesis re_ok : forall p t, match re p t with Err x => x = EOther | Panic => False | _ => True end.
Variable fmt_v : F fo -> string.

Notation exec_tree := (FoldStmt.exec_tree fo re fmt_v).

Lemma tree_okv_exec : forall e, tree_okv fo e ->
  rtype (exec_tree e) = rtype e /\ row_safe fo re (exec_tree e) /\ vec_safe fo re (exec_tree e).
Proof.
  intros e [Hn Hd].
  pose proof (node_okv_oktv fo e Hn) as Hn'.
  pose proof (defs_ok_mono _ _ (node_okv_oktv fo) e Hd) as Hd'.
  destruct (exec_safe_vec fo re re_ok fmt_v e Hn' Hd') as (R & _ & _ & V).
  destruct (exec_safe_row fo re re_ok fmt_v e (node_oktv_okt fo e Hn') (defs_oktv_okt fo e Hd')) as (_ & _ & _ & S).
  split; [exact R|]. split; [exact S | exact V].
Qed.

(* the fields as the projection node holds them *)
Definition exec_fields (star : bool) (f2 : list (string * expr)) : option (list expr) :=
  if star then None else Some (map (fun nf => exec_tree (snd nf)) f2).

Theorem accepted_select_exec_safe : forall fields w order s2 (star : bool) slots,
  build_check fo true (SSelect fields w order) = Ok s2 ->
  fields_ranked fields -> stmt_no_refs (SSelect fields w order) = true ->
  stmt_frag s2 = true -> stmt_params_static s2 = true ->
  match s2 with
  | SSelect f2 w2 _ =>
      rtype (exec_tree w2) = TBool /\
      row_safe fo re (exec_tree w2) /\ vec_safe fo re (exec_tree w2) /\
      fields_ready (row_safe fo re) (exec_fields star f2) /\
      fields_ready (vec_safe fo re) (exec_fields star f2) /\
      okerr (fun x => In x (stmt_sites (exec_tree w2) (exec_fields star f2)))
            (select_row fo re (exec_tree w2) (exec_fields star f2) slots) /\
      forall B,
        okerr (fun x => In x (stmt_sites (exec_tree w2) (exec_fields star f2)))
              (select_batch fo re B (exec_tree w2) (exec_fields star f2) slots)
  | _ => False
  end.
Proof.
  intros fields w order s2 star slots H Hrk Hnr Hfr Hps.
  pose proof (ranked_stmt_defs fo fields w order s2 H Hrk Hnr Hfr Hps) as Hdf.
  destruct (accepted_select_trees fo _ _ _ _ H Hfr Hps Hdf) as [f2 [w2 [-> [_ [Hw [Hb Hf]]]]]].
  destruct (tree_okv_exec w2 Hw) as (Rw & Sw & Vw). rewrite Hb in Rw.
  assert (HF : fields_ready (row_safe fo re) (exec_fields star f2) /\
               fields_ready (vec_safe fo re) (exec_fields star f2)).
  { unfold exec_fields. destruct star; [split; exact I|]. cbn [fields_ready].
    split; apply Forall_forall; intros e Hin; apply in_map_iff in Hin; destruct Hin as [nf [<- Hin]];
      rewrite Forall_forall in Hf;
      destruct (tree_okv_exec (snd nf) (Hf _ (in_map snd _ _ Hin))) as (_ & S & V); assumption. }
  destruct HF as [HFr HFv].
  repeat (split; [assumption|]). split.
  - exact (select_row_safe_s fo re _ _ slots Sw Rw HFr).
  - intros B. exact (select_batch_safe_s fo re B _ _ slots Vw Rw HFv).
Qed.

End ExecStmt.

(* ================================================================ 3. the plan nodes on top *)

(* FinalLimitPlan over any child (Model/LimitLazy.v): no failure of its own *)
Section LimitNode.
Variable S A : Type.
Variable cnext : S -> res (option A * S).
Variable cbatch : S -> res (list A * S).
Variable E : err -> Prop.
Hypothesis Hnext : forall s, okerr E (cnext s).
Hypothesis Hbatch : forall s, okerr E (cbatch s).

Lemma lskip_okerr : forall n s, okerr E (lskip cnext n s).
Proof.
  induction n as [|n IH]; intros s; cbn [lskip]; [exact I|].
  apply okerr_bind; [apply Hnext|]. intros [[row|] s'] _; [|exact I].
  apply okerr_bind; [apply IH|]. intros [[k e] s''] _. exact I.
Qed.

Lemma lnext_okerr : forall start count st s, okerr E (lnext cnext start count st s).
Proof.
  intros start count st s. unfold lnext.
  apply okerr_bind; [apply lskip_okerr|]. intros [[k ended] s1] _.
  destruct ended; [exact I|]. destruct (count <=? Limit.current st); [exact I|].
  apply okerr_bind; [apply Hnext|]. intros [[row|] s2] _; exact I.
Qed.

Lemma ldrain_row_fuel_okerr : forall fuel start count st s,
  okerr E (ldrain_row_fuel cnext fuel start count st s).
Proof.
  induction fuel as [|f IH]; intros start count st s; cbn [ldrain_row_fuel]; [exact I|].
  apply okerr_bind; [apply lnext_okerr|]. intros [[[row|] st'] s'] _; [|exact I].
  apply okerr_bind; [apply IH|]. intros out _. exact I.
Qed.

Lemma ldrain_row_okerr : forall start count s, okerr E (ldrain_row cnext start count s).
Proof. intros. apply ldrain_row_fuel_okerr. Qed.

Lemma lskip_batch_okerr : forall fuel start sk s, okerr E (lskip_batch cbatch fuel start sk s).
Proof.
  induction fuel as [|f IH]; intros start sk s; cbn [lskip_batch];
    (destruct (sk <? start); [|exact I]); [exact I|].
  apply okerr_bind; [apply Hbatch|]. intros [b s'] _.
  destruct (List.length b =? 0); [exact I|]. destruct (List.length b <=? start - sk); [apply IH | exact I].
Qed.

Lemma lfill_okerr : forall fuel B count cur ret cnt s, okerr E (lfill cbatch fuel B count cur ret cnt s).
Proof.
  induction fuel as [|f IH]; intros B count cur ret cnt s; cbn [lfill]; [exact I|].
  apply okerr_bind; [apply Hbatch|]. intros [b s'] _.
  destruct (List.length b =? 0); [exact I|].
  destruct (Limit.take_fill count cur b ret cnt) as [[[ret' cur'] cnt'] fin].
  destruct fin; [exact I|]. destruct (B <=? cnt'); [exact I | apply IH].
Qed.

Lemma lbatch_okerr : forall B start count st s, okerr E (lbatch cbatch B start count st s).
Proof.
  intros B start count st s. unfold lbatch.
  apply okerr_bind; [apply lskip_batch_okerr|]. intros [[[rows|] sk] s1] _; [|exact I].
  destruct (Limit.take_left count (Limit.current st) rows [] 0) as [[ret cur] cnt].
  destruct (count <=? cur); [exact I|].
  apply okerr_bind; [apply lfill_okerr|]. intros [[ret' cur'] s2] _. exact I.
Qed.

Lemma ldrain_batch_fuel_okerr : forall fuel B start count st s,
  okerr E (ldrain_batch_fuel cbatch fuel B start count st s).
Proof.
  induction fuel as [|f IH]; intros B start count st s; cbn [ldrain_batch_fuel]; [exact I|].
  apply okerr_bind; [apply lbatch_okerr|]. intros [[out st'] s'] _.
  destruct out; [exact I|]. apply okerr_bind; [apply IH|]. intros outs _. exact I.
Qed.

End LimitNode.

(* ProjectionPlan.Next / .Batch over the scan: one step *)
Section ProjStep.
Variable P R : Type.
Variable frow : P -> res bool.
Variable fbatch : list P -> res (list bool).
Variable prow : P -> res R.
Variable pbatch : list P -> res (list R).
Variable E : err -> Prop.
Hypothesis Hfrow : forall kv, okerr E (frow kv).
Hypothesis Hprow : forall kv, okerr E (prow kv).
Hypothesis Hfbatch : forall c, match fbatch c with
                               | Ok bs => List.length bs = List.length c
                               | Err x => E x
                               | Panic => False
                               | OutOfModel => True
                               end.
Hypothesis Hpbatch : forall c, okerr E (pbatch c).

Lemma scan_next_okerr : forall rest, okerr E (ScanProj.scan_next frow rest).
Proof.
  induction rest as [|[kv|] rest IH]; cbn [ScanProj.scan_next]; [exact I | | exact IH].
  apply okerr_bind; [apply Hfrow|]. intros ok _. destruct ok; [exact I | exact IH].
Qed.

Lemma proj_next_okerr : forall rest, okerr E (ScanProj.proj_next frow prow rest).
Proof.
  intros rest. unfold ScanProj.proj_next. apply okerr_bind; [apply scan_next_okerr|].
  intros [[kv|] rest'] _; [|exact I]. apply okerr_bind; [apply Hprow|]. intros row _. exact I.
Qed.

Lemma proj_batch_okerr : forall B rest, okerr E (ScanProj.proj_batch fbatch pbatch B rest).
Proof.
  intros B rest. unfold ScanProj.proj_batch, ScanProj.scan_batch.
  apply okerr_bind; [apply scan_loop_okerr; exact Hfbatch|]. intros [kvs rest'] _.
  destruct kvs; [exact I|]. apply okerr_bind; [apply Hpbatch|]. intros rows _. exact I.
Qed.

(* no batch handed out by the drain is empty *)
Lemma drain_batch_fuel_nonempty : forall fuel B rest outs,
  ScanProj.drain_batch_fuel fbatch pbatch fuel B rest = Ok outs -> Forall (fun b => b <> []) outs.
Proof.
  induction fuel as [|f IH]; intros B rest outs H; cbn [ScanProj.drain_batch_fuel] in H; [discriminate|].
  destruct (ScanProj.proj_batch fbatch pbatch B rest) as [[rows rest']|x| |]; cbn [bind] in H; try discriminate.
  destruct rows as [|r rows]; [inversion H; constructor|].
  destruct (ScanProj.drain_batch_fuel fbatch pbatch f B rest') as [outs'|x| |] eqn:Ed; cbn [bind] in H; try discriminate.
  inversion H; subst. constructor; [discriminate | exact (IH _ _ _ Ed)].
Qed.

End ProjStep.

(* FinalOrderPlan over a child that hands out no empty batch: no failure of its own (the heap
   is never popped empty: Proofs/NoPanicOrderProofs.v) *)
Section OrderNodeOk.
Variable C : Type.
Variable crows : C -> res (list Order.row).
Variable cbats : C -> res (list (list Order.row)).
Variable pi pf : bytes -> option Z.
Variable ords : list Order.ofield.
Variable E : err -> Prop.

Lemma ord_row_okerr : forall c, okerr E (crows c) -> okerr E (ord_row C crows pi pf ords c).
Proof.
  intros c Hc. unfold ord_row. apply okerr_bind; [exact Hc|]. intros rows _.
  pose proof (NoPanicOrderProofs.order_drain_row_total pi pf ords rows) as Ht.
  destruct (Order.drain_row pi pf ords rows); [exact I | contradiction].
Qed.

Lemma ord_batch_okerr : forall B c, okerr E (cbats c) ->
  (forall bs, cbats c = Ok bs -> Forall (fun b : list Order.row => b <> []) bs) ->
  okerr E (ord_batch C cbats pi pf ords B c).
Proof.
  intros B c Hc Hne. unfold ord_batch. apply okerr_bind; [exact Hc|]. intros bs Eb.
  pose proof (NoPanicOrderProofs.order_drain_batch_total pi pf ords B bs (Hne bs Eb)) as Ht.
  destruct (Order.drain_batch pi pf ords B bs); [exact I | contradiction].
Qed.

End OrderNodeOk.

(* ================================================================ 4. the plan shapes over the
   projection, and the text *)
From KV Require Import Model.Pipeline Model.PipelineW Model.PipelineS Model.StmtParser Model.ParseCheck Proofs.PipelineSProofs.

Section Shapes.
Variable fo : fops.
Variable re : bytes -> bytes -> res bool.
Variable ag : aggops fo.
Variable pi pf : bytes -> option Z.

Notation shape_row := (select_shape_row fo re ag pi pf).
Notation shape_batch := (select_shape_batch fo re ag pi pf).

(* the final plans over a ProjectionPlan covered here *)
Definition proj_shape (sh : shape) : Prop :=
  match sh with
  | SProj | SLimit _ _ SProj | SOrder _ SProj => True
  | _ => False
  end.

(* FinalOrderPlan.Init finds every ORDER BY name among the field names *)
Definition orders_resolve (c : cstmt fo) (sh : shape) : Prop :=
  match sh with
  | SOrder os _ =>
      Order.init_orders os (SelectPlans.s_names (F fo) (q_stmt fo c)) (SelectPlans.s_types (F fo) (q_stmt fo c)) <> None
  | _ => True
  end.

Definition esites (c : cstmt fo) : err -> Prop :=
  fun x => In x (stmt_sites (q_where fo c) (q_fields fo c)).

Lemma c_prow_okerr : forall c kv, fields_ready (row_safe fo re) (q_fields fo c) ->
  okerr (esites c) (c_prow fo re ag (q_fields fo c) kv).
Proof.
  intros c kv Hf. unfold c_prow. apply okerr_bind; [exact (sel_prow_okerr_s fo re _ _ kv Hf)|].
  intros r _. exact I.
Qed.

Lemma c_pbatch_okerr : forall c ch, fields_ready (vec_safe fo re) (q_fields fo c) ->
  okerr (esites c) (c_pbatch fo re ag (q_fields fo c) ch).
Proof.
  intros c ch Hf. unfold c_pbatch. apply okerr_bind; [exact (sel_pbatch_okerr_s fo re _ _ ch Hf)|].
  intros r _. exact I.
Qed.

Theorem shape_row_safe : forall c sh sl,
  row_safe fo re (q_where fo c) -> rtype (q_where fo c) = TBool ->
  fields_ready (row_safe fo re) (q_fields fo c) ->
  proj_shape sh -> orders_resolve c sh ->
  okerr (esites c) (shape_row c sh sl).
Proof.
  intros c sh sl Hw Ht Hf Hsh Hor.
  assert (Hfrow : forall kv, okerr (esites c) (sel_frow fo re (q_where fo c) kv))
    by (intros kv; exact (sel_frow_okerr_s fo re _ _ kv Hw Ht)).
  assert (Hprow : forall kv, okerr (esites c) (c_prow fo re ag (q_fields fo c) kv))
    by (intros kv; apply c_prow_okerr; exact Hf).
  assert (Hrows : forall sl', okerr (esites c)
            (ScanProj.drain_row (sel_frow fo re (q_where fo c)) (c_prow fo re ag (q_fields fo c)) sl'))
    by (intros sl'; apply drain_row_okerr; assumption).
  unfold select_shape_row.
  destruct sh as [| |os ch|st n ch]; try contradiction.
  - (* SProj *) cbn [run_shape_row]. unfold proj_rows. apply Hrows.
  - (* SOrder os SProj *)
    destruct ch; try contradiction. cbn [run_shape_row orders_resolve] in *. unfold with_ords.
    destruct (Order.init_orders os _ _) as [ords|]; [|contradiction].
    apply ord_row_okerr. unfold proj_rows. apply Hrows.
  - (* SLimit st n SProj *)
    destruct ch; try contradiction. cbn [run_shape_row].
    apply ldrain_row_okerr. intros s. apply proj_next_okerr; assumption.
Qed.

Theorem shape_batch_safe : forall B c sh sl,
  vec_safe fo re (q_where fo c) -> rtype (q_where fo c) = TBool ->
  fields_ready (vec_safe fo re) (q_fields fo c) ->
  proj_shape sh -> orders_resolve c sh ->
  okerr (esites c) (shape_batch B c sh sl).
Proof.
  intros B c sh sl Hw Ht Hf Hsh Hor.
  assert (Hfb : forall ch, match filter_batch fo re true (q_where fo c) ch with
                           | Ok bs => List.length bs = List.length ch
                           | Err x => esites c x
                           | Panic => False
                           | OutOfModel => True
                           end)
    by (intros ch; exact (sel_fbatch_okcol_s fo re _ _ ch Hw Ht)).
  assert (Hpb : forall ch, okerr (esites c) (c_pbatch fo re ag (q_fields fo c) ch))
    by (intros ch; apply c_pbatch_okerr; exact Hf).
  assert (Hbats : forall sl', okerr (esites c)
            (ScanProj.drain_batch (filter_batch fo re true (q_where fo c)) (c_pbatch fo re ag (q_fields fo c)) B sl'))
    by (intros sl'; apply drain_batch_okerr; assumption).
  unfold select_shape_batch.
  destruct sh as [| |os ch|st n ch]; try contradiction.
  - cbn [run_shape_batch]. unfold proj_bats. apply okerr_bind; [apply Hbats|]. intros outs _. exact I.
  - destruct ch; try contradiction. cbn [run_shape_batch orders_resolve] in *. unfold with_ords.
    destruct (Order.init_orders os _ _) as [ords|]; [|contradiction].
    apply okerr_bind; [|intros outs _; exact I].
    apply ord_batch_okerr; [unfold proj_bats; apply Hbats|].
    intros bs Eb. unfold proj_bats, ScanProj.drain_batch in Eb. exact (drain_batch_fuel_nonempty _ _ _ _ _ _ _ _ Eb).
  - destruct ch; try contradiction. cbn [run_shape_batch].
    apply okerr_bind; [|intros outs _; exact I].
    apply ldrain_batch_fuel_okerr. intros s. apply proj_batch_okerr; assumption.
Qed.

End Shapes.

Section TextSafe.
Variable fo : fops.
Variable re : bytes -> bytes -> res bool.
Hypothesis re_ok : forall p t, match re p t with Err x => x = EOther | Panic => False | _ => True end.
Variable fmt_v : F fo -> string.
Variable ag : aggops fo.
Variable pi pf : bytes -> option Z.

(* the statement Parser.Parse hands to its checks, and what they return *)
Definition parsed_stmt (x : select_t) : Checker.stmt :=
  SSelect (combine (StmtParser.s_names x) (s_fields x)) (s_where x) (order_items (StmtParser.s_order x)).
Definition checked_stmt (pl : splanned fo) : Checker.stmt :=
  SSelect (sp_fields fo pl) (sp_where fo pl) (order_items (StmtParser.s_order (sp_select fo pl))).

(* the front end of the text pipeline accepts = build_check accepts the parser's statement *)
Lemma front_s_build_check : forall q x fields w,
  front_s fo q = STOk (x, fields, w) ->
  build_check fo true (parsed_stmt x) = Ok (SSelect fields w (order_items (StmtParser.s_order x))).
Proof.
  intros q x fields w. unfold PipelineS.front_s.
  destruct (pc_oom fo q (Lexer.lex q)); [discriminate|].
  destruct (head_kind (Lexer.lex q)); try discriminate.
  destruct (parse_real fo (Lexer.lex q)) as [s|z| |]; try discriminate.
  destruct s as [x0| | |]; try discriminate.
  unfold to_check_s.
  destruct (negb (Nat.eqb (List.length (StmtParser.s_names x0)) (List.length (s_fields x0)))); [discriminate|].
  intros H. apply stbind_ok in H. destruct H as (c2 & E1 & H). apply of_front_ok in E1.
  apply stbind_ok in H. destruct H as (u & E2 & H). apply of_front_ok in E2.
  destruct c2 as [fields2 w2 order2| | |]; try discriminate. injection H as <- <- <-.
  pose proof (check_stmt_select_order fo _ _ _ _ E1) as (f' & w' & E). injection E as _ _ <-.
  unfold build_check, parsed_stmt. rewrite E1. cbn [bind]. rewrite E2. destruct u. reflexivity.
Qed.

(* accepted_text_type_safe, projection shapes.  For every query text the text pipeline plans
   ([plan_stmt_text] = NewOptimizer(q).BuildPlan accepted), whose final plan is a ProjectionPlan,
   a FinalLimitPlan over it or a FinalOrderPlan over it, every store, both iteration modes, any
   batch size: the drain ends in rows or in a data-dependent failure of the trees the plan
   executes (the folded WHERE tree and fields) -- never an operand-type error, never a panic.
   What stays premise is named in the statement. *)
Theorem accepted_text_safe : forall q pl,
  plan_stmt_text fo re fmt_v q = STOk pl ->
  is_agg fo pl = false ->                                            (* no aggregate / GROUP BY *)
  fields_ranked (combine (StmtParser.s_names (sp_select fo pl)) (s_fields (sp_select fo pl))) ->
  stmt_no_refs (parsed_stmt (sp_select fo pl)) = true ->
  stmt_frag (checked_stmt pl) = true -> stmt_params_static (checked_stmt pl) = true ->
  proj_shape (sp_shape fo pl) -> orders_resolve fo (sp_q fo pl) (sp_shape fo pl) ->
  forall d m, okerr (esites fo (sp_q fo pl)) (drain_planned fo re ag pi pf pl d m).
Proof.
  intros q pl Ep Hag Hrk Hnr Hfr Hps Hsh Hor d m.
  destruct (plan_stmt_text_inv fo re fmt_v q pl Ep) as (Ef & Ew & _ & Eq & _).
  cbv zeta in Ef, Ew, Eq. specialize (Eq Hag).
  pose proof (front_s_build_check q _ _ _ Ef) as Hb.
  pose proof (accepted_select_exec_safe fo re re_ok fmt_v _ _ _ _ (s_all (sp_select fo pl)) [] Hb Hrk Hnr Hfr Hps)
    as (Rw & Sw & Vw & Fr & Fv & _).
  assert (Eqf : q_fields fo (sp_q fo pl) = exec_fields fo re fmt_v (s_all (sp_select fo pl)) (sp_fields fo pl)).
  { rewrite Eq. unfold exec_fields, PipelineS.exec_of. reflexivity. }
  unfold PipelineS.exec_of in Ew.
  unfold drain_planned, PipelineS.run_mode. destruct m as [|B].
  - apply shape_row_safe; try assumption; rewrite ?Ew, ?Eqf; assumption.
  - apply shape_batch_safe; try assumption; rewrite ?Ew, ?Eqf; assumption.
Qed.

(* the same on the outcome of the text pipeline itself *)
Theorem accepted_text_safe_st : forall q pl,
  plan_stmt_text fo re fmt_v q = STOk pl ->
  is_agg fo pl = false ->
  fields_ranked (combine (StmtParser.s_names (sp_select fo pl)) (s_fields (sp_select fo pl))) ->
  stmt_no_refs (parsed_stmt (sp_select fo pl)) = true ->
  stmt_frag (checked_stmt pl) = true -> stmt_params_static (checked_stmt pl) = true ->
  proj_shape (sp_shape fo pl) -> orders_resolve fo (sp_q fo pl) (sp_shape fo pl) ->
  forall d m,
  match select_stmt_text_st fo re fmt_v ag pi pf q d m with
  | STRunErr e => esites fo (sp_q fo pl) e
  | STOk _ | STOom => True
  | _ => False
  end.
Proof.
  intros q pl Ep Hag Hrk Hnr Hfr Hps Hsh Hor d m.
  pose proof (accepted_text_safe q pl Ep Hag Hrk Hnr Hfr Hps Hsh Hor d m) as H.
  unfold select_stmt_text_st. rewrite Ep. cbn [stbind].
  destruct (drain_planned fo re ag pi pf pl d m); cbn [of_drain okerr] in *; auto.
Qed.

End TextSafe.
