(* Proofs/TypeSafetyWeakProofs.v -- the two type-soundness inductions (row evaluator:
   Proofs/TypeSafety2Proofs.v eval_safe2; batch evaluator: Proofs/TypeSafetyVecProofs.v
   eval_batch_typed_safe) RE-RUN UNDER A WEAKER NODE PREDICATE, [wtt]: the operator tests of
   Check at every node EXCEPT the test "a literal divisor is not zero" (checkWithMath:
   rval.Int == 0 / rval.Float == 0.0).

   Why: the constant folder (Model/Fold.v) runs between Check and execution and the plans
   evaluate the folded trees.  Folding keeps every TYPE fact of the checker, but not that one
   syntactic test: `x / (1 - 1)` is accepted, folds to `x / 0`, which Check would reject.  The
   soundness proofs never needed the test (a zero divisor is the data-dependent failure
   "division by zero" whether it is written as a literal or computed), so the same inductions
   go through with [op_check_t] = op_check with the division tested as a multiplication.

   The body of this file is the text of the two inductions (the part of the two files that
   depends on the node predicate), with node_ok / node_okv read as the weak predicates
   [node_okt] / [node_oktv]; nothing else is changed.  [wt_wtt]: what Check establishes implies
   the weak predicate, so the theorems here extend the original ones. *)
From Coq Require Import List String ZArith Bool Arith Lia.
Import ListNotations.
From KV Require Import Base.Bytes Base.Num Model.Ast Model.Value Model.Eval Model.EvalVec Model.Checker
                       Spec.Typing Proofs.AstInd Proofs.CheckerProofs Proofs.TypeSafetyProofs Proofs.TypeSafety2Proofs
                       Proofs.EvalVecProofs Proofs.TypeSafetyVecProofs.
Open Scope string_scope.
Set Warnings "-unused-intro-pattern".

Section WeakPred.
Variable fo : fops.

(* op_check without the literal-zero-divisor test: checkWithMath's type test is the same for
   every arithmetic operator but + *)
Definition op_check_t (p : nat) (o : op) (l r : expr) : res unit :=
  match o with
  | ODiv => check_math fo OMul l r
  | _ => CheckerProofs.op_check fo p o l r
  end.

Fixpoint wtt (e : expr) : bool :=
  match e with
  | EBin p o l r =>
      wtt l && wtt r && match op_check_t p o l r with Ok _ => true | _ => false end
  | ENot _ r => wtt r && ty_eqb (rtype r) TBool
  | ECall _ _ args => forallb wtt args
  | EList _ items =>
      forallb wtt items &&
      match items with
      | [] => false
      | x :: rest => match first_mistyped (rtype x) rest with None => true | Some _ => false end
      end
  | EAccess _ l _ => wtt l
  | _ => true
  end.

Definition node_okt (e : expr) : bool := wtt e && core2 e && params_static e && counts_ok e.
Definition node_oktv (e : expr) : bool := node_okt e && in_kinds e.

Lemma op_check_weaken : forall p o l r,
  CheckerProofs.op_check fo p o l r = Ok tt -> op_check_t p o l r = Ok tt.
Proof.
  intros p o l r H. destruct o; try exact H.
  cbn [op_check_t]. cbn [CheckerProofs.op_check] in H.
  apply check_math_spec in H; [|reflexivity]. apply check_math_spec; [reflexivity|].
  destruct H as [[[Ho _]|H] _]; [discriminate Ho|]. split; [right; exact H | intros Hd; discriminate Hd].
Qed.

Lemma wt_wtt : forall e, TypeSafetyProofs.wt fo e = true -> wtt e = true.
Proof.
  intros e0. induction e0 using expr_induction; intros Hw; cbn [TypeSafetyProofs.wt wtt] in *; try reflexivity.
  - apply andb_true_iff in Hw. destruct Hw as [Hw Hop]. apply andb_true_iff in Hw. destruct Hw as [Hl Hr].
    rewrite (IHe0_1 Hl), (IHe0_2 Hr). cbn [andb].
    destruct (CheckerProofs.op_check fo p o e0_1 e0_2) as [u| | |] eqn:E; try discriminate Hop. destruct u.
    rewrite (op_check_weaken _ _ _ _ E). reflexivity.
  - apply andb_true_iff in Hw. destruct Hw as [Hr Hb]. rewrite (IHe0 Hr), Hb. reflexivity.
  - clear IHe0. induction H as [|x l Hx _ IH]; [reflexivity|]. cbn [forallb] in *.
    apply andb_true_iff in Hw. destruct Hw as [H1 H2]. rewrite (Hx H1), (IH H2). reflexivity.
  - apply andb_true_iff in Hw. destruct Hw as [Hi Hm]. rewrite Hm, andb_true_r.
    clear Hm. induction H as [|x l Hx _ IH]; [reflexivity|]. cbn [forallb] in *.
    apply andb_true_iff in Hi. destruct Hi as [H1 H2]. rewrite (Hx H1), (IH H2). reflexivity.
  - auto.
Qed.

Lemma node_ok_okt : forall e, node_ok fo e = true -> node_okt e = true.
Proof.
  intros e H. apply node_ok_split in H. destruct H as [H1 [H2 [H3 H4]]].
  unfold node_okt. rewrite (wt_wtt _ H1), H2, H3, H4. reflexivity.
Qed.

Lemma node_okv_oktv : forall e, node_okv fo e = true -> node_oktv e = true.
Proof.
  intros e H. unfold node_okv in H. apply andb_true_iff in H. destruct H as [H1 H2].
  unfold node_oktv. rewrite (node_ok_okt _ H1), H2. reflexivity.
Qed.
End WeakPred.

(* ================================================================================================
   the row evaluator (text of Proofs/TypeSafety2Proofs.v, "the induction")
   ================================================================================================ *)
Module W2.
Section TS2W.
Variable fo : fops.
Variable re : bytes -> bytes -> res bool.
Hypothesis re_ok : forall p t, match re p t with Err x => x = EOther | Panic => False | _ => True end.
Variables k v : bytes.

Notation node_ok := (node_okt fo).
Notation wt := (wtt fo).
Notation dyn_ok2 := (TypeSafety2Proofs.dyn_ok2 fo re).
Notation dyn2_arith := (TypeSafety2Proofs.dyn2_arith fo re k v).
Notation dyn2_call := (TypeSafety2Proofs.dyn2_call fo re k v).

(* ---------------------------------------------------------------- the induction *)
Definition safe2_at (e : expr) : Prop :=
  node_ok e = true -> defs_ok node_ok e = true -> dyn_ok2 k v e.

Lemma node_ok_split : forall e, node_ok e = true ->
  wt e = true /\ core2 e = true /\ params_static e = true /\ counts_ok e = true.
Proof.
  intros e H. unfold node_ok in H. apply andb_true_iff in H. destruct H as [H H4].
  apply andb_true_iff in H. destruct H as [H H3]. apply andb_true_iff in H. destruct H as [H1 H2]. auto.
Qed.

Lemma node_ok_intro : forall e,
  wt e = true -> core2 e = true -> params_static e = true -> counts_ok e = true -> node_ok e = true.
Proof. intros e H1 H2 H3 H4. unfold node_ok. rewrite H1, H2, H3, H4. reflexivity. Qed.

Lemma safe2_items : forall items, Forall safe2_at items ->
  forallb wt items = true -> forallb core2 items = true -> forallb params_static items = true ->
  forallb counts_ok items = true -> forallb (defs_ok node_ok) items = true ->
  Forall (dyn_ok2 k v) items.
Proof.
  induction 1 as [|x l Hx _ IH]; intros H1 H2 H3 H4 H5; [constructor|].
  cbn [forallb] in *.
  apply andb_true_iff in H1, H2, H3, H4, H5.
  destruct H1 as [H1 H1'], H2 as [H2 H2'], H3 as [H3 H3'], H4 as [H4 H4'], H5 as [H5 H5'].
  constructor; [apply Hx; [apply node_ok_intro; assumption | assumption] | apply IH; assumption].
Qed.

Lemma eval_safe2 : forall e, safe2_at e.
Proof.
  intros e0.
  enough (Hq : safe2_at e0 /\ match e0 with EList _ items => Forall safe2_at items | _ => True end) by apply Hq.
  induction e0 using expr_induction.
  - (* EBin *)
    split; [|exact I]. destruct IHe0_1 as [IHl _]. destruct IHe0_2 as [IHr IHrx].
    intros Hn Hdf. apply node_ok_split in Hn. destruct Hn as [Hw [Hc [Hps Hcn]]].
    cbn [wtt] in Hw. apply andb_true_iff in Hw. destruct Hw as [Hw Hop].
    apply andb_true_iff in Hw. destruct Hw as [Hwl Hwr].
    destruct (op_check_t fo p o e0_1 e0_2) as [u| | |] eqn:Eop; try discriminate Hop. destruct u. clear Hop.
    cbn [core2] in Hc. apply andb_true_iff in Hc. destruct Hc as [Hco Hcl].
    cbn [params_static] in Hps. apply andb_true_iff in Hps. destruct Hps as [Hpl Hpr].
    cbn [counts_ok] in Hcn. apply andb_true_iff in Hcn. destruct Hcn as [Hnl Hnr].
    cbn [defs_ok] in Hdf. apply andb_true_iff in Hdf. destruct Hdf as [Hdl Hdr].
    pose proof (IHl (node_ok_intro _ Hwl Hcl Hpl Hnl) Hdl) as Dl.
    assert (HDr : core2 e0_2 = true -> dyn_ok2 k v e0_2)
      by (intros Hcr; exact (IHr (node_ok_intro _ Hwr Hcr Hpr Hnr) Hdr)).
    destruct o; cbn [op_check_t CheckerProofs.op_check] in Eop; try discriminate Eop; try discriminate Hco.
    + (* & *) apply check_andor_spec in Eop. destruct Eop as [Hl Hrt]. apply dyn2_andor; auto.
    + apply check_andor_spec in Eop. destruct Eop as [Hl Hrt]. apply dyn2_andor; auto.
    + (* = *) apply check_compares_spec in Eop; [|reflexivity]. destruct Eop as [_ [Ht Hcc]]. cbn [cmp_cond] in Hcc.
      apply dyn2_eq; auto.
    + apply check_compares_spec in Eop; [|reflexivity]. destruct Eop as [_ [Ht Hcc]]. cbn [cmp_cond] in Hcc.
      apply dyn2_eq; auto.
    + (* ^= *) apply check_compares_spec in Eop; [|reflexivity]. destruct Eop as [_ [Ht Hcc]]. cbn [cmp_cond] in Hcc.
      apply ty_eqb_eq in Hcc. apply dyn2_prefix; auto; congruence.
    + (* ~= *) apply check_compares_spec in Eop; [|reflexivity]. destruct Eop as [_ [Ht Hcc]]. cbn [cmp_cond] in Hcc.
      apply ty_eqb_eq in Hcc. apply dyn2_regexp; auto; congruence.
    + (* + *) apply check_math_spec in Eop; [|reflexivity].
      destruct Eop as [[[_ [Hl Hrt]]|[Hl Hrt]] _].
      * apply dyn2_concat; auto.
      * exact (dyn2_arith p OAdd e0_1 e0_2 (or_introl eq_refl) Hl Hrt Dl (HDr Hco)).
    + apply check_math_spec in Eop; [|reflexivity].
      destruct Eop as [[[Ho _]|[Hl Hrt]] _]; [discriminate Ho|].
      exact (dyn2_arith p OSub e0_1 e0_2 (or_intror (or_introl eq_refl)) Hl Hrt Dl (HDr Hco)).
    + apply check_math_spec in Eop; [|reflexivity].
      destruct Eop as [[[Ho _]|[Hl Hrt]] _]; [discriminate Ho|].
      exact (dyn2_arith p OMul e0_1 e0_2 (or_intror (or_intror (or_introl eq_refl))) Hl Hrt Dl (HDr Hco)).
    + apply check_math_spec in Eop; [|reflexivity].
      destruct Eop as [[[Ho _]|[Hl Hrt]] _]; [discriminate Ho|].
      exact (dyn2_arith p ODiv e0_1 e0_2 (or_intror (or_intror (or_intror eq_refl))) Hl Hrt Dl (HDr Hco)).
    + (* > *) apply check_compares_spec in Eop; [|reflexivity]. destruct Eop as [_ [Ht Hcc]]. cbn [cmp_cond] in Hcc.
      apply dyn2_cmp; auto.
    + apply check_compares_spec in Eop; [|reflexivity]. destruct Eop as [_ [Ht Hcc]]. cbn [cmp_cond] in Hcc.
      apply dyn2_cmp; auto 6.
    + apply check_compares_spec in Eop; [|reflexivity]. destruct Eop as [_ [Ht Hcc]]. cbn [cmp_cond] in Hcc.
      apply dyn2_cmp; auto 6.
    + apply check_compares_spec in Eop; [|reflexivity]. destruct Eop as [_ [Ht Hcc]]. cbn [cmp_cond] in Hcc.
      apply dyn2_cmp; auto 6.
    + (* in *)
      apply check_in_spec in Eop. destruct Eop as [Hs Hr].
      destruct e0_2; try discriminate Hco; try contradiction.
      * (* a function call *) apply dyn2_in_fn; auto.
      * (* a field reference *) apply dyn2_in_fn; auto.
      * (* an explicit list *)
        apply first_mistyped_none in Hr.
        cbn [wtt] in Hwr. apply andb_true_iff in Hwr. destruct Hwr as [Hwi _].
        cbn [params_static] in Hpr. cbn [counts_ok] in Hnr. cbn [defs_ok] in Hdr.
        apply dyn2_in_list; auto. exact (safe2_items _ IHrx Hwi Hco Hpr Hnr Hdr).
    + (* between *) unfold check_between in Eop.
      destruct e0_2; try discriminate Eop. destruct l as [|lo [|hi [|]]]; try discriminate Eop.
      destruct (is_strnum_ty (rtype e0_1)) eqn:Hs; cbn [negb] in Eop; [|discriminate].
      destruct (ty_eqb (rtype lo) (rtype e0_1) && ty_eqb (rtype hi) (rtype e0_1)) eqn:Eb; [|discriminate].
      apply andb_true_iff in Eb. destruct Eb as [Elo Ehi]. apply ty_eqb_eq in Elo, Ehi.
      cbn [wtt] in Hwr. apply andb_true_iff in Hwr. destruct Hwr as [Hwi _].
      cbn [params_static] in Hpr. cbn [counts_ok] in Hnr. cbn [defs_ok] in Hdr.
      pose proof (safe2_items _ IHrx Hwi Hco Hpr Hnr Hdr) as Hd.
      inversion Hd as [|? ? Dlo Hd']; subst. inversion Hd' as [|? ? Dhi _]; subst.
      apply dyn2_between; auto.
    + (* and *) apply check_andor_spec in Eop. destruct Eop as [Hl Hrt]. apply dyn2_andor; auto.
    + apply check_andor_spec in Eop. destruct Eop as [Hl Hrt]. apply dyn2_andor; auto 6.
  - (* EField *)
    split; [|exact I]. intros _ _. unfold dyn_ok2. destruct f; reflexivity.
  - split; [|exact I]. intros _ _. reflexivity.
  - (* ENot *)
    split; [|exact I]. destruct IHe0 as [IHr _]. intros Hn Hdf.
    apply node_ok_split in Hn. destruct Hn as [Hw [Hc [Hps Hcn]]].
    cbn [wtt] in Hw. apply andb_true_iff in Hw. destruct Hw as [Hwr Hb]. apply ty_eqb_eq in Hb.
    cbn [core2] in Hc. cbn [params_static] in Hps. cbn [counts_ok] in Hcn. cbn [defs_ok] in Hdf.
    apply dyn2_not; auto. apply IHr; [apply node_ok_intro; assumption | assumption].
  - (* ECall *)
    split; [|exact I]. clear IHe0. intros Hn Hdf.
    apply node_ok_split in Hn. destruct Hn as [Hw [Hc [Hps Hcn]]].
    cbn [core2] in Hc. apply andb_true_iff in Hc. destruct Hc as [Hcf Hca].
    destruct (call_name e0) as [nm|] eqn:En; [|discriminate Hcf].
    cbn [params_static] in Hps. rewrite En in Hps. apply andb_true_iff in Hps. destruct Hps as [Hpo Hpa].
    cbn [counts_ok] in Hcn. rewrite En in Hcn. apply andb_true_iff in Hcn. destruct Hcn as [Hcnt Hcna].
    assert (Hfi : exists x, func_info nm = Some x).
    { unfold core2_fn in Hcf. destruct (func_info nm); [eauto|discriminate Hcf]. }
    destruct Hfi as [x Hfi]. rewrite Hfi in Hcnt.
    cbn [wtt] in Hw. cbn [defs_ok] in Hdf.
    assert (HS : Forall safe2_at args) by (eapply Forall_impl; [|exact H]; intros y [Hy _]; exact Hy).
    pose proof (safe2_items _ HS Hw Hca Hpa Hcna Hdf) as Hd.
    exact (dyn2_call p e0 args nm En Hcf Hcnt Hpo Hd).
  - (* EName *)
    split; [|exact I]. intros _ _. reflexivity.
  - (* ERef *)
    split; [|exact I]. destruct IHe0 as [IHd _]. intros _ Hdf. cbn [defs_ok] in Hdf.
    apply andb_true_iff in Hdf. destruct Hdf as [Hnd Hdd]. exact (IHd Hnd Hdd).
  - (* ENum *)
    split; [|exact I]. intros _ _. reflexivity.
  - (* EFloat *)
    split; [|exact I]. intros _ _.
    unfold dyn_ok2. cbn [Eval.eval rtype]. unfold float_value. destruct (f_parse fo d); reflexivity.
  - split; [|exact I]. intros _ _. reflexivity.
  - (* EList *)
    assert (HS : Forall safe2_at l) by (eapply Forall_impl; [|exact H]; intros x [Hx _]; exact Hx).
    split; [|exact HS]. intros Hn _. apply node_ok_split in Hn. destruct Hn as [_ [Hc _]]. discriminate Hc.
  - (* EAccess *)
    split; [|exact I]. intros Hn _. apply node_ok_split in Hn. destruct Hn as [_ [Hc _]]. discriminate Hc.
Qed.

End TS2W.
End W2.

(* ================================================================================================
   the batch evaluator (text of Section TSV of Proofs/TypeSafetyVecProofs.v up to
   eval_batch_typed_safe).  The definitions of the original file are repeated verbatim inside
   the module (they are convertible with the originals; the theorems exported at the end of
   this file are stated with the original constants).
   ================================================================================================ *)
Module WV.
Section TSV.
Variable fo : fops.
Variable re : bytes -> bytes -> res bool.
Hypothesis re_ok : forall p t, match re p t with Err x => x = EOther | Panic => False | _ => True end.

Notation value := (value fo).
Notation eval := (Eval.eval fo re).
Notation evb := (EvalVec.eval_batch fo re true).
Notation node_ok := (node_okt fo).
Notation vty2 := (vty2 fo).
Notation eval_safe2 := W2.eval_safe2.
Notation node_ok_intro := W2.node_ok_intro.
Notation node_ok_split := W2.node_ok_split.

Definition node_okv (e : expr) : bool := node_ok e && in_kinds e.

Lemma node_okv_ok : forall e, node_okv e = true -> node_ok e = true.
Proof. intros e H. unfold node_okv in H. apply andb_true_iff in H. tauto. Qed.

(* outcome of a computation: a failure only from [A], no panic *)
Definition okerr {T} (A : err -> Prop) (r : res T) : Prop :=
  match r with Err e => A e | Panic => False | _ => True end.

Lemma okerr_weaken : forall {T} (A B : err -> Prop) (r : res T),
  (forall e, A e -> B e) -> okerr A r -> okerr B r.
Proof. intros T A B [x|e| |] H G; cbn in *; auto. Qed.

Lemma okerr_bind : forall {T U} (A : err -> Prop) (r : res T) (f : T -> res U),
  okerr A r -> (forall x, r = Ok x -> okerr A (f x)) -> okerr A (bind r f).
Proof. intros T U A [x|e| |] f G H; cbn in *; auto. Qed.

(* ---------------------------------------------------------------- the per-index loops *)
Lemma vmap_okerr : forall (A : err -> Prop) (Q : value -> Prop) (f : value -> res value) xs,
  Forall Q xs -> (forall x, Q x -> okerr A (f x)) -> okerr A (vmap fo f xs).
Proof.
  intros A Q f xs HQ Hf. unfold vmap. induction HQ as [|x xs Hx _ IH]; cbn [map_res]; [exact I|].
  apply okerr_bind; [apply Hf; exact Hx|]. intros y _. apply okerr_bind; [exact IH|]. intros ys _. exact I.
Qed.

Lemma vmap2_okerr : forall (A : err -> Prop) (Q1 Q2 : value -> Prop) (f : value -> value -> res value) xs ys,
  List.length xs = List.length ys -> Forall Q1 xs -> Forall Q2 ys ->
  (forall x y, Q1 x -> Q2 y -> okerr A (f x y)) -> okerr A (vmap2 fo f xs ys).
Proof.
  intros A Q1 Q2 f xs. induction xs as [|x xs IH]; intros [|y ys] Hl H1 H2 Hf; cbn in Hl; try discriminate;
    cbn [vmap2]; [exact I|].
  inversion H1; subst. inversion H2; subst.
  apply okerr_bind; [apply Hf; assumption|]. intros z _.
  apply okerr_bind; [apply IH; auto|]. intros zs _. exact I.
Qed.

Lemma vmap3_okerr : forall (A : err -> Prop) (Q1 Q2 Q3 : value -> Prop) (f : value -> value -> value -> res value) xs ys zs,
  List.length xs = List.length ys -> List.length xs = List.length zs ->
  Forall Q1 xs -> Forall Q2 ys -> Forall Q3 zs ->
  (forall x y z, Q1 x -> Q2 y -> Q3 z -> okerr A (f x y z)) -> okerr A (vmap3 fo f xs ys zs).
Proof.
  intros A Q1 Q2 Q3 f xs. induction xs as [|x xs IH]; intros [|y ys] [|z zs] Hl Hl' H1 H2 H3 Hf;
    cbn in Hl, Hl'; try discriminate; cbn [vmap3]; [exact I|].
  inversion H1; subst. inversion H2; subst. inversion H3; subst.
  apply okerr_bind; [apply Hf; assumption|]. intros w _.
  apply okerr_bind; [apply IH; auto|]. intros ws _. exact I.
Qed.

Lemma map_res_okerr : forall {X Y} (A : err -> Prop) (f : X -> res Y) (l : list X),
  (forall x, okerr A (f x)) -> okerr A (map_res f l).
Proof.
  intros X Y A f l Hf. induction l as [|x l IH]; cbn [map_res]; [exact I|].
  apply okerr_bind; [apply Hf|]. intros y _. apply okerr_bind; [exact IH|]. intros ys _. exact I.
Qed.

(* ---------------------------------------------------------------- typed columns *)
Lemma vrel_vty2 : forall b r t, vrel fo b r -> vty2 r t = true -> vty2 b t = true.
Proof.
  intros b r t [->|[s [-> ->]]] H; [exact H|]. destruct t; try discriminate H; reflexivity.
Qed.

Definition typed_col (e : expr) (ch : list kvpair) (col : list value) : Prop :=
  List.length col = List.length ch /\ Forall (fun b => vty2 b (rtype e) = true) col.

Lemma col_typed : forall e ch col,
  node_ok e = true -> defs_ok node_ok e = true -> evb e ch = Ok col -> typed_col e ch col.
Proof.
  intros e ch col Hn Hd H. split; [exact (eval_batch_length fo re e ch col H)|].
  pose proof (exec_batch_ok_vrel fo re e ch col H) as F. clear H.
  induction F as [|kv b ch col [r [Er Vr]] _ IH]; [constructor|]. constructor; [|exact IH].
  pose proof (eval_safe2 fo re re_ok (fst kv) (snd kv) e Hn Hd) as D.
  unfold dyn_ok2, good in D. rewrite Er in D. exact (vrel_vty2 _ _ _ Vr D).
Qed.

(* ---------------------------------------------------------------- element kinds of list values *)
Definition lval_kind (x : value) : option bool :=
  match x with VStrs _ => Some false | VInts _ | VFlts _ => Some true | _ => None end.

Lemma bind_Ok : forall {T U} (r : res T) (f : T -> res U) y, bind r f = Ok y -> exists x, r = Ok x /\ f x = Ok y.
Proof. intros T U [x|e| |] f y H; cbn in H; try discriminate. eauto. Qed.

Lemma apply_func_lkind : forall nm b args rs x,
  fn_lkind nm = Some b -> apply_func fo nm args rs = Ok x -> lval_kind x = Some b.
Proof.
  intros nm b args rs x Hk H. unfold fn_lkind in Hk.
  destruct (String.eqb nm "split") eqn:E1.
  { apply String.eqb_eq in E1. subst nm. inversion Hk; subst b. rewrite body_split in H.
    apply bind_Ok in H. destruct H as [a [_ H]].
    destruct (negb _); [discriminate H|]. apply bind_Ok in H. destruct H as [s [_ H]].
    destruct (split_str _ _); inversion H. reflexivity. }
  destruct (String.eqb nm "list") eqn:E2.
  { apply String.eqb_eq in E2. subst nm. inversion Hk; subst b. rewrite body_list in H.
    destruct rs as [|r0 rs]; [inversion H; reflexivity|].
    apply bind_Ok in H. destruct H as [first [_ H]]. apply bind_Ok in H. destruct H as [ui [_ H]].
    apply bind_Ok in H. destruct H as [vals [_ H]]. destruct ui.
    - apply bind_Ok in H. destruct H as [zs [_ H]]. inversion H. reflexivity.
    - apply bind_Ok in H. destruct H as [fs [_ H]]. inversion H. reflexivity. }
  destruct (String.eqb nm "int_list") eqn:E3.
  { apply String.eqb_eq in E3. subst nm. inversion Hk; subst b.
    rewrite (body_int_list fo "int_list") in H by (left; reflexivity).
    apply bind_Ok in H. destruct H as [vals [_ H]]. apply bind_Ok in H. destruct H as [zs [_ H]]. inversion H. reflexivity. }
  destruct (String.eqb nm "ilist") eqn:E4.
  { apply String.eqb_eq in E4. subst nm. inversion Hk; subst b.
    rewrite (body_int_list fo "ilist") in H by (right; reflexivity).
    apply bind_Ok in H. destruct H as [vals [_ H]]. apply bind_Ok in H. destruct H as [zs [_ H]]. inversion H. reflexivity. }
  destruct (String.eqb nm "float_list") eqn:E5.
  { apply String.eqb_eq in E5. subst nm. inversion Hk; subst b.
    rewrite (body_float_list fo "float_list") in H by (left; reflexivity).
    apply bind_Ok in H. destruct H as [vals [_ H]]. apply bind_Ok in H. destruct H as [zs [_ H]]. inversion H. reflexivity. }
  destruct (String.eqb nm "flist") eqn:E6.
  { apply String.eqb_eq in E6. subst nm. inversion Hk; subst b.
    rewrite (body_float_list fo "flist") in H by (right; reflexivity).
    apply bind_Ok in H. destruct H as [vals [_ H]]. apply bind_Ok in H. destruct H as [zs [_ H]]. inversion H. reflexivity. }
  cbn in Hk. discriminate Hk.
Qed.

Lemma eval_lkind : forall k v e kd x, lkind e = Some kd -> eval k v e = Ok x -> lval_kind x = Some kd.
Proof.
  intros k v e. induction e; intros kd x0 Hk H0; cbn [lkind] in Hk; try discriminate Hk.
  - (* ECall *)
    cbn [Eval.eval] in H0. destruct e; try discriminate H0.
    destruct (call_name (EName pos0 s)) as [nm|]; [|discriminate H0].
    destruct (func_info nm) as [[[na va] t]|]; [|discriminate H0].
    destruct (_ || _); [discriminate H0|]. exact (apply_func_lkind nm kd _ _ x0 Hk H0).
  - (* ERef *) cbn [Eval.eval] in H0. exact (IHe kd x0 Hk H0).
Qed.

Lemma vrel_lkind : forall b r, vrel fo b r -> lval_kind b = lval_kind r.
Proof. intros b r [->|[s [-> ->]]]; reflexivity. Qed.

Lemma col_lkind : forall e ch col b, lkind e = Some b -> evb e ch = Ok col ->
  Forall (fun x => lval_kind x = Some b) col.
Proof.
  intros e ch col b Hk H. pose proof (exec_batch_ok_vrel fo re e ch col H) as F. clear H.
  induction F as [|kv x ch col [r [Er Vr]] _ IH]; [constructor|]. constructor; [|exact IH].
  rewrite (vrel_lkind _ _ Vr). exact (eval_lkind _ _ _ _ _ Hk Er).
Qed.

(* ---------------------------------------------------------------- the induction *)
Definition vec_ok (ch : list kvpair) (e : expr) : Prop :=
  okerr (fun x => In x (sites2 e)) (evb e ch).

Section Chunk.
Variable ch : list kvpair.

Notation inl p o l r := (fun x => In x (sites2 (EBin p o l r))).

Lemma bin_both : forall p o l r (f : value -> value -> res value),
  node_ok l = true -> defs_ok node_ok l = true -> node_ok r = true -> defs_ok node_ok r = true ->
  vec_ok ch l -> vec_ok ch r ->
  (forall x y, vty2 x (rtype l) = true -> vty2 y (rtype r) = true -> okerr (inl p o l r) (f x y)) ->
  okerr (inl p o l r) (do ls <- evb l ch; do rs <- evb r ch; vmap2 fo f ls rs).
Proof.
  intros p o l r f Hnl Hdl Hnr Hdr Vl Vr Hf.
  apply okerr_bind.
  { eapply okerr_weaken; [|exact Vl]. intros x. apply in_sites2_l. }
  intros ls El. apply okerr_bind.
  { eapply okerr_weaken; [|exact Vr]. intros x. apply in_sites2_r. }
  intros rs Er.
  destruct (col_typed l ch ls Hnl Hdl El) as [Ll Tl]. destruct (col_typed r ch rs Hnr Hdr Er) as [Lr Tr].
  eapply vmap2_okerr; [congruence | exact Tl | exact Tr | exact Hf].
Qed.

Lemma evb_eq : forall p l r,
  evb (EBin p OEq l r) ch = (do ls <- evb l ch; do rs <- evb r ch; equal_batch fo ch false p ls rs).
Proof. reflexivity. Qed.
Lemma evb_neq : forall p l r,
  evb (EBin p ONotEq l r) ch = (do ls <- evb l ch; do rs <- evb r ch; equal_batch fo ch true p ls rs).
Proof. reflexivity. Qed.
Lemma evb_prefix : forall p l r,
  evb (EBin p OPrefixMatch l r) ch =
  (do ls <- evb l ch; do rs <- evb r ch;
   vmap2 fo (fun lv rv => match conv_bytes fo lv, conv_bytes fo rv with
                          | Some a, Some b => Ok (VBool (has_prefix b a))
                          | _, _ => Err (EExec p)
                          end) ls rs).
Proof. reflexivity. Qed.
Lemma evb_regexp : forall p l r,
  evb (EBin p ORegExpMatch l r) ch =
  (do ls <- evb l ch; do rs <- evb r ch;
   vmap2 fo (fun lv rv => match conv_bytes fo lv, conv_bytes fo rv with
                          | Some a, Some b => do m <- re b a; Ok (VBool m)
                          | _, _ => Err (EExec p)
                          end) ls rs).
Proof. reflexivity. Qed.
Lemma evb_andor : forall p o l r, (o = OAnd \/ o = OKWAnd \/ o = OOr \/ o = OKWOr) ->
  evb (EBin p o l r) ch =
  (do ls <- evb l ch; do rs <- evb r ch;
   vmap2 fo (fun lv rv => match lv, rv with
                          | VBool a, VBool b =>
                              Ok (VBool (if (match o with OAnd | OKWAnd => true | _ => false end)
                                         then a && b else a || b))
                          | _, _ => Err (EExec p)
                          end) ls rs).
Proof. intros p o l r [->|[->|[->| ->]]]; reflexivity. Qed.
Lemma evb_add_str : forall p l r, rtype l = TStr ->
  evb (EBin p OAdd l r) ch =
  (do ls <- evb l ch; do rs <- evb r ch;
   vmap2 fo (fun lv rv => match conv_bytes fo lv, conv_bytes fo rv with
                          | Some a, Some b => Ok (VBytes (a ++ b))
                          | _, _ => Err (EExec p)
                          end) ls rs).
Proof. intros p l r H. cbn [EvalVec.eval_batch]. rewrite H. reflexivity. Qed.
Lemma evb_math : forall p o l r, (o = OAdd /\ rtype l = TNumber \/ o = OSub \/ o = OMul \/ o = ODiv) ->
  evb (EBin p o l r) ch =
  (do ls <- evb l ch; do rs <- evb r ch; vmap2 fo (fun lv rv => math_op fo lv rv o (epos r)) ls rs).
Proof.
  intros p o l r [[-> H]|[->|[->| ->]]]; try reflexivity. cbn [EvalVec.eval_batch]. rewrite H. reflexivity.
Qed.
Lemma evb_cmp : forall p o l r, (o = OGt \/ o = OGte \/ o = OLt \/ o = OLte) ->
  evb (EBin p o l r) ch =
  match rtype l with
  | TStr => do ls <- evb l ch; do rs <- evb r ch;
            vmap2 fo (fun lv rv => do b <- string_compare fo lv rv (cmpop_of o); Ok (VBool b)) ls rs
  | _ => do ls <- evb l ch; do rs <- evb r ch;
         vmap2 fo (fun lv rv => do b <- number_compare fo lv rv (cmpop_of o); Ok (VBool b)) ls rs
  end.
Proof. intros p o l r [->|[->|[->| ->]]]; reflexivity. Qed.
Lemma evb_in_list : forall p l q items,
  evb (EBin p OIn l (EList q items)) ch =
  (do ls <- evb l ch;
   do cols <- in_cols fo (match rtype l with TStr => false | _ => true end) items (map (fun it => evb it ch) items);
   in_rows fo (match rtype l with TStr => false | _ => true end) ls cols).
Proof. reflexivity. Qed.
Lemma evb_in_fn : forall p l r,
  match r with ECall _ _ _ | ERef _ _ _ => True | _ => False end ->
  evb (EBin p OIn l r) ch =
  (do ls <- evb l ch; do frets <- evb r ch;
   vmap2 fo (in_fn_at fo (match rtype l with TStr => false | _ => true end) p) ls frets).
Proof. intros p l r H. destruct r; try contradiction; reflexivity. Qed.
Lemma evb_between : forall p l q lo hi,
  evb (EBin p OBetween l (EList q [lo; hi])) ch =
  (let number := match rtype l with TStr => false | _ => true end in
   let want := if number then TNumber else TStr in
   do ls <- evb l ch;
   if negb (ty_eqb (rtype lo) want) then Err (EExec (epos lo))
   else if (number || true) && negb (ty_eqb (rtype hi) want) then Err (EExec (epos hi))
   else do los <- evb lo ch; do his <- evb hi ch; vmap3 fo (between_at fo number p) los his ls).
Proof. reflexivity. Qed.

Lemma okerr_cmp : forall (A : err -> Prop) (number : bool) a b c,
  vty2 a (if number then TNumber else TStr) = true -> vty2 b (if number then TNumber else TStr) = true ->
  okerr A (do x <- (if number then number_compare fo a b c else string_compare fo a b c); Ok (@VBool fo x)).
Proof. intros A number a b c Va Vb. destruct (compare_typed fo number a b c Va Vb) as [x Hx]. rewrite Hx. exact I. Qed.

(* = / != : the kind is read off the first left value; every value of the columns has it *)
Lemma equal_batch_okerr : forall (A : err -> Prop) t neg p ls rs,
  is_scalar_ty t = true -> List.length ls = List.length ch -> List.length rs = List.length ch ->
  Forall (fun b => vty2 b t = true) ls -> Forall (fun b => vty2 b t = true) rs ->
  okerr A (equal_batch fo ch neg p ls rs).
Proof.
  intros A t neg p ls rs Hs Ll Lr Tl Tr. unfold equal_batch.
  destruct ch as [|kv0 ch']; [exact I|].
  destruct ls as [|first ls']; [discriminate Ll|].
  assert (Hk : exists kd, eq_kind fo first = Some kd /\
                 forall x y, vty2 x t = true -> vty2 y t = true -> okerr A (eq_at fo kd neg p x y)).
  { inversion Tl as [|? ? Vf _]; subst.
    destruct t; try discriminate Hs; destruct first; try discriminate Vf; cbn [eq_kind]; eexists; (split; [reflexivity|]);
      intros x y Vx Vy; destruct x; try discriminate Vx; destruct y; try discriminate Vy; exact I. }
  destruct Hk as [kd [-> Hf]].
  eapply vmap2_okerr; [congruence | exact Tl | exact Tr | exact Hf].
Qed.

Lemma in_row_okerr : forall (A : err -> Prop) (number : bool) lv (vals : list (res value)),
  vty2 lv (if number then TNumber else TStr) = true ->
  Forall (fun r => match r with Ok x => vty2 x (if number then TNumber else TStr) = true | _ => False end) vals ->
  okerr A (in_row fo number lv vals).
Proof.
  intros A number lv vals Vl. induction 1 as [|r vals Hr _ IH]; cbn [in_row]; [exact I|].
  destruct r as [x| | |]; try contradiction. cbn [bind].
  destruct (compare_typed fo number lv x CEq Vl Hr) as [c ->]. cbn [bind]. destruct c; [exact I|exact IH].
Qed.


Definition ready (a : expr) : Prop := node_ok a = true /\ defs_ok node_ok a = true.

Lemma ready_items : forall items,
  forallb (wtt fo) items = true -> forallb core2 items = true -> forallb params_static items = true ->
  forallb counts_ok items = true -> forallb (defs_ok node_ok) items = true -> Forall ready items.
Proof.
  induction items as [|x l IH]; intros H1 H2 H3 H4 H5; [constructor|].
  cbn [forallb] in *. apply andb_true_iff in H1, H2, H3, H4, H5.
  destruct H1 as [H1 H1'], H2 as [H2 H2'], H3 as [H3 H3'], H4 as [H4 H4'], H5 as [H5 H5'].
  constructor; [split; [apply node_ok_intro; assumption | assumption] | apply IH; assumption].
Qed.

(* the columns of an explicit IN list *)
Lemma in_cols_okerr : forall (number : bool) items,
  Forall (fun it => rtype it = (if number then TNumber else TStr)) items ->
  Forall ready items -> Forall (vec_ok ch) items ->
  match in_cols fo number items (map (fun it => evb it ch) items) with
  | Ok cols => Forall (fun col => List.length col = List.length ch /\
                                  Forall (fun b => vty2 b (if number then TNumber else TStr) = true) col) cols
  | Err x => In x (flat_map sites2 items)
  | Panic => False
  | OutOfModel => True
  end.
Proof.
  intros number items. induction items as [|it items IH]; intros Ht Hr Hv; [constructor|].
  inversion Ht as [|? ? Hit Htr]; subst. inversion Hr as [|? ? [Rn Rd] Hrr]; subst. inversion Hv as [|? ? Vit Hvr]; subst.
  cbn [map in_cols flat_map]. rewrite Hit.
  replace (ty_eqb (if number then TNumber else TStr) (if number then TNumber else TStr)) with true
    by (destruct number; reflexivity).
  cbn [negb]. unfold vec_ok, okerr in Vit.
  destruct (evb it ch) as [col|x| |] eqn:Ec; cbn [bind]; [ | apply in_or_app; left; exact Vit | contradiction | exact I].
  specialize (IH Htr Hrr Hvr).
  destruct (in_cols fo number items (map (fun it0 => evb it0 ch) items)) as [cols|x| |]; cbn [bind];
    [ | apply in_or_app; right; exact IH | contradiction | exact I].
  constructor; [|exact IH]. destruct (col_typed it ch col Rn Rd Ec) as [L T]. rewrite Hit in T. split; assumption.
Qed.

Lemma in_rows_okerr : forall (A : err -> Prop) (number : bool) lefts cols,
  Forall (fun b => vty2 b (if number then TNumber else TStr) = true) lefts ->
  Forall (fun col => List.length col = List.length lefts /\
                     Forall (fun b => vty2 b (if number then TNumber else TStr) = true) col) cols ->
  okerr A (in_rows fo number lefts cols).
Proof.
  intros A number lefts. induction lefts as [|lv lefts IH]; intros cols Tl Tc; cbn [in_rows]; [exact I|].
  inversion Tl as [|? ? Vl Tl']; subst.
  apply okerr_bind.
  - apply in_row_okerr; [exact Vl|]. unfold heads. apply Forall_forall. intros r Hin.
    apply in_map_iff in Hin. destruct Hin as [col [<- Hc]]. rewrite Forall_forall in Tc.
    destruct (Tc _ Hc) as [L T]. destruct col as [|x col]; [discriminate L|]. inversion T; assumption.
  - intros b _. apply okerr_bind; [|intros rest _; exact I].
    apply IH; [exact Tl'|]. unfold tails. apply Forall_forall. intros c Hin.
    apply in_map_iff in Hin. destruct Hin as [col [<- Hc]]. rewrite Forall_forall in Tc.
    destruct (Tc _ Hc) as [L T]. destruct col as [|x col]; [discriminate L|]. cbn [tl].
    inversion T; subst. cbn [List.length] in L. split; [congruence|assumption].
Qed.

Lemma between_at_okerr : forall (number : bool) p lo hi left,
  vty2 lo (if number then TNumber else TStr) = true -> vty2 hi (if number then TNumber else TStr) = true ->
  vty2 left (if number then TNumber else TStr) = true ->
  okerr (fun x => x = EExec p) (between_at fo number p lo hi left).
Proof.
  intros number p lo hi left Vlo Vhi Vl. unfold between_at.
  destruct (compare_typed fo number lo hi CLt Vlo Vhi) as [c ->]. cbn [bind].
  destruct c; cbn [negb]; [|reflexivity].
  destruct (compare_typed fo number lo left CLte Vlo Vl) as [c2 ->]. cbn [bind].
  destruct c2; cbn [negb]; [|exact I].
  destruct (compare_typed fo number left hi CLte Vl Vhi) as [c3 ->]. exact I.
Qed.

(* IN over a list value whose elements have the kind of the left operand *)
Lemma in_fn_at_okerr : forall (A : err -> Prop) (number : bool) p left fret,
  vty2 left (if number then TNumber else TStr) = true ->
  lval_kind fret = Some number -> okerr A (in_fn_at fo number p left fret).
Proof.
  intros A number p left fret Vl Hk. unfold in_fn_at.
  destruct fret; try discriminate Hk; cbn [lval_kind] in Hk; inversion Hk; subst number; cbn [unpack_list];
    (apply okerr_bind;
     [ apply in_row_okerr;
       [ exact Vl
       | apply Forall_forall; intros r Hin; apply in_map_iff in Hin; destruct Hin as [x [<- Hx]];
         apply in_map_iff in Hx; destruct Hx as [y [<- _]]; reflexivity ]
     | intros b _; exact I ]).
Qed.


(* ---------------------------------------------------------------- vector function bodies *)
Notation afv := (apply_func_vec fo re).

Definition rowbody (nm : string) (args : list expr) : res (list value) :=
  map_res (fun kv : kvpair => apply_func fo nm args (map (eval (fst kv) (snd kv)) args)) ch.

Lemma vbody_lower : forall args cols, afv "lower" args ch cols =
  (do xs <- nth_col fo cols 0;
   vmap fo (fun a => match ascii_lower (to_string fo a) with Some s => Ok (VStr s) | None => OutOfModel end) xs).
Proof. reflexivity. Qed.
Lemma vbody_upper : forall args cols, afv "upper" args ch cols =
  (do xs <- nth_col fo cols 0;
   vmap fo (fun a => match ascii_upper (to_string fo a) with Some s => Ok (VStr s) | None => OutOfModel end) xs).
Proof. reflexivity. Qed.
Lemma vbody_int : forall args cols, afv "int" args ch cols =
  (do xs <- nth_col fo cols 0; vmap fo (fun a => do z <- to_int fo a; Ok (VInt z)) xs).
Proof. reflexivity. Qed.
Lemma vbody_float : forall args cols, afv "float" args ch cols =
  (do xs <- nth_col fo cols 0; vmap fo (fun a => do f <- to_float fo a; Ok (VFlt f)) xs).
Proof. reflexivity. Qed.
Lemma vbody_str : forall args cols, afv "str" args ch cols =
  (do xs <- nth_col fo cols 0; vmap fo (fun a => Ok (VStr (to_string fo a))) xs).
Proof. reflexivity. Qed.
Lemma vbody_is_int : forall args cols, afv "is_int" args ch cols =
  (do xs <- nth_col fo cols 0;
   vmap fo (fun a => match a with
                     | VStr s | VBytes s => Ok (VBool (match parse_int s with Some _ => true | None => false end))
                     | VInt _ => Ok (VBool true)
                     | _ => Ok (VBool false)
                     end) xs).
Proof. reflexivity. Qed.
Lemma vbody_is_float : forall args cols, afv "is_float" args ch cols =
  (do xs <- nth_col fo cols 0;
   vmap fo (fun a => match a with
                     | VStr s | VBytes s =>
                         match f_parse fo s with
                         | PF_ok _ => Ok (VBool true) | PF_err => Ok (VBool false) | PF_oom => OutOfModel
                         end
                     | VFlt _ => Ok (VBool true)
                     | _ => Ok (VBool false)
                     end) xs).
Proof. reflexivity. Qed.
Lemma vbody_substr : forall args cols, afv "substr" args ch cols =
  (if negb (ty_eqb (rtype (nth_arg args 1)) TNumber) then Err (EExec (epos (nth_arg args 1)))
   else if negb (ty_eqb (rtype (nth_arg args 2)) TNumber) then Err (EExec (epos (nth_arg args 2)))
   else
     do xs <- nth_col fo cols 0; do ss <- nth_col fo cols 1; do ls <- nth_col fo cols 2;
     vmap3 fo (fun a b c => do st <- to_int fo b; do ln <- to_int fo c;
                            Ok (VStr (substr_val (to_string fo a) st ln))) xs ss ls).
Proof. reflexivity. Qed.
Lemma vbody_split : forall args cols, afv "split" args ch cols =
  (if negb (ty_eqb (rtype (nth_arg args 1)) TStr) then Err (EExec (epos (nth_arg args 1)))
   else
     do xs <- nth_col fo cols 0; do ss <- nth_col fo cols 1;
     vmap2 fo (fun a b => match split_str (to_string fo a) (to_string fo b) with
                          | Some l => Ok (VStrs l)
                          | None => OutOfModel
                          end) xs ss).
Proof. reflexivity. Qed.
Lemma vbody_row : forall nm args cols,
  In nm ["join"; "int_list"; "ilist"; "float_list"; "flist"] -> afv nm args ch cols = rowbody nm args.
Proof. intros nm args cols H. cbn [In] in H. repeat (destruct H as [<-|H]; [reflexivity|]). contradiction. Qed.
Lemma vbody_list : forall args cols, afv "list" args ch cols =
  match args, ch with
  | [], _ | _, [] => Ok []
  | _, _ => rowbody "list" args
  end.
Proof. reflexivity. Qed.
Lemma vbody_len : forall args cols, afv "len" args ch cols =
  (do xs <- nth_col fo cols 0;
   vmap fo (fun a => match list_length fo a with
                     | Some n => Ok (VInt n)
                     | None => Err (EExec (epos (nth_arg args 0)))
                     end) xs).
Proof. reflexivity. Qed.
Lemma vbody_strlen : forall args cols, afv "strlen" args ch cols =
  (do xs <- nth_col fo cols 0; vmap fo (fun a => Ok (VInt (Z.of_nat (String.length (to_string fo a))))) xs).
Proof. reflexivity. Qed.
Lemma vbody_cosine : forall args cols, afv "cosine_distance" args ch cols =
  (do xs <- nth_col fo cols 0; do ys <- nth_col fo cols 1;
   vmap2 fo (fun a b => do l <- to_float_list fo a; do r <- to_float_list fo b;
                        do d <- cosine_distance fo l r; Ok (VFlt d)) xs ys).
Proof. reflexivity. Qed.
Lemma vbody_l2 : forall args cols, afv "l2_distance" args ch cols =
  (do xs <- nth_col fo cols 0; do ys <- nth_col fo cols 1;
   vmap2 fo (fun a b => do l <- to_float_list fo a; do r <- to_float_list fo b;
                        do d <- l2_distance fo l r; Ok (VFlt d)) xs ys).
Proof. reflexivity. Qed.

Lemma good_okerr : forall t allowed (r : res value), good fo t allowed r -> okerr (fun x => In x allowed) r.
Proof. intros t allowed [x|e| |] G; cbn in *; auto. Qed.

Lemma rowbody_okerr : forall nm args,
  core2_fn nm = true -> count_fits nm (List.length args) = true ->
  params_ok nm (map (fun a => sty_of (rtype a)) args) = true ->
  Forall ready args ->
  okerr (fun x => In x ((if is_distance nm then [EOther] else []) ++ flat_map sites2 args)) (rowbody nm args).
Proof.
  intros nm args Hc Hcnt Hp Hr. unfold rowbody. apply map_res_okerr. intros kv.
  eapply good_okerr. apply apply_func_good; try assumption.
  eapply Forall_impl; [|exact Hr]. intros a [Hn Hd]. exact (eval_safe2 fo re re_ok (fst kv) (snd kv) a Hn Hd).
Qed.

Definition any_value (x : value) : Prop := True.

Ltac col0 Va Ra x L T :=
  unfold vec_ok in Va;
  match type of Va with
  | okerr _ (evb ?a ch) =>
      apply okerr_bind;
      [ eapply okerr_weaken; [|exact Va]; intros ?e ?He; cbn beta; in_app He
      | intros x ?Ex; destruct Ra as [?Rn ?Rd];
        match goal with E : evb a ch = Ok x, Rn' : node_ok a = true, Rd' : defs_ok node_ok a = true |- _ =>
          destruct (col_typed a ch x Rn' Rd' E) as [L T] end ]
  end.

Lemma apply_func_vec_okerr : forall nm args,
  core2_fn nm = true -> count_fits nm (List.length args) = true ->
  params_ok nm (map (fun a => sty_of (rtype a)) args) = true ->
  Forall ready args -> Forall (vec_ok ch) args ->
  okerr (fun x => In x ((if is_distance nm then [EOther] else []) ++ flat_map sites2 args))
        (afv nm args ch (map (fun a => evb a ch) args)).
Proof.
  intros nm args Hc Hcnt Hp Hr Hv.
  pose proof (rowbody_okerr nm args Hc Hcnt Hp Hr) as Hrow.
  apply core2_fn_cases in Hc. unfold core2_names in Hc. cbn [In] in Hc.
  repeat (destruct Hc as [<-|Hc]); try contradiction;
    cbn [is_distance String.eqb Ascii.eqb Bool.eqb orb app] in *;
    unfold count_fits in Hcnt; cbn in Hcnt.
  - (* lower *)
    destruct args as [|a [|]]; try discriminate Hcnt.
    inversion Hr as [|? ? Ra _]; subst. inversion Hv as [|? ? Va _]; subst.
    rewrite vbody_lower. cbn [map nth_col nth flat_map]. rewrite app_nil_r. col0 Va Ra xs L T.
    eapply (vmap_okerr _ any_value); [apply Forall_forall; intros; exact I|]. intros x _.
    destruct (ascii_lower _); exact I.
  - (* upper *)
    destruct args as [|a [|]]; try discriminate Hcnt.
    inversion Hr as [|? ? Ra _]; subst. inversion Hv as [|? ? Va _]; subst.
    rewrite vbody_upper. cbn [map nth_col nth flat_map]. rewrite app_nil_r. col0 Va Ra xs L T.
    eapply (vmap_okerr _ any_value); [apply Forall_forall; intros; exact I|]. intros x _.
    destruct (ascii_upper _); exact I.
  - (* int *)
    destruct args as [|a [|]]; try discriminate Hcnt.
    inversion Hr as [|? ? Ra _]; subst. inversion Hv as [|? ? Va _]; subst.
    rewrite vbody_int. cbn [map nth_col nth flat_map]. rewrite app_nil_r. col0 Va Ra xs L T.
    eapply (vmap_okerr _ any_value); [apply Forall_forall; intros; exact I|]. intros x _.
    pose proof (to_int_tot fo x) as Ht. destruct (to_int fo x); cbn [bind okerr]; try contradiction; exact I.
  - (* float *)
    destruct args as [|a [|]]; try discriminate Hcnt.
    inversion Hr as [|? ? Ra _]; subst. inversion Hv as [|? ? Va _]; subst.
    rewrite vbody_float. cbn [map nth_col nth flat_map]. rewrite app_nil_r. col0 Va Ra xs L T.
    eapply (vmap_okerr _ any_value); [apply Forall_forall; intros; exact I|]. intros x _.
    pose proof (to_float_tot fo x) as Ht. destruct (to_float fo x); cbn [bind okerr]; try contradiction; exact I.
  - (* str *)
    destruct args as [|a [|]]; try discriminate Hcnt.
    inversion Hr as [|? ? Ra _]; subst. inversion Hv as [|? ? Va _]; subst.
    rewrite vbody_str. cbn [map nth_col nth flat_map]. rewrite app_nil_r. col0 Va Ra xs L T.
    eapply (vmap_okerr _ any_value); [apply Forall_forall; intros; exact I|]. intros x _. exact I.
  - (* is_int *)
    destruct args as [|a [|]]; try discriminate Hcnt.
    inversion Hr as [|? ? Ra _]; subst. inversion Hv as [|? ? Va _]; subst.
    rewrite vbody_is_int. cbn [map nth_col nth flat_map]. rewrite app_nil_r. col0 Va Ra xs L T.
    eapply (vmap_okerr _ any_value); [apply Forall_forall; intros; exact I|]. intros x _. destruct x; exact I.
  - (* is_float *)
    destruct args as [|a [|]]; try discriminate Hcnt.
    inversion Hr as [|? ? Ra _]; subst. inversion Hv as [|? ? Va _]; subst.
    rewrite vbody_is_float. cbn [map nth_col nth flat_map]. rewrite app_nil_r. col0 Va Ra xs L T.
    eapply (vmap_okerr _ any_value); [apply Forall_forall; intros; exact I|]. intros x _.
    destruct x; try exact I; destruct (f_parse fo _); exact I.
  - (* substr *)
    destruct args as [|a [|b [|c [|]]]]; try discriminate Hcnt.
    inversion Hr as [|? ? Ra Hr1]; subst. inversion Hr1 as [|? ? Rb Hr2]; subst. inversion Hr2 as [|? ? Rc _]; subst.
    inversion Hv as [|? ? Va Hv1]; subst. inversion Hv1 as [|? ? Vb Hv2]; subst. inversion Hv2 as [|? ? Vc _]; subst.
    cbn in Hp. apply andb_true_iff in Hp. destruct Hp as [Hpb Hpc].
    apply sty_eqb_eq in Hpb, Hpc. apply (sty_of_inj _ TNumber) in Hpb. apply (sty_of_inj _ TNumber) in Hpc.
    rewrite vbody_substr. cbn [map nth_col nth nth_arg flat_map]. rewrite app_nil_r.
    rewrite Hpb, Hpc. cbn [ty_eqb negb].
    col0 Va Ra xs L1 T1. col0 Vb Rb ss L2 T2. col0 Vc Rc ls L3 T3.
    eapply (vmap3_okerr _ any_value any_value any_value); try congruence;
      try (apply Forall_forall; intros; exact I).
    intros x y z _ _ _.
    pose proof (to_int_tot fo y) as Hy. destruct (to_int fo y); cbn [bind okerr]; try contradiction; try exact I.
    pose proof (to_int_tot fo z) as Hz. destruct (to_int fo z); cbn [bind okerr]; try contradiction; exact I.
  - (* split *)
    destruct args as [|a [|b [|]]]; try discriminate Hcnt.
    inversion Hr as [|? ? Ra Hr1]; subst. inversion Hr1 as [|? ? Rb _]; subst.
    inversion Hv as [|? ? Va Hv1]; subst. inversion Hv1 as [|? ? Vb _]; subst.
    cbn in Hp. apply sty_eqb_eq in Hp. apply (sty_of_inj _ TStr) in Hp.
    rewrite vbody_split. cbn [map nth_col nth nth_arg flat_map]. rewrite app_nil_r.
    rewrite Hp. cbn [ty_eqb negb].
    col0 Va Ra xs L1 T1. col0 Vb Rb ss L2 T2.
    eapply (vmap2_okerr _ any_value any_value); try congruence; try (apply Forall_forall; intros; exact I).
    intros x y _ _. destruct (split_str _ _); exact I.
  - (* list *)
    rewrite vbody_list. destruct args as [|a args]; [exact I|]. destruct ch as [|kv0 ch0]; [exact I|]. exact Hrow.
  - rewrite vbody_row by (cbn; tauto). exact Hrow.
  - rewrite vbody_row by (cbn; tauto). exact Hrow.
  - rewrite vbody_row by (cbn; tauto). exact Hrow.
  - rewrite vbody_row by (cbn; tauto). exact Hrow.
  - (* len *)
    destruct args as [|a [|]]; try discriminate Hcnt.
    inversion Hr as [|? ? Ra _]; subst. inversion Hv as [|? ? Va _]; subst.
    cbn in Hp.
    rewrite vbody_len. cbn [map nth_col nth nth_arg flat_map]. rewrite app_nil_r. col0 Va Ra xs L T.
    eapply vmap_okerr; [exact T|]. cbn beta. intros x Vx.
    destruct (rtype a); try discriminate Hp; destruct x; try discriminate Vx; exact I.
  - (* join *) rewrite vbody_row by (cbn; tauto). exact Hrow.
  - (* strlen *)
    destruct args as [|a [|]]; try discriminate Hcnt.
    inversion Hr as [|? ? Ra _]; subst. inversion Hv as [|? ? Va _]; subst.
    rewrite vbody_strlen. cbn [map nth_col nth flat_map]. rewrite app_nil_r. col0 Va Ra xs L T.
    eapply (vmap_okerr _ any_value); [apply Forall_forall; intros; exact I|]. intros x _. exact I.
  - (* cosine_distance *)
    destruct args as [|a [|b [|]]]; try discriminate Hcnt.
    inversion Hr as [|? ? Ra Hr1]; subst. inversion Hr1 as [|? ? Rb _]; subst.
    inversion Hv as [|? ? Va Hv1]; subst. inversion Hv1 as [|? ? Vb _]; subst.
    cbn in Hp. apply andb_true_iff in Hp. destruct Hp as [Hpa Hpb].
    rewrite vbody_cosine. cbn [map nth_col nth flat_map]. rewrite app_nil_r.
    col0 Va Ra xs L1 T1. col0 Vb Rb ys L2 T2.
    eapply vmap2_okerr; [congruence | exact T1 | exact T2 |]. cbn beta. intros x y Vx Vy.
    assert (Vx' : vty2 x TList = true) by (destruct (rtype a); try discriminate Hpa; try discriminate Vx; exact Vx).
    assert (Vy' : vty2 y TList = true) by (destruct (rtype b); try discriminate Hpb; try discriminate Vy; exact Vy).
    pose proof (to_float_list_typed fo x Vx') as Hx. destruct (to_float_list fo x) as [la|e| |]; cbn [bind okerr];
      [ | left; symmetry; exact Hx | contradiction | exact I].
    pose proof (to_float_list_typed fo y Vy') as Hy. destruct (to_float_list fo y) as [lb|e| |]; cbn [bind okerr];
      [ | left; symmetry; exact Hy | contradiction | exact I].
    pose proof (cosine_cases fo la lb) as Hcs. destruct (cosine_distance fo la lb) as [d|e| |]; cbn [bind okerr];
      [ exact I | left; symmetry; exact Hcs | contradiction | contradiction ].
  - (* l2_distance *)
    destruct args as [|a [|b [|]]]; try discriminate Hcnt.
    inversion Hr as [|? ? Ra Hr1]; subst. inversion Hr1 as [|? ? Rb _]; subst.
    inversion Hv as [|? ? Va Hv1]; subst. inversion Hv1 as [|? ? Vb _]; subst.
    cbn in Hp. apply andb_true_iff in Hp. destruct Hp as [Hpa Hpb].
    rewrite vbody_l2. cbn [map nth_col nth flat_map]. rewrite app_nil_r.
    col0 Va Ra xs L1 T1. col0 Vb Rb ys L2 T2.
    eapply vmap2_okerr; [congruence | exact T1 | exact T2 |]. cbn beta. intros x y Vx Vy.
    assert (Vx' : vty2 x TList = true) by (destruct (rtype a); try discriminate Hpa; try discriminate Vx; exact Vx).
    assert (Vy' : vty2 y TList = true) by (destruct (rtype b); try discriminate Hpb; try discriminate Vy; exact Vy).
    pose proof (to_float_list_typed fo x Vx') as Hx. destruct (to_float_list fo x) as [la|e| |]; cbn [bind okerr];
      [ | left; symmetry; exact Hx | contradiction | exact I].
    pose proof (to_float_list_typed fo y Vy') as Hy. destruct (to_float_list fo y) as [lb|e| |]; cbn [bind okerr];
      [ | left; symmetry; exact Hy | contradiction | exact I].
    pose proof (l2_cases fo la lb) as Hcs. destruct (l2_distance fo la lb) as [d|e| |]; cbn [bind okerr];
      [ exact I | left; symmetry; exact Hcs | contradiction | contradiction ].
Qed.


(* ---------------------------------------------------------------- the induction *)
Definition vsafe_at (e : expr) : Prop :=
  node_okv e = true -> defs_ok node_okv e = true -> vec_ok ch e.

Lemma defs_okv_ok : forall e, defs_ok node_okv e = true -> defs_ok node_ok e = true.
Proof. apply defs_ok_mono. exact node_okv_ok. Qed.

Lemma node_okv_intro : forall e,
  wtt fo e = true -> core2 e = true -> params_static e = true -> counts_ok e = true ->
  in_kinds e = true -> node_okv e = true.
Proof. intros e H1 H2 H3 H4 H5. unfold node_okv. rewrite (node_ok_intro fo e H1 H2 H3 H4), H5. reflexivity. Qed.

Lemma vsafe_items : forall items, Forall vsafe_at items ->
  forallb (wtt fo) items = true -> forallb core2 items = true -> forallb params_static items = true ->
  forallb counts_ok items = true -> forallb in_kinds items = true -> forallb (defs_ok node_okv) items = true ->
  Forall (vec_ok ch) items.
Proof.
  induction 1 as [|x l Hx _ IH]; intros H1 H2 H3 H4 H5 H6; [constructor|].
  cbn [forallb] in *. apply andb_true_iff in H1, H2, H3, H4, H5, H6.
  destruct H1 as [H1 H1'], H2 as [H2 H2'], H3 as [H3 H3'], H4 as [H4 H4'], H5 as [H5 H5'], H6 as [H6 H6'].
  constructor; [apply Hx; [apply node_okv_intro; assumption | assumption] | apply IH; assumption].
Qed.

Lemma defs_items_ok : forall items, forallb (defs_ok node_okv) items = true -> forallb (defs_ok node_ok) items = true.
Proof.
  induction items as [|x l IH]; intros H; [reflexivity|]. cbn [forallb] in *.
  apply andb_true_iff in H. destruct H as [H1 H2]. rewrite (defs_okv_ok _ H1), (IH H2). reflexivity.
Qed.

Lemma eval_batch_safe2 : forall e, vsafe_at e.
Proof.
  intros e0.
  enough (Hq : vsafe_at e0 /\ match e0 with EList _ items => Forall vsafe_at items | _ => True end) by apply Hq.
  induction e0 using expr_induction.
  - (* EBin *)
    split; [|exact I]. destruct IHe0_1 as [IHl _]. destruct IHe0_2 as [IHr IHrx].
    intros Hn Hdf. unfold node_okv in Hn. apply andb_true_iff in Hn. destruct Hn as [Hn Hk].
    apply node_ok_split in Hn. destruct Hn as [Hw [Hc [Hps Hcn]]].
    cbn [wtt] in Hw. apply andb_true_iff in Hw. destruct Hw as [Hw Hop].
    apply andb_true_iff in Hw. destruct Hw as [Hwl Hwr].
    destruct (op_check_t fo p o e0_1 e0_2) as [u| | |] eqn:Eop; try discriminate Hop. destruct u. clear Hop.
    cbn [core2] in Hc. apply andb_true_iff in Hc. destruct Hc as [Hco Hcl].
    cbn [params_static] in Hps. apply andb_true_iff in Hps. destruct Hps as [Hpl Hpr].
    cbn [counts_ok] in Hcn. apply andb_true_iff in Hcn. destruct Hcn as [Hnl Hnr].
    cbn [in_kinds] in Hk. apply andb_true_iff in Hk. destruct Hk as [Hk Hkr].
    apply andb_true_iff in Hk. destruct Hk as [Hko Hkl].
    cbn [defs_ok] in Hdf. apply andb_true_iff in Hdf. destruct Hdf as [Hdl Hdr].
    pose proof (node_ok_intro fo _ Hwl Hcl Hpl Hnl) as Nl. pose proof (defs_okv_ok _ Hdl) as Dl.
    pose proof (IHl (node_okv_intro _ Hwl Hcl Hpl Hnl Hkl) Hdl) as Vl.
    assert (HNr : core2 e0_2 = true -> node_ok e0_2 = true) by (intros Hcr; exact (node_ok_intro fo _ Hwr Hcr Hpr Hnr)).
    pose proof (defs_okv_ok _ Hdr) as Dr.
    assert (HVr : core2 e0_2 = true -> vec_ok ch e0_2)
      by (intros Hcr; exact (IHr (node_okv_intro _ Hwr Hcr Hpr Hnr Hkr) Hdr)).
    unfold vec_ok.
    destruct o; cbn [op_check_t CheckerProofs.op_check] in Eop; try discriminate Eop; try discriminate Hco.
    + (* & *) apply check_andor_spec in Eop. destruct Eop as [Hl Hrt].
      rewrite (evb_andor p OAnd) by tauto. apply bin_both; auto.
      intros x y Vx Vy. rewrite Hl in Vx. rewrite Hrt in Vy.
      destruct x; try discriminate Vx; destruct y; try discriminate Vy; exact I.
    + apply check_andor_spec in Eop. destruct Eop as [Hl Hrt].
      rewrite (evb_andor p OOr) by tauto. apply bin_both; auto.
      intros x y Vx Vy. rewrite Hl in Vx. rewrite Hrt in Vy.
      destruct x; try discriminate Vx; destruct y; try discriminate Vy; exact I.
    + (* = *) apply check_compares_spec in Eop; [|reflexivity]. destruct Eop as [_ [Ht Hcc]]. cbn [cmp_cond] in Hcc.
      rewrite evb_eq. apply okerr_bind; [eapply okerr_weaken; [|exact Vl]; intros x; apply in_sites2_l|]. intros ls El.
      apply okerr_bind; [eapply okerr_weaken; [|exact (HVr Hco)]; intros x; apply in_sites2_r|]. intros rs Er.
      destruct (col_typed _ _ _ Nl Dl El) as [L1 T1]. destruct (col_typed _ _ _ (HNr Hco) Dr Er) as [L2 T2].
      rewrite <- Ht in T2. exact (equal_batch_okerr _ (rtype e0_1) false p ls rs Hcc L1 L2 T1 T2).
    + apply check_compares_spec in Eop; [|reflexivity]. destruct Eop as [_ [Ht Hcc]]. cbn [cmp_cond] in Hcc.
      rewrite evb_neq. apply okerr_bind; [eapply okerr_weaken; [|exact Vl]; intros x; apply in_sites2_l|]. intros ls El.
      apply okerr_bind; [eapply okerr_weaken; [|exact (HVr Hco)]; intros x; apply in_sites2_r|]. intros rs Er.
      destruct (col_typed _ _ _ Nl Dl El) as [L1 T1]. destruct (col_typed _ _ _ (HNr Hco) Dr Er) as [L2 T2].
      rewrite <- Ht in T2. exact (equal_batch_okerr _ (rtype e0_1) true p ls rs Hcc L1 L2 T1 T2).
    + (* ^= *) apply check_compares_spec in Eop; [|reflexivity]. destruct Eop as [_ [Ht Hcc]]. cbn [cmp_cond] in Hcc.
      apply ty_eqb_eq in Hcc. rewrite evb_prefix. apply bin_both; auto.
      intros x y Vx Vy. rewrite Hcc in Vx. rewrite <- Ht, Hcc in Vy.
      destruct (conv_bytes_typed fo x Vx) as [a ->]. destruct (conv_bytes_typed fo y Vy) as [b ->]. exact I.
    + (* ~= *) apply check_compares_spec in Eop; [|reflexivity]. destruct Eop as [_ [Ht Hcc]]. cbn [cmp_cond] in Hcc.
      apply ty_eqb_eq in Hcc. rewrite evb_regexp. apply bin_both; auto.
      intros x y Vx Vy. rewrite Hcc in Vx. rewrite <- Ht, Hcc in Vy.
      destruct (conv_bytes_typed fo x Vx) as [a ->]. destruct (conv_bytes_typed fo y Vy) as [b ->].
      pose proof (re_ok b a) as Hre. destruct (re b a) as [m|e| |]; cbn [bind okerr]; try assumption; try exact I.
      subst e. cbn [sites2]. left. reflexivity.
    + (* + *) apply check_math_spec in Eop; [|reflexivity].
      destruct Eop as [[[_ [Hl Hrt]]|[Hl Hrt]] _].
      * rewrite (evb_add_str p _ _ Hl). apply bin_both; auto.
        intros x y Vx Vy. rewrite Hl in Vx. rewrite Hrt in Vy.
        destruct (conv_bytes_typed fo x Vx) as [a ->]. destruct (conv_bytes_typed fo y Vy) as [b ->]. exact I.
      * rewrite (evb_math p OAdd) by (left; split; [reflexivity|exact Hl]). apply bin_both; auto.
        intros x y Vx Vy. rewrite Hl in Vx. rewrite Hrt in Vy.
        pose proof (math_op_typed fo x y OAdd (epos e0_2) (or_introl eq_refl) Vx Vy) as Hm.
        destruct (math_op fo x y OAdd (epos e0_2)); cbn [okerr]; try assumption; try exact I.
        destruct Hm as [Hm _]; discriminate Hm.
    + apply check_math_spec in Eop; [|reflexivity].
      destruct Eop as [[[Ho _]|[Hl Hrt]] _]; [discriminate Ho|].
      rewrite (evb_math p OSub) by tauto. apply bin_both; auto.
      intros x y Vx Vy. rewrite Hl in Vx. rewrite Hrt in Vy.
      pose proof (math_op_typed fo x y OSub (epos e0_2) (or_intror (or_introl eq_refl)) Vx Vy) as Hm.
      destruct (math_op fo x y OSub (epos e0_2)); cbn [okerr]; try assumption; try exact I.
      destruct Hm as [Hm _]; discriminate Hm.
    + apply check_math_spec in Eop; [|reflexivity].
      destruct Eop as [[[Ho _]|[Hl Hrt]] _]; [discriminate Ho|].
      rewrite (evb_math p OMul) by tauto. apply bin_both; auto.
      intros x y Vx Vy. rewrite Hl in Vx. rewrite Hrt in Vy.
      pose proof (math_op_typed fo x y OMul (epos e0_2) (or_intror (or_intror (or_introl eq_refl))) Vx Vy) as Hm.
      destruct (math_op fo x y OMul (epos e0_2)); cbn [okerr]; try assumption; try exact I.
      destruct Hm as [Hm _]; discriminate Hm.
    + apply check_math_spec in Eop; [|reflexivity].
      destruct Eop as [[[Ho _]|[Hl Hrt]] _]; [discriminate Ho|].
      rewrite (evb_math p ODiv) by tauto. apply bin_both; auto.
      intros x y Vx Vy. rewrite Hl in Vx. rewrite Hrt in Vy.
      pose proof (math_op_typed fo x y ODiv (epos e0_2) (or_intror (or_intror (or_intror eq_refl))) Vx Vy) as Hm.
      destruct (math_op fo x y ODiv (epos e0_2)); cbn [okerr]; try assumption; try exact I.
      destruct Hm as [_ ->]. cbn [sites2]. left. reflexivity.
    + (* > *) apply check_compares_spec in Eop; [|reflexivity]. destruct Eop as [_ [Ht Hcc]]. cbn [cmp_cond] in Hcc.
      rewrite (evb_cmp p OGt) by tauto.
      destruct (rtype e0_1) eqn:Et; try discriminate Hcc; apply bin_both; auto; intros x y Vx Vy;
        rewrite Et in Vx; rewrite <- Ht in Vy.
      * exact (okerr_cmp _ false x y _ Vx Vy).
      * exact (okerr_cmp _ true x y _ Vx Vy).
    + apply check_compares_spec in Eop; [|reflexivity]. destruct Eop as [_ [Ht Hcc]]. cbn [cmp_cond] in Hcc.
      rewrite (evb_cmp p OGte) by tauto.
      destruct (rtype e0_1) eqn:Et; try discriminate Hcc; apply bin_both; auto; intros x y Vx Vy;
        rewrite Et in Vx; rewrite <- Ht in Vy.
      * exact (okerr_cmp _ false x y _ Vx Vy).
      * exact (okerr_cmp _ true x y _ Vx Vy).
    + apply check_compares_spec in Eop; [|reflexivity]. destruct Eop as [_ [Ht Hcc]]. cbn [cmp_cond] in Hcc.
      rewrite (evb_cmp p OLt) by tauto.
      destruct (rtype e0_1) eqn:Et; try discriminate Hcc; apply bin_both; auto; intros x y Vx Vy;
        rewrite Et in Vx; rewrite <- Ht in Vy.
      * exact (okerr_cmp _ false x y _ Vx Vy).
      * exact (okerr_cmp _ true x y _ Vx Vy).
    + apply check_compares_spec in Eop; [|reflexivity]. destruct Eop as [_ [Ht Hcc]]. cbn [cmp_cond] in Hcc.
      rewrite (evb_cmp p OLte) by tauto.
      destruct (rtype e0_1) eqn:Et; try discriminate Hcc; apply bin_both; auto; intros x y Vx Vy;
        rewrite Et in Vx; rewrite <- Ht in Vy.
      * exact (okerr_cmp _ false x y _ Vx Vy).
      * exact (okerr_cmp _ true x y _ Vx Vy).
    + (* in *)
      apply check_in_spec in Eop. destruct Eop as [Hs Hr].
      pose proof (number_flag _ Hs) as Hnf.
      destruct e0_2; try discriminate Hco; try contradiction.
      * (* a function call *)
        rewrite evb_in_fn by exact I. apply okerr_bind; [eapply okerr_weaken; [|exact Vl]; intros x; apply in_sites2_l|]. intros ls El.
        apply okerr_bind; [eapply okerr_weaken; [|exact (HVr Hco)]; intros x; apply in_sites2_r|]. intros rs Er.
        destruct (col_typed _ _ _ Nl Dl El) as [L1 T1]. destruct (col_typed _ _ _ (HNr Hco) Dr Er) as [L2 _].
        destruct (lkind (ECall pos e0_2 args)) as [kd|] eqn:Ek; [|discriminate Hko].
        cbn [obool_eqb] in Hko. apply Bool.eqb_prop in Hko. subst kd.
        pose proof (col_lkind _ _ _ _ Ek Er) as Tk.
        eapply vmap2_okerr; [congruence | exact T1 | exact Tk |]. cbn beta. intros x y Vx Ky.
        apply in_fn_at_okerr; [rewrite Hnf; exact Vx | exact Ky].
      * (* a field reference *)
        rewrite evb_in_fn by exact I. apply okerr_bind; [eapply okerr_weaken; [|exact Vl]; intros x; apply in_sites2_l|]. intros ls El.
        apply okerr_bind; [eapply okerr_weaken; [|exact (HVr Hco)]; intros x; apply in_sites2_r|]. intros rs Er.
        destruct (col_typed _ _ _ Nl Dl El) as [L1 T1]. destruct (col_typed _ _ _ (HNr Hco) Dr Er) as [L2 _].
        destruct (lkind (ERef pos name e0_2)) as [kd|] eqn:Ek; [|discriminate Hko].
        cbn [obool_eqb] in Hko. apply Bool.eqb_prop in Hko. subst kd.
        pose proof (col_lkind _ _ _ _ Ek Er) as Tk.
        eapply vmap2_okerr; [congruence | exact T1 | exact Tk |]. cbn beta. intros x y Vx Ky.
        apply in_fn_at_okerr; [rewrite Hnf; exact Vx | exact Ky].
      * (* an explicit list *)
        apply first_mistyped_none in Hr.
        cbn [wtt] in Hwr. apply andb_true_iff in Hwr. destruct Hwr as [Hwi _].
        cbn [params_static] in Hpr. cbn [counts_ok] in Hnr. cbn [defs_ok] in Hdr. cbn [in_kinds] in Hkr.
        rewrite evb_in_list. apply okerr_bind; [eapply okerr_weaken; [|exact Vl]; intros x; apply in_sites2_l|]. intros ls El.
        destruct (col_typed _ _ _ Nl Dl El) as [L1 T1].
        set (number := match rtype e0_1 with TStr => false | _ => true end) in *.
        assert (Hty : Forall (fun it => rtype it = (if number then TNumber else TStr)) l) by (rewrite Hnf; exact Hr).
        pose proof (in_cols_okerr number l Hty (ready_items _ Hwi Hco Hpr Hnr (defs_items_ok _ Hdr))
                      (vsafe_items _ IHrx Hwi Hco Hpr Hnr Hkr Hdr)) as Hcols.
        destruct (in_cols fo number l (map (fun it => evb it ch) l)) as [cols|x| |]; cbn [bind okerr];
          [ | apply in_sites2_r; exact Hcols | contradiction | exact I].
        apply in_rows_okerr; [rewrite Hnf; exact T1|].
        eapply Forall_impl; [|exact Hcols]. cbn beta. intros col [Lc Tc]. split; [congruence|exact Tc].
    + (* between *) unfold check_between in Eop.
      destruct e0_2; try discriminate Eop. destruct l as [|lo [|hi [|]]]; try discriminate Eop.
      destruct (is_strnum_ty (rtype e0_1)) eqn:Hs; cbn [negb] in Eop; [|discriminate].
      destruct (ty_eqb (rtype lo) (rtype e0_1) && ty_eqb (rtype hi) (rtype e0_1)) eqn:Eb; [|discriminate].
      apply andb_true_iff in Eb. destruct Eb as [Elo Ehi]. apply ty_eqb_eq in Elo, Ehi.
      pose proof (number_flag _ Hs) as Hnf.
      cbn [wtt] in Hwr. apply andb_true_iff in Hwr. destruct Hwr as [Hwi _].
      cbn [params_static] in Hpr. cbn [counts_ok] in Hnr. cbn [defs_ok] in Hdr. cbn [in_kinds] in Hkr.
      pose proof (vsafe_items _ IHrx Hwi Hco Hpr Hnr Hkr Hdr) as Hvs.
      pose proof (ready_items _ Hwi Hco Hpr Hnr (defs_items_ok _ Hdr)) as Hrs.
      inversion Hvs as [|? ? Vlo Hvs']; subst. inversion Hvs' as [|? ? Vhi _]; subst.
      inversion Hrs as [|? ? [Nlo Dlo] Hrs']; subst. inversion Hrs' as [|? ? [Nhi Dhi] _]; subst.
      rewrite evb_between. cbv zeta. rewrite Hnf, Elo, Ehi.
      replace (ty_eqb (rtype e0_1) (rtype e0_1)) with true by (symmetry; apply ty_eqb_eq; reflexivity).
      cbn [negb andb]. rewrite andb_false_r.
      apply okerr_bind; [eapply okerr_weaken; [|exact Vl]; intros x; apply in_sites2_l|]. intros ls El.
      apply okerr_bind; [eapply okerr_weaken; [|exact Vlo]; intros x Hx;
                         apply (in_sites2_item x p OBetween e0_1 pos [lo; hi] lo); [left; reflexivity|exact Hx]|].
      intros los Elos.
      apply okerr_bind; [eapply okerr_weaken; [|exact Vhi]; intros x Hx;
                         apply (in_sites2_item x p OBetween e0_1 pos [lo; hi] hi); [right; left; reflexivity|exact Hx]|].
      intros his Ehis.
      destruct (col_typed _ _ _ Nl Dl El) as [L1 T1]. destruct (col_typed _ _ _ Nlo Dlo Elos) as [L2 T2].
      destruct (col_typed _ _ _ Nhi Dhi Ehis) as [L3 T3]. rewrite Elo in T2. rewrite Ehi in T3.
      eapply vmap3_okerr; [congruence | congruence | exact T2 | exact T3 | exact T1 |]. cbn beta.
      intros x y z Vx Vy Vz. rewrite <- Hnf in Vx, Vy, Vz.
      eapply okerr_weaken; [|exact (between_at_okerr _ p x y z Vx Vy Vz)].
      intros e ->. cbn [sites2]. left. reflexivity.
    + (* and *) apply check_andor_spec in Eop. destruct Eop as [Hl Hrt].
      rewrite (evb_andor p OKWAnd) by tauto. apply bin_both; auto.
      intros x y Vx Vy. rewrite Hl in Vx. rewrite Hrt in Vy.
      destruct x; try discriminate Vx; destruct y; try discriminate Vy; exact I.
    + apply check_andor_spec in Eop. destruct Eop as [Hl Hrt].
      rewrite (evb_andor p OKWOr) by tauto. apply bin_both; auto.
      intros x y Vx Vy. rewrite Hl in Vx. rewrite Hrt in Vy.
      destruct x; try discriminate Vx; destruct y; try discriminate Vy; exact I.
  - (* EField *)
    split; [|exact I]. intros _ _. unfold vec_ok. destruct f; exact I.
  - split; [|exact I]. intros _ _. exact I.
  - (* ENot *)
    split; [|exact I]. destruct IHe0 as [IHr _]. intros Hn Hdf.
    unfold node_okv in Hn. apply andb_true_iff in Hn. destruct Hn as [Hn Hk].
    apply node_ok_split in Hn. destruct Hn as [Hw [Hc [Hps Hcn]]].
    cbn [wtt] in Hw. apply andb_true_iff in Hw. destruct Hw as [Hwr Hb]. apply ty_eqb_eq in Hb.
    cbn [core2] in Hc. cbn [params_static] in Hps. cbn [counts_ok] in Hcn. cbn [defs_ok] in Hdf. cbn [in_kinds] in Hk.
    pose proof (IHr (node_okv_intro _ Hwr Hc Hps Hcn Hk) Hdf) as Vr.
    unfold vec_ok in *. cbn [EvalVec.eval_batch sites2].
    apply okerr_bind; [exact Vr|]. intros rs Er.
    destruct (col_typed _ _ _ (node_ok_intro fo _ Hwr Hc Hps Hcn) (defs_okv_ok _ Hdf) Er) as [L T].
    eapply vmap_okerr; [exact T|]. cbn beta. intros x Vx. rewrite Hb in Vx. destruct x; try discriminate Vx. exact I.
  - (* ECall *)
    split; [|exact I]. clear IHe0. intros Hn Hdf.
    unfold node_okv in Hn. apply andb_true_iff in Hn. destruct Hn as [Hn Hk].
    apply node_ok_split in Hn. destruct Hn as [Hw [Hc [Hps Hcn]]].
    cbn [core2] in Hc. apply andb_true_iff in Hc. destruct Hc as [Hcf Hca].
    destruct (call_name e0) as [nm|] eqn:En; [|discriminate Hcf].
    cbn [params_static] in Hps. rewrite En in Hps. apply andb_true_iff in Hps. destruct Hps as [Hpo Hpa].
    cbn [counts_ok] in Hcn. rewrite En in Hcn. apply andb_true_iff in Hcn. destruct Hcn as [Hcnt Hcna].
    assert (Hfi : exists x, func_info nm = Some x).
    { unfold core2_fn in Hcf. destruct (func_info nm); [eauto|discriminate Hcf]. }
    destruct Hfi as [[[na va] t] Hfi]. rewrite Hfi in Hcnt.
    cbn [wtt] in Hw. cbn [defs_ok] in Hdf. cbn [in_kinds] in Hk.
    assert (HS : Forall vsafe_at args) by (eapply Forall_impl; [|exact H]; intros y [Hy _]; exact Hy).
    pose proof (vsafe_items _ HS Hw Hca Hpa Hcna Hk Hdf) as Hvs.
    pose proof (ready_items _ Hw Hca Hpa Hcna (defs_items_ok _ Hdf)) as Hrs.
    pose proof (apply_func_vec_okerr nm args Hcf Hcnt Hpo Hrs Hvs) as G.
    unfold vec_ok. destruct e0; try discriminate En. cbn [EvalVec.eval_batch]. rewrite En, Hfi.
    unfold count_fits in Hcnt. rewrite Hfi in Hcnt. apply negb_true_iff in Hcnt. rewrite Hcnt.
    cbn [sites2]. unfold call_sites. rewrite En. destruct (is_distance nm); exact G.
  - (* EName *)
    split; [|exact I]. intros _ _. exact I.
  - (* ERef *)
    split; [|exact I]. destruct IHe0 as [IHd _]. intros _ Hdf. cbn [defs_ok] in Hdf.
    apply andb_true_iff in Hdf. destruct Hdf as [Hnd Hdd]. exact (IHd Hnd Hdd).
  - (* ENum *)
    split; [|exact I]. intros _ _. exact I.
  - (* EFloat *)
    split; [|exact I]. intros _ _.
    unfold vec_ok. cbn [EvalVec.eval_batch]. unfold float_value. destruct (f_parse fo d); exact I.
  - split; [|exact I]. intros _ _. exact I.
  - (* EList *)
    assert (HS : Forall vsafe_at l) by (eapply Forall_impl; [|exact H]; intros x [Hx _]; exact Hx).
    split; [|exact HS]. intros _ _. exact I.
  - (* EAccess *)
    split; [|exact I]. intros Hn _. unfold node_okv in Hn. apply andb_true_iff in Hn. destruct Hn as [Hn _].
    apply node_ok_split in Hn. destruct Hn as [_ [Hc _]]. discriminate Hc.
Qed.

End Chunk.

(* ExecuteBatch of an accepted tree on any chunk: a full column of values of the static type, or
   a data-dependent failure of the tree; never an operand-type error, never a panic *)
Definition dyn_ok_vec (ch : list kvpair) (e : expr) : Prop :=
  match evb e ch with
  | Ok col => List.length col = List.length ch /\ Forall (fun b => vty2 b (rtype e) = true) col
  | Err x => In x (sites2 e)
  | Panic => False
  | OutOfModel => True
  end.

Theorem eval_batch_typed_safe : forall e ch,
  node_okv e = true -> defs_ok node_okv e = true -> dyn_ok_vec ch e.
Proof.
  intros e ch Hn Hd. unfold dyn_ok_vec.
  pose proof (eval_batch_safe2 ch e Hn Hd) as V. unfold vec_ok, okerr in V.
  destruct (evb e ch) as [col|x| |] eqn:E; try assumption.
  exact (col_typed e ch col (node_okv_ok _ Hn) (defs_okv_ok _ Hd) E).
Qed.
End TSV.
End WV.

(* ---------------------------------------------------------------- what the file exports, stated
   with the constants of the original files *)
Section Export.
Variable fo : fops.
Variable re : bytes -> bytes -> res bool.
Hypothesis re_ok : forall p t, match re p t with Err x => x = EOther | Panic => False | _ => True end.

Theorem eval_safe2_weak : forall k v e,
  node_okt fo e = true -> defs_ok (node_okt fo) e = true -> dyn_ok2 fo re k v e.
Proof. intros k v e Hn Hd. exact (W2.eval_safe2 fo re re_ok k v e Hn Hd). Qed.

Theorem eval_batch_safe_weak : forall e ch,
  node_oktv fo e = true -> defs_ok (node_oktv fo) e = true -> dyn_ok_vec fo re ch e.
Proof. intros e ch Hn Hd. exact (WV.eval_batch_typed_safe fo re re_ok e ch Hn Hd). Qed.

Lemma node_oktv_okt : forall e, node_oktv fo e = true -> node_okt fo e = true.
Proof. intros e H. unfold node_oktv in H. apply andb_true_iff in H. tauto. Qed.

Lemma defs_oktv_okt : forall e, defs_ok (node_oktv fo) e = true -> defs_ok (node_okt fo) e = true.
Proof. apply defs_ok_mono. exact node_oktv_okt. Qed.
End Export.
