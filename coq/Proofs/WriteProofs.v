(* Proofs/WriteProofs.v -- PUT and REMOVE apply exactly the stated writes, once, all-or-nothing
   (C12).  Everything is stated for an arbitrary expression type E and an arbitrary evaluator
   ev : E -> key -> value -> res bytes. *)
From Coq Require Import List String Bool Arith Lia.
Import ListNotations.
From KV Require Import Base.Bytes Model.Storage Model.Write Proofs.StorageProofs.

Set Implicit Arguments.
Local Open Scope list_scope.

Section WriteProofs.
Variable E : Type.
Variable ev : E -> bytes -> bytes -> res bytes.

(* ------------------------------------------------------------------ the specification side *)

(* pair i evaluates to (k, v): the key expression on the empty pair, the value expression on
   the pair whose key is the evaluated key *)
Definition pair_evals (pr : E * E) (kv : kvp) : Prop :=
  ev (fst pr) EmptyString EmptyString = Ok (fst kv) /\
  ev (snd pr) (fst kv) EmptyString = Ok (snd kv).
Definition pairs_eval (prs : list (E * E)) (kvs : list kvp) : Prop := Forall2 pair_evals prs kvs.

Definition pair_fails (pr : E * E) : Prop :=
  (exists e, ev (fst pr) EmptyString EmptyString = Err e) \/
  (exists k e, ev (fst pr) EmptyString EmptyString = Ok k /\ ev (snd pr) k EmptyString = Err e).

Definition keys_eval (ks : list E) (keys : list bytes) : Prop :=
  Forall2 (fun k key => ev k EmptyString EmptyString = Ok key) ks keys.
Definition key_fails (k : E) : Prop := exists e, ev k EmptyString EmptyString = Err e.

(* the single write call a statement is allowed to issue *)
Definition put_call (kvs : list kvp) : list scall :=
  match kvs with
  | [] => []
  | [kv] => [CPut (fst kv) (snd kv)]
  | _ => [CBatchPut kvs]
  end.
Definition remove_call (keys : list bytes) : list scall :=
  match keys with
  | [] => []
  | [k] => [CDelete k]
  | _ => [CBatchDelete keys]
  end.

Definition idle (n : nat) : list pres := repeat (None, None) n.

(* ------------------------------------------------------------------ evaluation loop vs. spec *)

Lemma process_kvpairs_ok : forall prs kvs,
  process_kvpairs ev prs = Ok kvs <-> pairs_eval prs kvs.
Proof.
  induction prs as [|pr prs IH]; intros kvs; cbn [process_kvpairs].
  - split.
    + intros H. injection H as <-. constructor.
    + intros H. inversion H. reflexivity.
  - unfold process_kvpair. split.
    + destruct (ev (fst pr) EmptyString EmptyString) as [k|e] eqn:Ek; [|discriminate].
      destruct (ev (snd pr) k EmptyString) as [v|e] eqn:Ev; [|discriminate].
      destruct (process_kvpairs ev prs) as [kvs'|e] eqn:Er; [|discriminate].
      intros H. injection H as <-. constructor; [split; assumption|].
      apply IH. reflexivity.
    + intros H. inversion H as [|pr' kv prs' kvs' [Hk Hv] Hr]; subst.
      rewrite Hk, Hv. apply IH in Hr. rewrite Hr. destruct kv; reflexivity.
Qed.

Lemma process_kvpairs_err : forall prs e,
  process_kvpairs ev prs = Err e -> Exists pair_fails prs.
Proof.
  induction prs as [|pr prs IH]; intros e; cbn [process_kvpairs]; [discriminate|].
  unfold process_kvpair.
  destruct (ev (fst pr) EmptyString EmptyString) as [k|e1] eqn:Ek.
  - destruct (ev (snd pr) k EmptyString) as [v|e2] eqn:Ev.
    + destruct (process_kvpairs ev prs) as [kvs'|e3] eqn:Er; [discriminate|].
      intros _. apply Exists_cons_tl. eapply IH. reflexivity.
    + intros _. apply Exists_cons_hd. right. exists k, e2. split; assumption.
  - intros _. apply Exists_cons_hd. left. exists e1. exact Ek.
Qed.

Lemma process_kvpairs_fails : forall prs,
  Exists pair_fails prs -> exists e, process_kvpairs ev prs = Err e.
Proof.
  induction prs as [|pr prs IH]; intros H; [inversion H|].
  cbn [process_kvpairs]. unfold process_kvpair.
  destruct (ev (fst pr) EmptyString EmptyString) as [k|e1] eqn:Ek; [|eauto].
  destruct (ev (snd pr) k EmptyString) as [v|e2] eqn:Ev; [|eauto].
  inversion H as [pr' prs' Hf|pr' prs' Hf]; subst.
  - destruct Hf as [[e He]|[k' [e [Hk He]]]]; [congruence|].
    rewrite Ek in Hk. injection Hk as <-. congruence.
  - destruct (IH Hf) as [e He]. rewrite He. eauto.
Qed.

Lemma process_keys_ok : forall ks keys,
  process_keys ev ks = Ok keys <-> keys_eval ks keys.
Proof.
  induction ks as [|k ks IH]; intros keys; cbn [process_keys].
  - split.
    + intros H. injection H as <-. constructor.
    + intros H. inversion H. reflexivity.
  - unfold process_key. split.
    + destruct (ev k EmptyString EmptyString) as [key|e] eqn:Ek; [|discriminate].
      destruct (process_keys ev ks) as [keys'|e] eqn:Er; [|discriminate].
      intros H. injection H as <-. constructor; [assumption|]. apply IH. reflexivity.
    + intros H. inversion H as [|k' key ks' keys' Hk Hr]; subst.
      rewrite Hk. apply IH in Hr. rewrite Hr. reflexivity.
Qed.

Lemma process_keys_err : forall ks e,
  process_keys ev ks = Err e -> Exists key_fails ks.
Proof.
  induction ks as [|k ks IH]; intros e; cbn [process_keys]; [discriminate|].
  unfold process_key.
  destruct (ev k EmptyString EmptyString) as [key|e1] eqn:Ek.
  - destruct (process_keys ev ks) as [keys'|e3] eqn:Er; [discriminate|].
    intros _. apply Exists_cons_tl. eapply IH. reflexivity.
  - intros _. apply Exists_cons_hd. exists e1. exact Ek.
Qed.

Lemma process_keys_fails : forall ks,
  Exists key_fails ks -> exists e, process_keys ev ks = Err e.
Proof.
  induction ks as [|k ks IH]; intros H; [inversion H|].
  cbn [process_keys]. unfold process_key.
  destruct (ev k EmptyString EmptyString) as [key|e1] eqn:Ek; [|eauto].
  inversion H as [k' ks' Hf|k' ks' Hf]; subst.
  - destruct Hf as [e He]. congruence.
  - destruct (IH Hf) as [e He]. rewrite He. eauto.
Qed.

(* every statement either evaluates or has a failing expression *)
Lemma pairs_eval_or_fail : forall prs, (exists kvs, pairs_eval prs kvs) \/ Exists pair_fails prs.
Proof.
  intros prs. destruct (process_kvpairs ev prs) as [kvs|e] eqn:H.
  - left. exists kvs. apply process_kvpairs_ok. exact H.
  - right. eapply process_kvpairs_err. exact H.
Qed.

Lemma keys_eval_or_fail : forall ks, (exists keys, keys_eval ks keys) \/ Exists key_fails ks.
Proof.
  intros ks. destruct (process_keys ev ks) as [keys|e] eqn:H.
  - left. exists keys. apply process_keys_ok. exact H.
  - right. eapply process_keys_err. exact H.
Qed.

(* ------------------------------------------------------------------ execute, fault-free *)

Lemma sput_all_one : forall kv st, sput (fst kv) (snd kv) st = sput_all [kv] st.
Proof. reflexivity. Qed.

Lemma put_execute_ok : forall prs kvs s,
  pairs_eval prs kvs -> sfault s = None ->
  put_execute ev prs s =
    ((List.length kvs, None), SState (sput_all kvs (sdata s)) (slog s ++ put_call kvs) None).
Proof.
  intros prs kvs [d l f] Hp Hf. cbn [sfault] in Hf. subst f.
  apply process_kvpairs_ok in Hp. unfold put_execute. rewrite Hp.
  destruct kvs as [|kv [|kv2 kvs]].
  - cbn. rewrite app_nil_r. reflexivity.
  - reflexivity.
  - reflexivity.
Qed.

Lemma remove_execute_ok : forall ks keys s,
  keys_eval ks keys -> sfault s = None ->
  remove_execute ev ks s =
    ((List.length keys, None), SState (sdel_all keys (sdata s)) (slog s ++ remove_call keys) None).
Proof.
  intros ks keys [d l f] Hp Hf. cbn [sfault] in Hf. subst f.
  apply process_keys_ok in Hp. unfold remove_execute. rewrite Hp.
  destruct keys as [|k [|k2 keys]].
  - cbn. rewrite app_nil_r. reflexivity.
  - reflexivity.
  - reflexivity.
Qed.

(* whatever the fault index: the log grows by exactly the one call, nothing else *)
Lemma put_execute_log : forall prs kvs s,
  pairs_eval prs kvs -> slog (snd (put_execute ev prs s)) = slog s ++ put_call kvs.
Proof.
  intros prs kvs s Hp. apply process_kvpairs_ok in Hp. unfold put_execute. rewrite Hp.
  destruct kvs as [|kv [|kv2 kvs]].
  - cbn. rewrite app_nil_r. reflexivity.
  - unfold st_put, call. destruct (faulted s); reflexivity.
  - unfold st_batch_put, call. destruct (faulted s); reflexivity.
Qed.

Lemma remove_execute_log : forall ks keys s,
  keys_eval ks keys -> slog (snd (remove_execute ev ks s)) = slog s ++ remove_call keys.
Proof.
  intros ks keys s Hp. apply process_keys_ok in Hp. unfold remove_execute. rewrite Hp.
  destruct keys as [|k [|k2 keys]].
  - cbn. rewrite app_nil_r. reflexivity.
  - unfold st_delete, call. destruct (faulted s); reflexivity.
  - unfold st_batch_delete, call. destruct (faulted s); reflexivity.
Qed.

Lemma put_execute_fails : forall prs s,
  Exists pair_fails prs -> exists e, put_execute ev prs s = ((0, Some e), s).
Proof.
  intros prs s H. destruct (process_kvpairs_fails H) as [e He].
  exists e. unfold put_execute. rewrite He. reflexivity.
Qed.

Lemma remove_execute_fails : forall ks s,
  Exists key_fails ks -> exists e, remove_execute ev ks s = ((0, Some e), s).
Proof.
  intros ks s H. destruct (process_keys_fails H) as [e He].
  exists e. unfold remove_execute. rewrite He. reflexivity.
Qed.

(* ------------------------------------------------------------------ polling *)

(* once executed, every poll is idle and changes nothing *)
Lemma run_polls_executed : forall (pl : wplan E) polls s,
  run_polls ev pl polls true s = (idle (List.length polls), true, s).
Proof.
  intros pl polls s. induction polls as [|p polls IH]; cbn [run_polls]; [reflexivity|].
  assert (H : wpoll ev pl p true s = ((None, None), true, s)) by (destruct pl, p; reflexivity).
  rewrite H, IH. reflexivity.
Qed.

(* the first poll executes and sets the flag, whatever the outcome *)
Lemma wpoll_first : forall (pl : wplan E) p s,
  exists r s', wpoll ev pl p false s = (r, true, s').
Proof.
  intros pl p s. destruct pl as [prs|ks], p; cbn [wpoll];
    unfold put_next, put_batch, remove_next, remove_batch; cbn [negb].
  - destruct (put_execute ev prs s) as [[n e] s']. eauto.
  - destruct (put_execute ev prs s) as [[n e] s']. eauto.
  - destruct (remove_execute ev ks s) as [[n e] s']. eauto.
  - destruct (remove_execute ev ks s) as [[n e] s']. eauto.
Qed.

(* exactly once, part 1: polling a finished plan again (any pattern of Next / Batch) returns
   nil and leaves data, log and fault state exactly as the first poll left them *)
Lemma polls_idempotent : forall (pl : wplan E) p polls s,
  wexec ev pl (p :: polls) s =
    (fst (wexec ev pl [p] s) ++ idle (List.length polls), snd (wexec ev pl [p] s)).
Proof.
  intros pl p polls s. unfold wexec, wbuild, winit. cbn [run_polls].
  destruct (wpoll_first pl p s) as [r [s' H]]. rewrite H.
  rewrite run_polls_executed. reflexivity.
Qed.

(* Next and Batch are interchangeable for the first poll *)
Lemma first_poll_kind : forall (pl : wplan E) s, wexec ev pl [PNext] s = wexec ev pl [PBatch] s.
Proof. intros [prs|ks] s; reflexivity. Qed.

(* ------------------------------------------------------------------ PUT *)

Lemma wexec_put_ok : forall prs kvs p polls s,
  pairs_eval prs kvs -> sfault s = None ->
  wexec ev (WPut prs) (p :: polls) s =
    ((Some (List.length kvs), None) :: idle (List.length polls),
     SState (sput_all kvs (sdata s)) (slog s ++ put_call kvs) None).
Proof.
  intros prs kvs p polls s Hp Hf. rewrite polls_idempotent.
  assert (H1 : wexec ev (WPut prs) [p] s =
               ([(Some (List.length kvs), None)],
                SState (sput_all kvs (sdata s)) (slog s ++ put_call kvs) None)).
  { unfold wexec, wbuild, winit. cbn [run_polls].
    destruct p; cbn [wpoll]; unfold put_next, put_batch; cbn [negb];
      rewrite (put_execute_ok s Hp Hf); reflexivity. }
  rewrite H1. reflexivity.
Qed.

Lemma put_effect_lemma : forall prs kvs p polls st,
  pairs_eval prs kvs ->
  let out := wexec ev (WPut prs) (p :: polls) (sinit st None) in
  sdata (snd out) = fold_left (fun s kv => sput (fst kv) (snd kv) s) kvs st
  /\ (forall k, sget k (sdata (snd out)) = last_binding k kvs (sget k st))
  /\ (ssorted st -> ssorted (sdata (snd out)))
  /\ fst out = (Some (List.length kvs), None) :: idle (List.length polls).
Proof.
  intros prs kvs p polls st Hp out. subst out.
  rewrite (wexec_put_ok p polls (sinit st None) Hp eq_refl). cbn [fst snd sdata sinit].
  split; [reflexivity|]. split; [|split].
  - intros k. apply sget_sput_all.
  - apply ssorted_sput_all.
  - reflexivity.
Qed.

(* ------------------------------------------------------------------ REMOVE *)

Lemma wexec_remove_ok : forall ks keys p polls s,
  keys_eval ks keys -> sfault s = None ->
  wexec ev (WRemove ks) (p :: polls) s =
    ((Some (List.length keys), None) :: idle (List.length polls),
     SState (sdel_all keys (sdata s)) (slog s ++ remove_call keys) None).
Proof.
  intros ks keys p polls s Hp Hf. rewrite polls_idempotent.
  assert (H1 : wexec ev (WRemove ks) [p] s =
               ([(Some (List.length keys), None)],
                SState (sdel_all keys (sdata s)) (slog s ++ remove_call keys) None)).
  { unfold wexec, wbuild, winit. cbn [run_polls].
    destruct p; cbn [wpoll]; unfold remove_next, remove_batch; cbn [negb];
      rewrite (remove_execute_ok s Hp Hf); reflexivity. }
  rewrite H1. reflexivity.
Qed.

Lemma remove_effect_lemma : forall ks keys p polls st,
  keys_eval ks keys ->
  let out := wexec ev (WRemove ks) (p :: polls) (sinit st None) in
  sdata (snd out) = fold_left (fun s k => sdel k s) keys st
  /\ (forall k, sget k (sdata (snd out)) = if existsb (String.eqb k) keys then None else sget k st)
  /\ (ssorted st -> ssorted (sdata (snd out)))
  /\ fst out = (Some (List.length keys), None) :: idle (List.length polls).
Proof.
  intros ks keys p polls st Hp out. subst out.
  rewrite (wexec_remove_ok p polls (sinit st None) Hp eq_refl). cbn [fst snd sdata sinit].
  split; [reflexivity|]. split; [|split].
  - intros k. apply sget_sdel_all.
  - apply ssorted_sdel_all.
  - reflexivity.
Qed.

(* ------------------------------------------------------------------ exactly once *)

(* For every polling pattern, every prior storage state (any log, any fault index): the log
   after all polls is the log before plus the ONE call of the evaluated pairs. *)
Lemma put_once_lemma : forall prs kvs p polls s,
  pairs_eval prs kvs ->
  slog (snd (wexec ev (WPut prs) (p :: polls) s)) = slog s ++ put_call kvs
  /\ wexec ev (WPut prs) (p :: polls) s =
       (fst (wexec ev (WPut prs) [p] s) ++ idle (List.length polls), snd (wexec ev (WPut prs) [p] s)).
Proof.
  intros prs kvs p polls s Hp. split; [|apply polls_idempotent].
  rewrite polls_idempotent. cbn [snd].
  unfold wexec, wbuild, winit. cbn [run_polls].
  pose proof (put_execute_log s Hp) as HL.
  destruct p; cbn [wpoll]; unfold put_next, put_batch; cbn [negb];
    destruct (put_execute ev prs s) as [[n e] s'] eqn:Ex; cbn [snd] in *; exact HL.
Qed.

Lemma remove_once_lemma : forall ks keys p polls s,
  keys_eval ks keys ->
  slog (snd (wexec ev (WRemove ks) (p :: polls) s)) = slog s ++ remove_call keys
  /\ wexec ev (WRemove ks) (p :: polls) s =
       (fst (wexec ev (WRemove ks) [p] s) ++ idle (List.length polls), snd (wexec ev (WRemove ks) [p] s)).
Proof.
  intros ks keys p polls s Hp. split; [|apply polls_idempotent].
  rewrite polls_idempotent. cbn [snd].
  unfold wexec, wbuild, winit. cbn [run_polls].
  pose proof (remove_execute_log s Hp) as HL.
  destruct p; cbn [wpoll]; unfold remove_next, remove_batch; cbn [negb];
    destruct (remove_execute ev ks s) as [[n e] s'] eqn:Ex; cbn [snd] in *; exact HL.
Qed.

Lemma put_call_one_write : forall kvs,
  List.length (writes (put_call kvs)) = if Nat.eqb (List.length kvs) 0 then 0 else 1.
Proof. intros [|kv [|kv2 kvs]]; reflexivity. Qed.

Lemma remove_call_one_write : forall keys,
  List.length (writes (remove_call keys)) = if Nat.eqb (List.length keys) 0 then 0 else 1.
Proof. intros [|k [|k2 keys]]; reflexivity. Qed.

(* ------------------------------------------------------------------ all or nothing *)

Lemma put_all_or_nothing_lemma : forall prs p polls s,
  Exists pair_fails prs ->
  exists e, wexec ev (WPut prs) (p :: polls) s = ((Some 0, Some e) :: idle (List.length polls), s).
Proof.
  intros prs p polls s H. destruct (put_execute_fails s H) as [e He]. exists e.
  rewrite polls_idempotent.
  assert (H1 : wexec ev (WPut prs) [p] s = ([(Some 0, Some e)], s)).
  { unfold wexec, wbuild, winit. cbn [run_polls].
    destruct p; cbn [wpoll]; unfold put_next, put_batch; cbn [negb]; rewrite He; reflexivity. }
  rewrite H1. reflexivity.
Qed.

Lemma remove_all_or_nothing_lemma : forall ks p polls s,
  Exists key_fails ks ->
  exists e, wexec ev (WRemove ks) (p :: polls) s = ((Some 0, Some e) :: idle (List.length polls), s).
Proof.
  intros ks p polls s H. destruct (remove_execute_fails s H) as [e He]. exists e.
  rewrite polls_idempotent.
  assert (H1 : wexec ev (WRemove ks) [p] s = ([(Some 0, Some e)], s)).
  { unfold wexec, wbuild, winit. cbn [run_polls].
    destruct p; cbn [wpoll]; unfold remove_next, remove_batch; cbn [negb]; rewrite He; reflexivity. }
  rewrite H1. reflexivity.
Qed.

(* ------------------------------------------------------------------ read your write *)

(* (k, v) is the binding of k that a left-to-right reader of the pair list ends with *)
Definition final_binding (kvs : list kvp) (k v : bytes) : Prop :=
  exists l1 l2, kvs = l1 ++ (k, v) :: l2 /\ ~ In k (map fst l2).

Lemma last_binding_notin : forall k l acc, ~ In k (map fst l) -> last_binding k l acc = acc.
Proof.
  intros k l. induction l as [|kv l IH]; intros acc H; cbn [last_binding]; [reflexivity|].
  cbn [map In] in H. rewrite IH by tauto.
  destruct (String.eqb_spec k (fst kv)); [|reflexivity]. subst k. tauto.
Qed.

Lemma last_binding_final : forall kvs k v acc,
  final_binding kvs k v -> last_binding k kvs acc = Some v.
Proof.
  intros kvs k v acc [l1 [l2 [-> H]]].
  rewrite last_binding_app. cbn [last_binding fst snd]. rewrite String.eqb_refl.
  apply last_binding_notin. exact H.
Qed.

Lemma put_read_your_write_lemma : forall prs kvs p polls st k v,
  pairs_eval prs kvs -> final_binding kvs k v ->
  sget k (sdata (snd (wexec ev (WPut prs) (p :: polls) (sinit st None)))) = Some v.
Proof.
  intros prs kvs p polls st k v Hp Hf.
  destruct (put_effect_lemma p polls st Hp) as [_ [H _]]. rewrite H.
  apply last_binding_final. exact Hf.
Qed.

Lemma remove_read_your_write_lemma : forall ks keys p polls st k,
  keys_eval ks keys -> In k keys ->
  sget k (sdata (snd (wexec ev (WRemove ks) (p :: polls) (sinit st None)))) = None.
Proof.
  intros ks keys p polls st k Hp Hin.
  destruct (remove_effect_lemma p polls st Hp) as [_ [H _]]. rewrite H.
  assert (Hx : existsb (String.eqb k) keys = true).
  { apply existsb_exists. exists k. split; [exact Hin|apply String.eqb_refl]. }
  rewrite Hx. reflexivity.
Qed.

(* untouched keys keep their prior value *)
Lemma put_frame_lemma : forall prs kvs p polls st k,
  pairs_eval prs kvs -> ~ In k (map fst kvs) ->
  sget k (sdata (snd (wexec ev (WPut prs) (p :: polls) (sinit st None)))) = sget k st.
Proof.
  intros prs kvs p polls st k Hp Hn.
  destruct (put_effect_lemma p polls st Hp) as [_ [H _]]. rewrite H.
  apply last_binding_notin. exact Hn.
Qed.

(* ------------------------------------------------------------------ statement sequences vs. a map *)

Definition kvmap := bytes -> option bytes.

(* one statement with the polls applied to its plan (at least one) *)
Definition wstmt := (wplan E * (poll * list poll))%type.

Definition run_wstmt (s : sstate) (st : wstmt) : sstate :=
  snd (wexec ev (fst st) (fst (snd st) :: snd (snd st)) s).

Definition run_seq (sts : list wstmt) (s : sstate) : sstate := fold_left run_wstmt sts s.

(* reference semantics of one statement on a map *)
Inductive step_spec : wplan E -> kvmap -> kvmap -> Prop :=
  | step_put : forall prs kvs m,
      pairs_eval prs kvs -> step_spec (WPut prs) m (fun k => last_binding k kvs (m k))
  | step_put_fail : forall prs m,
      Exists pair_fails prs -> step_spec (WPut prs) m m
  | step_remove : forall ks keys m,
      keys_eval ks keys ->
      step_spec (WRemove ks) m (fun k => if existsb (String.eqb k) keys then None else m k)
  | step_remove_fail : forall ks m,
      Exists key_fails ks -> step_spec (WRemove ks) m m.

Inductive seq_spec : list wstmt -> kvmap -> kvmap -> Prop :=
  | seq_nil : forall m, seq_spec [] m m
  | seq_cons : forall st sts m m1 m2,
      step_spec (fst st) m m1 -> seq_spec sts m1 m2 -> seq_spec (st :: sts) m m2.

Definition agrees (s : sstate) (m : kvmap) : Prop := forall k, sget k (sdata s) = m k.

Lemma run_wstmt_refines : forall st s m m',
  sfault s = None -> agrees s m -> step_spec (fst st) m m' ->
  sfault (run_wstmt s st) = None /\ agrees (run_wstmt s st) m' /\
  (ssorted (sdata s) -> ssorted (sdata (run_wstmt s st))).
Proof.
  intros [pl [p polls]] s m m' Hf Ha Hs. unfold run_wstmt. cbn [fst snd] in *.
  inversion Hs as [prs kvs m0 Hp|prs m0 Hx|ks keys m0 Hp|ks m0 Hx]; subst.
  - rewrite (wexec_put_ok p polls s Hp Hf). cbn [snd sfault sdata].
    split; [reflexivity|]. split.
    + intros k. cbn [sdata]. rewrite sget_sput_all, Ha. reflexivity.
    + apply ssorted_sput_all.
  - destruct (put_all_or_nothing_lemma p polls s Hx) as [e He]. rewrite He. cbn [snd]. auto.
  - rewrite (wexec_remove_ok p polls s Hp Hf). cbn [snd sfault sdata].
    split; [reflexivity|]. split.
    + intros k. cbn [sdata]. rewrite sget_sdel_all, Ha. reflexivity.
    + apply ssorted_sdel_all.
  - destruct (remove_all_or_nothing_lemma p polls s Hx) as [e He]. rewrite He. cbn [snd]. auto.
Qed.

Lemma sequence_refines_map_lemma : forall sts s m m',
  sfault s = None -> agrees s m -> seq_spec sts m m' ->
  agrees (run_seq sts s) m' /\ (ssorted (sdata s) -> ssorted (sdata (run_seq sts s))).
Proof.
  induction sts as [|st sts IH]; intros s m m' Hf Ha Hs; inversion Hs; subst; cbn [run_seq fold_left].
  - auto.
  - destruct (@run_wstmt_refines st s m m1 Hf Ha) as [Hf' [Ha' Hs']]; [assumption|].
    destruct (IH (run_wstmt s st) m1 m' Hf' Ha') as [A B]; [assumption|].
    split; [exact A|]. intros S. apply B, Hs', S.
Qed.

(* the reference semantics is total: every sequence has an outcome (so the theorem above is
   not vacuous for any sequence) *)
Lemma step_spec_total : forall pl m, exists m', step_spec pl m m'.
Proof.
  intros [prs|ks] m.
  - destruct (pairs_eval_or_fail prs) as [[kvs H]|H]; eexists; [eapply step_put|eapply step_put_fail]; eassumption.
  - destruct (keys_eval_or_fail ks) as [[keys H]|H]; eexists; [eapply step_remove|eapply step_remove_fail]; eassumption.
Qed.

Lemma seq_spec_total : forall sts m, exists m', seq_spec sts m m'.
Proof.
  induction sts as [|st sts IH]; intros m.
  - exists m. constructor.
  - destruct (step_spec_total (fst st) m) as [m1 H1]. destruct (IH m1) as [m2 H2].
    exists m2. econstructor; eassumption.
Qed.

End WriteProofs.

(* ------------------------------------------------------------------ a toy evaluator for the
   non-vacuity examples, and the two nearest wrong variants of PutPlan (regression witnesses) *)
Local Open Scope string_scope.

Definition ev_demo (e : string) (k v : bytes) : res bytes :=
  if String.eqb e "key" then Ok k
  else if String.eqb e "key!" then Ok (k ++ "!")
  else if String.eqb e "FAIL" then Err EExec
  else Ok e.

(* Next without "p.executed = true" *)
Definition put_next_noflag (prs : list (string * string)) (s : sstate) : sstate :=
  snd (put_execute ev_demo prs s).

Lemma noflag_refuted :
  exists prs st,
    slog (put_next_noflag prs (put_next_noflag prs (sinit st None)))
    <> slog (put_next_noflag prs (sinit st None)).
Proof. exists [("a","1")], []. cbn. discriminate. Qed.

(* execute that calls Storage.Put inside the evaluation loop *)
Fixpoint put_eager (prs : list (string * string)) (s : sstate) : option err * sstate :=
  match prs with
  | [] => (None, s)
  | pr :: prs' =>
      match process_kvpair ev_demo pr with
      | Err e => (Some e, s)
      | Ok kv => match st_put (fst kv) (snd kv) s with
                 | (Err e, s') => (Some e, s')
                 | (Ok _, s') => put_eager prs' s'
                 end
      end
  end.

Lemma eager_refuted :
  exists prs st, Exists (pair_fails ev_demo) prs /\ slog (snd (put_eager prs (sinit st None))) <> nil.
Proof.
  exists [("a","1"); ("b","FAIL")], []. split.
  - apply Exists_cons_tl, Exists_cons_hd. right. exists "b", EExec. split; reflexivity.
  - cbn. discriminate.
Qed.
