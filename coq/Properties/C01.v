(* Properties/C01.v -- SELECT returns exactly the pairs satisfying WHERE, once each, in key
   order.  Only property theorems (closed by [exact]), Print Assumptions, examples. *)
From Coq Require Import List String ZArith Bool.
Import ListNotations.
From KV Require Import Base.Bytes Base.Num Model.Ast Model.Value Model.Eval Model.FilterOpt
                       Spec.Sem Spec.KeySem Proofs.SemProofs Proofs.FilterOptProofs Proofs.LinkProofs
                       Model.Storage Model.ScanIO Model.ScanSem Model.Limit Proofs.LimitProofs
                       Proofs.StorageProofs Proofs.ScanSemProofs Proofs.SelectStarProofs.
Open Scope string_scope.

(* Evaluation layer: for EVERY expression of the documented core language and EVERY pair on
   which the reference evaluator (Spec/Sem.v, written from the README) is defined, the
   evaluator twin returns the same value of the same kind.  [fo] is an arbitrary float
   structure (no laws assumed); [re_match]/[re_spec] are the regexp oracles of twin and
   reference, assumed to agree. *)
Theorem eval_refines_sem :
  forall (fo : fops) (re_match : bytes -> bytes -> Value.res bool) (re_spec : bytes -> bytes -> option bool),
  (forall p t b, re_spec p t = Some b -> re_match p t = Value.Ok b) ->
  forall (k v : bytes) (e : expr) (s : sval fo),
    sem fo re_spec k v e = Some s ->
    exists x, eval fo re_match k v e = Value.Ok x /\ rel fo x s /\ rtype e = styp fo s.
Proof. exact eval_refines_sem_lemma. Qed.
Print Assumptions eval_refines_sem.

(* Filter layer: a WHERE clause that the reference evaluates to b on a pair makes the twin of
   FilterExec.Filter answer b (no error, no other answer) *)
Theorem filter_refines_reference :
  forall (fo : fops) (re_match : bytes -> bytes -> Value.res bool) (re_spec : bytes -> bytes -> option bool),
  (forall p t b, re_spec p t = Some b -> re_match p t = Value.Ok b) ->
  forall (k v : bytes) (e : expr) (b : bool),
    sem fo re_spec k v e = Some (SBool b) -> filter_row fo re_match k v e = Value.Ok b.
Proof. exact filter_refines_sem. Qed.
Print Assumptions filter_refines_reference.

(* Planning layer (with C02): the access path inferred for P covers every pair on which P is
   true under the reference semantics ... *)
Theorem where_true_is_covered :
  forall (fo : fops) (re_spec : bytes -> bytes -> option bool) (k v : bytes) (e : expr),
    sem fo re_spec k v e = Some (SBool true) -> covers (optimize e) k = true.
Proof. exact sem_true_covered. Qed.
Print Assumptions where_true_is_covered.

(* ... so, for ANY store, filtering the pairs inside the chosen region gives exactly the pairs
   of the store on which P is true, each once, in the order of the store *)
Theorem narrowed_select_is_exact :
  forall (fo : fops) (re_spec : bytes -> bytes -> option bool) (e : expr) (st : list (bytes * bytes)),
    filter (selects fo re_spec e) (filter (fun kv => covers (optimize e) (fst kv)) st)
    = filter (selects fo re_spec e) st.
Proof. exact narrowed_select_exact. Qed.
Print Assumptions narrowed_select_is_exact.

(* END TO END.  `select * where P` over ANY strictly sorted store on which P is evaluable (the
   reference semantics gives it a truth value on every stored pair): the plan the optimizer
   builds for the inferred region, with FilterExec.Filter's twin as the filter, drained through
   the storage twin (cursor Seek / Next, point reads), returns exactly the stored pairs on which
   P is true -- each once, no other pair, with its stored value, in ascending key order -- and
   leaves the store unchanged.  Row-at-a-time ... *)
Theorem select_star_exact_row :
  forall (fo : fops) (re_match : bytes -> bytes -> Value.res bool) (re_spec : bytes -> bytes -> option bool),
  (forall p t b, re_spec p t = Some b -> re_match p t = Value.Ok b) ->
  forall (e : expr) (d : store) (fuel : nat) (l0 : list scall),
  ssorted d -> (forall kv, In kv d -> evaluable fo re_spec e kv) ->
  List.length d + plan_keys (select_plan e) < fuel ->
  exists l, run_read (select_rows true (flt_of fo re_match e) fuel (select_plan e)) (SState d l0 None)
            = (Storage.Ok (filter (selects fo re_spec e) d), SState d (l0 ++ l)%list None).
Proof. exact select_star_exact_row_lemma. Qed.
Print Assumptions select_star_exact_row.

(* ... and in batches of every size B >= 1: the concatenation of the batches is the same list,
   and no batch before the end is empty *)
Theorem select_star_exact_batch :
  forall (fo : fops) (re_match : bytes -> bytes -> Value.res bool) (re_spec : bytes -> bytes -> option bool),
  (forall p t b, re_spec p t = Some b -> re_match p t = Value.Ok b) ->
  forall (e : expr) (d : store) (B fuel : nat) (l0 : list scall),
  1 <= B -> ssorted d -> (forall kv, In kv d -> evaluable fo re_spec e kv) ->
  List.length d + plan_keys (select_plan e) < fuel ->
  exists outs l, run_read (select_batches true (flt_of fo re_match e) B fuel (select_plan e)) (SState d l0 None)
                 = (Storage.Ok outs, SState d (l0 ++ l)%list None)
                 /\ List.concat outs = filter (selects fo re_spec e) d
                 /\ Forall (@nonempty kvp) outs.
Proof. exact select_star_exact_batch_lemma. Qed.
Print Assumptions select_star_exact_batch.

(* non-vacuity: a predicate with conversion, arithmetic, IN and BETWEEN that the reference
   evaluates on a pair *)
Definition ex_where : expr :=
  EBin 0 OAnd
    (EBin 0 OGt (EBin 0 OAdd (ECall 0 (EName 0 "int") [EField 0 ValueKW]) (ENum 0 "1")) (ENum 0 "12"))
    (EBin 0 OOr (EBin 0 OIn (EField 0 KeyKW) (EList 0 [EStr 0 "a"; EStr 0 "b"]))
                (EBin 0 OBetween (EField 0 KeyKW) (EList 0 [EStr 0 "k"; EStr 0 "l"]))).

(* ============================================================================================
   FROM THE QUERY TEXT.  Model/Pipeline.v [select_text] is the twin of
   kvql.NewOptimizer(q).BuildPlan(store) + the caller's Next / Batch loop for `select * where P`
   and `where P`: lexer, statement parser, checker (with the field context parseSelect builds for
   `*`), function-call check, constant folding of the WHERE tree, region inference ON THE FOLDED
   TREE, scan node choice, scan + FilterExec.Filter on the folded tree + `*` projection -- in the
   order of optimizer.go.  Corr/C01Text.v compares it with the implementation on every run.      *)
From KV Require Import Model.Checker Model.Fold Model.Pipeline Proofs.FoldProofs Proofs.PipelineProofs.

(* END TO END FROM THE TEXT.  For every float structure, regexp oracle pair (assumed to agree),
   float formatter that re-parses to the same float (fmt "%v"), query text q, store d and mode:
   if the parser twin reads q as `select * where P` / `where P` ([parsed_where]: P is the tree the
   parser returns, unchecked and unfolded), d is strictly sorted by key, P is evaluable on every
   stored pair under the reference semantics, every re-association of a float chain the folder
   performs on the checked tree is exact on the stored pairs (C04's premise [reassoc_exact]:
   (x + c1) + c2 -> x + (c1 + c2) is not an identity of binary64; it is vacuous for trees without
   float operands in + / * chains), the batch size is >= 1, and the pipeline returns rows, THEN the
   rows are exactly the stored pairs on which the reference semantics of the PARSED tree is true,
   each once, with their values, in key order. *)
Theorem select_text_exact :
  forall (fo : fops) (re_match : bytes -> bytes -> Value.res bool) (re_spec : bytes -> bytes -> option bool)
         (fmt_v : F fo -> string),
  (forall p t b, re_spec p t = Some b -> re_match p t = Value.Ok b) ->
  (forall f, f_parse fo (fmt_v f) = PF_ok f) ->
  forall (q : string) (d : store) (m : tmode) (rows : list kvp) (names : list (string * expr)) (P : expr),
  parsed_where q = TOk (names, P) ->
  ssorted d ->
  (forall kv, In kv d -> evaluable fo re_spec P kv) ->
  (forall w2, checked_where fo q = TOk w2 ->
     forall kv, In kv d -> reassoc_exact fo re_match fmt_v w2 (fst kv) (snd kv)) ->
  mode_ok m ->
  select_text fo re_match fmt_v q d m = TOk rows ->
  rows = filter (selects fo re_spec P) d.
Proof. exact select_text_exact_lemma. Qed.
Print Assumptions select_text_exact.

(* ... and a plan built by the front end alone gives the rows: once the text is accepted and
   planned, the drain cannot fail *)
Theorem select_text_accepted_runs :
  forall (fo : fops) (re_match : bytes -> bytes -> Value.res bool) (re_spec : bytes -> bytes -> option bool)
         (fmt_v : F fo -> string),
  (forall p t b, re_spec p t = Some b -> re_match p t = Value.Ok b) ->
  (forall f, f_parse fo (fmt_v f) = PF_ok f) ->
  forall (q : string) (d : store) (m : tmode) (names : list (string * expr)) (P : expr) (pl : planned),
  parsed_where q = TOk (names, P) ->
  plan_text fo re_match fmt_v q = TOk pl ->
  ssorted d ->
  (forall kv, In kv d -> evaluable fo re_spec P kv) ->
  (forall w2, checked_where fo q = TOk w2 ->
     forall kv, In kv d -> reassoc_exact fo re_match fmt_v w2 (fst kv) (snd kv)) ->
  mode_ok m ->
  select_text fo re_match fmt_v q d m = TOk (filter (selects fo re_spec P) d).
Proof. exact select_text_accepted_runs_lemma. Qed.
Print Assumptions select_text_accepted_runs.

(* the checked tree of `where P` (no `select *`) is P itself: there is no field to resolve *)
Theorem where_text_checks_to_itself :
  forall (fo : fops) (q : string) (P w2 : expr),
  parsed_where q = TOk ([], P) -> checked_where fo q = TOk w2 -> w2 = P.
Proof. exact checked_where_plain. Qed.
Print Assumptions where_text_checks_to_itself.

(* the two layer facts the composition needed beyond C02 / C04 / C14:
   resolving field names keeps every reference value ... *)
Theorem check_keeps_reference_value :
  forall (fo : fops) (re_spec : bytes -> bytes -> option bool) (ctx : cctx) (k v : bytes)
         (e e1 : expr) (s : sval fo),
  check fo true ctx e = Value.Ok e1 -> sem fo re_spec k v e = Some s ->
  sem fo re_spec k v (rewrite_name (c_names ctx) e1) = Some s.
Proof. exact check_sem_mono. Qed.
Print Assumptions check_keeps_reference_value.

(* ... and the region inferred for a tree covers every pair on which FilterExec.Filter's twin
   answers true (C02's theorem at the level of the evaluator twin, as needed for the FOLDED tree,
   whose literals need not be in the reference semantics' domain) *)
Theorem filter_true_is_covered :
  forall (fo : fops) (re_match : bytes -> bytes -> Value.res bool) (k v : bytes) (e : expr),
  filter_row fo re_match k v e = Value.Ok true -> covers (FilterOpt.optimize e) k = true.
Proof. exact filter_true_covered. Qed.
Print Assumptions filter_true_is_covered.

(* THE FRONT END IS TOTAL: for EVERY text, planning ends in a plan, in a syntax error with a
   position (-1: end of input), or at the explicit model boundary -- never in a panic of the
   parser / checker twins, never out of fuel ... *)
Theorem select_text_rejects_or_runs :
  forall (fo : fops) (re_match : bytes -> bytes -> Value.res bool) (fmt_v : F fo -> string) (q : string),
  (exists pl, plan_text fo re_match fmt_v q = TOk pl) \/
  (exists p, plan_text fo re_match fmt_v q = TReject p) \/
  plan_text fo re_match fmt_v q = TOom.
Proof. exact select_text_rejects_or_runs_lemma. Qed.
Print Assumptions select_text_rejects_or_runs.

(* ... and so does the whole pipeline on a sorted store with a batch size >= 1 *)
Theorem select_text_total :
  forall (fo : fops) (re_match : bytes -> bytes -> Value.res bool) (fmt_v : F fo -> string)
         (q : string) (d : store) (m : tmode),
  ssorted d -> mode_ok m ->
  (exists rows, select_text fo re_match fmt_v q d m = TOk rows) \/
  (exists p, select_text fo re_match fmt_v q d m = TReject p) \/
  select_text fo re_match fmt_v q d m = TOom.
Proof. exact select_text_total_lemma. Qed.
Print Assumptions select_text_total.

(* non-vacuity: a query text (keyword case, tight spacing, trailing semicolon) and a 4-pair store
   on which every premise of select_text_exact holds; the prefix region and the filter leave two
   of the four pairs, row-at-a-time and in batches of 2 -- for every float structure (no float
   operation is needed) *)
Definition ex_text : string := "SELECT * where key^='a' & int(value)+1 > 12;".
Definition ex_text_store : store := [("a", "12"); ("ab", "3"); ("abc", "20"); ("b", "50")].
Definition ex_text_tree : expr :=
  EBin 24 OAnd (EBin 18 OPrefixMatch (EField 15 KeyKW) (EStr 20 "a"))
               (EBin 39 OGt (EBin 36 OAdd (ECall 26 (EName 26 "int") [EField 30 ValueKW]) (ENum 37 "1"))
                            (ENum 41 "12")).

Example select_text_exact_nonvacuous :
  forall (fo : fops) (re_match : bytes -> bytes -> Value.res bool) (re_spec : bytes -> bytes -> option bool)
         (fmt_v : F fo -> string),
    parsed_where ex_text = TOk ([("KEY", EField 0 KeyKW); ("VALUE", EField 0 ValueKW)], ex_text_tree) /\
    checked_where fo ex_text = TOk ex_text_tree /\
    ssorted ex_text_store /\
    (forall kv, In kv ex_text_store -> evaluable fo re_spec ex_text_tree kv) /\
    (forall kv, In kv ex_text_store -> reassoc_exact fo re_match fmt_v ex_text_tree (fst kv) (snd kv)) /\
    mode_ok (MBatch 2) /\
    select_text fo re_match fmt_v ex_text ex_text_store MRow = TOk [("a", "12"); ("abc", "20")] /\
    select_text fo re_match fmt_v ex_text ex_text_store (MBatch 2) = TOk [("a", "12"); ("abc", "20")] /\
    filter (selects fo re_spec ex_text_tree) ex_text_store = [("a", "12"); ("abc", "20")].
Proof.
  intros fo re_match re_spec fmt_v.
  split; [vm_compute; reflexivity|].
  split; [vm_compute; reflexivity|].
  split; [vm_compute; repeat split|].
  split.
  { intros kv Hin. cbn [In ex_text_store] in Hin.
    destruct Hin as [<-|[<-|[<-|[<-|[]]]]]; eexists; vm_compute; reflexivity. }
  split.
  { intros kv Hin. cbn [In ex_text_store] in Hin.
    destruct Hin as [<-|[<-|[<-|[<-|[]]]]]; vm_compute; repeat split. }
  split; [cbn; auto|].
  split; [vm_compute; reflexivity|].
  split; vm_compute; reflexivity.
Qed.

(* non-vacuity with the constant folder at work: `where P` alone, a literal concatenation next to
   key and an integer chain that is re-associated.  The parsed tree compares key with 'a' + 'b'
   (no point read could be planned for it); the plan is built from the FOLDED tree -- the filter is
   key = 'ab' & int(value) + 2 > 4 and the scan is the point read of "ab" -- and the theorem's
   premises hold for the PARSED tree; the rows are those the reference semantics of the parsed
   tree selects *)
Definition ex_fold_text : string := "where key = 'a' + 'b' & int(value) + 1 + 1 > 4".
Definition ex_fold_tree : expr :=
  EBin 22 OAnd
    (EBin 10 OEq (EField 6 KeyKW) (EBin 16 OAdd (EStr 12 "a") (EStr 18 "b")))
    (EBin 43 OGt
       (EBin 39 OAdd (EBin 35 OAdd (ECall 24 (EName 24 "int") [EField 28 ValueKW]) (ENum 37 "1")) (ENum 41 "1"))
       (ENum 45 "4")).

Example select_text_exact_nonvacuous_folded :
  forall (fo : fops) (re_match : bytes -> bytes -> Value.res bool) (re_spec : bytes -> bytes -> option bool)
         (fmt_v : F fo -> string),
    parsed_where ex_fold_text = TOk ([], ex_fold_tree) /\
    plan_text fo re_match fmt_v ex_fold_text =
      TOk (Planned (EBin 22 OAnd (EBin 10 OEq (EField 6 KeyKW) (EStr 12 "ab"))
                      (EBin 43 OGt (EBin 39 OAdd (ECall 24 (EName 24 "int") [EField 28 ValueKW]) (ENum 37 "2"))
                                   (ENum 45 "4")))
                   (PScan (SMget ["ab"]))) /\
    (forall kv, In kv ex_text_store -> evaluable fo re_spec ex_fold_tree kv) /\
    (forall kv, In kv ex_text_store -> reassoc_exact fo re_match fmt_v ex_fold_tree (fst kv) (snd kv)) /\
    select_text fo re_match fmt_v ex_fold_text ex_text_store MRow = TOk [("ab", "3")] /\
    select_text fo re_match fmt_v ex_fold_text ex_text_store (MBatch 3) = TOk [("ab", "3")] /\
    filter (selects fo re_spec ex_fold_tree) ex_text_store = [("ab", "3")].
Proof.
  intros fo re_match re_spec fmt_v.
  split; [vm_compute; reflexivity|].
  split; [vm_compute; reflexivity|].
  split.
  { intros kv Hin. cbn [In ex_text_store] in Hin.
    destruct Hin as [<-|[<-|[<-|[<-|[]]]]]; eexists; vm_compute; reflexivity. }
  split.
  { intros kv Hin. cbn [In ex_text_store] in Hin.
    destruct Hin as [<-|[<-|[<-|[<-|[]]]]]; reassoc_close fo re_match fmt_v ex_fold_tree. }
  split; [vm_compute; reflexivity|].
  split; vm_compute; reflexivity.
Qed.

(* texts the front end rejects: a scalar function called with the wrong number of arguments
   (found by checkStatementFunctionCalls after Parse, before any plan is built), with the position
   of the call; and a text that ends too early, with the end-of-input position -1 *)
Example select_text_rejects_example :
  forall (fo : fops) (re_match : bytes -> bytes -> Value.res bool) (fmt_v : F fo -> string),
    plan_text fo re_match fmt_v "select * where int(value, 1) > 2" = TReject 15 /\
    plan_text fo re_match fmt_v "select * where key = 'a' &" = TReject (-1).
Proof. intros. split; vm_compute; reflexivity. Qed.

(* the field context of `select *`: parseSelect names the two fields of `*` "KEY" and "VALUE", so
   a back-quoted name `KEY` in the WHERE clause of `select *` is resolved to the key field, while
   `where P` alone has no fields and the same name is rejected (position of the name) *)
Example star_field_context_example :
  forall (fo : fops),
    checked_where fo "select * where `KEY` = 'a'"
      = TOk (EBin 21 OEq (ERef 15 "KEY" (EField 0 KeyKW)) (EStr 23 "a")) /\
    checked_where fo "where `KEY` = 'a'" = TReject 6.
Proof. intros. split; vm_compute; reflexivity. Qed.
