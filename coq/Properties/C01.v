(* Properties/C01.v -- SELECT returns exactly the pairs satisfying WHERE, once each, in key
   order.  Only property theorems (closed by [exact]), Print Assumptions, examples. *)
From Coq Require Import List String ZArith Bool.
Import ListNotations.
From KV Require Import Base.Bytes Base.Num Model.Ast Model.Value Model.Eval Model.FilterOpt
                       Spec.Sem Spec.KeySem Proofs.SemProofs Proofs.FilterOptProofs Proofs.LinkProofs
                       Model.Storage Model.ScanIO Model.ScanSem Model.Limit Proofs.LimitProofs
                       Proofs.StorageProofs Proofs.ScanSemProofs Proofs.SelectStarProofs.
Open Scope string_scope.

(* Evaluation layer: for EVERY expression of the documented core language and EVERY pair on
   which the reference evaluator (Spec/Sem.v, written from the README) is defined, the
   evaluator twin returns the same value of the same kind.  [fo] is an arbitrary float
   structure (no laws assumed); [re_match]/[re_spec] are the regexp oracles of twin and
   reference, assumed to agree. *)
Theorem eval_refines_sem :
  forall (fo : fops) (re_match : bytes -> bytes -> Value.res bool) (re_spec : bytes -> bytes -> option bool),
  (forall p t b, re_spec p t = Some b -> re_match p t = Value.Ok b) ->
  forall (k v : bytes) (e : expr) (s : sval fo),
    sem fo re_spec k v e = Some s ->
    exists x, eval fo re_match k v e = Value.Ok x /\ rel fo x s /\ rtype e = styp fo s.
Proof. exact eval_refines_sem_lemma. Qed.
Print Assumptions eval_refines_sem.

(* Filter layer: a WHERE clause that the reference evaluates to b on a pair makes the twin of
   FilterExec.Filter answer b (no error, no other answer) *)
Theorem filter_refines_reference :
  forall (fo : fops) (re_match : bytes -> bytes -> Value.res bool) (re_spec : bytes -> bytes -> option bool),
  (forall p t b, re_spec p t = Some b -> re_match p t = Value.Ok b) ->
  forall (k v : bytes) (e : expr) (b : bool),
    sem fo re_spec k v e = Some (SBool b) -> filter_row fo re_match k v e = Value.Ok b.
Proof. exact filter_refines_sem. Qed.
Print Assumptions filter_refines_reference.

(* Planning layer (with C02): the access path inferred for P covers every pair on which P is
   true under the reference semantics ... *)
Theorem where_true_is_covered :
  forall (fo : fops) (re_spec : bytes -> bytes -> option bool) (k v : bytes) (e : expr),
    sem fo re_spec k v e = Some (SBool true) -> covers (optimize e) k = true.
Proof. exact sem_true_covered. Qed.
Print Assumptions where_true_is_covered.

(* ... so, for ANY store, filtering the pairs inside the chosen region gives exactly the pairs
   of the store on which P is true, each once, in the order of the store *)
Theorem narrowed_select_is_exact :
  forall (fo : fops) (re_spec : bytes -> bytes -> option bool) (e : expr) (st : list (bytes * bytes)),
    filter (selects fo re_spec e) (filter (fun kv => covers (optimize e) (fst kv)) st)
    = filter (selects fo re_spec e) st.
Proof. exact narrowed_select_exact. Qed.
Print Assumptions narrowed_select_is_exact.

(* END TO END.  `select * where P` over ANY strictly sorted store on which P is evaluable (the
   reference semantics gives it a truth value on every stored pair): the plan the optimizer
   builds for the inferred region, with FilterExec.Filter's twin as the filter, drained through
   the storage twin (cursor Seek / Next, point reads), returns exactly the stored pairs on which
   P is true -- each once, no other pair, with its stored value, in ascending key order -- and
   leaves the store unchanged.  Row-at-a-time ... *)
Theorem select_star_exact_row :
  forall (fo : fops) (re_match : bytes -> bytes -> Value.res bool) (re_spec : bytes -> bytes -> option bool),
  (forall p t b, re_spec p t = Some b -> re_match p t = Value.Ok b) ->
  forall (e : expr) (d : store) (fuel : nat) (l0 : list scall),
  ssorted d -> (forall kv, In kv d -> evaluable fo re_spec e kv) ->
  List.length d + plan_keys (select_plan e) < fuel ->
  exists l, run_read (select_rows true (flt_of fo re_match e) fuel (select_plan e)) (SState d l0 None)
            = (Storage.Ok (filter (selects fo re_spec e) d), SState d (l0 ++ l)%list None).
Proof. exact select_star_exact_row_lemma. Qed.
Print Assumptions select_star_exact_row.

(* ... and in batches of every size B >= 1: the concatenation of the batches is the same list,
   and no batch before the end is empty *)
Theorem select_star_exact_batch :
  forall (fo : fops) (re_match : bytes -> bytes -> Value.res bool) (re_spec : bytes -> bytes -> option bool),
  (forall p t b, re_spec p t = Some b -> re_match p t = Value.Ok b) ->
  forall (e : expr) (d : store) (B fuel : nat) (l0 : list scall),
  1 <= B -> ssorted d -> (forall kv, In kv d -> evaluable fo re_spec e kv) ->
  List.length d + plan_keys (select_plan e) < fuel ->
  exists outs l, run_read (select_batches true (flt_of fo re_match e) B fuel (select_plan e)) (SState d l0 None)
                 = (Storage.Ok outs, SState d (l0 ++ l)%list None)
                 /\ List.concat outs = filter (selects fo re_spec e) d
                 /\ Forall (@nonempty kvp) outs.
Proof. exact select_star_exact_batch_lemma. Qed.
Print Assumptions select_star_exact_batch.

(* non-vacuity: a predicate with conversion, arithmetic, IN and BETWEEN that the reference
   evaluates on a pair *)
Definition ex_where : expr :=
  EBin 0 OAnd
    (EBin 0 OGt (EBin 0 OAdd (ECall 0 (EName 0 "int") [EField 0 ValueKW]) (ENum 0 "1")) (ENum 0 "12"))
    (EBin 0 OOr (EBin 0 OIn (EField 0 KeyKW) (EList 0 [EStr 0 "a"; EStr 0 "b"]))
                (EBin 0 OBetween (EField 0 KeyKW) (EList 0 [EStr 0 "k"; EStr 0 "l"]))).
