(* Properties/C02.v -- scan narrowing never loses a row: every access path covers the filter.
   Only property theorems here (closed by [exact]), their Print Assumptions, non-vacuity
   examples and regression witnesses. *)
From Coq Require Import List String Bool.
Import ListNotations.
From KV Require Import Base.Bytes Model.Ast Model.FilterOpt Spec.KeySem
                       Proofs.RangeProofs Proofs.FilterOptProofs.
Open Scope string_scope.

(* For EVERY predicate tree e (any nesting of AND / OR over key equalities, inequalities,
   prefix tests, IN lists and BETWEEN ranges with the literal on either side, mixed with
   arbitrary other predicates whose truth is given by the oracle [opq]) and EVERY pair (k, v):
   if e is true on the pair then the region inferred for e covers k. *)
Theorem optimize_sound :
  forall (opq : expr -> option bool) (k v : bytes) (e : expr),
    psem opq k v e = Some true -> covers (optimize e) k = true.
Proof. exact optimize_sound_lemma. Qed.
Print Assumptions optimize_sound.

(* ranges produced by the optimizer are never reversed *)
Theorem optimize_well_formed : forall e, wf (optimize e).
Proof. exact optimize_wf. Qed.
Print Assumptions optimize_well_formed.

(* so filtering the pairs the access path offers gives exactly what filtering every stored
   pair gives -- for any store, in the same order *)
Theorem narrowed_eq_full :
  forall (opq : bytes -> bytes -> expr -> option bool) (e : expr) (st : list (bytes * bytes)),
    filter (accepts opq e) (filter (fun kv => covers (optimize e) (fst kv)) st)
    = filter (accepts opq e) st.
Proof. exact narrowed_eq_full_lemma. Qed.
Print Assumptions narrowed_eq_full.

(* the two-region combinators on their own (what AND / OR do to the sub-results) *)
Theorem and_sound : forall l r k, wf l -> wf r ->
  covers l k = true -> covers r k = true -> covers (and_regions l r) k = true.
Proof. exact and_regions_sound. Qed.
Print Assumptions and_sound.

Theorem or_sound : forall l r k, wf l -> wf r ->
  covers l k = true \/ covers r k = true -> covers (or_regions l r) k = true.
Proof. exact or_regions_sound. Qed.
Print Assumptions or_sound.

(* non-vacuity: a nested predicate with literals on both sides that is true on a pair, and
   whose inferred region is a proper narrowing *)
Definition ex_pred : expr :=
  EBin 0 OOr (EBin 0 OAnd (EBin 0 OGt (EStr 0 "b") (EField 0 KeyKW))
                          (EBin 0 OPrefixMatch (EField 0 KeyKW) (EStr 0 "a")))
             (EBin 0 OEq (EStr 0 "ab") (EField 0 KeyKW)).
Example optimize_sound_nonvacuous :
  psem (fun _ => None) "ab" "v" ex_pred = Some true /\
  optimize ex_pred = RPrefix "a" /\ covers (optimize ex_pred) "ab" = true.
Proof. repeat split. Qed.

(* ================================================================ C02 AT TEXT LEVEL (appended;
   Model/PipelineFull.v, Proofs/NarrowTextProofs.v).  [select_stmt_text] is Model/PipelineS.v's twin
   of NewOptimizer(q).BuildPlan(storage) drained by the caller (every SELECT shape: field list,
   ORDER BY, GROUP BY / aggregates, LIMIT); [select_stmt_text_full] is the SAME pipeline with the
   scan node replaced by FullScanPlan{Filter: the same filter}.  [filter_answers q d]: the folded
   WHERE tree of the accepted text evaluates to true or false (no error) on every stored pair. *)
From Coq Require Import ZArith.
From KV Require Import Model.Value Model.Eval Model.EvalVec Model.Storage Model.SelectPlans Model.Pipeline
                       Model.PipelineS Model.PipelineFull Proofs.StorageProofs Proofs.BatchRowProofs
                       Proofs.SelectPlansProofs Proofs.NarrowTextProofs.
From KV Require Model.Order Model.ScanIO.
Import KV.Model.Value.

(* the squeeze behind it, for any filter / projection / aggregate observation: the row drain of
   EVERY shape buildFinalPlan builds depends on the slots of the scan only through the accepted
   pairs, provided the filter answers on every pair among the slots *)
Theorem every_shape_sees_only_accepted_pairs :
  forall (P : Type) (frow : P -> res bool) (prow : P -> res Order.row) (F : Type)
         (fadd fsub fmul fdiv : F -> F -> F) (fltb : F -> F -> bool) (fis0 : F -> bool) (of_Z : Z -> F)
         (to_Z : F -> Z) (fmt_f bits_f : F -> bytes) (json_f : F -> option bytes) (parse_f : bytes -> option F)
         (json_s : bytes -> bytes) (T : Type) (t0 : T)
         (obs_row : Spec.Group.plan F -> T -> P -> res (Spec.Group.pobs F * T))
         (aconv : list (Spec.Group.value F) -> Order.row) (pi pf : bytes -> option Z)
         (s : stmt F) (sh : shape) (sl sl' : list (option P)),
    fok P frow (ScanProj.somes sl) -> fok P frow (ScanProj.somes sl') ->
    pacc P frow (ScanProj.somes sl) = pacc P frow (ScanProj.somes sl') ->
    run_shape_row P frow prow F fadd fsub fmul fdiv fltb fis0 of_Z to_Z fmt_f bits_f json_f parse_f json_s
                  T t0 obs_row aconv pi pf s sh sl
    = run_shape_row P frow prow F fadd fsub fmul fdiv fltb fis0 of_Z to_Z fmt_f bits_f json_f parse_f json_s
                  T t0 obs_row aconv pi pf s sh sl'.
Proof. exact run_shape_row_same_accepted. Qed.
Print Assumptions every_shape_sees_only_accepted_pairs.

(* ROW MODE: for every text, every strictly sorted store: the statement over the access path the
   planner picked and the statement over a full scan have the SAME outcome -- rows, values,
   order, errors with class and position, rejections -- for every shape *)
Theorem narrowed_text_eq_full :
  forall (fo : fops) (re : bytes -> bytes -> res bool) (fmt_v : F fo -> string) (ag : aggops fo)
         (pi pf : bytes -> option Z) (q : string) (d : store),
    ssorted d -> filter_answers fo re fmt_v q d ->
    select_stmt_text_st fo re fmt_v ag pi pf q d MRow = select_stmt_text_full_st fo re fmt_v ag pi pf q d MRow.
Proof. exact narrowed_text_eq_full_row_st. Qed.
Print Assumptions narrowed_text_eq_full.

(* BATCH MODE, every batch size >= 1: when both drains complete, the same rows (up to string /
   []byte, [nrows]).  narrowed_text_eq_full_batch_partial: the FULL statement would be equality
   of the two outcomes as in row mode; missing: the error cases (the first error of a batch drain
   depends on the chunk boundaries, which differ between the two scans) and "the full scan
   completes => the narrowed scan completes" in batch mode. *)
Theorem narrowed_text_eq_full_batch_partial :
  forall (fo : fops) (re : bytes -> bytes -> res bool) (fmt_v : F fo -> string) (ag : aggops fo)
         (pi pf : bytes -> option Z) (q : string) (d : store) (B : nat) (rows rows' : list Order.row),
    1 <= B -> ssorted d -> filter_answers fo re fmt_v q d ->
    (forall pl, plan_stmt_text fo re fmt_v q = STOk pl -> fields_ok (q_fields fo (sp_q fo pl))) ->
    select_stmt_text fo re fmt_v ag pi pf q d (MBatch B) = TOk rows ->
    select_stmt_text_full fo re fmt_v ag pi pf q d (MBatch B) = TOk rows' ->
    nrows rows = nrows rows'.
Proof. exact narrowed_text_eq_full_batch_ok. Qed.
Print Assumptions narrowed_text_eq_full_batch_partial.

(* before any pair is read the two agree unconditionally (same BuildPlan) *)
Theorem narrowed_text_same_front :
  forall (fo : fops) (re : bytes -> bytes -> res bool) (fmt_v : F fo -> string) (ag : aggops fo)
         (pi pf : bytes -> option Z) (q : string) (d : store) (m : tmode),
    (forall pl, plan_stmt_text fo re fmt_v q <> STOk pl) ->
    select_stmt_text_st fo re fmt_v ag pi pf q d m = select_stmt_text_full_st fo re fmt_v ag pi pf q d m.
Proof. exact narrowed_text_front_same. Qed.
Print Assumptions narrowed_text_same_front.

(* ---- non-vacuity: a prefix scan under ORDER BY + LIMIT over a projection, and a multi-get under
   a GROUP BY aggregate; the premise holds, both sides computed *)
Definition nt_store : Storage.store := [("a", "3"); ("ab", "1"); ("ac", "9"); ("b", "2"); ("c", "1")].
Definition nt_q1 : string := "select key, int(value) as n where key ^= 'a' & value != '9' order by n desc limit 1, 5".
Definition nt_q2 : string := "select value as g, count(1) as c where key in ('a', 'c', 'zz', 'ab') group by g".

Example narrowed_text_nonvacuous :
  forall (fo : fops) (re : bytes -> bytes -> res bool) (fmt_v : F fo -> string) (ag : aggops fo)
         (pi pf : bytes -> option Z),
  ssorted nt_store /\
  (exists pl, plan_stmt_text fo re fmt_v nt_q1 = STOk pl /\ sp_scan fo pl = ScanIO.SPrefix "a") /\
  filter_answers fo re fmt_v nt_q1 nt_store /\
  select_stmt_text fo re fmt_v ag pi pf nt_q1 nt_store MRow = TOk [[Order.VBytes "ab"; Order.VInt 1]] /\
  select_stmt_text_full fo re fmt_v ag pi pf nt_q1 nt_store MRow = TOk [[Order.VBytes "ab"; Order.VInt 1]] /\
  (exists pl, plan_stmt_text fo re fmt_v nt_q2 = STOk pl /\ sp_scan fo pl = ScanIO.SMget ["a"; "ab"; "c"; "zz"]) /\
  filter_answers fo re fmt_v nt_q2 nt_store /\
  select_stmt_text fo re fmt_v ag pi pf nt_q2 nt_store MRow
    = TOk [[Order.VBytes "3"; Order.VInt 1]; [Order.VBytes "1"; Order.VInt 2]] /\
  select_stmt_text_full fo re fmt_v ag pi pf nt_q2 nt_store (MBatch 2)
    = TOk [[Order.VBytes "3"; Order.VInt 1]; [Order.VBytes "1"; Order.VInt 2]].
Proof.
  intros.
  assert (FA : forall q, (exists pl0, plan_stmt_text fo re fmt_v q = STOk pl0 /\
                  forall kv, In kv nt_store -> exists b, LimitLazy.sel_frow fo re (q_where fo (sp_q fo pl0)) kv = Ok b) ->
               filter_answers fo re fmt_v q nt_store).
  { intros q (pl0 & E0 & H0) pl Ep. rewrite E0 in Ep. injection Ep as <-. exact H0. }
  split; [cbn; repeat split; reflexivity|].
  split; [eexists; split; vm_compute; reflexivity|].
  split.
  { apply FA. eexists. split; [vm_compute; reflexivity|].
    intros kv Hin. cbn [In nt_store] in Hin.
    repeat (destruct Hin as [<-|Hin]; [eexists; vm_compute; reflexivity|]). contradiction. }
  split; [vm_compute; reflexivity|]. split; [vm_compute; reflexivity|].
  split; [eexists; split; vm_compute; reflexivity|].
  split.
  { apply FA. eexists. split; [vm_compute; reflexivity|].
    intros kv Hin. cbn [In nt_store] in Hin.
    repeat (destruct Hin as [<-|Hin]; [eexists; vm_compute; reflexivity|]). contradiction. }
  split; vm_compute; reflexivity.
Qed.

(* ================================================================ C02 AT TEXT LEVEL, DELETE (appended;
   Model/PipelineFullW.v, Proofs/NarrowDeleteProofs.v).  [delete_text] is Model/PipelineW.v's twin of
   NewOptimizer(q).BuildPlan(storage) polled until nil for a DELETE text (EmptyResultPlan with the
   LIMIT dropped / DeletePlan [LimitPlan] over the narrowed scan node / the delete->remove shortcut
   decided on the folded tree); [delete_text_full] is the SAME planned statement (same front end,
   same folded filter, same LIMIT) run as DeletePlan [LimitPlan] over FullScanPlan.
   [dfilter_answers q d]: the folded WHERE tree of the accepted text evaluates to true or false
   (no error) on every stored pair. *)
From KV Require Import Model.ScanSem Model.Write Model.Delete Model.PipelineW Model.PipelineFullW
                       Proofs.DeleteProofs Proofs.NarrowDeleteProofs.

(* every DELETE text the front end accepts, every strictly sorted store, every batch size >= 1,
   with and without LIMIT, scan-and-delete and the RemovePlan shortcut alike: the forced-full-scan
   twin accepts too and leaves the SAME store -- the store minus the pairs a full scan filtered pair
   by pair selects, sliced by LIMIT in key order; neither run writes a pair; the keys the full scan
   hands to BatchDelete are exactly the selected ones, every one of them is deleted by the narrowed
   run as well, and every STORED key the narrowed run deletes is one of them (the shortcut also
   hands the listed keys that are not stored to BatchDelete) *)
Theorem delete_text_narrowed_eq_full :
  forall (fo : fops) (re : bytes -> bytes -> res bool) (fmt_v : F fo -> string)
         (q : string) (B : nat) (d : store),
    1 <= B -> ssorted d -> dfilter_answers fo re fmt_v q d ->
    forall (dp : dplan) (s1 : sstate),
    delete_text fo re fmt_v q B (sinit d None) = (TOk dp, s1) ->
    exists pl limit s2,
      delete_plan_text fo re fmt_v q = TOk pl /\ delete_limit_text fo q = TOk limit /\
      delete_text_full fo re fmt_v q B (sinit d None) = (TOk (dplan_over ScanIO.SFull limit), s2) /\
      let sel := limit_slice limit (filter (Pipeline.filter_of fo re (dp_filter pl)) d) in
      sdata s1 = sdata s2 /\
      sdata s2 = filter (fun kv => negb (mem (fst kv) (map fst sel))) d /\
      ssorted (sdata s2) /\
      forallb no_put (slog s1) = true /\ forallb no_put (slog s2) = true /\
      deleted_keys (slog s2) = map fst sel /\
      (forall k, In k (deleted_keys (slog s2)) -> In k (deleted_keys (slog s1))) /\
      (forall k, In k (map fst d) -> In k (deleted_keys (slog s1)) -> In k (deleted_keys (slog s2))).
Proof. exact delete_text_narrowed_full. Qed.
Print Assumptions delete_text_narrowed_eq_full.

(* the other direction of "accepted": whenever the forced-full-scan twin runs, the narrowed one does *)
Theorem delete_text_full_accepted_narrowed_accepted :
  forall (fo : fops) (re : bytes -> bytes -> res bool) (fmt_v : F fo -> string)
         (q : string) (B : nat) (d : store) (dp' : dplan) (s2 : sstate),
    delete_text_full fo re fmt_v q B (sinit d None) = (TOk dp', s2) ->
    exists dp s1, delete_text fo re fmt_v q B (sinit d None) = (TOk dp, s1).
Proof. exact delete_text_full_accepted. Qed.
Print Assumptions delete_text_full_accepted_narrowed_accepted.

(* a text that is not accepted (rejected with its position, the model boundary): the two twins are
   EQUAL (same outcome, store untouched), unconditionally and whatever scan node is forced *)
Theorem delete_text_same_front :
  forall (fo : fops) (re : bytes -> bytes -> res bool) (fmt_v : F fo -> string)
         (sc : ScanIO.scan) (q : string) (B : nat) (s : sstate),
    (forall dp, fst (delete_text fo re fmt_v q B s) <> TOk dp) ->
    delete_text_over fo re fmt_v sc q B s = delete_text fo re fmt_v q B s.
Proof. exact delete_text_front_same. Qed.
Print Assumptions delete_text_same_front.

(* ---- non-vacuity: scan-and-delete over a prefix scan under LIMIT; the RemovePlan shortcut (which
   also hands the unstored key "zz" to BatchDelete: the full scan does not); an EmptyResultPlan whose
   LIMIT buildDeletePlan drops.  The premise holds, both sides computed. *)
Definition nd_q1 : string := "delete where key ^= 'a' & value != '9' limit 1, 5".
Definition nd_q2 : string := "delete where key in ('a', 'c', 'zz')".
Definition nd_q3 : string := "delete where key = 'a' & key = 'b' limit 1".

Example delete_text_narrowed_nonvacuous :
  forall (fo : fops) (re : bytes -> bytes -> res bool) (fmt_v : F fo -> string),
  ssorted nt_store /\
  dfilter_answers fo re fmt_v nd_q1 nt_store /\
  dfilter_answers fo re fmt_v nd_q2 nt_store /\
  dfilter_answers fo re fmt_v nd_q3 nt_store /\
  (let n := delete_text fo re fmt_v nd_q1 2 (sinit nt_store None) in
   let f := delete_text_full fo re fmt_v nd_q1 2 (sinit nt_store None) in
   fst n = TOk (DScan (ScanIO.PLimit 1 5 (ScanIO.PScan (ScanIO.SPrefix "a")))) /\
   fst f = TOk (DScan (ScanIO.PLimit 1 5 (ScanIO.PScan ScanIO.SFull))) /\
   sdata (snd n) = [("a", "3"); ("ac", "9"); ("b", "2"); ("c", "1")] /\
   sdata (snd f) = [("a", "3"); ("ac", "9"); ("b", "2"); ("c", "1")] /\
   deleted_keys (slog (snd n)) = ["ab"] /\ deleted_keys (slog (snd f)) = ["ab"]) /\
  (let n := delete_text fo re fmt_v nd_q2 1 (sinit nt_store None) in
   let f := delete_text_full fo re fmt_v nd_q2 1 (sinit nt_store None) in
   fst n = TOk (DRemove ["a"; "c"; "zz"]) /\
   fst f = TOk (DScan (ScanIO.PScan ScanIO.SFull)) /\
   sdata (snd n) = [("ab", "1"); ("ac", "9"); ("b", "2")] /\
   sdata (snd f) = [("ab", "1"); ("ac", "9"); ("b", "2")] /\
   deleted_keys (slog (snd n)) = ["a"; "c"; "zz"] /\ deleted_keys (slog (snd f)) = ["a"; "c"]) /\
  (let n := delete_text fo re fmt_v nd_q3 32 (sinit nt_store None) in
   let f := delete_text_full fo re fmt_v nd_q3 32 (sinit nt_store None) in
   fst n = TOk (DScan (ScanIO.PScan ScanIO.SEmpty)) /\
   fst f = TOk (DScan (ScanIO.PLimit 0 1 (ScanIO.PScan ScanIO.SFull))) /\
   sdata (snd n) = nt_store /\ sdata (snd f) = nt_store).
Proof.
  intros.
  assert (FA : forall q, (exists pl0, delete_plan_text fo re fmt_v q = TOk pl0 /\
                  forall kv, In kv nt_store -> exists b, filter_row fo re (fst kv) (snd kv) (dp_filter pl0) = Ok b) ->
               dfilter_answers fo re fmt_v q nt_store).
  { intros q (pl0 & E0 & H0) pl Ep. rewrite E0 in Ep. injection Ep as <-. exact H0. }
  split; [cbn; repeat split; reflexivity|].
  split.
  { apply FA. eexists. split; [vm_compute; reflexivity|].
    intros kv Hin. cbn [In nt_store] in Hin.
    repeat (destruct Hin as [<-|Hin]; [eexists; vm_compute; reflexivity|]). contradiction. }
  split.
  { apply FA. eexists. split; [vm_compute; reflexivity|].
    intros kv Hin. cbn [In nt_store] in Hin.
    repeat (destruct Hin as [<-|Hin]; [eexists; vm_compute; reflexivity|]). contradiction. }
  split.
  { apply FA. eexists. split; [vm_compute; reflexivity|].
    intros kv Hin. cbn [In nt_store] in Hin.
    repeat (destruct Hin as [<-|Hin]; [eexists; vm_compute; reflexivity|]). contradiction. }
  cbv zeta. repeat split; vm_compute; reflexivity.
Qed.

(* ================================================================ C02 AT TEXT LEVEL, BATCH MODE
   (appended; Proofs/NarrowBatchProofs.v).  One step beyond narrowed_text_eq_full_batch_partial, which
   needs BOTH batch drains to complete: a batch drain of EITHER pipeline that completes, at any batch
   size B >= 1, returns the rows (concatenated, in order, up to string / []byte) of the ROW drain of
   the OTHER pipeline.  The batch boundaries themselves are not compared (they differ: the chunks of
   a narrowed scan and of a full scan cut the accepted pairs at different places).
   narrowed_batch_eq_full_partial: the FULL statement would be "under filter_answers and error-free
   select fields / aggregate arguments / order keys on every ACCEPTED pair, the two batch drains both
   complete with the same rows"; missing: the converse of C03's batch => row agreement (row drain
   completes without a projection error => batch drain completes), which the development does not
   have for any shape. *)
From KV Require Import Proofs.NarrowBatchProofs.

Theorem narrowed_batch_eq_full_partial :
  forall (fo : fops) (re : bytes -> bytes -> res bool) (fmt_v : F fo -> string) (ag : aggops fo)
         (pi pf : bytes -> option Z) (q : string) (d : store) (B : nat) (outs : list Order.row),
    1 <= B -> ssorted d -> filter_answers fo re fmt_v q d ->
    (forall pl, plan_stmt_text fo re fmt_v q = STOk pl -> fields_ok (q_fields fo (sp_q fo pl))) ->
    select_stmt_text fo re fmt_v ag pi pf q d (MBatch B) = TOk outs ->
    exists rows, select_stmt_text_full fo re fmt_v ag pi pf q d MRow = TOk rows /\ nrows rows = nrows outs.
Proof. exact narrowed_batch_full_row. Qed.
Print Assumptions narrowed_batch_eq_full_partial.

Theorem full_batch_eq_narrowed_partial :
  forall (fo : fops) (re : bytes -> bytes -> res bool) (fmt_v : F fo -> string) (ag : aggops fo)
         (pi pf : bytes -> option Z) (q : string) (d : store) (B : nat) (outs : list Order.row),
    1 <= B -> ssorted d -> filter_answers fo re fmt_v q d ->
    (forall pl, plan_stmt_text fo re fmt_v q = STOk pl -> fields_ok (q_fields fo (sp_q fo pl))) ->
    select_stmt_text_full fo re fmt_v ag pi pf q d (MBatch B) = TOk outs ->
    exists rows, select_stmt_text fo re fmt_v ag pi pf q d MRow = TOk rows /\ nrows rows = nrows outs.
Proof. exact full_batch_narrowed_row. Qed.
Print Assumptions full_batch_eq_narrowed_partial.

(* non-vacuity: nt_q1 (prefix scan, ORDER BY + LIMIT over a projection) in batches of 1 and of 2:
   both batch drains complete, fields_ok holds *)
Example narrowed_batch_nonvacuous :
  forall (fo : fops) (re : bytes -> bytes -> res bool) (fmt_v : F fo -> string) (ag : aggops fo)
         (pi pf : bytes -> option Z),
  (forall pl, plan_stmt_text fo re fmt_v nt_q1 = STOk pl -> fields_ok (q_fields fo (sp_q fo pl))) /\
  select_stmt_text fo re fmt_v ag pi pf nt_q1 nt_store (MBatch 1) = TOk [[Order.VBytes "ab"; Order.VInt 1]] /\
  select_stmt_text fo re fmt_v ag pi pf nt_q1 nt_store (MBatch 2) = TOk [[Order.VBytes "ab"; Order.VInt 1]] /\
  select_stmt_text_full fo re fmt_v ag pi pf nt_q1 nt_store (MBatch 2) = TOk [[Order.VBytes "ab"; Order.VInt 1]].
Proof.
  intros. split.
  { intros pl Ep.
    assert (E : exists pl0, plan_stmt_text fo re fmt_v nt_q1 = STOk pl0 /\ fields_ok (q_fields fo (sp_q fo pl0))).
    { eexists. split; [vm_compute; reflexivity|]. cbn. repeat constructor. }
    destruct E as (pl0 & E0 & H0). rewrite E0 in Ep. injection Ep as <-. exact H0. }
  repeat split; vm_compute; reflexivity.
Qed.
