(* Properties/C02.v -- scan narrowing never loses a row: every access path covers the filter.
   Only property theorems here (closed by [exact]), their Print Assumptions, non-vacuity
   examples and regression witnesses. *)
From Coq Require Import List String Bool.
Import ListNotations.
From KV Require Import Base.Bytes Model.Ast Model.FilterOpt Spec.KeySem
                       Proofs.RangeProofs Proofs.FilterOptProofs.
Open Scope string_scope.

(* For EVERY predicate tree e (any nesting of AND / OR over key equalities, inequalities,
   prefix tests, IN lists and BETWEEN ranges with the literal on either side, mixed with
   arbitrary other predicates whose truth is given by the oracle [opq]) and EVERY pair (k, v):
   if e is true on the pair then the region inferred for e covers k. *)
Theorem optimize_sound :
  forall (opq : expr -> option bool) (k v : bytes) (e : expr),
    psem opq k v e = Some true -> covers (optimize e) k = true.
Proof. exact optimize_sound_lemma. Qed.
Print Assumptions optimize_sound.

(* ranges produced by the optimizer are never reversed *)
Theorem optimize_well_formed : forall e, wf (optimize e).
Proof. exact optimize_wf. Qed.
Print Assumptions optimize_well_formed.

(* so filtering the pairs the access path offers gives exactly what filtering every stored
   pair gives -- for any store, in the same order *)
Theorem narrowed_eq_full :
  forall (opq : bytes -> bytes -> expr -> option bool) (e : expr) (st : list (bytes * bytes)),
    filter (accepts opq e) (filter (fun kv => covers (optimize e) (fst kv)) st)
    = filter (accepts opq e) st.
Proof. exact narrowed_eq_full_lemma. Qed.
Print Assumptions narrowed_eq_full.

(* the two-region combinators on their own (what AND / OR do to the sub-results) *)
Theorem and_sound : forall l r k, wf l -> wf r ->
  covers l k = true -> covers r k = true -> covers (and_regions l r) k = true.
Proof. exact and_regions_sound. Qed.
Print Assumptions and_sound.

Theorem or_sound : forall l r k, wf l -> wf r ->
  covers l k = true \/ covers r k = true -> covers (or_regions l r) k = true.
Proof. exact or_regions_sound. Qed.
Print Assumptions or_sound.

(* non-vacuity: a nested predicate with literals on both sides that is true on a pair, and
   whose inferred region is a proper narrowing *)
Definition ex_pred : expr :=
  EBin 0 OOr (EBin 0 OAnd (EBin 0 OGt (EStr 0 "b") (EField 0 KeyKW))
                          (EBin 0 OPrefixMatch (EField 0 KeyKW) (EStr 0 "a")))
             (EBin 0 OEq (EStr 0 "ab") (EField 0 KeyKW)).
Example optimize_sound_nonvacuous :
  psem (fun _ => None) "ab" "v" ex_pred = Some true /\
  optimize ex_pred = RPrefix "a" /\ covers (optimize ex_pred) "ab" = true.
Proof. repeat split. Qed.
