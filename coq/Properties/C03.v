(* Properties/C03.v -- row-at-a-time and batch iteration give the same result at any batch size.
   Only property theorems here, each closed by [exact <lemma>] and followed by Print Assumptions;
   Examples show the hypotheses are met by concrete non-trivial inputs.

   All theorems are parametric in the float interface [fo] (no float law is assumed) and in the
   regular-expression oracle [re].  "Same content" is equality of [canon_of]: text as bytes
   (string and []byte identified), numbers by kind and value, lists structurally. *)
From Coq Require Import List String ZArith Bool Arith.
Import ListNotations.
From KV Require Import Base.Bytes Model.Ast Model.Value Model.Eval Model.EvalVec Model.ScanProj
                       Model.LimitLazy
                       Proofs.EvalVecProofs Proofs.ScanProjProofs Proofs.BatchRowProofs Proofs.LimitLazyProofs.
From KV Require Model.Limit.
Local Open Scope nat_scope.
Local Open Scope list_scope.

(* ------------------------------------------------------------------ expression layer (full) *)

(* ExecuteBatch, whenever it succeeds on a chunk, is pointwise Execute: for EVERY expression tree
   (all operators, IN over literals and list values, BETWEEN, every scalar function, indexing,
   aliases), every chunk (any length, any pairs) *)
Theorem exec_batch_ok : forall (fo : fops) (re : bytes -> bytes -> res bool)
    (e : expr) (chunk : list kvpair) (vs : list (value fo)),
  eval_batch fo re true e chunk = Ok vs ->
  Forall2 (fun kv v => exists v', eval fo re (fst kv) (snd kv) e = Ok v' /\
                                  canon_of fo v' = canon_of fo v) chunk vs.
Proof. exact EvalVecProofs.exec_batch_ok. Qed.
Print Assumptions exec_batch_ok.

(* the WHERE clause: FilterBatch succeeded on a chunk => Filter succeeds on every pair with the
   same verdict *)
Theorem filter_batch_ok : forall (fo : fops) (re : bytes -> bytes -> res bool)
    (e : expr) (chunk : list kvpair) (bs : list bool),
  filter_batch fo re true e chunk = Ok bs ->
  Forall2 (fun kv b => filter_row fo re (fst kv) (snd kv) e = Ok b) chunk bs.
Proof. exact EvalVecProofs.filter_batch_ok. Qed.
Print Assumptions filter_batch_ok.

(* the converse is false by design: batch & / | evaluate both sides for the whole chunk.
   key = 'zz' & 1 / (strlen(key) - 1) > 0 on the pair (a, x): row mode answers false, batch mode
   fails with a division by zero.  This is why the property has a direction. *)
Theorem exec_batch_converse_refuted : forall (fo : fops) (re : bytes -> bytes -> res bool),
  eval fo re "a" "x" asym_expr = Ok (VBool false) /\
  eval_batch fo re true asym_expr [("a"%string, "x"%string)] = Err (EExec 30).
Proof. exact EvalVecProofs.exec_batch_converse_fails. Qed.
Print Assumptions exec_batch_converse_refuted.

(* the pinned code (before the fix: commit for D29) violated the statement: batch BETWEEN did not
   type-check the upper bound of a text range, row mode does.  `key between 'a' and zz` (reachable
   through `!( ... )`, which the checker does not look into) succeeded in batch mode only. *)
Theorem exec_batch_ok_pinned_refuted : forall (fo : fops) (re : bytes -> bytes -> res bool),
  eval_batch fo re false between_expr [("b"%string, ""%string)] = Ok [VBool true] /\
  eval fo re "b" "" between_expr = Err (EExec 20) /\
  eval_batch fo re true between_expr [("b"%string, ""%string)] = Err (EExec 20).
Proof. exact EvalVecProofs.exec_batch_pinned_between. Qed.
Print Assumptions exec_batch_ok_pinned_refuted.

(* ------------------------------------------------------------------ plan layer (full, abstract) *)

(* Scan + projection over ANY stream of slots (cursor pairs, or point reads with missing keys),
   any filter and projection whose batch forms are pointwise their row forms up to a relation
   [req] on rows: for every batch size B >= 1, if the batch drain completes, the row drain
   completes with related rows in the same order, and no batch before the end is empty. *)
Theorem scan_proj_batch_row : forall (P R : Type)
    (frow : P -> res bool) (fbatch : list P -> res (list bool))
    (prow : P -> res R) (pbatch : list P -> res (list R)) (req : R -> R -> Prop),
  (forall c bs, fbatch c = Ok bs -> Forall2 (fun kv b => frow kv = Ok b) c bs) ->
  (forall c rs, pbatch c = Ok rs -> Forall2 (fun kv r => exists r', prow kv = Ok r' /\ req r' r) c rs) ->
  forall (B : nat) (slots : list (option P)) (outs : list (list R)),
  1 <= B -> drain_batch fbatch pbatch B slots = Ok outs ->
  exists rows, drain_row frow prow slots = Ok rows /\ Forall2 req rows (List.concat outs) /\
               Forall (fun o => o <> []) outs.
Proof. exact ScanProjProofs.scan_proj_batch_row. Qed.
Print Assumptions scan_proj_batch_row.

(* the fuel of the two drains is enough: with B >= 1 and a filter / projection that answer every
   chunk, the batch drain returns a result (the out-of-model outcome is never produced by the fuel
   bound); the row drain is by structural recursion on the stream (drain_row_spec) *)
Theorem scan_proj_fuel_enough : forall (P R : Type)
    (frow : P -> res bool) (fbatch : list P -> res (list bool)) (pbatch : list P -> res (list R)),
  (forall c bs, fbatch c = Ok bs -> Forall2 (fun kv b => frow kv = Ok b) c bs) ->
  (forall c, exists bs, fbatch c = Ok bs /\ List.length bs = List.length c) ->
  (forall c, exists rs, pbatch c = Ok rs /\ List.length rs = List.length c) ->
  forall (B : nat) (slots : list (option P)),
  1 <= B -> exists outs, drain_batch fbatch pbatch B slots = Ok outs.
Proof. exact ScanProjProofs.drain_batch_total. Qed.
Print Assumptions scan_proj_fuel_enough.

(* ------------------------------------------------------------------ composed *)

(* batch_row_agree for SELECT <fields | *> WHERE <wh> (no ORDER BY / GROUP BY / LIMIT): every
   WHERE clause and field list of the full expression language, every stream, every B >= 1 *)
Theorem batch_row_agree_select : forall (fo : fops) (re : bytes -> bytes -> res bool)
    (B : nat) (wh : expr) (fields : option (list expr)) (slots : list (option kvpair))
    (outs : list (list (list (value fo)))),
  1 <= B -> fields_ok fields ->
  select_batch fo re B wh fields slots = Ok outs ->
  exists rows, select_row fo re wh fields slots = Ok rows /\
               Forall2 (same_content fo) rows (List.concat outs) /\
               Forall (fun o => o <> []) outs.
Proof. exact BatchRowProofs.select_batch_row_agree. Qed.
Print Assumptions batch_row_agree_select.

(* select *: the concatenation of the batches IS the row-mode sequence *)
Theorem scan_batch_row : forall (fo : fops) (re : bytes -> bytes -> res bool)
    (B : nat) (wh : expr) (slots : list (option kvpair)) (outs : list (list (list (value fo)))),
  1 <= B -> select_batch fo re B wh None slots = Ok outs ->
  select_row fo re wh None slots = Ok (List.concat outs).
Proof. exact BatchRowProofs.scan_batch_row. Qed.
Print Assumptions scan_batch_row.

(* batch_row_agree for SELECT <fields | *> WHERE <wh> LIMIT start, count: FinalLimitPlan over
   ProjectionPlan over a scan, in the twin whose child is PULLED (Model/LimitLazy.v): a pair on
   which the WHERE clause or a field would fail beyond what the limit consumes is harmless in
   either mode, and batch mode reads at least as far as row mode.  Every offset and count (also
   0), every stream, every B >= 1. *)
Theorem batch_row_agree_select_limit : forall (fo : fops) (re : bytes -> bytes -> res bool)
    (B start count : nat) (wh : expr) (fields : option (list expr)) (slots : list (option kvpair))
    (louts : list (list (list (value fo)))),
  1 <= B -> fields_ok fields ->
  select_limit_batch fo re B start count wh fields slots = Ok louts ->
  exists lrows, select_limit_row fo re start count wh fields slots = Ok lrows /\
                Forall2 (same_content fo) lrows (List.concat louts).
Proof. exact LimitLazyProofs.select_limit_batch_row_agree. Qed.
Print Assumptions batch_row_agree_select_limit.

(* the pulled-child twin of the LIMIT node refines the list twin of C08 (Model/Limit.v): a
   completed lazy batch drain is the list drain over the non-empty batches it pulled, whatever
   the child would have returned afterwards ([tail]); if the child was seen exhausted, [tail] is
   empty *)
Theorem limit_lazy_refines_list : forall (S A : Type) (cbatch : S -> res (list A * S)),
  (forall s s1, cbatch s = Ok ([], s1) -> cbatch s1 = Ok ([], s1)) ->
  forall (fuel B start count : nat) (st : Limit.lstate) (s : S) (outs : list (list A)),
  ldrain_batch_fuel cbatch fuel B start count st s = Ok outs ->
  exists pb e s', pulled S A cbatch s pb e s' /\
    forall tail, (e = true -> tail = []) ->
      Limit.drain_batch_fuel true fuel B start count st (pb ++ tail) = Some outs.
Proof. exact LimitLazyProofs.sim_drain. Qed.
Print Assumptions limit_lazy_refines_list.

(* NOT PROVED (no theorem; covered on every run only by the direct comparison of the two modes
   of the implementation on whole statements):
     batch_row_agree for statements with ORDER BY (FinalOrderPlan) and GROUP BY / aggregates
     (AggregatePlan), i.e. forall stmt st B, drain_batch B stmt st = Ok rows ->
       exists rows', drain_row stmt st = Ok rows' /\ rows ~ties rows'.
   Their twins belong to C07 / C09 and are not composed here. *)

(* ------------------------------------------------------------------ non-vacuity *)
Local Open Scope string_scope.

Definition ex_store : list (option kvpair) :=
  [Some ("a", "12"); Some ("ab", "-3"); Some ("b", "7"); Some ("k1", "30"); Some ("k2", "1"); Some ("k3", "9")].
(* int(value) > 2 *)
Definition ex_where : expr := EBin 11 OGt (ECall 0 (EName 0 "int") [EField 4 ValueKW]) (ENum 13 "2").
(* key, int(value) + 1, upper(key) + 'x' *)
Definition ex_fields : list expr :=
  [EField 0 KeyKW;
   EBin 16 OAdd (ECall 5 (EName 5 "int") [EField 9 ValueKW]) (ENum 18 "1");
   EBin 32 OAdd (ECall 21 (EName 21 "upper") [EField 27 KeyKW]) (EStr 34 "x")].

(* the hypotheses of batch_row_agree_select are met by a concrete statement, store and batch
   size (whatever the float operations are): the batch drain succeeds, in two batches (the first
   holds 3 > B rows: a scan appends whole filtered chunks until it has at least B), and the
   third column shows the string/[]byte difference that "same content" absorbs *)
Example batch_row_agree_select_nonvacuous : forall (fo : fops) (re : bytes -> bytes -> res bool),
  fields_ok (Some ex_fields) /\
  select_batch fo re 2 ex_where (Some ex_fields) ex_store =
    Ok [[[VBytes "a"; VInt 13; VBytes "Ax"]; [VBytes "b"; VInt 8; VBytes "Bx"]; [VBytes "k1"; VInt 31; VBytes "K1x"]];
        [[VBytes "k3"; VInt 10; VBytes "K3x"]]] /\
  select_row fo re ex_where (Some ex_fields) ex_store =
    Ok [[VBytes "a"; VInt 13; VStr "Ax"]; [VBytes "b"; VInt 8; VStr "Bx"]; [VBytes "k1"; VInt 31; VStr "K1x"];
        [VBytes "k3"; VInt 10; VStr "K3x"]].
Proof.
  intros fo re. split; [|split; reflexivity].
  cbv [fields_ok ex_fields]. repeat (apply Forall_cons; [reflexivity|]). apply Forall_nil.
Qed.

(* the hypothesis of exec_batch_ok is met on a chunk of three pairs *)
Example exec_batch_ok_nonvacuous : forall (fo : fops) (re : bytes -> bytes -> res bool),
  eval_batch fo re true ex_where [("a", "12"); ("k2", "1"); ("b", "-25")] =
    Ok [VBool true; VBool false; VBool false].
Proof. intros fo re. reflexivity. Qed.

(* LIMIT stops before a failing pair: 10 / (int(value) - 7) > 0 fails on the pair valued 7.
   With LIMIT 0, 2 and B = 2 both modes return the first two matching rows and never evaluate
   the last pair; without the LIMIT the statement fails (in both modes). *)
Definition ex_store7 : list (option kvpair) :=
  [Some ("a", "12"); Some ("b", "3"); Some ("c", "9"); Some ("d", "1"); Some ("e", "7")].
Definition ex_where7 : expr :=
  EBin 23 OGt (EBin 3 ODiv (ENum 0 "10")
                  (EBin 18 OSub (ECall 6 (EName 6 "int") [EField 10 ValueKW]) (ENum 20 "7")))
      (ENum 25 "0").
Example batch_row_agree_select_limit_nonvacuous : forall (fo : fops) (re : bytes -> bytes -> res bool),
  select_limit_batch fo re 2 0 2 ex_where7 None ex_store7 =
    Ok [[[VBytes "a"; VBytes "12"]; [VBytes "c"; VBytes "9"]]] /\
  select_limit_row fo re 0 2 ex_where7 None ex_store7 =
    Ok [[VBytes "a"; VBytes "12"]; [VBytes "c"; VBytes "9"]] /\
  select_batch fo re 2 ex_where7 None ex_store7 = Err (EExec 18) /\
  select_row fo re ex_where7 None ex_store7 = Err (EExec 18).
Proof. intros fo re. repeat split; reflexivity. Qed.
