(* Properties/C03.v -- row-at-a-time and batch iteration give the same result at any batch size.
   Only property theorems here, each closed by [exact <lemma>] and followed by Print Assumptions;
   Examples show the hypotheses are met by concrete non-trivial inputs.

   All theorems are parametric in the float interface [fo] (no float law is assumed) and in the
   regular-expression oracle [re].  "Same content" is equality of [canon_of]: text as bytes
   (string and []byte identified), numbers by kind and value, lists structurally. *)
From Coq Require Import List String ZArith Bool Arith.
Import ListNotations.
From KV Require Import Base.Bytes Model.Ast Model.Value Model.Eval Model.EvalVec Model.ScanProj
                       Model.LimitLazy
                       Proofs.EvalVecProofs Proofs.ScanProjProofs Proofs.BatchRowProofs Proofs.LimitLazyProofs.
From KV Require Model.Limit.
Local Open Scope nat_scope.
Local Open Scope list_scope.

(* ------------------------------------------------------------------ expression layer (full) *)

(* ExecuteBatch, whenever it succeeds on a chunk, is pointwise Execute: for EVERY expression tree
   (all operators, IN over literals and list values, BETWEEN, every scalar function, indexing,
   aliases), every chunk (any length, any pairs) *)
Theorem exec_batch_ok : forall (fo : fops) (re : bytes -> bytes -> res bool)
    (e : expr) (chunk : list kvpair) (vs : list (value fo)),
  eval_batch fo re true e chunk = Ok vs ->
  Forall2 (fun kv v => exists v', eval fo re (fst kv) (snd kv) e = Ok v' /\
                                  canon_of fo v' = canon_of fo v) chunk vs.
Proof. exact EvalVecProofs.exec_batch_ok. Qed.
Print Assumptions exec_batch_ok.

(* the WHERE clause: FilterBatch succeeded on a chunk => Filter succeeds on every pair with the
   same verdict *)
Theorem filter_batch_ok : forall (fo : fops) (re : bytes -> bytes -> res bool)
    (e : expr) (chunk : list kvpair) (bs : list bool),
  filter_batch fo re true e chunk = Ok bs ->
  Forall2 (fun kv b => filter_row fo re (fst kv) (snd kv) e = Ok b) chunk bs.
Proof. exact EvalVecProofs.filter_batch_ok. Qed.
Print Assumptions filter_batch_ok.

(* the converse is false by design: batch & / | evaluate both sides for the whole chunk.
   key = 'zz' & 1 / (strlen(key) - 1) > 0 on the pair (a, x): row mode answers false, batch mode
   fails with a division by zero.  This is why the property has a direction. *)
Theorem exec_batch_converse_refuted : forall (fo : fops) (re : bytes -> bytes -> res bool),
  eval fo re "a" "x" asym_expr = Ok (VBool false) /\
  eval_batch fo re true asym_expr [("a"%string, "x"%string)] = Err (EExec 30).
Proof. exact EvalVecProofs.exec_batch_converse_fails. Qed.
Print Assumptions exec_batch_converse_refuted.

(* the pinned code (before the fix: commit for D29) violated the statement: batch BETWEEN did not
   type-check the upper bound of a text range, row mode does.  `key between 'a' and zz` (reachable
   through `!( ... )`, which the checker does not look into) succeeded in batch mode only. *)
Theorem exec_batch_ok_pinned_refuted : forall (fo : fops) (re : bytes -> bytes -> res bool),
  eval_batch fo re false between_expr [("b"%string, ""%string)] = Ok [VBool true] /\
  eval fo re "b" "" between_expr = Err (EExec 20) /\
  eval_batch fo re true between_expr [("b"%string, ""%string)] = Err (EExec 20).
Proof. exact EvalVecProofs.exec_batch_pinned_between. Qed.
Print Assumptions exec_batch_ok_pinned_refuted.

(* ------------------------------------------------------------------ plan layer (full, abstract) *)

(* Scan + projection over ANY stream of slots (cursor pairs, or point reads with missing keys),
   any filter and projection whose batch forms are pointwise their row forms up to a relation
   [req] on rows: for every batch size B >= 1, if the batch drain completes, the row drain
   completes with related rows in the same order, and no batch before the end is empty. *)
Theorem scan_proj_batch_row : forall (P R : Type)
    (frow : P -> res bool) (fbatch : list P -> res (list bool))
    (prow : P -> res R) (pbatch : list P -> res (list R)) (req : R -> R -> Prop),
  (forall c bs, fbatch c = Ok bs -> Forall2 (fun kv b => frow kv = Ok b) c bs) ->
  (forall c rs, pbatch c = Ok rs -> Forall2 (fun kv r => exists r', prow kv = Ok r' /\ req r' r) c rs) ->
  forall (B : nat) (slots : list (option P)) (outs : list (list R)),
  1 <= B -> drain_batch fbatch pbatch B slots = Ok outs ->
  exists rows, drain_row frow prow slots = Ok rows /\ Forall2 req rows (List.concat outs) /\
               Forall (fun o => o <> []) outs.
Proof. exact ScanProjProofs.scan_proj_batch_row. Qed.
Print Assumptions scan_proj_batch_row.

(* the fuel of the two drains is enough: with B >= 1 and a filter / projection that answer every
   chunk, the batch drain returns a result (the out-of-model outcome is never produced by the fuel
   bound); the row drain is by structural recursion on the stream (drain_row_spec) *)
Theorem scan_proj_fuel_enough : forall (P R : Type)
    (frow : P -> res bool) (fbatch : list P -> res (list bool)) (pbatch : list P -> res (list R)),
  (forall c bs, fbatch c = Ok bs -> Forall2 (fun kv b => frow kv = Ok b) c bs) ->
  (forall c, exists bs, fbatch c = Ok bs /\ List.length bs = List.length c) ->
  (forall c, exists rs, pbatch c = Ok rs /\ List.length rs = List.length c) ->
  forall (B : nat) (slots : list (option P)),
  1 <= B -> exists outs, drain_batch fbatch pbatch B slots = Ok outs.
Proof. exact ScanProjProofs.drain_batch_total. Qed.
Print Assumptions scan_proj_fuel_enough.

(* ------------------------------------------------------------------ composed *)

(* batch_row_agree for SELECT <fields | *> WHERE <wh> (no ORDER BY / GROUP BY / LIMIT): every
   WHERE clause and field list of the full expression language, every stream, every B >= 1 *)
Theorem batch_row_agree_select : forall (fo : fops) (re : bytes -> bytes -> res bool)
    (B : nat) (wh : expr) (fields : option (list expr)) (slots : list (option kvpair))
    (outs : list (list (list (value fo)))),
  1 <= B -> fields_ok fields ->
  select_batch fo re B wh fields slots = Ok outs ->
  exists rows, select_row fo re wh fields slots = Ok rows /\
               Forall2 (same_content fo) rows (List.concat outs) /\
               Forall (fun o => o <> []) outs.
Proof. exact BatchRowProofs.select_batch_row_agree. Qed.
Print Assumptions batch_row_agree_select.

(* select *: the concatenation of the batches IS the row-mode sequence *)
Theorem scan_batch_row : forall (fo : fops) (re : bytes -> bytes -> res bool)
    (B : nat) (wh : expr) (slots : list (option kvpair)) (outs : list (list (list (value fo)))),
  1 <= B -> select_batch fo re B wh None slots = Ok outs ->
  select_row fo re wh None slots = Ok (List.concat outs).
Proof. exact BatchRowProofs.scan_batch_row. Qed.
Print Assumptions scan_batch_row.

(* batch_row_agree for SELECT <fields | *> WHERE <wh> LIMIT start, count: FinalLimitPlan over
   ProjectionPlan over a scan, in the twin whose child is PULLED (Model/LimitLazy.v): a pair on
   which the WHERE clause or a field would fail beyond what the limit consumes is harmless in
   either mode, and batch mode reads at least as far as row mode.  Every offset and count (also
   0), every stream, every B >= 1. *)
Theorem batch_row_agree_select_limit : forall (fo : fops) (re : bytes -> bytes -> res bool)
    (B start count : nat) (wh : expr) (fields : option (list expr)) (slots : list (option kvpair))
    (louts : list (list (list (value fo)))),
  1 <= B -> fields_ok fields ->
  select_limit_batch fo re B start count wh fields slots = Ok louts ->
  exists lrows, select_limit_row fo re start count wh fields slots = Ok lrows /\
                Forall2 (same_content fo) lrows (List.concat louts).
Proof. exact LimitLazyProofs.select_limit_batch_row_agree. Qed.
Print Assumptions batch_row_agree_select_limit.

(* the pulled-child twin of the LIMIT node refines the list twin of C08 (Model/Limit.v): a
   completed lazy batch drain is the list drain over the non-empty batches it pulled, whatever
   the child would have returned afterwards ([tail]); if the child was seen exhausted, [tail] is
   empty *)
Theorem limit_lazy_refines_list : forall (S A : Type) (cbatch : S -> res (list A * S)),
  (forall s s1, cbatch s = Ok ([], s1) -> cbatch s1 = Ok ([], s1)) ->
  forall (fuel B start count : nat) (st : Limit.lstate) (s : S) (outs : list (list A)),
  ldrain_batch_fuel cbatch fuel B start count st s = Ok outs ->
  exists pb e s', pulled S A cbatch s pb e s' /\
    forall tail, (e = true -> tail = []) ->
      Limit.drain_batch_fuel true fuel B start count st (pb ++ tail) = Some outs.
Proof. exact LimitLazyProofs.sim_drain. Qed.
Print Assumptions limit_lazy_refines_list.

(* ------------------------------------------------------------------ non-vacuity *)
Local Open Scope string_scope.

Definition ex_store : list (option kvpair) :=
  [Some ("a", "12"); Some ("ab", "-3"); Some ("b", "7"); Some ("k1", "30"); Some ("k2", "1"); Some ("k3", "9")].
(* int(value) > 2 *)
Definition ex_where : expr := EBin 11 OGt (ECall 0 (EName 0 "int") [EField 4 ValueKW]) (ENum 13 "2").
(* key, int(value) + 1, upper(key) + 'x' *)
Definition ex_fields : list expr :=
  [EField 0 KeyKW;
   EBin 16 OAdd (ECall 5 (EName 5 "int") [EField 9 ValueKW]) (ENum 18 "1");
   EBin 32 OAdd (ECall 21 (EName 21 "upper") [EField 27 KeyKW]) (EStr 34 "x")].

(* the hypotheses of batch_row_agree_select are met by a concrete statement, store and batch
   size (whatever the float operations are): the batch drain succeeds, in two batches (the first
   holds 3 > B rows: a scan appends whole filtered chunks until it has at least B), and the
   third column shows the string/[]byte difference that "same content" absorbs *)
Example batch_row_agree_select_nonvacuous : forall (fo : fops) (re : bytes -> bytes -> res bool),
  fields_ok (Some ex_fields) /\
  select_batch fo re 2 ex_where (Some ex_fields) ex_store =
    Ok [[[VBytes "a"; VInt 13; VBytes "Ax"]; [VBytes "b"; VInt 8; VBytes "Bx"]; [VBytes "k1"; VInt 31; VBytes "K1x"]];
        [[VBytes "k3"; VInt 10; VBytes "K3x"]]] /\
  select_row fo re ex_where (Some ex_fields) ex_store =
    Ok [[VBytes "a"; VInt 13; VStr "Ax"]; [VBytes "b"; VInt 8; VStr "Bx"]; [VBytes "k1"; VInt 31; VStr "K1x"];
        [VBytes "k3"; VInt 10; VStr "K3x"]].
Proof.
  intros fo re. split; [|split; reflexivity].
  cbv [fields_ok ex_fields]. repeat (apply Forall_cons; [reflexivity|]). apply Forall_nil.
Qed.

(* the hypothesis of exec_batch_ok is met on a chunk of three pairs *)
Example exec_batch_ok_nonvacuous : forall (fo : fops) (re : bytes -> bytes -> res bool),
  eval_batch fo re true ex_where [("a", "12"); ("k2", "1"); ("b", "-25")] =
    Ok [VBool true; VBool false; VBool false].
Proof. intros fo re. reflexivity. Qed.

(* LIMIT stops before a failing pair: 10 / (int(value) - 7) > 0 fails on the pair valued 7.
   With LIMIT 0, 2 and B = 2 both modes return the first two matching rows and never evaluate
   the last pair; without the LIMIT the statement fails (in both modes). *)
Definition ex_store7 : list (option kvpair) :=
  [Some ("a", "12"); Some ("b", "3"); Some ("c", "9"); Some ("d", "1"); Some ("e", "7")].
Definition ex_where7 : expr :=
  EBin 23 OGt (EBin 3 ODiv (ENum 0 "10")
                  (EBin 18 OSub (ECall 6 (EName 6 "int") [EField 10 ValueKW]) (ENum 20 "7")))
      (ENum 25 "0").
Example batch_row_agree_select_limit_nonvacuous : forall (fo : fops) (re : bytes -> bytes -> res bool),
  select_limit_batch fo re 2 0 2 ex_where7 None ex_store7 =
    Ok [[[VBytes "a"; VBytes "12"]; [VBytes "c"; VBytes "9"]]] /\
  select_limit_row fo re 0 2 ex_where7 None ex_store7 =
    Ok [[VBytes "a"; VBytes "12"]; [VBytes "c"; VBytes "9"]] /\
  select_batch fo re 2 ex_where7 None ex_store7 = Err (EExec 18) /\
  select_row fo re ex_where7 None ex_store7 = Err (EExec 18).
Proof. intros fo re. repeat split; reflexivity. Qed.

(* ================================================================== statement level: ORDER BY and GROUP BY
   (appended; Model/SelectPlans.v composes the existing twins ScanProj / Order (C07) / Aggregate
   (C09) / LimitLazy the way Optimizer.buildFinalPlan stacks the nodes; Proofs/SelectPlansProofs.v)

   A statement's rows are [Order.row] (the dynamic types FinalOrderPlan's compare* functions
   switch on): projection rows rendered by [conv_row], aggregate result rows by [aconv_row].
   [nrows] identifies string and []byte of the same bytes and nothing else.  With ORDER BY the two
   modes return the SAME SEQUENCE (the order node is deterministic in the sequence of rows pushed,
   and Less does not distinguish string from []byte), which implies the property's "same multiset
   inside runs of ties".  [ag], [pi], [pf] are the Go library functions the aggregate / order code
   calls (strconv, encoding/json, float64 bits, int64(float64)); no law is assumed about them. *)
From KV Require Import Model.SelectPlans Proofs.SelectPlansProofs.
From KV Require Model.Order Model.Aggregate Model.AggregateLazy Spec.Group.

(* batch_row_agree for EVERY statement buildFinalPlan accepts: projection or aggregates, with or
   without ORDER BY (incl. `order by key asc` alone, which builds no order node), with or without
   LIMIT (FinalLimitPlan on top, or pushed into the AggregatePlan when there is no ORDER BY) *)
Theorem batch_row_agree_statement : forall (fo : fops) (re : bytes -> bytes -> res bool)
    (ag : aggops fo) (pi pf : bytes -> option Z) (B : nat) (q : cstmt fo)
    (slots : list (option kvpair)) (outs : list Order.row),
  1 <= B -> fields_ok (q_fields fo q) ->
  select_stmt_batch fo re ag pi pf B q slots = Ok outs ->
  exists rows, select_stmt_row fo re ag pi pf q slots = Ok rows /\ nrows rows = nrows outs.
Proof. exact SelectPlansProofs.select_stmt_batch_row. Qed.
Print Assumptions batch_row_agree_statement.

(* SELECT <fields> WHERE <wh> ORDER BY <orders> : FinalOrderPlan(ProjectionPlan(scan)) *)
Theorem batch_row_agree_ordered : forall (fo : fops) (re : bytes -> bytes -> res bool)
    (ag : aggops fo) (pi pf : bytes -> option Z) (B : nat) (q : cstmt fo)
    (orders : list Order.order_field) (slots : list (option kvpair)) (outs : list Order.row),
  1 <= B -> fields_ok (q_fields fo q) ->
  select_shape_batch fo re ag pi pf B q (SOrder orders SProj) slots = Ok outs ->
  exists rows, select_shape_row fo re ag pi pf q (SOrder orders SProj) slots = Ok rows /\
               nrows rows = nrows outs.
Proof. exact SelectPlansProofs.select_ordered_batch_row. Qed.
Print Assumptions batch_row_agree_ordered.

(* ... ORDER BY <orders> LIMIT start, count : FinalLimitPlan(FinalOrderPlan(ProjectionPlan(scan))).
   With LIMIT 0, 0 neither mode touches the child; otherwise the order node drains it on the
   first call, so a pair on which WHERE or a field fails makes the statement fail in both modes *)
Theorem batch_row_agree_ordered_limit : forall (fo : fops) (re : bytes -> bytes -> res bool)
    (ag : aggops fo) (pi pf : bytes -> option Z) (B : nat) (q : cstmt fo)
    (orders : list Order.order_field) (start count : nat)
    (slots : list (option kvpair)) (outs : list Order.row),
  1 <= B -> fields_ok (q_fields fo q) ->
  select_shape_batch fo re ag pi pf B q (SLimit start count (SOrder orders SProj)) slots = Ok outs ->
  exists rows, select_shape_row fo re ag pi pf q (SLimit start count (SOrder orders SProj)) slots = Ok rows /\
               nrows rows = nrows outs.
Proof. exact SelectPlansProofs.select_ordered_limit_batch_row. Qed.
Print Assumptions batch_row_agree_ordered_limit.

(* aggregates / GROUP BY : AggregatePlan(scan), [p] = its AggrAll / Fields / Start / Limit, i.e.
   WITH the LIMIT pushed down when the statement has one and no ORDER BY.  The result rows
   (Model/Aggregate.v's values) are EQUAL in the two modes. *)
Theorem batch_row_agree_aggregated : forall (fo : fops) (re : bytes -> bytes -> res bool)
    (ag : aggops fo) (B : nat) (q : cstmt fo) (p : Group.plan (F fo))
    (slots : list (option kvpair)) (rows : list (list (Group.value (F fo)))),
  1 <= B ->
  select_agg_batch fo re ag B q p slots = Ok rows -> select_agg_row fo re ag q p slots = Ok rows.
Proof. exact SelectPlansProofs.select_agg_batch_row. Qed.
Print Assumptions batch_row_agree_aggregated.

(* ... GROUP BY ... ORDER BY <orders> : FinalOrderPlan(AggregatePlan(scan)) *)
Theorem batch_row_agree_aggregated_ordered : forall (fo : fops) (re : bytes -> bytes -> res bool)
    (ag : aggops fo) (pi pf : bytes -> option Z) (B : nat) (q : cstmt fo)
    (orders : list Order.order_field) (slots : list (option kvpair)) (outs : list Order.row),
  1 <= B -> fields_ok (q_fields fo q) ->
  select_shape_batch fo re ag pi pf B q (SOrder orders (SAgg 0 None)) slots = Ok outs ->
  exists rows, select_shape_row fo re ag pi pf q (SOrder orders (SAgg 0 None)) slots = Ok rows /\
               nrows rows = nrows outs.
Proof. exact SelectPlansProofs.select_agg_ordered_batch_row. Qed.
Print Assumptions batch_row_agree_aggregated_ordered.

(* ... GROUP BY ... ORDER BY <orders> LIMIT start, count *)
Theorem batch_row_agree_aggregated_ordered_limit : forall (fo : fops) (re : bytes -> bytes -> res bool)
    (ag : aggops fo) (pi pf : bytes -> option Z) (B : nat) (q : cstmt fo)
    (orders : list Order.order_field) (start count : nat)
    (slots : list (option kvpair)) (outs : list Order.row),
  1 <= B -> fields_ok (q_fields fo q) ->
  select_shape_batch fo re ag pi pf B q (SLimit start count (SOrder orders (SAgg 0 None))) slots = Ok outs ->
  exists rows, select_shape_row fo re ag pi pf q (SLimit start count (SOrder orders (SAgg 0 None))) slots = Ok rows /\
               nrows rows = nrows outs.
Proof. exact SelectPlansProofs.select_agg_ordered_limit_batch_row. Qed.
Print Assumptions batch_row_agree_aggregated_ordered_limit.

(* the same for ANY scan / filter / projection / observation of the AggregatePlan whose batch
   forms are their row forms pair by pair (the glue hypotheses, stated explicitly; the theorems
   above discharge them for the evaluator twins through exec_batch_ok).  What the AggregatePlan
   evaluates on a pair depends on the keys of aggrMap seen so far ([T], initially [t0]): the glue
   hypothesis is that one iteration of prepareBatch on a chunk evaluates what the iterations of
   prepare on the chunk's pairs evaluate one after the other, from the same keys to the same keys *)
Theorem batch_row_agree_statement_abstract : forall (P : Type)
    (frow : P -> res bool) (fbatch : list P -> res (list bool))
    (prow : P -> res Order.row) (pbatch : list P -> res (list Order.row))
    (F : Type) (fadd fsub fmul fdiv : F -> F -> F) (fltb : F -> F -> bool) (fis0 : F -> bool)
    (of_Z : Z -> F) (to_Z : F -> Z) (fmt_f bits_f : F -> bytes) (json_f : F -> option bytes)
    (parse_f : bytes -> option F) (json_s : bytes -> bytes)
    (T : Type) (t0 : T)
    (obs_row : Group.plan F -> T -> P -> res (Group.pobs F * T))
    (obs_batch : Group.plan F -> T -> list P -> res (list (Group.pobs F) * T))
    (aconv : list (Group.value F) -> Order.row) (pi pf : bytes -> option Z),
  (forall c bs, fbatch c = Ok bs -> Forall2 (fun kv b => frow kv = Ok b) c bs) ->
  (forall c rs, pbatch c = Ok rs ->
     Forall2 (fun kv r => exists r', prow kv = Ok r' /\ nrow r' = nrow r) c rs) ->
  (forall p t c os t', obs_batch p t c = Ok (os, t') ->
     exists os', AggregateLazy.smap_res (obs_row p) t c = Ok (os', t') /\ Forall2 (pobs_sim F) os' os) ->
  forall (B : nat), 1 <= B ->
  forall (s : stmt F) (sl : list (option P)) (outs : list Order.row),
  run_batch P fbatch pbatch F fadd fsub fmul fdiv fltb fis0 of_Z to_Z fmt_f bits_f json_f parse_f json_s
            T t0 obs_batch aconv pi pf B s sl = Ok outs ->
  exists rows,
    run_row P frow prow F fadd fsub fmul fdiv fltb fis0 of_Z to_Z fmt_f bits_f json_f parse_f json_s
            T t0 obs_row aconv pi pf s sl = Ok rows /\
    nrows rows = nrows outs.
Proof. exact SelectPlansProofs.stmt_batch_row. Qed.
Print Assumptions batch_row_agree_statement_abstract.

(* on the columns the compare* functions can look at (text, integers, floats, Booleans) the
   rendering of a projection row loses nothing: equal renderings up to string / []byte are
   equal contents (for a float column: provided equal bit patterns are equal float identities,
   which holds for math.Float64bits) *)
Theorem rendering_faithful_on_scalars : forall (fo : fops) (ag : aggops fo) (x y : value fo),
  scalar fo x -> scalar fo y ->
  (forall f f', a_fbits fo ag f = a_fbits fo ag f' -> f_bits fo f = f_bits fo f') ->
  okey (conv_val fo (a_fbits fo ag) x) = okey (conv_val fo (a_fbits fo ag) y) -> canon_of fo x = canon_of fo y.
Proof. exact SelectPlansProofs.conv_val_scalar_inj. Qed.
Print Assumptions rendering_faithful_on_scalars.

(* buildFinalPlan: LIMIT without ORDER BY is pushed into the AggregatePlan; with ORDER BY it is a
   FinalLimitPlan over the FinalOrderPlan over the unlimited AggregatePlan *)
Example build_final_plan_shapes : forall (os : list Order.order_field) (s n : nat),
  build_final_plan true None (Some (s, n)) = SAgg s (Some n) /\
  build_final_plan true (Some os) (Some (s, n)) = SLimit s n (SOrder os (SAgg 0 None)) /\
  build_final_plan false None (Some (s, n)) = SLimit s n SProj.
Proof. intros. repeat split. Qed.

(* ------------------------------------------------------------------ non-vacuity (statement level) *)
Definition st_none : bytes -> option Z := fun _ => None.
Definition st_store : list (option kvpair) :=
  [Some ("a", "12"); Some ("ab", "-3"); Some ("b", "7"); Some ("k1", "30"); Some ("k2", "7"); Some ("k3", "9")].
(* select key, int(value) as n, upper(key) + 'x' as u where int(value) > 2 order by n desc [limit 1, 2] *)
Definition st_n : expr := ECall 5 (EName 5 "int") [EField 9 ValueKW].
Definition st_fields : list expr :=
  [EField 0 KeyKW; st_n; EBin 32 OAdd (ECall 21 (EName 21 "upper") [EField 27 KeyKW]) (EStr 34 "x")].
Definition st_orders : list Order.order_field := [Order.OrderField "n" st_n true].
Definition st_q (fo : fops) (lim : option (nat * nat)) : cstmt fo :=
  CStmt fo ex_where (Some st_fields) [] [] []
    (Stmt (F fo) None ["key"; "n"; "u"] [Order.TSTR; Order.TNUMBER; Order.TSTR] (Some st_orders) lim).

(* the hypotheses of batch_row_agree_statement / _ordered / _ordered_limit are met by a concrete
   statement with a tie in the sort column (7, 7), B = 2 < number of rows; the third column shows
   the string / []byte difference that [nrows] absorbs *)
Example batch_row_agree_ordered_nonvacuous : forall (fo : fops) (re : bytes -> bytes -> res bool) (ag : aggops fo),
  fields_ok (q_fields fo (st_q fo None)) /\
  stmt_shape (F fo) (q_stmt fo (st_q fo (Some (1, 2)))) = SLimit 1 2 (SOrder st_orders SProj) /\
  select_stmt_batch fo re ag st_none st_none 2 (st_q fo None) st_store =
    Ok [[Order.VBytes "k1"; Order.VInt 30; Order.VBytes "K1x"]; [Order.VBytes "a"; Order.VInt 12; Order.VBytes "Ax"];
        [Order.VBytes "k3"; Order.VInt 9; Order.VBytes "K3x"]; [Order.VBytes "k2"; Order.VInt 7; Order.VBytes "K2x"];
        [Order.VBytes "b"; Order.VInt 7; Order.VBytes "Bx"]] /\
  select_stmt_row fo re ag st_none st_none (st_q fo None) st_store =
    Ok [[Order.VBytes "k1"; Order.VInt 30; Order.VStr "K1x"]; [Order.VBytes "a"; Order.VInt 12; Order.VStr "Ax"];
        [Order.VBytes "k3"; Order.VInt 9; Order.VStr "K3x"]; [Order.VBytes "k2"; Order.VInt 7; Order.VStr "K2x"];
        [Order.VBytes "b"; Order.VInt 7; Order.VStr "Bx"]] /\
  select_stmt_batch fo re ag st_none st_none 2 (st_q fo (Some (1, 2))) st_store =
    Ok [[Order.VBytes "a"; Order.VInt 12; Order.VBytes "Ax"]; [Order.VBytes "k3"; Order.VInt 9; Order.VBytes "K3x"]] /\
  select_stmt_row fo re ag st_none st_none (st_q fo (Some (1, 2))) st_store =
    Ok [[Order.VBytes "a"; Order.VInt 12; Order.VStr "Ax"]; [Order.VBytes "k3"; Order.VInt 9; Order.VStr "K3x"]].
Proof.
  intros fo re ag. split; [|repeat split; reflexivity].
  cbv [fields_ok q_fields st_q st_fields]. repeat (apply Forall_cons; [reflexivity|]). apply Forall_nil.
Qed.

(* select value, count(1) as c, sum(strlen(key)) * 2 as s where key != 'zz' group by value
   [order by c desc, value] [limit 1, 2] *)
Definition sg_store : list (option kvpair) :=
  [Some ("a", "x"); Some ("ab", "y"); Some ("b", "x"); Some ("k1", "z"); Some ("k2", "y"); Some ("k3", "x")].
Definition sg_where : expr := EBin 4 ONotEq (EField 0 KeyKW) (EStr 7 "zz").
Definition sg_fields (fo : fops) : list (Group.field (F fo)) :=
  [Group.FKey 0; Group.FAgg (Group.AECall 0) [Group.Call Group.ACount 0];
   Group.FAgg (Group.AEBin Group.Times (Group.AECall 0) (Group.AEInt 2)) [Group.Call Group.ASum 1]].
Definition sg_orders : list Order.order_field :=
  [Order.OrderField "c" (ENum 0 "0") true; Order.OrderField "value" (EField 0 ValueKW) false].
Definition sg_q (fo : fops) (ord : option (list Order.order_field)) (lim : option (nat * nat)) : cstmt fo :=
  CStmt fo sg_where None [EField 0 ValueKW] [EField 0 ValueKW]
        [ENum 0 "1"; ECall 0 (EName 0 "strlen") [EField 0 KeyKW]]
    (Stmt (F fo) (Some (false, sg_fields fo)) ["value"; "c"; "s"] [Order.TSTR; Order.TNUMBER; Order.TNUMBER] ord lim).

Example batch_row_agree_aggregated_nonvacuous : forall (fo : fops) (re : bytes -> bytes -> res bool) (ag : aggops fo),
  stmt_shape (F fo) (q_stmt fo (sg_q fo None (Some (1, 2)))) = SAgg 1 (Some 2) /\
  select_stmt_batch fo re ag st_none st_none 2 (sg_q fo None None) sg_store =
    Ok [[Order.VBytes "x"; Order.VInt 3; Order.VInt 8]; [Order.VBytes "y"; Order.VInt 2; Order.VInt 8];
        [Order.VBytes "z"; Order.VInt 1; Order.VInt 4]] /\
  select_stmt_row fo re ag st_none st_none (sg_q fo None None) sg_store =
    Ok [[Order.VBytes "x"; Order.VInt 3; Order.VInt 8]; [Order.VBytes "y"; Order.VInt 2; Order.VInt 8];
        [Order.VBytes "z"; Order.VInt 1; Order.VInt 4]] /\
  (* LIMIT pushed into the AggregatePlan *)
  select_agg_batch fo re ag 2 (sg_q fo None None) (Group.Plan false (sg_fields fo) 1 (Some 2)) sg_store =
    Ok [[Group.VBytes "y"; Group.VInt 2; Group.VInt 8]; [Group.VBytes "z"; Group.VInt 1; Group.VInt 4]] /\
  select_stmt_row fo re ag st_none st_none (sg_q fo None (Some (1, 2))) sg_store =
    Ok [[Order.VBytes "y"; Order.VInt 2; Order.VInt 8]; [Order.VBytes "z"; Order.VInt 1; Order.VInt 4]] /\
  (* ORDER BY c desc, value LIMIT 1, 2: FinalLimitPlan(FinalOrderPlan(AggregatePlan)) *)
  select_stmt_batch fo re ag st_none st_none 2 (sg_q fo (Some sg_orders) (Some (1, 2))) sg_store =
    Ok [[Order.VBytes "y"; Order.VInt 2; Order.VInt 8]; [Order.VBytes "z"; Order.VInt 1; Order.VInt 4]] /\
  select_stmt_row fo re ag st_none st_none (sg_q fo (Some sg_orders) (Some (1, 2))) sg_store =
    Ok [[Order.VBytes "y"; Order.VInt 2; Order.VInt 8]; [Order.VBytes "z"; Order.VInt 1; Order.VInt 4]].
Proof. intros fo re ag. repeat split; reflexivity. Qed.

(* ================================================================== the evaluation discipline of the AggregatePlan
   (appended; Model/AggregateLazy.v).  The statement-level theorems above are over the composition
   in which the AggregatePlan evaluates EXACTLY what the Go code evaluates, in its order: GROUP BY
   expressions on every pair (batch mode: ExecuteBatch on the whole chunk first), the
   non-aggregate fields on the first pair of a group only, the first argument of every aggregate
   call except count on every pair, nothing for count; and in which a pushed-down LIMIT completes
   only the groups Next / Batch reach.  So they also cover the statements in which a skipped
   evaluation would fail. *)
From KV Require Proofs.AggregateLazyProofs.

(* one iteration of prepareBatch on a chunk that succeeds => the iterations of prepare on the
   chunk's pairs succeed one after the other, from the same keys of aggrMap to the same keys, with
   the same values (up to string / []byte in the GROUP BY values): batch mode asks for nothing row
   mode does not ask for *)
Theorem aggregate_batch_iteration_evaluates_what_row_iterations_evaluate :
  forall (fo : fops) (re : bytes -> bytes -> res bool) (ag : aggops fo)
         (gs ks args : list expr) (p : Group.plan (F fo)) (t : AggregateLazy.seen) (c : list kvpair)
         (os : list (Group.pobs (F fo))) (t' : AggregateLazy.seen),
  c_lobs_batch fo re ag gs ks args p t c = Ok (os, t') ->
  exists os', AggregateLazy.smap_res (c_lobs_row fo re ag gs ks args p) t c = Ok (os', t') /\
              Forall2 (pobs_sim (F fo)) os' os.
Proof. exact SelectPlansProofs.c_lobs_batch_ok. Qed.
Print Assumptions aggregate_batch_iteration_evaluates_what_row_iterations_evaluate.

(* the lazy composition refines the eager one (all three groups of expressions on every pair,
   every group completed: what this file composed before): wherever the eager composition of
   AggregatePlan(scan) answers with rows -- in row mode, or in batch mode at any B >= 1 -- the lazy
   one answers with the same rows *)
Theorem batch_row_agree_aggregated_lazy_refines_eager :
  forall (fo : fops) (re : bytes -> bytes -> res bool) (ag : aggops fo) (q : cstmt fo)
         (p : Group.plan (F fo)) (slots : list (option kvpair)) (rows : list (list (Group.value (F fo)))),
  (select_agg_row_eager fo re ag q p slots = Ok rows -> select_agg_row fo re ag q p slots = Ok rows) /\
  (forall B, 1 <= B ->
   select_agg_batch_eager fo re ag B q p slots = Ok rows -> select_agg_batch fo re ag B q p slots = Ok rows).
Proof.
  intros. split; [apply SelectPlansProofs.select_agg_row_refines | intros B; apply SelectPlansProofs.select_agg_batch_refines].
Qed.
Print Assumptions batch_row_agree_aggregated_lazy_refines_eager.

(* non-vacuity on the statements the eager composition could not answer:
     select substr(key, 0, 1) as g, 10 / (int(value) - 3) as x, count(10 / (int(value) - 3)) as c
     where key != 'zz' group by g, g
   over a1 -> 1, a2 -> 3, b1 -> 2: x and count's argument fail on a2 (10 / 0), a later pair of
   group a.  The Go code evaluates neither; both modes return two rows.  With sum in the place
   of count the argument IS evaluated and the statement fails in both modes.  The eager
   composition fails on the first statement too. *)
Definition lz_g : expr := ECall 7 (EName 7 "substr") [EField 14 KeyKW; ENum 19 "0"; ENum 22 "1"].
Definition lz_x : expr :=
  EBin 33 ODiv (ENum 30 "10") (EBin 47 OSub (ECall 36 (EName 36 "int") [EField 40 ValueKW]) (ENum 49 "3")).
Definition lz_store : list (option kvpair) := [Some ("a1", "1"); Some ("a2", "3"); Some ("b1", "2")].
Definition lz_q (fo : fops) (f : Group.afun) : cstmt fo :=
  CStmt fo sg_where None [lz_g; lz_g] [lz_g; lz_x] [lz_x]
    (Stmt (F fo) (Some (false, [Group.FKey 0; Group.FKey 1; Group.FAgg (Group.AECall 0) [Group.Call f 0]]))
          ["g"; "x"; "c"] [Order.TSTR; Order.TNUMBER; Order.TNUMBER] None None).
Example batch_row_agree_aggregated_lazy_nonvacuous : forall (fo : fops) (re : bytes -> bytes -> res bool) (ag : aggops fo),
  select_stmt_batch fo re ag st_none st_none 2 (lz_q fo Group.ACount) lz_store =
    Ok [[Order.VBytes "a"; Order.VBytes "-5"; Order.VInt 2]; [Order.VBytes "b"; Order.VBytes "-10"; Order.VInt 1]] /\
  select_stmt_row fo re ag st_none st_none (lz_q fo Group.ACount) lz_store =
    Ok [[Order.VBytes "a"; Order.VBytes "-5"; Order.VInt 2]; [Order.VBytes "b"; Order.VBytes "-10"; Order.VInt 1]] /\
  select_stmt_batch fo re ag st_none st_none 2 (lz_q fo Group.ASum) lz_store = Err (EExec 47) /\
  select_stmt_row fo re ag st_none st_none (lz_q fo Group.ASum) lz_store = Err (EExec 47) /\
  select_agg_row_eager fo re ag (lz_q fo Group.ACount) (Group.Plan false
      [Group.FKey 0; Group.FKey 1; Group.FAgg (Group.AECall 0) [Group.Call Group.ACount 0]] 0 None) lz_store = Err (EExec 47).
Proof. intros fo re ag. repeat split; reflexivity. Qed.

(* ================================================================== SELECT FROM THE QUERY TEXT
   (appended; Model/PipelineS.v, Proofs/PipelineSProofs.v).  [select_stmt_text fo re fmt_v ag pi pf q d m]
   is kvql.NewOptimizer(q).BuildPlan(d) drained in mode m (MRow: Next until nil, MBatch B: Batch until
   empty) as the composition of the twins of lexer, statement parser with its mid-parse tests,
   checker, call check, constant folder at statement level, region inference, scan choice,
   buildFinalPlan and the plan nodes; the correspondence check evaluates it on the same TEXT as the
   Go code on every run (harness/c03.go part F, Corr/C03Text.v). *)
From KV Require Import Model.Pipeline Model.PipelineS Proofs.PipelineSProofs.
From KV Require Model.Storage Model.ScanIO Model.ScanSem Model.FilterOpt Model.ParseCheck Model.StmtParser Model.Checker
                Model.PipelineW.

(* THE GLUE, as an equivalence: the text is accepted and its drain returns [rows] iff the twin of
   the front end + folder + buildFinalPlan plans [pl] for it and the composed plan twin
   (Model/SelectPlans.v select_shape_row / select_shape_batch, the subject of the theorems above)
   of the shape build_final_plan gives -- from whether the FOLDED fields hold an aggregate, the
   ORDER BY items resolved to the first field of their name, and the LIMIT -- returns [rows] over
   the slots that the scan chosen for the region of the FOLDED WHERE tree yields from the store *)
Theorem select_text_glue :
  forall (fo : fops) (re : bytes -> bytes -> res bool) (fmt_v : F fo -> string) (ag : aggops fo)
         (pi pf : bytes -> option Z) (q : string) (d : Storage.store) (m : tmode) (rows : list Order.row),
  select_stmt_text fo re fmt_v ag pi pf q d m = TOk rows <->
  exists pl,
    plan_stmt_text fo re fmt_v q = STOk pl /\
    let c := sp_q fo pl in
    let sh := build_final_plan (is_agg fo pl) (SelectPlans.s_order (F fo) (q_stmt fo c))
                               (SelectPlans.s_limit (F fo) (q_stmt fo c)) in
    let sl := scan_slots (ScanSem.scan_of_region (FilterOpt.optimize (q_where fo c))) d in
    match m with
    | MRow => select_shape_row fo re ag pi pf c sh sl = Ok rows
    | MBatch B => select_shape_batch fo re ag pi pf B c sh sl = Ok rows
    end.
Proof. exact select_stmt_text_is_shape_run. Qed.
Print Assumptions select_text_glue.

(* what an accepted text fixes about its plan: the trees are the checker's (names resolved), the
   filter evaluates the FOLDED tree, the scan node comes from the region of THAT tree, the
   projection evaluates the folded fields, FieldNames / FieldTypes are those of the checked fields
   (KEY, VALUE / text, text for `*`), ORDER BY items carry the FIRST field of their name, the LIMIT
   is the parsed one *)
Theorem select_text_plan :
  forall (fo : fops) (re : bytes -> bytes -> res bool) (fmt_v : F fo -> string) (q : string) (pl : splanned fo),
  plan_stmt_text fo re fmt_v q = STOk pl ->
  let x := sp_select fo pl in
  let fields := sp_fields fo pl in
  let c := sp_q fo pl in
  front_s fo q = STOk (x, fields, sp_where fo pl) /\
  q_where fo c = exec_of fo re fmt_v (sp_where fo pl) /\
  sp_scan fo pl = ScanSem.scan_of_region (FilterOpt.optimize (q_where fo c)) /\
  (is_agg fo pl = false ->
   q_fields fo c = if StmtParser.s_all x then None else Some (map (fun nf => exec_of fo re fmt_v (snd nf)) fields)) /\
  SelectPlans.s_names (F fo) (q_stmt fo c) = plan_names x fields /\
  SelectPlans.s_types (F fo) (q_stmt fo c) = plan_types x fields /\
  SelectPlans.s_order (F fo) (q_stmt fo c) = option_map (order_fields fields) (StmtParser.s_order x) /\
  PipelineW.limit_of (StmtParser.s_limit x) = Some (SelectPlans.s_limit (F fo) (q_stmt fo c)) /\
  sp_shape fo pl = build_final_plan (is_agg fo pl) (SelectPlans.s_order (F fo) (q_stmt fo c))
                                    (SelectPlans.s_limit (F fo) (q_stmt fo c)).
Proof. exact plan_stmt_text_inv. Qed.
Print Assumptions select_text_plan.

(* Model/ParseCheck.v parse_check (C17's composite twin of BuildPlan's accept / reject decision)
   IS the front end of the text twin followed by the folder on the select fields and the tests of
   buildFinalPlan on the FOLDED fields -- the same two things plan_of_front does with the result
   of front_s.  For every text front_s accepts (GROUP BY together with a field name inside a
   select field included: ParseCheck.to_check takes every statement the parser returns): *)
Theorem select_text_front_is_parse_check :
  forall (fo : fops) (re : bytes -> bytes -> res bool) (fmt_v : F fo -> string)
         (q : string) (x : StmtParser.select_t) (fields : list (string * expr)) (w : expr),
  front_s fo q = STOk (x, fields, w) ->
  ParseCheck.parse_check fo re fmt_v q =
  let c := Checker.SSelect fields w (ParseCheck.order_items (StmtParser.s_order x)) in
  if existsb (fun nf => fold_oom fo re fmt_v (snd nf)) fields then ParseCheck.PCOutOfModel
  else match ParseCheck.plan_select x (map (fun nf => (fst nf, exec_of fo re fmt_v (snd nf))) fields) with
       | ParseCheck.PlErr z => ParseCheck.PCErr ParseCheck.KPlan z
       | ParseCheck.PlProjection => ParseCheck.PCOk (StmtParser.StSelect x) c false
       | ParseCheck.PlAggregate => ParseCheck.PCOk (StmtParser.StSelect x) c true
       end.
Proof. exact front_s_parse_check_unfolded. Qed.
Print Assumptions select_text_front_is_parse_check.

(* a rejection of the front end is a rejection of parse_check at the same position, ahead of its
   plan stage *)
Theorem select_text_front_reject_is_parse_check :
  forall (fo : fops) (re : bytes -> bytes -> res bool) (fmt_v : F fo -> string) (q : string) (z : Z),
  front_s fo q = STReject z ->
  exists k, k <> ParseCheck.KPlan /\ ParseCheck.parse_check fo re fmt_v q = ParseCheck.PCErr k z.
Proof. exact front_s_reject_parse_check. Qed.
Print Assumptions select_text_front_reject_is_parse_check.

(* the two text twins accept the same texts with the same trees: what plan_stmt_text plans,
   parse_check accepts -- the parser's statement, the checked fields and WHERE tree, and whether
   buildFinalPlan builds an AggregatePlan *)
Theorem select_text_plan_is_parse_check :
  forall (fo : fops) (re : bytes -> bytes -> res bool) (fmt_v : F fo -> string) (q : string) (pl : splanned fo),
  plan_stmt_text fo re fmt_v q = STOk pl ->
  ParseCheck.parse_check fo re fmt_v q =
  ParseCheck.PCOk (StmtParser.StSelect (sp_select fo pl))
    (Checker.SSelect (sp_fields fo pl) (sp_where fo pl)
                     (ParseCheck.order_items (StmtParser.s_order (sp_select fo pl))))
    (is_agg fo pl).
Proof. exact plan_stmt_text_parse_check. Qed.
Print Assumptions select_text_plan_is_parse_check.

(* C03 FROM THE TEXT: a batch drain of the text that completes => the row drain of the same text
   completes with the same rows in the same order (up to string / []byte), every B >= 1, every
   store, every statement the twin accepts (projection or aggregates, ORDER BY, LIMIT, every scan).
   Premise: no select field is a bare list literal (as batch_row_agree_statement). *)
Theorem batch_row_agree_text :
  forall (fo : fops) (re : bytes -> bytes -> res bool) (fmt_v : F fo -> string) (ag : aggops fo)
         (pi pf : bytes -> option Z) (q : string) (d : Storage.store) (B : nat) (outs : list Order.row),
  1 <= B ->
  (forall pl, plan_stmt_text fo re fmt_v q = STOk pl -> fields_ok (q_fields fo (sp_q fo pl))) ->
  select_stmt_text fo re fmt_v ag pi pf q d (MBatch B) = TOk outs ->
  exists rows, select_stmt_text fo re fmt_v ag pi pf q d MRow = TOk rows /\ nrows rows = nrows outs.
Proof. exact PipelineSProofs.batch_row_agree_text. Qed.
Print Assumptions batch_row_agree_text.

(* the projection from the text: one row per pair of the scan on which the (folded) WHERE tree is
   true, in scan order, every column the value of its (checked and folded) field on that pair *)
Theorem select_fields_text_values :
  forall (fo : fops) (re : bytes -> bytes -> res bool) (fmt_v : F fo -> string) (ag : aggops fo)
         (pi pf : bytes -> option Z) (q : string) (d : Storage.store) (pl : splanned fo) (out : list Order.row),
  plan_stmt_text fo re fmt_v q = STOk pl ->
  sp_shape fo pl = SProj ->
  select_stmt_text fo re fmt_v ag pi pf q d MRow = TOk out ->
  let c := sp_q fo pl in
  let pairs := somes (scan_slots (sp_scan fo pl) d) in
  Forall (fun kv => exists b, filter_row fo re (fst kv) (snd kv) (q_where fo c) = Ok b) pairs /\
  Forall2 (row_of_fields fo re ag (q_fields fo c))
          (filter (fun kv => match filter_row fo re (fst kv) (snd kv) (q_where fo c) with
                             | Ok true => true | _ => false end) pairs) out.
Proof. exact PipelineSProofs.select_fields_text_values. Qed.
Print Assumptions select_fields_text_values.

(* ---- non-vacuity (integer texts only: no float operation is reached; parametric in fo) *)
Definition ps_ex_store : Storage.store := [("a", "3"); ("ab", "1"); ("b", "2"); ("c", "1")].
Definition ps_ex_order_limit : string :=
  "select key, int(value) as n, n + 1 as n where key > '' ORDER BY n desc, key limit 1, 2;".
Definition ps_ex_group_limit : string :=
  "select value as g, count(1) as c, sum(int(value)) * 2 as s where key ^= 'a' | key >= 'b' group by g limit 1, 5".

(* ORDER BY + LIMIT over a projection with a duplicate field name: the FIRST n sorts; full scan;
   FinalLimitPlan over FinalOrderPlan over ProjectionPlan; both modes *)
Example select_text_order_limit_nonvacuous :
  forall (fo : fops) (re : bytes -> bytes -> res bool) (fmt_v : F fo -> string) (ag : aggops fo)
         (pi pf : bytes -> option Z),
  (exists pl, plan_stmt_text fo re fmt_v ps_ex_order_limit = STOk pl /\
              sp_scan fo pl = ScanIO.SFull /\
              SelectPlans.s_names (F fo) (q_stmt fo (sp_q fo pl)) = ["KEY"; "n"; "n"]%string /\
              SelectPlans.s_types (F fo) (q_stmt fo (sp_q fo pl)) = [Order.TSTR; Order.TNUMBER; Order.TNUMBER] /\
              (exists f1 f2, sp_shape fo pl =
                 SLimit 1 2 (SOrder [Order.OrderField "n" f1 true; Order.OrderField "KEY" f2 false] SProj))) /\
  select_stmt_text fo re fmt_v ag pi pf ps_ex_order_limit ps_ex_store MRow =
    TOk [[Order.VBytes "b"; Order.VInt 2; Order.VInt 3]; [Order.VBytes "ab"; Order.VInt 1; Order.VInt 2]] /\
  select_stmt_text fo re fmt_v ag pi pf ps_ex_order_limit ps_ex_store (MBatch 2) =
    TOk [[Order.VBytes "b"; Order.VInt 2; Order.VInt 3]; [Order.VBytes "ab"; Order.VInt 1; Order.VInt 2]].
Proof.
  intros. split; [|split; vm_compute; reflexivity].
  eexists. split; [vm_compute; reflexivity|]. repeat split; try (vm_compute; reflexivity).
  do 2 eexists. vm_compute. reflexivity.
Qed.

(* GROUP BY + aggregates + LIMIT without ORDER BY: the LIMIT is pushed into the AggregatePlan
   (shape SAgg 1 (Some 5)), full scan (an OR of a prefix and a range), groups in first-occurrence
   order 3, 1, 2: the slice from the second group on *)
Example select_text_group_limit_nonvacuous :
  forall (fo : fops) (re : bytes -> bytes -> res bool) (fmt_v : F fo -> string) (ag : aggops fo)
         (pi pf : bytes -> option Z),
  (exists pl, plan_stmt_text fo re fmt_v ps_ex_group_limit = STOk pl /\ sp_shape fo pl = SAgg 1 (Some 5) /\
              is_agg fo pl = true) /\
  select_stmt_text fo re fmt_v ag pi pf ps_ex_group_limit ps_ex_store MRow =
    TOk [[Order.VBytes "1"; Order.VInt 2; Order.VInt 4]; [Order.VBytes "2"; Order.VInt 1; Order.VInt 4]] /\
  select_stmt_text fo re fmt_v ag pi pf ps_ex_group_limit ps_ex_store (MBatch 3) =
    TOk [[Order.VBytes "1"; Order.VInt 2; Order.VInt 4]; [Order.VBytes "2"; Order.VInt 1; Order.VInt 4]].
Proof.
  intros. split; [|split; vm_compute; reflexivity].
  eexists. split; [vm_compute; reflexivity|]. split; vm_compute; reflexivity.
Qed.

(* the glue decisions on texts: hasAggr is computed on the FOLDED fields (a projection, although
   the field as written holds an aggregate call); `order by key asc` alone is dropped; rejections
   of buildFinalPlan and of AggregatePlan.Init with their positions; PUT is outside this twin *)
Example select_text_glue_decisions :
  forall (fo : fops) (re : bytes -> bytes -> res bool) (fmt_v : F fo -> string) (ag : aggops fo)
         (pi pf : bytes -> option Z),
  select_stmt_text fo re fmt_v ag pi pf "select key, true | (count(1) > 0) as x where key = 'b'" ps_ex_store MRow =
    TOk [[Order.VBytes "b"; Order.VBool true]] /\
  (exists pl, plan_stmt_text fo re fmt_v "select * where key ^= 'a' order by key asc" = STOk pl /\
              sp_shape fo pl = SProj /\ sp_scan fo pl = ScanIO.SPrefix "a") /\
  select_stmt_text_st fo re fmt_v ag pi pf "select key, count(1) where key > ''" ps_ex_store MRow = STReject (-1) /\
  select_stmt_text_st fo re fmt_v ag pi pf "select key where key > '' group by key" ps_ex_store MRow = STReject 0 /\
  select_stmt_text_st fo re fmt_v ag pi pf "select count() where key > ''" ps_ex_store MRow = STBuildErr (EExec 7) /\
  select_stmt_text fo re fmt_v ag pi pf "put ('k', 'v')" ps_ex_store MRow = TOom.
Proof.
  intros. split; [vm_compute; reflexivity|]. split.
  { eexists. split; [vm_compute; reflexivity|]. split; vm_compute; reflexivity. }
  repeat split; vm_compute; reflexivity.
Qed.

(* ------------------------------------------------------------------ the slots of the text
   pipeline are what the storage-level scan twins read (Proofs/ScanSlotsProofs.v).
   [scan_slots sc d] (Model/PipelineS.v) is the stream the nodes of a SELECT with fields consume;
   the scan node of Model/ScanIO.v is the twin of scan_plan.go over the storage instructions.
   For every scan node with sorted distinct point-read keys -- in particular the node
   FilterOptimizer.Optimize builds for any region, [scan_of_region r] -- every strictly sorted
   store, every filter oracle, both modes, every batch size >= 1: BuildPlan and the caller's loop
   over that node, from the fault-free state, return the pairs among the slots that pass the
   filter, in slot order (batch mode: non-empty batches that concatenate to it), and read inside
   the region (C18's reads_ok).  The empty slots of a multi-get are the listed keys that are not
   stored: one Get each, nothing yielded. *)
From KV Require Import Model.FilterOpt Model.ScanSem Model.ScanIO Model.Storage
                       Proofs.StorageProofs Proofs.ScanSemProofs Proofs.ScanSlotsProofs.
Local Open Scope list_scope.


Theorem slots_pairs_are_the_region : forall sc d, ssorted d -> keys_ok (PScan sc) ->
  somes (scan_slots sc d) = filter (fun kv => covers (region_of sc) (fst kv)) d.
Proof. exact somes_scan_slots. Qed.
Print Assumptions slots_pairs_are_the_region.

Theorem slots_scan_rows_row :
  forall (flt : kvp -> bool) (fuel : nat) (sc : scan) (d : store) (l0 : list scall),
  ssorted d -> keys_ok (PScan sc) -> List.length d + plan_keys (PScan sc) < fuel ->
  exists l, run_read (select_rows true flt fuel (PScan sc)) (SState d l0 None)
            = (Storage.Ok (filter flt (somes (scan_slots sc d))), SState d (l0 ++ l) None)
            /\ reads_ok sc l.
Proof. exact slots_scan_rows_row_lemma. Qed.
Print Assumptions slots_scan_rows_row.

Theorem slots_scan_rows_batch :
  forall (flt : kvp -> bool) (B fuel : nat) (sc : scan) (d : store) (l0 : list scall),
  1 <= B -> ssorted d -> keys_ok (PScan sc) -> List.length d + plan_keys (PScan sc) < fuel ->
  exists outs l, run_read (select_batches true flt B fuel (PScan sc)) (SState d l0 None)
                 = (Storage.Ok outs, SState d (l0 ++ l) None)
                 /\ List.concat outs = filter flt (somes (scan_slots sc d))
                 /\ Forall (@ScanSemProofs.nonempty kvp) outs
                 /\ reads_ok sc l.
Proof. exact slots_scan_rows_batch_lemma. Qed.
Print Assumptions slots_scan_rows_batch.

(* the node of a region, with the filter that keeps every pair: exactly the slots' pairs *)
Theorem slots_unfiltered_row :
  forall (fuel : nat) (r : region) (d : store),
  ssorted d -> List.length d + plan_keys (PScan (scan_of_region r)) < fuel ->
  exists l, run_read (select_rows true (fun _ => true) fuel (PScan (scan_of_region r))) (sinit d None)
            = (Storage.Ok (somes (scan_slots (scan_of_region r) d)), SState d l None)
            /\ reads_ok (scan_of_region r) l.
Proof. exact slots_unfiltered_row_lemma. Qed.
Print Assumptions slots_unfiltered_row.

Theorem slots_unfiltered_batch :
  forall (B fuel : nat) (r : region) (d : store),
  1 <= B -> ssorted d -> List.length d + plan_keys (PScan (scan_of_region r)) < fuel ->
  exists outs l, run_read (select_batches true (fun _ => true) B fuel (PScan (scan_of_region r))) (sinit d None)
                 = (Storage.Ok outs, SState d l None)
                 /\ List.concat outs = somes (scan_slots (scan_of_region r) d)
                 /\ Forall (@ScanSemProofs.nonempty kvp) outs
                 /\ reads_ok (scan_of_region r) l.
Proof. exact slots_unfiltered_batch_lemma. Qed.
Print Assumptions slots_unfiltered_batch.

(* the consumer of the slots: every shape of select_stmt_text runs the scan's read loop WITH the
   WHERE filter over the slots (Model/ScanProj.v); the storage-level node carries the filter as
   the oracle [flt].  When the filter does not fail on the stored pairs, both keep the same
   pairs (batch mode: the same concatenation) *)
Theorem scan_node_filter_agree_row :
  forall (frow : kvp -> Value.res bool) (flt : kvp -> bool) (fuel : nat) (sc : scan) (d : store),
  ssorted d -> keys_ok (PScan sc) -> List.length d + plan_keys (PScan sc) < fuel ->
  (forall kv, In kv d -> frow kv = Value.Ok (flt kv)) ->
  exists rows l,
    run_read (select_rows true flt fuel (PScan sc)) (sinit d None) = (Storage.Ok rows, SState d l None) /\
    ScanProj.drain_row frow (fun kv => Value.Ok kv) (scan_slots sc d) = Value.Ok rows /\
    reads_ok sc l.
Proof. exact scan_node_filter_agree_row_lemma. Qed.
Print Assumptions scan_node_filter_agree_row.

Theorem scan_node_filter_agree_batch :
  forall (frow : kvp -> Value.res bool) (fbatch : list kvp -> Value.res (list bool)) (flt : kvp -> bool)
         (B fuel : nat) (sc : scan) (d : store) (outs' : list (list kvp)),
  1 <= B -> ssorted d -> keys_ok (PScan sc) -> List.length d + plan_keys (PScan sc) < fuel ->
  (forall kv, In kv d -> frow kv = Value.Ok (flt kv)) ->
  (forall c bs, fbatch c = Value.Ok bs -> Forall2 (fun kv b => frow kv = Value.Ok b) c bs) ->
  ScanProj.drain_batch fbatch (fun c => Value.Ok c) B (scan_slots sc d) = Value.Ok outs' ->
  exists outs l,
    run_read (select_batches true flt B fuel (PScan sc)) (sinit d None) = (Storage.Ok outs, SState d l None) /\
    List.concat outs = List.concat outs' /\
    reads_ok sc l.
Proof. exact scan_node_filter_agree_batch_lemma. Qed.
Print Assumptions scan_node_filter_agree_batch.

(* one pass of the scan's read loop (the inner `for i < PlanBatchSize` of Batch) consumes exactly
   the next n slots: one Get per slot for a multi-get (empty slot = key absent, still one
   iteration), one Next per slot for a cursor scan plus the Next that ends it *)
Theorem mget_chunk_consumes_slots : forall n keys idx acc d,
  rspec (mget_read_chunk n keys idx acc) d (fun x l =>
    x = (acc ++ somes (firstn n (scan_slots (SMget keys) d)), skipn n keys,
         idx + Nat.min n (List.length keys), Nat.ltb (List.length keys) n)
    /\ l = map CGet (firstn n keys)).
Proof. exact mget_chunk_consumes_slots_lemma. Qed.
Print Assumptions mget_chunk_consumes_slots.

Theorem cursor_chunk_consumes_slots : forall sc n snap rest acc d,
  rspec (cursor_read_chunk sc n snap rest acc) d (fun x l =>
    let sl := take_until (scan_stop sc) rest in
    fst (fst x) = acc ++ firstn n sl /\
    snd x = Nat.ltb (List.length sl) n /\
    csnap (snd (fst x)) = snap /\
    (snd x = false -> crest (snd (fst x)) = skipn n rest) /\
    next_keys l = map fst (firstn n sl) ++
                  (if Nat.ltb (List.length sl) n then map fst (firstn 1 (skipn (List.length sl) rest)) else [])).
Proof. exact cursor_chunk_consumes_slots_lemma. Qed.
Print Assumptions cursor_chunk_consumes_slots.

(* the statement runner of Model/ScanIO.v (which counts rows) against select_stmt_text, projection
   shape (no aggregate, no ORDER BY node, no LIMIT): with the text's WHERE filter as the oracle it
   returns as many rows as select_stmt_text, one by one in row mode, in non-empty batches of that
   total in batch mode.  (The aggregate / order / limit shapes are not related: ScanIO counts
   their rows under an oracle for the GROUP BY key.) *)
From KV Require Import Model.PipelineIO.
Theorem text_rows_count_proj :
  forall (fo : fops) (re : bytes -> bytes -> Value.res bool) (fmt_v : F fo -> string) (ag : aggops fo)
         (pi pf : bytes -> option Z)
         (gkey : kvp -> bytes) (B fuel : nat) (q : string) (pl : splanned fo) (d : store) (rows : list Order.row),
  plan_stmt_text fo re fmt_v q = STOk pl -> sp_shape fo pl = SProj ->
  select_stmt_text fo re fmt_v ag pi pf q d MRow = TOk rows ->
  1 <= B -> ssorted d -> List.length d + plan_keys (PScan (sp_scan fo pl)) < fuel ->
  let flt := Pipeline.filter_of fo re (q_where fo (sp_q fo pl)) in
  text_fplan fo pl = FProj (PScan (sp_scan fo pl)) /\
  fst (ScanIO.run_stmt true flt gkey B fuel RowMode (StSelect (text_fplan fo pl)) (sinit d None))
    = Storage.Ok (repeat 1 (List.length rows)) /\
  exists sizes, fst (ScanIO.run_stmt true flt gkey B fuel BatchMode (StSelect (text_fplan fo pl)) (sinit d None))
                = Storage.Ok sizes /\ list_sum sizes = List.length rows /\ Forall (fun k => 1 <= k) sizes.
Proof. exact text_rows_count_proj_lemma. Qed.
Print Assumptions text_rows_count_proj.

(* non-vacuity: a multi-get with a duplicate and an absent key, and a prefix scan *)
Example slots_mget_nonvacuous :
  let d := [("a","1");("ab","2");("b","3");("c","4")]%string in
  let sc := scan_of_region (RMget ["c";"zz";"a";"c"]%string) in
  sc = SMget ["a";"c";"zz"]%string /\
  scan_slots sc d = [Some ("a","1"); Some ("c","4"); None]%string /\
  run_read (select_rows true (fun _ => true) 10 (PScan sc)) (sinit d None)
  = (Storage.Ok [("a","1");("c","4")]%string, SState d [CGet "a"; CGet "c"; CGet "zz"]%string None) /\
  run_read (select_batches true (fun _ => true) 2 10 (PScan sc)) (sinit d None)
  = (Storage.Ok [[("a","1");("c","4")]]%string, SState d [CGet "a"; CGet "c"; CGet "zz"]%string None).
Proof. vm_compute. repeat split; reflexivity. Qed.

Example slots_prefix_nonvacuous :
  let d := [("a","1");("ab","2");("b","3");("c","4")]%string in
  let sc := scan_of_region (RPrefix "a"%string) in
  scan_slots sc d = [Some ("a","1"); Some ("ab","2")]%string /\
  run_read (select_rows true (fun kv => String.eqb (snd kv) "2") 10 (PScan sc)) (sinit d None)
  = (Storage.Ok [("ab","2")]%string,
     SState d [CCursor; CSeek "a"; CCursor; CSeek "a"; CNext (Some "a"); CNext (Some "ab"); CNext (Some "b")]%string None).
Proof. vm_compute. repeat split; reflexivity. Qed.

(* ------------------------------------------------------------------ THE BATCH BOUNDARIES
   (Proofs/ScanBatchBoundaryProofs.v).  [slots_scan_rows_batch] above relates the CONCATENATION of
   the batches of the storage-level scan node to the slots; here the batches themselves: the
   batches Model/ScanProj.v's Batch loop (scan + filter; identity projection; [fbatch_of flt] = a
   filter that does not fail) cuts the slots of a scan into ARE the batches the storage-level
   scan node of Model/ScanIO.v returns, Batch() call by Batch() call ([scan_polls_spec] is what
   ScanIO's node does: Properties/C18.v scan_batches_agree). *)
From KV Require Import Model.ScanBatches Proofs.ScanBatchBoundaryProofs Proofs.RunCountsProofs.

Theorem scan_batches_are_scanproj : forall (flt : kvp -> bool) (B : nat) (sc : scan) (d : store),
  1 <= B ->
  ScanProj.drain_batch (fbatch_of flt) pbatch_id B (scan_slots sc d)
  = Value.Ok (removelast (map snd (scan_polls_spec flt B sc d))).
Proof. exact scan_batches_are_scanproj_lemma. Qed.
Print Assumptions scan_batches_are_scanproj.

(* what a caller polling plan.Batch() on `select <fields> where <filter>` (projection shape) sees:
   the polls are determined -- per Batch() call its storage calls and its number of rows --,
   they are ScanProj's batches, EVERY batch has fewer than 2B rows, and every batch that is
   followed by at least two more Batch() calls (i.e. all but the last non-empty one) has AT
   LEAST B rows.  "Exactly B" is NOT guaranteed: a Batch() call appends whole chunks of up to B
   read pairs until it has >= B rows, so it may return up to 2B-1; the last non-empty batch may
   be short.  Absent multi-get keys and rejected pairs make the call read on, never return early. *)
Theorem select_text_batches_determined :
  forall (fo : fops) (re : bytes -> bytes -> Value.res bool) (fmt_v : F fo -> string)
         (flt : kvp -> bool) (gkey : kvp -> bytes) (B fuel : nat) (q : string) (pl : splanned fo)
         (d : store) (l0 : list scall),
  plan_stmt_text fo re fmt_v q = STOk pl -> sp_shape fo pl = SProj ->
  1 <= B -> List.length d + plan_keys (PScan (sp_scan fo pl)) < fuel ->
  let sc := sp_scan fo pl in
  let ps := scan_polls_spec flt B sc d in
  text_stmt fo re fmt_v q = Some (StSelect (text_fplan fo pl)) /\
  (exists l, select_polls true flt gkey B fuel BatchMode (text_fplan fo pl) (SState d l0 None)
             = (Storage.Ok (scan_init_calls sc ++ scan_init_calls sc, map (fun p => (fst p, List.length (snd p))) ps),
                SState d (l0 ++ l) None)) /\
  ScanProj.drain_batch (fbatch_of flt) pbatch_id B (scan_slots sc d) = Value.Ok (removelast (map snd ps)) /\
  Forall (fun p => List.length (snd p) < 2 * B) ps /\
  (forall i, S (S i) < List.length ps -> B <= List.length (snd (nth i ps ([], [])))).
Proof. exact select_text_batches_determined_lemma. Qed.
Print Assumptions select_text_batches_determined.

(* non-vacuity, B = 2, full scan, filter value = x: the first Batch() returns THREE rows (it had 1
   after the first chunk, read another chunk of 2 that both pass), the second returns the last
   row alone (a short non-final batch: the end was seen), the third is the empty one *)
Example batch_lengths_nonvacuous :
  let d := [("a","x");("ab","y");("abc","x");("b","x");("c","y");("d","x")]%string in
  let flt := fun kv : kvp => String.eqb (snd kv) "x" in
  map (fun p => List.length (snd p)) (scan_polls_spec flt 2 SFull d) = [3; 1; 0] /\
  map fst (scan_polls_spec flt 2 SFull d)
  = [[CNext (Some "a"); CNext (Some "ab"); CNext (Some "abc"); CNext (Some "b")];
     [CNext (Some "c"); CNext (Some "d"); CNext None];
     [CNext None]]%string /\
  ScanProj.drain_batch (fbatch_of flt) pbatch_id 2 (scan_slots SFull d)
  = Value.Ok [[("a","x");("abc","x");("b","x")]; [("d","x")]]%string.
Proof. vm_compute. repeat split; reflexivity. Qed.

Example select_text_batches_determined_nonvacuous :
  forall (fo : fops) (re : bytes -> bytes -> Value.res bool) (fmt_v : F fo -> string),
  exists pl, plan_stmt_text fo re fmt_v "select key where key in ('a', 'zz', 'c') & value = 'x'" = STOk pl /\
    sp_shape fo pl = SProj /\ sp_scan fo pl = SMget ["a";"c";"zz"]%string.
Proof. intros. eexists. split; [vm_compute; reflexivity|]. split; vm_compute; reflexivity. Qed.
