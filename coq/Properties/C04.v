(* Properties/C04.v -- constant folding and expression rewriting preserve every expression's
   value.  Only property theorems (closed by [exact]), Print Assumptions, non-vacuity examples
   and the _refuted witnesses.

   [fold] is the twin of ExpressionOptimizer.Optimize (Model/Fold.v), [eval] the twin of
   Expression.Execute (Model/Eval.v), [wt] what checker.go guarantees for an accepted
   expression at the nodes the optimizer visits (operands of & and | are Boolean, operands of
   + are both text or both numbers).  The theorems hold for EVERY float structure [fo]
   (no float law is assumed) and every regexp oracle; [fmt_v] is fmt.Sprintf("%v", float64)
   and the one library fact used is named as a premise: the text it prints reads back as the
   same float (Go keeps the float64 itself in the folded literal; the twin's syntax tree keeps
   only the text). *)
From Coq Require Import List String Ascii ZArith Bool Floats.
Import ListNotations.
From KV Require Import Base.Bytes Base.Num Base.Flt Model.Ast Model.Value Model.Eval Model.Fold
  Proofs.FoldProofs.
Open Scope string_scope.

(* Main theorem.  On every pair on which the original expression evaluates without error,
   the rewritten expression evaluates to the same value of the same kind.  The hypothesis is
   on the ORIGINAL expression: an operand dropped by `false & X` / `X | true` needs no
   hypothesis of its own.  [reassoc_exact e k v]: for every re-association
   (x op c1) op c2 => x op (c1 op c2) the optimizer performs (op is addition or multiplication) in which a float
   takes part, the two bracketings agree on the operands at hand; nothing is demanded for
   integer chains (int64 wrap-around arithmetic is associative: proved) nor for text
   concatenation (proved). *)
Theorem fold_preserves :
  forall (fo : fops) (re_match : bytes -> bytes -> res bool) (fmt_v : F fo -> string),
  (forall f, f_parse fo (fmt_v f) = PF_ok f) ->
  forall (e : expr) (k v : bytes) (x : value fo),
  wt e = true ->
  reassoc_exact fo re_match fmt_v e k v ->
  eval fo re_match k v e = Ok x ->
  exists x', eval fo re_match k v (fold fo re_match fmt_v e) = Ok x' /\
             canon_of fo x' = canon_of fo x /\ kind_of fo x' = kind_of fo x.
Proof. exact fold_preserves_value. Qed.
Print Assumptions fold_preserves.

(* In particular a WHERE clause selects the same rows *)
Theorem fold_where_same_rows :
  forall (fo : fops) (re_match : bytes -> bytes -> res bool) (fmt_v : F fo -> string),
  (forall f, f_parse fo (fmt_v f) = PF_ok f) ->
  forall (e : expr) (k v : bytes) (b : bool),
  wt e = true -> reassoc_exact fo re_match fmt_v e k v ->
  filter_row fo re_match k v e = Ok b ->
  filter_row fo re_match k v (fold fo re_match fmt_v e) = Ok b.
Proof. exact fold_preserves_filter. Qed.
Print Assumptions fold_where_same_rows.

(* The rewrite keeps the static result type and the typing facts (so it can be iterated) *)
Theorem fold_keeps_type :
  forall (fo : fops) (re_match : bytes -> bytes -> res bool) (fmt_v : F fo -> string),
  (forall f, f_parse fo (fmt_v f) = PF_ok f) ->
  forall e, wt e = true ->
  rtype (fold fo re_match fmt_v e) = rtype e /\ wt (fold fo re_match fmt_v e) = true.
Proof. exact fold_static. Qed.
Print Assumptions fold_keeps_type.

(* The algebra behind the re-association of integer and text chains *)
Theorem int64_add_associative : forall a b c, add64 (add64 a b) c = add64 a (add64 b c).
Proof. exact add64_assoc. Qed.
Print Assumptions int64_add_associative.

Theorem int64_mul_associative : forall a b c, mul64 (mul64 a b) c = mul64 a (mul64 b c).
Proof. exact mul64_assoc. Qed.
Print Assumptions int64_mul_associative.

Theorem text_concat_associative : forall a b c : string, (a ++ b) ++ c = a ++ (b ++ c).
Proof. exact str_append_assoc. Qed.
Print Assumptions text_concat_associative.

(* The type assertions ret.(string) / ret.(bool) in the folder cannot fail *)
Theorem fold_string_assertion_safe :
  forall (fo : fops) (re_match : bytes -> bytes -> res bool) p n args ret,
  const_eval fo re_match (ECall p n args) = Ok ret -> rtype (ECall p n args) = TStr ->
  exists s, ret = VStr s.
Proof. exact call_str_is_string. Qed.
Print Assumptions fold_string_assertion_safe.

Theorem fold_bool_assertion_safe :
  forall (fo : fops) (re_match : bytes -> bytes -> res bool) p n args ret,
  const_eval fo re_match (ECall p n args) = Ok ret -> rtype (ECall p n args) = TBool ->
  exists b, ret = VBool b.
Proof. exact call_bool_is_bool. Qed.
Print Assumptions fold_bool_assertion_safe.

Theorem fold_operator_bool_assertion_safe :
  forall (fo : fops) (re_match : bytes -> bytes -> res bool) k v p o l r a,
  is_boolop o = true -> eval fo re_match k v (EBin p o l r) = Ok a -> exists b, a = VBool b.
Proof. exact bin_bool_is_bool. Qed.
Print Assumptions fold_operator_bool_assertion_safe.

(* ---- the premise [reassoc_exact] cannot be dropped (D15).  Over IEEE binary64 (Coq's
   primitive floats: the statement depends on primitive float evaluation, not on any axiom):
   (float(value) + 1.0) + 1.0 on the value 1e16 is 1e16, the rewritten float(value) + 2 is
   10000000000000002 -- and the premise is false there.  [canon_res] is the content of an
   evaluation result (None for an error). *)
Theorem fold_float_reassoc_refuted :
  wt d15_expr = true /\
  (exists c c',
     canon_res (eval prim_fops re_none "k" "1e16" d15_expr) = Some c /\
     canon_res (eval prim_fops re_none "k" "1e16" (fold prim_fops re_none pf_fmt_v d15_expr)) = Some c' /\
     c' <> c) /\
  ~ reassoc_exact prim_fops re_none pf_fmt_v d15_expr "k" "1e16".
Proof. exact float_reassoc_refuted_lemma. Qed.
Print Assumptions fold_float_reassoc_refuted.

(* ---- the typing premise [wt] cannot be dropped either: (key + 1) + 2, which the checker
   rejects (operands of + must be both text or both numbers), is "k12" on the key "k" and is
   rewritten to key + 3 = "k3".  The property is about accepted expressions. *)
Theorem fold_without_typing_refuted :
  wt untyped_expr = false /\
  fold prim_fops re_none pf_fmt_v untyped_expr = EBin 8 OAdd (EField 0 KeyKW) (ENum 6 "3") /\
  canon_res (eval prim_fops re_none "k" "v" untyped_expr) = Some (CText "k12") /\
  canon_res (eval prim_fops re_none "k" "v" (fold prim_fops re_none pf_fmt_v untyped_expr)) = Some (CText "k3").
Proof. exact untyped_refuted_lemma. Qed.
Print Assumptions fold_without_typing_refuted.

(* ---- regression witness for D14 (fixed in /repo): re-wrapping by the kind of the left
   literal, as the pinned code did, changes 3 * 0.5 = 1.5 into the integer literal 1 *)
Theorem fold_rewrap_by_left_kind_refuted :
  exists ret lit,
    eval prim_fops re_none "" "" (EBin 2 OMul (ENum 0 "3") (EFloat 4 "0.5")) = Ok ret /\
    rewrap_by_left_kind prim_fops pf_fmt_v (ENum 0 "3") 0 ret = Some lit /\
    lit = ENum 0 "1" /\
    canon_res (Ok ret) = Some (CFlt (pf_bits 1.5%float)) /\
    canon_res (eval prim_fops re_none "" "" lit) = Some (CInt 1).
Proof. exact rewrap_by_left_kind_refuted_lemma. Qed.
Print Assumptions fold_rewrap_by_left_kind_refuted.

(* ---- non-vacuity: the hypotheses of fold_preserves hold on concrete, non-trivial inputs
   and the conclusion computes to the expected trees and values *)

(* ex_int = (int(value) + 1) + 2  on the pair (a, 12): re-associated, folded to int(value) + 3 *)
Example fold_preserves_nonvacuous_int :
  wt ex_int = true /\
  reassoc_exact prim_fops re_none pf_fmt_v ex_int "a" "12" /\
  fold prim_fops re_none pf_fmt_v ex_int =
    EBin 15 OAdd (ECall 0 (EName 0 "int") [EField 4 ValueKW]) (ENum 13 "3") /\
  canon_res (eval prim_fops re_none "a" "12" ex_int) = Some (CInt 15) /\
  canon_res (eval prim_fops re_none "a" "12" (fold prim_fops re_none pf_fmt_v ex_int)) = Some (CInt 15).
Proof. exact ex_int_lemma. Qed.

(* ex_flt = (float(value) * 0.5) * 2.0  on the pair (b, 2.5): a float chain whose
   re-association is exact; folded to float(value) * 1 *)
Example fold_preserves_nonvacuous_float :
  wt ex_flt = true /\
  reassoc_exact prim_fops re_none pf_fmt_v ex_flt "b" "2.5" /\
  fold prim_fops re_none pf_fmt_v ex_flt =
    EBin 21 OMul (ECall 0 (EName 0 "float") [EField 6 ValueKW]) (EFloat 15 "1") /\
  canon_res (eval prim_fops re_none "b" "2.5" ex_flt) = Some (CFlt (pf_bits 2.5%float)) /\
  canon_res (eval prim_fops re_none "b" "2.5" (fold prim_fops re_none pf_fmt_v ex_flt)) =
    Some (CFlt (pf_bits 2.5%float)).
Proof. exact ex_flt_lemma. Qed.

(* Boolean simplification: ex_and "1" = (1 < 2) & (key = 'a')  becomes  key = 'a';
   ex_and "3" = (3 < 2) & (key = 'a')  becomes  false *)
Example fold_preserves_nonvacuous_bool :
  wt (ex_and "1") = true /\
  reassoc_exact prim_fops re_none pf_fmt_v (ex_and "1") "a" "12" /\
  fold prim_fops re_none pf_fmt_v (ex_and "1") = EBin 15 OEq (EField 11 KeyKW) (EStr 17 "a") /\
  fold prim_fops re_none pf_fmt_v (ex_and "3") = EBool 1 false /\
  canon_res (eval prim_fops re_none "a" "12" (ex_and "1")) = Some (CBool true) /\
  canon_res (eval prim_fops re_none "a" "12" (fold prim_fops re_none pf_fmt_v (ex_and "1"))) = Some (CBool true) /\
  canon_res (eval prim_fops re_none "a" "12" (ex_and "3")) = Some (CBool false) /\
  canon_res (eval prim_fops re_none "a" "12" (fold prim_fops re_none pf_fmt_v (ex_and "3"))) = Some (CBool false).
Proof. exact ex_and_lemma. Qed.

(* the int-by-float product keeps its kind: 3 * 0.5 folds to the float literal 1.5 (D14) *)
Example fold_int_by_float_stays_float :
  fold prim_fops re_none pf_fmt_v (EBin 2 OMul (ENum 0 "3") (EFloat 4 "0.5")) = EFloat 0 "1.5".
Proof. exact ex_d14_lemma. Qed.

(* ================================================================== statement level (agent N4)
   The folder works IN PLACE on a checked statement and a field reference points to the field
   OBJECT: the tree a plan executes for the checked tree T is FoldStmt.exec_tree T =
   relink (fold T) -- the folder's result in which every reference carries the state
   (FoldStmt.in_place: operands folded, root kept) the folder left the referenced field in.
   [exec_tree_preserves]: fold_preserves lifted through the references.  Premises beyond those
   of fold_preserves: [refs_good k v (fold T)] -- every field definition d reachable through a
   reference of the folded tree is typed (wt d, what the checker guarantees) and the
   re-associations the folder performed on that field object are exact on the pair
   (in_place_exact: reassoc_exact's analogue for the object state; no demand for integer and
   text chains). *)
From KV Require Import Model.FoldStmt Proofs.FoldTextProofs.

Theorem exec_tree_preserves :
  forall (fo : fops) (re_match : bytes -> bytes -> res bool) (fmt_v : F fo -> string),
  (forall f, f_parse fo (fmt_v f) = PF_ok f) ->
  forall (T : expr) (k v : bytes) (x : value fo),
  wt T = true ->
  reassoc_exact fo re_match fmt_v T k v ->
  refs_good fo re_match fmt_v k v (fold fo re_match fmt_v T) ->
  eval fo re_match k v T = Ok x ->
  exists x', eval fo re_match k v (exec_tree fo re_match fmt_v T) = Ok x' /\
             canon_of fo x' = canon_of fo x /\ kind_of fo x' = kind_of fo x.
Proof. exact exec_tree_preserves_lemma. Qed.
Print Assumptions exec_tree_preserves.

(* the WHERE verdict of the tree the filter executes *)
Theorem exec_tree_where_same_rows :
  forall (fo : fops) (re_match : bytes -> bytes -> res bool) (fmt_v : F fo -> string),
  (forall f, f_parse fo (fmt_v f) = PF_ok f) ->
  forall (T : expr) (k v : bytes) (b : bool),
  wt T = true -> reassoc_exact fo re_match fmt_v T k v ->
  refs_good fo re_match fmt_v k v (fold fo re_match fmt_v T) ->
  filter_row fo re_match k v T = Ok b ->
  filter_row fo re_match k v (exec_tree fo re_match fmt_v T) = Ok b.
Proof. exact exec_tree_filter_lemma. Qed.
Print Assumptions exec_tree_where_same_rows.

(* the static result type (FieldTypes) and the typing facts survive *)
Theorem exec_tree_keeps_type :
  forall (fo : fops) (re_match : bytes -> bytes -> res bool) (fmt_v : F fo -> string),
  (forall f, f_parse fo (fmt_v f) = PF_ok f) ->
  forall T, wt T = true -> refs_wt (fold fo re_match fmt_v T) ->
  rtype (exec_tree fo re_match fmt_v T) = rtype T /\ wt (exec_tree fo re_match fmt_v T) = true.
Proof. exact exec_tree_static_lemma. Qed.
Print Assumptions exec_tree_keeps_type.

(* the state of a referenced field object evaluates to EXACTLY the value of its definition *)
Theorem in_place_preserves :
  forall (fo : fops) (re_match : bytes -> bytes -> res bool) (fmt_v : F fo -> string),
  (forall f, f_parse fo (fmt_v f) = PF_ok f) ->
  forall d, wt d = true ->
  rtype (in_place fo re_match fmt_v d) = rtype d /\ wt (in_place fo re_match fmt_v d) = true /\
  forall k v, in_place_exact fo re_match fmt_v k v d ->
  forall a, eval fo re_match k v d = Ok a -> eval fo re_match k v (in_place fo re_match fmt_v d) = Ok a.
Proof. exact in_place_ok. Qed.
Print Assumptions in_place_preserves.

(* non-vacuity:  select int(value) + (1 + 2) as x, key where x > 2 - 1  on the pair (a, 12):
   the field object becomes int(value) + 3, the WHERE tree (ref x) > 1 *)
Example exec_tree_preserves_nonvacuous :
  wt ex_where = true /\
  reassoc_exact prim_fops re_none pf_fmt_v ex_where "a" "12" /\
  refs_good prim_fops re_none pf_fmt_v "a" "12" (fold prim_fops re_none pf_fmt_v ex_where) /\
  exec_tree prim_fops re_none pf_fmt_v ex_where =
    EBin 45 OGt
      (ERef 43 "x" (EBin 18 OAdd (ECall 7 (EName 7 "int") [EField 11 ValueKW]) (ENum 21 "3")))
      (ENum 47 "1") /\
  canon_res (eval prim_fops re_none "a" "12" ex_where) = Some (CBool true) /\
  canon_res (eval prim_fops re_none "a" "12" (exec_tree prim_fops re_none pf_fmt_v ex_where)) =
    Some (CBool true).
Proof. exact ex_text_lemma. Qed.
