(* Properties/C05.v -- aliases are pure abbreviations and the field cache is invisible.
   Only property theorems (closed by [exact]), Print Assumptions, non-vacuity examples and the
   regression witnesses for the pinned (pre-fix) code.

   All theorems are parametric in the float operations [fo] (no float law is used) and in the
   regular-expression oracle [re].  [stmt_ok s] is what the parser/checker guarantee of an
   accepted statement: one name per field, and every use of a field name (in WHERE and inside
   the fields) carries the definition the select list gives that name. *)
From Coq Require Import List String ZArith Bool.
Import ListNotations.
From KV Require Import Base.Bytes Model.Ast Model.Value Model.Eval Model.Cache Proofs.CacheProofs.
Open Scope string_scope.

(* ------------------------------------------------------------------ the cache, expression level *)

(* with the cache switched off the stateful evaluator is the plain one and never touches the
   context *)
Theorem cache_off_is_eval : forall (fo : fops) re k v e c,
  eval_c fo re false k v e c = lift fo (eval fo re k v e) c.
Proof. exact eval_c_off. Qed.
Print Assumptions cache_off_is_eval.

(* with the cache on: started in any context whose every entry (a -> x) is the value of a's
   definition on the current pair, evaluation returns exactly what the cache-free evaluator
   returns (value or error), and ends in such a context again; the empty context is one *)
Theorem cache_invisible_expr : forall (fo : fops) re env k v e,
  coherent env e = true ->
  forall c, cache_ok fo re env k v c ->
  simr fo (cache_ok fo re env k v) (eval fo re k v e) (eval_c fo re true k v e c).
Proof. exact eval_c_on. Qed.
Print Assumptions cache_invisible_expr.

Theorem empty_context_is_good : forall (fo : fops) re env k v, cache_ok fo re env k v [].
Proof. exact cache_ok_empty. Qed.
Print Assumptions empty_context_is_good.

(* ------------------------------------------------------------------ the cache, statement level, row-at-a-time *)

(* Draining an accepted statement row-at-a-time (FilterExec.Filter, the scan's Next loop,
   ProjectionPlan.Next) over ANY sequence of pairs gives exactly the rows of the cache-free
   evaluator applied pair by pair -- with the cache on or off, whatever pairs the filter
   rejects in between. *)
Theorem drain_row_exact : forall (fo : fops) re on s ps, stmt_ok s = true ->
  drain_row fo re fixed_code on s ps = spec_rows fo re (s_where s) (s_fields s) ps.
Proof. exact drain_row_is_spec. Qed.
Print Assumptions drain_row_exact.

Theorem cache_invisible_row : forall (fo : fops) re s ps, stmt_ok s = true ->
  drain_row fo re fixed_code true s ps = drain_row fo re fixed_code false s ps.
Proof. exact cache_invisible_row_lemma. Qed.
Print Assumptions cache_invisible_row.

(* every returned row has exactly one column per announced field name, in the announced
   order; column j is the value of field j's expression on that row's pair; the rows are those
   of the accepted pairs, in scan order *)
Theorem row_shape : forall (fo : fops) re on s ps rows, stmt_ok s = true ->
  drain_row fo re fixed_code on s ps = Ok rows ->
  Forall2 (row_of fo re (s_fields s)) (filter (accepts fo re (s_where s)) ps) rows /\
  Forall (fun row => List.length row = List.length (s_names s)) rows.
Proof. exact row_shape_lemma. Qed.
Print Assumptions row_shape.

(* ------------------------------------------------------------------ aliases are abbreviations *)

(* a use of a name evaluates to what its definition evaluates to (cache off: by definition of
   FieldReferenceExpr.Execute; cache on: cache_invisible_expr) *)
Theorem alias_is_its_definition : forall (fo : fops) re k v p a d,
  eval fo re k v (ERef p a d) = eval fo re k v d.
Proof. exact alias_eval_def. Qed.
Print Assumptions alias_is_its_definition.

(* replacing EVERY use of a name by its defining expression, at any depth, changes no value
   (errors stay errors; only the offset an error reports moves, because the text moved).
   Premise: no name stands for a parenthesised list -- IN / BETWEEN read a written list
   element-wise but an alias as one value, and such a field cannot be projected at all. *)
Theorem alias_is_abbreviation : forall (fo : fops) re k v e, no_list_alias e = true ->
  same_outcome (eval fo re k v e) (eval fo re k v (expand e)).
Proof. exact expand_preserves_eval. Qed.
Print Assumptions alias_is_abbreviation.

(* statement level: with the names, cache on or off, row-at-a-time = the cache-free rows of
   the statement with the definitions written out *)
Theorem alias_is_abbreviation_rows : forall (fo : fops) re on s ps,
  stmt_ok s = true -> no_list_alias_stmt s = true ->
  same_outcome (drain_row fo re fixed_code on s ps)
               (spec_rows fo re (expand (s_where s)) (map expand (s_fields s)) ps).
Proof. exact alias_rows_lemma. Qed.
Print Assumptions alias_is_abbreviation_rows.

(* ------------------------------------------------------------------ batch mode: the chunk cache *)

(* Bookkeeping of a scan plan's Batch (FieldChunkCaches, bidx / chooseIdxes, AdjustChunkCache):
   for EVERY batch size, every sequence of refills and every filter verdict, the rows returned
   are the accepted rows of the refills read, and every cached column is the alias evaluated
   on exactly the rows returned. *)
Theorem chunk_cache_exact : forall (P X : Type) (pass : P -> bool) (val : string -> P -> X)
    (B : nat) (refd : list string) (chunks : list (list P)),
  let '(rows, cc) := scan_batch P X pass val true B refd chunks in
  (exists n, rows = filter pass (List.concat (firstn n chunks))) /\
  (forall a col, cc_get X cc a = Some col -> In a refd /\ col = map (val a) rows) /\
  (rows <> [] -> forall a, In a refd -> cc_get X cc a = Some (map (val a) rows)).
Proof. exact chunk_cache_exact_lemma. Qed.
Print Assumptions chunk_cache_exact.

(* FULL STATEMENT (not proved here):
     drain_batch B (cache := true) stmt st = drain_batch B (cache := false) stmt st
   over a twin of the vector evaluator (ExecuteBatch of every node) and of
   FieldReferenceExpr.ExecuteBatch's per-chunk key cache.
   PROVED PART: the scan's bookkeeping followed by processProjectionBatch's column lookup gives
   the same batch with the cache on and off, for any batch size / refills / verdicts, GIVEN that
   evaluating alias a on a chunk yields [map (val a) chunk] (vector evaluation agrees with row
   evaluation: C03's subject) and that a field owning a name computes that alias. *)
Theorem cache_invisible_batch_partial : forall (P X : Type) (pass : P -> bool) (val : string -> P -> X)
    (B : nat) (refd : list string) (chunks : list (list P)) (nfs : list (string * (P -> X))),
  (forall pre a f post, nfs = (pre ++ (a, f) :: post)%list ->
     owns_name (map fst pre) a = true -> forall p, f p = val a p) ->
  let '(rows, cc) := scan_batch P X pass val true B refd chunks in
  project_batch P X true cc nfs rows = project_batch P X false [] nfs rows.
Proof. exact cache_invisible_batch_lemma. Qed.
Print Assumptions cache_invisible_batch_partial.

(* ------------------------------------------------------------------ non-vacuity *)

(* select key, int(value) as n where n > 2  over  k0=1 k1=5 k2=2 k3=7: the premise holds, two
   pairs are rejected (one before each accepted pair), and both settings return the two rows *)
Example premise_satisfiable : stmt_ok w_stmt = true /\ no_list_alias_stmt w_stmt = true.
Proof. split; reflexivity. Qed.

Example rows_nonvacuous : forall (fo : fops) re on,
  drain_row fo re fixed_code on w_stmt w_store = Ok [[VBytes "k1"; VInt 5%Z]; [VBytes "k3"; VInt 7%Z]].
Proof. exact w_rows. Qed.

Example chunk_nonvacuous :
  scan_batch nat nat (fun n => Nat.ltb 2 n) (fun _ n => n) true 2 ["n"] [[1; 5]; [7; 2]; [9]]
  = ([5; 7], [("n", [5; 7])]).
Proof. reflexivity. Qed.

(* ------------------------------------------------------------------ the pinned code refutes the statements *)

(* D6: FilterExec.Filter did not clear the context: the value cached for a rejected pair
   answered for the following pairs (cache on: no row; cache off: two rows) *)
Theorem cache_invisible_row_pinned_refuted : forall (fo : fops) re,
  drain_row fo re (Variant false true) true w_stmt w_store = Ok [] /\
  drain_row fo re (Variant false true) false w_stmt w_store
    = Ok [[VBytes "k1"; VInt 5%Z]; [VBytes "k3"; VInt 7%Z]].
Proof. exact d6_refuted_lemma. Qed.
Print Assumptions cache_invisible_row_pinned_refuted.

(* select key as a, value as a where a = 'k1': the second field named a was served from the
   first one's cache entry *)
Theorem row_shape_same_name_pinned_refuted : forall (fo : fops) re,
  drain_row fo re (Variant true false) true w_dup [("k1", "5")] = Ok [[VBytes "k1"; VBytes "k1"]] /\
  drain_row fo re (Variant true false) false w_dup [("k1", "5")] = Ok [[VBytes "k1"; VBytes "5"]] /\
  drain_row fo re fixed_code true w_dup [("k1", "5")] = Ok [[VBytes "k1"; VBytes "5"]].
Proof. exact dup_refuted_lemma. Qed.
Print Assumptions row_shape_same_name_pinned_refuted.

(* D8: MultiGetPlan.Batch never advanced bidx: one cached item for two returned rows, and the
   batch projection indexes past the end of the column (None = Go's index-out-of-range panic) *)
Theorem chunk_cache_exact_pinned_refuted :
  let pass := fun n => Nat.ltb 2 n in
  let val := fun (_ : string) (n : nat) => n in
  scan_batch nat nat pass val false 2 ["n"] [[1; 5]; [7; 2]] = ([5; 7], [("n", [1])]) /\
  project_batch nat nat true [("n", [1])] [("n", fun n => n)] [5; 7] = None /\
  scan_batch nat nat pass val true 2 ["n"] [[1; 5]; [7; 2]] = ([5; 7], [("n", [5; 7])]).
Proof. exact d8_refuted_lemma. Qed.
Print Assumptions chunk_cache_exact_pinned_refuted.

(* ------------------------------------------------------------------ batch mode, FULL: the chunk caches are invisible *)
(* Model/CacheVec.v: the vector evaluator (Model/EvalVec.v, C03) with ExecuteCtx's two chunk maps
   as state (FieldReferenceExpr.ExecuteBatch: lookup by name and first key of the chunk / evaluate
   the definition, store, append), the scans' Batch (refills, chooseIdxes, AdjustChunkCache) and
   ProjectionPlan.Batch / processProjectionBatch (GetChunkFieldFinalResult).
   [keyfix = false] is the code as it is (per-chunk entries keyed by the TEXT name-key),
   [keyfix = true] a GetChunkFieldResult / SetChunkFieldResult keyed by the pair (name, key).
   [names_ok keyfix s]: nothing for keyfix = true; no '-' in a field name for keyfix = false. *)
From KV Require Import Model.EvalVec Model.ScanProj Model.CacheVec Proofs.CacheVecProofs.

(* cache off: the evaluator with the context IS the cache-free vector evaluator and leaves the
   context alone (a chunk a plan hands to ExecuteBatch is never empty) *)
Theorem vec_cache_off_is_eval_batch : forall (fo : fops) re keyfix e kv0 ch0 c,
  eval_batch_c fo re keyfix false e (kv0 :: ch0) c = liftv fo (eval_batch fo re true e (kv0 :: ch0)) c.
Proof. exact eval_batch_c_off. Qed.
Print Assumptions vec_cache_off_is_eval_batch.

(* cache on, one chunk: started in a context [c] that is right for the chunk with the aliases T
   evaluated (Qon: every per-chunk entry (a, first key) is eval_batch (definition of a) on the chunk
   with the cache off, entries of other chunks untouched, every accumulated column extended once),
   evaluation returns exactly what the cache-free evaluator returns -- values or error -- and
   leaves a context that is right with the aliases of e (brefs e) evaluated as well.  [Hinj]: two
   (name, key) pairs with names of the select list address the same entry only if they are equal. *)
Theorem vec_cache_invisible_expr : forall (fo : fops) re keyfix env kv0 ch0 c0,
  (forall a a' k1 k2, lookup env a <> None -> lookup env a' <> None ->
     keq keyfix (a, k1) (a', k2) = true -> a = a' /\ k1 = k2) ->
  forall e, coherent env e = true -> forall T c, Qon fo re keyfix env kv0 ch0 c0 T c ->
  simv fo (Qon fo re keyfix env kv0 ch0 c0 (brefs e ++ T))
       (eval_batch fo re true e (kv0 :: ch0)) (eval_batch_c fo re keyfix true e (kv0 :: ch0) c).
Proof. exact eval_batch_c_on. Qed.
Print Assumptions vec_cache_invisible_expr.

(* what a scan's Batch does with its filter: ExecuteBatch on successive non-empty chunks with
   different first keys, all on ONE context: chunk by chunk the outcome of the cache-free
   evaluator, up to and including the first error *)
Theorem vec_cache_invisible_chunks : forall (fo : fops) re keyfix s e (chunks : list (list kvpair)),
  stmt_ok s = true -> names_ok keyfix s = true -> coherent (env_of s) e = true ->
  Forall (fun ch => ch <> []) chunks -> NoDup (map first_key chunks) ->
  eval_seq_c fo re keyfix true e chunks (ctx0 fo) = eval_seq_c fo re keyfix false e chunks (ctx0 fo).
Proof. exact eval_seq_invisible. Qed.
Print Assumptions vec_cache_invisible_chunks.

(* the whole batch drain (scan Batch loop with chooseIdxes / AdjustChunkCache, projection from the
   accumulated columns, Batch until empty) with the cache disabled is C03's cache-free drain ... *)
Theorem batch_cache_off_is_select : forall (fo : fops) re keyfix s B (slots : list (option kvpair)),
  stmt_ok s = true ->
  drain_batch_c fo re keyfix false s B slots = select_batch fo re B (s_where s) (Some (s_fields s)) slots.
Proof. exact drain_batch_c_off_is_select. Qed.
Print Assumptions batch_cache_off_is_select.

(* ... and with the cache enabled it returns exactly the same batches, errors included: for EVERY
   accepted statement, EVERY stream of slots with pairwise different keys (cursor pairs, point
   reads with missing keys), EVERY batch size *)
Theorem batch_cache_on_is_select : forall (fo : fops) re keyfix s B (slots : list (option kvpair)),
  stmt_ok s = true -> names_ok keyfix s = true -> NoDup (map fst (somes slots)) ->
  drain_batch_c fo re keyfix true s B slots = select_batch fo re B (s_where s) (Some (s_fields s)) slots.
Proof. exact drain_batch_c_on_is_select. Qed.
Print Assumptions batch_cache_on_is_select.

Theorem cache_invisible_batch : forall (fo : fops) re keyfix s B (slots : list (option kvpair)),
  stmt_ok s = true -> names_ok keyfix s = true -> NoDup (map fst (somes slots)) ->
  drain_batch_c fo re keyfix true s B slots = drain_batch_c fo re keyfix false s B slots.
Proof. exact cache_invisible_batch_lemma. Qed.
Print Assumptions cache_invisible_batch.

(* non-vacuity: select key, int(value) as n where n > 2 over k0=1 k1=5 k2=2 k3=7 in batches of 2:
   one Batch call filters two refills, rejects one pair of each and projects n from the
   accumulated, adjusted column *)
Example batch_premise_satisfiable : forall keyfix,
  stmt_ok w_stmt = true /\ names_ok keyfix w_stmt = true /\ NoDup (map fst (somes (map Some w_store))).
Proof. exact wv_premise. Qed.

Example batch_rows_nonvacuous : forall (fo : fops) re keyfix on,
  drain_batch_c fo re keyfix on w_stmt 2 (map Some w_store)
  = Ok [[[VBytes "k1"; VInt 5%Z]; [VBytes "k3"; VInt 7%Z]]].
Proof. exact wv_rows. Qed.

(* the premise on the names is necessary for the code as it is: the per-chunk entries are keyed by
   the text name-key.   select key, value as a, upper(key) as `a-b` where a = '9' | `a-b` = 'C'
   over b-c=1 c=2 d=3 in batches of 1: alias a on the chunk starting at "b-c" and alias a-b on the
   chunk starting at "c" share the text "a-b-c"; cache on: no row, cache off: the row of c.
   Keyed by the pair, the statement holds for it (third equation). *)
Theorem cache_invisible_batch_text_key_refuted : forall (fo : fops) re,
  drain_batch_c fo re false true wd_stmt 1 wd_slots = Ok [] /\
  drain_batch_c fo re false false wd_stmt 1 wd_slots = Ok [[[VBytes "c"; VBytes "2"; VStr "C"]]] /\
  drain_batch_c fo re true true wd_stmt 1 wd_slots = Ok [[[VBytes "c"; VBytes "2"; VStr "C"]]].
Proof. exact wd_refuted. Qed.
Print Assumptions cache_invisible_batch_text_key_refuted.

Example text_key_witness_premises :
  stmt_ok wd_stmt = true /\ NoDup (map fst (somes wd_slots)) /\
  names_ok false wd_stmt = false /\ names_ok true wd_stmt = true.
Proof. exact wd_premises. Qed.

(* ------------------------------------------------------------------ statement level: ORDER BY / LIMIT / GROUP BY above the plans with a context *)
(* Model/CachePlans.v: Optimizer.buildFinalPlan's stacking (Model/SelectPlans.v [shape]) of
   FinalOrderPlan (Model/Order.v), FinalLimitPlan (Model/LimitLazy.v: the child is PULLED) and
   AggregatePlan (Model/Aggregate.v + Model/AggregateLazy.v) on the plans that carry an ExecuteCtx: Model/Cache.v's
   ProjectionPlan.Next, Model/CacheVec.v's ProjectionPlan.Batch, and the twin of what
   AggregatePlan.prepare / prepareBatch do with the context (row mode: child.Next(nil), then per
   pair ctx.Clear(), GROUP BY expressions, key fields of a NEW group, aggregate arguments except
   count's, all by Execute with the context; batch mode: the scan's Batch with the context,
   batchGetAggrKeys by ExecuteBatch on the context the scan left, then the per-pair loop).
   [cq]: the checked statement; [cq_ok]: Cache.stmt_ok for select list and WHERE, and every field
   name used in a GROUP BY expression, a non-aggregate field or an aggregate argument carries the
   definition the select list gives it.  [shape]: the plan buildFinalPlan returns ([cq_shape]);
   the theorems hold for every shape.  Aggregate select fields are Spec/Group.v [aexpr]s (numbers,
   aggregate calls, + - * /): a field that mixes an aggregate call with a field name or a
   pair-dependent term (`sum(n) + n`) has no twin (AggregatePlan.next / batch evaluate it by
   execGroupExpr: ctx.Clear(), then Execute on the pair that opened the group -- since the fix
   "a field name next to an aggregate call was evaluated on no pair at all"; before it the cache
   was visible there); the harness judges such statements directly; see props/C05.json. *)
From KV Require Import Model.LimitLazy Model.SelectPlans Model.CachePlans Proofs.CachePlansProofs.
From KV Require Model.Order Model.Aggregate Model.AggregateLazy Spec.Group.

(* ProjectionPlan [+ FinalOrderPlan, incl. the dropped `order by key asc`] [+ FinalLimitPlan]
   drained by Next until nil, over EVERY sequence of pairs the access path yields: rows and
   errors with the cache on = rows and errors with the cache off.  Under a limit node the child
   is pulled lazily; it is pulled equally often (Proofs/CachePlansProofs.v, Part A). *)
Theorem cache_invisible_statement_row :
  forall (fo : fops) re (ag : aggops fo) pi pf (q : cq fo) (sh : shape) (ps : list kvpair),
  stmt_ok (cq_sel fo q) = true -> agg_free sh = true ->
  stmt_shape_row_c fo re ag pi pf true q sh ps = stmt_shape_row_c fo re ag pi pf false q sh ps.
Proof. exact cache_invisible_statement_row_lemma. Qed.
Print Assumptions cache_invisible_statement_row.

(* ... drained by Batch until the empty batch, for EVERY batch size and EVERY slot stream with
   pairwise different keys *)
Theorem cache_invisible_statement_batch :
  forall (fo : fops) re keyfix (ag : aggops fo) pi pf (q : cq fo) (sh : shape) (B : nat)
         (sl : list (option kvpair)),
  stmt_ok (cq_sel fo q) = true -> names_ok keyfix (cq_sel fo q) = true -> agg_free sh = true ->
  keys_nodup sl ->
  stmt_shape_batch_c fo re keyfix ag pi pf true B q sh sl = stmt_shape_batch_c fo re keyfix ag pi pf false B q sh sl.
Proof. exact cache_invisible_statement_batch_lemma. Qed.
Print Assumptions cache_invisible_statement_batch.

(* every shape, the AggregatePlan (GROUP BY / aggregates, pushed-down LIMIT) [+ FinalOrderPlan]
   [+ FinalLimitPlan] included *)
Theorem cache_invisible_aggregate_row :
  forall (fo : fops) re (ag : aggops fo) pi pf (q : cq fo) (sh : shape) (ps : list kvpair),
  cq_ok fo q = true ->
  stmt_shape_row_c fo re ag pi pf true q sh ps = stmt_shape_row_c fo re ag pi pf false q sh ps.
Proof. exact cache_invisible_aggregate_row_lemma. Qed.
Print Assumptions cache_invisible_aggregate_row.

Theorem cache_invisible_aggregate_batch :
  forall (fo : fops) re keyfix (ag : aggops fo) pi pf (q : cq fo) (sh : shape) (B : nat)
         (sl : list (option kvpair)),
  cq_ok fo q = true -> names_ok keyfix (cq_sel fo q) = true -> keys_nodup sl ->
  stmt_shape_batch_c fo re keyfix ag pi pf true B q sh sl = stmt_shape_batch_c fo re keyfix ag pi pf false B q sh sl.
Proof. exact cache_invisible_aggregate_batch_lemma. Qed.
Print Assumptions cache_invisible_aggregate_batch.

(* the per-pair observation: whatever the cache setting and whatever groups exist already, one
   iteration of AggregatePlan.prepare with the context IS the LAZY observation of the cache-free
   composition (Model/SelectPlans.v c_lobs_row = Model/AggregateLazy.v lobs_row over the evaluator
   twins).  Both ask for exactly the same (expression, pair) combinations in the same order --
   nothing for GROUP BY when AggrAll, the non-aggregate fields on the first pair of a group only,
   nothing for count's argument -- and get the same values / the same error; the same keys are
   recorded.  So a name in a GROUP BY expression, a key field or an aggregate argument denotes the
   value of its definition on the same pair. *)
Theorem aggregate_observation_exact :
  forall (fo : fops) re (ag : aggops fo) on (q : cq fo), cq_ok fo q = true ->
  forall p t kv,
  obs_row_c fo re ag on q p t kv =
  c_lobs_row fo re ag (cq_group fo q) (cq_keys fo q) (cq_args fo q) p t kv.
Proof. exact obs_row_c_spec. Qed.
Print Assumptions aggregate_observation_exact.

(* AggregatePlan(scan) with the context, cache on or off, IS C03's cache-free LAZY composition
   (Model/SelectPlans.v agg_rows / agg_bats over Model/AggregateLazy.v: evaluation discipline of
   prepare / prepareBatch, rows completed lazily under a pushed-down LIMIT) over the same
   expressions *)
Theorem aggregate_row_is_cache_free :
  forall (fo : fops) re (ag : aggops fo) on (q : cq fo) p (ps : list kvpair), cq_ok fo q = true ->
  arows_c fo re ag on q p ps =
  agg_rows kvpair (sel_frow fo re (s_where (cq_sel fo q)))
    (F fo) (fadd fo) (fsub fo) (fmul fo) (fdiv fo) (fltb fo) (a_is0 fo ag) (f_of_Z fo) (a_to_Z fo ag) (f_fmt fo)
    (a_bits fo ag) (a_json_f fo ag) (a_parse fo ag) (a_json_s fo ag) AggregateLazy.seen []
    (c_lobs_row fo re ag (cq_group fo q) (cq_keys fo q) (cq_args fo q)) (aconv_row fo (a_fbits fo ag))
    p (map Some ps).
Proof. exact arows_c_is_agg_rows. Qed.
Print Assumptions aggregate_row_is_cache_free.

Theorem aggregate_batch_is_cache_free :
  forall (fo : fops) re keyfix (ag : aggops fo) on (q : cq fo) B p (sl : list (option kvpair)),
  cq_ok fo q = true -> names_ok keyfix (cq_sel fo q) = true -> keys_nodup sl ->
  abats_c fo re keyfix ag on q B p sl =
  agg_bats kvpair (filter_batch fo re true (s_where (cq_sel fo q)))
    (F fo) (fadd fo) (fsub fo) (fmul fo) (fdiv fo) (fltb fo) (a_is0 fo ag) (f_of_Z fo) (a_to_Z fo ag) (f_fmt fo)
    (a_bits fo ag) (a_json_f fo ag) (a_parse fo ag) (a_json_s fo ag) AggregateLazy.seen []
    (c_lobs_batch fo re ag (cq_group fo q) (cq_keys fo q) (cq_args fo q)) (aconv_row fo (a_fbits fo ag))
    B p sl.
Proof. exact abats_c_is_agg_bats. Qed.
Print Assumptions aggregate_batch_is_cache_free.

(* non-vacuity.  select KEY, int(value) as n where n > 2 order by n desc limit 1, 1 over
   k0=1 k1=5 k2=2 k3=7: FinalLimitPlan(FinalOrderPlan(ProjectionPlan)), the limit skips one of the
   two sorted rows and returns the other, B = 1, 2, 3 *)
Example statement_premise_satisfiable : forall (fo : fops) keyfix,
  stmt_ok (cq_sel fo (wq_order fo)) = true /\ names_ok keyfix (cq_sel fo (wq_order fo)) = true /\
  cq_shape fo (wq_order fo) =
    SLimit 1 1 (SOrder [Order.OrderField "n" (ERef 60 "n" w_int_value) true] SProj) /\
  agg_free (cq_shape fo (wq_order fo)) = true /\ keys_nodup (map Some w_store).
Proof. exact wq_order_premise. Qed.

Example statement_rows_nonvacuous : forall (fo : fops) re (ag : aggops fo) pi pf keyfix on B,
  B = 1 \/ B = 2 \/ B = 3 ->
  stmt_row_c fo re ag pi pf on (wq_order fo) w_store = Ok [[Order.VBytes "k1"; Order.VInt 5%Z]] /\
  stmt_batch_c fo re keyfix ag pi pf on B (wq_order fo) (map Some w_store) = Ok [[Order.VBytes "k1"; Order.VInt 5%Z]].
Proof. exact wq_order_rows. Qed.

(* select int(value) / 4 as g, count(1) as c, sum(g) as s where g >= 1 group by g over
   k0=5 k1=9 k2=6 k3=1: the name g in WHERE, in GROUP BY and in sum's argument; one pair rejected,
   two groups *)
Example aggregate_premise_satisfiable : forall (fo : fops) keyfix,
  cq_ok fo (wa_q fo) = true /\ names_ok keyfix (cq_sel fo (wa_q fo)) = true /\
  cq_shape fo (wa_q fo) = SAgg 0 None /\ keys_nodup (map Some wa_store).
Proof. exact wa_premise. Qed.

Example aggregate_rows_nonvacuous : forall (fo : fops) re (ag : aggops fo) pi pf keyfix on B,
  B = 1 \/ B = 2 \/ B = 3 ->
  stmt_row_c fo re ag pi pf on (wa_q fo) wa_store =
    Ok [[Order.VBytes "1"; Order.VInt 2%Z; Order.VInt 2%Z]; [Order.VBytes "2"; Order.VInt 1%Z; Order.VInt 2%Z]] /\
  stmt_batch_c fo re keyfix ag pi pf on B (wa_q fo) (map Some wa_store) =
    Ok [[Order.VBytes "1"; Order.VInt 2%Z; Order.VInt 2%Z]; [Order.VBytes "2"; Order.VInt 1%Z; Order.VInt 2%Z]].
Proof. exact wa_rows. Qed.

(* ================================================================== C05 FROM THE QUERY TEXT
   (appended; Model/AliasText.v, Proofs/AliasTextProofs.v over the text pipeline of
   Model/PipelineS.v, which evaluates references through their definitions: no cache).
   expand_stmt: the syntactic expansion of the PARSED statement (every use of a select-field name
   replaced by the definition of the first field of that name, chains to the end; fields keep
   their names; ORDER BY / GROUP BY items are names looked up among the fields and stay). *)
From KV Require Import Base.Num Model.Fold Model.Storage Model.ScanSem Model.ScanProj Model.SelectPlans
                       Model.Pipeline Model.PipelineS Model.AliasText Proofs.PipelineSProofs
                       Proofs.AliasTextProofs.
From KV Require Model.StmtParser Model.Order.

(* the text pipeline is the pipeline restarted from the statement Parser.Parse built, and
   expanded_text_st is that pipeline on the expanded statement *)
Theorem text_is_run_select :
  forall (fo : fops) re (fmt_v : F fo -> string) (ag : aggops fo) pi pf q x fields w d m,
  front_s fo q = STOk (x, fields, w) ->
  select_stmt_text_st fo re fmt_v ag pi pf q d m = run_select_st fo re fmt_v ag pi pf x d m /\
  expanded_text_st fo re fmt_v ag pi pf q d m = run_select_st fo re fmt_v ag pi pf (expand_stmt x) d m.
Proof.
  intros. split; [eapply AliasTextProofs.text_is_run_select | eapply expanded_text_is_run_select]; eassumption.
Qed.
Print Assumptions text_is_run_select.

(* the expansion keeps the announced names, ORDER BY, GROUP BY, LIMIT and the number of fields *)
Theorem expand_stmt_keeps : forall x,
  StmtParser.s_names (expand_stmt x) = StmtParser.s_names x /\
  StmtParser.s_order (expand_stmt x) = StmtParser.s_order x /\
  StmtParser.s_group (expand_stmt x) = StmtParser.s_group x /\
  StmtParser.s_limit (expand_stmt x) = StmtParser.s_limit x /\
  StmtParser.s_all (expand_stmt x) = StmtParser.s_all x /\
  List.length (StmtParser.s_fields (expand_stmt x)) = List.length (StmtParser.s_fields x).
Proof. exact AliasTextProofs.expand_stmt_keeps. Qed.
Print Assumptions expand_stmt_keeps.

(* FULL STATEMENT row_shape_text (not proved): for every accepted SELECT text, every plan shape,
   both modes: every row has |FieldNames| columns; projection shapes: column j = value of field j;
   aggregate shapes: key fields = their value on the group's first pair (Model/AggregateLazy.v).
   PROVED: projection node (no aggregate, ORDER BY node or LIMIT), row mode.  The other shapes
   are covered at plan level by row_shape / Properties/C03.v, C07.v, C08.v, C09.v. *)
Theorem row_shape_text_partial :
  forall (fo : fops) re (fmt_v : F fo -> string) (ag : aggops fo) pi pf q d pl out,
  plan_stmt_text fo re fmt_v q = STOk pl ->
  sp_shape fo pl = SProj ->
  select_stmt_text fo re fmt_v ag pi pf q d MRow = TOk out ->
  let c := sp_q fo pl in
  let pairs := somes (scan_slots (sp_scan fo pl) d) in
  Forall (fun row => List.length row = List.length (SelectPlans.s_names (F fo) (q_stmt fo c))) out /\
  Forall2 (row_of_fields fo re ag (q_fields fo c))
          (filter (fun kv => match filter_row fo re (fst kv) (snd kv) (q_where fo c) with
                             | Value.Ok true => true | _ => false end) pairs) out.
Proof. exact AliasTextProofs.row_shape_text_partial. Qed.
Print Assumptions row_shape_text_partial.

(* FULL STATEMENT alias_text_is_expansion (not proved): for every accepted text q (statement x,
   no field a bare name, no name standing for a parenthesised list), every store, mode and batch
   size: same_outcome (select_stmt_text_st q d m) (expanded_text_st q d m).
   PROVED: the rows of the accepted text are the rows of the trees of its plan with EVERY
   reference replaced by its definition (projection node, row mode, completed runs).  MISSING:
   the front end (checker, folder, scan chooser) commutes with expand_stmt -- compared on every
   run by Corr/C05Text.v (code 7) --, the other nodes, batch mode, failing runs. *)
Theorem alias_text_is_expansion_partial :
  forall (fo : fops) re (fmt_v : F fo -> string) (ag : aggops fo) pi pf q d pl out,
  plan_stmt_text fo re fmt_v q = STOk pl ->
  sp_shape fo pl = SProj ->
  select_stmt_text fo re fmt_v ag pi pf q d MRow = TOk out ->
  let c := sp_q fo pl in
  no_list_alias (q_where fo c) = true ->
  no_list_alias_fields (q_fields fo c) = true ->
  let pairs := somes (scan_slots (sp_scan fo pl) d) in
  Forall2 (row_of_fields fo re ag (expand_fields (q_fields fo c)))
          (filter (fun kv => match filter_row fo re (fst kv) (snd kv) (expand (q_where fo c)) with
                             | Value.Ok true => true | _ => false end) pairs) out.
Proof. exact AliasTextProofs.alias_text_is_expansion_partial. Qed.
Print Assumptions alias_text_is_expansion_partial.

(* non-vacuity: a chain of names (p uses m uses n) in the fields and in WHERE; the premises hold,
   the expanded statement uses no field name any more, and the text and its expansion return the
   same two rows in row mode and at batch size 2 *)
Definition at_q : string := "select key, int(value) as n, n + 1 as m, m * n as p where m > 2 & p != 30".
Definition at_store : Storage.store := [("a", "1"); ("b", "2"); ("c", "5"); ("d", "7")].
Definition at_rows : list Order.row :=
  [[Order.VBytes "b"; Order.VInt 2; Order.VInt 3; Order.VInt 6];
   [Order.VBytes "d"; Order.VInt 7; Order.VInt 8; Order.VInt 56]].

Example alias_text_nonvacuous :
  forall (fo : fops) re (fmt_v : F fo -> string) (ag : aggops fo) pi pf,
  (exists pl, plan_stmt_text fo re fmt_v at_q = STOk pl /\ sp_shape fo pl = SProj /\
     no_list_alias (q_where fo (sp_q fo pl)) = true /\
     no_list_alias_fields (q_fields fo (sp_q fo pl)) = true) /\
  (exists x fields w, front_s fo at_q = STOk (x, fields, w) /\ no_bare_fields x = true /\
     existsb (uses_name (StmtParser.s_names x)) (StmtParser.s_where (expand_stmt x) :: StmtParser.s_fields (expand_stmt x)) = false /\
     existsb (uses_name (StmtParser.s_names x)) (StmtParser.s_fields x) = true) /\
  select_stmt_text fo re fmt_v ag pi pf at_q at_store MRow = TOk at_rows /\
  expanded_text_st fo re fmt_v ag pi pf at_q at_store MRow = STOk at_rows /\
  select_stmt_text_st fo re fmt_v ag pi pf at_q at_store (MBatch 2) = STOk at_rows /\
  expanded_text_st fo re fmt_v ag pi pf at_q at_store (MBatch 2) = STOk at_rows.
Proof.
  intros. split.
  { eexists. split; [vm_compute; reflexivity|]. repeat split; vm_compute; reflexivity. }
  split.
  { do 3 eexists. split; [vm_compute; reflexivity|]. repeat split; vm_compute; reflexivity. }
  repeat split; vm_compute; reflexivity.
Qed.
