(* Properties/C06.v -- no query text and no data can crash the library: the part that is
   logic.  Every place where the Go evaluator can panic (indexing an argument list, slicing a
   string, asserting a dynamic type) is an explicit [Panic] outcome in the twin; the theorems
   say it is unreachable.  Only property theorems (closed by [exact]) and Print Assumptions. *)
From Coq Require Import List String ZArith Bool.
Import ListNotations.
From KV Require Import Base.Bytes Base.Flt Model.Ast Model.Value Model.Eval Proofs.NoPanicProofs.
Open Scope string_scope.

(* for EVERY expression tree (also ill-typed ones the checker would reject, any nesting depth),
   every pair, every float structure and every regexp oracle that does not itself panic *)
Theorem eval_never_panics_thm :
  forall (fo : fops) (re_match : bytes -> bytes -> res bool),
  (forall p t, re_match p t <> Panic) ->
  forall (k v : bytes) (e : expr), eval fo re_match k v e <> Panic.
Proof. exact eval_never_panics. Qed.
Print Assumptions eval_never_panics_thm.

Theorem filter_never_panics_thm :
  forall (fo : fops) (re_match : bytes -> bytes -> res bool),
  (forall p t, re_match p t <> Panic) ->
  forall (k v : bytes) (e : expr), filter_row fo re_match k v e <> Panic.
Proof. exact filter_never_panics. Qed.
Print Assumptions filter_never_panics_thm.

(* the guard that makes argument indexing safe: a function body runs only after the arity
   check, and then none of its argument accesses can fail *)
Theorem function_bodies_never_panic :
  forall (fo : fops) nm args (rs : list (res (value fo))) nargs varargs t,
  func_info nm = Some (nargs, varargs, t) ->
  Forall (fun r => r <> Panic) rs ->
  ((negb varargs && negb (Nat.eqb (List.length rs) nargs)) || (varargs && Nat.ltb (List.length rs) nargs)) = false ->
  apply_func fo nm args rs <> Panic.
Proof. exact safe_apply_func. Qed.
Print Assumptions function_bodies_never_panic.

(* non-vacuity: the guard is what protects the body -- without it the twin does reach Panic *)
Example unguarded_body_would_panic :
  apply_func prim_fops "upper" [] [] = Panic.
Proof. reflexivity. Qed.
