(* Properties/C06.v -- no query text and no data can crash the library: the part that is
   logic.  Every place where the Go evaluator can panic (indexing an argument list, slicing a
   string, asserting a dynamic type) is an explicit [Panic] outcome in the twin; the theorems
   say it is unreachable.  Only property theorems (closed by [exact]) and Print Assumptions. *)
From Coq Require Import List String ZArith Bool.
Import ListNotations.
From KV Require Import Base.Bytes Base.Flt Model.Ast Model.Value Model.Eval Proofs.NoPanicProofs.
From KV Require Model.ErrRender Proofs.ErrRenderProofs Model.ExprParser Proofs.ExprParserProofs Model.EvalVec Proofs.EvalVecProofs.
Open Scope string_scope.

(* for EVERY expression tree (also ill-typed ones the checker would reject, any nesting depth),
   every pair, every float structure and every regexp oracle that does not itself panic *)
Theorem eval_never_panics_thm :
  forall (fo : fops) (re_match : bytes -> bytes -> res bool),
  (forall p t, re_match p t <> Panic) ->
  forall (k v : bytes) (e : expr), eval fo re_match k v e <> Panic.
Proof. exact eval_never_panics. Qed.
Print Assumptions eval_never_panics_thm.

Theorem filter_never_panics_thm :
  forall (fo : fops) (re_match : bytes -> bytes -> res bool),
  (forall p t, re_match p t <> Panic) ->
  forall (k v : bytes) (e : expr), filter_row fo re_match k v e <> Panic.
Proof. exact filter_never_panics. Qed.
Print Assumptions filter_never_panics_thm.

(* the guard that makes argument indexing safe: a function body runs only after the arity
   check, and then none of its argument accesses can fail *)
Theorem function_bodies_never_panic :
  forall (fo : fops) nm args (rs : list (res (value fo))) nargs varargs t,
  func_info nm = Some (nargs, varargs, t) ->
  Forall (fun r => r <> Panic) rs ->
  ((negb varargs && negb (Nat.eqb (List.length rs) nargs)) || (varargs && Nat.ltb (List.length rs) nargs)) = false ->
  apply_func fo nm args rs <> Panic.
Proof. exact safe_apply_func. Qed.
Print Assumptions function_bodies_never_panic.

(* rendering any returned error after binding it to the query text never hits a slice-bounds
   panic: every query, position, padding (twin of errors.go, C17) *)
Theorem rendering_never_panics :
  forall e : ErrRender.qerror, exists s, ErrRender.error_text true e = ErrRender.Ok s.
Proof. exact ErrRenderProofs.error_text_never_panics. Qed.
Print Assumptions rendering_never_panics.

(* the expression parser twin is a total function on EVERY token list and returns a tree of
   its image or an error -- it never dereferences a missing token (twin of parser.go, C15) *)
Theorem expression_parser_total :
  forall ts, ExprParser.inv (ExprParser.parse_expr_top ts).
Proof. exact ExprParserProofs.parse_image_thm. Qed.
Print Assumptions expression_parser_total.

(* non-vacuity: the guard is what protects the body -- without it the twin does reach Panic *)
Example unguarded_body_would_panic :
  apply_func prim_fops "upper" [] [] = Panic.
Proof. reflexivity. Qed.
