(* Properties/C06.v -- no query text and no data can crash the library: the part that is
   logic.  Every place where the Go evaluator can panic (indexing an argument list, slicing a
   string, asserting a dynamic type) is an explicit [Panic] outcome in the twin; the theorems
   say it is unreachable.  Only property theorems (closed by [exact]) and Print Assumptions. *)
From Coq Require Import List String ZArith Bool.
Import ListNotations.
From KV Require Import Base.Bytes Base.Flt Model.Ast Model.Value Model.Eval Proofs.NoPanicProofs.
From KV Require Model.ErrRender Proofs.ErrRenderProofs Model.ExprParser Proofs.ExprParserProofs Model.EvalVec Proofs.EvalVecProofs.
Open Scope string_scope.

(* for EVERY expression tree (also ill-typed ones the checker would reject, any nesting depth),
   every pair, every float structure and every regexp oracle that does not itself panic *)
Theorem eval_never_panics_thm :
  forall (fo : fops) (re_match : bytes -> bytes -> res bool),
  (forall p t, re_match p t <> Panic) ->
  forall (k v : bytes) (e : expr), eval fo re_match k v e <> Panic.
Proof. exact eval_never_panics. Qed.
Print Assumptions eval_never_panics_thm.

Theorem filter_never_panics_thm :
  forall (fo : fops) (re_match : bytes -> bytes -> res bool),
  (forall p t, re_match p t <> Panic) ->
  forall (k v : bytes) (e : expr), filter_row fo re_match k v e <> Panic.
Proof. exact filter_never_panics. Qed.
Print Assumptions filter_never_panics_thm.

(* the guard that makes argument indexing safe: a function body runs only after the arity
   check, and then none of its argument accesses can fail *)
Theorem function_bodies_never_panic :
  forall (fo : fops) nm args (rs : list (res (value fo))) nargs varargs t,
  func_info nm = Some (nargs, varargs, t) ->
  Forall (fun r => r <> Panic) rs ->
  ((negb varargs && negb (Nat.eqb (List.length rs) nargs)) || (varargs && Nat.ltb (List.length rs) nargs)) = false ->
  apply_func fo nm args rs <> Panic.
Proof. exact safe_apply_func. Qed.
Print Assumptions function_bodies_never_panic.

(* rendering any returned error after binding it to the query text never hits a slice-bounds
   panic: every query, position, padding (twin of errors.go, C17) *)
Theorem rendering_never_panics :
  forall e : ErrRender.qerror, exists s, ErrRender.error_text true e = ErrRender.Ok s.
Proof. exact ErrRenderProofs.error_text_never_panics. Qed.
Print Assumptions rendering_never_panics.

(* the expression parser twin is a total function on EVERY token list and returns a tree of
   its image or an error -- it never dereferences a missing token (twin of parser.go, C15) *)
Theorem expression_parser_total :
  forall ts, ExprParser.inv (ExprParser.parse_expr_top ts).
Proof. exact ExprParserProofs.parse_image_thm. Qed.
Print Assumptions expression_parser_total.

(* non-vacuity: the guard is what protects the body -- without it the twin does reach Panic *)
Example unguarded_body_would_panic :
  apply_func prim_fops "upper" [] [] = Panic.
Proof. reflexivity. Qed.

(* ================================================================== beyond the row evaluator *)
From KV Require Proofs.NoPanicVecProofs Model.Storage Model.ScanIO Proofs.NoPanicPlanProofs
  Model.Order Proofs.OrderProofs Proofs.NoPanicOrderProofs Spec.Group Model.Aggregate Proofs.NoPanicAggrProofs.

(* the VECTOR evaluator twin (Model/EvalVec.v: expression_exec_vec.go, scalar_func_vec.go):
   every expression tree, every chunk (also empty), the code before and after D29, every float
   structure and every regexp oracle that does not itself panic.  The panic sites are the
   `x[i]`, i < len(chunk), on result columns and `args[k]` in the vector function bodies *)
Theorem eval_batch_never_panics_thm :
  forall (fo : fops) (re_match : bytes -> bytes -> res bool) (fixed_between : bool),
  (forall p t, re_match p t <> Panic) ->
  forall (e : expr) (ch : list EvalVec.kvpair), EvalVec.eval_batch fo re_match fixed_between e ch <> Panic.
Proof. exact NoPanicVecProofs.eval_batch_never_panics. Qed.
Print Assumptions eval_batch_never_panics_thm.

(* what discharges them: a returned column has exactly one value per pair of the chunk *)
Theorem eval_batch_full_column_thm :
  forall (fo : fops) (re_match : bytes -> bytes -> res bool) (fixed_between : bool),
  (forall p t, re_match p t <> Panic) ->
  forall (e : expr) (ch : list EvalVec.kvpair) vs,
  EvalVec.eval_batch fo re_match fixed_between e ch = Ok vs -> List.length vs = List.length ch.
Proof. exact NoPanicVecProofs.eval_batch_full_column. Qed.
Print Assumptions eval_batch_full_column_thm.

(* FilterBatch: never panics, one verdict per pair (`filterBatch[i]` in the scan nodes) *)
Theorem filter_batch_never_panics_thm :
  forall (fo : fops) (re_match : bytes -> bytes -> res bool) (fixed_between : bool),
  (forall p t, re_match p t <> Panic) ->
  forall (e : expr) (ch : list EvalVec.kvpair), EvalVec.filter_batch fo re_match fixed_between e ch <> Panic.
Proof. exact NoPanicVecProofs.filter_batch_never_panics. Qed.
Print Assumptions filter_batch_never_panics_thm.

Theorem filter_batch_full_column_thm :
  forall (fo : fops) (re_match : bytes -> bytes -> res bool) (fixed_between : bool),
  (forall p t, re_match p t <> Panic) ->
  forall (e : expr) (ch : list EvalVec.kvpair) bs,
  EvalVec.filter_batch fo re_match fixed_between e ch = Ok bs -> List.length bs = List.length ch.
Proof. exact NoPanicVecProofs.filter_batch_full_column. Qed.
Print Assumptions filter_batch_full_column_thm.

(* the PLAN layer twin (Model/ScanIO.v: scan / limit / projection / aggregate / order / delete
   nodes as programs over storage instructions): no statement run ends in EPanic (nil iterator,
   wrong state shape) -- every statement, mode, store, fault index, filter, group key, batch
   size (also 0) and fuel *)
Theorem run_stmt_never_panics_thm :
  forall (remember_end : bool) (flt : Storage.kvp -> bool) (gkey : Storage.kvp -> bytes) (B fuel : nat)
         (m : ScanIO.mode) (s : ScanIO.stmt) (d : Storage.store) (fault : option nat),
  fst (ScanIO.run_stmt remember_end flt gkey B fuel m s (Storage.sinit d fault)) <> Storage.Err Storage.EPanic.
Proof. exact NoPanicPlanProofs.run_stmt_never_panics. Qed.
Print Assumptions run_stmt_never_panics_thm.

(* with the correspondence's fuel and PlanBatchSize >= 1 the outcomes are exactly: rows, the
   injected storage error, the rejection of the statement *)
Theorem run_stmt_outcomes_thm :
  forall (remember_end : bool) (flt : Storage.kvp -> bool) (gkey : Storage.kvp -> bytes) (B : nat)
         (m : ScanIO.mode) (s : ScanIO.stmt) (d : Storage.store) (fault : option nat),
  1 <= B ->
  match fst (ScanIO.run_stmt remember_end flt gkey B (ScanIO.stmt_fuel s d) m s (Storage.sinit d fault)) with
  | Storage.Ok _ => True
  | Storage.Err e => e = Storage.EStorage \/ e = Storage.ESyntax
  end.
Proof. exact NoPanicPlanProofs.run_stmt_outcomes. Qed.
Print Assumptions run_stmt_outcomes_thm.

(* FinalOrderPlan (Model/Order.v): heap.Pop is never called on an empty heap -- every state
   reachable from Init by Next / Batch calls, every child, ORDER BY list and batch size *)
Theorem order_plan_never_panics_thm :
  forall (parse_int parse_float : bytes -> option Z) (ords : list Order.ofield) (st : Order.ostate),
  NoPanicOrderProofs.reachable parse_int parse_float ords st ->
  (forall child, fst (fst (Order.next parse_int parse_float ords st child)) <> Order.NPanic) /\
  (forall B child, Order.batch parse_int parse_float ords B st child <> None).
Proof. exact NoPanicOrderProofs.order_plan_never_panics. Qed.
Print Assumptions order_plan_never_panics_thm.

(* orderPos[i] is a valid index into the field names: p.FieldTypes[idx] / l.cols[oidx] in range *)
Theorem order_positions_in_range :
  forall orders names types ofs,
  Order.init_orders orders names types = Some ofs ->
  Forall (fun o => Order.opos o < List.length names) ofs.
Proof. exact NoPanicOrderProofs.init_orders_in_range. Qed.
Print Assumptions order_positions_in_range.

(* AggregatePlan (Model/Aggregate.v) has no panic outcome by construction; its parallel slices
   Funcs / FuncExprs stay aligned in every group row (col.Funcs[i], col.FuncExprs[i] in range) *)
Theorem aggregate_rows_aligned :
  forall (F : Type) fadd fltb of_Z to_Z fmt_f bits_f parse_f (fix_key fix_minmax : bool)
         (p : Group.plan F) (pairs : list (Group.pobs F)),
  NoPanicAggrProofs.rows_aligned F
    (Aggregate.prepare fadd fltb of_Z to_Z fmt_f bits_f parse_f fix_key fix_minmax p pairs).
Proof. exact NoPanicAggrProofs.prepare_aligned. Qed.
Print Assumptions aggregate_rows_aligned.

Theorem aggregate_rows_aligned_batch :
  forall (F : Type) fadd fltb of_Z to_Z fmt_f bits_f parse_f (fix_key fix_minmax : bool)
         (p : Group.plan F) (chunks : list (list (Group.pobs F))),
  NoPanicAggrProofs.rows_aligned F
    (Aggregate.prepareBatch fadd fltb of_Z to_Z fmt_f bits_f parse_f fix_key fix_minmax p chunks).
Proof. exact NoPanicAggrProofs.prepareBatch_aligned. Qed.
Print Assumptions aggregate_rows_aligned_batch.

(* non-vacuity: the guards are what protects these sites -- without them the twins do panic *)
Example unguarded_vec_body_would_panic :
  forall fo re ch, EvalVec.apply_func_vec fo re "upper" [] ch [] = Panic.
Proof. reflexivity. Qed.
Example short_column_would_panic :
  forall fo (f : value fo -> value fo -> res (value fo)) x, EvalVec.vmap2 fo f [x] [] = Panic.
Proof. reflexivity. Qed.
Example uninitialised_scan_would_panic :
  forall remember_end flt fuel d fault,
  fst (ScanIO.run ScanIO.exec_req
         (ScanIO.rd (ScanIO.plan_next remember_end flt fuel (ScanIO.PScan ScanIO.SFull)
                       (ScanIO.pstate0 (ScanIO.PScan ScanIO.SFull))))
         (Storage.sinit d fault)) = Storage.Err Storage.EPanic.
Proof. exact NoPanicPlanProofs.uninitialised_scan_panics. Qed.
Example pop_on_empty_heap_would_panic :
  forall pi pf ords, fst (fst (Order.next pi pf ords (Order.OState 0 1 []) [])) = Order.NPanic.
Proof. reflexivity. Qed.

(* the statement parser twin (Model/StmtParser.v: Parser.Parse with SELECT lists, AS, WHERE,
   ORDER BY / GROUP BY / LIMIT, PUT, REMOVE, DELETE) is total on EVERY token list and for every
   behaviour of the semantic tests run while parsing: a statement or a syntax error, never out
   of fuel, never one of the p.tok.Pos dereferences with p.tok == nil *)
From KV Require Model.StmtParser Proofs.StmtParserProofs.

Theorem statement_parser_total :
  forall h ts, (exists s, StmtParser.parse_with h ts = StmtParser.SOk s) \/
               (exists p, StmtParser.parse_with h ts = StmtParser.SErr p).
Proof. exact StmtParserProofs.parse_with_total. Qed.
Print Assumptions statement_parser_total.

(* the expression parser at the fuel it is run with: never out of fuel, never a nil dereference *)
Theorem expression_parser_fuel_suffices :
  forall ts, ExprParser.parse_expr_top ts <> ExprParser.PFuel /\
             ExprParser.parse_expr_top ts <> ExprParser.PPanic /\
             forall e rest, ExprParser.parse_expr_top ts = ExprParser.POk e rest ->
                            List.length rest < List.length ts.
Proof. exact StmtParserProofs.parse_expr_top_total. Qed.
Print Assumptions expression_parser_fuel_suffices.

(* ================================================================== FROM THE QUERY TEXT
   (DESIGN.md section 5 C06 `no_panic`): the layers above composed along the glue twins
   Model/PipelineS.v (every SELECT shape) -- Proofs/NoPanicTextProofs.v *)
From KV Require Model.PipelineW Model.Pipeline Model.PipelineS Model.SelectPlans Model.ScanProj Model.AggregateLazy
  Model.AggErrPos Proofs.PipelineProofs Proofs.NoPanicTextProofs.

(* for EVERY byte string q (valid or not), every store (sortedness is not needed), row mode and
   batch mode at every PlanBatchSize >= 1, every float structure, every regexp oracle that does
   not itself panic, every float printer and float library: NewOptimizer(q).BuildPlan(store)
   followed by Next until nil / Batch until the empty batch ends as rows (STOk), a SyntaxError
   of BuildPlan with its position (STReject), another error of BuildPlan (STBuildErr), an error
   of the drain (STRunErr) or the explicit model boundary (STOom) -- never as a nil dereference
   of the front end (STPanic), never with the twin's front-end fuel exhausted (STFuel), never as
   a panic of the drain (STRunPanic: heap.Pop on an empty heap; filterBatch[i], cols[j][i],
   keys[i] out of range) *)
Theorem select_stmt_text_never_panics :
  forall (fo : fops) (re : bytes -> bytes -> res bool), (forall p t, re p t <> Panic) ->
  forall (fmt_v : F fo -> string) (ag : SelectPlans.aggops fo) (pi pf : bytes -> option Z)
         (q : string) (d : Storage.store) (m : Pipeline.tmode),
  PipelineProofs.mode_ok m ->
  match PipelineS.select_stmt_text_st fo re fmt_v ag pi pf q d m with
  | PipelineS.STRunPanic | PipelineS.STPanic | PipelineS.STFuel => False
  | _ => True
  end.
Proof. exact NoPanicTextProofs.select_stmt_text_st_never_panics. Qed.
Print Assumptions select_stmt_text_never_panics.

(* the same in Model/Pipeline.v's outcome vocabulary (C01 / C03): never TPanic, never TFuel,
   never an error of the EPanic class *)
Theorem select_stmt_text_never_panics_tres :
  forall (fo : fops) (re : bytes -> bytes -> res bool), (forall p t, re p t <> Panic) ->
  forall (fmt_v : F fo -> string) (ag : SelectPlans.aggops fo) (pi pf : bytes -> option Z)
         (q : string) (d : Storage.store) (m : Pipeline.tmode),
  PipelineProofs.mode_ok m ->
  match PipelineS.select_stmt_text fo re fmt_v ag pi pf q d m with
  | Pipeline.TPanic | Pipeline.TFuel | Pipeline.TRunErr Storage.EPanic => False
  | _ => True
  end.
Proof. exact NoPanicTextProofs.select_stmt_text_never_panics. Qed.
Print Assumptions select_stmt_text_never_panics_tres.

(* ... and for the twin that keeps class and position of the errors of AggregatePlan.next /
   batch (Model/AggErrPos.v, C17) *)
Theorem select_stmt_text_completion_never_panics :
  forall (fo : fops) (re : bytes -> bytes -> res bool), (forall p t, re p t <> Panic) ->
  forall (fmt_v : F fo -> string) (ag : SelectPlans.aggops fo) (pi pf : bytes -> option Z)
         (q : string) (d : Storage.store) (m : Pipeline.tmode),
  PipelineProofs.mode_ok m ->
  match AggErrPos.select_stmt_text_stp fo re fmt_v ag pi pf q d m with
  | PipelineS.STRunPanic | PipelineS.STPanic | PipelineS.STFuel => False
  | _ => True
  end.
Proof. exact NoPanicTextProofs.select_stmt_text_stp_never_panics. Qed.
Print Assumptions select_stmt_text_completion_never_panics.

(* what it is composed of.  (1) the plan nodes: any shape, any statement record (also ones no
   text produces), any slot list, over ANY filter / projection / observation functions that do
   not panic and return one verdict / one key per pair of the chunk *)
Theorem plan_nodes_never_panic_row :
  forall (fo : fops) (re : bytes -> bytes -> res bool), (forall p t, re p t <> Panic) ->
  forall (ag : SelectPlans.aggops fo) (pi pf : bytes -> option Z)
         (c : SelectPlans.cstmt fo) (sh : SelectPlans.shape) (sl : list (option EvalVec.kvpair)),
  SelectPlans.select_shape_row fo re ag pi pf c sh sl <> Panic.
Proof. exact NoPanicTextProofs.safe_select_shape_row. Qed.
Print Assumptions plan_nodes_never_panic_row.

Theorem plan_nodes_never_panic_batch :
  forall (fo : fops) (re : bytes -> bytes -> res bool), (forall p t, re p t <> Panic) ->
  forall (ag : SelectPlans.aggops fo) (pi pf : bytes -> option Z) (B : nat)
         (c : SelectPlans.cstmt fo) (sh : SelectPlans.shape) (sl : list (option EvalVec.kvpair)),
  1 <= B ->
  SelectPlans.select_shape_batch fo re ag pi pf B c sh sl <> Panic.
Proof. exact NoPanicTextProofs.safe_select_shape_batch. Qed.
Print Assumptions plan_nodes_never_panic_batch.

(* (2) BuildPlan: lexer + parser + checker + folder + AggregatePlan.Init, for every text *)
Theorem build_plan_text_never_panics :
  forall (fo : fops) (re : bytes -> bytes -> res bool) (fmt_v : F fo -> string) (q : string),
  match PipelineS.plan_stmt_text fo re fmt_v q with
  | PipelineS.STRunPanic | PipelineS.STPanic | PipelineS.STFuel => False
  | _ => True
  end.
Proof. exact NoPanicTextProofs.plan_stmt_text_clean. Qed.
Print Assumptions build_plan_text_never_panics.

(* non-vacuity.  (i) the hypotheses are satisfiable on non-trivial inputs: for every float
   structure and every oracle the twin RUNS these texts to rows / to each kind of error -- an
   aggregate over a GROUP BY with ORDER BY and LIMIT in both modes, an execution error in an
   aggregate argument, a corrupted text, an arity error raised by AggregatePlan.Init *)
Example select_stmt_text_never_panics_nonvacuous :
  forall (fo : fops) (re : bytes -> bytes -> res bool) (fmt_v : F fo -> string)
         (ag : SelectPlans.aggops fo) (pi pf : bytes -> option Z),
  let d := [("a", "3"); ("ab", "1"); ("b", "2"); ("c", "1")] in
  let q := "select value as g, count(1) as c, sum(int(value)) * 2 as s where key ^= 'a' | key >= 'b' group by g order by c desc, g limit 0, 5" in
  PipelineProofs.mode_ok (Pipeline.MBatch 3) /\
  PipelineS.select_stmt_text_st fo re fmt_v ag pi pf q d Pipeline.MRow =
    PipelineS.STOk [[Order.VBytes "1"; Order.VInt 2; Order.VInt 4]; [Order.VBytes "2"; Order.VInt 1; Order.VInt 4];
                    [Order.VBytes "3"; Order.VInt 1; Order.VInt 6]] /\
  PipelineS.select_stmt_text_st fo re fmt_v ag pi pf q d (Pipeline.MBatch 3) =
    PipelineS.select_stmt_text_st fo re fmt_v ag pi pf q d Pipeline.MRow /\
  PipelineS.select_stmt_text_st fo re fmt_v ag pi pf "select sum(10 / (int(value) - 2)) as s where key > ''" d (Pipeline.MBatch 2) =
    PipelineS.STRunErr (EExec 28) /\
  PipelineS.select_stmt_text_st fo re fmt_v ag pi pf "select key, where )( order by" d Pipeline.MRow = PipelineS.STReject 18 /\
  PipelineS.select_stmt_text_st fo re fmt_v ag pi pf "select count() where key > ''" d Pipeline.MRow =
    PipelineS.STBuildErr (EExec 7).
Proof.
  intros. split; [cbn; auto|]. split; [vm_compute; reflexivity|]. split; [vm_compute; reflexivity|].
  split; [vm_compute; reflexivity|]. split; vm_compute; reflexivity.
Qed.

(* (ii) the guards are what protects the plan nodes' own index sites: a verdict list longer than
   the chunk, a key list shorter than the chunk do reach Panic in the twins *)
Example long_verdict_list_would_panic :
  forall (kv : EvalVec.kvpair), ScanProj.select_matches [kv] [true; true] = Panic.
Proof. reflexivity. Qed.
Example short_key_list_would_panic :
  forall F fmt bits (ek : EvalVec.kvpair -> res (list (Group.value F))) ea p t kv,
  AggregateLazy.lobs_zip fmt bits ek ea p t [kv] [] = Panic.
Proof. reflexivity. Qed.

(* PUT / REMOVE from the text (Model/PipelineW.v): NewOptimizer(q).BuildPlan(store) for EVERY
   text is a plan, a positional rejection or the model boundary -- never a nil dereference of the
   parser (TPanic), never the twin's fuel (TFuel), and the plan's key / value expressions never
   reach a panic outcome of the evaluator *)
Theorem write_plan_text_never_panics :
  forall (fo : fops) (re : bytes -> bytes -> res bool), (forall p t, re p t <> Panic) ->
  forall (q : string),
  match PipelineW.write_plan_text fo re q with
  | Pipeline.TPanic | Pipeline.TFuel => False
  | _ => True
  end.
Proof. exact NoPanicTextProofs.write_plan_text_clean. Qed.
Print Assumptions write_plan_text_never_panics.

(* ... and the POLLS: every text, every poll sequence (the finished plan polled again and
   again, Next and Batch mixed), every storage state and fault index -- BuildPlan is never
   TPanic / TFuel and no poll of an accepted plan returns an error of the EPanic / EFuel class
   (only evaluation errors and the injected storage error) *)
From KV Require Model.Write Model.Delete Model.ScanIO.
Theorem write_text_never_panics :
  forall (fo : fops) (re : bytes -> bytes -> res bool), (forall p t, re p t <> Panic) ->
  forall (q : string) (polls : list Write.poll) (s : Storage.sstate),
  match fst (PipelineW.write_text fo re q polls s) with
  | Pipeline.TPanic | Pipeline.TFuel => False
  | Pipeline.TOk outs =>
      Forall (fun r : Write.pres => snd r <> Some Storage.EPanic /\ snd r <> Some Storage.EFuel) outs
  | _ => True
  end.
Proof. exact NoPanicTextProofs.write_text_never_panics. Qed.
Print Assumptions write_text_never_panics.

(* DELETE from the text: BuildPlan is never TPanic / TFuel, for every text, PlanBatchSize and
   storage state; the DeletePlan it returns never ends in the EPanic class, whatever filter,
   batch size and fuel *)
Theorem delete_text_never_panics :
  forall (fo : fops) (re : bytes -> bytes -> res bool) (fmt_v : F fo -> string)
         (q : string) (B : nat) (s : Storage.sstate),
  match fst (PipelineW.delete_text fo re fmt_v q B s) with
  | Pipeline.TPanic | Pipeline.TFuel => False
  | _ => True
  end /\
  forall pl flt fuel, PipelineW.delete_plan_text fo re fmt_v q = Pipeline.TOk pl ->
    match PipelineW.dp_plan pl with
    | Delete.DScan c =>
        fst (ScanIO.run ScanIO.exec_req (ScanIO.delete_prog true flt B fuel c) s) <> Storage.Err Storage.EPanic
    | Delete.DRemove keys => True
    end.
Proof. exact NoPanicTextProofs.delete_text_never_panics. Qed.
Print Assumptions delete_text_never_panics.

(* non-vacuity: texts the write twins accept and run (the finished PUT plan polled twice more),
   a value expression that fails, corrupted texts that are rejected with a position *)
Example write_text_never_panics_nonvacuous :
  forall (fo : fops) (re : bytes -> bytes -> res bool) (fmt_v : F fo -> string),
  let s := Storage.sinit [("a", "1"); ("b", "2")] None in
  fst (PipelineW.write_text fo re "put ('k1', 'v1'), ('k2', upper('v' + key));" [Write.PNext; Write.PBatch; Write.PNext] s) =
    Pipeline.TOk [(Some 2, None); (None, None); (None, None)] /\
  fst (PipelineW.write_text fo re "put ('k', str(1 / (1 - 1)))" [Write.PBatch; Write.PNext] s) =
    Pipeline.TOk [(Some 0, Some Storage.EExec); (None, None)] /\
  fst (PipelineW.write_text fo re "put ('k', 'v'" [Write.PNext] s) = Pipeline.TReject (-1) /\
  fst (PipelineW.write_text fo re "remove 'a',, 'b'" [Write.PNext] s) = Pipeline.TReject 11 /\
  (exists dp, fst (PipelineW.delete_text fo re fmt_v "delete where key ^= 'a' limit 1" 2 s) = Pipeline.TOk dp) /\
  fst (PipelineW.delete_text fo re fmt_v "delete where key ^= limit 1" 2 s) = Pipeline.TReject 20.
Proof.
  intros. split; [vm_compute; reflexivity|]. split; [vm_compute; reflexivity|]. split; [vm_compute; reflexivity|].
  split; [vm_compute; reflexivity|]. split; [eexists; vm_compute; reflexivity|]. vm_compute; reflexivity.
Qed.

(* ================================================================== from the text to the RENDERED
   message.  Whatever error the SELECT pipeline returns for a query text q -- at BuildPlan
   (parser, checker, call check, buildFinalPlan, AggregatePlan.Init) or while draining, row mode
   or batch mode at any batch size, any store --, once bound to q (BindQuery) with any padding
   (SetPadding, also negative) and any message: its position is -1 or an offset INSIDE q, and
   Error() returns a string (no slice-bounds panic in outputQueryAndErrPos).  [re_plain]: the
   regexp oracle returns no positional error of its own (C17). *)
From KV Require Model.TextErr Spec.CaretSpec Proofs.ExecPosProofs.
Theorem error_of_text_renders :
  forall (fo : fops) (re : bytes -> bytes -> res bool) (fmt_v : F fo -> string), ExecPosProofs.re_plain re ->
  forall (ag : SelectPlans.aggops fo) (pi pf : bytes -> option Z)
         (q : string) (d : Storage.store) (m : Pipeline.tmode) (msg : string) (pad : Z) (e : ErrRender.qerror),
  TextErr.st_error q msg pad (AggErrPos.select_stmt_text_stp fo re fmt_v ag pi pf q d m) = Some e ->
  ErrRender.e_query e = q /\
  CaretSpec.pos_in_query q (ErrRender.e_pos e) = true /\
  exists s, ErrRender.error_text true e = ErrRender.Ok s.
Proof. exact NoPanicTextProofs.error_of_text_renders. Qed.
Print Assumptions error_of_text_renders.

(* the BuildPlan half, new here (C17 has the parser / checker and the drain): also the errors of
   buildFinalPlan and of AggregatePlan.Init (argument counts, group_concat's separator) carry -1
   or an offset inside the query *)
Theorem build_plan_error_positions :
  forall (fo : fops) (re : bytes -> bytes -> res bool) (fmt_v : F fo -> string) (q : string),
  match PipelineS.plan_stmt_text fo re fmt_v q with
  | PipelineS.STReject z => CaretSpec.pos_in_query q z = true
  | PipelineS.STBuildErr (EExec p) | PipelineS.STBuildErr (ESyntax p) => CaretSpec.pos_in_query q (Z.of_nat p) = true
  | _ => True
  end.
Proof.
  intros fo re fmt_v q. pose proof (NoPanicTextProofs.plan_stmt_text_err_pos fo re fmt_v q) as H.
  destruct (PipelineS.plan_stmt_text fo re fmt_v q) as [a|z|[p|p|]|e| | | |]; exact H || exact I.
Qed.
Print Assumptions build_plan_error_positions.

(* non-vacuity: three texts whose error the theorem speaks about -- a drain error in an aggregate
   argument (batch mode), an arity error of AggregatePlan.Init, a corrupted text -- with the
   error value bound to the text *)
Example error_of_text_renders_nonvacuous :
  forall (fo : fops) (re : bytes -> bytes -> res bool) (fmt_v : F fo -> string)
         (ag : SelectPlans.aggops fo) (pi pf : bytes -> option Z),
  let d := [("a", "3"); ("ab", "1"); ("b", "2"); ("c", "1")] in
  let q1 := "select sum(10 / (int(value) - 2)) as s where key > ''" in
  let q2 := "select count() where key > ''" in
  let q3 := "select key, where )( order by" in
  TextErr.st_error q1 "Divide by zero" 7 (AggErrPos.select_stmt_text_stp fo re fmt_v ag pi pf q1 d (Pipeline.MBatch 2)) =
    Some (ErrRender.QError ErrRender.ExecuteErr q1 "Divide by zero" 28 7) /\
  TextErr.st_error q2 "m" 0 (AggErrPos.select_stmt_text_stp fo re fmt_v ag pi pf q2 d Pipeline.MRow) =
    Some (ErrRender.QError ErrRender.ExecuteErr q2 "m" 7 0) /\
  TextErr.st_error q3 "m" (-3) (AggErrPos.select_stmt_text_stp fo re fmt_v ag pi pf q3 d Pipeline.MRow) =
    Some (ErrRender.QError ErrRender.SyntaxErr q3 "m" 18 (-3)).
Proof. intros. split; [vm_compute; reflexivity|]. split; vm_compute; reflexivity. Qed.

From KV Require Proofs.FuelEnoughProofs Model.Limit Model.ScanProj Model.LimitLazy Model.Pipeline Model.PipelineS Model.SelectPlans.

(* ------------------------------------------------------------------ the fuel of the drain twins
   suffices (agent N3; Proofs/FuelEnoughProofs.v).  The drain loops of Model/ScanProj.v /
   LimitLazy.v / AggregateLazy.v / SelectPlans.v answer OutOfModel when their fuel runs out -- the
   outcome the evaluator twins use for a value outside the model.  These theorems say that the
   fuel the text pipeline hands to every loop is enough: a run of an accepted text ends at the
   model boundary only if the front end / planner put the text there (plan_stmt_text = STOom, the
   classes 1-7 of notes/MP.md) or an evaluator twin answered OutOfModel for one of the trees of the
   plan ([evals_answer] fails: class 9).  Row mode: every shape buildFinalPlan builds.  Batch mode
   (PlanBatchSize >= 1; with 0 the scan's Batch loop of the Go code does not terminate either):
   every shape but FinalLimitPlan over FinalOrderPlan.

   FULL STATEMENT (not proved): the same without [lim_over_order (sp_shape pl) = false] in
   [fuel_mode_ok].  Missing: the measure of the order node as a pulled child in batch mode
   (SelectPlans.obatch: |slots| + 1 before prepareBatch, total - pos afterwards) needs
   total <= |slots|, i.e. that the projection returns one row per pair of a chunk and that the
   AggregatePlan has at most one group per scanned pair; the generic loop lemma for it is there
   (FuelEnoughProofs.nf_ldrain_batch_fuel, any measure [mu]). *)
Theorem select_stmt_text_fuel_enough_partial :
  forall (fo : fops) (re : bytes -> bytes -> res bool) (fmt_v : F fo -> string)
         (ag : SelectPlans.aggops fo) (pi pf : bytes -> option Z)
         (q : string) (d : list (bytes * bytes)) (m : Pipeline.tmode),
  PipelineS.select_stmt_text_st fo re fmt_v ag pi pf q d m = PipelineS.STOom ->
  PipelineS.plan_stmt_text fo re fmt_v q = PipelineS.STOom \/
  exists pl, PipelineS.plan_stmt_text fo re fmt_v q = PipelineS.STOk pl /\
             (FuelEnoughProofs.fuel_mode_ok fo pl m ->
              ~ FuelEnoughProofs.evals_answer fo re ag (PipelineS.sp_q fo pl)).
Proof. exact FuelEnoughProofs.select_stmt_text_fuel_enough_partial_lemma. Qed.
Print Assumptions select_stmt_text_fuel_enough_partial.

(* the drain of a planned statement, row mode: every shape *)
Theorem drain_planned_fuel_enough_row :
  forall (fo : fops) (re : bytes -> bytes -> res bool) (ag : SelectPlans.aggops fo) (pi pf : bytes -> option Z)
         (pl : PipelineS.splanned fo) (d : list (bytes * bytes)),
  FuelEnoughProofs.evals_answer fo re ag (PipelineS.sp_q fo pl) ->
  PipelineS.drain_planned fo re ag pi pf pl d Pipeline.MRow <> OutOfModel.
Proof. exact FuelEnoughProofs.drain_planned_fuel_enough_row. Qed.
Print Assumptions drain_planned_fuel_enough_row.

Theorem drain_planned_fuel_enough_batch_partial :
  forall (fo : fops) (re : bytes -> bytes -> res bool) (ag : SelectPlans.aggops fo) (pi pf : bytes -> option Z)
         (pl : PipelineS.splanned fo) (d : list (bytes * bytes)) (B : nat),
  1 <= B -> FuelEnoughProofs.lim_over_order (PipelineS.sp_shape fo pl) = false ->
  FuelEnoughProofs.evals_answer fo re ag (PipelineS.sp_q fo pl) ->
  PipelineS.drain_planned fo re ag pi pf pl d (Pipeline.MBatch B) <> OutOfModel.
Proof. exact FuelEnoughProofs.drain_planned_fuel_enough_batch_partial. Qed.
Print Assumptions drain_planned_fuel_enough_batch_partial.

(* the loops themselves, over ANY functions that never answer OutOfModel (nf anyv): the generic
   facts the three theorems above instantiate with the evaluator twins *)
Theorem drains_fuel_enough :
  forall (P R : Type) (frow : P -> res bool) (fbatch : list P -> res (list bool))
         (prow : P -> res R) (pbatch : list P -> res (list R)),
  (forall kv, frow kv <> OutOfModel) -> (forall ch, fbatch ch <> OutOfModel) ->
  (forall kv, prow kv <> OutOfModel) -> (forall ch, pbatch ch <> OutOfModel) ->
  forall (B start count : nat) (slots : list (option P)), 1 <= B ->
  ScanProj.drain_row frow prow slots <> OutOfModel /\
  ScanProj.drain_batch fbatch pbatch B slots <> OutOfModel /\
  LimitLazy.ldrain_row (ScanProj.proj_next frow prow) start count slots <> OutOfModel /\
  LimitLazy.ldrain_batch_fuel (ScanProj.proj_batch fbatch pbatch B) (SelectPlans.limit_fuel P slots)
                              B start count Limit.linit slots <> OutOfModel.
Proof. exact FuelEnoughProofs.drains_fuel_enough_lemma. Qed.
Print Assumptions drains_fuel_enough.

(* non-vacuity: a text whose run DOES end at the model boundary although the plan was built --
   json() is outside the evaluator twin -- so the theorem's right-hand alternative is the one
   that holds (batch mode, LIMIT over a projection); and a text inside the model that runs with
   exactly the fuel the theorems speak about *)
Example select_stmt_text_fuel_enough_nonvacuous :
  forall (fo : fops) (re : bytes -> bytes -> res bool) (fmt_v : F fo -> string)
         (ag : SelectPlans.aggops fo) (pi pf : bytes -> option Z),
  let d := [("a", "3"); ("ab", "1"); ("b", "2")] in
  let q1 := "select key, json(value) where key > '' limit 1" in
  let q2 := "select key, value where key > '' limit 1, 5" in
  PipelineS.select_stmt_text_st fo re fmt_v ag pi pf q1 d (Pipeline.MBatch 2) = PipelineS.STOom /\
  (exists pl, PipelineS.plan_stmt_text fo re fmt_v q1 = PipelineS.STOk pl /\
              FuelEnoughProofs.fuel_mode_ok fo pl (Pipeline.MBatch 2)) /\
  (exists rows, PipelineS.select_stmt_text_st fo re fmt_v ag pi pf q2 d (Pipeline.MBatch 2) = PipelineS.STOk rows /\
                List.length rows = 2).
Proof.
  intros. split; [vm_compute; reflexivity|]. split.
  - eexists. split; [vm_compute; reflexivity|]. split; [repeat constructor | vm_compute; reflexivity].
  - eexists. split; vm_compute; reflexivity.
Qed.
