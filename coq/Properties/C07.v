(* Properties/C07.v -- ORDER BY returns a sorted permutation of the unordered result.
   Only property theorems here, each closed by [exact <lemma>] and followed by Print Assumptions.

   Reading guide.  The twin (Model/Order.v) of FinalOrderPlan receives the rows its child
   yields WITHOUT the ORDER BY clause ([rows], or any chunking [bs] of them into non-empty
   batches) and the resolved order fields [ords] (column position, declared type, DESC flag).
   [parse_int]/[parse_float] stand for strconv (used by compareNumber on text operands) and
   are arbitrary.  [spec_le ords a b] (Spec/OrderSpec.v) is the property's "a is before or
   tied with b": lexicographic over the fields, each ascending or descending as written, text
   byte-wise, numbers by their exact value, false before true.  [homogeneous ords rows] says
   that in every sort column all rows hold one kind of value that fits the column's declared
   type (text / integers / floats without NaN / Booleans), or, in a number column, any mix of
   non-NaN floats and integers that binary64 represents exactly (|z| <= 2^53; the case of
   sum(value) being an integer in one group and a float in another, D16). *)
From Coq Require Import List String ZArith Bool Permutation Sorted.
Import ListNotations.
From KV Require Import Base.Bytes Model.Ast Model.Order Spec.OrderSpec Proofs.OrderProofs.
Local Open Scope list_scope.

(* row-at-a-time: draining terminates without panic; the result is a permutation of the
   child's rows whatever they hold, and sorted when the sort columns are homogeneous *)
Theorem order_sorted_perm :
  forall (parse_int parse_float : bytes -> option Z) (ords : list ofield) (rows : list row),
  exists out, drain_row parse_int parse_float ords rows = Some out /\
              Permutation out rows /\
              (homogeneous ords rows = true -> StronglySorted (spec_le ords) out).
Proof. exact drain_row_sorted_perm. Qed.
Print Assumptions order_sorted_perm.

(* batch mode: the same for every batch size and every chunking of the child's rows *)
Theorem order_sorted_perm_batch :
  forall (parse_int parse_float : bytes -> option Z) (ords : list ofield) (B : nat)
         (bs : list (list row)),
  Forall nonempty bs ->
  exists outs, drain_batch parse_int parse_float ords B bs = Some outs /\
               Forall nonempty outs /\
               Permutation (List.concat outs) (List.concat bs) /\
               (homogeneous ords (List.concat bs) = true ->
                StronglySorted (spec_le ords) (List.concat outs)).
Proof. exact drain_batch_sorted_perm. Qed.
Print Assumptions order_sorted_perm_batch.

(* both modes return the same sequence of rows *)
Theorem order_batch_row_agree :
  forall (parse_int parse_float : bytes -> option Z) (ords : list ofield) (B : nat)
         (bs : list (list row)),
  Forall nonempty bs ->
  exists outs, drain_batch parse_int parse_float ords B bs = Some outs /\
               drain_row parse_int parse_float ords (List.concat bs) = Some (List.concat outs).
Proof. exact drain_batch_row. Qed.
Print Assumptions order_batch_row_agree.

(* orderColumnsRow.Less is a strict weak order on homogeneous columns: irreflexive,
   transitive, and "neither is Less" is transitive *)
Theorem less_strict_weak :
  forall (parse_int parse_float : bytes -> option Z) (ords : list ofield) (a b c : row),
  homogeneous ords [a; b; c] = true ->
  less parse_int parse_float ords a a = false /\
  (less parse_int parse_float ords a b = true -> less parse_int parse_float ords b c = true ->
   less parse_int parse_float ords a c = true) /\
  (less parse_int parse_float ords a b = false -> less parse_int parse_float ords b a = false ->
   less parse_int parse_float ords b c = false -> less parse_int parse_float ords c b = false ->
   less parse_int parse_float ords a c = false /\ less parse_int parse_float ords c a = false).
Proof. exact less_strict_weak_order. Qed.
Print Assumptions less_strict_weak.

(* ... and there it is exactly "strictly before" of the specification *)
Theorem less_is_spec_lt :
  forall (parse_int parse_float : bytes -> option Z) (ords : list ofield) (rows : list row) (a b : row),
  homogeneous ords rows = true -> In a rows -> In b rows ->
  less parse_int parse_float ords a b = match spec_cmp ords a b with Lt => true | _ => false end.
Proof. exact less_spec_homogeneous. Qed.
Print Assumptions less_is_spec_lt.

(* the specification's order is a total preorder on all rows (so "sorted" means something) *)
Theorem spec_le_total_preorder :
  forall (ords : list ofield),
  (forall a, spec_le ords a a) /\
  (forall a b c, spec_le ords a b -> spec_le ords b c -> spec_le ords a c) /\
  (forall a b, spec_le ords a b \/ spec_le ords b a).
Proof. exact spec_le_preorder. Qed.
Print Assumptions spec_le_total_preorder.

(* the sign-magnitude encoding the twin compares floats by orders them as the numbers they
   denote *)
Theorem float_key_order :
  forall a b : Z, f_wf a = true -> f_wf b = true ->
  Z.compare (f_key a) (f_key b) = Z.compare (f_val a) (f_val b).
Proof. exact f_key_compare. Qed.
Print Assumptions float_key_order.

(* the twin's float64(int64) conversion is exact up to 2^53: the pattern it yields denotes
   the integer *)
Theorem int_to_float_exact :
  forall z : Z, (Z.abs z <= 2 ^ 53)%Z ->
  f_wf (float_of_int z) = true /\ f_is_nan (float_of_int z) = false /\
  f_val (float_of_int z) = Z.shiftl z 1074.
Proof. exact float_of_int_exact. Qed.
Print Assumptions int_to_float_exact.

(* [order by key asc] alone: the planner builds no order node ... *)
Theorem order_key_asc_elided :
  forall (ffp : final_plan) (name : string) (p : nat),
  build_final_order_plan ffp false [OrderField name (EField p KeyKW) false] = ffp.
Proof. exact build_elides_key_asc. Qed.
Print Assumptions order_key_asc_elided.

(* ... it drops nothing else ... *)
Theorem order_node_kept_otherwise :
  forall (ffp : final_plan) (has_aggr : bool) (orders : list order_field),
  build_final_order_plan ffp has_aggr orders = FOrder orders ffp \/
  (has_aggr = false /\ exists name p, orders = [OrderField name (EField p KeyKW) false]).
Proof. exact build_shape. Qed.
Print Assumptions order_node_kept_otherwise.

(* ... and on rows in natural key order (strictly ascending keys, what a scan delivers, C01)
   the node it drops would have returned its input unchanged: the natural order is kept *)
Theorem order_key_asc_keeps_natural_order :
  forall (parse_int parse_float : bytes -> option Z) (names : list string) (types : list type)
         (name : string) (p idx : nat) (rows : list row),
  find_order_idx names name 0 = Some idx ->
  nth idx types TUNKNOWN = TSTR ->
  key_ascending idx rows ->
  run_row parse_int parse_float (FOrder [OrderField name (EField p KeyKW) false] FChild) names types rows
    = Some rows /\
  run_row parse_int parse_float
      (build_final_order_plan FChild false [OrderField name (EField p KeyKW) false]) names types rows
    = Some rows.
Proof. exact key_asc_unobservable. Qed.
Print Assumptions order_key_asc_keeps_natural_order.

(* whole statement: whatever plan buildFinalOrderPlan puts on the child (order node, or nothing
   for [order by key asc] alone), the rows returned are a sorted permutation of the rows
   returned without ORDER BY; for the dropped node this rests on the child delivering its
   rows in natural key order, which is C01's theorem *)
Theorem select_order_by_sorted_perm :
  forall (parse_int parse_float : bytes -> option Z) (has_aggr : bool) (orders : list order_field)
         (names : list string) (types : list type) (ords : list ofield) (rows : list row),
  init_orders orders names types = Some ords ->
  (forall name p idx, has_aggr = false -> orders = [OrderField name (EField p KeyKW) false] ->
     find_order_idx names name 0 = Some idx ->
     nth idx types TUNKNOWN = TSTR /\ key_ascending idx rows) ->
  exists out,
    run_row parse_int parse_float (build_final_order_plan FChild has_aggr orders) names types rows
      = Some out /\
    Permutation out rows /\
    (homogeneous ords rows = true -> StronglySorted (spec_le ords) out).
Proof. exact statement_sorted_perm. Qed.
Print Assumptions select_order_by_sorted_perm.

(* rows already in the requested order pass through unchanged (ties keep their places) *)
Theorem order_sorted_input_unchanged :
  forall (parse_int parse_float : bytes -> option Z) (ords : list ofield) (rows : list row),
  homogeneous ords rows = true -> StronglySorted (spec_le ords) rows ->
  drain_row parse_int parse_float ords rows = Some rows.
Proof. exact drain_row_spec_sorted_input. Qed.
Print Assumptions order_sorted_input_unchanged.

(* ------------------------------------------------------------------ non-vacuity *)

Definition ex_ords : list ofield := [OField 1 TNUMBER true; OField 0 TSTR false].
Definition ex_rows : list row :=
  [ [VBytes "k1"; VInt 3]; [VBytes "k2"; VInt 10]; [VBytes "k3"; VInt 3]; [VBytes "k0"; VInt (-1)] ].

(* the hypotheses are met by a concrete input with ties, and the twin computes the expected
   order there: value desc, key asc *)
Example order_sorted_perm_nonvacuous :
  homogeneous ex_ords ex_rows = true /\
  drain_row (fun _ => None) (fun _ => None) ex_ords ex_rows =
    Some [ [VBytes "k2"; VInt 10]; [VBytes "k1"; VInt 3]; [VBytes "k3"; VInt 3]; [VBytes "k0"; VInt (-1)] ] /\
  drain_batch (fun _ => None) (fun _ => None) ex_ords 3 [[nth 0 ex_rows []; nth 1 ex_rows []]; [nth 2 ex_rows []; nth 3 ex_rows []]] =
    Some [ [ [VBytes "k2"; VInt 10]; [VBytes "k1"; VInt 3]; [VBytes "k3"; VInt 3] ]; [ [VBytes "k0"; VInt (-1)] ] ].
Proof. vm_compute. repeat split. Qed.

(* floats: -0.5 < -0 = +0 < 0.25 < +inf under the encoding *)
Example float_columns_nonvacuous :
  homogeneous [OField 0 TNUMBER false]
    [ [VFloat 4598175219545276416]; [VFloat 13826050856027422720]; [VFloat 9218868437227405312];
      [VFloat 9223372036854775808]; [VFloat 0] ] = true /\
  drain_row (fun _ => None) (fun _ => None) [OField 0 TNUMBER false]
    [ [VFloat 4598175219545276416]; [VFloat 13826050856027422720]; [VFloat 9218868437227405312];
      [VFloat 9223372036854775808]; [VFloat 0] ] =
  Some [ [VFloat 13826050856027422720]; [VFloat 9223372036854775808]; [VFloat 0];
         [VFloat 4598175219545276416]; [VFloat 9218868437227405312] ].
Proof. vm_compute. split; reflexivity. Qed.

(* a number column mixing integers and floats (what the fix: commit for D16 made sortable):
   2 (int) < 2.5 < 3 (int) = 3.0 *)
Example mixed_number_column_nonvacuous :
  homogeneous [OField 0 TNUMBER false]
    [ [VInt 3]; [VFloat 4612811918334230528]; [VInt 2]; [VFloat 4613937818241073152] ] = true /\
  drain_row (fun _ => None) (fun _ => None) [OField 0 TNUMBER false]
    [ [VInt 3]; [VFloat 4612811918334230528]; [VInt 2]; [VFloat 4613937818241073152] ] =
  Some [ [VInt 2]; [VFloat 4612811918334230528]; [VInt 3]; [VFloat 4613937818241073152] ].
Proof. vm_compute. split; reflexivity. Qed.

(* the natural-order hypothesis of the elision theorem is satisfiable *)
Example key_ascending_nonvacuous :
  key_ascending 0 [ [VBytes "a"; VBytes "2"]; [VBytes "ab"; VBytes "1"]; [VBytes "b"; VBytes "1"] ].
Proof.
  unfold key_ascending.
  repeat (constructor; [|repeat (constructor; try (do 2 eexists; repeat split; reflexivity))]);
  try constructor.
Qed.

(* ------------------------------------------------------------------ the pinned code (D16) *)

(* Before the fix: commit the compare* functions asserted the right operand to the dynamic
   type of the left one: a number column holding an integer and a float (sum(value) over
   "1","2" in one group and "2.5" in another), or a JSON field holding a string in one row and
   a number in another, made Less panic.  The fixed functions order them. *)
Theorem order_mixed_numbers_pinned_refuted :
  compare_number_pinned (VInt 3) (VFloat 4612811918334230528) false = None /\
  compare (fun _ => None) (fun _ => None) TNUMBER (VInt 3) (VFloat 4612811918334230528) false = Gt.
Proof. exact pinned_numbers_refuted. Qed.
Print Assumptions order_mixed_numbers_pinned_refuted.

Theorem order_mixed_json_pinned_refuted :
  compare_bytes_pinned (VStr "s") (VFloat 4607182418800017408) false = None /\
  compare (fun _ => None) (fun _ => None) TSTR (VStr "s") (VFloat 4607182418800017408) false = Eq.
Proof. exact pinned_json_refuted. Qed.
Print Assumptions order_mixed_json_pinned_refuted.

(* ================================================================== ORDER BY FROM THE QUERY TEXT
   (appended; Model/PipelineS.v, Proofs/PipelineSProofs.v).  The statement is the TEXT; the plan is
   what the twin of NewOptimizer(q).BuildPlan builds for it (tied to the Go code on every run by
   C03's text correspondence, harness/c03.go part F).  [ords] are the order fields FinalOrderPlan.Init
   resolves: for every ORDER BY item the position of the FIRST field of that name, its declared
   type (taken from the checked field), the DESC flag. *)
From KV Require Import Model.Value Model.SelectPlans Model.Pipeline Model.PipelineS Proofs.PipelineSProofs.
From KV Require Model.Storage Model.ScanIO.

(* ORDER BY from the text (no LIMIT on top), row mode: the rows are a permutation of the rows the
   node under the order node -- ProjectionPlan or AggregatePlan, [ch] -- delivers, i.e. of the rows of
   the same plan without ORDER BY, and sorted under the requested keys whenever the sort columns are
   homogeneous *)
Theorem order_by_text_sorted_permutation :
  forall (fo : fops) (re : bytes -> bytes -> res bool) (fmt_v : F fo -> string) (ag : aggops fo)
         (pi pf : bytes -> option Z) (q : string) (d : Storage.store) (pl : splanned fo)
         (os : list order_field) (ch : shape) (out : list row),
  plan_stmt_text fo re fmt_v q = STOk pl ->
  sp_shape fo pl = SOrder os ch ->
  select_stmt_text fo re fmt_v ag pi pf q d MRow = TOk out ->
  exists ords rows,
    init_orders os (SelectPlans.s_names (F fo) (q_stmt fo (sp_q fo pl)))
                   (SelectPlans.s_types (F fo) (q_stmt fo (sp_q fo pl))) = Some ords /\
    select_shape_row fo re ag pi pf (sp_q fo pl) ch (scan_slots (sp_scan fo pl) d) = Ok rows /\
    Permutation out rows /\
    (homogeneous ords rows = true -> StronglySorted (spec_le ords) out).
Proof. exact PipelineSProofs.order_by_text_sorted_permutation. Qed.
Print Assumptions order_by_text_sorted_permutation.

(* ORDER BY ... LIMIT s, n from the text, row mode: rows s .. s+n-1 of a sorted permutation of the
   rows under the order node *)
Theorem order_by_limit_text_sorted_slice :
  forall (fo : fops) (re : bytes -> bytes -> res bool) (fmt_v : F fo -> string) (ag : aggops fo)
         (pi pf : bytes -> option Z) (q : string) (d : Storage.store) (pl : splanned fo)
         (os : list order_field) (ch : shape) (s n : nat) (ords : list ofield) (rows : list row),
  plan_stmt_text fo re fmt_v q = STOk pl ->
  sp_shape fo pl = SLimit s n (SOrder os ch) ->
  init_orders os (SelectPlans.s_names (F fo) (q_stmt fo (sp_q fo pl)))
                 (SelectPlans.s_types (F fo) (q_stmt fo (sp_q fo pl))) = Some ords ->
  select_shape_row fo re ag pi pf (sp_q fo pl) ch (scan_slots (sp_scan fo pl) d) = Ok rows ->
  exists sorted,
    select_stmt_text fo re fmt_v ag pi pf q d MRow = TOk (slice s n sorted) /\
    Permutation sorted rows /\
    (homogeneous ords rows = true -> StronglySorted (spec_le ords) sorted).
Proof. exact PipelineSProofs.order_by_limit_text_sorted_slice. Qed.
Print Assumptions order_by_limit_text_sorted_slice.

(* `order by key asc` alone over a projection, from the text: the plan is the plan of the statement
   without ORDER BY (the rows then come in the scan's key order: order_key_asc_keeps_natural_order above) *)
Theorem order_by_key_asc_text_elided :
  forall (fo : fops) (re : bytes -> bytes -> res bool) (fmt_v : F fo -> string) (q : string)
         (pl : splanned fo) (name : string) (p : nat),
  plan_stmt_text fo re fmt_v q = STOk pl ->
  is_agg fo pl = false ->
  SelectPlans.s_order (F fo) (q_stmt fo (sp_q fo pl)) = Some [OrderField name (EField p KeyKW) false] ->
  sp_shape fo pl = build_final_plan false None (SelectPlans.s_limit (F fo) (q_stmt fo (sp_q fo pl))).
Proof. exact PipelineSProofs.order_by_key_asc_text_elided. Qed.
Print Assumptions order_by_key_asc_text_elided.
(* FULL STATEMENT NOT PROVED HERE (kept as a comment): for `order by key asc` alone the rows are sorted
   by key.  It needs "the slots of every scan come in strictly ascending key order for a sorted,
   duplicate-free store" for Model/PipelineS.v scan_slots, which is C01's theorem for select * only. *)

(* non-vacuity: ORDER BY over a duplicate field name (the FIRST n sorts), descending, ties broken
   by key; the sort columns are homogeneous; the rows under the order node are the projection's *)
Local Open Scope string_scope.
Definition ps7_store : Storage.store := [("a", "3"); ("ab", "1"); ("b", "2"); ("c", "1")].
Definition ps7_q : string := "select key, int(value) as n, strlen(key) as n where key > '' order by n desc, key".

Example order_by_text_nonvacuous :
  forall (fo : fops) (re : bytes -> bytes -> res bool) (fmt_v : F fo -> string) (ag : aggops fo)
         (pi pf : bytes -> option Z),
  exists pl os,
    plan_stmt_text fo re fmt_v ps7_q = STOk pl /\ sp_shape fo pl = SOrder os SProj /\
    init_orders os (SelectPlans.s_names (F fo) (q_stmt fo (sp_q fo pl))) (SelectPlans.s_types (F fo) (q_stmt fo (sp_q fo pl)))
      = Some [OField 1 TNUMBER true; OField 0 TSTR false] /\
    select_shape_row fo re ag pi pf (sp_q fo pl) SProj (scan_slots (sp_scan fo pl) ps7_store)
      = Ok [[Order.VBytes "a"; Order.VInt 3; Order.VInt 1]; [Order.VBytes "ab"; Order.VInt 1; Order.VInt 2]; [Order.VBytes "b"; Order.VInt 2; Order.VInt 1]; [Order.VBytes "c"; Order.VInt 1; Order.VInt 1]] /\
    homogeneous [OField 1 TNUMBER true; OField 0 TSTR false]
      [[Order.VBytes "a"; Order.VInt 3; Order.VInt 1]; [Order.VBytes "ab"; Order.VInt 1; Order.VInt 2]; [Order.VBytes "b"; Order.VInt 2; Order.VInt 1]; [Order.VBytes "c"; Order.VInt 1; Order.VInt 1]] = true /\
    select_stmt_text fo re fmt_v ag pi pf ps7_q ps7_store MRow
      = TOk [[Order.VBytes "a"; Order.VInt 3; Order.VInt 1]; [Order.VBytes "b"; Order.VInt 2; Order.VInt 1]; [Order.VBytes "ab"; Order.VInt 1; Order.VInt 2]; [Order.VBytes "c"; Order.VInt 1; Order.VInt 1]].
Proof.
  intros. do 2 eexists. split; [vm_compute; reflexivity|]. split; [vm_compute; reflexivity|].
  repeat split; vm_compute; reflexivity.
Qed.
