(* Properties/C07.v -- ORDER BY returns a sorted permutation of the unordered result.
   Only property theorems here, each closed by [exact <lemma>] and followed by Print Assumptions.

   Reading guide.  The twin (Model/Order.v) of FinalOrderPlan receives the rows its child
   yields WITHOUT the ORDER BY clause ([rows], or any chunking [bs] of them into non-empty
   batches) and the resolved order fields [ords] (column position, declared type, DESC flag).
   [parse_int]/[parse_float] stand for strconv (used by compareNumber on text operands) and
   are arbitrary.  [spec_le ords a b] (Spec/OrderSpec.v) is the property's "a is before or
   tied with b": lexicographic over the fields, each ascending or descending as written, text
   byte-wise, numbers by their exact value, false before true.  [homogeneous ords rows] says
   that in every sort column all rows hold one kind of value that fits the column's declared
   type (text / integers / floats without NaN / Booleans), or, in a number column, any mix of
   non-NaN floats and integers that binary64 represents exactly (|z| <= 2^53; the case of
   sum(value) being an integer in one group and a float in another, D16). *)
From Coq Require Import List String ZArith Bool Permutation Sorted.
Import ListNotations.
From KV Require Import Base.Bytes Model.Ast Model.Order Spec.OrderSpec Proofs.OrderProofs.
Local Open Scope list_scope.

(* row-at-a-time: draining terminates without panic; the result is a permutation of the
   child's rows whatever they hold, and sorted when the sort columns are homogeneous *)
Theorem order_sorted_perm :
  forall (parse_int parse_float : bytes -> option Z) (ords : list ofield) (rows : list row),
  exists out, drain_row parse_int parse_float ords rows = Some out /\
              Permutation out rows /\
              (homogeneous ords rows = true -> StronglySorted (spec_le ords) out).
Proof. exact drain_row_sorted_perm. Qed.
Print Assumptions order_sorted_perm.

(* batch mode: the same for every batch size and every chunking of the child's rows *)
Theorem order_sorted_perm_batch :
  forall (parse_int parse_float : bytes -> option Z) (ords : list ofield) (B : nat)
         (bs : list (list row)),
  Forall nonempty bs ->
  exists outs, drain_batch parse_int parse_float ords B bs = Some outs /\
               Forall nonempty outs /\
               Permutation (List.concat outs) (List.concat bs) /\
               (homogeneous ords (List.concat bs) = true ->
                StronglySorted (spec_le ords) (List.concat outs)).
Proof. exact drain_batch_sorted_perm. Qed.
Print Assumptions order_sorted_perm_batch.

(* both modes return the same sequence of rows *)
Theorem order_batch_row_agree :
  forall (parse_int parse_float : bytes -> option Z) (ords : list ofield) (B : nat)
         (bs : list (list row)),
  Forall nonempty bs ->
  exists outs, drain_batch parse_int parse_float ords B bs = Some outs /\
               drain_row parse_int parse_float ords (List.concat bs) = Some (List.concat outs).
Proof. exact drain_batch_row. Qed.
Print Assumptions order_batch_row_agree.

(* orderColumnsRow.Less is a strict weak order on homogeneous columns: irreflexive,
   transitive, and "neither is Less" is transitive *)
Theorem less_strict_weak :
  forall (parse_int parse_float : bytes -> option Z) (ords : list ofield) (a b c : row),
  homogeneous ords [a; b; c] = true ->
  less parse_int parse_float ords a a = false /\
  (less parse_int parse_float ords a b = true -> less parse_int parse_float ords b c = true ->
   less parse_int parse_float ords a c = true) /\
  (less parse_int parse_float ords a b = false -> less parse_int parse_float ords b a = false ->
   less parse_int parse_float ords b c = false -> less parse_int parse_float ords c b = false ->
   less parse_int parse_float ords a c = false /\ less parse_int parse_float ords c a = false).
Proof. exact less_strict_weak_order. Qed.
Print Assumptions less_strict_weak.

(* ... and there it is exactly "strictly before" of the specification *)
Theorem less_is_spec_lt :
  forall (parse_int parse_float : bytes -> option Z) (ords : list ofield) (rows : list row) (a b : row),
  homogeneous ords rows = true -> In a rows -> In b rows ->
  less parse_int parse_float ords a b = match spec_cmp ords a b with Lt => true | _ => false end.
Proof. exact less_spec_homogeneous. Qed.
Print Assumptions less_is_spec_lt.

(* the specification's order is a total preorder on all rows (so "sorted" means something) *)
Theorem spec_le_total_preorder :
  forall (ords : list ofield),
  (forall a, spec_le ords a a) /\
  (forall a b c, spec_le ords a b -> spec_le ords b c -> spec_le ords a c) /\
  (forall a b, spec_le ords a b \/ spec_le ords b a).
Proof. exact spec_le_preorder. Qed.
Print Assumptions spec_le_total_preorder.

(* the sign-magnitude encoding the twin compares floats by orders them as the numbers they
   denote *)
Theorem float_key_order :
  forall a b : Z, f_wf a = true -> f_wf b = true ->
  Z.compare (f_key a) (f_key b) = Z.compare (f_val a) (f_val b).
Proof. exact f_key_compare. Qed.
Print Assumptions float_key_order.

(* the twin's float64(int64) conversion is exact up to 2^53: the pattern it yields denotes
   the integer *)
Theorem int_to_float_exact :
  forall z : Z, (Z.abs z <= 2 ^ 53)%Z ->
  f_wf (float_of_int z) = true /\ f_is_nan (float_of_int z) = false /\
  f_val (float_of_int z) = Z.shiftl z 1074.
Proof. exact float_of_int_exact. Qed.
Print Assumptions int_to_float_exact.

(* [order by key asc] alone: the planner builds no order node ... *)
Theorem order_key_asc_elided :
  forall (ffp : final_plan) (name : string) (p : nat),
  build_final_order_plan ffp false [OrderField name (EField p KeyKW) false] = ffp.
Proof. exact build_elides_key_asc. Qed.
Print Assumptions order_key_asc_elided.

(* ... it drops nothing else ... *)
Theorem order_node_kept_otherwise :
  forall (ffp : final_plan) (has_aggr : bool) (orders : list order_field),
  build_final_order_plan ffp has_aggr orders = FOrder orders ffp \/
  (has_aggr = false /\ exists name p, orders = [OrderField name (EField p KeyKW) false]).
Proof. exact build_shape. Qed.
Print Assumptions order_node_kept_otherwise.

(* ... and on rows in natural key order (strictly ascending keys, what a scan delivers, C01)
   the node it drops would have returned its input unchanged: the natural order is kept *)
Theorem order_key_asc_keeps_natural_order :
  forall (parse_int parse_float : bytes -> option Z) (names : list string) (types : list type)
         (name : string) (p idx : nat) (rows : list row),
  find_order_idx names name 0 = Some idx ->
  nth idx types TUNKNOWN = TSTR ->
  key_ascending idx rows ->
  run_row parse_int parse_float (FOrder [OrderField name (EField p KeyKW) false] FChild) names types rows
    = Some rows /\
  run_row parse_int parse_float
      (build_final_order_plan FChild false [OrderField name (EField p KeyKW) false]) names types rows
    = Some rows.
Proof. exact key_asc_unobservable. Qed.
Print Assumptions order_key_asc_keeps_natural_order.

(* whole statement: whatever plan buildFinalOrderPlan puts on the child (order node, or nothing
   for [order by key asc] alone), the rows returned are a sorted permutation of the rows
   returned without ORDER BY; for the dropped node this rests on the child delivering its
   rows in natural key order, which is C01's theorem *)
Theorem select_order_by_sorted_perm :
  forall (parse_int parse_float : bytes -> option Z) (has_aggr : bool) (orders : list order_field)
         (names : list string) (types : list type) (ords : list ofield) (rows : list row),
  init_orders orders names types = Some ords ->
  (forall name p idx, has_aggr = false -> orders = [OrderField name (EField p KeyKW) false] ->
     find_order_idx names name 0 = Some idx ->
     nth idx types TUNKNOWN = TSTR /\ key_ascending idx rows) ->
  exists out,
    run_row parse_int parse_float (build_final_order_plan FChild has_aggr orders) names types rows
      = Some out /\
    Permutation out rows /\
    (homogeneous ords rows = true -> StronglySorted (spec_le ords) out).
Proof. exact statement_sorted_perm. Qed.
Print Assumptions select_order_by_sorted_perm.

(* rows already in the requested order pass through unchanged (ties keep their places) *)
Theorem order_sorted_input_unchanged :
  forall (parse_int parse_float : bytes -> option Z) (ords : list ofield) (rows : list row),
  homogeneous ords rows = true -> StronglySorted (spec_le ords) rows ->
  drain_row parse_int parse_float ords rows = Some rows.
Proof. exact drain_row_spec_sorted_input. Qed.
Print Assumptions order_sorted_input_unchanged.

(* ------------------------------------------------------------------ non-vacuity *)

Definition ex_ords : list ofield := [OField 1 TNUMBER true; OField 0 TSTR false].
Definition ex_rows : list row :=
  [ [VBytes "k1"; VInt 3]; [VBytes "k2"; VInt 10]; [VBytes "k3"; VInt 3]; [VBytes "k0"; VInt (-1)] ].

(* the hypotheses are met by a concrete input with ties, and the twin computes the expected
   order there: value desc, key asc *)
Example order_sorted_perm_nonvacuous :
  homogeneous ex_ords ex_rows = true /\
  drain_row (fun _ => None) (fun _ => None) ex_ords ex_rows =
    Some [ [VBytes "k2"; VInt 10]; [VBytes "k1"; VInt 3]; [VBytes "k3"; VInt 3]; [VBytes "k0"; VInt (-1)] ] /\
  drain_batch (fun _ => None) (fun _ => None) ex_ords 3 [[nth 0 ex_rows []; nth 1 ex_rows []]; [nth 2 ex_rows []; nth 3 ex_rows []]] =
    Some [ [ [VBytes "k2"; VInt 10]; [VBytes "k1"; VInt 3]; [VBytes "k3"; VInt 3] ]; [ [VBytes "k0"; VInt (-1)] ] ].
Proof. vm_compute. repeat split. Qed.

(* floats: -0.5 < -0 = +0 < 0.25 < +inf under the encoding *)
Example float_columns_nonvacuous :
  homogeneous [OField 0 TNUMBER false]
    [ [VFloat 4598175219545276416]; [VFloat 13826050856027422720]; [VFloat 9218868437227405312];
      [VFloat 9223372036854775808]; [VFloat 0] ] = true /\
  drain_row (fun _ => None) (fun _ => None) [OField 0 TNUMBER false]
    [ [VFloat 4598175219545276416]; [VFloat 13826050856027422720]; [VFloat 9218868437227405312];
      [VFloat 9223372036854775808]; [VFloat 0] ] =
  Some [ [VFloat 13826050856027422720]; [VFloat 9223372036854775808]; [VFloat 0];
         [VFloat 4598175219545276416]; [VFloat 9218868437227405312] ].
Proof. vm_compute. split; reflexivity. Qed.

(* a number column mixing integers and floats (what the fix: commit for D16 made sortable):
   2 (int) < 2.5 < 3 (int) = 3.0 *)
Example mixed_number_column_nonvacuous :
  homogeneous [OField 0 TNUMBER false]
    [ [VInt 3]; [VFloat 4612811918334230528]; [VInt 2]; [VFloat 4613937818241073152] ] = true /\
  drain_row (fun _ => None) (fun _ => None) [OField 0 TNUMBER false]
    [ [VInt 3]; [VFloat 4612811918334230528]; [VInt 2]; [VFloat 4613937818241073152] ] =
  Some [ [VInt 2]; [VFloat 4612811918334230528]; [VInt 3]; [VFloat 4613937818241073152] ].
Proof. vm_compute. split; reflexivity. Qed.

(* the natural-order hypothesis of the elision theorem is satisfiable *)
Example key_ascending_nonvacuous :
  key_ascending 0 [ [VBytes "a"; VBytes "2"]; [VBytes "ab"; VBytes "1"]; [VBytes "b"; VBytes "1"] ].
Proof.
  unfold key_ascending.
  repeat (constructor; [|repeat (constructor; try (do 2 eexists; repeat split; reflexivity))]);
  try constructor.
Qed.

(* ------------------------------------------------------------------ the pinned code (D16) *)

(* Before the fix: commit the compare* functions asserted the right operand to the dynamic
   type of the left one: a number column holding an integer and a float (sum(value) over
   "1","2" in one group and "2.5" in another), or a JSON field holding a string in one row and
   a number in another, made Less panic.  The fixed functions order them. *)
Theorem order_mixed_numbers_pinned_refuted :
  compare_number_pinned (VInt 3) (VFloat 4612811918334230528) false = None /\
  compare (fun _ => None) (fun _ => None) TNUMBER (VInt 3) (VFloat 4612811918334230528) false = Gt.
Proof. exact pinned_numbers_refuted. Qed.
Print Assumptions order_mixed_numbers_pinned_refuted.

Theorem order_mixed_json_pinned_refuted :
  compare_bytes_pinned (VStr "s") (VFloat 4607182418800017408) false = None /\
  compare (fun _ => None) (fun _ => None) TSTR (VStr "s") (VFloat 4607182418800017408) false = Eq.
Proof. exact pinned_json_refuted. Qed.
Print Assumptions order_mixed_json_pinned_refuted.
