(* Properties/C08.v -- LIMIT returns exactly the requested slice of the unlimited result.
   Only property theorems here, each closed by [exact <lemma>] and followed by Print Assumptions. *)
From Coq Require Import List Arith.
Import ListNotations.
From KV Require Import Model.Limit Proofs.LimitProofs.

(* row-at-a-time: for every offset, count and child output *)
Theorem limit_row_slice : forall (A : Type) (start count : nat) (rows : list A),
  drain_row start count rows = Some (firstn count (skipn start rows)).
Proof. exact drain_row_slice. Qed.
Print Assumptions limit_row_slice.

(* batch mode: for every offset, count, batch-size setting B and EVERY chunking [bs] of the
   child's output into non-empty batches (LimitPlan, FinalLimitPlan and the skip/limit logic
   pushed down into AggregatePlan are this same code).  Draining terminates (Some), never
   yields an empty batch before the end, and the concatenation is the slice. *)
Theorem limit_batch_slice : forall (A : Type) (B start count : nat) (bs : list (list A)),
  Forall nonempty bs ->
  exists outs, drain_batch true B start count bs = Some outs /\
               concat outs = firstn count (skipn start (concat bs)) /\
               Forall nonempty outs.
Proof. exact drain_batch_slice. Qed.
Print Assumptions limit_batch_slice.

(* both modes agree on the limit node *)
Theorem limit_batch_row_agree : forall (A : Type) (B start count : nat) (bs : list (list A)),
  Forall nonempty bs ->
  exists outs, drain_batch true B start count bs = Some outs /\
               drain_row start count (concat bs) = Some (concat outs).
Proof. exact limit_batch_row. Qed.
Print Assumptions limit_batch_row_agree.

(* an offset or count beyond the end of the result selects the same slice as length+1 (this is
   how `limit s, 9223372036854775807` is handed to the twin by the correspondence; the
   machine-integer arithmetic of the Go code itself is MODELLED as unbounded nat, the
   correspondence runs the huge values) *)
Theorem slice_saturates : forall (A : Type) (start count : nat) (rows : list A),
  firstn count (skipn start rows) =
  firstn (Nat.min count (S (length rows))) (skipn (Nat.min start (S (length rows))) rows).
Proof. exact slice_saturates_lemma. Qed.
Print Assumptions slice_saturates.

(* non-vacuity: the hypotheses are met by a concrete non-trivial stream, and the statement
   computes to the expected slice there *)
Example limit_batch_slice_nonvacuous :
  Forall nonempty [[1;2];[3];[4;5;6]] /\
  drain_batch true 2 2 3 [[1;2];[3];[4;5;6]] = Some [[3;4;5]].
Proof. split; [repeat constructor; unfold nonempty; congruence | reflexivity]. Qed.

(* the statement is false of the pinned (pre-fix) step function: regression witness for D5 *)
Theorem limit_batch_slice_pinned_refuted :
  exists (B start count : nat) (bs : list (list nat)),
    Forall nonempty bs /\
    match drain_batch false B start count bs with
    | Some outs => concat outs <> firstn count (skipn start (concat bs))
    | None => True
    end.
Proof. exact limit_batch_slice_refuted. Qed.
Print Assumptions limit_batch_slice_pinned_refuted.

(* ================================================================== LIMIT FROM THE QUERY TEXT
   (appended; Model/PipelineS.v, Proofs/PipelineSProofs.v).  The statement is the TEXT; the plan is
   what the twin of NewOptimizer(q).BuildPlan builds for it (tied to the Go code on every run by
   C03's text correspondence, harness/c03.go part F). *)
From Coq Require Import String ZArith.
From KV Require Import Base.Bytes Model.Value Model.SelectPlans Model.Pipeline Model.PipelineS Proofs.PipelineSProofs.
From KV Require Model.Storage Model.Order Proofs.BatchRowProofs Proofs.SelectPlansProofs.

(* LIMIT s, n from the text, row mode: whenever the SAME plan without its LIMIT clause completes with
   [all], the statement returns exactly rows s .. s+n-1 of [all] ([slice s n all] = firstn n (skipn s
   all)) -- whichever way buildFinalPlan placed the limit: FinalLimitPlan on top of the projection, on
   top of the FinalOrderPlan, or pushed into the AggregatePlan (no ORDER BY).  Not conversely by
   design: the limited plan pulls its child lazily and also completes where a pair / a group beyond
   the limit fails. *)
Theorem limit_text_slice :
  forall (fo : fops) (re : bytes -> bytes -> res bool) (fmt_v : F fo -> string) (ag : aggops fo)
         (pi pf : bytes -> option Z) (q : string) (d : Storage.store) (pl : splanned fo) (s n : nat)
         (all : list Order.row),
  plan_stmt_text fo re fmt_v q = STOk pl ->
  SelectPlans.s_limit (F fo) (q_stmt fo (sp_q fo pl)) = Some (s, n) ->
  select_shape_row fo re ag pi pf (no_limit fo (sp_q fo pl))
                   (stmt_shape (F fo) (q_stmt fo (no_limit fo (sp_q fo pl))))
                   (scan_slots (sp_scan fo pl) d) = Ok all ->
  select_stmt_text fo re fmt_v ag pi pf q d MRow = TOk (slice s n all).
Proof. exact PipelineSProofs.limit_text_slice. Qed.
Print Assumptions limit_text_slice.

(* batch mode, every B >= 1: a batch drain that completes returns the same slice (up to string /
   []byte: nrows); premise fields_ok as in C03 *)
Theorem limit_text_slice_batch :
  forall (fo : fops) (re : bytes -> bytes -> res bool) (fmt_v : F fo -> string) (ag : aggops fo)
         (pi pf : bytes -> option Z) (q : string) (d : Storage.store) (pl : splanned fo) (B s n : nat)
         (all outs : list Order.row),
  1 <= B ->
  plan_stmt_text fo re fmt_v q = STOk pl ->
  BatchRowProofs.fields_ok (q_fields fo (sp_q fo pl)) ->
  SelectPlans.s_limit (F fo) (q_stmt fo (sp_q fo pl)) = Some (s, n) ->
  select_shape_row fo re ag pi pf (no_limit fo (sp_q fo pl))
                   (stmt_shape (F fo) (q_stmt fo (no_limit fo (sp_q fo pl))))
                   (scan_slots (sp_scan fo pl) d) = Ok all ->
  select_stmt_text fo re fmt_v ag pi pf q d (MBatch B) = TOk outs ->
  SelectPlansProofs.nrows outs = SelectPlansProofs.nrows (slice s n all).
Proof. exact PipelineSProofs.limit_text_slice_batch. Qed.
Print Assumptions limit_text_slice_batch.

(* non-vacuity: LIMIT 1, 2 on top of ORDER BY, and LIMIT 1, 5 pushed into the AggregatePlan; the
   unlimited plans complete, and the statements return the slices *)
Local Open Scope string_scope.
Definition ps8_store : Storage.store := [("a", "3"); ("ab", "1"); ("b", "2"); ("c", "1")].
Definition ps8_q1 : string := "select key, int(value) as n where key > '' order by n desc, key limit 1, 2".
Definition ps8_q2 : string := "select value as g, count(1) as c where key > '' group by g limit 1, 5".

Example limit_text_slice_nonvacuous :
  forall (fo : fops) (re : bytes -> bytes -> res bool) (fmt_v : F fo -> string) (ag : aggops fo)
         (pi pf : bytes -> option Z),
  (exists pl, plan_stmt_text fo re fmt_v ps8_q1 = STOk pl /\
     SelectPlans.s_limit (F fo) (q_stmt fo (sp_q fo pl)) = Some (1, 2) /\
     select_shape_row fo re ag pi pf (no_limit fo (sp_q fo pl)) (stmt_shape (F fo) (q_stmt fo (no_limit fo (sp_q fo pl))))
                      (scan_slots (sp_scan fo pl) ps8_store)
       = Ok [[Order.VBytes "a"; Order.VInt 3]; [Order.VBytes "b"; Order.VInt 2];
             [Order.VBytes "ab"; Order.VInt 1]; [Order.VBytes "c"; Order.VInt 1]]) /\
  select_stmt_text fo re fmt_v ag pi pf ps8_q1 ps8_store MRow =
    TOk [[Order.VBytes "b"; Order.VInt 2]; [Order.VBytes "ab"; Order.VInt 1]] /\
  (exists pl, plan_stmt_text fo re fmt_v ps8_q2 = STOk pl /\
     sp_shape fo pl = SAgg 1 (Some 5) /\
     select_shape_row fo re ag pi pf (no_limit fo (sp_q fo pl)) (stmt_shape (F fo) (q_stmt fo (no_limit fo (sp_q fo pl))))
                      (scan_slots (sp_scan fo pl) ps8_store)
       = Ok [[Order.VBytes "3"; Order.VInt 1]; [Order.VBytes "1"; Order.VInt 2]; [Order.VBytes "2"; Order.VInt 1]]) /\
  select_stmt_text fo re fmt_v ag pi pf ps8_q2 ps8_store MRow =
    TOk [[Order.VBytes "1"; Order.VInt 2]; [Order.VBytes "2"; Order.VInt 1]].
Proof.
  intros. split.
  { eexists. split; [vm_compute; reflexivity|]. split; vm_compute; reflexivity. }
  split; [vm_compute; reflexivity|]. split; [|vm_compute; reflexivity].
  eexists. split; [vm_compute; reflexivity|]. split; vm_compute; reflexivity.
Qed.

(* ================================================================== MACHINE INTEGERS
   (appended; Model/Limit64.v = limit_plan.go / the skip-limit code of aggregate_plan.go with every
   Go int a [Z] and every sum / difference the Go code forms wrapped to int64 by Base.Num.wrap64;
   Proofs/Limit64Proofs.v).  The theorems above are about Model/Limit.v, whose counters are
   unbounded [nat]; these close that gap: for every Start, Count in 0 .. 2^63-1 (everything
   parseLimit can produce: a NUMBER token is a text strconv.ParseInt accepts, Limit64Parse below),
   every PlanBatchSize (any int) and every child stream with fewer than 2^63 rows, the machine twin
   returns exactly what the unbounded twin returns -- no value the code forms (skips++, current++,
   Start - skips, skips += nrows, skips += restSkips, count++) leaves the int64 range; the code
   forms no Start + Count.  The machine twin is run UNCLAMPED on offsets and counts up to 2^63-1
   by the correspondence (Corr/C08M.v). *)
From KV Require Import Base.Num Model.Limit64 Proofs.Limit64Proofs.

Theorem limit64_refines_nat : forall (A : Type) (B s n : Z) (bs : list (list A)),
  (0 <= s < 2 ^ 63)%Z -> (0 <= n < 2 ^ 63)%Z -> (Z.of_nat (tot bs) < 2 ^ 63)%Z ->
  drain_batch64 B s n bs = drain_batch true (Z.to_nat B) (Z.to_nat s) (Z.to_nat n) bs.
Proof. exact limit64_refines_nat_lemma. Qed.
Print Assumptions limit64_refines_nat.

(* row mode: no premise on the child at all *)
Theorem limit64_row_refines_nat : forall (A : Type) (s n : Z) (rows : list A),
  (0 <= s < 2 ^ 63)%Z -> (0 <= n < 2 ^ 63)%Z ->
  drain_row64 s n rows = drain_row (Z.to_nat s) (Z.to_nat n) rows.
Proof. exact limit64_row_refines_nat_lemma. Qed.
Print Assumptions limit64_row_refines_nat.

(* the C08 statement over the machine twin (LimitPlan / FinalLimitPlan .Batch drained) *)
Theorem limit_machine_slice : forall (A : Type) (B s n : Z) (bs : list (list A)),
  (0 <= s < 2 ^ 63)%Z -> (0 <= n < 2 ^ 63)%Z -> (Z.of_nat (tot bs) < 2 ^ 63)%Z ->
  Forall nonempty bs ->
  exists outs, drain_batch64 B s n bs = Some outs /\
               List.concat outs = firstn (Z.to_nat n) (skipn (Z.to_nat s) (List.concat bs)) /\
               Forall nonempty outs.
Proof. exact limit_machine_batch_slice. Qed.
Print Assumptions limit_machine_slice.

(* ... .Next drained *)
Theorem limit_machine_slice_row : forall (A : Type) (s n : Z) (rows : list A),
  (0 <= s < 2 ^ 63)%Z -> (0 <= n < 2 ^ 63)%Z ->
  drain_row64 s n rows = Some (firstn (Z.to_nat n) (skipn (Z.to_nat s) rows)).
Proof. exact limit_machine_row_slice. Qed.
Print Assumptions limit_machine_slice_row.

(* the skip / limit pushed into AggregatePlan (fields Start, Limit; Limit = -1: no limit, every
   prepared row is served and Start is ignored) *)
Theorem aggr_machine_slice : forall (A : Type) (B s n : Z) (bs : list (list A)),
  (s < 2 ^ 63)%Z -> (n < 2 ^ 63)%Z -> (Z.of_nat (tot bs) < 2 ^ 63)%Z ->
  Forall nonempty bs ->
  exists outs, agg_drain_batch64 B s n bs = Some outs /\
               List.concat outs = agg_slice s n (List.concat bs) /\
               Forall nonempty outs.
Proof. exact agg_machine_batch_slice_all. Qed.
Print Assumptions aggr_machine_slice.

Theorem aggr_machine_slice_row : forall (A : Type) (s n : Z) (rows : list A),
  (s < 2 ^ 63)%Z -> (n < 2 ^ 63)%Z ->
  agg_drain_row64 s n rows = Some (agg_slice s n rows).
Proof. exact agg_machine_row_slice_all. Qed.
Print Assumptions aggr_machine_slice_row.

(* non-vacuity at the extremes: `limit 9223372036854775807, 9223372036854775807`,
   `limit 1, 9223372036854775807`, `limit 0, 9223372036854775807` meet the premises and the machine
   twin computes the slices there (nothing is clamped) *)
Example limit_machine_slice_extremes :
  let m := (2 ^ 63 - 1)%Z in
  let bs := [[1; 2]; [3]; [4; 5; 6]]%nat in
  ((0 <= m < 2 ^ 63)%Z /\ (0 <= 1 < 2 ^ 63)%Z /\ (Z.of_nat (tot bs) < 2 ^ 63)%Z /\ Forall nonempty bs) /\
  drain_batch64 2 m m bs = Some [] /\
  drain_batch64 2 1 m bs = Some [[2; 3]; [4; 5; 6]]%nat /\
  drain_batch64 2 0 m bs = Some [[1; 2]; [3; 4; 5; 6]]%nat /\
  drain_batch64 2 (m - 1) 1 bs = Some [] /\
  drain_row64 1 m (List.concat bs) = Some [2; 3; 4; 5; 6]%nat /\
  drain_row64 m 1 (List.concat bs) = Some [] /\
  agg_drain_batch64 2 1 m [[1; 2]; [3]]%nat = Some [[2; 3]]%nat /\
  agg_drain_batch64 2 0 (-1) [[1; 2]; [3]]%nat = Some [[1; 2]; [3]]%nat.
Proof.
  cbv zeta. split.
  { split; [vm_compute; split; [discriminate|reflexivity]|].
    split; [vm_compute; split; [discriminate|reflexivity]|].
    split; [vm_compute; reflexivity|].
    repeat constructor; unfold nonempty; congruence. }
  repeat split; vm_compute; reflexivity.
Qed.

(* EVERY int64 Start / Count (the plan fields are public; a negative Count yields nothing, a negative
   Start skips nothing = Z.to_nat of them): no premise on where the numbers come from *)
Theorem limit_machine_slice_int64 : forall (A : Type) (B s n : Z) (bs : list (list A)),
  (s < 2 ^ 63)%Z -> (n < 2 ^ 63)%Z -> (Z.of_nat (tot bs) < 2 ^ 63)%Z ->
  Forall nonempty bs ->
  exists outs, drain_batch64 B s n bs = Some outs /\
               List.concat outs = firstn (Z.to_nat n) (skipn (Z.to_nat s) (List.concat bs)) /\
               Forall nonempty outs.
Proof. exact limit_machine_batch_slice_all. Qed.
Print Assumptions limit_machine_slice_int64.

Theorem limit_machine_slice_row_int64 : forall (A : Type) (s n : Z) (rows : list A),
  (s < 2 ^ 63)%Z -> (n < 2 ^ 63)%Z ->
  drain_row64 s n rows = Some (firstn (Z.to_nat n) (skipn (Z.to_nat s) rows)).
Proof. exact limit_machine_row_slice_all. Qed.
Print Assumptions limit_machine_slice_row_int64.

(* Limit64Parse: what parseLimit (Model/StmtParser.v parse_limit: the NUMBER tokens after LIMIT,
   int(newNumberExpr(data).Int) = strconv.ParseInt(data, 10, 64) or 0) hands to the limit nodes.
   Start and Count are in 0 .. 2^63-1 whenever no token text begins with '-' (the lexer never puts
   '-' into a word: it is an operator character; a numeral >= 2^63 is a FLOAT token and the
   statement is rejected -- both are run by the correspondence, Corr/C08M.v CaseP) *)
From KV Require Import Model.Token Model.ExprParser Model.StmtParser Proofs.Limit64ParseProofs.

Theorem limit_parse_range : forall (ts rest : list token) (l : limit_t),
  parse_limit ts = POk l rest ->
  Forall (fun t => unsigned (data t)) ts ->
  (0 <= l_start l < 2 ^ 63)%Z /\ (0 <= l_count l < 2 ^ 63)%Z.
Proof. exact parse_limit_range_lemma. Qed.
Print Assumptions limit_parse_range.

(* from the LIMIT clause as parsed to the rows, machine integers all the way, no premise on the
   numbers: whatever parseLimit accepts, LimitPlan / FinalLimitPlan with the parsed Start / Count
   return exactly that slice *)
Theorem parsed_limit_machine_slice :
  forall (A : Type) (ts rest : list token) (l : limit_t) (B : Z) (bs : list (list A)),
  parse_limit ts = POk l rest ->
  (Z.of_nat (tot bs) < 2 ^ 63)%Z -> Forall nonempty bs ->
  exists outs, drain_batch64 B (l_start l) (l_count l) bs = Some outs /\
               List.concat outs = firstn (Z.to_nat (l_count l)) (skipn (Z.to_nat (l_start l)) (List.concat bs)) /\
               Forall nonempty outs.
Proof. exact parsed_limit_machine_slice_lemma. Qed.
Print Assumptions parsed_limit_machine_slice.

Theorem parsed_limit_machine_slice_row :
  forall (A : Type) (ts rest : list token) (l : limit_t) (rows : list A),
  parse_limit ts = POk l rest ->
  drain_row64 (l_start l) (l_count l) rows
    = Some (firstn (Z.to_nat (l_count l)) (skipn (Z.to_nat (l_start l)) rows)).
Proof. exact parsed_limit_machine_slice_row_lemma. Qed.
Print Assumptions parsed_limit_machine_slice_row.

(* non-vacuity: the lexer and parser twins on the extreme clauses; 2^63 and beyond, and a sign,
   are rejected at the numeral *)
Example limit_parse_extremes :
  parse_limit (Lexer.lex "limit 1, 9223372036854775807") = POk (Limit 0 1 (2 ^ 63 - 1)%Z) [] /\
  Forall (fun t => unsigned (data t)) (Lexer.lex "limit 1, 9223372036854775807") /\
  parse_limit (Lexer.lex "limit 007") = POk (Limit 0 0 7) [] /\
  parse_limit (Lexer.lex "limit 9223372036854775808") = PErr (Some 6) /\
  parse_limit (Lexer.lex "limit 1, 9223372036854775808") = PErr (Some 9) /\
  parse_limit (Lexer.lex "limit -1") = PErr (Some 6) /\
  drain_batch64 32 (-5) 2 [[1; 2; 3]]%nat = Some [[1; 2]]%nat /\
  drain_batch64 32 1 (-2) [[1; 2; 3]]%nat = Some [].
Proof.
  split; [vm_compute; reflexivity|].
  split; [vm_compute; repeat constructor; discriminate|].
  repeat split; vm_compute; reflexivity.
Qed.
