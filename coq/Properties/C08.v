(* Properties/C08.v -- LIMIT returns exactly the requested slice of the unlimited result.
   Only property theorems here, each closed by [exact <lemma>] and followed by Print Assumptions. *)
From Coq Require Import List Arith.
Import ListNotations.
From KV Require Import Model.Limit Proofs.LimitProofs.

(* row-at-a-time: for every offset, count and child output *)
Theorem limit_row_slice : forall (A : Type) (start count : nat) (rows : list A),
  drain_row start count rows = Some (firstn count (skipn start rows)).
Proof. exact drain_row_slice. Qed.
Print Assumptions limit_row_slice.

(* batch mode: for every offset, count, batch-size setting B and EVERY chunking [bs] of the
   child's output into non-empty batches (LimitPlan, FinalLimitPlan and the skip/limit logic
   pushed down into AggregatePlan are this same code).  Draining terminates (Some), never
   yields an empty batch before the end, and the concatenation is the slice. *)
Theorem limit_batch_slice : forall (A : Type) (B start count : nat) (bs : list (list A)),
  Forall nonempty bs ->
  exists outs, drain_batch true B start count bs = Some outs /\
               concat outs = firstn count (skipn start (concat bs)) /\
               Forall nonempty outs.
Proof. exact drain_batch_slice. Qed.
Print Assumptions limit_batch_slice.

(* both modes agree on the limit node *)
Theorem limit_batch_row_agree : forall (A : Type) (B start count : nat) (bs : list (list A)),
  Forall nonempty bs ->
  exists outs, drain_batch true B start count bs = Some outs /\
               drain_row start count (concat bs) = Some (concat outs).
Proof. exact limit_batch_row. Qed.
Print Assumptions limit_batch_row_agree.

(* an offset or count beyond the end of the result selects the same slice as length+1 (this is
   how `limit s, 9223372036854775807` is handed to the twin by the correspondence; the
   machine-integer arithmetic of the Go code itself is MODELLED as unbounded nat, the
   correspondence runs the huge values) *)
Theorem slice_saturates : forall (A : Type) (start count : nat) (rows : list A),
  firstn count (skipn start rows) =
  firstn (Nat.min count (S (length rows))) (skipn (Nat.min start (S (length rows))) rows).
Proof. exact slice_saturates_lemma. Qed.
Print Assumptions slice_saturates.

(* non-vacuity: the hypotheses are met by a concrete non-trivial stream, and the statement
   computes to the expected slice there *)
Example limit_batch_slice_nonvacuous :
  Forall nonempty [[1;2];[3];[4;5;6]] /\
  drain_batch true 2 2 3 [[1;2];[3];[4;5;6]] = Some [[3;4;5]].
Proof. split; [repeat constructor; unfold nonempty; congruence | reflexivity]. Qed.

(* the statement is false of the pinned (pre-fix) step function: regression witness for D5 *)
Theorem limit_batch_slice_pinned_refuted :
  exists (B start count : nat) (bs : list (list nat)),
    Forall nonempty bs /\
    match drain_batch false B start count bs with
    | Some outs => concat outs <> firstn count (skipn start (concat bs))
    | None => True
    end.
Proof. exact limit_batch_slice_refuted. Qed.
Print Assumptions limit_batch_slice_pinned_refuted.
