(* Properties/C08.v -- LIMIT returns exactly the requested slice of the unlimited result.
   Only property theorems here, each closed by [exact <lemma>] and followed by Print Assumptions. *)
From Coq Require Import List Arith.
Import ListNotations.
From KV Require Import Model.Limit Proofs.LimitProofs.

(* row-at-a-time: for every offset, count and child output *)
Theorem limit_row_slice : forall (A : Type) (start count : nat) (rows : list A),
  drain_row start count rows = Some (firstn count (skipn start rows)).
Proof. exact drain_row_slice. Qed.
Print Assumptions limit_row_slice.

(* batch mode: for every offset, count, batch-size setting B and EVERY chunking [bs] of the
   child's output into non-empty batches (LimitPlan, FinalLimitPlan and the skip/limit logic
   pushed down into AggregatePlan are this same code).  Draining terminates (Some), never
   yields an empty batch before the end, and the concatenation is the slice. *)
Theorem limit_batch_slice : forall (A : Type) (B start count : nat) (bs : list (list A)),
  Forall nonempty bs ->
  exists outs, drain_batch true B start count bs = Some outs /\
               concat outs = firstn count (skipn start (concat bs)) /\
               Forall nonempty outs.
Proof. exact drain_batch_slice. Qed.
Print Assumptions limit_batch_slice.

(* both modes agree on the limit node *)
Theorem limit_batch_row_agree : forall (A : Type) (B start count : nat) (bs : list (list A)),
  Forall nonempty bs ->
  exists outs, drain_batch true B start count bs = Some outs /\
               drain_row start count (concat bs) = Some (concat outs).
Proof. exact limit_batch_row. Qed.
Print Assumptions limit_batch_row_agree.

(* an offset or count beyond the end of the result selects the same slice as length+1 (this is
   how `limit s, 9223372036854775807` is handed to the twin by the correspondence; the
   machine-integer arithmetic of the Go code itself is MODELLED as unbounded nat, the
   correspondence runs the huge values) *)
Theorem slice_saturates : forall (A : Type) (start count : nat) (rows : list A),
  firstn count (skipn start rows) =
  firstn (Nat.min count (S (length rows))) (skipn (Nat.min start (S (length rows))) rows).
Proof. exact slice_saturates_lemma. Qed.
Print Assumptions slice_saturates.

(* non-vacuity: the hypotheses are met by a concrete non-trivial stream, and the statement
   computes to the expected slice there *)
Example limit_batch_slice_nonvacuous :
  Forall nonempty [[1;2];[3];[4;5;6]] /\
  drain_batch true 2 2 3 [[1;2];[3];[4;5;6]] = Some [[3;4;5]].
Proof. split; [repeat constructor; unfold nonempty; congruence | reflexivity]. Qed.

(* the statement is false of the pinned (pre-fix) step function: regression witness for D5 *)
Theorem limit_batch_slice_pinned_refuted :
  exists (B start count : nat) (bs : list (list nat)),
    Forall nonempty bs /\
    match drain_batch false B start count bs with
    | Some outs => concat outs <> firstn count (skipn start (concat bs))
    | None => True
    end.
Proof. exact limit_batch_slice_refuted. Qed.
Print Assumptions limit_batch_slice_pinned_refuted.

(* ================================================================== LIMIT FROM THE QUERY TEXT
   (appended; Model/PipelineS.v, Proofs/PipelineSProofs.v).  The statement is the TEXT; the plan is
   what the twin of NewOptimizer(q).BuildPlan builds for it (tied to the Go code on every run by
   C03's text correspondence, harness/c03.go part F). *)
From Coq Require Import String ZArith.
From KV Require Import Base.Bytes Model.Value Model.SelectPlans Model.Pipeline Model.PipelineS Proofs.PipelineSProofs.
From KV Require Model.Storage Model.Order Proofs.BatchRowProofs Proofs.SelectPlansProofs.

(* LIMIT s, n from the text, row mode: whenever the SAME plan without its LIMIT clause completes with
   [all], the statement returns exactly rows s .. s+n-1 of [all] ([slice s n all] = firstn n (skipn s
   all)) -- whichever way buildFinalPlan placed the limit: FinalLimitPlan on top of the projection, on
   top of the FinalOrderPlan, or pushed into the AggregatePlan (no ORDER BY).  Not conversely by
   design: the limited plan pulls its child lazily and also completes where a pair / a group beyond
   the limit fails. *)
Theorem limit_text_slice :
  forall (fo : fops) (re : bytes -> bytes -> res bool) (fmt_v : F fo -> string) (ag : aggops fo)
         (pi pf : bytes -> option Z) (q : string) (d : Storage.store) (pl : splanned fo) (s n : nat)
         (all : list Order.row),
  plan_stmt_text fo re fmt_v q = STOk pl ->
  SelectPlans.s_limit (F fo) (q_stmt fo (sp_q fo pl)) = Some (s, n) ->
  select_shape_row fo re ag pi pf (no_limit fo (sp_q fo pl))
                   (stmt_shape (F fo) (q_stmt fo (no_limit fo (sp_q fo pl))))
                   (scan_slots (sp_scan fo pl) d) = Ok all ->
  select_stmt_text fo re fmt_v ag pi pf q d MRow = TOk (slice s n all).
Proof. exact PipelineSProofs.limit_text_slice. Qed.
Print Assumptions limit_text_slice.

(* batch mode, every B >= 1: a batch drain that completes returns the same slice (up to string /
   []byte: nrows); premise fields_ok as in C03 *)
Theorem limit_text_slice_batch :
  forall (fo : fops) (re : bytes -> bytes -> res bool) (fmt_v : F fo -> string) (ag : aggops fo)
         (pi pf : bytes -> option Z) (q : string) (d : Storage.store) (pl : splanned fo) (B s n : nat)
         (all outs : list Order.row),
  1 <= B ->
  plan_stmt_text fo re fmt_v q = STOk pl ->
  BatchRowProofs.fields_ok (q_fields fo (sp_q fo pl)) ->
  SelectPlans.s_limit (F fo) (q_stmt fo (sp_q fo pl)) = Some (s, n) ->
  select_shape_row fo re ag pi pf (no_limit fo (sp_q fo pl))
                   (stmt_shape (F fo) (q_stmt fo (no_limit fo (sp_q fo pl))))
                   (scan_slots (sp_scan fo pl) d) = Ok all ->
  select_stmt_text fo re fmt_v ag pi pf q d (MBatch B) = TOk outs ->
  SelectPlansProofs.nrows outs = SelectPlansProofs.nrows (slice s n all).
Proof. exact PipelineSProofs.limit_text_slice_batch. Qed.
Print Assumptions limit_text_slice_batch.

(* non-vacuity: LIMIT 1, 2 on top of ORDER BY, and LIMIT 1, 5 pushed into the AggregatePlan; the
   unlimited plans complete, and the statements return the slices *)
Local Open Scope string_scope.
Definition ps8_store : Storage.store := [("a", "3"); ("ab", "1"); ("b", "2"); ("c", "1")].
Definition ps8_q1 : string := "select key, int(value) as n where key > '' order by n desc, key limit 1, 2".
Definition ps8_q2 : string := "select value as g, count(1) as c where key > '' group by g limit 1, 5".

Example limit_text_slice_nonvacuous :
  forall (fo : fops) (re : bytes -> bytes -> res bool) (fmt_v : F fo -> string) (ag : aggops fo)
         (pi pf : bytes -> option Z),
  (exists pl, plan_stmt_text fo re fmt_v ps8_q1 = STOk pl /\
     SelectPlans.s_limit (F fo) (q_stmt fo (sp_q fo pl)) = Some (1, 2) /\
     select_shape_row fo re ag pi pf (no_limit fo (sp_q fo pl)) (stmt_shape (F fo) (q_stmt fo (no_limit fo (sp_q fo pl))))
                      (scan_slots (sp_scan fo pl) ps8_store)
       = Ok [[Order.VBytes "a"; Order.VInt 3]; [Order.VBytes "b"; Order.VInt 2];
             [Order.VBytes "ab"; Order.VInt 1]; [Order.VBytes "c"; Order.VInt 1]]) /\
  select_stmt_text fo re fmt_v ag pi pf ps8_q1 ps8_store MRow =
    TOk [[Order.VBytes "b"; Order.VInt 2]; [Order.VBytes "ab"; Order.VInt 1]] /\
  (exists pl, plan_stmt_text fo re fmt_v ps8_q2 = STOk pl /\
     sp_shape fo pl = SAgg 1 (Some 5) /\
     select_shape_row fo re ag pi pf (no_limit fo (sp_q fo pl)) (stmt_shape (F fo) (q_stmt fo (no_limit fo (sp_q fo pl))))
                      (scan_slots (sp_scan fo pl) ps8_store)
       = Ok [[Order.VBytes "3"; Order.VInt 1]; [Order.VBytes "1"; Order.VInt 2]; [Order.VBytes "2"; Order.VInt 1]]) /\
  select_stmt_text fo re fmt_v ag pi pf ps8_q2 ps8_store MRow =
    TOk [[Order.VBytes "1"; Order.VInt 2]; [Order.VBytes "2"; Order.VInt 1]].
Proof.
  intros. split.
  { eexists. split; [vm_compute; reflexivity|]. split; vm_compute; reflexivity. }
  split; [vm_compute; reflexivity|]. split; [|vm_compute; reflexivity].
  eexists. split; [vm_compute; reflexivity|]. split; vm_compute; reflexivity.
Qed.
