(* Properties/C09.v -- GROUP BY partitions by value tuples and aggregates equal their definitions.
   Only property theorems here, each closed by [exact <lemma>] and followed by Print Assumptions.

   Every theorem is over an ARBITRARY float type F with arbitrary operations (no laws assumed):
   fadd fsub fmul fdiv (arithmetic), fltb (a < b), fis0 (a == 0), of_Z (float64(int64)),
   to_Z (int64(float64)), fmt_f (the "%f" text), json_f / json_s (encoding/json), parse_f
   (strconv.ParseFloat).  They hold for IEEE binary64 in particular.

   [run_row] / [run_batch] (Model/Aggregate.v, with both fix flags = true) are the twin of
   AggregatePlan drained by Next / by Batch; their input is, for every scanned pair that passed
   WHERE, the values of the GROUP BY expressions, of the non-aggregate fields and of the
   aggregate arguments (expression evaluation is not part of this property).
   [spec_result] (Spec/Group.v) is the reference: partition by tuple equality in first-occurrence
   order, aggregates as folds over the group's members in scan order, LIMIT as firstn/skipn.
   Group values are compared by the text they contribute to the group key ([render_eqb]: the
   value's text, for a float the text of its bits [bits_f]); this IS equality of values
   (theorem [group_values_typed]; for floats under the premise that equal bits texts mean equal
   floats). *)
From Coq Require Import List String ZArith Bool.
Import ListNotations.
From KV Require Import Base.Bytes Spec.Group Model.Aggregate Model.AggregateFloat Proofs.AggregateProofs.
From Coq Require Import Floats.

(* row-at-a-time: the statement returns exactly the specified rows (same rows, same order, and
   it fails exactly when the specification fails, i.e. on x / 0 or an unencodable float) *)
Theorem aggregate_row_result :
  forall (F : Type) (fadd fsub fmul fdiv : F -> F -> F) (fltb : F -> F -> bool) (fis0 : F -> bool)
         (of_Z : Z -> F) (to_Z : F -> Z) (fmt_f bits_f : F -> bytes) (json_f : F -> option bytes)
         (parse_f : bytes -> option F) (json_s : bytes -> bytes)
         (p : plan F) (pairs : list (pobs F)),
  run_row fadd fsub fmul fdiv fltb fis0 of_Z to_Z fmt_f bits_f json_f parse_f json_s true true p pairs =
  spec_result fadd fsub fmul fdiv fltb fis0 of_Z to_Z fmt_f json_f parse_f parse_int json_s
              (render_eqb fmt_f bits_f) p pairs.
Proof. exact run_row_spec. Qed.
Print Assumptions aggregate_row_result.

(* batch mode: for every batch size B >= 1 and EVERY chunking of the child's output *)
Theorem aggregate_batch_result :
  forall (F : Type) (fadd fsub fmul fdiv : F -> F -> F) (fltb : F -> F -> bool) (fis0 : F -> bool)
         (of_Z : Z -> F) (to_Z : F -> Z) (fmt_f bits_f : F -> bytes) (json_f : F -> option bytes)
         (parse_f : bytes -> option F) (json_s : bytes -> bytes)
         (p : plan F) (B : nat) (chunks : list (list (pobs F))),
  1 <= B ->
  run_batch fadd fsub fmul fdiv fltb fis0 of_Z to_Z fmt_f bits_f json_f parse_f json_s true true p B chunks =
  spec_result fadd fsub fmul fdiv fltb fis0 of_Z to_Z fmt_f json_f parse_f parse_int json_s
              (render_eqb fmt_f bits_f) p (List.concat chunks).
Proof. exact run_batch_spec. Qed.
Print Assumptions aggregate_batch_result.

(* group_partition: the rows AggregatePlan prepares correspond one-to-one, in order, to the
   groups of the specification; each row's state is the fold of the updates over exactly that
   group's members, in scan order, starting from the row created on the group's first pair *)
Theorem group_partition :
  forall (F : Type) (fadd : F -> F -> F) (fltb : F -> F -> bool) (of_Z : Z -> F) (to_Z : F -> Z)
         (fmt_f bits_f : F -> bytes) (parse_f : bytes -> option F) (p : plan F) (pairs : list (pobs F)),
  map (fun kr => Some (snd kr)) (prepare fadd fltb of_Z to_Z fmt_f bits_f parse_f true true p pairs) =
  map (grp_state (createAggrRow of_Z fmt_f p)
                 (updateRowAggrFunc fadd fltb of_Z to_Z fmt_f parse_f true))
      (spec_groups (render_eqb fmt_f bits_f) p pairs).
Proof. exact prepare_groups. Qed.
Print Assumptions group_partition.

(* two scanned pairs are aggregated into the same row iff all their GROUP BY values are equal
   (as rendered); so a GROUP BY expression selected as a field shows the value of every member *)
Theorem pairs_share_row_iff_equal_group_values :
  forall (F : Type) (fmt_f bits_f : F -> bytes) (p : plan F) (pairs : list (pobs F)) (a b : pobs F),
  In a pairs -> In b pairs ->
  ((exists g, In g (spec_groups (render_eqb fmt_f bits_f) p pairs) /\ In a g /\ In b g) <->
   rendered_tuple fmt_f bits_f p a = rendered_tuple fmt_f bits_f p b).
Proof. exact pairs_share_row_iff. Qed.
Print Assumptions pairs_share_row_iff_equal_group_values.

(* the specification's partition is a partition: members of a group have equal keys, every
   element is in the group of its key, elements with equal keys are in the same group, the
   groups' keys are pairwise different *)
Theorem partition_same_key :
  forall (A K : Type) (keqb : K -> K -> bool) (key : A -> K),
  (forall a b, keqb a b = true <-> a = b) ->
  forall l g a b, In g (groups keqb key l) -> In a g -> In b g -> key a = key b.
Proof. exact groups_same_key. Qed.
Print Assumptions partition_same_key.

Theorem partition_cover :
  forall (A K : Type) (keqb : K -> K -> bool) (key : A -> K),
  (forall a b, keqb a b = true <-> a = b) ->
  forall l a, In a l ->
  In (members keqb key (key a) l) (groups keqb key l) /\ In a (members keqb key (key a) l).
Proof. exact groups_cover. Qed.
Print Assumptions partition_cover.

Theorem partition_disjoint :
  forall (A K : Type) (keqb : K -> K -> bool) (key : A -> K),
  (forall a b, keqb a b = true <-> a = b) ->
  forall l g1 g2 a b, In g1 (groups keqb key l) -> In g2 (groups keqb key l) ->
  In a g1 -> In b g2 -> key a = key b -> g1 = g2.
Proof. exact groups_equal_key. Qed.
Print Assumptions partition_disjoint.

Theorem partition_first_occurrence :
  forall (A K : Type) (keqb : K -> K -> bool) (key : A -> K),
  (forall a b, keqb a b = true <-> a = b) ->
  forall l, NoDup (group_keys keqb key l) /\
            map (fun g => option_map key (hd_error g)) (groups keqb key l) = map Some (group_keys keqb key l).
Proof. exact groups_first_occurrence. Qed.
Print Assumptions partition_first_occurrence.

(* agg_values: in the row of a group (first pair m, then rest) every field shows its specified
   value: non-aggregate fields the text of the value on m, aggregate fields the expression
   evaluated over count / sum / avg / min / max / group_concat / json_arrayagg of the members *)
Theorem agg_values :
  forall (F : Type) (fadd fsub fmul fdiv : F -> F -> F) (fltb : F -> F -> bool) (fis0 : F -> bool)
         (of_Z : Z -> F) (to_Z : F -> Z) (fmt_f : F -> bytes) (json_f : F -> option bytes)
         (parse_f : bytes -> option F) (json_s : bytes -> bytes)
         (p : plan F) (m : pobs F) (rest : list (pobs F)),
  finish_row fadd fsub fmul fdiv fis0 of_Z json_f json_s
    (fold_left (updateRowAggrFunc fadd fltb of_Z to_Z fmt_f parse_f true) (m :: rest)
               (createAggrRow of_Z fmt_f p m)) =
  spec_row fadd fsub fmul fdiv fltb fis0 of_Z to_Z fmt_f json_f parse_f parse_int json_s p (m :: rest).
Proof. exact group_row_spec. Qed.
Print Assumptions agg_values.

(* the group key (after the fix: of D17) is injective on tuples of rendered values *)
Theorem key_encoding_injective :
  forall t1 t2 : list bytes, encode_tuple t1 = encode_tuple t2 -> t1 = t2.
Proof. exact encode_tuple_inj. Qed.
Print Assumptions key_encoding_injective.

(* for group columns of one kind each (text, integers, floats, booleans) equal renderings are
   equal values: the partition is the partition by equality of the typed value tuples.  The
   only law about floats used anywhere: the bits text separates exactly what [feqb] separates *)
Theorem group_values_typed :
  forall (F : Type) (fmt_f bits_f : F -> bytes) (feqb : F -> F -> bool),
  (forall a b : F, String.eqb (bits_f a) (bits_f b) = feqb a b) ->
  forall (p : plan F) (pairs : list (pobs F)),
  (forall a b, In a pairs -> In b pairs -> Forall2 (@same_kind F) (p_g a) (p_g b)) ->
  spec_groups (render_eqb fmt_f bits_f) p pairs = spec_groups (value_eqb feqb) p pairs.
Proof. exact spec_groups_typed. Qed.
Print Assumptions group_values_typed.

(* prepareBatch (keys of a whole chunk first) builds the same rows as prepare *)
Theorem aggregate_batch_row_agree :
  forall (F : Type) (fadd fsub fmul fdiv : F -> F -> F) (fltb : F -> F -> bool) (fis0 : F -> bool)
         (of_Z : Z -> F) (to_Z : F -> Z) (fmt_f bits_f : F -> bytes) (json_f : F -> option bytes)
         (parse_f : bytes -> option F) (json_s : bytes -> bytes)
         (p : plan F) (B : nat) (chunks : list (list (pobs F))),
  1 <= B ->
  run_batch fadd fsub fmul fdiv fltb fis0 of_Z to_Z fmt_f bits_f json_f parse_f json_s true true p B chunks =
  run_row fadd fsub fmul fdiv fltb fis0 of_Z to_Z fmt_f bits_f json_f parse_f json_s true true p (List.concat chunks).
Proof. exact run_batch_row_agree. Qed.
Print Assumptions aggregate_batch_row_agree.

(* the specification's sum / min / max over integers are the mathematical ones *)
Theorem spec_ints_are_mathematical :
  forall (F : Type) (fadd : F -> F -> F) (fltb : F -> F -> bool) (of_Z : Z -> F) (to_Z : F -> Z)
         (parse_f : bytes -> option F) (z : Z) (zs : list Z),
  spec_sum fadd of_Z to_Z parse_f parse_int (map (@VInt F) (z :: zs)) = VInt (wrap64 (fold_left Z.add (z :: zs) 0%Z)) /\
  spec_min fltb of_Z parse_f parse_int (map (@VInt F) (z :: zs)) = VInt (fold_left Z.min zs z) /\
  spec_max fltb of_Z parse_f parse_int (map (@VInt F) (z :: zs)) = VInt (fold_left Z.max zs z).
Proof. exact spec_ints. Qed.
Print Assumptions spec_ints_are_mathematical.

(* non-vacuity: a concrete non-trivial statement (three groups, two of which collide under
   concatenation, LIMIT 1,2, batches of 2, arithmetic around sum) on which the twin computes the
   expected rows; floats are fixed-point tenths here (2.5 = 25) *)
Example aggregate_batch_result_nonvacuous :
  1 <= 2 /\
  tenths_run_batch true true ex_plan 2 [firstn 2 ex_pairs; skipn 2 ex_pairs] =
  Some [[VBytes "ab"; VInt 2; VInt 8; VStr "2,5"]; [VBytes "b"; VInt 1; VFlt 35%Z; VStr "25"]]%string.
Proof. split; [repeat constructor|exact ex_run]. Qed.

(* the statement is false of the pinned (pre-fix) group key: regression witness for D17.  With
   plain concatenation ('a','bc') and ('ab','c') share a row; with the fixed key they do not *)
Theorem group_partition_pinned_refuted :
  run_row_unit false true d17_plan d17_pairs <> spec_unit d17_plan d17_pairs /\
  run_row_unit true true d17_plan d17_pairs = spec_unit d17_plan d17_pairs.
Proof. exact group_partition_refuted. Qed.
Print Assumptions group_partition_pinned_refuted.

(* and of the pinned min/max: over 5, 5.9 (and -5, -5.9) the pinned comparison of truncated
   values answers 5 (and -5); the specification and the fixed code answer 5.9 (and -5.9) *)
Theorem minmax_mixed_pinned_refuted :
  tenths_run_row true false mm_plan mm_pairs = Some [[VInt 5; VInt (-5)]] /\
  tenths_spec mm_plan mm_pairs = Some [[VFlt 59%Z; VFlt (-59)%Z]] /\
  tenths_run_row true true mm_plan mm_pairs = tenths_spec mm_plan mm_pairs.
Proof. exact minmax_mixed_refuted. Qed.
Print Assumptions minmax_mixed_pinned_refuted.

(* Note on float GROUP BY values: the DISPLAY text of a float is "%f" (6 decimals), which is not
   injective; after the fix: commit the KEY uses the float's bits, so 1.0000001 and 1.0000002
   (below) are different groups although a selected group field shows 1.000000 for both.
   Witness on binary64 (Coq's primitive floats, the instance the correspondence runs): *)
Example float_group_values_closer_than_1e_6_share_a_rendering :
  f_same 0x1.000001p0%float 0x1.000002p0%float = false /\
  f_fmt 0x1.000001p0%float = f_fmt 0x1.000002p0%float /\
  f_bits 0x1.000001p0%float <> f_bits 0x1.000002p0%float.
Proof. repeat split; vm_compute; try reflexivity; discriminate. Qed.

(* ================================================================== the evaluation discipline (appended)
   Model/AggregateLazy.v: WHICH evaluations the AggregatePlan asks for, and WHEN a group's row is
   completed.  [lrun_row] / [lrun_batch] are the twin of the plan drained by Next / by Batch with
   the rows completed as the Go code completes them (one row per next(), PlanBatchSize rows per
   batch(), through the LIMIT arithmetic of limit_plan.go when the LIMIT was pushed into the
   plan); their input is, per scanned pair, the values that WERE evaluated (absent / nil where the
   Go code evaluates nothing).  [spec_result_lazy] (Spec/GroupLazy.v) is [spec_result] restricted
   to the groups the LIMIT reaches. *)
From KV Require Import Model.AggregateLazy Spec.GroupLazy Proofs.AggregateLazyProofs.
From KV Require Model.Value Model.LimitLazy.
Notation ROk := Value.Ok (only parsing).
Notation RErr := (Value.Err Value.EOther) (only parsing).

(* row-at-a-time, rows completed lazily: EXACTLY the lazy reference result -- the LIMIT slice of the
   specified rows, failing iff one of the first Start + Limit groups (every group without a LIMIT)
   is undefined (x / 0, unencodable float).  Stronger than aggregate_row_result on the statements
   where they differ (a group that fails beyond the LIMIT) *)
Theorem aggregate_row_result_lazy :
  forall (F : Type) (fadd fsub fmul fdiv : F -> F -> F) (fltb : F -> F -> bool) (fis0 : F -> bool)
         (of_Z : Z -> F) (to_Z : F -> Z) (fmt_f bits_f : F -> bytes) (json_f : F -> option bytes)
         (parse_f : bytes -> option F) (json_s : bytes -> bytes)
         (p : plan F) (pairs : list (pobs F)),
  lrun_row fadd fsub fmul fdiv fltb fis0 of_Z to_Z fmt_f bits_f json_f parse_f json_s p pairs =
  exec_res (spec_result_lazy fadd fsub fmul fdiv fltb fis0 of_Z to_Z fmt_f json_f parse_f parse_int json_s
                             (render_eqb fmt_f bits_f) p pairs).
Proof. exact lrun_row_spec. Qed.
Print Assumptions aggregate_row_result_lazy.

(* batch mode, every B >= 1, every chunking of the child's output: a drain that completes returns
   the lazy reference result, and row mode completes with the same rows (batch mode completes
   whole runs of B groups, so it may fail on a group row mode never reaches -- not conversely) *)
Theorem aggregate_batch_result_lazy :
  forall (F : Type) (fadd fsub fmul fdiv : F -> F -> F) (fltb : F -> F -> bool) (fis0 : F -> bool)
         (of_Z : Z -> F) (to_Z : F -> Z) (fmt_f bits_f : F -> bytes) (json_f : F -> option bytes)
         (parse_f : bytes -> option F) (json_s : bytes -> bytes)
         (p : plan F) (B : nat) (chunks : list (list (pobs F))) (rows : list (list (value F))),
  1 <= B ->
  lrun_batch fadd fsub fmul fdiv fltb fis0 of_Z to_Z fmt_f bits_f json_f parse_f json_s p B chunks = ROk rows ->
  spec_result_lazy fadd fsub fmul fdiv fltb fis0 of_Z to_Z fmt_f json_f parse_f parse_int json_s
                   (render_eqb fmt_f bits_f) p (List.concat chunks) = Some rows /\
  lrun_row fadd fsub fmul fdiv fltb fis0 of_Z to_Z fmt_f bits_f json_f parse_f json_s p (List.concat chunks) = ROk rows.
Proof.
  intros. split; [eapply lrun_batch_spec; eauto | eapply lrun_batch_row; eauto].
Qed.
Print Assumptions aggregate_batch_result_lazy.

(* Next until nil over the prepared group rows completes exactly the first Start + Limit of them *)
Theorem aggregate_next_completes_start_plus_limit_groups :
  forall (F : Type) (fadd fsub fmul fdiv : F -> F -> F) (fis0 : F -> bool) (of_Z : Z -> F)
         (json_f : F -> option bytes) (json_s : bytes -> bytes)
         (start count : nat) (rows : aggr_rows F),
  LimitLazy.ldrain_row (anext fadd fsub fmul fdiv fis0 of_Z json_f json_s) start count rows =
  match fin F fadd fsub fmul fdiv fis0 of_Z json_f json_s (firstn (start + count) rows) with
  | Some l => ROk (skipn start l)
  | None => RErr
  end.
Proof. exact ldrain_anext. Qed.
Print Assumptions aggregate_next_completes_start_plus_limit_groups.

(* the lazy twin and the lazy reference refine the eager ones: wherever run_row / run_batch /
   spec_result define a result, lrun_row / lrun_batch / spec_result_lazy define the same *)
Theorem aggregate_lazy_refines_eager :
  forall (F : Type) (fadd fsub fmul fdiv : F -> F -> F) (fltb : F -> F -> bool) (fis0 : F -> bool)
         (of_Z : Z -> F) (to_Z : F -> Z) (fmt_f bits_f : F -> bytes) (json_f : F -> option bytes)
         (parse_f : bytes -> option F) (json_s : bytes -> bytes)
         (p : plan F) (pairs : list (pobs F)) (B : nat) (chunks : list (list (pobs F)))
         (rows : list (list (value F))),
  (run_row fadd fsub fmul fdiv fltb fis0 of_Z to_Z fmt_f bits_f json_f parse_f json_s true true p pairs = Some rows ->
   lrun_row fadd fsub fmul fdiv fltb fis0 of_Z to_Z fmt_f bits_f json_f parse_f json_s p pairs = ROk rows) /\
  (1 <= B ->
   run_batch fadd fsub fmul fdiv fltb fis0 of_Z to_Z fmt_f bits_f json_f parse_f json_s true true p B chunks = Some rows ->
   lrun_batch fadd fsub fmul fdiv fltb fis0 of_Z to_Z fmt_f bits_f json_f parse_f json_s p B chunks = ROk rows) /\
  (spec_result fadd fsub fmul fdiv fltb fis0 of_Z to_Z fmt_f json_f parse_f parse_int json_s
               (render_eqb fmt_f bits_f) p pairs = Some rows ->
   spec_result_lazy fadd fsub fmul fdiv fltb fis0 of_Z to_Z fmt_f json_f parse_f parse_int json_s
                    (render_eqb fmt_f bits_f) p pairs = Some rows).
Proof.
  intros. split; [apply lrun_row_refines | split; [apply lrun_batch_refines | apply spec_result_lazy_refines]].
Qed.
Print Assumptions aggregate_lazy_refines_eager.

(* what the Go code does not evaluate is not looked at: from FULL observations (every expression
   evaluated on every pair) and from the observations with everything removed that the Go code
   skips ([blank_all]: the non-aggregate fields on later pairs of a group, the arguments no
   non-count call reads, GROUP BY values without GROUP BY) the plan prepares the same group rows *)
Theorem unevaluated_values_are_not_looked_at :
  forall (F : Type) (fadd : F -> F -> F) (fltb : F -> F -> bool) (of_Z : Z -> F) (to_Z : F -> Z)
         (fmt_f bits_f : F -> bytes) (parse_f : bytes -> option F) (p : plan F) (pairs : list (pobs F)),
  prepare fadd fltb of_Z to_Z fmt_f bits_f parse_f true true p (blank_all F fmt_f bits_f p [] pairs) =
  prepare fadd fltb of_Z to_Z fmt_f bits_f parse_f true true p pairs.
Proof. exact prepare_blank. Qed.
Print Assumptions unevaluated_values_are_not_looked_at.

(* non-vacuity, and the statements on which lazy and eager differ: 10 / (count - 2) per group,
   LIMIT 0, 1, groups of 1, 2, 1 pairs.  Row mode returns the first row and never completes the
   failing second group; batch mode with B = 1 likewise, with B = 2 it completes both and fails;
   the eager twin and spec_result fail *)
Example aggregate_result_lazy_nonvacuous :
  lrun_row_unit lz_plan lz_pairs = ROk [[VBytes "a"; VInt (-10)]]%string /\
  lrun_batch_unit lz_plan 1 [firstn 2 lz_pairs; skipn 2 lz_pairs] = ROk [[VBytes "a"; VInt (-10)]]%string /\
  lrun_batch_unit lz_plan 2 [firstn 2 lz_pairs; skipn 2 lz_pairs] = RErr /\
  run_row_unit true true lz_plan lz_pairs = None /\
  spec_unit lz_plan lz_pairs = None.
Proof. exact lazy_completion_witness. Qed.

(* ================================================================== GROUP BY / AGGREGATES FROM THE QUERY TEXT
   (appended; Model/PipelineS.v, Proofs/PipelineSProofs.v).  The statement is the TEXT; the plan is
   what the twin of NewOptimizer(q).BuildPlan builds for it (tied to the Go code on every run by
   C03's text correspondence, harness/c03.go part F): its fields (Spec/Group.v field: key fields and
   aggregate expressions, split as AggregatePlan.Init splits them), GROUP BY expressions (the select
   field objects the GROUP BY items resolve to, in the state the folder left them), aggregate
   arguments and the pushed-down LIMIT all come from the checked and folded statement. *)
From KV Require Import Model.SelectPlans Model.Pipeline Model.PipelineS Proofs.PipelineSProofs.
From KV Require Model.Storage Model.Order Model.Eval Model.EvalVec Model.LimitLazy.

(* the AggregatePlan of the text, on its own (LIMIT pushed into it or none: shape SAgg st l), row mode:
   the statement's rows are EXACTLY the lazy reference result (spec_result_lazy: partition by equality
   of GROUP BY value tuples, groups in first-occurrence order, every aggregate the fold of Spec/Group.v
   over its group, the LIMIT slice; undefined iff a group the LIMIT reaches is undefined) of the plan's
   fields over the observations made on the pairs of the scan that pass WHERE, rendered column by
   column.  Under ORDER BY the same holds for the node under the order node (aggregate_node_result)
   and C07's order_by_text_sorted_permutation relates the statement's rows to it. *)
Theorem aggregate_text_result :
  forall (fo : Value.fops) (re : bytes -> bytes -> Value.res bool) (fmt_v : Value.F fo -> string) (ag : aggops fo)
         (pi pf : bytes -> option Z) (q : string) (d : Storage.store) (pl : splanned fo) (st : nat)
         (l : option nat) (out : list Order.row),
  plan_stmt_text fo re fmt_v q = STOk pl ->
  sp_shape fo pl = SAgg st l ->
  select_stmt_text fo re fmt_v ag pi pf q d MRow = TOk out ->
  let c := sp_q fo pl in
  let p := stmt_plan (Value.F fo) (q_stmt fo c) st l in
  exists obs rows,
    sdrain_row (LimitLazy.sel_frow fo re (q_where fo c))
               (c_lobs_row fo re ag (q_group fo c) (q_keys fo c) (q_args fo c) p) []
               (scan_slots (sp_scan fo pl) d) = ROk obs /\
    spec_result_lazy (Value.fadd fo) (Value.fsub fo) (Value.fmul fo) (Value.fdiv fo) (Value.fltb fo) (a_is0 fo ag)
      (Value.f_of_Z fo) (a_to_Z fo ag) (Value.f_fmt fo) (a_json_f fo ag) (a_parse fo ag) parse_int (a_json_s fo ag)
      (render_eqb (Value.f_fmt fo) (a_bits fo ag)) p obs = Some rows /\
    out = map (aconv_row fo (a_fbits fo ag)) rows.
Proof. exact PipelineSProofs.aggregate_text_result. Qed.
Print Assumptions aggregate_text_result.

(* the aggregate node of any composed plan, as an equivalence *)
Theorem aggregate_node_result :
  forall (fo : Value.fops) (re : bytes -> bytes -> Value.res bool) (ag : aggops fo) (pi pf : bytes -> option Z)
         (c : cstmt fo) (st : nat) (l : option nat) (sl : list (option EvalVec.kvpair)) (out : list Order.row),
  let p := stmt_plan (Value.F fo) (q_stmt fo c) st l in
  select_shape_row fo re ag pi pf c (SAgg st l) sl = ROk out <->
  exists obs rows,
    sdrain_row (LimitLazy.sel_frow fo re (q_where fo c))
               (c_lobs_row fo re ag (q_group fo c) (q_keys fo c) (q_args fo c) p) [] sl = ROk obs /\
    spec_result_lazy (Value.fadd fo) (Value.fsub fo) (Value.fmul fo) (Value.fdiv fo) (Value.fltb fo) (a_is0 fo ag)
      (Value.f_of_Z fo) (a_to_Z fo ag) (Value.f_fmt fo) (a_json_f fo ag) (a_parse fo ag) parse_int (a_json_s fo ag)
      (render_eqb (Value.f_fmt fo) (a_bits fo ag)) p obs = Some rows /\
    out = map (aconv_row fo (a_fbits fo ag)) rows.
Proof. exact PipelineSProofs.aggregate_node_result. Qed.
Print Assumptions aggregate_node_result.

(* non-vacuity: GROUP BY + count + arithmetic on sum + LIMIT 1, 5 without ORDER BY (pushed into the
   AggregatePlan: shape SAgg 1 (Some 5)); what Init made of the fields; the rows *)
Local Open Scope string_scope.
Definition ps9_store : Storage.store := [("a", "3"); ("ab", "1"); ("b", "2"); ("c", "1")].
Definition ps9_q : string := "select value as g, count(1) as c, sum(int(value)) * 2 as s where key > '' group by g limit 1, 5".

Example aggregate_text_result_nonvacuous :
  forall (fo : Value.fops) (re : bytes -> bytes -> Value.res bool) (fmt_v : Value.F fo -> string) (ag : aggops fo)
         (pi pf : bytes -> option Z),
  (exists pl, plan_stmt_text fo re fmt_v ps9_q = STOk pl /\ sp_shape fo pl = SAgg 1 (Some 5) /\
     s_aggr (Value.F fo) (q_stmt fo (sp_q fo pl)) =
       Some (false, [FKey 0; FAgg (AECall 0) [Call ACount 0];
                     FAgg (AEBin Times (AECall 0) (AEInt 2)) [Call ASum 1]]) /\
     List.length (q_group fo (sp_q fo pl)) = 1 /\ List.length (q_keys fo (sp_q fo pl)) = 1 /\
     List.length (q_args fo (sp_q fo pl)) = 2) /\
  select_stmt_text fo re fmt_v ag pi pf ps9_q ps9_store MRow =
    TOk [[Order.VBytes "1"; Order.VInt 2; Order.VInt 4]; [Order.VBytes "2"; Order.VInt 1; Order.VInt 4]].
Proof.
  intros. split; [|vm_compute; reflexivity].
  eexists. split; [vm_compute; reflexivity|]. repeat split; vm_compute; reflexivity.
Qed.
