(* Properties/C10.v -- scalar functions and list indexing compute their documented values.
   Only property theorems (closed by [exact]), Print Assumptions, non-vacuity examples. *)
From Coq Require Import List String Ascii ZArith Bool.
Import ListNotations.
From KV Require Import Base.Bytes Base.Num Model.Ast Model.Value Model.Eval Proofs.FuncProofs.
Open Scope string_scope.

(* str renders an integer in decimal, int reads decimal text back: every int64 round-trips *)
Theorem str_int_roundtrip : forall z, in64 z = true -> parse_int (str_of_Z z) = Some z.
Proof. exact parse_int_str_of_Z. Qed.
Print Assumptions str_int_roundtrip.

Theorem int_str_roundtrip_fn : forall (fo : fops) args z, in64 z = true ->
  apply_func fo "int" args [apply_func fo "str" args [Ok (VInt z)]] = Ok (VInt z).
Proof. exact int_of_str. Qed.
Print Assumptions int_str_roundtrip_fn.

(* is_int tells whether that reading succeeds *)
Theorem is_int_iff_parses : forall (fo : fops) args s,
  apply_func fo "is_int" args [Ok (VBytes s)] =
    Ok (VBool (match parse_int s with Some _ => true | None => false end)).
Proof. exact is_int_spec. Qed.
Print Assumptions is_int_iff_parses.

(* split and join are mutual inverses.  join after split: every text, every non-empty
   separator.  split after join: a single-byte separator that occurs in no part (for longer
   separators the statement is not satisfiable by any split function, see the witness). *)
Theorem join_after_split : forall s sep l,
  sep <> "" -> split_str s sep = Some l -> join_str sep l = s.
Proof. exact join_split. Qed.
Print Assumptions join_after_split.

Theorem split_after_join : forall c parts,
  parts <> [] -> forallb (no_char c) parts = true ->
  split_str (join_str (String c "") parts) (String c "") = Some parts.
Proof. exact split_join_single_byte. Qed.
Print Assumptions split_after_join.

Theorem split_after_join_multibyte_refuted :
  join_str "aa" ["a"; ""] = join_str "aa" [""; "a"] /\ ["a"; ""] <> [""; "a"].
Proof. exact split_join_multibyte_refuted. Qed.

(* upper / lower map ASCII case byte by byte, strlen-preserving *)
Theorem upper_maps_ascii : forall s t, ascii_upper s = Some t ->
  String.length t = String.length s /\
  forall i c, String.get i s = Some c -> String.get i t = Some (upper_byte c).
Proof. exact ascii_upper_spec. Qed.
Print Assumptions upper_maps_ascii.

Theorem lower_maps_ascii : forall s t, ascii_lower s = Some t ->
  String.length t = String.length s /\
  forall i c, String.get i s = Some c -> String.get i t = Some (lower_byte c).
Proof. exact ascii_lower_spec. Qed.
Print Assumptions lower_maps_ascii.

(* len counts the elements of any list value *)
Theorem len_counts_elements : forall fo : fops,
  (forall l, list_length fo (VStrs l) = Some (Z.of_nat (List.length l))) /\
  (forall l, list_length fo (VInts l) = Some (Z.of_nat (List.length l))) /\
  (forall l, list_length fo (VFlts l) = Some (Z.of_nat (List.length l))).
Proof. exact list_length_spec. Qed.
Print Assumptions len_counts_elements.

(* int_list holds its converted arguments in order *)
Theorem int_list_in_order : forall (fo : fops) args (vals : list (value fo)) zs,
  map_res (to_int fo) vals = Ok zs ->
  apply_func fo "int_list" args (map Ok vals) = Ok (VInts zs).
Proof. exact int_list_order. Qed.
Print Assumptions int_list_in_order.

(* distances refuse vectors of different lengths and equal their formula *)
Theorem distances_refuse_unequal_lengths : forall (fo : fops) (l r : list (F fo)),
  List.length l <> List.length r ->
  l2_distance fo l r = Err EOther /\ cosine_distance fo l r = Err EOther.
Proof. exact distance_refuses_unequal_lengths. Qed.
Print Assumptions distances_refuse_unequal_lengths.

Theorem l2_distance_is_its_formula : forall (fo : fops) (l r : list (F fo)),
  List.length l = List.length r ->
  l2_distance fo l r =
    Ok (fsqrt fo (fold_left (fun tot ab => let d := fabs fo (fsub fo (fst ab) (snd ab)) in
                                           fadd fo tot (fmul fo d d))
                            (combine l r) (f_zero fo))).
Proof. exact l2_distance_formula. Qed.
Print Assumptions l2_distance_is_its_formula.

(* [n] returns element n, counting from 0, of a list value ("" beyond the end) *)
Theorem index_returns_nth : forall (fo : fops) re k v p l n d (xs : list bytes),
  eval fo re k v l = Ok (VStrs xs) -> parse_int d = Some (Z.of_nat n) ->
  eval fo re k v (EAccess p l (ENum 0 d)) =
    Ok (match nth_error xs n with Some x => VStr x | None => VStr "" end).
Proof. exact index_spec. Qed.
Print Assumptions index_returns_nth.

Theorem index_returns_nth_ints : forall (fo : fops) re k v p l n d (xs : list Z),
  eval fo re k v l = Ok (VInts xs) -> parse_int d = Some (Z.of_nat n) ->
  eval fo re k v (EAccess p l (ENum 0 d)) =
    Ok (match nth_error xs n with Some x => VInt x | None => VStr "" end).
Proof. exact index_spec_ints. Qed.
Print Assumptions index_returns_nth_ints.

(* substr(value, start, end): bytes start .. end-1, end clamped to the length *)
Theorem substr_is_the_range : forall s a b,
  (0 <= a)%Z -> (a < Z.min b (Z.of_nat (String.length s)))%Z ->
  substr_val s a b =
    String.substring (Z.to_nat a) (Z.to_nat (Z.min b (Z.of_nat (String.length s))) - Z.to_nat a) s.
Proof. exact substr_spec. Qed.
Print Assumptions substr_is_the_range.

Theorem substr_empty_range : forall s a b,
  (a < 0 \/ Z.min b (Z.of_nat (String.length s)) <= a)%Z -> substr_val s a b = "".
Proof. exact substr_empty. Qed.
Print Assumptions substr_empty_range.

(* non-vacuity *)
Example split_join_example :
  split_str (join_str "," ["a"; ""; "bc"]) "," = Some ["a"; ""; "bc"] /\
  forallb (no_char ","%char) ["a"; ""; "bc"] = true.
Proof. split; reflexivity. Qed.
Example roundtrip_example : parse_int (str_of_Z (-9223372036854775808)) = Some (-9223372036854775808)%Z.
Proof. reflexivity. Qed.
Example substr_example : substr_val "abcdef" 2 5 = "cde" /\ substr_val "abc" 2 1 = "".
Proof. split; reflexivity. Qed.

(* ================================================================== MACHINE-INTEGER EXTREMES
   (appended; Proofs/IndexExtremesProofs.v).  expression_exec.go execListAccess(int(fnval.Int), left)
   tests `idx < len(lval)` and returns "" otherwise; substr compares start / end with 0 and the
   length and forms no sum.  The twins use Z throughout (substr_val: comparisons only;
   [n]: nth_error at Z.to_nat idx), so the statements above already hold for every int64 argument;
   these theorems and examples pin the far end: an index at or beyond the length, up to 2^63-1,
   yields "" for every list representation (a theorem: the twin's unary position is never
   computed), the index of a NumberExpr lies in 0 .. 2^63-1, and substr at +-2^63. *)
From KV Require Import Proofs.IndexExtremesProofs.

Theorem index_beyond_end : forall (fo : fops) re k v p l d idx (xs : list bytes),
  eval fo re k v l = Ok (VStrs xs) ->
  parse_int d = Some idx -> (Z.of_nat (List.length xs) <= idx)%Z ->
  eval fo re k v (EAccess p l (ENum 0 d)) = Ok (VStr "").
Proof. exact index_beyond_end_strs. Qed.
Print Assumptions index_beyond_end.

Theorem index_beyond_end_int_list : forall (fo : fops) re k v p l d idx (xs : list Z),
  eval fo re k v l = Ok (VInts xs) ->
  parse_int d = Some idx -> (Z.of_nat (List.length xs) <= idx)%Z ->
  eval fo re k v (EAccess p l (ENum 0 d)) = Ok (VStr "").
Proof. exact index_beyond_end_ints. Qed.
Print Assumptions index_beyond_end_int_list.

Theorem index_beyond_end_float_list : forall (fo : fops) re k v p l d idx (xs : list (F fo)),
  eval fo re k v l = Ok (VFlts xs) ->
  parse_int d = Some idx -> (Z.of_nat (List.length xs) <= idx)%Z ->
  eval fo re k v (EAccess p l (ENum 0 d)) = Ok (VStr "").
Proof. exact index_beyond_end_flts. Qed.
Print Assumptions index_beyond_end_float_list.

(* the index written in the query ([num_value] of the NumberExpr's text, which has no sign: '-' is
   an operator character) is never negative and fits int64 *)
Theorem index_in_range : forall (d : string) (c : ascii) (r : string),
  d = String c r -> c <> "-"%char -> (0 <= num_value d < 2 ^ 63)%Z.
Proof. exact index_value_range. Qed.
Print Assumptions index_in_range.

Example index_extremes_example : forall (fo : fops) re,
  let sp := ECall 0 (EName 0 "split") [EField 6 ValueKW; EStr 13 ","] in
  eval fo re "k" "a,b" sp = Ok (VStrs ["a"; "b"]) /\
  eval fo re "k" "a,b" (EAccess 0 sp (ENum 0 "1")) = Ok (VStr "b") /\
  eval fo re "k" "a,b" (EAccess 0 sp (ENum 0 "2")) = Ok (VStr "") /\
  eval fo re "k" "a,b" (EAccess 0 sp (ENum 0 "2147483648")) = Ok (VStr "") /\
  eval fo re "k" "a,b" (EAccess 0 sp (ENum 0 "9223372036854775807")) = Ok (VStr "").
Proof.
  intros fo re sp.
  assert (H : eval fo re "k" "a,b" sp = Ok (VStrs ["a"; "b"])) by (vm_compute; reflexivity).
  split; [exact H|]. split; [vm_compute; reflexivity|]. split; [vm_compute; reflexivity|].
  split; (eapply index_beyond_end_strs; [exact H|vm_compute; reflexivity|vm_compute; discriminate]).
Qed.

Example substr_extremes_example :
  substr_val "abcdef" 2 (2 ^ 63 - 1) = "cdef" /\
  substr_val "abc" (2 ^ 63 - 1) (2 ^ 63 - 1) = "" /\
  substr_val "abc" (- 2 ^ 63) 3 = "" /\
  substr_val "abc" 0 (- 2 ^ 63) = "" /\
  substr_val "abc" 2147483648 4294967296 = "".
Proof. repeat split; vm_compute; reflexivity. Qed.
(* ------------------------------------------------------------------------------------------
   json(text) and navigation into the parsed document; cosine_distance's formula.
   Twin: Model/Json.v (funcJson / funcJsonVec, FieldAccessExpr.Execute / ExecuteBatch on JSON
   values, the JSON text fragment standing in for encoding/json); lemmas: Proofs/JsonProofs.v,
   Proofs/JsonTotalProofs.v, Proofs/CosineProofs.v. *)
From Coq Require Import Lia.
From KV Require Import Model.EvalVec Model.Json Proofs.JsonProofs Proofs.NoPanicProofs
                       Proofs.JsonTotalProofs Proofs.CosineProofs Base.Flt.

(* The text fragment is read back: every rendering of a document of the fragment -- ANY
   whitespace before, after and between the tokens ([json_text] / [renders]) -- parses to the
   document, where a repeated member name keeps its last value ([norm]) ... *)
Theorem json_parse_any_whitespace : forall d text, json_text d text -> parse_json text = JOk (norm d).
Proof. exact parse_json_text. Qed.
Print Assumptions json_parse_any_whitespace.

(* ... in particular the canonical rendering of every well-formed document (numerals and strings
   of the fragment, at most 1000 levels) ... *)
Theorem json_parse_render_last_wins : forall d, jwf max_depth d -> parse_json (render d) = JOk (norm d).
Proof. exact parse_render. Qed.
Print Assumptions json_parse_render_last_wins.

(* ... and a document without repeated member names comes back as it was written *)
Theorem json_parse_render : forall d,
  jwf max_depth d -> names_distinct d -> parse_json (render d) = JOk d.
Proof. exact parse_render_distinct. Qed.
Print Assumptions json_parse_render.

(* json(arg)[x1]...[xn], each xi a member name or an index literal: for every pair, every
   argument expression whose value is a text of the fragment denoting the document d, every
   path: where the documented navigation ([navigate]: the member of that name -- the last one
   written --, element n counting from 0, the empty string for an absent member / element and
   for every step from the empty string) yields j, the evaluator twin returns j as the Go value
   it is decoded into ([of_json]: object, array, string, float64 of the numeral, Boolean, nil).
   A top-level value that is not an object counts as an object without members. *)
Theorem json_navigate : forall (fo : fops) re k v p np arg a text d xs j,
  eval fo re k v arg = Ok a -> conv_bytes fo a = Some text -> json_text d text ->
  Forall xstep_ok xs ->
  navigate (json_top d) (map step_of xs) = Some j ->
  jeval fo re k v (chain (ECall p (EName np "json") [arg]) xs) = of_json fo (norm j).
Proof. exact json_navigate_lemma. Qed.
Print Assumptions json_navigate.

(* where a step does not apply (a name on an array, an index on an object, any step from a
   non-empty string, a number, a Boolean or null) the evaluation is an ExecuteError -- or the
   input is outside the model, when a numeral the float oracle does not cover is stepped on *)
Theorem json_navigate_type_error : forall (fo : fops) re k v xs base j0,
  jeval fo re k v base = of_json fo (norm j0) ->
  Forall xstep_ok xs ->
  navigate j0 (map step_of xs) = None ->
  (exists pos, jeval fo re k v (chain base xs) = Err (EExec pos)) \/
  jeval fo re k v (chain base xs) = OutOfModel.
Proof. exact navigate_chain_none. Qed.
Print Assumptions json_navigate_type_error.

(* the access twins never panic, in row mode and in batch mode, on any tree whose index
   literals are not negative (the lexer's NUMBER tokens are digit strings) -- whatever the
   stored values are: not JSON, arrays, wrong types *)
Theorem json_access_total : forall (fo : fops) re,
  (forall p t, re p t <> Panic) ->
  forall k v e, idx_ok e -> jeval fo re k v e <> Panic.
Proof. exact jeval_never_panics. Qed.
Print Assumptions json_access_total.

Theorem json_access_batch_total : forall (fo : fops) re,
  (forall p t, re p t <> Panic) ->
  forall e ch, idx_ok e -> jeval_batch fo re e ch <> Panic.
Proof. exact jeval_batch_never_panics. Qed.
Print Assumptions json_access_batch_total.

(* the guard of execListAccess is `idx < len` alone: a NumberExpr with a negative Int -- which no
   query text produces, only a hand-built tree -- makes the Go code index with it *)
Example negative_index_panics :
  match jeval prim_fops (fun _ _ => OutOfModel) "k" "{""l"":[1]}"
          (EAccess 0 (EAccess 0 (ECall 0 (EName 0 "json") [EField 5 ValueKW]) (EStr 12 "l")) (ENum 17 "-1"))
  with Panic => true | _ => false end = true.
Proof. vm_compute. reflexivity. Qed.

(* cosine_distance = 1 - (sum a_i*b_i) / (sqrt(sum a_i^2) * sqrt(sum b_i^2)), every sum a fold
   in index order from 0 *)
Theorem cosine_distance_is_its_formula : forall (fo : fops) (l r : list (F fo)),
  List.length l = List.length r ->
  cosine_distance fo l r =
    Ok (fsub fo (f_one fo)
          (fdiv fo (fold_left (fun t ab => fadd fo t (fmul fo (fst ab) (snd ab))) (combine l r) (f_zero fo))
                   (fmul fo (fsqrt fo (fold_left (fun t a => fadd fo t (fmul fo a a)) l (f_zero fo)))
                            (fsqrt fo (fold_left (fun t b => fadd fo t (fmul fo b b)) r (f_zero fo)))))).
Proof. exact cosine_distance_formula. Qed.
Print Assumptions cosine_distance_is_its_formula.

(* non-vacuity *)
Example json_renders_example :
  renders 1 (JArr [JNum "1"; JStr "x y"]) "[ 1 ,	""x y""
]".
Proof.
  exact (R_arr 0 _ _ (RE_cons 0 (JNum "1") [JStr "x y"] " " "1" " " _ eq_refl eq_refl (R_num 0 "1" eq_refl)
           (RE_last 0 (JStr "x y") (String "009" "") _ (String "010" "") eq_refl eq_refl (R_str 0 "x y" eq_refl)))).
Qed.
Definition example_doc : json :=
  JObj [("a", JObj [("b", JArr [JNum "10"; JStr "x"])]); ("n", JNum "-2.5"); ("e", JObj []);
        ("a", JObj [("b", JArr [JNum "1"; JStr "y"; JNull; JBool true])])].
Example json_wf_example : jwf max_depth example_doc /\ ~ names_distinct example_doc.
Proof.
  split; [cbn; repeat split; reflexivity|]. intros [H _]. cbn in H.
  inversion H as [|? ? Hn _]; subst. apply Hn. cbn. auto.
Qed.
Example json_text_example : json_text example_doc (" " ++ render example_doc ++ String "010" "").
Proof.
  exists " ", (render example_doc), (String "010" ""). repeat split.
  apply render_renders. apply json_wf_example.
Qed.
Example json_navigate_example :
  navigate (json_top example_doc) (map step_of [XName 4 16 "a"; XName 4 21 "b"; XIdx 4 26 "1"]) = Some (JStr "y") /\
  match jeval prim_fops (fun _ _ => OutOfModel) "k" (" " ++ render example_doc ++ String "010" "")
          (chain (ECall 0 (EName 0 "json") [EField 5 ValueKW]) [XName 4 16 "a"; XName 4 21 "b"; XIdx 4 26 "1"])
  with Ok (JV v) => canon_of prim_fops v | _ => COther end = CText "y" /\
  navigate (json_top example_doc) (map step_of [XName 4 16 "n"; XIdx 4 21 "0"]) = None /\
  navigate (json_top example_doc) (map step_of [XName 4 16 "zz"; XIdx 4 21 "3"; XName 4 24 "q"]) = Some (JStr "").
Proof. vm_compute. repeat split; reflexivity. Qed.
Example cosine_example :
  match cosine_distance prim_fops [f_of_Z prim_fops 3; f_of_Z prim_fops 4] [f_of_Z prim_fops 3; f_of_Z prim_fops 4]
  with Ok x => f_bits prim_fops x | _ => 1%Z end = f_bits prim_fops (f_zero prim_fops).
Proof. vm_compute. reflexivity. Qed.

(* batch mode: whenever ExecuteBatch of json(arg)[x1]...[xn] succeeds on a chunk (any length,
   any pairs), Execute succeeds on every pair of the chunk with the SAME value *)
From KV Require Import Proofs.JsonBatchProofs.
Theorem json_batch_is_row_by_row : forall (fo : fops) re p np arg xs ch col,
  jeval_batch fo re (chain (ECall p (EName np "json") [arg]) xs) ch = Ok col ->
  Forall2 (fun kv y => jeval fo re (fst kv) (snd kv) (chain (ECall p (EName np "json") [arg]) xs) = Ok y) ch col.
Proof. exact json_batch_is_rows. Qed.
Print Assumptions json_batch_is_row_by_row.

Example json_batch_example :
  match jeval_batch prim_fops (fun _ _ => OutOfModel)
          (chain (ECall 0 (EName 0 "json") [EField 5 ValueKW]) [XName 4 16 "a"; XIdx 4 21 "1"])
          [("k1", "{""a"":[1,""x""]}"); ("k2", "not json"); ("k3", "{""a"":""""}")]
  with Ok [JV a; JV b; JV c] => [canon_of prim_fops a; canon_of prim_fops b; canon_of prim_fops c] | _ => [] end
  = [CText "x"; CText ""; CText ""].
Proof. vm_compute. reflexivity. Qed.
