(* Properties/C11.v -- DELETE removes exactly the pairs its WHERE (and LIMIT) selects, nothing
   else.  Only property theorems (closed by [exact]), Print Assumptions, non-vacuity examples
   and the refuted variant.

   Setting (Model/Storage.v, Model/ScanIO.v): the store is a list of pairs strictly sorted by
   key; cursors are snapshots; no storage fault; the scans carry the `done` flag
   (remember_end = true); the WHERE filter is its per-pair verdict [flt].  A plan is a scan
   (empty / full / prefix / range / point reads of sorted distinct keys) under any nesting of
   limit nodes.  [Rsel flt p d] is what SELECT * over the plan denotes on the store [d]:
   filter flt (filter (key in the scan's region) d), sliced firstn count (skipn start _) per
   limit node.  [B] is PlanBatchSize, [fuel] bounds the twins' loops (any value above
   |store| + |point-read keys| + 2 will do). *)
From Coq Require Import List String Bool Arith Lia.
Import ListNotations.
From KV Require Import Base.Bytes Model.Ast Model.Storage Model.Write Model.ScanIO Model.FilterOpt
                       Model.ScanSem Model.Delete Spec.KeySem
                       Proofs.StorageProofs Proofs.WriteProofs Proofs.FilterOptProofs
                       Proofs.ScanSemProofs Proofs.ShortcutProofs Proofs.DeleteProofs.
Local Open Scope list_scope.
Local Open Scope nat_scope.

(* ------------------------------------------------------------------ what SELECT * returns *)

(* row mode: BuildPlan (two Init calls), then Next until nil, returns exactly the pairs of the
   plan's region that pass the filter, in store order (sliced under LIMIT); the storage is left
   as it was and the reads stay inside the region ([reads_ok], below) *)
Theorem scan_rows_row :
  forall (flt : kvp -> bool) (fuel : nat) (p : plan) (d : store) (l0 : list scall),
  ssorted d -> keys_ok p -> List.length d + plan_keys p < fuel ->
  exists l, run_read (select_rows true flt fuel p) (SState d l0 None)
            = (Ok (Rsel flt p d), SState d (l0 ++ l) None)
            /\ reads_ok (leaf p) l.
Proof. exact scan_rows_row_lemma. Qed.
Print Assumptions scan_rows_row.

(* batch mode, every batch size >= 1: Batch until the empty batch; the concatenation of the
   batches is the same list and no batch before the end is empty *)
Theorem scan_rows_batch :
  forall (flt : kvp -> bool) (B fuel : nat) (p : plan) (d : store) (l0 : list scall),
  1 <= B -> ssorted d -> keys_ok p -> List.length d + plan_keys p < fuel ->
  exists outs l, run_read (select_batches true flt B fuel p) (SState d l0 None)
                 = (Ok outs, SState d (l0 ++ l) None)
                 /\ List.concat outs = Rsel flt p d /\ Forall (@nonempty kvp) outs
                 /\ reads_ok (leaf p) l.
Proof. exact scan_rows_batch_lemma. Qed.
Print Assumptions scan_rows_batch.

(* both modes, as one statement about the call log *)
Theorem reads_within_region :
  forall (flt : kvp -> bool) (B fuel : nat) (m : mode) (p : plan) (d : store) (l0 : list scall),
  1 <= B -> ssorted d -> keys_ok p -> List.length d + plan_keys p < fuel ->
  exists l, select_log true flt B fuel m p (SState d l0 None) = l0 ++ l /\ reads_ok (leaf p) l.
Proof. exact reads_within_region_lemma. Qed.
Print Assumptions reads_within_region.

(* [Rsel] spelled out for the two plan shapes BuildPlan produces *)
Theorem rsel_scan : forall flt sc d,
  Rsel flt (PScan sc) d = filter flt (filter (fun kv => covers (region_of sc) (fst kv)) d).
Proof. exact (fun _ _ _ => eq_refl). Qed.
Theorem rsel_limit : forall flt s n sc d,
  Rsel flt (PLimit s n (PScan sc)) d
  = firstn n (skipn s (filter flt (filter (fun kv => covers (region_of sc) (fst kv)) d))).
Proof. exact (fun _ _ _ _ _ => eq_refl). Qed.
Print Assumptions rsel_limit.

(* [reads_ok] spelled out: an empty plan issues no storage call; point reads issue only Get
   calls on listed keys; a cursor scan issues only Cursor / Seek / Next calls and every key a
   Next returned lies in the region, except at most one, which is the last *)
Theorem reads_ok_empty : forall l, reads_ok SEmpty l <-> l = [].
Proof. exact (fun l => conj (fun H => H) (fun H => H)). Qed.
Theorem reads_ok_point_reads : forall keys l,
  reads_ok (SMget keys) l <-> Forall (fun c => exists k, c = CGet k /\ In k keys) l.
Proof. exact (fun keys l => conj (fun H => H) (fun H => H)). Qed.
Theorem reads_ok_prefix : forall p l,
  reads_ok (SPrefix p) l <->
  forallb is_cursor_call l = true /\
  exists inside tail, next_keys l = inside ++ tail /\
    Forall (fun k => has_prefix p k = true) inside /\ List.length tail <= 1.
Proof. exact (fun p l => conj (fun H => H) (fun H => H)). Qed.
Theorem reads_ok_range : forall lo hi l,
  reads_ok (SRange lo hi) l <->
  forallb is_cursor_call l = true /\
  exists inside tail, next_keys l = inside ++ tail /\
    Forall (fun k => covers (RRange lo hi) k = true) inside /\ List.length tail <= 1.
Proof. exact (fun lo hi l => conj (fun H => H) (fun H => H)). Qed.
Print Assumptions reads_ok_range.

(* ------------------------------------------------------------------ DELETE is exact *)

(* delete over a plan (DeletePlan over the scan, or over LimitPlan over the scan), from
   BuildPlan's Init calls to the caller's last poll: the statement succeeds with one row, the
   store is the prior store minus exactly the keys SELECT * over the same plan returns on the
   prior store ([sel], by scan_rows_row and scan_rows_batch), every other key keeps its value, the store stays
   sorted, no Put / BatchPut is logged, the keys handed to BatchDelete are exactly those of
   [sel], in order, and the read calls stay inside the scan's region like those of the SELECT *)
Theorem delete_exact :
  forall (flt : kvp -> bool) (B fuel : nat) (c : plan) (d : store) (l0 : list scall),
  1 <= B -> ssorted d -> keys_ok c -> List.length d + plan_keys c + 2 <= fuel ->
  let sel := Rsel flt c d in
  exists s', run exec_req (delete_prog true flt B fuel c) (SState d l0 None) = (Ok [1], s') /\
    sdata s' = filter (fun kv => negb (mem (fst kv) (map fst sel))) d /\
    (forall k, sget k (sdata s') = if mem k (map fst sel) then None else sget k d) /\
    ssorted (sdata s') /\ sfault s' = None /\
    exists ext, slog s' = l0 ++ ext /\ forallb no_put ext = true /\ deleted_keys ext = map fst sel /\
                reads_ok (leaf c) (reads ext).
Proof. exact delete_exact_lemma. Qed.
Print Assumptions delete_exact.

(* the RemovePlan shortcut and the scan-and-delete loop leave the same store, provided the
   filter is true on every listed key that is present ... *)
Theorem delete_strategy_irrelevant :
  forall (flt : kvp -> bool) (B fuel : nat) (keys : list bytes) (d : store),
  1 <= B -> ssorted d -> ksorted keys -> List.length d + List.length keys + 2 <= fuel ->
  (forall kv, In kv d -> In (fst kv) keys -> flt kv = true) ->
  sdata (run_delete flt B fuel (DRemove keys) (sinit d None))
  = sdata (run_delete flt B fuel (DScan (PScan (SMget keys))) (sinit d None)).
Proof. exact delete_strategy_irrelevant_lemma. Qed.
Print Assumptions delete_strategy_irrelevant.

(* ... and that proviso holds whenever the optimizer takes the shortcut: for a filter without
   AND whose inferred region is a key list, the filter's reference semantics on ANY pair is
   "the key is listed" (it evaluates, and does not look at the value) *)
Theorem delete_shortcut_premise :
  forall (opq : expr -> option bool) (e : expr) (ks : list bytes),
  has_and e = false -> optimize e = RMget ks ->
  forall k v, psem opq k v e = Some (mem k ks).
Proof. exact optimize_mget_exact. Qed.
Print Assumptions delete_shortcut_premise.

(* the whole statement from its WHERE tree: whichever plan buildDeletePlan chooses (empty
   result, full / prefix / range scan, point reads, the RemovePlan shortcut; with or without
   LIMIT), the store loses exactly the pairs on which the filter is true under the reference
   semantics of Spec/KeySem.v, sliced by LIMIT in key order *)
Theorem delete_statement_exact :
  forall (opq : bytes -> bytes -> expr -> option bool) (e : expr) (limit : option (nat * nat))
         (B fuel : nat) (d : store),
  1 <= B -> ssorted d -> List.length d + dplan_keys (build_delete e limit) + 2 <= fuel ->
  let flt := accepts opq e in
  let sel := limit_slice limit (filter flt d) in
  sdata (run_delete flt B fuel (build_delete e limit) (sinit d None))
  = filter (fun kv => negb (mem (fst kv) (map fst sel))) d.
Proof. exact delete_statement_exact_lemma. Qed.
Print Assumptions delete_statement_exact.

(* sequences of put / remove / delete / select statements refine the reference semantics on
   maps step by step, and keep the store strictly sorted *)
Theorem history_refines_map :
  forall (hs : list hstmt) (s : sstate) (m m' : kvmap),
  sfault s = None -> ssorted (sdata s) -> agrees s m -> hseq_spec hs m m' ->
  agrees (run_history hs s) m' /\ ssorted (sdata (run_history hs s)).
Proof. exact history_refines_map_lemma. Qed.
Print Assumptions history_refines_map.

(* ------------------------------------------------------------------ non-vacuity *)
Local Open Scope string_scope.

Definition ex_store : store :=
  [("a","x"); ("ab","y"); ("abc","x"); ("ac","x"); ("b","x"); ("ba","x")].
Definition ex_flt (kv : kvp) : bool := String.eqb (snd kv) "x".

(* delete where key ^= 'a' & value = 'x' limit 1, 2 at batch size 1: the hypotheses hold, the
   selected pairs are abc and ac (a is skipped, ab fails the filter), and the run deletes them
   in two BatchDelete calls *)
Example delete_exact_nonvacuous :
  ssorted ex_store /\ keys_ok (PLimit 1 2 (PScan (SPrefix "a"))) /\
  Rsel ex_flt (PLimit 1 2 (PScan (SPrefix "a"))) ex_store = [("abc","x"); ("ac","x")] /\
  run exec_req (delete_prog true ex_flt 1 20 (PLimit 1 2 (PScan (SPrefix "a")))) (sinit ex_store None)
  = (Ok [1%nat],
     SState [("a","x"); ("ab","y"); ("b","x"); ("ba","x")]
            [CCursor; CSeek "a"; CCursor; CSeek "a"; CNext (Some "a"); CNext (Some "ab");
             CNext (Some "abc"); CBatchDelete ["abc"]; CNext (Some "ac"); CBatchDelete ["ac"]]
            None).
Proof. split; [cbn; auto 10|]. split; [exact I|]. split; reflexivity. Qed.

(* delete where key in ('b','a','zz') -- no AND, no LIMIT: the optimizer takes the shortcut; the
   premise of delete_shortcut_premise holds for it *)
Definition ex_in : expr :=
  EBin 0 OIn (EField 0 KeyKW) (EList 0 [EStr 0 "b"; EStr 0 "a"; EStr 0 "zz"]).
Example shortcut_nonvacuous :
  has_and ex_in = false /\ optimize ex_in = RMget ["b"; "a"; "zz"] /\
  build_delete ex_in None = DRemove ["a"; "b"; "zz"] /\
  sdata (run_delete (accepts (fun _ _ _ => None) ex_in) 2 20 (build_delete ex_in None) (sinit ex_store None))
  = [("ab","y"); ("abc","x"); ("ac","x"); ("ba","x")].
Proof. repeat split; reflexivity. Qed.

(* put, delete with limit, select, remove: a history whose specification side is inhabited *)
Example history_nonvacuous :
  let hs := [HPut [("c","x"); ("a","y")];
             HDelete ex_flt 2 30 (DScan (PLimit 0 3 (PScan SFull)));
             HSelect ex_flt 2 30 BatchMode (PScan (SRange (Some "a") None));
             HRemove ["ba"; "nope"]] in
  sdata (run_history hs (sinit ex_store None)) = [("a","y"); ("ab","y"); ("c","x")] /\
  exists m', hseq_spec hs (fun k => sget k ex_store) m'.
Proof.
  split; [reflexivity|]. eexists.
  eapply hseq_cons; [apply hs_put|].
  eapply hseq_cons.
  { apply hs_delete with (d := [("a","y"); ("ab","y"); ("abc","x"); ("ac","x"); ("b","x"); ("ba","x"); ("c","x")]);
      [cbn; auto 10|intros k; rewrite <- sget_sput_all; reflexivity|lia|exact I|cbn; lia]. }
  eapply hseq_cons.
  { apply hs_select with (d := [("a","y"); ("ab","y"); ("ba","x"); ("c","x")]);
      [cbn; auto 10| |lia|exact I|cbn; lia].
    intros k. cbn [ddeleted Rsel region_of covers].
    change (sget k [("a","y"); ("ab","y"); ("ba","x"); ("c","x")])
      with (sget k (sdel_all ["abc"; "ac"; "b"] (sput_all [("c","x"); ("a","y")] ex_store))).
    rewrite sget_sdel_all, sget_sput_all. reflexivity. }
  eapply hseq_cons; [apply hs_remove|]. apply hseq_nil.
Qed.

(* ------------------------------------------------------------------ why the `done` flag *)

(* regression witness for the code before the fix of DESIGN §3 D23 (remember_end = false): a
   prefix scan under a limit node, drained in batches of 2, reads two keys beyond the prefix *)
Theorem reads_within_region_without_done_flag_refuted :
  exists (flt : kvp -> bool) (B fuel : nat) (p : plan) (d : store),
    1 <= B /\ ssorted d /\ keys_ok p /\ List.length d + plan_keys p < fuel /\
    ~ reads_ok (leaf p) (select_log false flt B fuel BatchMode p (sinit d None)).
Proof. exact reads_within_region_needs_done_flag_lemma. Qed.
Print Assumptions reads_within_region_without_done_flag_refuted.

(* ------------------------------------------------------------------ why snapshot cursors *)

(* with a cursor that is a position in the live data (Model/Delete.live_delete_execute: the
   same loop, Batch reading from the cursor's position in the data as it is now), delete where
   true at batch size 1 leaves every second pair: the statement above is false without the
   snapshot premise *)
Theorem live_cursor_refuted :
  exists (B : nat) (d : store),
    1 <= B /\ ssorted d /\
    Rsel (fun _ => true) (PScan SFull) d = d /\
    live_delete_execute (S (List.length d)) B 0 d
    <> filter (fun kv => negb (mem (fst kv) (map fst (Rsel (fun _ => true) (PScan SFull) d)))) d.
Proof. exact live_cursor_refuted_lemma. Qed.
Print Assumptions live_cursor_refuted.

(* ============================================================================================
   FROM THE QUERY TEXT.  Model/PipelineW.v [delete_text] is the twin of
   kvql.NewOptimizer(q).BuildPlan(store) at PlanBatchSize = B, polled until nil, for DELETE: lexer,
   statement parser (parseDelete + parseLimit: pure syntax), Check + Boolean WHERE,
   function-call check, constant folding of the WHERE tree (optimizeDeleteExpressions), region
   inference AND the RemovePlan-shortcut test (no AND) on the FOLDED tree, LIMIT, then
   Delete.build_delete / Delete.run_delete as above -- in the order of optimizer.go.  Corr/C11.v
   ([KText] cases) compares it with the implementation on every run: accepted / rejected and
   error position, the plan that was built, write calls, final state.
   [parsed_text fo is_delete_kind q = TOk (StDelete p wp P lim)]: the parser twin reads q as
   `delete where P [limit ..]`, P being the tree the parser returns, unchecked and UNFOLDED;
   [limit_of lim = Some limit]: its LIMIT as (offset, count) (None = no LIMIT).                  *)
From Coq Require Import ZArith.
From KV Require Import Model.Value Model.Eval Model.StmtParser Model.Pipeline Model.PipelineW
                       Spec.Sem Proofs.LinkProofs Proofs.SelectStarProofs Proofs.FoldProofs
                       Proofs.PipelineProofs Proofs.PipelineWProofs.

(* END TO END FROM THE TEXT.  For every float structure, regexp oracle pair (assumed to agree),
   float formatter that re-parses to the same float (fmt "%v"), DELETE text q, store d and batch
   size: if the parser twin reads q as `delete where P [limit]`, d is strictly sorted by key,
   P is evaluable on every stored pair under the reference semantics Spec/Sem.v, every
   re-association of a float chain the folder performs on P is exact on the stored pairs (C04's
   premise; vacuous without float operands in + / * chains), the batch size is >= 1 and the
   pipeline accepts the text, THEN the final store is the prior store minus exactly the keys of
     sel = the stored pairs on which the reference semantics of the PARSED, UNFOLDED tree is
           true, in key order, sliced firstn count (skipn offset _) by the LIMIT
   (what `select * where P [limit]` denotes: select_text_exact, C08's slice), every other key
   keeps its value, the store stays sorted, nothing is put, every selected key is deleted, and a
   deleted key that was stored is a selected key (the RemovePlan shortcut also hands listed keys
   that are not stored to Delete / BatchDelete) *)
Theorem delete_text_exact :
  forall (fo : fops) (re_match : bytes -> bytes -> Value.res bool) (re_spec : bytes -> bytes -> option bool)
         (fmt_v : F fo -> string),
  (forall p t b, re_spec p t = Some b -> re_match p t = Value.Ok b) ->
  (forall f, f_parse fo (fmt_v f) = PF_ok f) ->
  forall (q : string) (p wp : nat) (P : expr) (lim : option limit_t) (limit : option (nat * nat))
         (B : nat) (d : store),
  parsed_text fo is_delete_kind q = TOk (StmtParser.StDelete p wp P lim) ->
  limit_of lim = Some limit ->
  1 <= B ->
  ssorted d ->
  (forall kv, In kv d -> evaluable fo re_spec P kv) ->
  (forall kv, In kv d -> reassoc_exact fo re_match fmt_v P (fst kv) (snd kv)) ->
  forall (dp : dplan) (s' : sstate),
  delete_text fo re_match fmt_v q B (sinit d None) = (TOk dp, s') ->
  let sel := limit_slice limit (filter (selects fo re_spec P) d) in
  sdata s' = filter (fun kv => negb (mem (fst kv) (map fst sel))) d /\
  (forall k, sget k (sdata s') = if mem k (map fst sel) then None else sget k d) /\
  ssorted (sdata s') /\
  forallb no_put (slog s') = true /\
  (forall k, In k (map fst sel) -> In k (deleted_keys (slog s'))) /\
  (forall k, In k (deleted_keys (slog s')) -> In k (map fst d) -> In k (map fst sel)).
Proof. exact delete_text_exact_lemma. Qed.
Print Assumptions delete_text_exact.

(* nothing is touched if the text is not accepted (rejected with a position, or outside the model) *)
Theorem delete_text_not_accepted_untouched :
  forall (fo : fops) (re_match : bytes -> bytes -> Value.res bool) (fmt_v : F fo -> string)
         (q : string) (B : nat) (s : sstate) (r : tres dplan) (s' : sstate),
  delete_text fo re_match fmt_v q B s = (r, s') -> (forall dp, r <> TOk dp) -> s' = s.
Proof. exact delete_text_not_accepted_untouched_lemma. Qed.
Print Assumptions delete_text_not_accepted_untouched.

(* the layer the composition needed beyond delete_exact / delete_shortcut_premise: buildDeletePlan
   and the run for ANY per-pair verdict and ANY tree the plan is built from, provided that on the
   stored pairs the inferred region covers what the verdict accepts and, when the tree qualifies
   for the shortcut, the verdict is "the key is listed" *)
Theorem build_delete_exact :
  forall (flt : kvp -> bool) (e : expr) (B fuel : nat) (d : store),
  1 <= B -> ssorted d ->
  (forall kv, In kv d -> flt kv = true -> covers (optimize e) (fst kv) = true) ->
  (has_and e = false -> forall ks, optimize e = RMget ks -> forall kv, In kv d -> flt kv = mem (fst kv) ks) ->
  forall limit : option (nat * nat),
  List.length d + dplan_nkeys (build_delete e limit) + 2 <= fuel ->
  delete_facts d (limit_slice limit (filter flt d)) (run_delete flt B fuel (build_delete e limit) (sinit d None)).
Proof. exact build_delete_facts. Qed.
Print Assumptions build_delete_exact.

(* ------------------------------------------------------------------ non-vacuity (float-free,
   for every float structure) *)
Local Open Scope string_scope.

(* scan-and-delete under LIMIT, with a constant call that is folded before the region is
   inferred: the parsed tree compares key with lower('A') (no prefix scan could be planned for
   it); the plan is DeletePlan over LimitPlan over the prefix scan of "a"; the premises hold for
   the PARSED tree; the pairs deleted are those the reference semantics of the parsed tree
   selects, sliced by the LIMIT *)
Definition ex_dtext : string := "delete where key ^= lower('A') & value = 'x' limit 1, 2".
Definition ex_dtree : expr :=
  EBin 31 OAnd (EBin 17 OPrefixMatch (EField 13 KeyKW) (ECall 20 (EName 20 "lower") [EStr 26 "A"]))
               (EBin 39 OEq (EField 33 ValueKW) (EStr 41 "x")).

Example delete_text_exact_nonvacuous :
  forall (fo : fops) (re_match : bytes -> bytes -> Value.res bool) (re_spec : bytes -> bytes -> option bool)
         (fmt_v : F fo -> string),
    parsed_text fo is_delete_kind ex_dtext = TOk (StmtParser.StDelete 0 7 ex_dtree (Some (Limit 45 1%Z 2%Z))) /\
    limit_of (Some (Limit 45 1%Z 2%Z)) = Some (Some (1, 2)) /\
    ssorted ex_store /\
    (forall kv, In kv ex_store -> evaluable fo re_spec ex_dtree kv) /\
    (forall kv, In kv ex_store -> reassoc_exact fo re_match fmt_v ex_dtree (fst kv) (snd kv)) /\
    limit_slice (Some (1, 2)) (filter (selects fo re_spec ex_dtree) ex_store) = [("abc","x"); ("ac","x")] /\
    delete_text fo re_match fmt_v ex_dtext 1 (sinit ex_store None)
    = (TOk (DScan (PLimit 1 2 (PScan (SPrefix "a")))),
       SState [("a","x"); ("ab","y"); ("b","x"); ("ba","x")]
              [CCursor; CSeek "a"; CCursor; CSeek "a"; CNext (Some "a"); CNext (Some "ab");
               CNext (Some "abc"); CBatchDelete ["abc"]; CNext (Some "ac"); CBatchDelete ["ac"]]
              None).
Proof.
  intros fo re_match re_spec fmt_v.
  split; [vm_compute; reflexivity|].
  split; [reflexivity|].
  split; [cbn; auto 10|].
  split.
  { intros kv Hin. cbn [In ex_store] in Hin.
    destruct Hin as [<-|[<-|[<-|[<-|[<-|[<-|[]]]]]]]; eexists; vm_compute; reflexivity. }
  split.
  { intros kv Hin. cbn [In ex_store] in Hin.
    destruct Hin as [<-|[<-|[<-|[<-|[<-|[<-|[]]]]]]]; reassoc_close fo re_match fmt_v ex_dtree. }
  split; vm_compute; reflexivity.
Qed.

(* the RemovePlan shortcut from the text: no AND, no LIMIT, and the literal concatenation is folded
   BEFORE the region is inferred, so the filter is a key list; the listed key "zz" is not stored
   and is handed to BatchDelete all the same *)
Definition ex_stext : string := "delete where key in ('b', 'zz') | key = 'a' + 'b'".
Definition ex_stree : expr :=
  EBin 32 OOr (EBin 17 OIn (EField 13 KeyKW) (EList 17 [EStr 21 "b"; EStr 26 "zz"]))
              (EBin 38 OEq (EField 34 KeyKW) (EBin 44 OAdd (EStr 40 "a") (EStr 46 "b"))).

Example delete_text_shortcut_nonvacuous :
  forall (fo : fops) (re_match : bytes -> bytes -> Value.res bool) (re_spec : bytes -> bytes -> option bool)
         (fmt_v : F fo -> string),
    parsed_text fo is_delete_kind ex_stext = TOk (StmtParser.StDelete 0 7 ex_stree None) /\
    (forall kv, In kv ex_store -> evaluable fo re_spec ex_stree kv) /\
    (forall kv, In kv ex_store -> reassoc_exact fo re_match fmt_v ex_stree (fst kv) (snd kv)) /\
    filter (selects fo re_spec ex_stree) ex_store = [("ab","y"); ("b","x")] /\
    delete_text fo re_match fmt_v ex_stext 2 (sinit ex_store None)
    = (TOk (DRemove ["ab"; "b"; "zz"]),
       SState [("a","x"); ("abc","x"); ("ac","x"); ("ba","x")] [CBatchDelete ["ab"; "b"; "zz"]] None).
Proof.
  intros fo re_match re_spec fmt_v.
  split; [vm_compute; reflexivity|].
  split.
  { intros kv Hin. cbn [In ex_store] in Hin.
    destruct Hin as [<-|[<-|[<-|[<-|[<-|[<-|[]]]]]]]; eexists; vm_compute; reflexivity. }
  split.
  { intros kv Hin. cbn [In ex_store] in Hin.
    destruct Hin as [<-|[<-|[<-|[<-|[<-|[<-|[]]]]]]]; reassoc_close fo re_match fmt_v ex_stree. }
  split; vm_compute; reflexivity.
Qed.

(* the shapes that just do not qualify: a LIMIT, or an AND that survives folding, keep the
   scan-and-delete plan over the point reads; an AND that is folded away does not *)
Example delete_text_shortcut_boundary_example :
  forall (fo : fops) (re_match : bytes -> bytes -> Value.res bool) (fmt_v : F fo -> string),
    fst (delete_text fo re_match fmt_v "delete where key = 'a'" 2 (sinit ex_store None)) = TOk (DRemove ["a"]) /\
    fst (delete_text fo re_match fmt_v "delete where key = 'a' limit 5" 2 (sinit ex_store None))
      = TOk (DScan (PLimit 0 5 (PScan (SMget ["a"])))) /\
    fst (delete_text fo re_match fmt_v "delete where key = 'a' & value = 'x'" 2 (sinit ex_store None))
      = TOk (DScan (PScan (SMget ["a"]))) /\
    fst (delete_text fo re_match fmt_v "delete where key = 'a' & 1 = 1" 2 (sinit ex_store None)) = TOk (DRemove ["a"]).
Proof. intros. repeat split; vm_compute; reflexivity. Qed.

(* texts the front end rejects, with the position of the SyntaxError: a WHERE clause that is not
   Boolean, an aggregate function (found by checkStatementFunctionCalls after Parse), tokens after
   the LIMIT, a LIMIT without parameters at the end of the text (-1) *)
Example delete_text_rejects_example :
  forall (fo : fops) (re_match : bytes -> bytes -> Value.res bool) (fmt_v : F fo -> string) (s : sstate),
    delete_text fo re_match fmt_v "delete where key" 2 s = (TReject 13%Z, s) /\
    delete_text fo re_match fmt_v "delete where count(key) > 0" 2 s = (TReject 13%Z, s) /\
    delete_text fo re_match fmt_v "delete where key = 'a' limit 1 order by key" 2 s = (TReject 31%Z, s) /\
    delete_text fo re_match fmt_v "delete where key = 'a' limit" 2 s = (TReject (-1)%Z, s).
Proof. intros. repeat split; vm_compute; reflexivity. Qed.

(* ================================================================== MACHINE INTEGERS
   (appended; Model/Limit64.v delete_limit64 = DeletePlan.execute over LimitPlan.Batch with the
   Go ints as int64 with wrap-around, Proofs/Limit64Proofs.v).  DELETE ... LIMIT s, n for every
   int64 s, n (negative values, which the parser cannot produce, act as 0), every PlanBatchSize and every scan output [bs] (non-empty batches, fewer than
   2^63 pairs): the batches handed to BatchDelete are non-empty, their concatenation is exactly
   rows s .. s+n-1 of the scan's output, and the number DeletePlan reports (count += nrows) is
   their number -- no wrap-around anywhere. *)
From KV Require Import Base.Num Model.Limit64 Proofs.Limit64Proofs Proofs.LimitProofs.

Theorem delete_limit_machine_keys : forall (A : Type) (B s n : Z) (bs : list (list A)),
  (s < 2 ^ 63)%Z -> (n < 2 ^ 63)%Z -> (Z.of_nat (tot bs) < 2 ^ 63)%Z ->
  Forall nonempty bs ->
  exists outs, delete_limit64 B s n bs = Some (outs, Z.of_nat (tot outs)) /\
               List.concat outs = firstn (Z.to_nat n) (skipn (Z.to_nat s) (List.concat bs)) /\
               Forall nonempty outs.
Proof. exact delete_limit_machine_all. Qed.
Print Assumptions delete_limit_machine_keys.

Example delete_limit_machine_extremes :
  delete_limit64 2 1 (2 ^ 63 - 1)%Z [[1; 2]; [3]; [4; 5; 6]]%nat%list
    = Some ([[2; 3]; [4; 5; 6]]%nat%list, 5%Z) /\
  delete_limit64 2 (2 ^ 63 - 1)%Z (2 ^ 63 - 1)%Z [[1; 2]; [3]; [4; 5; 6]]%nat%list = Some ([], 0%Z).
Proof. split; vm_compute; reflexivity. Qed.
