(* Properties/C12.v -- PUT and REMOVE apply exactly the stated writes, once, all-or-nothing.
   Only property theorems here, each closed by [exact <lemma>] and followed by Print Assumptions.

   All theorems hold for EVERY expression type E and EVERY evaluator
     ev : E -> key -> value -> res bytes        (= toString (e.Execute (KVPair{key,value}, ctx)))
   hence in particular for the evaluator twin over Model/Ast.expr: what is proved here is the
   behaviour of PutPlan / RemovePlan (put_plan.go, remove_plan.go) and of the reference storage,
   not of expression evaluation.
     pairs_eval prs kvs : pair i evaluates to (k_i, v_i) -- key expression on the empty pair,
                          value expression on the pair whose key is k_i
     pair_fails pr      : the key expression, or the value expression given the evaluated key, errs
     wexec ev plan polls s : BuildPlan, then the polls (Next / Batch in any order), from storage
                          state s (data, call log, optional fault index)                       *)
From Coq Require Import List String Bool.
Import ListNotations.
From KV Require Import Base.Bytes Model.Storage Model.Write Model.ScanIO Proofs.StorageProofs
                       Proofs.WriteProofs Proofs.ScanIOProofs.
Local Open Scope list_scope.

(* put (k1,v1),...,(kn,vn): the final data is the prior data overwritten in order by the
   evaluated pairs -- as a store, as a map (a lookup returns the LAST binding of the key in the
   statement, else the prior value), it stays strictly sorted, and the first poll reports n *)
Theorem put_effect :
  forall (E : Type) (ev : E -> bytes -> bytes -> res bytes)
         (prs : list (E * E)) (kvs : list kvp) (p : poll) (polls : list poll) (st : store),
  pairs_eval ev prs kvs ->
  let out := wexec ev (WPut prs) (p :: polls) (sinit st None) in
  sdata (snd out) = fold_left (fun s kv => sput (fst kv) (snd kv) s) kvs st
  /\ (forall k, sget k (sdata (snd out)) = last_binding k kvs (sget k st))
  /\ (ssorted st -> ssorted (sdata (snd out)))
  /\ fst out = (Some (List.length kvs), None) :: idle (List.length polls).
Proof. exact put_effect_lemma. Qed.
Print Assumptions put_effect.

(* remove k1,...,kn: the prior data minus those keys *)
Theorem remove_effect :
  forall (E : Type) (ev : E -> bytes -> bytes -> res bytes)
         (ks : list E) (keys : list bytes) (p : poll) (polls : list poll) (st : store),
  keys_eval ev ks keys ->
  let out := wexec ev (WRemove ks) (p :: polls) (sinit st None) in
  sdata (snd out) = fold_left (fun s k => sdel k s) keys st
  /\ (forall k, sget k (sdata (snd out)) = if existsb (String.eqb k) keys then None else sget k st)
  /\ (ssorted st -> ssorted (sdata (snd out)))
  /\ fst out = (Some (List.length keys), None) :: idle (List.length polls).
Proof. exact remove_effect_lemma. Qed.
Print Assumptions remove_effect.

(* exactly once, for ALL polling sequences and all storage states (any earlier log, any fault
   index): every poll after the first returns nil without error and changes nothing ... *)
Theorem exactly_once :
  forall (E : Type) (ev : E -> bytes -> bytes -> res bytes)
         (pl : wplan E) (p : poll) (polls : list poll) (s : sstate),
  wexec ev pl (p :: polls) s =
    (fst (wexec ev pl [p] s) ++ idle (List.length polls), snd (wexec ev pl [p] s)).
Proof. exact polls_idempotent. Qed.
Print Assumptions exactly_once.

(* ... and the statement's whole storage traffic is the ONE call of the evaluated pairs:
   Put for one pair, BatchPut for more, nothing for none (Delete / BatchDelete alike) *)
Theorem put_once :
  forall (E : Type) (ev : E -> bytes -> bytes -> res bytes)
         (prs : list (E * E)) (kvs : list kvp) (p : poll) (polls : list poll) (s : sstate),
  pairs_eval ev prs kvs ->
  slog (snd (wexec ev (WPut prs) (p :: polls) s)) = slog s ++ put_call kvs
  /\ wexec ev (WPut prs) (p :: polls) s =
       (fst (wexec ev (WPut prs) [p] s) ++ idle (List.length polls), snd (wexec ev (WPut prs) [p] s)).
Proof. exact put_once_lemma. Qed.
Print Assumptions put_once.

Theorem remove_once :
  forall (E : Type) (ev : E -> bytes -> bytes -> res bytes)
         (ks : list E) (keys : list bytes) (p : poll) (polls : list poll) (s : sstate),
  keys_eval ev ks keys ->
  slog (snd (wexec ev (WRemove ks) (p :: polls) s)) = slog s ++ remove_call keys
  /\ wexec ev (WRemove ks) (p :: polls) s =
       (fst (wexec ev (WRemove ks) [p] s) ++ idle (List.length polls), snd (wexec ev (WRemove ks) [p] s)).
Proof. exact remove_once_lemma. Qed.
Print Assumptions remove_once.

(* all or nothing: if any key or value expression fails, the first poll returns that error and
   the storage state -- data AND call log -- is untouched, whatever is polled afterwards *)
Theorem all_or_nothing :
  forall (E : Type) (ev : E -> bytes -> bytes -> res bytes)
         (prs : list (E * E)) (p : poll) (polls : list poll) (s : sstate),
  Exists (pair_fails ev) prs ->
  exists e, wexec ev (WPut prs) (p :: polls) s = ((Some 0, Some e) :: idle (List.length polls), s).
Proof. exact put_all_or_nothing_lemma. Qed.
Print Assumptions all_or_nothing.

Theorem remove_all_or_nothing :
  forall (E : Type) (ev : E -> bytes -> bytes -> res bytes)
         (ks : list E) (p : poll) (polls : list poll) (s : sstate),
  Exists (key_fails ev) ks ->
  exists e, wexec ev (WRemove ks) (p :: polls) s = ((Some 0, Some e) :: idle (List.length polls), s).
Proof. exact remove_all_or_nothing_lemma. Qed.
Print Assumptions remove_all_or_nothing.

(* the case split of the two theorems above is exhaustive: a statement either evaluates or fails *)
Theorem put_evaluates_or_fails :
  forall (E : Type) (ev : E -> bytes -> bytes -> res bytes) (prs : list (E * E)),
  (exists kvs, pairs_eval ev prs kvs) \/ Exists (pair_fails ev) prs.
Proof. exact pairs_eval_or_fail. Qed.
Print Assumptions put_evaluates_or_fails.

(* read your write (against the store model's get): the binding a left-to-right reader of the
   statement ends with is what a point lookup returns afterwards; removed keys are gone *)
Theorem read_your_write :
  forall (E : Type) (ev : E -> bytes -> bytes -> res bytes)
         (prs : list (E * E)) (kvs : list kvp) (p : poll) (polls : list poll) (st : store) (k v : bytes),
  pairs_eval ev prs kvs -> final_binding kvs k v ->
  sget k (sdata (snd (wexec ev (WPut prs) (p :: polls) (sinit st None)))) = Some v.
Proof. exact put_read_your_write_lemma. Qed.
Print Assumptions read_your_write.

Theorem read_your_remove :
  forall (E : Type) (ev : E -> bytes -> bytes -> res bytes)
         (ks : list E) (keys : list bytes) (p : poll) (polls : list poll) (st : store) (k : bytes),
  keys_eval ev ks keys -> In k keys ->
  sget k (sdata (snd (wexec ev (WRemove ks) (p :: polls) (sinit st None)))) = None.
Proof. exact remove_read_your_write_lemma. Qed.
Print Assumptions read_your_remove.

(* ... and through the code path of a following `select * where key = k` (planned as a point
   read, MultiGetPlan [k], Model/ScanIO.v): the scan's Next returns exactly the written pair
   when the filter accepts it ([flt (k,v)]: evaluating `key = k` is C01's business), and no
   row for a removed key *)
Theorem select_observes_put :
  forall (remember_end : bool) (flt : kvp -> bool) (E : Type) (ev : E -> bytes -> bytes -> res bytes)
         (prs : list (E * E)) (kvs : list kvp) (p : poll) (polls : list poll) (st : store) (k v : bytes),
  pairs_eval ev prs kvs -> final_binding kvs k v -> flt (k, v) = true ->
  fst (point_read remember_end flt k (snd (wexec ev (WPut prs) (p :: polls) (sinit st None))))
    = Ok (Some (k, v), PSScan None 1 false).
Proof. exact select_observes_put_lemma. Qed.
Print Assumptions select_observes_put.

Theorem select_observes_remove :
  forall (remember_end : bool) (flt : kvp -> bool) (E : Type) (ev : E -> bytes -> bytes -> res bytes)
         (ks : list E) (keys : list bytes) (p : poll) (polls : list poll) (st : store) (k : bytes),
  keys_eval ev ks keys -> In k keys ->
  fst (point_read remember_end flt k (snd (wexec ev (WRemove ks) (p :: polls) (sinit st None))))
    = Ok (None, PSScan None 1 false).
Proof. exact select_observes_remove_lemma. Qed.
Print Assumptions select_observes_remove.

(* statement sequences against a model map: running any sequence of PUT / REMOVE statements
   (each polled by any non-empty pattern) refines the reference semantics on maps step by step,
   and keeps the store strictly sorted; the reference semantics is total *)
Theorem sequence_refines_map :
  forall (E : Type) (ev : E -> bytes -> bytes -> res bytes)
         (sts : list (wstmt E)) (s : sstate) (m m' : kvmap),
  sfault s = None -> agrees s m -> seq_spec ev sts m m' ->
  agrees (run_seq ev sts s) m' /\ (ssorted (sdata s) -> ssorted (sdata (run_seq ev sts s))).
Proof. exact sequence_refines_map_lemma. Qed.
Print Assumptions sequence_refines_map.

Theorem sequence_spec_total :
  forall (E : Type) (ev : E -> bytes -> bytes -> res bytes) (sts : list (wstmt E)) (m : kvmap),
  exists m', seq_spec ev sts m m'.
Proof. exact seq_spec_total. Qed.
Print Assumptions sequence_spec_total.

(* a sorted store is determined by its lookups, so "same lookups" above is "same store" *)
Theorem sorted_store_extensional :
  forall a b : store, ssorted a -> ssorted b -> (forall k, sget k a = sget k b) -> a = b.
Proof. exact ssorted_ext. Qed.
Print Assumptions sorted_store_extensional.

(* ------------------------------------------------------------------ non-vacuity *)
Open Scope string_scope.

(* [ev_demo] (Proofs/WriteProofs.v) is a toy evaluator over textual expressions: "key" denotes
   the pair's key, "key!" the key followed by '!', "FAIL" errs, everything else denotes itself.

   put ('b','1'), ('a', key!), ('b', key): the hypotheses hold; duplicate key: the later wins;
   the value sees its own key; one BatchPut whatever is polled; the store stays sorted *)
Example put_effect_nonvacuous :
  pairs_eval ev_demo [("b","1"); ("a","key!"); ("b","key")] [("b","1"); ("a","a!"); ("b","b")]
  /\ wexec ev_demo (WPut [("b","1"); ("a","key!"); ("b","key")]) [PBatch; PNext; PNext; PBatch]
       (sinit [("b","old"); ("c","x")] None)
     = ([(Some 3, None); (None, None); (None, None); (None, None)],
        SState [("a","a!"); ("b","b"); ("c","x")]
               [CBatchPut [("b","1"); ("a","a!"); ("b","b")]] None)
  /\ final_binding [("b","1"); ("a","a!"); ("b","b")] "b" "b".
Proof.
  split; [repeat constructor|]. split; [reflexivity|].
  exists [("b","1"); ("a","a!")], []. split; [reflexivity|]. cbn. tauto.
Qed.

Example all_or_nothing_nonvacuous :
  Exists (pair_fails ev_demo) [("a","1"); ("b","FAIL")]
  /\ wexec ev_demo (WPut [("a","1"); ("b","FAIL")]) [PNext; PBatch] (sinit [("a","old")] None)
     = ([(Some 0, Some EExec); (None, None)], sinit [("a","old")] None).
Proof.
  split; [|reflexivity].
  apply Exists_cons_tl, Exists_cons_hd. right. exists "b", EExec. split; reflexivity.
Qed.

Example remove_effect_nonvacuous :
  keys_eval ev_demo ["a"; "zz"; "a"] ["a"; "zz"; "a"]
  /\ wexec ev_demo (WRemove ["a"; "zz"; "a"]) [PNext; PNext] (sinit [("a","1"); ("b","2")] None)
     = ([(Some 3, None); (None, None)], SState [("b","2")] [CBatchDelete ["a"; "zz"; "a"]] None).
Proof. split; [repeat constructor|reflexivity]. Qed.

(* ------------------------------------------------------------------ regression witnesses
   (the code as pinned satisfies C12; these are the two nearest wrong variants of PutPlan, kept
   to show that the theorems above do exclude them) *)

(* a PutPlan that does not set [executed] re-issues the write on every poll *)
Theorem exactly_once_noflag_refuted :
  exists prs st,
    slog (put_next_noflag prs (put_next_noflag prs (sinit st None)))
    <> slog (put_next_noflag prs (sinit st None)).
Proof. exact noflag_refuted. Qed.
Print Assumptions exactly_once_noflag_refuted.

(* a PutPlan that writes pair by pair while evaluating is not all-or-nothing *)
Theorem all_or_nothing_eager_refuted :
  exists prs st, Exists (pair_fails ev_demo) prs /\ slog (snd (put_eager prs (sinit st None))) <> [].
Proof. exact eager_refuted. Qed.
Print Assumptions all_or_nothing_eager_refuted.
