(* Properties/C12.v -- PUT and REMOVE apply exactly the stated writes, once, all-or-nothing.
   Only property theorems here, each closed by [exact <lemma>] and followed by Print Assumptions.

   All theorems hold for EVERY expression type E and EVERY evaluator
     ev : E -> key -> value -> res bytes        (= toString (e.Execute (KVPair{key,value}, ctx)))
   hence in particular for the evaluator twin over Model/Ast.expr: what is proved here is the
   behaviour of PutPlan / RemovePlan (put_plan.go, remove_plan.go) and of the reference storage,
   not of expression evaluation.
     pairs_eval prs kvs : pair i evaluates to (k_i, v_i) -- key expression on the empty pair,
                          value expression on the pair whose key is k_i
     pair_fails pr      : the key expression, or the value expression given the evaluated key, errs
     wexec ev plan polls s : BuildPlan, then the polls (Next / Batch in any order), from storage
                          state s (data, call log, optional fault index)                       *)
From Coq Require Import List String Bool.
Import ListNotations.
From KV Require Import Base.Bytes Model.Storage Model.Write Model.ScanIO Proofs.StorageProofs
                       Proofs.WriteProofs Proofs.ScanIOProofs.
Local Open Scope list_scope.

(* put (k1,v1),...,(kn,vn): the final data is the prior data overwritten in order by the
   evaluated pairs -- as a store, as a map (a lookup returns the LAST binding of the key in the
   statement, else the prior value), it stays strictly sorted, and the first poll reports n *)
Theorem put_effect :
  forall (E : Type) (ev : E -> bytes -> bytes -> res bytes)
         (prs : list (E * E)) (kvs : list kvp) (p : poll) (polls : list poll) (st : store),
  pairs_eval ev prs kvs ->
  let out := wexec ev (WPut prs) (p :: polls) (sinit st None) in
  sdata (snd out) = fold_left (fun s kv => sput (fst kv) (snd kv) s) kvs st
  /\ (forall k, sget k (sdata (snd out)) = last_binding k kvs (sget k st))
  /\ (ssorted st -> ssorted (sdata (snd out)))
  /\ fst out = (Some (List.length kvs), None) :: idle (List.length polls).
Proof. exact put_effect_lemma. Qed.
Print Assumptions put_effect.

(* remove k1,...,kn: the prior data minus those keys *)
Theorem remove_effect :
  forall (E : Type) (ev : E -> bytes -> bytes -> res bytes)
         (ks : list E) (keys : list bytes) (p : poll) (polls : list poll) (st : store),
  keys_eval ev ks keys ->
  let out := wexec ev (WRemove ks) (p :: polls) (sinit st None) in
  sdata (snd out) = fold_left (fun s k => sdel k s) keys st
  /\ (forall k, sget k (sdata (snd out)) = if existsb (String.eqb k) keys then None else sget k st)
  /\ (ssorted st -> ssorted (sdata (snd out)))
  /\ fst out = (Some (List.length keys), None) :: idle (List.length polls).
Proof. exact remove_effect_lemma. Qed.
Print Assumptions remove_effect.

(* exactly once, for ALL polling sequences and all storage states (any earlier log, any fault
   index): every poll after the first returns nil without error and changes nothing ... *)
Theorem exactly_once :
  forall (E : Type) (ev : E -> bytes -> bytes -> res bytes)
         (pl : wplan E) (p : poll) (polls : list poll) (s : sstate),
  wexec ev pl (p :: polls) s =
    (fst (wexec ev pl [p] s) ++ idle (List.length polls), snd (wexec ev pl [p] s)).
Proof. exact polls_idempotent. Qed.
Print Assumptions exactly_once.

(* ... and the statement's whole storage traffic is the ONE call of the evaluated pairs:
   Put for one pair, BatchPut for more, nothing for none (Delete / BatchDelete alike) *)
Theorem put_once :
  forall (E : Type) (ev : E -> bytes -> bytes -> res bytes)
         (prs : list (E * E)) (kvs : list kvp) (p : poll) (polls : list poll) (s : sstate),
  pairs_eval ev prs kvs ->
  slog (snd (wexec ev (WPut prs) (p :: polls) s)) = slog s ++ put_call kvs
  /\ wexec ev (WPut prs) (p :: polls) s =
       (fst (wexec ev (WPut prs) [p] s) ++ idle (List.length polls), snd (wexec ev (WPut prs) [p] s)).
Proof. exact put_once_lemma. Qed.
Print Assumptions put_once.

Theorem remove_once :
  forall (E : Type) (ev : E -> bytes -> bytes -> res bytes)
         (ks : list E) (keys : list bytes) (p : poll) (polls : list poll) (s : sstate),
  keys_eval ev ks keys ->
  slog (snd (wexec ev (WRemove ks) (p :: polls) s)) = slog s ++ remove_call keys
  /\ wexec ev (WRemove ks) (p :: polls) s =
       (fst (wexec ev (WRemove ks) [p] s) ++ idle (List.length polls), snd (wexec ev (WRemove ks) [p] s)).
Proof. exact remove_once_lemma. Qed.
Print Assumptions remove_once.

(* all or nothing: if any key or value expression fails, the first poll returns that error and
   the storage state -- data AND call log -- is untouched, whatever is polled afterwards *)
Theorem all_or_nothing :
  forall (E : Type) (ev : E -> bytes -> bytes -> res bytes)
         (prs : list (E * E)) (p : poll) (polls : list poll) (s : sstate),
  Exists (pair_fails ev) prs ->
  exists e, wexec ev (WPut prs) (p :: polls) s = ((Some 0, Some e) :: idle (List.length polls), s).
Proof. exact put_all_or_nothing_lemma. Qed.
Print Assumptions all_or_nothing.

Theorem remove_all_or_nothing :
  forall (E : Type) (ev : E -> bytes -> bytes -> res bytes)
         (ks : list E) (p : poll) (polls : list poll) (s : sstate),
  Exists (key_fails ev) ks ->
  exists e, wexec ev (WRemove ks) (p :: polls) s = ((Some 0, Some e) :: idle (List.length polls), s).
Proof. exact remove_all_or_nothing_lemma. Qed.
Print Assumptions remove_all_or_nothing.

(* the case split of the two theorems above is exhaustive: a statement either evaluates or fails *)
Theorem put_evaluates_or_fails :
  forall (E : Type) (ev : E -> bytes -> bytes -> res bytes) (prs : list (E * E)),
  (exists kvs, pairs_eval ev prs kvs) \/ Exists (pair_fails ev) prs.
Proof. exact pairs_eval_or_fail. Qed.
Print Assumptions put_evaluates_or_fails.

(* read your write (against the store model's get): the binding a left-to-right reader of the
   statement ends with is what a point lookup returns afterwards; removed keys are gone *)
Theorem read_your_write :
  forall (E : Type) (ev : E -> bytes -> bytes -> res bytes)
         (prs : list (E * E)) (kvs : list kvp) (p : poll) (polls : list poll) (st : store) (k v : bytes),
  pairs_eval ev prs kvs -> final_binding kvs k v ->
  sget k (sdata (snd (wexec ev (WPut prs) (p :: polls) (sinit st None)))) = Some v.
Proof. exact put_read_your_write_lemma. Qed.
Print Assumptions read_your_write.

Theorem read_your_remove :
  forall (E : Type) (ev : E -> bytes -> bytes -> res bytes)
         (ks : list E) (keys : list bytes) (p : poll) (polls : list poll) (st : store) (k : bytes),
  keys_eval ev ks keys -> In k keys ->
  sget k (sdata (snd (wexec ev (WRemove ks) (p :: polls) (sinit st None)))) = None.
Proof. exact remove_read_your_write_lemma. Qed.
Print Assumptions read_your_remove.

(* ... and through the code path of a following `select * where key = k` (planned as a point
   read, MultiGetPlan [k], Model/ScanIO.v): the scan's Next returns exactly the written pair
   when the filter accepts it ([flt (k,v)]: evaluating `key = k` is C01's business), and no
   row for a removed key *)
Theorem select_observes_put :
  forall (remember_end : bool) (flt : kvp -> bool) (E : Type) (ev : E -> bytes -> bytes -> res bytes)
         (prs : list (E * E)) (kvs : list kvp) (p : poll) (polls : list poll) (st : store) (k v : bytes),
  pairs_eval ev prs kvs -> final_binding kvs k v -> flt (k, v) = true ->
  fst (point_read remember_end flt k (snd (wexec ev (WPut prs) (p :: polls) (sinit st None))))
    = Ok (Some (k, v), PSScan None 1 false).
Proof. exact select_observes_put_lemma. Qed.
Print Assumptions select_observes_put.

Theorem select_observes_remove :
  forall (remember_end : bool) (flt : kvp -> bool) (E : Type) (ev : E -> bytes -> bytes -> res bytes)
         (ks : list E) (keys : list bytes) (p : poll) (polls : list poll) (st : store) (k : bytes),
  keys_eval ev ks keys -> In k keys ->
  fst (point_read remember_end flt k (snd (wexec ev (WRemove ks) (p :: polls) (sinit st None))))
    = Ok (None, PSScan None 1 false).
Proof. exact select_observes_remove_lemma. Qed.
Print Assumptions select_observes_remove.

(* statement sequences against a model map: running any sequence of PUT / REMOVE statements
   (each polled by any non-empty pattern) refines the reference semantics on maps step by step,
   and keeps the store strictly sorted; the reference semantics is total *)
Theorem sequence_refines_map :
  forall (E : Type) (ev : E -> bytes -> bytes -> res bytes)
         (sts : list (wstmt E)) (s : sstate) (m m' : kvmap),
  sfault s = None -> agrees s m -> seq_spec ev sts m m' ->
  agrees (run_seq ev sts s) m' /\ (ssorted (sdata s) -> ssorted (sdata (run_seq ev sts s))).
Proof. exact sequence_refines_map_lemma. Qed.
Print Assumptions sequence_refines_map.

Theorem sequence_spec_total :
  forall (E : Type) (ev : E -> bytes -> bytes -> res bytes) (sts : list (wstmt E)) (m : kvmap),
  exists m', seq_spec ev sts m m'.
Proof. exact seq_spec_total. Qed.
Print Assumptions sequence_spec_total.

(* a sorted store is determined by its lookups, so "same lookups" above is "same store" *)
Theorem sorted_store_extensional :
  forall a b : store, ssorted a -> ssorted b -> (forall k, sget k a = sget k b) -> a = b.
Proof. exact ssorted_ext. Qed.
Print Assumptions sorted_store_extensional.

(* ------------------------------------------------------------------ non-vacuity *)
Open Scope string_scope.

(* [ev_demo] (Proofs/WriteProofs.v) is a toy evaluator over textual expressions: "key" denotes
   the pair's key, "key!" the key followed by '!', "FAIL" errs, everything else denotes itself.

   put ('b','1'), ('a', key!), ('b', key): the hypotheses hold; duplicate key: the later wins;
   the value sees its own key; one BatchPut whatever is polled; the store stays sorted *)
Example put_effect_nonvacuous :
  pairs_eval ev_demo [("b","1"); ("a","key!"); ("b","key")] [("b","1"); ("a","a!"); ("b","b")]
  /\ wexec ev_demo (WPut [("b","1"); ("a","key!"); ("b","key")]) [PBatch; PNext; PNext; PBatch]
       (sinit [("b","old"); ("c","x")] None)
     = ([(Some 3, None); (None, None); (None, None); (None, None)],
        SState [("a","a!"); ("b","b"); ("c","x")]
               [CBatchPut [("b","1"); ("a","a!"); ("b","b")]] None)
  /\ final_binding [("b","1"); ("a","a!"); ("b","b")] "b" "b".
Proof.
  split; [repeat constructor|]. split; [reflexivity|].
  exists [("b","1"); ("a","a!")], []. split; [reflexivity|]. cbn. tauto.
Qed.

Example all_or_nothing_nonvacuous :
  Exists (pair_fails ev_demo) [("a","1"); ("b","FAIL")]
  /\ wexec ev_demo (WPut [("a","1"); ("b","FAIL")]) [PNext; PBatch] (sinit [("a","old")] None)
     = ([(Some 0, Some EExec); (None, None)], sinit [("a","old")] None).
Proof.
  split; [|reflexivity].
  apply Exists_cons_tl, Exists_cons_hd. right. exists "b", EExec. split; reflexivity.
Qed.

Example remove_effect_nonvacuous :
  keys_eval ev_demo ["a"; "zz"; "a"] ["a"; "zz"; "a"]
  /\ wexec ev_demo (WRemove ["a"; "zz"; "a"]) [PNext; PNext] (sinit [("a","1"); ("b","2")] None)
     = ([(Some 3, None); (None, None)], SState [("b","2")] [CBatchDelete ["a"; "zz"; "a"]] None).
Proof. split; [repeat constructor|reflexivity]. Qed.

(* ------------------------------------------------------------------ regression witnesses
   (the code as pinned satisfies C12; these are the two nearest wrong variants of PutPlan, kept
   to show that the theorems above do exclude them) *)

(* a PutPlan that does not set [executed] re-issues the write on every poll *)
Theorem exactly_once_noflag_refuted :
  exists prs st,
    slog (put_next_noflag prs (put_next_noflag prs (sinit st None)))
    <> slog (put_next_noflag prs (sinit st None)).
Proof. exact noflag_refuted. Qed.
Print Assumptions exactly_once_noflag_refuted.

(* a PutPlan that writes pair by pair while evaluating is not all-or-nothing *)
Theorem all_or_nothing_eager_refuted :
  exists prs st, Exists (pair_fails ev_demo) prs /\ slog (snd (put_eager prs (sinit st None))) <> [].
Proof. exact eager_refuted. Qed.
Print Assumptions all_or_nothing_eager_refuted.

(* ============================================================================================
   FROM THE QUERY TEXT.  Model/PipelineW.v [write_text] is the twin of
   kvql.NewOptimizer(q).BuildPlan(store) + the caller's polls for PUT / REMOVE: lexer, statement
   parser (parsePut / parseRemove: pure syntax, the mid-parse semantic tests of parser.go belong
   to SELECT only), Validate (no `value` in PUT, neither key nor value in a PUT key / in REMOVE,
   text-or-number results), function-call check, NO constant folding (Optimizer.init folds only
   SELECT and DELETE), PutPlan / RemovePlan over the evaluator twin
     ev_expr fo re e k v = toString (e.Execute (KVPair{k, v}, ctx))      (Model/Eval.v)
   -- in the order of optimizer.go.  Corr/C12.v ([WText] cases) compares it with the
   implementation on every run: accepted / rejected and error position, poll results, storage
   call log, final state.  [parsed_text fo is_write_kind q = TOk (StPut p prs)]: the parser twin
   reads q as a PUT of the pairs prs (unchecked trees).                                          *)
From Coq Require Import ZArith.
From KV Require Import Model.Ast Model.Value Model.Eval Model.StmtParser Model.Pipeline Model.PipelineW
                       Proofs.PipelineWProofs.

(* put (k1,v1),...,(kn,vn) as TEXT: for every float structure, regexp oracle, text, prior store and
   polling pattern: if the parser twin reads the text as a PUT of the pairs prs, the pairs
   evaluate to kvs (value i on the pair whose key is the evaluated key i), and the pipeline
   accepts the text, THEN the final data is the prior data overwritten in order by the evaluated
   pairs of the PARSED statement (as a store, as a map: the last binding wins), it stays sorted,
   the first poll reports n and all later polls nil, and the whole storage traffic is the one
   Put / BatchPut of exactly those pairs *)
Theorem put_text_effect :
  forall (fo : fops) (re_match : bytes -> bytes -> Value.res bool)
         (q : string) (p : nat) (prs : list (expr * expr)) (kvs : list kvp)
         (poll : poll) (polls : list Write.poll) (st : store) (out : list pres) (s' : sstate),
  parsed_text fo is_write_kind q = TOk (StmtParser.StPut p prs) ->
  pairs_eval (ev_expr fo re_match) prs kvs ->
  write_text fo re_match q (poll :: polls) (sinit st None) = (TOk out, s') ->
  sdata s' = fold_left (fun s kv => sput (fst kv) (snd kv) s) kvs st
  /\ (forall k, sget k (sdata s') = last_binding k kvs (sget k st))
  /\ (ssorted st -> ssorted (sdata s'))
  /\ out = (Some (List.length kvs), None) :: idle (List.length polls)
  /\ slog s' = put_call kvs.
Proof. exact put_text_effect_lemma. Qed.
Print Assumptions put_text_effect.

(* remove k1,...,kn as TEXT: the prior data minus the evaluated keys of the PARSED statement *)
Theorem remove_text_effect :
  forall (fo : fops) (re_match : bytes -> bytes -> Value.res bool)
         (q : string) (p : nat) (ks : list expr) (keys : list bytes)
         (poll : poll) (polls : list Write.poll) (st : store) (out : list pres) (s' : sstate),
  parsed_text fo is_write_kind q = TOk (StmtParser.StRemove p ks) ->
  keys_eval (ev_expr fo re_match) ks keys ->
  write_text fo re_match q (poll :: polls) (sinit st None) = (TOk out, s') ->
  sdata s' = fold_left (fun s k => sdel k s) keys st
  /\ (forall k, sget k (sdata s') = if existsb (String.eqb k) keys then None else sget k st)
  /\ (ssorted st -> ssorted (sdata s'))
  /\ out = (Some (List.length keys), None) :: idle (List.length polls)
  /\ slog s' = remove_call keys.
Proof. exact remove_text_effect_lemma. Qed.
Print Assumptions remove_text_effect.

(* exactly once under ANY polling, from ANY storage state (any earlier log, any fault index):
   whatever is polled after the first poll returns nil and leaves the state of the first poll *)
Theorem write_text_exactly_once :
  forall (fo : fops) (re_match : bytes -> bytes -> Value.res bool)
         (q : string) (p : poll) (polls : list poll) (s : sstate) (out : list pres) (s' : sstate),
  write_text fo re_match q (p :: polls) s = (TOk out, s') ->
  exists out1, write_text fo re_match q [p] s = (TOk out1, s') /\ out = (out1 ++ idle (List.length polls))%list.
Proof. exact write_text_exactly_once_lemma. Qed.
Print Assumptions write_text_exactly_once.

(* nothing is written if an evaluation fails: data AND call log are untouched, the first poll
   returns the error *)
Theorem put_text_all_or_nothing :
  forall (fo : fops) (re_match : bytes -> bytes -> Value.res bool)
         (q : string) (p : nat) (prs : list (expr * expr))
         (poll : poll) (polls : list Write.poll) (s : sstate) (out : list pres) (s' : sstate),
  parsed_text fo is_write_kind q = TOk (StmtParser.StPut p prs) ->
  Exists (pair_fails (ev_expr fo re_match)) prs ->
  write_text fo re_match q (poll :: polls) s = (TOk out, s') ->
  s' = s /\ exists e, out = (Some 0, Some e) :: idle (List.length polls).
Proof. exact put_text_all_or_nothing_lemma. Qed.
Print Assumptions put_text_all_or_nothing.

Theorem remove_text_all_or_nothing :
  forall (fo : fops) (re_match : bytes -> bytes -> Value.res bool)
         (q : string) (p : nat) (ks : list expr)
         (poll : poll) (polls : list Write.poll) (s : sstate) (out : list pres) (s' : sstate),
  parsed_text fo is_write_kind q = TOk (StmtParser.StRemove p ks) ->
  Exists (key_fails (ev_expr fo re_match)) ks ->
  write_text fo re_match q (poll :: polls) s = (TOk out, s') ->
  s' = s /\ exists e, out = (Some 0, Some e) :: idle (List.length polls).
Proof. exact remove_text_all_or_nothing_lemma. Qed.
Print Assumptions remove_text_all_or_nothing.

(* nothing is touched if the statement is not accepted (rejected with a position, or outside the
   model), nor by a plan that is never polled *)
Theorem write_text_not_accepted_untouched :
  forall (fo : fops) (re_match : bytes -> bytes -> Value.res bool)
         (q : string) (polls : list poll) (s : sstate) (r : tres (list pres)) (s' : sstate),
  write_text fo re_match q polls s = (r, s') -> (forall out, r <> TOk out) -> s' = s.
Proof. exact write_text_not_accepted_untouched_lemma. Qed.
Print Assumptions write_text_not_accepted_untouched.

Theorem write_text_unpolled :
  forall (fo : fops) (re_match : bytes -> bytes -> Value.res bool)
         (q : string) (s : sstate) (r : tres (list pres)) (s' : sstate),
  write_text fo re_match q [] s = (r, s') -> s' = s.
Proof. exact write_text_unpolled_lemma. Qed.
Print Assumptions write_text_unpolled.

(* the case split of the theorems above is exhaustive: an accepted text is a PUT or a REMOVE of the
   parser twin (and its pairs / keys evaluate or fail: put_evaluates_or_fails) *)
Theorem write_text_accepted_is_write :
  forall (fo : fops) (re_match : bytes -> bytes -> Value.res bool)
         (q : string) (polls : list poll) (s : sstate) (out : list pres) (s' : sstate),
  write_text fo re_match q polls s = (TOk out, s') ->
  (exists p prs, parsed_text fo is_write_kind q = TOk (StmtParser.StPut p prs)) \/
  (exists p ks, parsed_text fo is_write_kind q = TOk (StmtParser.StRemove p ks)).
Proof. exact write_text_accepted_is_write_lemma. Qed.
Print Assumptions write_text_accepted_is_write.

(* ------------------------------------------------------------------ non-vacuity (float-free,
   for every float structure) *)

(* a PUT text with a duplicate key, `key` inside a value and a constant sub-expression that is NOT
   folded: the premises hold, the text is accepted, and the run is the one BatchPut *)
Definition ex_put_text : string := "put ('b', '1'), ('a', key + '!'), (1 + 1, upper(key)), ('b', key)".
Definition ex_put_pairs : list (expr * expr) :=
  [(EStr 5 "b", EStr 10 "1");
   (EStr 17 "a", EBin 26 OAdd (EField 22 KeyKW) (EStr 28 "!"));
   (EBin 37 OAdd (ENum 35 "1") (ENum 39 "1"), ECall 42 (EName 42 "upper") [EField 48 KeyKW]);
   (EStr 56 "b", EField 61 KeyKW)].

Example put_text_effect_nonvacuous :
  forall (fo : fops) (re_match : bytes -> bytes -> Value.res bool),
    parsed_text fo is_write_kind ex_put_text = TOk (StmtParser.StPut 0 ex_put_pairs) /\
    pairs_eval (ev_expr fo re_match) ex_put_pairs [("b", "1"); ("a", "a!"); ("2", "2"); ("b", "b")] /\
    write_text fo re_match ex_put_text [PBatch; PNext; PNext] (sinit [("b", "old"); ("c", "x")] None)
    = (TOk [(Some 4, None); (None, None); (None, None)],
       SState [("2", "2"); ("a", "a!"); ("b", "b"); ("c", "x")]
              [CBatchPut [("b", "1"); ("a", "a!"); ("2", "2"); ("b", "b")]] None).
Proof.
  intros fo re_match.
  split; [vm_compute; reflexivity|].
  split; [repeat constructor|].
  vm_compute; reflexivity.
Qed.

(* a REMOVE text: keyword case, a number literal in non-canonical spelling (the removed key is the
   EVALUATED key "7"), a duplicate, trailing semicolons *)
Example remove_text_effect_nonvacuous :
  forall (fo : fops) (re_match : bytes -> bytes -> Value.res bool),
    parsed_text fo is_write_kind "REMOVE 'a', 007, 'a';;" = TOk (StmtParser.StRemove 0 [EStr 7 "a"; ENum 12 "007"; EStr 17 "a"]) /\
    keys_eval (ev_expr fo re_match) [EStr 7 "a"; ENum 12 "007"; EStr 17 "a"] ["a"; "7"; "a"] /\
    write_text fo re_match "REMOVE 'a', 007, 'a';;" [PNext; PBatch] (sinit [("007", "x"); ("7", "y"); ("a", "z")] None)
    = (TOk [(Some 3, None); (None, None)], SState [("007", "x")] [CBatchDelete ["a"; "7"; "a"]] None).
Proof.
  intros fo re_match.
  split; [vm_compute; reflexivity|].
  split; [repeat constructor|].
  vm_compute; reflexivity.
Qed.

(* all or nothing from the text: the second pair's value divides by strlen(key) - 1 = 0 *)
Example put_text_all_or_nothing_nonvacuous :
  forall (fo : fops) (re_match : bytes -> bytes -> Value.res bool),
    (exists p prs, parsed_text fo is_write_kind "put ('a', '1'), ('b', str(1 / (strlen(key) - 1)))" = TOk (StmtParser.StPut p prs)
                   /\ Exists (pair_fails (ev_expr fo re_match)) prs) /\
    write_text fo re_match "put ('a', '1'), ('b', str(1 / (strlen(key) - 1)))" [PNext; PBatch] (sinit [("a", "old")] None)
    = (TOk [(Some 0, Some Storage.EExec); (None, None)], sinit [("a", "old")] None).
Proof.
  intros fo re_match. split; [|vm_compute; reflexivity].
  eexists _, _. split; [vm_compute; reflexivity|].
  apply Exists_cons_tl, Exists_cons_hd. right. exists "b", Storage.EExec. split; vm_compute; reflexivity.
Qed.

(* texts the front end rejects, with the position of the SyntaxError: `value` in a PUT, `key` in a
   REMOVE, a Boolean key, a function called with the wrong number of arguments (found by
   checkStatementFunctionCalls after Parse), a pair that ends too early (-1: end of input) *)
Example write_text_rejects_example :
  forall (fo : fops) (re_match : bytes -> bytes -> Value.res bool) (s : sstate),
    write_text fo re_match "put ('a', value)" [PNext] s = (TReject 10%Z, s) /\
    write_text fo re_match "remove 'a', key" [PNext] s = (TReject 12%Z, s) /\
    write_text fo re_match "put (1 = 1, 'v')" [PNext] s = (TReject 7%Z, s) /\
    write_text fo re_match "put ('a', upper(key, key))" [PNext] s = (TReject 10%Z, s) /\
    write_text fo re_match "put ('a', 'b'" [PNext] s = (TReject (-1)%Z, s).
Proof. intros. repeat split; vm_compute; reflexivity. Qed.
