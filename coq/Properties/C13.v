(* Properties/C13.v -- SELECT is read-only, rejected statements touch nothing, storage errors
   surface.  Only property theorems here, each closed by [exact <lemma>] + Print Assumptions.

   The twins (Model/ScanIO.v, Model/Write.v) issue every storage operation through
   Model/Storage.call, which appends the call to the log and fails it when the log length
   equals the fault index.  All theorems hold for every filter oracle [flt], every grouping
   oracle [gkey], both variants of the scans' end-of-scan memory [remember_end], every batch size B, both modes, every plan tree (every access path, any
   nesting of limit / order / aggregate), every store and every fault index.
     run_stmt flt gkey B fuel mode stmt s : BuildPlan, then the caller's drain loop
     fault_outcome i free faulty : either the fault-free run issues at most i calls and the
        faulty run is that run, or the faulty run returns the storage error and its log is
        exactly the first i+1 calls of the fault-free log (call i is the last call)        *)
From Coq Require Import List String Bool.
Import ListNotations.
From KV Require Import Base.Bytes Model.Storage Model.Write Model.ScanIO
                       Proofs.WriteProofs Proofs.ScanIOProofs Proofs.ScanIOFuel.
Local Open Scope list_scope.

(* whenever a storage operation fails, the statement stops there and returns that error:
   SELECT (projection / limit / order / aggregate over every scan), DELETE, rejected statements *)
Theorem fault_surfaces :
  forall (remember_end : bool) (flt : kvp -> bool) (gkey : kvp -> bytes) (B fuel : nat) (m : mode)
         (s : ScanIO.stmt) (st : store) (i : nat),
  fault_outcome i (ScanIO.run_stmt remember_end flt gkey B fuel m s (sinit st None))
                  (ScanIO.run_stmt remember_end flt gkey B fuel m s (sinit st (Some i))).
Proof. exact stmt_fault_surfaces. Qed.
Print Assumptions fault_surfaces.

(* the same for every program over the storage instructions, from any earlier log *)
Theorem fault_surfaces_any_program :
  forall (A : Type) (p : wprog A) (d : store) (l : list scall) (i : nat),
  List.length l <= i ->
  fault_outcome i (run exec_req p (SState d l None)) (run exec_req p (SState d l (Some i))).
Proof. exact fault_surfaces_prog. Qed.
Print Assumptions fault_surfaces_any_program.

(* PUT / REMOVE (PutPlan, RemovePlan, DELETE turned into a RemovePlan), any polling pattern:
   a failing Put / BatchPut / Delete / BatchDelete is returned by the first poll, is the last
   call, and leaves the data as it was *)
Theorem write_fault_surfaces :
  forall (E : Type) (ev : E -> bytes -> bytes -> res bytes)
         (pl : wplan E) (p : poll) (polls : list poll) (st : store) (i : nat),
  wfault_outcome i (wexec ev pl (p :: polls) (sinit st None))
                   (wexec ev pl (p :: polls) (sinit st (Some i))) st.
Proof. exact write_fault_surfaces_lemma. Qed.
Print Assumptions write_fault_surfaces.

(* planning and executing a SELECT never invokes a mutating storage operation: from any
   storage state (any fault index) the data is unchanged and every call logged is Get / Cursor /
   Seek / Next *)
Theorem select_read_only :
  forall (remember_end : bool) (flt : kvp -> bool) (gkey : kvp -> bytes) (B fuel : nat) (m : mode) (fp : fplan) (s : sstate),
  let out := ScanIO.run_stmt remember_end flt gkey B fuel m (StSelect fp) s in
  sdata (snd out) = sdata s /\
  exists ext, slog (snd out) = slog s ++ ext /\ read_only ext = true.
Proof. exact select_read_only_lemma. Qed.
Print Assumptions select_read_only.

Theorem select_planning_read_only :
  forall (fp : fplan) (s : sstate),
  let out := run exec_req (rd (select_build fp)) s in
  sdata (snd out) = sdata s /\
  exists ext, slog (snd out) = slog s ++ ext /\ read_only ext = true.
Proof. exact select_build_read_only_lemma. Qed.
Print Assumptions select_planning_read_only.

(* a statement rejected at parse / check / plan time invokes no storage operation at all *)
Theorem rejected_no_mutation :
  forall (remember_end : bool) (flt : kvp -> bool) (gkey : kvp -> bytes) (B fuel : nat) (m : mode) (s : sstate),
  ScanIO.run_stmt remember_end flt gkey B fuel m StRejected s = (Err ESyntax, s).
Proof. exact rejected_no_call_lemma. Qed.
Print Assumptions rejected_no_mutation.

(* the twins' loop fuel never masquerades as a result: with PlanBatchSize >= 1, a store of at
   most N pairs and fuel above [bound_stmt N s] (N for a cursor scan, the number of keys for a
   point read, +1 for DELETE) no run ends in the out-of-fuel outcome, whatever the fault index;
   in particular not with the fuel the correspondence check uses, [stmt_fuel] *)
Theorem no_fuel_exhaustion :
  forall (N : nat) (remember_end : bool) (flt : kvp -> bool) (gkey : kvp -> bytes) (B fuel : nat),
  1 <= B ->
  forall (m : mode) (s : ScanIO.stmt) (st : sstate),
  List.length (sdata st) <= N -> bound_stmt N s < fuel ->
  fst (ScanIO.run_stmt remember_end flt gkey B fuel m s st) <> Err EFuel.
Proof. exact no_fuel_exhaustion_lemma. Qed.
Print Assumptions no_fuel_exhaustion.

Theorem no_fuel_exhaustion_in_correspondence :
  forall (remember_end : bool) (flt : kvp -> bool) (gkey : kvp -> bytes) (B : nat) (m : mode)
         (s : ScanIO.stmt) (st : sstate),
  1 <= B ->
  fst (ScanIO.run_stmt remember_end flt gkey B (stmt_fuel s (sdata st)) m s st) <> Err EFuel.
Proof. exact no_fuel_exhaustion_stmt_fuel. Qed.
Print Assumptions no_fuel_exhaustion_in_correspondence.

(* ------------------------------------------------------------------ non-vacuity *)
Open Scope string_scope.

(* delete where value = 'x' over six pairs at B = 2: 14 storage calls fault-free; with the
   storage failing at call 8 (the first BatchDelete) the run returns the storage error, the log
   is the first 9 calls, and nothing was deleted *)
Example fault_surfaces_nonvacuous :
  let st := [("a","x");("ab","y");("abc","x");("b","x");("c","y");("d","x")] in
  let flt := fun kv : kvp => String.eqb (snd kv) "x" in
  let free := ScanIO.run_stmt false flt snd 2 30 BatchMode (StDelete (PScan SFull)) (sinit st None) in
  let faulty := ScanIO.run_stmt false flt snd 2 30 BatchMode (StDelete (PScan SFull)) (sinit st (Some 8)) in
  fst free = Ok [1] /\ List.length (slog (snd free)) = 14 /\ sdata (snd free) = [("ab","y");("c","y")]
  /\ fst faulty = Err EStorage /\ slog (snd faulty) = firstn 9 (slog (snd free))
  /\ nth 8 (slog (snd faulty)) CCursor = CBatchDelete ["a";"abc";"b"]
  /\ sdata (snd faulty) = st.
Proof. vm_compute. repeat split; reflexivity. Qed.

Example select_read_only_nonvacuous :
  let st := [("a","x");("ab","y");("abc","x");("b","x")] in
  let flt := fun kv : kvp => String.eqb (snd kv) "x" in
  ScanIO.run_stmt false flt snd 2 30 RowMode (StSelect (FLimit 1 2 (FOrder (FProj (PScan (SPrefix "a")))))) (sinit st None)
  = (Ok [1], SState st [CCursor; CSeek "a"; CCursor; CSeek "a"; CNext (Some "a"); CNext (Some "ab");
                        CNext (Some "abc"); CNext (Some "b")] None).
Proof. vm_compute. reflexivity. Qed.

(* ------------------------------------------------------------------ SELECT given as TEXT
   (Model/PipelineS.v plans it, Model/PipelineIO.v says which ScanIO statement that is:
   [text_stmt q] = the final plan of the accepted text over its scan node, or StRejected for a
   text BuildPlan rejects).  From ANY storage state (data, earlier log, fault index), for every
   oracle, both variants of the scans' end-of-scan memory, both modes, every batch size: the
   data is unchanged and every call logged is Get / Cursor / Seek / Next. *)
From Coq Require Import ZArith.
From KV Require Import Model.Value Model.SelectPlans Model.Pipeline Model.PipelineS Model.PipelineIO
                       Proofs.ScanSlotsProofs.
From KV Require Import Model.ScanIO Model.Storage.
Local Open Scope list_scope.


Theorem select_text_read_only :
  forall (fo : fops) (re : bytes -> bytes -> Value.res bool) (fmt_v : F fo -> string)
         (remember_end : bool) (flt : kvp -> bool) (gkey : kvp -> bytes) (B fuel : nat) (m : mode)
         (q : string) (s : ScanIO.stmt) (st : sstate),
  text_stmt fo re fmt_v q = Some s ->
  let out := ScanIO.run_stmt remember_end flt gkey B fuel m s st in
  sdata (snd out) = sdata st /\
  exists ext, slog (snd out) = slog st ++ ext /\ read_only ext = true.
Proof. exact select_text_read_only_lemma. Qed.
Print Assumptions select_text_read_only.

(* a text the front end or buildFinalPlan rejects makes no storage call *)
Theorem rejected_text_no_call :
  forall (fo : fops) (re : bytes -> bytes -> Value.res bool) (fmt_v : F fo -> string)
         (remember_end : bool) (flt : kvp -> bool) (gkey : kvp -> bytes) (B fuel : nat) (m : mode)
         (q : string) (z : Z) (st : sstate),
  plan_stmt_text fo re fmt_v q = STReject z ->
  text_stmt fo re fmt_v q = Some StRejected /\
  ScanIO.run_stmt remember_end flt gkey B fuel m StRejected st = (Storage.Err ESyntax, st).
Proof. exact rejected_text_no_call_lemma. Qed.
Print Assumptions rejected_text_no_call.

Example select_text_read_only_nonvacuous :
  forall (fo : fops) (re : bytes -> bytes -> Value.res bool) (fmt_v : F fo -> string),
  let st := [("a","x");("ab","y");("abc","x");("b","x")] in
  (exists fp, text_stmt fo re fmt_v "select value, count(1) where key ^= 'a' group by value limit 5" = Some (StSelect fp) /\
     fp = FAggr (PScan (SPrefix "a")) false 0 (Some 5) /\
     ScanIO.run_stmt false (fun _ => true) snd 2 30 BatchMode (StSelect fp) (sinit st None)
     = (Storage.Ok [2], SState st [CCursor; CSeek "a"; CCursor; CSeek "a"; CNext (Some "a"); CNext (Some "ab");
                                   CNext (Some "abc"); CNext (Some "b"); CNext None] None)) /\
  text_stmt fo re fmt_v "select key, count(1) where key > ''" = Some StRejected.
Proof.
  intros. split; [|vm_compute; reflexivity].
  eexists. split; [vm_compute; reflexivity|]. split; vm_compute; reflexivity.
Qed.

(* ------------------------------------------------------------------ POLL BY POLL (Model/ScanBatches.v)
   [select_polls]: BuildPlan, then every Next() / Batch() call of the final plan run on its own;
   result = (calls of BuildPlan, [(calls of poll i, rows returned by poll i)]), the last poll
   being the one that returned nothing.  From ANY storage state (data, earlier log, fault index):
   the concatenation of the per-poll logs is run_stmt's log, the non-zero row counts are its
   sizes, and an error of a poll is the statement's error -- so [fault_surfaces] and
   [select_read_only] speak about every single poll. *)
From KV Require Import Model.ScanBatches Proofs.ScanBatchBoundaryProofs Proofs.RunCountsProofs.

Theorem select_polls_is_run_stmt :
  forall (remember_end : bool) (flt : kvp -> bool) (gkey : kvp -> bytes) (B fuel : nat) (m : mode)
         (fp : fplan) (s : sstate),
  match select_polls remember_end flt gkey B fuel m fp s with
  | (Storage.Ok (b, ps), s') =>
      ScanIO.run_stmt remember_end flt gkey B fuel m (StSelect fp) s = (Storage.Ok (sizes_of ps), s') /\
      slog s' = slog s ++ b ++ List.concat (map fst ps)
  | (Storage.Err e, s') =>
      ScanIO.run_stmt remember_end flt gkey B fuel m (StSelect fp) s = (Storage.Err e, s')
  end.
Proof. exact select_polls_is_run_stmt_lemma. Qed.
Print Assumptions select_polls_is_run_stmt.

(* C13 for the TEXT, every SELECT shape (projection / ORDER BY / LIMIT / aggregate) and every
   rejected text: with the i-th storage call failing the statement returns the storage error
   and its log is exactly the first i+1 calls of the fault-free run, or call i is never reached
   and the run IS the fault-free run; the data is unchanged and no call mutates, in both runs *)
Theorem select_text_fault_surfaces :
  forall (fo : fops) (re : bytes -> bytes -> Value.res bool) (fmt_v : F fo -> string)
         (remember_end : bool) (flt : kvp -> bool) (gkey : kvp -> bytes) (B fuel : nat) (m : mode)
         (q : string) (s : ScanIO.stmt) (st : store) (i : nat),
  text_stmt fo re fmt_v q = Some s ->
  let free := ScanIO.run_stmt remember_end flt gkey B fuel m s (sinit st None) in
  let faulty := ScanIO.run_stmt remember_end flt gkey B fuel m s (sinit st (Some i)) in
  fault_outcome i free faulty /\
  sdata (snd faulty) = st /\ read_only (slog (snd faulty)) = true /\
  sdata (snd free) = st /\ read_only (slog (snd free)) = true.
Proof. exact select_text_fault_surfaces_lemma. Qed.
Print Assumptions select_text_fault_surfaces.

(* non-vacuity: ORDER BY + LIMIT over a prefix scan; the 7th call (index 6, the third Next) fails:
   storage error, 7 calls, the first 7 of the fault-free run's 8; fault index 8 is never reached *)
Example select_text_fault_surfaces_nonvacuous :
  forall (fo : fops) (re : bytes -> bytes -> Value.res bool) (fmt_v : F fo -> string),
  let q := "select key, value where key ^= 'a' order by value desc limit 1, 1" in
  let d := [("a","1");("ab","2");("abc","3");("b","4")] in
  exists fp, text_stmt fo re fmt_v q = Some (StSelect fp) /\
    fp = FLimit 1 1 (FOrder (FProj (PScan (SPrefix "a")))) /\
    ScanIO.run_stmt true (fun _ => true) snd 2 20 BatchMode (StSelect fp) (sinit d None)
    = (Storage.Ok [1], SState d [CCursor; CSeek "a"; CCursor; CSeek "a"; CNext (Some "a"); CNext (Some "ab");
                                 CNext (Some "abc"); CNext (Some "b")] None) /\
    ScanIO.run_stmt true (fun _ => true) snd 2 20 BatchMode (StSelect fp) (sinit d (Some 6))
    = (Storage.Err EStorage, SState d [CCursor; CSeek "a"; CCursor; CSeek "a"; CNext (Some "a"); CNext (Some "ab");
                                       CNext (Some "abc")] (Some 6)) /\
    fst (ScanIO.run_stmt true (fun _ => true) snd 2 20 BatchMode (StSelect fp) (sinit d (Some 8))) = Storage.Ok [1].
Proof.
  intros. eexists. split; [vm_compute; reflexivity|]. split; [reflexivity|].
  split; [vm_compute; reflexivity|]. split; vm_compute; reflexivity.
Qed.

(* non-vacuity of the poll-by-poll view: the same statement; BuildPlan issues the four Init calls,
   the first Batch() drains the scan (FinalOrderPlan.prepareBatch: two Batch() of the scan node,
   the second one sees the end) and returns the one row of the window, the second Batch() returns
   nothing and makes no storage call *)
Example select_polls_nonvacuous :
  let d := [("a","1");("ab","2");("abc","3");("b","4")] in
  select_polls true (fun _ => true) snd 2 20 BatchMode (FLimit 1 1 (FOrder (FProj (PScan (SPrefix "a"))))) (sinit d None)
  = (Storage.Ok ([CCursor; CSeek "a"; CCursor; CSeek "a"],
                 [([CNext (Some "a"); CNext (Some "ab"); CNext (Some "abc"); CNext (Some "b")], 1); ([], 0)]),
     SState d [CCursor; CSeek "a"; CCursor; CSeek "a"; CNext (Some "a"); CNext (Some "ab"); CNext (Some "abc"); CNext (Some "b")] None).
Proof. vm_compute. reflexivity. Qed.
