(* Properties/C14.v -- statically wrong statements are rejected when the plan is built; what
   the typing rules allow is accepted.  Only property theorems here, each closed by
   [exact <lemma>] and followed by Print Assumptions; non-vacuity examples; _refuted witnesses
   for the pinned (pre-fix) checker.

   Reading guide.  [check fo true ctx e] is the twin of Expression.Check after the fix: commits
   (Model/Checker.v), [check_calls] the twin of the call validation BuildPlan runs right after
   parsing, [build_check] both for a whole statement.  [infer fo E m e = Some t] is the typing
   judgement E ; m |- e : t of Spec/Typing.v; [calls_placed] its side judgement on where
   aggregate functions may stand.  [env_of] / [mode_of] read the field-name environment and the
   key/value permissions off a CheckCtx.  The twin takes no storage argument: whether a
   statement is rejected cannot depend on, or touch, the store (the correspondence check
   measures the storage calls of the implementation: zero for every rejected statement). *)
From Coq Require Import List String ZArith Bool.
Import ListNotations.
From KV Require Import Base.Bytes Model.Ast Model.Value Model.Eval Model.Checker
                       Spec.Typing Proofs.CheckerProofs Proofs.SelectProofs Proofs.TypeSafetyProofs.
Open Scope string_scope.

(* Soundness of the checker, for every expression tree the parser can build (no field
   references yet), every CheckCtx and at every nesting depth: what Check + the call validation
   accept is well typed -- so a fault is rejected wherever it sits: under !, inside function
   arguments, IN lists, BETWEEN bounds, field access, select fields.
   Stated premise [params_static]: the parameters of substr / split / join / json / len / the
   distance functions that the documentation types have that type in the checked tree.
   Function parameter TYPES are not among the faults property C14 lists (operator / operand
   types, non-Boolean WHERE or ! operand, key / value where forbidden, unknown function,
   argument count); the checker tests them only when the function runs, and the
   correspondence check does not judge them. *)
Theorem check_sound : forall (fo : fops) (ctx : cctx) (e e1 : expr) (a : bool),
  no_refs e = true ->
  check fo true ctx e = Ok e1 ->
  check_calls a (rewrite_name (c_names ctx) e1) = Ok tt ->
  params_static (rewrite_name (c_names ctx) e1) = true ->
  infer fo (env_of (c_names ctx)) (mode_of ctx) e
    = Some (sty_of (rtype (rewrite_name (c_names ctx) e1)))
  /\ calls_placed a e = true.
Proof. intros fo ctx e e1 a Hn. exact (sound_expr fo ctx e Hn e1 a). Qed.
Print Assumptions check_sound.

(* Completeness: what the typing rules allow is accepted, the checked tree has the type the
   rules give, and the typed function parameters are as documented.  No side premise: the rule
   "a comparison's operands are not both key, nor both value" is part of Spec/Typing.v. *)
Theorem check_complete : forall (fo : fops) (ctx : cctx) (e : expr) (t : sty) (a : bool),
  infer fo (env_of (c_names ctx)) (mode_of ctx) e = Some t ->
  calls_placed a e = true ->
  exists e1, check fo true ctx e = Ok e1 /\
             check_calls a (rewrite_name (c_names ctx) e1) = Ok tt /\
             sty_of (rtype (rewrite_name (c_names ctx) e1)) = t /\
             params_static (rewrite_name (c_names ctx) e1) = true.
Proof. exact complete_expr_typed. Qed.
Print Assumptions check_complete.

(* Whole statements through build_check = Parser.Parse's checks + the call validation of
   BuildPlan: SELECT (fields with names, WHERE, ORDER BY), PUT, REMOVE, DELETE, against
   [stmt_typed] (Spec/Typing.v: select_typed / put_typed / remove_typed / delete_typed).
   _partial: [stmt_fields_plain] -- the field definitions of a SELECT use no field names
   themselves (names in WHERE and ORDER BY are covered; a field that refers to another field is
   rewritten in place by the Go checker and is C05's subject); GROUP BY and the consistency
   rules of the aggregation plan are outside the twin.
   Full statement (not proved): the same without stmt_fields_plain and with GROUP BY. *)
Theorem build_check_sound_partial : forall (fo : fops) (s s2 : stmt),
  build_check fo true s = Ok s2 -> stmt_no_refs s = true -> stmt_params_static s2 = true ->
  stmt_fields_plain s -> stmt_typed fo s = true.
Proof. exact build_check_sound. Qed.
Print Assumptions build_check_sound_partial.

Theorem build_check_complete_partial : forall (fo : fops) (s : stmt),
  stmt_typed fo s = true -> stmt_fields_plain s ->
  exists s2, build_check fo true s = Ok s2.
Proof. exact build_check_complete_typed. Qed.
Print Assumptions build_check_complete_partial.

(* the statement forms without field names, no side condition on fields *)
Theorem delete_check_sound : forall (fo : fops) (w : expr) (s2 : stmt),
  build_check fo true (SDelete w) = Ok s2 -> no_refs w = true -> stmt_params_static s2 = true ->
  delete_typed fo w = true.
Proof. exact delete_sound. Qed.
Print Assumptions delete_check_sound.

Theorem delete_check_complete : forall (fo : fops) (w : expr),
  delete_typed fo w = true -> exists s2, build_check fo true (SDelete w) = Ok s2.
Proof. intros fo w H. exact (build_check_complete_typed fo (SDelete w) H I). Qed.
Print Assumptions delete_check_complete.

Theorem remove_check_sound : forall (fo : fops) (keys : list expr) (s2 : stmt),
  build_check fo true (SRemove keys) = Ok s2 -> forallb no_refs keys = true ->
  stmt_params_static s2 = true -> remove_typed fo keys = true.
Proof. exact remove_sound. Qed.
Print Assumptions remove_check_sound.

Theorem remove_check_complete : forall (fo : fops) (keys : list expr),
  remove_typed fo keys = true -> exists s2, build_check fo true (SRemove keys) = Ok s2.
Proof. intros fo k H. exact (build_check_complete_typed fo (SRemove k) H I). Qed.
Print Assumptions remove_check_complete.

Theorem put_check_sound : forall (fo : fops) (pairs : list (expr * expr)) (s2 : stmt),
  build_check fo true (SPut pairs) = Ok s2 ->
  forallb (fun kv => no_refs (fst kv) && no_refs (snd kv)) pairs = true ->
  stmt_params_static s2 = true -> put_typed fo pairs = true.
Proof. exact put_sound. Qed.
Print Assumptions put_check_sound.

Theorem put_check_complete : forall (fo : fops) (pairs : list (expr * expr)),
  put_typed fo pairs = true -> exists s2, build_check fo true (SPut pairs) = Ok s2.
Proof. intros fo p H. exact (build_check_complete_typed fo (SPut p) H I). Qed.
Print Assumptions put_check_complete.

(* Type soundness of the row evaluator on what the checker accepts, core language first
   (_partial: see [core] in Proofs/TypeSafetyProofs.v -- no regular expressions, no field
   access, no IN over a list-valued function, function calls limited to the conversion functions
   upper lower str int float strlen is_int is_float; = / != on numbers are covered for integer
   and float operands alike since execEqual compares numbers with the rule of > >= < <=, see
   float_equality_pinned_refuted below for the pre-fix behaviour).  Element access on list
   values and IN over list-valued functions are dynamically typed like JSON field access (the
   exception the property makes) and are therefore outside [core] by design, not by omission.
   For every float interface (no float law assumed), every regexp oracle, every CheckCtx and
   every pair (k, v): evaluating the checked tree yields a value of its static type, or one of
   the two data-dependent failures listed by [sites] (division by zero at the divisor, BETWEEN
   with lower bound not below the upper at the BETWEEN) -- never an operand-type error, never a
   panic.  [refs_ok]: the same holds for the definitions of the field names the tree refers to.
   Full statement (not proved): the same for every well-typed statement without JSON field
   access, all function bodies included. *)
Theorem no_dynamic_type_error_partial :
  forall (fo : fops) (re : bytes -> bytes -> res bool) (ctx : cctx) (e e1 : expr) (k v : bytes),
  check fo true ctx e = Ok e1 ->
  core (rewrite_name (c_names ctx) e1) = true ->
  refs_ok fo re k v (rewrite_name (c_names ctx) e1) ->
  dyn_ok fo re k v (rewrite_name (c_names ctx) e1).
Proof. exact checked_tree_safe. Qed.
Print Assumptions no_dynamic_type_error_partial.

(* regression witness for the repaired finding C14/float-equality-fails-at-execution: the
   pre-fix execEqual (Model/Eval.v equal_values_pinned) answered two operands of the static
   type Number with the operand-type error as soon as one of them was a float, for every float
   interface; the repaired one never does *)
Theorem float_equality_pinned_refuted :
  forall (fo : fops) (f : F fo) (z : Z) (p : nat),
  equal_values_pinned fo (VFlt f) (VFlt f) p = Err (EExec p) /\
  equal_values_pinned fo (VFlt f) (VInt z) p = Err (EExec p) /\
  equal_values_pinned fo (VInt z) (VFlt f) p = Err (EExec p).
Proof. intros; repeat split. Qed.
Print Assumptions float_equality_pinned_refuted.

Theorem float_equality_total :
  forall (fo : fops) (a b : value fo) (p : nat),
  vty fo a TNumber = true -> vty fo b TNumber = true ->
  exists x, equal_values fo a b p = Ok x.
Proof. exact number_equality_total. Qed.
Print Assumptions float_equality_total.

(* ... and the WHERE clause of a row never fails with "result is not boolean" *)
Theorem where_clause_safe_partial :
  forall (fo : fops) (re : bytes -> bytes -> res bool) (k v : bytes) (e : expr),
  rtype e = TBool -> dyn_ok fo re k v e ->
  match filter_row fo re k v e with
  | Ok _ => True
  | Err x => In x (sites e)
  | Panic => False
  | OutOfModel => True
  end.
Proof. exact filter_row_safe. Qed.
Print Assumptions where_clause_safe_partial.

(* ---------------------------------------------------------------- non-vacuity *)
(* select int(value) as n where !(n > 1) & key in ('a', upper(value)): accepted, names
   resolved under ! and the premises of check_sound hold *)
Definition ex_ctx : cctx :=
  Cctx [("n", ECall 7 (EName 7 "int") [EField 11 ValueKW])] false false.
Definition ex_where : expr :=
  EBin 40 OAnd
    (ENot 28 (EBin 32 OGt (EName 30 "n") (ENum 34 "1")))
    (EBin 46 OIn (EField 42 KeyKW)
       (EList 46 [EStr 50 "a"; ECall 55 (EName 55 "upper") [EField 61 ValueKW]])).

Example check_sound_nonvacuous :
  no_refs ex_where = true /\
  (exists e1, check no_floats true ex_ctx ex_where = Ok e1 /\
              check_calls false (rewrite_name (c_names ex_ctx) e1) = Ok tt /\
              params_static (rewrite_name (c_names ex_ctx) e1) = true /\
              rtype e1 = TBool) /\
  infer no_floats (env_of (c_names ex_ctx)) (mode_of ex_ctx) ex_where = Some SBool.
Proof.
  split; [reflexivity|]. split; [|reflexivity].
  eexists. split; [vm_compute; reflexivity|]. repeat split.
Qed.

(* ... and it evaluates without a type error on the pair ("a", "12") *)
Example no_dynamic_type_error_nonvacuous :
  exists e1, check no_floats true ex_ctx ex_where = Ok e1 /\
             core (rewrite_name (c_names ex_ctx) e1) = true /\
             refs_ok no_floats (fun _ _ => OutOfModel) "a" "12" (rewrite_name (c_names ex_ctx) e1) /\
             eval no_floats (fun _ _ => OutOfModel) "a" "12" e1 = Ok (VBool false).
Proof.
  eexists. split; [vm_compute; reflexivity|]. split; [vm_compute; reflexivity|].
  split; [|vm_compute; reflexivity]. cbn. repeat split; vm_compute; reflexivity.
Qed.

(* the same statement with the fault placed under ! inside the IN list: rejected at the
   position of the fault (offset 61: `value + 1`) *)
Example fault_in_list_rejected :
  check no_floats true ex_ctx
    (EBin 40 OAnd
       (ENot 28 (EBin 32 OGt (EName 30 "n") (ENum 34 "1")))
       (EBin 46 OIn (EField 42 KeyKW)
          (EList 46 [EStr 50 "a"; ECall 55 (EName 55 "upper") [EBin 67 OAdd (EField 61 ValueKW) (ENum 69 "1")]])))
  = Err (ESyntax 61).
Proof. vm_compute. reflexivity. Qed.

(* select int(value) as n where !(n > 1) & key in ('a', upper(value)) order by n: the premises
   of build_check_sound_partial hold and the statement is typed *)
Example build_check_sound_nonvacuous :
  let s := SSelect (c_names ex_ctx) ex_where [(70, "n")] in
  (exists s2, build_check no_floats true s = Ok s2 /\ stmt_params_static s2 = true) /\
  stmt_no_refs s = true /\ stmt_fields_plain s /\ stmt_typed no_floats s = true.
Proof.
  cbn zeta. split; [eexists; split; vm_compute; reflexivity|].
  split; [reflexivity|]. split; [repeat constructor|]. reflexivity.
Qed.

Example put_complete_nonvacuous :
  put_typed no_floats [(EStr 5 "k", EBin 18 OAdd (EStr 10 "v") (EField 20 KeyKW))] = true /\
  build_check no_floats true (SPut [(EStr 5 "k", EBin 18 OAdd (EStr 10 "v") (EField 20 KeyKW))])
    = Ok (SPut [(EStr 5 "k", EBin 18 OAdd (EStr 10 "v") (EField 20 KeyKW))]).
Proof. split; vm_compute; reflexivity. Qed.

(* ---------------------------------------------------------------- the pinned checker (before
   the C14 fix: commits) refutes soundness: regression witnesses *)
(* where !(key ^= 1) : NotExpr.Check did not look at its operand *)
Theorem check_sound_pinned_refuted_not :
  exists e e1,
    no_refs e = true /\ check no_floats false (Cctx [] false false) e = Ok e1 /\
    infer no_floats no_env all_allowed e = None.
Proof.
  exists (ENot 15 (EBin 21 OPrefixMatch (EField 17 KeyKW) (ENum 24 "1"))). eexists.
  repeat split; vm_compute; reflexivity.
Qed.
Print Assumptions check_sound_pinned_refuted_not.

(* where key between 'a' + 1 and 'b' : ListExpr.Check did not look at its items *)
Theorem check_sound_pinned_refuted_list :
  exists e e1,
    no_refs e = true /\ check no_floats false (Cctx [] false false) e = Ok e1 /\
    infer no_floats no_env all_allowed e = None.
Proof.
  exists (EBin 19 OBetween (EField 15 KeyKW)
            (EList 19 [EBin 31 OAdd (EStr 27 "a") (ENum 33 "1"); EStr 39 "b"])). eexists.
  repeat split; vm_compute; reflexivity.
Qed.
Print Assumptions check_sound_pinned_refuted_list.

(* delete where key ; put (key, 'v') ; select upper(key, key) ... ; where 1 and 2 *)
Theorem build_check_pinned_refuted :
  (exists s2, build_check no_floats false (SDelete (EField 13 KeyKW)) = Ok s2) /\
  delete_typed no_floats (EField 13 KeyKW) = false /\
  (exists s2, build_check no_floats false (SPut [(EField 5 KeyKW, EStr 10 "v")]) = Ok s2) /\
  put_typed no_floats [(EField 5 KeyKW, EStr 10 "v")] = false /\
  (exists s2, build_check no_floats false
                (SDelete (EBin 20 OEq (ECall 13 (EName 13 "upper") [EField 19 KeyKW; EField 24 KeyKW]) (EStr 31 "a"))) = Ok s2) /\
  (exists s2, build_check no_floats false (SDelete (EBin 15 OKWAnd (ENum 13 "1") (ENum 19 "2"))) = Ok s2) /\
  delete_typed no_floats (EBin 15 OKWAnd (ENum 13 "1") (ENum 19 "2")) = false.
Proof. repeat split; try (eexists; vm_compute; reflexivity); vm_compute; reflexivity. Qed.
Print Assumptions build_check_pinned_refuted.

(* and completeness: true & key = 'a' was rejected *)
Theorem check_complete_pinned_refuted :
  exists e p,
    infer no_floats no_env all_allowed e = Some SBool /\
    check no_floats false (Cctx [] false false) e = Err (ESyntax p).
Proof.
  exists (EBin 20 OAnd (EBool 15 true) (EBin 26 OEq (EField 22 KeyKW) (EStr 28 "a"))). eexists.
  repeat split; vm_compute; reflexivity.
Qed.
Print Assumptions check_complete_pinned_refuted.
