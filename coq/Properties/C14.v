(* Properties/C14.v -- statically wrong statements are rejected when the plan is built; what
   the typing rules allow is accepted.  Only property theorems here, each closed by
   [exact <lemma>] and followed by Print Assumptions; non-vacuity examples; _refuted witnesses
   for the pinned (pre-fix) checker.

   Reading guide.  [check fo true ctx e] is the twin of Expression.Check after the fix: commits
   (Model/Checker.v), [check_calls] the twin of the call validation BuildPlan runs right after
   parsing, [build_check] both for a whole statement.  [infer fo E m e = Some t] is the typing
   judgement E ; m |- e : t of Spec/Typing.v; [calls_placed] its side judgement on where
   aggregate functions may stand.  [env_of] / [mode_of] read the field-name environment and the
   key/value permissions off a CheckCtx.  The twin takes no storage argument: whether a
   statement is rejected cannot depend on, or touch, the store (the correspondence check
   measures the storage calls of the implementation: zero for every rejected statement). *)
From Coq Require Import List String ZArith Bool.
Import ListNotations.
From KV Require Import Base.Bytes Model.Ast Model.Value Model.Eval Model.Checker
                       Spec.Typing Proofs.CheckerProofs Proofs.SelectProofs Proofs.TypeSafetyProofs.
From KV Require Model.ParseCheck Proofs.FieldCyclesProofs.
Open Scope string_scope.

(* Soundness of the checker, for every expression tree the parser can build (no field
   references yet), every CheckCtx and at every nesting depth: what Check + the call validation
   accept is well typed -- so a fault is rejected wherever it sits: under !, inside function
   arguments, IN lists, BETWEEN bounds, field access, select fields.
   Stated premise [params_static]: the parameters of substr / split / join / json / len / the
   distance functions that the documentation types have that type in the checked tree.
   Function parameter TYPES are not among the faults property C14 lists (operator / operand
   types, non-Boolean WHERE or ! operand, key / value where forbidden, unknown function,
   argument count); the checker tests them only when the function runs, and the
   correspondence check does not judge them. *)
Theorem check_sound : forall (fo : fops) (ctx : cctx) (e e1 : expr) (a : bool),
  no_refs e = true ->
  check fo true ctx e = Ok e1 ->
  check_calls a (rewrite_name (c_names ctx) e1) = Ok tt ->
  params_static (rewrite_name (c_names ctx) e1) = true ->
  infer fo (env_of (c_names ctx)) (mode_of ctx) e
    = Some (sty_of (rtype (rewrite_name (c_names ctx) e1)))
  /\ calls_placed a e = true.
Proof. intros fo ctx e e1 a Hn. exact (sound_expr fo ctx e Hn e1 a). Qed.
Print Assumptions check_sound.

(* Completeness: what the typing rules allow is accepted, the checked tree has the type the
   rules give, and the typed function parameters are as documented.  No side premise: the rule
   "a comparison's operands are not both key, nor both value" is part of Spec/Typing.v. *)
Theorem check_complete : forall (fo : fops) (ctx : cctx) (e : expr) (t : sty) (a : bool),
  infer fo (env_of (c_names ctx)) (mode_of ctx) e = Some t ->
  calls_placed a e = true ->
  exists e1, check fo true ctx e = Ok e1 /\
             check_calls a (rewrite_name (c_names ctx) e1) = Ok tt /\
             sty_of (rtype (rewrite_name (c_names ctx) e1)) = t /\
             params_static (rewrite_name (c_names ctx) e1) = true.
Proof. exact complete_expr_typed. Qed.
Print Assumptions check_complete.

(* Whole statements through build_check = Parser.Parse's checks (resolveFieldNames, the ORDER BY
   lookups, WHERE, ValidateFields; Validate of PUT / REMOVE / DELETE) + the call validation of
   BuildPlan, against [stmt_typed] (Spec/Typing.v: select_typed / put_typed / remove_typed /
   delete_typed).  In a SELECT a field definition may use the names of other fields, defined
   BEFORE OR AFTER it, to any depth; Spec/Typing.v types every definition, the WHERE clause and
   the ORDER BY names under the environment in which each field name has the type of its
   definition (the fixed point [select_env]).
   Premises ([stmt_fields_ok], SELECT only):
     fields_ranked   the references between the fields are acyclic, stated as a ranking: a
                     definition only uses field names of smaller rank, ranks stay below the
                     number of fields.  This is what SelectStmt.checkFieldCycles establishes
                     before anything is resolved: select_check_sound_cycles_partial /
                     select_check_complete_cycles_partial below take the twin of that test
                     (Model/ParseCheck.v check_cycles, compared with the Go code by C17) as the
                     premise instead (cycle_test_gives_ranking).  [ranked_b] computes a ranking
                     (ranked_b_sound), so the premise can also be evaluated on a statement.
     fields_no_bare  no field definition consists of a field name alone (`zq1 as zq0`): the Go
                     code never resolves such a field -- it stands for the text "zq1", which is
                     C05's subject -- while the typing rules read the name as its definition.
   _partial: the two premises above; GROUP BY and the consistency rules of the aggregation plan
   are outside the twin.
   Full statement (not proved): the same without fields_no_bare, and with GROUP BY. *)
Theorem build_check_sound_fieldrefs_partial : forall (fo : fops) (s s2 : stmt),
  build_check fo true s = Ok s2 -> stmt_no_refs s = true -> stmt_params_static s2 = true ->
  stmt_fields_ok s -> stmt_typed fo s = true.
Proof. exact build_check_sound. Qed.
Print Assumptions build_check_sound_fieldrefs_partial.

Theorem build_check_complete_fieldrefs_partial : forall (fo : fops) (s : stmt),
  stmt_typed fo s = true -> stmt_fields_ok s ->
  exists s2, build_check fo true s = Ok s2.
Proof. exact build_check_complete_typed. Qed.
Print Assumptions build_check_complete_fieldrefs_partial.

(* the computable form of the premises *)
Theorem fields_ok_decidable_witness : forall fields : list (string * expr),
  ranked_b fields = true -> no_bare_b fields = true ->
  fields_ranked fields /\ fields_no_bare fields.
Proof. intros f Hr Hb. split; [exact (ranked_b_sound f Hr)|exact (no_bare_b_sound f Hb)]. Qed.
Print Assumptions fields_ok_decidable_witness.

(* The acyclicity premise discharged by the parser's own test: a field list that
   SelectStmt.checkFieldCycles lets through (twin check_cycles = CNone: a depth-first search
   with the marks unvisited / visiting / done; proved by the invariant "the fields marked done
   can be ranked, and everything a done field refers to is done") has a ranking. *)
Theorem cycle_test_gives_ranking : forall (names : list string) (fields : list expr),
  ParseCheck.check_cycles names fields = ParseCheck.CNone ->
  Forall (fun e => no_refs e = true) fields ->
  List.length names = List.length fields ->
  fields_no_bare (combine names fields) ->
  fields_ranked (combine names fields).
Proof. exact FieldCyclesProofs.check_cycles_ranked. Qed.
Print Assumptions cycle_test_gives_ranking.

(* ... so, for a SELECT as Parser.Parse hands it to its checks (FieldNames zipped with Fields,
   the cycle test passed): accepted => typed, typed => accepted, whatever the order in which
   the fields refer to each other.  _partial: fields_no_bare; GROUP BY outside the twin. *)
Theorem select_check_sound_cycles_partial :
  forall (fo : fops) (names : list string) (fields : list expr) (w : expr) (order : list (nat * string)) (s2 : stmt),
  ParseCheck.check_cycles names fields = ParseCheck.CNone -> List.length names = List.length fields ->
  build_check fo true (SSelect (combine names fields) w order) = Ok s2 ->
  fields_no_bare (combine names fields) ->
  stmt_no_refs (SSelect (combine names fields) w order) = true ->
  stmt_params_static s2 = true ->
  select_typed fo (combine names fields) w order = true.
Proof. exact FieldCyclesProofs.select_sound_cycles. Qed.
Print Assumptions select_check_sound_cycles_partial.

Theorem select_check_complete_cycles_partial :
  forall (fo : fops) (names : list string) (fields : list expr) (w : expr) (order : list (nat * string)),
  ParseCheck.check_cycles names fields = ParseCheck.CNone -> List.length names = List.length fields ->
  select_typed fo (combine names fields) w order = true ->
  fields_no_bare (combine names fields) ->
  stmt_no_refs (SSelect (combine names fields) w order) = true ->
  exists s2, build_check fo true (SSelect (combine names fields) w order) = Ok s2.
Proof. exact FieldCyclesProofs.select_complete_cycles. Qed.
Print Assumptions select_check_complete_cycles_partial.

(* The theorems as they stood before fields could refer to fields: [stmt_fields_plain] -- the
   field definitions of a SELECT use no field names themselves -- is the special case rank 0. *)
Theorem build_check_sound_partial : forall (fo : fops) (s s2 : stmt),
  build_check fo true s = Ok s2 -> stmt_no_refs s = true -> stmt_params_static s2 = true ->
  stmt_fields_plain s -> stmt_typed fo s = true.
Proof. intros fo s s2 H Hn Hp Hpl. exact (build_check_sound fo s s2 H Hn Hp (stmt_plain_ok s Hpl)). Qed.
Print Assumptions build_check_sound_partial.

Theorem build_check_complete_partial : forall (fo : fops) (s : stmt),
  stmt_typed fo s = true -> stmt_fields_plain s ->
  exists s2, build_check fo true s = Ok s2.
Proof. intros fo s H Hpl. exact (build_check_complete_typed fo s H (stmt_plain_ok s Hpl)). Qed.
Print Assumptions build_check_complete_partial.

(* the statement forms without field names, no side condition on fields *)
Theorem delete_check_sound : forall (fo : fops) (w : expr) (s2 : stmt),
  build_check fo true (SDelete w) = Ok s2 -> no_refs w = true -> stmt_params_static s2 = true ->
  delete_typed fo w = true.
Proof. exact delete_sound. Qed.
Print Assumptions delete_check_sound.

Theorem delete_check_complete : forall (fo : fops) (w : expr),
  delete_typed fo w = true -> exists s2, build_check fo true (SDelete w) = Ok s2.
Proof. intros fo w H. exact (build_check_complete_typed fo (SDelete w) H I). Qed.
Print Assumptions delete_check_complete.

Theorem remove_check_sound : forall (fo : fops) (keys : list expr) (s2 : stmt),
  build_check fo true (SRemove keys) = Ok s2 -> forallb no_refs keys = true ->
  stmt_params_static s2 = true -> remove_typed fo keys = true.
Proof. exact remove_sound. Qed.
Print Assumptions remove_check_sound.

Theorem remove_check_complete : forall (fo : fops) (keys : list expr),
  remove_typed fo keys = true -> exists s2, build_check fo true (SRemove keys) = Ok s2.
Proof. intros fo k H. exact (build_check_complete_typed fo (SRemove k) H I). Qed.
Print Assumptions remove_check_complete.

Theorem put_check_sound : forall (fo : fops) (pairs : list (expr * expr)) (s2 : stmt),
  build_check fo true (SPut pairs) = Ok s2 ->
  forallb (fun kv => no_refs (fst kv) && no_refs (snd kv)) pairs = true ->
  stmt_params_static s2 = true -> put_typed fo pairs = true.
Proof. exact put_sound. Qed.
Print Assumptions put_check_sound.

Theorem put_check_complete : forall (fo : fops) (pairs : list (expr * expr)),
  put_typed fo pairs = true -> exists s2, build_check fo true (SPut pairs) = Ok s2.
Proof. intros fo p H. exact (build_check_complete_typed fo (SPut p) H I). Qed.
Print Assumptions put_check_complete.

(* Type soundness of the row evaluator on what the checker accepts, core language first
   (_partial: see [core] in Proofs/TypeSafetyProofs.v -- no regular expressions, no field
   access, no IN over a list-valued function, function calls limited to the conversion functions
   upper lower str int float strlen is_int is_float; = / != on numbers are covered for integer
   and float operands alike since execEqual compares numbers with the rule of > >= < <=, see
   float_equality_pinned_refuted below for the pre-fix behaviour).  Element access on list
   values and IN over list-valued functions are dynamically typed like JSON field access (the
   exception the property makes) and are therefore outside [core] by design, not by omission.
   For every float interface (no float law assumed), every regexp oracle, every CheckCtx and
   every pair (k, v): evaluating the checked tree yields a value of its static type, or one of
   the two data-dependent failures listed by [sites] (division by zero at the divisor, BETWEEN
   with lower bound not below the upper at the BETWEEN) -- never an operand-type error, never a
   panic.  [refs_ok]: the same holds for the definitions of the field names the tree refers to.
   Full statement (not proved): the same for every well-typed statement without JSON field
   access, all function bodies included. *)
Theorem no_dynamic_type_error_partial :
  forall (fo : fops) (re : bytes -> bytes -> res bool) (ctx : cctx) (e e1 : expr) (k v : bytes),
  check fo true ctx e = Ok e1 ->
  core (rewrite_name (c_names ctx) e1) = true ->
  refs_ok fo re k v (rewrite_name (c_names ctx) e1) ->
  dyn_ok fo re k v (rewrite_name (c_names ctx) e1).
Proof. exact checked_tree_safe. Qed.
Print Assumptions no_dynamic_type_error_partial.

(* regression witness for the repaired finding C14/float-equality-fails-at-execution: the
   pre-fix execEqual (Model/Eval.v equal_values_pinned) answered two operands of the static
   type Number with the operand-type error as soon as one of them was a float, for every float
   interface; the repaired one never does *)
Theorem float_equality_pinned_refuted :
  forall (fo : fops) (f : F fo) (z : Z) (p : nat),
  equal_values_pinned fo (VFlt f) (VFlt f) p = Err (EExec p) /\
  equal_values_pinned fo (VFlt f) (VInt z) p = Err (EExec p) /\
  equal_values_pinned fo (VInt z) (VFlt f) p = Err (EExec p).
Proof. intros; repeat split. Qed.
Print Assumptions float_equality_pinned_refuted.

Theorem float_equality_total :
  forall (fo : fops) (a b : value fo) (p : nat),
  vty fo a TNumber = true -> vty fo b TNumber = true ->
  exists x, equal_values fo a b p = Ok x.
Proof. exact number_equality_total. Qed.
Print Assumptions float_equality_total.

(* ... and the WHERE clause of a row never fails with "result is not boolean" *)
Theorem where_clause_safe_partial :
  forall (fo : fops) (re : bytes -> bytes -> res bool) (k v : bytes) (e : expr),
  rtype e = TBool -> dyn_ok fo re k v e ->
  match filter_row fo re k v e with
  | Ok _ => True
  | Err x => In x (sites e)
  | Panic => False
  | OutOfModel => True
  end.
Proof. exact filter_row_safe. Qed.
Print Assumptions where_clause_safe_partial.

(* ---------------------------------------------------------------- non-vacuity *)
(* select int(value) as n where !(n > 1) & key in ('a', upper(value)): accepted, names
   resolved under ! and the premises of check_sound hold *)
Definition ex_ctx : cctx :=
  Cctx [("n", ECall 7 (EName 7 "int") [EField 11 ValueKW])] false false.
Definition ex_where : expr :=
  EBin 40 OAnd
    (ENot 28 (EBin 32 OGt (EName 30 "n") (ENum 34 "1")))
    (EBin 46 OIn (EField 42 KeyKW)
       (EList 46 [EStr 50 "a"; ECall 55 (EName 55 "upper") [EField 61 ValueKW]])).

Example check_sound_nonvacuous :
  no_refs ex_where = true /\
  (exists e1, check no_floats true ex_ctx ex_where = Ok e1 /\
              check_calls false (rewrite_name (c_names ex_ctx) e1) = Ok tt /\
              params_static (rewrite_name (c_names ex_ctx) e1) = true /\
              rtype e1 = TBool) /\
  infer no_floats (env_of (c_names ex_ctx)) (mode_of ex_ctx) ex_where = Some SBool.
Proof.
  split; [reflexivity|]. split; [|reflexivity].
  eexists. split; [vm_compute; reflexivity|]. repeat split.
Qed.

(* ... and it evaluates without a type error on the pair ("a", "12") *)
Example no_dynamic_type_error_nonvacuous :
  exists e1, check no_floats true ex_ctx ex_where = Ok e1 /\
             core (rewrite_name (c_names ex_ctx) e1) = true /\
             refs_ok no_floats (fun _ _ => OutOfModel) "a" "12" (rewrite_name (c_names ex_ctx) e1) /\
             eval no_floats (fun _ _ => OutOfModel) "a" "12" e1 = Ok (VBool false).
Proof.
  eexists. split; [vm_compute; reflexivity|]. split; [vm_compute; reflexivity|].
  split; [|vm_compute; reflexivity]. cbn. repeat split; vm_compute; reflexivity.
Qed.

(* the same statement with the fault placed under ! inside the IN list: rejected at the
   position of the fault (offset 61: `value + 1`) *)
Example fault_in_list_rejected :
  check no_floats true ex_ctx
    (EBin 40 OAnd
       (ENot 28 (EBin 32 OGt (EName 30 "n") (ENum 34 "1")))
       (EBin 46 OIn (EField 42 KeyKW)
          (EList 46 [EStr 50 "a"; ECall 55 (EName 55 "upper") [EBin 67 OAdd (EField 61 ValueKW) (ENum 69 "1")]])))
  = Err (ESyntax 61).
Proof. vm_compute. reflexivity. Qed.

(* select int(value) as n where !(n > 1) & key in ('a', upper(value)) order by n: the premises
   of build_check_sound_partial hold and the statement is typed *)
Example build_check_sound_nonvacuous :
  let s := SSelect (c_names ex_ctx) ex_where [(70, "n")] in
  (exists s2, build_check no_floats true s = Ok s2 /\ stmt_params_static s2 = true) /\
  stmt_no_refs s = true /\ stmt_fields_plain s /\ stmt_typed no_floats s = true.
Proof.
  cbn zeta. split; [eexists; split; vm_compute; reflexivity|].
  split; [reflexivity|]. split; [repeat constructor|]. reflexivity.
Qed.

(* select zq0 + 'y' as zq2, zq1 + 'x' as zq0, key as zq1 where zq2 > 'a' order by zq0: every field
   is used before it is defined, two references deep; the premises of the fieldrefs theorems
   hold, the statement is typed and accepted *)
Definition ex_fwd_fields : list (string * expr) :=
  [("zq2", EBin 11 OAdd (EName 7 "zq0") (EStr 13 "y"));
   ("zq0", EBin 29 OAdd (EName 25 "zq1") (EStr 31 "x"));
   ("zq1", EField 43 KeyKW)].
Definition ex_fwd : stmt :=
  SSelect ex_fwd_fields (EBin 64 OGt (EName 60 "zq2") (EStr 66 "a")) [(79, "zq0")].

Example build_check_fieldrefs_nonvacuous :
  (exists s2, build_check no_floats true ex_fwd = Ok s2 /\ stmt_params_static s2 = true) /\
  stmt_no_refs ex_fwd = true /\ stmt_fields_ok ex_fwd /\ ~ stmt_fields_plain ex_fwd /\
  stmt_typed no_floats ex_fwd = true.
Proof.
  split; [eexists; split; vm_compute; reflexivity|].
  split; [reflexivity|]. split; [apply fields_ok_decidable_witness; vm_compute; reflexivity|].
  split; [|vm_compute; reflexivity].
  intros H. cbn in H. inversion H as [|? ? H1 _]. discriminate H1.
Qed.

(* ... and the cycle test lets it through (while `zq1 + 'x' as zq0, zq0 + 'y' as zq1` is stopped
   at the name that closes the cycle) *)
Example cycle_test_nonvacuous :
  ParseCheck.check_cycles (map fst ex_fwd_fields) (map snd ex_fwd_fields) = ParseCheck.CNone /\
  combine (map fst ex_fwd_fields) (map snd ex_fwd_fields) = ex_fwd_fields /\
  ParseCheck.check_cycles ["zq0"; "zq1"]
    [EBin 11 OAdd (EName 7 "zq1") (EStr 13 "x"); EBin 29 OAdd (EName 25 "zq0") (EStr 31 "y")]
  = ParseCheck.CErr 25.
Proof. repeat split; vm_compute; reflexivity. Qed.

Example put_complete_nonvacuous :
  put_typed no_floats [(EStr 5 "k", EBin 18 OAdd (EStr 10 "v") (EField 20 KeyKW))] = true /\
  build_check no_floats true (SPut [(EStr 5 "k", EBin 18 OAdd (EStr 10 "v") (EField 20 KeyKW))])
    = Ok (SPut [(EStr 5 "k", EBin 18 OAdd (EStr 10 "v") (EField 20 KeyKW))]).
Proof. split; vm_compute; reflexivity. Qed.

(* ---------------------------------------------------------------- the pinned checker (before
   the C14 fix: commits) refutes soundness: regression witnesses *)
(* where !(key ^= 1) : NotExpr.Check did not look at its operand *)
Theorem check_sound_pinned_refuted_not :
  exists e e1,
    no_refs e = true /\ check no_floats false (Cctx [] false false) e = Ok e1 /\
    infer no_floats no_env all_allowed e = None.
Proof.
  exists (ENot 15 (EBin 21 OPrefixMatch (EField 17 KeyKW) (ENum 24 "1"))). eexists.
  repeat split; vm_compute; reflexivity.
Qed.
Print Assumptions check_sound_pinned_refuted_not.

(* where key between 'a' + 1 and 'b' : ListExpr.Check did not look at its items *)
Theorem check_sound_pinned_refuted_list :
  exists e e1,
    no_refs e = true /\ check no_floats false (Cctx [] false false) e = Ok e1 /\
    infer no_floats no_env all_allowed e = None.
Proof.
  exists (EBin 19 OBetween (EField 15 KeyKW)
            (EList 19 [EBin 31 OAdd (EStr 27 "a") (ENum 33 "1"); EStr 39 "b"])). eexists.
  repeat split; vm_compute; reflexivity.
Qed.
Print Assumptions check_sound_pinned_refuted_list.

(* delete where key ; put (key, 'v') ; select upper(key, key) ... ; where 1 and 2 *)
Theorem build_check_pinned_refuted :
  (exists s2, build_check no_floats false (SDelete (EField 13 KeyKW)) = Ok s2) /\
  delete_typed no_floats (EField 13 KeyKW) = false /\
  (exists s2, build_check no_floats false (SPut [(EField 5 KeyKW, EStr 10 "v")]) = Ok s2) /\
  put_typed no_floats [(EField 5 KeyKW, EStr 10 "v")] = false /\
  (exists s2, build_check no_floats false
                (SDelete (EBin 20 OEq (ECall 13 (EName 13 "upper") [EField 19 KeyKW; EField 24 KeyKW]) (EStr 31 "a"))) = Ok s2) /\
  (exists s2, build_check no_floats false (SDelete (EBin 15 OKWAnd (ENum 13 "1") (ENum 19 "2"))) = Ok s2) /\
  delete_typed no_floats (EBin 15 OKWAnd (ENum 13 "1") (ENum 19 "2")) = false.
Proof. repeat split; try (eexists; vm_compute; reflexivity); vm_compute; reflexivity. Qed.
Print Assumptions build_check_pinned_refuted.

(* and completeness: true & key = 'a' was rejected *)
Theorem check_complete_pinned_refuted :
  exists e p,
    infer no_floats no_env all_allowed e = Some SBool /\
    check no_floats false (Cctx [] false false) e = Err (ESyntax p).
Proof.
  exists (EBin 20 OAnd (EBool 15 true) (EBin 26 OEq (EField 22 KeyKW) (EStr 28 "a"))). eexists.
  repeat split; vm_compute; reflexivity.
Qed.
Print Assumptions check_complete_pinned_refuted.

(* The repaired defect (fix: "select fields were type checked against fields whose names were not
   resolved yet").  select zq0 + 1 as zq2, zq1 + 'x' as zq0, key as zq1 where key > 'a':
   zq2 adds a number to the text zq0.  The pre-fix Parse ([build_check_pinned]: one pass over the
   fields in order, no resolveFieldNames) checked zq2 while zq0 = zq1 + 'x' still held the
   unresolved name zq1 -- a number -- and ACCEPTED the statement (batch mode then failed with an
   operand-type error, row mode returned text + number); the typing rules reject it, the
   premises of build_check_sound_fieldrefs_partial hold for it, and the repaired checker rejects
   it at zq0 (offset 7).  With the same fields in the other order both variants reject. *)
Definition fwd_witness_fields : list (string * expr) :=
  [("zq2", EBin 11 OAdd (EName 7 "zq0") (ENum 13 "1"));
   ("zq0", EBin 27 OAdd (EName 23 "zq1") (EStr 29 "x"));
   ("zq1", EField 41 KeyKW)].
Definition fwd_witness : stmt :=
  SSelect fwd_witness_fields (EBin 62 OGt (EField 58 KeyKW) (EStr 64 "a")) [].

Theorem forward_reference_pinned_refuted :
  (exists s2, build_check_pinned no_floats true fwd_witness = Ok s2 /\ stmt_params_static s2 = true) /\
  stmt_no_refs fwd_witness = true /\ stmt_fields_ok fwd_witness /\
  stmt_typed no_floats fwd_witness = false /\
  build_check no_floats true fwd_witness = Err (ESyntax 7) /\
  (exists p, build_check_pinned no_floats true
               (SSelect (rev fwd_witness_fields) (EBin 62 OGt (EField 58 KeyKW) (EStr 64 "a")) []) = Err (ESyntax p)).
Proof.
  split; [eexists; split; vm_compute; reflexivity|].
  split; [reflexivity|]. split; [apply fields_ok_decidable_witness; vm_compute; reflexivity|].
  split; [vm_compute; reflexivity|]. split; [vm_compute; reflexivity|].
  eexists; vm_compute; reflexivity.
Qed.
Print Assumptions forward_reference_pinned_refuted.

(* the same defect through the WHERE clause, which the pre-fix Parse checked before any field
   was resolved, whatever the order of the fields: select key as zq1, zq1 + 'x' as zq0 where
   zq0 > 1 was accepted (and failed on the first row); ... where zq0 > 'a' was rejected although
   well typed *)
Theorem where_reference_pinned_refuted :
  let fields := [("zq1", EField 7 KeyKW); ("zq0", EBin 23 OAdd (EName 19 "zq1") (EStr 25 "x"))] in
  let bad := SSelect fields (EBin 46 OGt (EName 42 "zq0") (ENum 48 "1")) [] in
  let good := SSelect fields (EBin 46 OGt (EName 42 "zq0") (EStr 48 "a")) [] in
  (exists s2, build_check_pinned no_floats true bad = Ok s2) /\ stmt_typed no_floats bad = false /\
  (exists p, build_check no_floats true bad = Err (ESyntax p)) /\
  (exists p, build_check_pinned no_floats true good = Err (ESyntax p)) /\ stmt_typed no_floats good = true /\
  (exists s2, build_check no_floats true good = Ok s2).
Proof.
  cbv zeta. repeat split; try (eexists; vm_compute; reflexivity); vm_compute; reflexivity.
Qed.
Print Assumptions where_reference_pinned_refuted.

(* ==================================================================================================
   Type safety beyond the core language (task T1): every scalar function body, IN over list-valued
   functions, the batch evaluator, and the lift to a whole SELECT run.

   Vocabulary (Proofs/TypeSafety2Proofs.v, Proofs/TypeSafetyVecProofs.v, Proofs/TypeSafetyStmtProofs.v):
     core2 e          the language covered: every operator incl. ~= (under a premise on the oracle),
                      every scalar function of the table except json(), IN over explicit lists and
                      over list-valued calls / field references; no field access (dynamically
                      typed, excepted by the property), list literals only to the right of IN /
                      BETWEEN (the parser builds them nowhere else)
     params_static e  the documented parameter types (start / end of substr : Number, separator of
                      split / join : String, len : not Boolean / json, distance functions : list):
                      the checker does NOT test them (the function bodies do, at execution), so
                      this is a premise that cannot be discharged from Check
     counts_ok e      argument counts of the function table: discharged from check_calls
     wt e             the operator tests of Check at every node: discharged from Check
     node_ok e        = wt && core2 && params_static && counts_ok
     defs_ok P e      P holds for every definition carried by a field reference inside e, at any
                      nesting depth (a reference carries a copy of the field it names)
     in_kinds e       (batch mode only) where IN stands over a list-valued call / reference, the
                      element kind of the list (split: strings; list int_list ilist float_list
                      flist: numbers) is the kind of the left operand; node_okv = node_ok && in_kinds
     sites2 e         the data-dependent failures of e by class and position ([fsites]: with kind):
                      division by zero (ExecuteError at the divisor), BETWEEN with crossed bounds
                      (ExecuteError at the BETWEEN), a distance function (plain error: an element
                      of a list of strings that does not parse as a float, lists of different
                      length), ~= (plain error: the pattern does not compile)
     vty2 v t         value v has the static type t (TList: []string / []int64 / []float64; no
                      value has type json / unknown)
     dyn_ok2          row evaluation: a value of the static type, or an error of sites2; no panic
     dyn_ok_vec       batch evaluation of a chunk: a FULL column of values of the static type, or an
                      error of sites2; no panic
   Which failures of a function body are data-dependent and which are operand-type errors is
   spelled out function by function at the head of Proofs/TypeSafety2Proofs.v.
   ================================================================================================== *)
From KV Require Import Model.EvalVec Model.ScanProj Proofs.TypeSafety2Proofs Proofs.TypeSafetyVecProofs
                       Proofs.TypeSafetyStmtProofs Proofs.TypeSafetyRefsProofs.

(* Row evaluator, the whole scalar language except json() and field access: for every float
   interface (no float law), every regexp oracle that answers with a verdict or a plain error,
   every CheckCtx and every pair: evaluating an accepted tree yields a value of its static type or
   a data-dependent failure of the tree -- never an operand-type error, never a panic.
   _partial, exactly: (a) params_static is a premise (the checker does not test function parameter
   types: `select substr(key, 'a', 1)` is accepted and fails at the first row); (b) json() and
   field access are outside core2 (dynamically typed: the property's exception); (c) the premises
   on the definitions carried by field references (defs_ok) are discharged at statement level
   from build_check (accepted_statement_defs_from_checker: fields may refer to fields defined
   before or after them, to any depth). *)
Theorem no_dynamic_type_error_functions_partial :
  forall (fo : fops) (re : bytes -> bytes -> res bool),
  (forall p t, match re p t with Err x => x = EOther | Panic => False | _ => True end) ->
  forall (ctx : cctx) (e e1 : expr) (a : bool) (k v : bytes),
  check fo true ctx e = Ok e1 ->
  check_calls a (rewrite_name (c_names ctx) e1) = Ok tt ->
  core2 (rewrite_name (c_names ctx) e1) = true ->
  params_static (rewrite_name (c_names ctx) e1) = true ->
  defs_ok (node_ok fo) (rewrite_name (c_names ctx) e1) = true ->
  dyn_ok2 fo re k v (rewrite_name (c_names ctx) e1).
Proof. exact checked_tree_safe2. Qed.
Print Assumptions no_dynamic_type_error_functions_partial.

(* the plain errors of the distance functions on list values are data-dependent: an element of
   a list of strings that ParseFloat refuses, or lists of different length *)
Theorem distance_failures_are_data_dependent :
  forall (fo : fops) (a b : value fo) (x : err),
  vty2 fo a TList = true -> vty2 fo b TList = true ->
  ((do l <- to_float_list fo a; do r <- to_float_list fo b; do d <- cosine_distance fo l r; Ok (@VFlt fo d)) = Err x \/
   (do l <- to_float_list fo a; do r <- to_float_list fo b; do d <- l2_distance fo l r; Ok (@VFlt fo d)) = Err x) ->
  (exists l, (a = VStrs l \/ b = VStrs l) /\ parse_floats fo l = Err x) \/
  (exists l r, to_float_list fo a = Ok l /\ to_float_list fo b = Ok r /\ List.length l <> List.length r).
Proof. exact distance_failures_data_dependent. Qed.
Print Assumptions distance_failures_are_data_dependent.

Theorem where_clause_safe_functions_partial :
  forall (fo : fops) (re : bytes -> bytes -> res bool) (k v : bytes) (e : expr),
  rtype e = TBool -> dyn_ok2 fo re k v e ->
  match filter_row fo re k v e with
  | Ok _ => True
  | Err x => In x (sites2 e)
  | Panic => False
  | OutOfModel => True
  end.
Proof. exact filter_row_safe2. Qed.
Print Assumptions where_clause_safe_functions_partial.

(* Batch evaluator (Model/EvalVec.v, ExecuteBatch), every chunk: a full column of values of the
   static type, or a data-dependent failure of the tree (batch & | and or evaluate both sides for
   the whole chunk: the failure may come from the side row mode skips); never an operand-type
   error, never a panic.  _partial: as above, plus the premise in_kinds (next theorem). *)
Theorem no_dynamic_type_error_batch_partial :
  forall (fo : fops) (re : bytes -> bytes -> res bool),
  (forall p t, match re p t with Err x => x = EOther | Panic => False | _ => True end) ->
  forall (ctx : cctx) (e e1 : expr) (a : bool) (ch : list kvpair),
  check fo true ctx e = Ok e1 ->
  check_calls a (rewrite_name (c_names ctx) e1) = Ok tt ->
  core2 (rewrite_name (c_names ctx) e1) = true ->
  params_static (rewrite_name (c_names ctx) e1) = true ->
  in_kinds (rewrite_name (c_names ctx) e1) = true ->
  defs_ok (node_okv fo) (rewrite_name (c_names ctx) e1) = true ->
  dyn_ok_vec fo re ch (rewrite_name (c_names ctx) e1).
Proof. exact checked_tree_safe_vec. Qed.
Print Assumptions no_dynamic_type_error_batch_partial.

(* The premise in_kinds cannot be dropped: `1 in split('a,b', ',')` is accepted, satisfies every
   other premise, evaluates to false row by row (a failing comparison counts as "not a member")
   and ends a chunk in batch mode with the comparison's plain error, which is no data-dependent
   failure of the tree -- for every float interface, oracle and pair.  (Observed on the Go code:
   row mode returns no row, batch mode fails with "Invalid operator = left or right parameter
   type"; membership in list VALUES is dynamically typed, which the property excepts.) *)
Theorem batch_in_needs_element_kind :
  forall (fo : fops) (re : bytes -> bytes -> res bool) (k v : bytes),
  check fo true (Cctx [] false false) in_kinds_witness = Ok in_kinds_witness /\
  check_calls false in_kinds_witness = Ok tt /\
  node_ok fo in_kinds_witness = true /\ in_kinds in_kinds_witness = false /\
  eval fo re k v in_kinds_witness = Ok (VBool false) /\
  eval_batch fo re true in_kinds_witness [(k, v)] = Err EOther /\
  ~ In EOther (sites2 in_kinds_witness).
Proof. exact in_kinds_needed. Qed.
Print Assumptions batch_in_needs_element_kind.

Theorem where_clause_safe_batch_partial :
  forall (fo : fops) (re : bytes -> bytes -> res bool) (e : expr) (ch : list kvpair),
  rtype e = TBool -> dyn_ok_vec fo re ch e ->
  match filter_batch fo re true e ch with
  | Ok bs => List.length bs = List.length ch
  | Err x => In x (sites2 e)
  | Panic => False
  | OutOfModel => True
  end.
Proof. exact filter_batch_safe2. Qed.
Print Assumptions where_clause_safe_batch_partial.

(* The statement lift.  A SELECT (named fields or *, WHERE) that build_check accepts, run as the
   scan + filter + projection plan (Model/ScanProj.v select_row / select_batch: what
   FullScan / PrefixScan / RangeScan / MultiGet .Next / .Batch and ProjectionPlan do, over any
   stream of slots, i.e. any store under any scan kind, missing MultiGet keys included), drained
   row at a time and in batches of ANY size B >= 1: rows, or one of the data-dependent failures of
   its WHERE clause and fields ([stmt_sites]) -- never an operand-type error, never "WHERE result
   is not Boolean" (FilterExec), never "Expression result type not support" (projection), never
   a panic (also not `x[i]` out of range in filterChunk / processProjectionBatch).  The select
   fields may use the names of other fields, defined BEFORE OR AFTER them, to any depth, and so
   may WHERE: the references then carry definitions resolved fewer rounds than the checked
   fields, and the node conditions are shown to hold in them all (Proofs/TypeSafetyRefsProofs.v).
   Full statement (not proved): every statement build_check accepts, without side premise.
   _partial, exactly what is missing:
     - stmt_frag: the trees are in core2 (no json(), no field access -- the property's exception --
       and no aggregate function: GROUP BY / aggregate plans are not composed) and satisfy
       in_kinds (needed for batch mode only, see batch_in_needs_element_kind);
     - stmt_params_static: documented function parameter types, which the checker does not test;
     - fields_ranked: the references between the fields are acyclic (what checkFieldCycles
       establishes: cycle_test_gives_ranking), stmt_no_refs: the statement is a parser output;
     - the ORDER BY / LIMIT plan nodes on top of the projection and the constant folder that
       runs between Check and execution (C04: folding preserves values) are not composed here;
       ORDER BY is accepted by build_check and ignored by this run. *)
Theorem accepted_statement_type_safe_partial :
  forall (fo : fops) (re : bytes -> bytes -> res bool),
  (forall p t, match re p t with Err x => x = EOther | Panic => False | _ => True end) ->
  forall (fields : list (string * expr)) (w : expr) (order : list (nat * string)) (s2 : stmt)
         (star : bool) (slots : list (option kvpair)),
  build_check fo true (SSelect fields w order) = Ok s2 ->
  fields_ranked fields -> stmt_no_refs (SSelect fields w order) = true ->
  stmt_frag s2 = true -> stmt_params_static s2 = true ->
  match s2 with
  | SSelect f2 w2 _ =>
      okerr (fun x => In x (stmt_sites w2 (sel_fields star f2)))
            (select_row fo re w2 (sel_fields star f2) slots) /\
      forall B, 1 <= B ->
        okerr (fun x => In x (stmt_sites w2 (sel_fields star f2)))
              (select_batch fo re B w2 (sel_fields star f2) slots)
  | _ => False
  end.
Proof. exact accepted_select_safe_ranked. Qed.
Print Assumptions accepted_statement_type_safe_partial.

(* what build_check establishes for the definitions carried by the references of the statement
   it returns (stmt_defs: node_okv in every definition, at every nesting depth), fields that
   refer to fields included *)
Theorem accepted_statement_defs_from_checker :
  forall (fo : fops) (fields : list (string * expr)) (w : expr) (order : list (nat * string)) (s2 : stmt),
  build_check fo true (SSelect fields w order) = Ok s2 ->
  fields_ranked fields -> stmt_no_refs (SSelect fields w order) = true ->
  stmt_frag s2 = true -> stmt_params_static s2 = true -> stmt_defs fo s2 = true.
Proof. exact ranked_stmt_defs. Qed.
Print Assumptions accepted_statement_defs_from_checker.

(* the same for any WHERE tree and field list that satisfy the tree premises (what the theorem
   above instantiates) *)
Theorem select_run_type_safe :
  forall (fo : fops) (re : bytes -> bytes -> res bool),
  (forall p t, match re p t with Err x => x = EOther | Panic => False | _ => True end) ->
  forall (wh : expr) (fields : option (list expr)) (slots : list (option kvpair)),
  rtype wh = TBool ->
  (tree_ok fo wh -> fields_ready (tree_ok fo) fields ->
   okerr (fun x => In x (stmt_sites wh fields)) (select_row fo re wh fields slots)) /\
  (tree_okv fo wh -> fields_ready (tree_okv fo) fields -> forall B,
   okerr (fun x => In x (stmt_sites wh fields)) (select_batch fo re B wh fields slots)).
Proof. exact select_run_safe. Qed.
Print Assumptions select_run_type_safe.

(* the fuel of the drains never runs out: where a run ends OutOfModel, an evaluator call on some
   pair / chunk ended OutOfModel (a float text or case mapping outside the twins) *)
Theorem accepted_statement_fuel_enough :
  forall (fo : fops) (re : bytes -> bytes -> res bool) (wh : expr) (fields : option (list expr))
         (slots : list (option kvpair)),
  (forall kv, filter_row fo re (fst kv) (snd kv) wh <> OutOfModel) ->
  (forall kv, sel_prow fo re fields kv <> OutOfModel) ->
  (forall c, filter_batch fo re true wh c <> OutOfModel) ->
  (forall c, sel_pbatch fo re fields c <> OutOfModel) ->
  (forall c, match filter_batch fo re true wh c with
             | Ok bs => List.length bs = List.length c | Panic => False | _ => True end) ->
  select_row fo re wh fields slots <> OutOfModel /\
  forall B, 1 <= B -> select_batch fo re B wh fields slots <> OutOfModel.
Proof. exact select_fuel_enough. Qed.
Print Assumptions accepted_statement_fuel_enough.

(* DELETE filters its scan with the WHERE clause in the same way (no field names: nothing to
   discharge about references) *)
Theorem accepted_delete_filter_safe_partial :
  forall (fo : fops) (re : bytes -> bytes -> res bool),
  (forall p t, match re p t with Err x => x = EOther | Panic => False | _ => True end) ->
  forall (w : expr) (s2 : stmt),
  build_check fo true (SDelete w) = Ok s2 -> no_refs w = true ->
  stmt_frag s2 = true -> stmt_params_static s2 = true ->
  match s2 with
  | SDelete w2 =>
      (forall kv, okerr (fun x => In x (sites2 w2)) (filter_row fo re (fst kv) (snd kv) w2)) /\
      (forall c, okerr (fun x => In x (sites2 w2)) (filter_batch fo re true w2 c))
  | _ => False
  end.
Proof. exact accepted_delete_filter_safe_full_premises. Qed.
Print Assumptions accepted_delete_filter_safe_partial.

(* ---------------------------------------------------------------- non-vacuity *)
Definition t1_re : bytes -> bytes -> res bool := fun _ _ => OutOfModel.

(* where len(split(value, ',')) > 1 & key in split(value, ',') & substr(upper(key), 0, 1) = 'A':
   accepted, every premise of the row and of the batch theorem holds, and it evaluates *)
Definition t1_ex_where : expr :=
  EBin 60 OAnd
    (EBin 30 OAnd
       (EBin 28 OGt (ECall 6 (EName 6 "len") [ECall 10 (EName 10 "split") [EField 16 ValueKW; EStr 23 ","]]) (ENum 30 "1"))
       (EBin 38 OIn (EField 34 KeyKW) (ECall 41 (EName 41 "split") [EField 47 ValueKW; EStr 54 ","])))
    (EBin 88 OEq
       (ECall 62 (EName 62 "substr") [ECall 69 (EName 69 "upper") [EField 75 KeyKW]; ENum 81 "0"; ENum 84 "1"])
       (EStr 90 "A")).

Example no_dynamic_type_error_functions_nonvacuous :
  let ctx := Cctx [] false false in
  check no_floats true ctx t1_ex_where = Ok t1_ex_where /\
  check_calls false t1_ex_where = Ok tt /\
  core2 t1_ex_where = true /\ params_static t1_ex_where = true /\ in_kinds t1_ex_where = true /\
  defs_ok (node_okv no_floats) t1_ex_where = true /\ defs_ok (node_ok no_floats) t1_ex_where = true /\
  eval no_floats t1_re "a" "a,b" t1_ex_where = Ok (VBool true) /\
  eval_batch no_floats t1_re true t1_ex_where [("a", "a,b"); ("b", "x")] = Ok [VBool true; VBool false].
Proof. cbv zeta. repeat split; vm_compute; reflexivity. Qed.

(* where l2_distance(int_list(1), int_list(1, 2)) > 0: accepted, the premises hold, and the run ends
   in the data-dependent failure "lists of different length", which sites2 lists *)
Definition t1_ex_distance : expr :=
  EBin 50 OGt
    (ECall 6 (EName 6 "l2_distance")
       [ECall 18 (EName 18 "int_list") [ENum 27 "1"]; ECall 31 (EName 31 "int_list") [ENum 40 "1"; ENum 43 "2"]])
    (ENum 52 "0").

Example data_dependent_failure_nonvacuous :
  check no_floats true (Cctx [] false false) t1_ex_distance = Ok t1_ex_distance /\
  node_okv no_floats t1_ex_distance = true /\
  eval no_floats t1_re "a" "1" t1_ex_distance = Err EOther /\
  eval_batch no_floats t1_re true t1_ex_distance [("a", "1")] = Err EOther /\
  In EOther (sites2 t1_ex_distance).
Proof. repeat split; try (vm_compute; reflexivity). cbn. left. reflexivity. Qed.

(* select key, n + 1 as m, int(value) as n, split(value, ',') as s where m in list(2, 13) & len(s) >= 1:
   m uses n before n is defined, WHERE uses m (two references deep) and s.  Accepted; the premises
   of accepted_statement_type_safe_partial hold; the run over the slots a=12, (a missing key),
   b=7, c=1 returns the same two rows row by row and in batches of two *)
Definition t1_ex_fields : list (string * expr) :=
  [("KEY", EField 7 KeyKW);
   ("m", EBin 14 OAdd (EName 12 "n") (ENum 16 "1"));
   ("n", ECall 24 (EName 24 "int") [EField 28 ValueKW]);
   ("s", ECall 41 (EName 41 "split") [EField 47 ValueKW; EStr 54 ","])].
Definition t1_ex_stmt_where : expr :=
  EBin 88 OAnd
    (EBin 72 OIn (EName 70 "m") (ECall 75 (EName 75 "list") [ENum 80 "2"; ENum 83 "13"]))
    (EBin 97 OGte (ECall 90 (EName 90 "len") [EName 94 "s"]) (ENum 100 "1")).
Definition t1_ex_stmt : stmt := SSelect t1_ex_fields t1_ex_stmt_where [].
Definition t1_ex_slots : list (option kvpair) := [Some ("a", "12"); None; Some ("b", "7"); Some ("c", "1")].

Example accepted_statement_type_safe_nonvacuous :
  exists f2 w2,
    build_check no_floats true t1_ex_stmt = Ok (SSelect f2 w2 []) /\
    fields_ranked t1_ex_fields /\ ~ fields_plain t1_ex_fields /\ stmt_no_refs t1_ex_stmt = true /\
    stmt_frag (SSelect f2 w2 []) = true /\ stmt_params_static (SSelect f2 w2 []) = true /\
    stmt_defs no_floats (SSelect f2 w2 []) = true /\
    select_row no_floats t1_re w2 (sel_fields false f2) t1_ex_slots
      = Ok [[VBytes "a"; VInt 13; VInt 12; VStrs ["12"]]; [VBytes "c"; VInt 2; VInt 1; VStrs ["1"]]] /\
    select_batch no_floats t1_re 2 w2 (sel_fields false f2) t1_ex_slots
      = Ok [[[VBytes "a"; VInt 13; VInt 12; VStrs ["12"]]; [VBytes "c"; VInt 2; VInt 1; VStrs ["1"]]]].
Proof.
  eexists. eexists. split; [vm_compute; reflexivity|].
  split; [apply ranked_b_sound; vm_compute; reflexivity|].
  split; [intros H; inversion H as [|? ? _ H2]; inversion H2 as [|? ? H3 _]; discriminate H3|].
  repeat split; vm_compute; reflexivity.
Qed.

(* ==================================================================================================
   (e) THE CONSTANT FOLDER between Check and execution (Proofs/TypeSafetyWeakProofs.v,
   Proofs/TypeSafetyFoldProofs.v).  The plans evaluate the trees ExpressionOptimizer.Optimize
   returns ([fold], Model/Fold.v); the theorems above speak about the checked trees.

   Folding keeps every TYPE fact Check establishes, the static type included, but NOT the
   checker's syntactic test "a literal divisor is not zero": `int(value) / (2 - 2) > 1` is
   accepted and folds to `int(value) / 0 > 1`, which Check would reject ([fold_breaks_literal_
   divisor_test] below).  The node conditions used here are therefore the weak ones:
     wtt e        the operator tests of Check at every node except that test
     node_okt e   = wtt && core2 && params_static && counts_ok;  node_oktv = node_okt && in_kinds
   (node_ok -> node_okt: weak_node_conditions_from_checker), and both evaluator inductions were
   re-run under them (type_safety_needs_no_literal_divisor_test).  A zero divisor is the
   data-dependent failure "division by zero" whether it is written as a literal or computed.
   ================================================================================================== *)
From KV Require Import Model.Fold Proofs.TypeSafetyWeakProofs Proofs.TypeSafetyFoldProofs.

Theorem weak_node_conditions_from_checker :
  forall (fo : fops) (e : expr),
  (node_ok fo e = true -> node_okt fo e = true) /\ (node_okv fo e = true -> node_oktv fo e = true).
Proof. exact (fun fo e => conj (node_ok_okt fo e) (node_okv_oktv fo e)). Qed.
Print Assumptions weak_node_conditions_from_checker.

(* the two evaluators on ANY tree that satisfies the weak node conditions (the tree itself and
   every definition carried by a reference): a value / a full column of the static type, or a
   data-dependent failure of the tree; never an operand-type error, never a panic *)
Theorem type_safety_needs_no_literal_divisor_test :
  forall (fo : fops) (re : bytes -> bytes -> res bool),
  (forall p t, match re p t with Err x => x = EOther | Panic => False | _ => True end) ->
  forall e : expr,
  (node_okt fo e = true -> defs_ok (node_okt fo) e = true -> forall k v, dyn_ok2 fo re k v e) /\
  (node_oktv fo e = true -> defs_ok (node_oktv fo) e = true -> forall ch, dyn_ok_vec fo re ch e).
Proof.
  exact (fun fo re re_ok e =>
           conj (fun Hn Hd k v => eval_safe2_weak fo re re_ok k v e Hn Hd)
                (fun Hn Hd ch => eval_batch_safe_weak fo re re_ok e ch Hn Hd)).
Qed.
Print Assumptions type_safety_needs_no_literal_divisor_test.

(* fold_keeps_type_safety, row mode.  For every float interface, oracle (the folder evaluates
   constant sub-trees with the same oracle), rendering fmt_v of folded float literals (no premise
   on it: type safety does not need the literal to read back as the same float), every tree:
   if the tree satisfies the node conditions, so does the tree Optimize returns, with the SAME
   static type, and evaluating it on any pair yields a value of that type or a data-dependent
   failure of the folded tree (sites2 of the FOLDED tree: a divisor folded to a literal reports
   the offset of the literal, see the example) -- never an operand-type error, never a panic. *)
Theorem fold_keeps_type_safety :
  forall (fo : fops) (re : bytes -> bytes -> res bool),
  (forall p t, match re p t with Err x => x = EOther | Panic => False | _ => True end) ->
  forall (fmt_v : F fo -> string) (e : expr),
  node_okt fo e = true -> defs_ok (node_okt fo) e = true ->
  rtype (fold fo re fmt_v e) = rtype e /\
  node_okt fo (fold fo re fmt_v e) = true /\ defs_ok (node_okt fo) (fold fo re fmt_v e) = true /\
  forall k v, dyn_ok2 fo re k v (fold fo re fmt_v e).
Proof. exact fold_safe_row. Qed.
Print Assumptions fold_keeps_type_safety.

(* ... batch mode, any chunk: a full column of values of the static type of the checked tree *)
Theorem fold_keeps_type_safety_batch :
  forall (fo : fops) (re : bytes -> bytes -> res bool),
  (forall p t, match re p t with Err x => x = EOther | Panic => False | _ => True end) ->
  forall (fmt_v : F fo -> string) (e : expr),
  node_oktv fo e = true -> defs_ok (node_oktv fo) e = true ->
  rtype (fold fo re fmt_v e) = rtype e /\
  node_oktv fo (fold fo re fmt_v e) = true /\ defs_ok (node_oktv fo) (fold fo re fmt_v e) = true /\
  forall ch, dyn_ok_vec fo re ch (fold fo re fmt_v e).
Proof. exact fold_safe_vec. Qed.
Print Assumptions fold_keeps_type_safety_batch.

(* no_dynamic_type_error_functions_partial / _batch_partial restated for the tree the plan
   evaluates: same premises, the conclusion for fold of the checked tree.  _partial: as there
   (params_static, core2, in_kinds for batch mode, defs_ok are premises). *)
Theorem no_dynamic_type_error_folded_partial :
  forall (fo : fops) (re : bytes -> bytes -> res bool),
  (forall p t, match re p t with Err x => x = EOther | Panic => False | _ => True end) ->
  forall (fmt_v : F fo -> string) (ctx : cctx) (e e1 : expr) (a : bool),
  check fo true ctx e = Ok e1 ->
  check_calls a (rewrite_name (c_names ctx) e1) = Ok tt ->
  core2 (rewrite_name (c_names ctx) e1) = true ->
  params_static (rewrite_name (c_names ctx) e1) = true ->
  defs_ok (node_ok fo) (rewrite_name (c_names ctx) e1) = true ->
  rtype (fold fo re fmt_v (rewrite_name (c_names ctx) e1)) = rtype (rewrite_name (c_names ctx) e1) /\
  forall k v, dyn_ok2 fo re k v (fold fo re fmt_v (rewrite_name (c_names ctx) e1)).
Proof. exact checked_fold_safe2. Qed.
Print Assumptions no_dynamic_type_error_folded_partial.

Theorem no_dynamic_type_error_folded_batch_partial :
  forall (fo : fops) (re : bytes -> bytes -> res bool),
  (forall p t, match re p t with Err x => x = EOther | Panic => False | _ => True end) ->
  forall (fmt_v : F fo -> string) (ctx : cctx) (e e1 : expr) (a : bool),
  check fo true ctx e = Ok e1 ->
  check_calls a (rewrite_name (c_names ctx) e1) = Ok tt ->
  core2 (rewrite_name (c_names ctx) e1) = true ->
  params_static (rewrite_name (c_names ctx) e1) = true ->
  in_kinds (rewrite_name (c_names ctx) e1) = true ->
  defs_ok (node_okv fo) (rewrite_name (c_names ctx) e1) = true ->
  rtype (fold fo re fmt_v (rewrite_name (c_names ctx) e1)) = rtype (rewrite_name (c_names ctx) e1) /\
  forall ch, dyn_ok_vec fo re ch (fold fo re fmt_v (rewrite_name (c_names ctx) e1)).
Proof. exact checked_fold_safe_vec. Qed.
Print Assumptions no_dynamic_type_error_folded_batch_partial.

(* non-vacuity, and why the weak conditions are needed:
   where int(value) / (2 - 2) > 1 | key + ('a' + 'b') = 'kab'
   is accepted and satisfies every premise; Optimize returns
   int(value) / 0 > 1 | key + 'ab' = 'kab' (constant operands folded, the text chain
   re-associated); the folded tree FAILS the checker's operator tests (wt: literal zero divisor)
   and satisfies the weak ones; on the pair (k, 7) both modes end in the data-dependent failure
   "division by zero", reported at the folded literal (offset 20; the unfolded tree reports 22). *)
Definition fold_ex : expr :=
  EBin 27 OOr
    (EBin 23 OGt (EBin 17 ODiv (ECall 6 (EName 6 "int") [EField 10 ValueKW])
                               (EBin 22 OSub (ENum 20 "2") (ENum 24 "2"))) (ENum 30 "1"))
    (EBin 52 OEq (EBin 38 OAdd (EBin 36 OAdd (EField 34 KeyKW) (EStr 41 "a")) (EStr 47 "b")) (EStr 54 "kab")).
Definition fold_ex_fmt : F no_floats -> string := fun _ => "".

Example fold_breaks_literal_divisor_test :
  check no_floats true (Cctx [] false false) fold_ex = Ok fold_ex /\
  check_calls false fold_ex = Ok tt /\
  node_okv no_floats fold_ex = true /\ defs_ok (node_okv no_floats) fold_ex = true /\
  fold no_floats t1_re fold_ex_fmt fold_ex =
    EBin 27 OOr
      (EBin 23 OGt (EBin 17 ODiv (ECall 6 (EName 6 "int") [EField 10 ValueKW]) (ENum 20 "0")) (ENum 30 "1"))
      (EBin 52 OEq (EBin 38 OAdd (EField 34 KeyKW) (EStr 41 "ab")) (EStr 54 "kab")) /\
  TypeSafetyProofs.wt no_floats (fold no_floats t1_re fold_ex_fmt fold_ex) = false /\
  node_oktv no_floats (fold no_floats t1_re fold_ex_fmt fold_ex) = true /\
  eval no_floats t1_re "k" "7" (fold no_floats t1_re fold_ex_fmt fold_ex) = Err (EExec 20) /\
  eval_batch no_floats t1_re true (fold no_floats t1_re fold_ex_fmt fold_ex) [("k", "7")] = Err (EExec 20) /\
  eval no_floats t1_re "k" "7" fold_ex = Err (EExec 22) /\
  sites2 (fold no_floats t1_re fold_ex_fmt fold_ex) = [EExec 20].
Proof. repeat split; vm_compute; reflexivity. Qed.

(* ---- the tree the plan EXECUTES (Model/FoldStmt.v): exec_tree = the folded tree with every field
   reference re-pointed to the state in which the folder left the object of the field it names
   (operands folded in place, the root not replaced); in_place (relink d) = what a reference or a
   GROUP BY item evaluates.  Both keep the node conditions and the static type. *)
From KV Require Import Model.FoldStmt Model.SelectPlans Model.Pipeline Model.PipelineS Model.StmtParser
                       Proofs.PipelineSProofs Proofs.TypeSafetyTextProofs.

Theorem exec_tree_keeps_type_safety :
  forall (fo : fops) (re : bytes -> bytes -> res bool),
  (forall p t, match re p t with Err x => x = EOther | Panic => False | _ => True end) ->
  forall (fmt_v : F fo -> string) (e : expr),
  (node_okt fo e = true -> defs_ok (node_okt fo) e = true ->
   rtype (exec_tree fo re fmt_v e) = rtype e /\ node_okt fo (exec_tree fo re fmt_v e) = true /\
   defs_ok (node_okt fo) (exec_tree fo re fmt_v e) = true /\
   forall k v, dyn_ok2 fo re k v (exec_tree fo re fmt_v e)) /\
  (node_oktv fo e = true -> defs_ok (node_oktv fo) e = true ->
   rtype (exec_tree fo re fmt_v e) = rtype e /\ node_oktv fo (exec_tree fo re fmt_v e) = true /\
   defs_ok (node_oktv fo) (exec_tree fo re fmt_v e) = true /\
   forall ch, dyn_ok_vec fo re ch (exec_tree fo re fmt_v e)).
Proof. exact (fun fo re re_ok fmt_v e => conj (exec_safe_row fo re re_ok fmt_v e) (exec_safe_vec fo re re_ok fmt_v e)). Qed.
Print Assumptions exec_tree_keeps_type_safety.

Theorem referenced_object_keeps_type_safety :
  forall (fo : fops) (re : bytes -> bytes -> res bool),
  (forall p t, match re p t with Err x => x = EOther | Panic => False | _ => True end) ->
  forall (fmt_v : F fo -> string) (d : expr),
  (node_okt fo d = true -> defs_ok (node_okt fo) d = true ->
   rtype (in_place fo re fmt_v (relink fo re fmt_v d)) = rtype d /\
   forall k v, dyn_ok2 fo re k v (in_place fo re fmt_v (relink fo re fmt_v d))) /\
  (node_oktv fo d = true -> defs_ok (node_oktv fo) d = true ->
   rtype (in_place fo re fmt_v (relink fo re fmt_v d)) = rtype d /\
   forall ch, dyn_ok_vec fo re ch (in_place fo re fmt_v (relink fo re fmt_v d))).
Proof. exact (fun fo re re_ok fmt_v d => conj (in_place_safe_row fo re re_ok fmt_v d) (in_place_safe_vec fo re re_ok fmt_v d)). Qed.
Print Assumptions referenced_object_keeps_type_safety.

(* accepted_statement_type_safe restated OVER THE TREES THE PLAN REALLY EXECUTES: the filter
   evaluates exec_tree of the checked WHERE tree, the projection exec_tree of every checked field
   (Optimizer.optimizeSelectExpressions).  Same premises as accepted_statement_type_safe_partial;
   the failures are the data-dependent sites of the executed trees; any batch size. *)
Theorem accepted_statement_exec_type_safe_partial :
  forall (fo : fops) (re : bytes -> bytes -> res bool),
  (forall p t, match re p t with Err x => x = EOther | Panic => False | _ => True end) ->
  forall (fmt_v : F fo -> string)
         (fields : list (string * expr)) (w : expr) (order : list (nat * string)) (s2 : Checker.stmt)
         (star : bool) (slots : list (option kvpair)),
  build_check fo true (SSelect fields w order) = Ok s2 ->
  fields_ranked fields -> stmt_no_refs (SSelect fields w order) = true ->
  stmt_frag s2 = true -> stmt_params_static s2 = true ->
  match s2 with
  | SSelect f2 w2 _ =>
      rtype (exec_tree fo re fmt_v w2) = TBool /\
      row_safe fo re (exec_tree fo re fmt_v w2) /\ vec_safe fo re (exec_tree fo re fmt_v w2) /\
      fields_ready (row_safe fo re) (exec_fields fo re fmt_v star f2) /\
      fields_ready (vec_safe fo re) (exec_fields fo re fmt_v star f2) /\
      okerr (fun x => In x (stmt_sites (exec_tree fo re fmt_v w2) (exec_fields fo re fmt_v star f2)))
            (select_row fo re (exec_tree fo re fmt_v w2) (exec_fields fo re fmt_v star f2) slots) /\
      forall B,
        okerr (fun x => In x (stmt_sites (exec_tree fo re fmt_v w2) (exec_fields fo re fmt_v star f2)))
              (select_batch fo re B (exec_tree fo re fmt_v w2) (exec_fields fo re fmt_v star f2) slots)
  | _ => False
  end.
Proof. exact accepted_select_exec_safe. Qed.
Print Assumptions accepted_statement_exec_type_safe_partial.

(* the plan nodes on top of a projection add no failure of their own: FinalLimitPlan over any
   child whose Next / Batch fail only inside E, FinalOrderPlan over any child (batch mode: a
   child that hands out no empty batch) *)
Theorem limit_node_adds_no_failure :
  forall (S A : Type) (cnext : S -> res (option A * S)) (cbatch : S -> res (list A * S)) (E : err -> Prop),
  (forall s, okerr E (cnext s)) -> (forall s, okerr E (cbatch s)) ->
  (forall start count s, okerr E (LimitLazy.ldrain_row cnext start count s)) /\
  (forall fuel B start count st s, okerr E (LimitLazy.ldrain_batch_fuel cbatch fuel B start count st s)).
Proof.
  exact (fun S A cnext cbatch E Hn Hb =>
           conj (ldrain_row_okerr S A cnext E Hn) (ldrain_batch_fuel_okerr S A cbatch E Hb)).
Qed.
Print Assumptions limit_node_adds_no_failure.

(* accepted_text_type_safe, projection shapes (Model/PipelineS.v: the twin of BuildPlan + drain
   from the query TEXT).  For every text the pipeline plans, whose final plan is a ProjectionPlan,
   a FinalLimitPlan over it or a FinalOrderPlan over it: every store, both modes, any batch size:
   the run ends in rows, outside the model, or in a data-dependent failure of the trees the plan
   executes -- never an operand-type error, never a panic, no error of the order / limit nodes.
   _partial, what stays premise: is_agg = false and proj_shape (aggregates, GROUP BY and a LIMIT
   over an ORDER BY are not composed); fields_ranked + stmt_no_refs on the parser's statement (the
   cycle test and "the parser builds no reference" are not composed with parse_real here);
   stmt_frag (no json / field access, in_kinds) and stmt_params_static on the checked statement;
   orders_resolve (FinalOrderPlan.Init finds every ORDER BY name: the parser's lookup is not
   composed). *)
Theorem accepted_text_type_safe_partial :
  forall (fo : fops) (re : bytes -> bytes -> res bool),
  (forall p t, match re p t with Err x => x = EOther | Panic => False | _ => True end) ->
  forall (fmt_v : F fo -> string) (ag : aggops fo) (pi pf : bytes -> option Z)
         (q : string) (pl : splanned fo),
  plan_stmt_text fo re fmt_v q = STOk pl ->
  is_agg fo pl = false ->
  fields_ranked (combine (StmtParser.s_names (sp_select fo pl)) (s_fields (sp_select fo pl))) ->
  stmt_no_refs (parsed_stmt (sp_select fo pl)) = true ->
  stmt_frag (checked_stmt fo pl) = true -> stmt_params_static (checked_stmt fo pl) = true ->
  proj_shape (sp_shape fo pl) -> orders_resolve fo (sp_q fo pl) (sp_shape fo pl) ->
  forall (d : Storage.store) (m : tmode),
  match select_stmt_text_st fo re fmt_v ag pi pf q d m with
  | STRunErr e => esites fo (sp_q fo pl) e
  | STOk _ | STOom => True
  | _ => False
  end.
Proof. exact accepted_text_safe_st. Qed.
Print Assumptions accepted_text_type_safe_partial.

(* non-vacuity: select key, int(value) / (2 - 2) as n, upper(key) + 'x' as u
                where key > '' & 1 < 2 order by u desc
   is planned as FinalOrderPlan over ProjectionPlan; the filter evaluates key > '' (the deciding
   constant folded away), field n is int(value) / 0; every premise holds; both modes end in the
   data-dependent failure "division by zero" at the folded literal (offset 26), which is a site
   of the executed trees *)
Definition text_ex : string :=
  "select key, int(value) / (2 - 2) as n, upper(key) + 'x' as u where key > '' & 1 < 2 order by u desc".
Definition text_ex_store : Storage.store := [("a", "3"); ("ab", "1")].

Example accepted_text_type_safe_nonvacuous :
  forall (fo : fops) (re : bytes -> bytes -> res bool) (fmt_v : F fo -> string) (ag : aggops fo)
         (pi pf : bytes -> option Z),
  exists pl,
    plan_stmt_text fo re fmt_v text_ex = STOk pl /\ is_agg fo pl = false /\
    fields_ranked (combine (StmtParser.s_names (sp_select fo pl)) (s_fields (sp_select fo pl))) /\
    stmt_no_refs (parsed_stmt (sp_select fo pl)) = true /\
    stmt_frag (checked_stmt fo pl) = true /\ stmt_params_static (checked_stmt fo pl) = true /\
    proj_shape (sp_shape fo pl) /\ orders_resolve fo (sp_q fo pl) (sp_shape fo pl) /\
    q_where fo (sp_q fo pl) = EBin 71 OGt (EField 67 KeyKW) (EStr 73 "") /\
    select_stmt_text_st fo re fmt_v ag pi pf text_ex text_ex_store MRow = STRunErr (EExec 26) /\
    select_stmt_text_st fo re fmt_v ag pi pf text_ex text_ex_store (MBatch 2) = STRunErr (EExec 26) /\
    esites fo (sp_q fo pl) (EExec 26).
Proof.
  intros. eexists. split; [vm_compute; reflexivity|].
  split; [vm_compute; reflexivity|].
  split; [apply ranked_b_sound; vm_compute; reflexivity|].
  split; [vm_compute; reflexivity|]. split; [vm_compute; reflexivity|]. split; [vm_compute; reflexivity|].
  split; [exact I|]. split; [vm_compute; discriminate|].
  split; [vm_compute; reflexivity|]. split; [vm_compute; reflexivity|]. split; [vm_compute; reflexivity|].
  vm_compute. left. reflexivity.
Qed.
(* ================================================================ ADDENDUM (agent MA): the
   consistency rules of the aggregation plan -- argument counts of aggregate functions, the
   constant second argument of quantile / group_concat -- which AggregatePlan.Init and the
   constructors of aggr_func.go test when the plan is built (Model/AggInit.v,
   Proofs/AggInitProofs.v).

   DEFECT found while writing the twin (repaired in checkFunctionCalls, optimizer.go): argument
   counts of AGGREGATE functions were tested by AggregatePlan.Init only, i.e. on the select fields
   the constant folder left behind.  `select (count(1,2) > 0) & false where true` is folded to
   `select false`: no aggregate call is left, a ProjectionPlan is built, the statement is
   ACCEPTED and runs -- a wrong argument count that is not rejected.  The repaired
   checkFunctionCalls tests the count of aggregate functions next to the scalar ones, before the
   folder runs, and reports it with the error AggregatePlan.Init used (ExecuteError at the call:
   nothing changes for a statement whose only fault is the count) ([check_calls_fx];
   parse_check_agg with fxa = true).

   "Before any storage access": [init_check] is a function of the statement alone (no storage
   argument); in the Go code the first storage call of the Init chain (Storage.Cursor in the
   scan node's Init) is made by a.ChildPlan.Init(), the last statement of AggregatePlan.Init,
   after every test has passed -- FinalLimitPlan.Init and FinalOrderPlan.Init above it call their
   child's Init last as well.  The correspondence observes zero storage calls on every rejection. *)
From KV Require Import Model.StmtParser Model.ParseCheck Model.AggInit Proofs.AggInitProofs.

(* for EVERY query text: a text the repaired front end + Init chain accepts holds no call of an
   aggregate function with a wrong number of arguments in any tree of its checked statement
   (select fields, WHERE, PUT pairs, REMOVE keys), at any depth: under operators, !, in call
   arguments, list items, the base of a field access.  So a wrong count makes the plan builder
   reject the text -- wherever the call sits, whatever the folder would make of the field *)
Theorem agg_arity_rejected :
  forall (fo : fops) (re : string -> string -> res bool) (fmt_v : F fo -> string) (fxq : bool)
         (q : string) (s : StmtParser.stmt) (c : Checker.stmt) (a : bool),
  parse_check_agg fo re fmt_v fxq true q = PAOk s c a ->
  Forall (fun e => has_bad_aggr_arity e = false) (ParseCheck.cstmt_exprs c).
Proof. exact agg_arity_rejected_thm. Qed.
Print Assumptions agg_arity_rejected.

(* the stage that does it: what the repaired call validation lets through *)
Theorem agg_arity_call_validation :
  forall (c : Checker.stmt),
  check_stmt_calls_fx c = Ok tt -> Forall (fun e => has_bad_aggr_arity e = false) (ParseCheck.cstmt_exprs c).
Proof. exact check_stmt_calls_fx_no_bad. Qed.
Print Assumptions agg_arity_call_validation.

(* the Init chain never panics: `args[1]` in newAggrQuantileFunc / newAggrGroupConcatFunc is
   reached with two arguments only (listAggrFunctions tests the count first), evaluating the
   constant argument never panics; the composite never returns a panic, runs out of fuel or
   returns an error outside the three classes *)
Theorem agg_init_total :
  forall (fo : fops) (re : string -> string -> res bool) (fmt_v : F fo -> string) (fxq : bool),
  (forall p t, re p t <> Panic) ->
  forall c : Checker.stmt, init_check fo re fmt_v fxq c <> Panic.
Proof. exact init_check_never_panics_lemma. Qed.
Print Assumptions agg_init_total.

Theorem parse_check_agg_total :
  forall (fo : fops) (re : string -> string -> res bool) (fmt_v : F fo -> string) (fxq fxa : bool) (q : string),
  (forall p t, re p t <> Panic) ->
  match parse_check_agg fo re fmt_v fxq fxa q with PAPanic | PAFuel | PAOther => False | _ => True end.
Proof. exact parse_check_agg_total_thm. Qed.
Print Assumptions parse_check_agg_total.

(* with the pinned call validation the composite is, literally, parse_check followed by the Init
   chain when buildFinalPlan builds an AggregatePlan *)
Theorem agg_init_no_storage_by_construction :
  forall (fo : fops) (re : string -> string -> res bool) (fmt_v : F fo -> string) (fxq : bool) (q : string),
  parse_check_agg fo re fmt_v fxq false q =
  match ParseCheck.parse_check fo re fmt_v q with
  | PCOk s c true =>
      match init_check fo re fmt_v fxq c with
      | Ok _ => PAOk s c true
      | Err e => PAInitErr e
      | Panic => PAPanic
      | OutOfModel => PAOutOfModel
      end
  | PCOk s c false => PAOk s c false
  | PCErr k z => PAErr k z
  | PCOutOfModel => PAOutOfModel
  | PCPanic => PAPanic
  | PCFuel => PAFuel
  | PCOther => PAOther
  end.
Proof. exact parse_check_agg_pinned_is_parse_check_then_init. Qed.
Print Assumptions agg_init_no_storage_by_construction.

(* non-vacuity + the witnesses of the two defects.  (1) the repaired validation rejects the wrong
   count at the call (8: `count`), wherever it sits, with the ExecuteError AggregatePlan.Init
   used; the PINNED one accepts the text as a projection although its checked field holds the
   faulty call.  (2) a wrong count in a field that keeps its aggregate was always rejected, by
   AggregatePlan.Init (ExecuteError at the call), now -- with the same error -- by the call
   validation; an aggregate inside a scalar call stays "Cannot find function" (SyntaxError).  (3) quantile's parameter: after the repair a negative
   parameter is rejected when the plan is built (ExecuteError at the argument); the pinned test
   `percent > 1.0` accepts it (and the quantile stream panics while the rows are computed). *)
From KV Require Import Base.Flt.
Example agg_arity_rejected_nonvacuous :
  forall (fo : fops) (re : string -> string -> res bool) (fmt_v : F fo -> string) (fxq : bool),
  let q := "select (count(1,2) > 0) & false where true" in
  parse_check_agg fo re fmt_v fxq true q = PAInitErr (EExec 8) /\
  (exists s f w o, parse_check_agg fo re fmt_v fxq false q = PAOk s (Checker.SSelect [f] w o) false /\
                   has_bad_aggr_arity (snd f) = true) /\
  parse_check_agg fo re fmt_v fxq true "select key, 1 + sum(value, 1) where true group by key" = PAInitErr (EExec 16) /\
  parse_check_agg fo re fmt_v fxq false "select key, 1 + sum(value, 1) where true group by key" = PAInitErr (EExec 16) /\
  parse_check_agg fo re fmt_v fxq true "select upper(group_concat(key)) where true" = PAErr KCalls 13%Z /\
  (exists s c, parse_check_agg fo re fmt_v fxq true "select key, 1 + sum(value) where true group by key" = PAOk s c true).
Proof.
  intros fo re fmt_v fxq q. subst q. split; [vm_compute; reflexivity|].
  split; [do 4 eexists; split; vm_compute; reflexivity|].
  split; [vm_compute; reflexivity|]. split; [vm_compute; reflexivity|]. split; [vm_compute; reflexivity|].
  eexists. eexists. vm_compute. reflexivity.
Qed.

Example quantile_parameter_pinned_refuted :
  let q := "select quantile(value, 0.0 - 0.5) where true" in
  parse_check_agg prim_fops (fun _ _ => OutOfModel) Fold.pf_fmt_v true true q = PAInitErr (EExec 23) /\
  (exists s c, parse_check_agg prim_fops (fun _ _ => OutOfModel) Fold.pf_fmt_v false true q = PAOk s c true).
Proof. split; [vm_compute; reflexivity|]. eexists. eexists. vm_compute. reflexivity. Qed.
