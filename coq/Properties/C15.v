(* Properties/C15.v -- parsing follows the documented precedence; the printed form re-parses
   identically.  Only property theorems here, each closed by [exact <lemma>] and followed by
   Print Assumptions; non-vacuity examples; witnesses for what the hypotheses exclude.

   Vocabulary (all defined in Model/ExprParser.v, no proofs there):
     parse_expr fuel ts        twin of Parser.parseExpr on the token list ts (head = p.tok)
     parse_expr_top ts         the same with the fuel the correspondence check runs it with
     precedence t              twin of Token.Precedence()
     render e / rtoks e        twin of Expression.String(), as text / as the tokens of that text
     erase e                   e with every position set to 0 and alias references read as names
     rt_ok e                   the shape the type checker leaves: the right side of IN is a list or
                               does not print with a leading parenthesis, `!` is not the head of a
                               call or field access, lists occur only right of IN / BETWEEN
     chunk c a                 the unary parser reads the tokens c as a, whatever follows (any
                               continuation that is not a call / index suffix; 8 fuel per token)
     expr_chunk ts t           parseExpr reads ts as t, up to any token that is no operator
     pimg e / chk_shape e      e is in the image of the parser / the two facts about e that the
                               type checker contributes (rt_ok = chk_shape on the image)
     climb x l / Climb x l t   the textbook reading of a flat sequence x o1 a1 .. on an: split at
                               the LAST operator of MINIMAL binding strength, recurse            *)
From Coq Require Import String List Arith.
Import ListNotations.
From KV Require Import Model.Token Model.Ast Model.ExprParser Proofs.ExprParserProofs.
Open Scope string_scope.
Open Scope list_scope.

(* ---- the table: OR/| < AND/& < comparisons, IN, BETWEEN < + - < * / ; `!` is no binary operator *)
Theorem precedence_table :
  forall p, map (fun d => precedence (Tok OPERATOR d p))
    ["|"; "or"; "&"; "and"; "="; "!="; "^="; "~="; ">"; ">="; "<"; "<="; "in"; "between"; "+"; "-"; "*"; "/"; "!"]%string
  = [1; 1; 2; 2; 3; 3; 3; 3; 3; 3; 3; 3; 3; 3; 4; 4; 5; 5; 0].
Proof. exact precedence_levels. Qed.
Print Assumptions precedence_table.

(* ---- print / re-parse: for EVERY tree of the checked shape, parsing the tokens of its canonical
   rendering gives the tree back (positions erased).  No bound on size or depth. *)
Theorem print_parse : forall e, rt_ok e = true ->
  parse_expr_top (rtoks e) = POk (erase e) [].
Proof. exact print_parse_thm. Qed.
Print Assumptions print_parse.

(* the same inside any context: a rendered expression is an operand wherever it stands *)
Theorem rendered_is_operand : forall e, rt_ok e = true -> chunk (rtoks e) (erase e).
Proof. exact rendered_chunk. Qed.
Print Assumptions rendered_is_operand.

(* whatever token list the parser is given, what it returns is a tree of the image (never a nil
   dereference), and for such a tree the hypothesis of print_parse is exactly the two facts the
   type checker contributes: the right side of IN is a list or prints without a leading
   parenthesis, and `!` is not the head of a call / field access *)
Theorem parse_image : forall ts, inv (parse_expr_top ts).
Proof. exact parse_image_thm. Qed.
Print Assumptions parse_image.

Theorem print_parse_of_parsed : forall ts e r,
  parse_expr_top ts = POk e r -> chk_shape e = true ->
  parse_expr_top (rtoks e) = POk (erase e) [].
Proof. exact print_parse_of_parsed_thm. Qed.
Print Assumptions print_parse_of_parsed.

(* the same for the rendering's tokens at ANY positions -- what the real lexer yields on the
   real String() (the correspondence checks [map strip (Lexer.Split text) = rtoks e] on every case) *)
Theorem print_parse_positions : forall e ts,
  rt_ok e = true -> map strip ts = rtoks e ->
  exists e', parse_expr_top ts = POk e' [] /\ erase e' = erase e.
Proof. exact print_parse_positions_thm. Qed.
Print Assumptions print_parse_positions.

(* positions never influence a parse: token lists that differ only in offsets (spacing) give
   trees that differ only in offsets, and fail alike *)
Theorem parse_positions_irrelevant : forall ts ts',
  map strip ts = map strip ts' ->
  strip_res erase (parse_expr_top ts) = strip_res erase (parse_expr_top ts').
Proof. exact parse_positions_irrelevant_thm. Qed.
Print Assumptions parse_positions_irrelevant.

(* ---- precedence and associativity: a flat sequence  c0 o1 c1 .. on cn  of operands (token
   groups the unary parser reads as a0 .. an) and binary operators (any spelling with a binding
   strength; IN followed by an operand that does not open a list; BETWEEN has its own rule) is
   parsed into exactly the tree obtained by splitting at the last weakest operator.  Any number
   of operators, any operands. *)
Theorem flat_precedence : forall c0 a0 items,
  chunk c0 a0 -> Forall fitem_ok items ->
  expr_chunk (c0 ++ flat items) (climb a0 (map fitem_item items)).
Proof. exact flat_precedence_thm. Qed.
Print Assumptions flat_precedence.

(* [climb] is the executable form of the relation [Climb] ("split at an operator no stronger
   than any before it and strictly weaker than all after it"); the relation determines the tree *)
Theorem climb_is_last_weakest_split : forall x l t, Climb x l t -> climb x l = t.
Proof. exact climb_complete. Qed.
Print Assumptions climb_is_last_weakest_split.

Theorem flat_precedence_tree : forall c0 a0 items,
  chunk c0 a0 -> Forall fitem_ok items ->
  exists t, Climb a0 (map fitem_item items) t /\ expr_chunk (c0 ++ flat items) t.
Proof. exact flat_precedence_rel. Qed.
Print Assumptions flat_precedence_tree.

(* ... and this is what the twin computes with the fuel the correspondence check gives it:
   whatever expr_chunk covers is the outcome of [parse_expr_top] on the tokens followed by any
   non-operator continuation (in particular by nothing) *)
Theorem expr_chunk_at_run_fuel : forall ts t k,
  expr_chunk ts t -> stop_ok 1 k -> parse_expr_top (ts ++ k) = POk t k.
Proof. exact expr_chunk_top. Qed.
Print Assumptions expr_chunk_at_run_fuel.

(* ---- parentheses override: a parenthesised expression is an operand (so minimal, redundant and
   full parenthesisation compose from flat_precedence and this), as are single tokens and `!` *)
Theorem parens_override : forall lp rp ts t,
  tp lp = LPAREN -> tp rp = RPAREN -> expr_chunk ts t -> chunk (lp :: ts ++ [rp]) t.
Proof. exact parens_chunk. Qed.
Print Assumptions parens_override.

Theorem single_token_operand : forall t a, atom_of t = Some a -> chunk [t] a.
Proof. exact atom_chunk. Qed.
Print Assumptions single_token_operand.

Theorem not_binds_tightest : forall b c a,
  tp b = OPERATOR -> data b = "!"%string -> chunk c a -> chunk (b :: c) (ENot (pos b) a).
Proof. exact not_chunk. Qed.
Print Assumptions not_binds_tightest.

(* ---- non-vacuity ------------------------------------------------------------------------ *)

(* a tree with every construct; the hypothesis holds and the statement computes *)
Definition ex_tree : expr :=
  EBin 7 OKWOr
    (EBin 3 OAnd
       (EBin 1 OIn (EField 0 KeyKW) (EList 1 [EStr 2 "a"; ECall 3 (EName 3 "upper") [EField 4 ValueKW]]))
       (ENot 5 (EBin 6 OBetween (ECall 7 (EName 7 "int") [EField 8 ValueKW])
                  (EList 6 [ENum 9 "1"; EBin 10 OMul (ENum 11 "2") (EFloat 12 "1.5")]))))
    (EBin 13 OIn (EAccess 14 (ECall 15 (EName 15 "json") [EField 16 ValueKW]) (EStr 17 "k"))
       (ECall 18 (EName 18 "split") [ERef 19 "v" (EField 0 ValueKW); EStr 20 ","])).

Example print_parse_nonvacuous :
  rt_ok ex_tree = true /\
  render ex_tree =
    "(((KEY in ('a', upper(VALUE))) & !((int(VALUE) BETWEEN 1 AND (2 * 1.5)))) or (json(VALUE)['k'] in split(`v`, ',')))"
  /\ length (rtoks ex_tree) = 51
  /\ parse_expr_top (rtoks ex_tree) = POk (erase ex_tree) [].
Proof. repeat split; vm_compute; reflexivity. Qed.

(* a flat sequence:  a + b * c = 1 | d  ; the hypotheses hold, the tree is ((a + (b*c)) = 1) | d *)
Definition ex_items : list fitem :=
  [ (Tok OPERATOR "+" 2, [Tok NAME "b" 4], EName 4 "b");
    (Tok OPERATOR "*" 6, [Tok NAME "c" 8], EName 8 "c");
    (Tok OPERATOR "=" 10, [Tok NUMBER "1" 12], ENum 12 "1");
    (Tok OPERATOR "|" 14, [Tok NAME "d" 16], EName 16 "d") ].

Example flat_precedence_nonvacuous :
  chunk [Tok NAME "a" 0] (EName 0 "a") /\ Forall fitem_ok ex_items /\
  climb (EName 0 "a") (map fitem_item ex_items)
  = EBin 14 OOr (EBin 10 OEq (EBin 2 OAdd (EName 0 "a") (EBin 6 OMul (EName 4 "b") (EName 8 "c")))
                              (ENum 12 "1"))
                (EName 16 "d").
Proof.
  split; [apply atom_chunk; reflexivity|]. split; [|reflexivity].
  repeat constructor; try discriminate; apply atom_chunk; reflexivity.
Qed.

(* the same sequence, run: the twin's outcome on the nine tokens is that tree *)
Example flat_precedence_runs :
  parse_expr_top ([Tok NAME "a" 0] ++ flat ex_items)
  = POk (climb (EName 0 "a") (map fitem_item ex_items)) [].
Proof. vm_compute. reflexivity. Qed.

(* a parsed tree that meets chk_shape: print_parse_of_parsed applies to it *)
Example print_parse_of_parsed_nonvacuous :
  exists e, parse_expr_top (rtoks ex_tree) = POk e [] /\ chk_shape e = true /\ pimg e = true.
Proof. eexists. split; [vm_compute; reflexivity|]. split; reflexivity. Qed.

(* ---- what the shape hypothesis excludes: trees the PARSER builds, which the (unfixed) checker
   let through under `!`, inside lists and under field access, and whose rendering re-parses to a
   different tree.  Regression witnesses for the checker defects fixed for this property. *)

(* key in 'a' + 'b'   prints as  (KEY in ('a' + 'b'))  and comes back as a one-element list *)
Theorem print_parse_in_rhs_refuted :
  exists ts e, parse_expr_top ts = POk e [] /\ rt_ok e = false /\
    parse_expr_top (rtoks e) <> POk (erase e) [].
Proof.
  exists [Tok KEY "key" 0; Tok OPERATOR "in" 4; Tok STRING "a" 7; Tok OPERATOR "+" 11; Tok STRING "b" 13].
  eexists. split; [vm_compute; reflexivity|]. split; [reflexivity|]. vm_compute. discriminate.
Qed.
Print Assumptions print_parse_in_rhs_refuted.

(* (!a)[0]   prints as  !(a)[0]  and comes back as  !(a[0]) *)
Theorem print_parse_not_head_refuted :
  exists ts e, parse_expr_top ts = POk e [] /\ rt_ok e = false /\
    parse_expr_top (rtoks e) <> POk (erase e) [].
Proof.
  exists [Tok LPAREN "(" 0; Tok OPERATOR "!" 1; Tok NAME "a" 2; Tok RPAREN ")" 3; Tok LBRACK "[" 4;
          Tok NUMBER "0" 5; Tok RBRACK "]" 6].
  eexists. split; [vm_compute; reflexivity|]. split; [reflexivity|]. vm_compute. discriminate.
Qed.
Print Assumptions print_parse_not_head_refuted.

(* ---------------------------------------------------------------- the parser twins on EVERY
   token list (W1): fuel, totality, positions.  Model/StmtParser.v is the twin of the statement
   part of parser.go (tied to Parser.Parse by the kind-4 stream of the correspondence). *)
From KV Require Import Model.ErrPos Model.StmtParser Proofs.StmtParserProofs.
From Coq Require Import ZArith.

(* the expression parser never runs out of fuel at the fuel the correspondence runs it with,
   never dereferences a missing token, and a successful parse consumes at least one token *)
Theorem parse_expr_total : forall ts,
  parse_expr_top ts <> PFuel /\ parse_expr_top ts <> PPanic /\
  forall e rest, parse_expr_top ts = POk e rest -> length rest < length ts.
Proof. exact parse_expr_top_total. Qed.
Print Assumptions parse_expr_total.

(* every Pos in a tree the expression parser returns is the pos of an input token, and so is
   the position of every error it returns (None = end of input) *)
Theorem expr_tree_positions_are_token_positions : forall ts e rest,
  parse_expr_top ts = POk e rest -> Forall (tok_pos ts) (positions e).
Proof. exact expr_tree_positions_thm. Qed.
Print Assumptions expr_tree_positions_are_token_positions.

Theorem expr_err_position_is_token_position : forall ts p,
  parse_expr_top ts = PErr (Some p) -> tok_pos ts p.
Proof. exact expr_err_position_thm. Qed.
Print Assumptions expr_err_position_is_token_position.

(* the statement parser: total for every behaviour of the semantic tests run while parsing *)
Theorem statement_parser_total : forall h ts,
  (exists s, parse_with h ts = SOk s) \/ (exists p, parse_with h ts = SErr p).
Proof. exact parse_with_total. Qed.
Print Assumptions statement_parser_total.

(* positions of the pure syntax: trees carry 0 or token positions, errors -1 or token positions *)
Theorem statement_tree_positions : forall ts s,
  parse_statement ts = SOk s -> Forall (tok_pos0 ts) (stmt_positions s).
Proof. exact syntax_tree_positions_thm. Qed.
Print Assumptions statement_tree_positions.

Theorem statement_err_position : forall ts z,
  parse_statement ts = SErr z -> err_at (tok_pos ts) z.
Proof. exact syntax_err_position_thm. Qed.
Print Assumptions statement_err_position.

Example statement_parser_nonvacuous :
  parse_statement [Tok SELECT "select" 0; Tok KEY "key" 7; Tok AS "as" 11; Tok NAME "k" 14;
                   Tok WHERE "where" 16; Tok KEY "key" 22; Tok OPERATOR "=" 26; Tok STRING "a" 28;
                   Tok LIMIT "limit" 32; Tok NUMBER "2" 38; Tok SEP "," 39; Tok NUMBER "3" 41; Tok SEMI ";" 42]
  = SOk (StSelect (Select 0 false [EField 7 KeyKW] ["k"] 16
                     (EBin 26 OEq (EField 22 KeyKW) (EStr 28 "a")) None None (Some (Limit 32 2 3)))).
Proof. vm_compute. reflexivity. Qed.

(* ---------------------------------------------------------------- TEXT level (gap (1) of the
   level text closed): the lexer twin of C16 (Model/Lexer.v, [lex] = Lexer.Split) run on the TEXT
   Expression.String() returns ([render_text] = ExprParser.render).  Model/RenderText.v reads the
   rendering as a sequence of lexemes with their blanks ([ritems]); Proofs/RenderTextProofs.v shows
   that sequence admissible for C16's lexemes_lex_to_their_tokens, its text to be the rendering
   and its tokens to be [rtoks].

   [txt_ok e] says which leaves are excluded -- exactly those the printer cannot print faithfully:
     - a string literal containing ' (it is printed between ' and the language has no escape);
     - a name printed in backticks (not [plain_name]: empty, upper case, a keyword, number-like,
       or holding a byte the lexer treats specially), or an alias reference, containing a backtick;
     - a NUMBER / FLOAT literal whose text is not a word the lexer reads back as that kind of token
       with that text ([word_lit]; every NUMBER / FLOAT token the lexer produces is one).
   No bound on size or depth; no hypothesis on the shape of the tree for the first two theorems. *)
From KV Require Import Base.Bytes Model.Lexer Spec.LexSpec Model.RenderText Proofs.RenderTextProofs.

(* Lexer.Split of the rendered text: one token per lexeme of the rendering, each at the offset of
   its lexeme in the text *)
Theorem lex_render_text : forall e, txt_ok e = true ->
  lex (render_text e) = expected (ritems "" e []) 0.
Proof. exact lex_render_text_thm. Qed.
Print Assumptions lex_render_text.

(* ... which are, offsets apart, the tokens print_parse is stated over *)
Theorem lex_render_rtoks : forall e, txt_ok e = true ->
  map strip (lex (render_text e)) = rtoks e.
Proof. exact lex_render_rtoks_thm. Qed.
Print Assumptions lex_render_rtoks.

(* print, LEX, parse: the tree comes back (up to positions and alias references read as names) *)
Theorem print_parse_text : forall e, rt_ok e = true -> txt_ok e = true ->
  exists e', parse_expr_top (lex (render_text e)) = POk e' [] /\ erase e' = erase e.
Proof. exact print_parse_text_thm. Qed.
Print Assumptions print_parse_text.

(* the tree with every construct: hypotheses hold, the text lexes to 51 tokens at their true
   offsets, and the parse of the lexed text is the tree with the offsets of the text *)
Example print_parse_text_nonvacuous :
  rt_ok ex_tree = true /\ txt_ok ex_tree = true /\
  length (lex (render_text ex_tree)) = 51 /\
  nth 3 (lex (render_text ex_tree)) (Tok SEMI "" 0) = Tok KEY "key" 3 /\
  nth 22 (lex (render_text ex_tree)) (Tok SEMI "" 0) = Tok OPERATOR "between" 47 /\
  map strip (lex (render_text ex_tree)) = rtoks ex_tree /\
  exists e', parse_expr_top (lex (render_text ex_tree)) = POk e' [] /\ erase e' = erase ex_tree
             /\ e' <> erase ex_tree.
Proof.
  repeat split; try (vm_compute; reflexivity).
  eexists. split; [vm_compute; reflexivity|]. split; [vm_compute; reflexivity|]. discriminate.
Qed.

(* what txt_ok excludes is excluded for a reason: 'a'b' is not one literal *)
Example print_parse_text_quote_excluded :
  let e := EBin 0 OEq (EField 0 KeyKW) (EStr 0 "a'b") in
  rt_ok e = true /\ txt_ok e = false /\ map strip (lex (render_text e)) <> rtoks e.
Proof. cbv zeta. repeat split; try (vm_compute; reflexivity). vm_compute. discriminate. Qed.

(* ---------------------------------------------------------------- EXPLAIN: the scan node's line
   (Model/ExplainText.v, twin of FullScanPlan / PrefixScanPlan / RangeScanPlan / MultiGetPlan
   .String(); the filter part is FilterExec.Explain() = String() of the tree the node RUNS, i.e.
   the folded tree FoldStmt.exec_tree of the checked WHERE tree).  Cutting the filter text out of
   the line and lexing + parsing it gives the tree the node runs -- for every access path, every
   tree of the checked shape whose leaves print faithfully.  After constant folding the
   premise txt_ok is NOT automatic: a folded NumberExpr can hold a negative numeral and a folded
   FloatExpr an exponent with a sign (see explain_negative_constant_excluded); the correspondence
   judges rt_ok / txt_ok of the executed tree on every generated statement. *)
From KV Require Import Model.ScanIO Model.ExplainText.
From Coq Require Import Ascii.

Theorem explain_filter_reparses : forall sc f txt,
  rt_ok f = true -> txt_ok f = true ->
  explain_filter_text sc (explain_scan sc f) = Some txt ->
  exists e', parse_expr_top (lex txt) = POk e' [] /\ erase e' = erase f.
Proof. exact explain_filter_reparses_thm. Qed.
Print Assumptions explain_filter_reparses.

Example explain_filter_reparses_nonvacuous :
  let f := EBin 9 OAnd (EBin 4 OPrefixMatch (EField 0 KeyKW) (EStr 7 "ab"))
                       (EBin 20 OGt (ECall 13 (EName 13 "int") [EField 17 ValueKW]) (ENum 25 "5")) in
  let sc := SPrefix "ab" in
  rt_ok f = true /\ txt_ok f = true /\
  explain_scan sc f = "PrefixScanPlan{Prefix = 'ab', Filter = '((KEY ^= 'ab') & (int(VALUE) > 5))'}" /\
  explain_filter_text sc (explain_scan sc f) = Some "((KEY ^= 'ab') & (int(VALUE) > 5))" /\
  explain_scan (SRange (Some "a") None) (EBin 4 OGte (EField 0 KeyKW) (EStr 7 "a"))
    = "RangeScanPlan{Start = 'a', End = '<nil>', Filter = '(KEY >= 'a')'}" /\
  exists e', parse_expr_top (lex "((KEY ^= 'ab') & (int(VALUE) > 5))") = POk e' [] /\
             erase e' = erase f.
Proof.
  cbv zeta. repeat split; try (vm_compute; reflexivity).
  eexists. split; vm_compute; reflexivity.
Qed.

(* what the folder can leave: -5 is no literal of the language (there is no unary minus) *)
Example explain_negative_constant_excluded :
  let f := EBin 11 OGt (ECall 0 (EName 0 "int") [EField 4 ValueKW]) (ENum 13 "-5") in
  rt_ok f = true /\ txt_ok f = false /\
  parse_expr_top (lex (render_text f)) = PErr (Some 14).
Proof. cbv zeta. repeat split; vm_compute; reflexivity. Qed.

(* ---------------------------------------------------------------- letter case at TEXT level:
   two texts made of the same gaps and the same lexemes, except that words (keywords, operator
   words, names, numbers -- everything outside quotes that is not a symbol) may differ in letter
   case, lex to the SAME token list, offsets included; hence every parser twin returns the same
   outcome on them (same tree, same positions, same error). *)
Theorem keyword_case_irrelevant : forall items1 items2 tail,
  Forall2 case_item_eq items1 items2 -> admissible items1 tail = true ->
  admissible items2 tail = true /\
  lex (LexSpec.render items1 tail) = lex (LexSpec.render items2 tail).
Proof. exact keyword_case_irrelevant_thm. Qed.
Print Assumptions keyword_case_irrelevant.

Theorem keyword_case_same_tree : forall items1 items2 tail,
  Forall2 case_item_eq items1 items2 -> admissible items1 tail = true ->
  parse_expr_top (lex (LexSpec.render items1 tail)) = parse_expr_top (lex (LexSpec.render items2 tail))
  /\ parse_statement (lex (LexSpec.render items1 tail)) = parse_statement (lex (LexSpec.render items2 tail)).
Proof.
  intros items1 items2 tail H Ha.
  destruct (keyword_case_irrelevant items1 items2 tail H Ha) as [_ E]. rewrite E. split; reflexivity.
Qed.
Print Assumptions keyword_case_same_tree.

Example keyword_case_irrelevant_nonvacuous :
  let a : list LexSpec.item :=
    [("", LWord "where"); (" ", LWord "key"); (" ", LWord "between"); (" ", LQuote "'"%char "And");
     (" ", LWord "and"); (" ", LQuote "'"%char "b"); (" ", LWord "or"); (" ", LSym "!");
     ("", LWord "lower"); ("", LSym "("); ("", LWord "value"); ("", LSym ")")] in
  let b : list LexSpec.item :=
    [("", LWord "WHERE"); (" ", LWord "Key"); (" ", LWord "BeTwEeN"); (" ", LQuote "'"%char "And");
     (" ", LWord "AND"); (" ", LQuote "'"%char "b"); (" ", LWord "oR"); (" ", LSym "!");
     ("", LWord "LOWER"); ("", LSym "("); ("", LWord "VALUE"); ("", LSym ")")] in
  Forall2 case_item_eq a b /\ admissible a "" = true /\
  LexSpec.render b "" = "WHERE Key BeTwEeN 'And' AND 'b' oR !LOWER(VALUE)" /\
  LexSpec.render a "" <> LexSpec.render b "" /\
  exists s, parse_statement (lex (LexSpec.render b "")) = SOk s.
Proof.
  cbv zeta. split.
  { repeat (constructor; [split; reflexivity|]). constructor. }
  repeat split; try (vm_compute; reflexivity).
  - vm_compute. discriminate.
  - eexists. vm_compute. reflexivity.
Qed.

(* ---------------------------------------------------------------- ACCEPTED => rt_ok (gap (2) of
   the level text closed for the WHERE clause): [parse_check] (Model/ParseCheck.v) is the twin of
   what Optimizer.init / buildFinalPlan do with a query TEXT before the storage is touched --
   Lexer.Split, Parser.Parse (syntax, the mid-parse tests, Validate / Check), the call validation,
   the plan tests.  For EVERY text it accepts, the checked WHERE tree (SELECT and DELETE; the tree
   the statement keeps, alias names resolved to references) has the shape print_parse needs.
   Proved from the checker twin (Proofs/AcceptedShapeProofs.v, checked_shape): checkWithIn lets
   only a list, a call or a reference stand right of IN; FunctionCallExpr.Check wants a name as
   head; FieldAccessExpr.Check refuses a Boolean (so a NotExpr) on its left; `!` is no binary
   operator; and the parser only builds lists right of IN / BETWEEN (parse_image). *)
From KV Require Model.Value Model.Checker Model.ParseCheck Proofs.AcceptedShapeProofs.

Theorem accepted_where_rt_ok :
  forall (fo : Value.fops) (re : string -> string -> Value.res bool) (fmt_v : Value.F fo -> string)
         q s c agg w,
  ParseCheck.parse_check fo re fmt_v q = ParseCheck.PCOk s c agg ->
  AcceptedShapeProofs.cstmt_where c = Some w -> rt_ok w = true.
Proof. exact AcceptedShapeProofs.accepted_where_rt_ok_thm. Qed.
Print Assumptions accepted_where_rt_ok.

(* hence: for every accepted statement text, printing its filter, LEXING the print and parsing
   the tokens gives the filter back (positions and alias references apart) -- provided the leaves
   print faithfully ([txt_ok]: a string literal written between double quotes may contain ', which
   is the documented exclusion; alias names containing a backtick cannot be written at all) *)
Theorem accepted_filter_reparses :
  forall (fo : Value.fops) (re : string -> string -> Value.res bool) (fmt_v : Value.F fo -> string)
         q s c agg w,
  ParseCheck.parse_check fo re fmt_v q = ParseCheck.PCOk s c agg ->
  AcceptedShapeProofs.cstmt_where c = Some w -> txt_ok w = true ->
  exists w', parse_expr_top (lex (render_text w)) = POk w' [] /\ erase w' = erase w.
Proof.
  intros fo re fmt_v q s c agg w H Hw Ht. apply print_parse_text; [|exact Ht].
  exact (accepted_where_rt_ok fo re fmt_v q s c agg w H Hw).
Qed.
Print Assumptions accepted_filter_reparses.

Example accepted_filter_reparses_nonvacuous :
  forall (fo : Value.fops) (re : string -> string -> Value.res bool) (fmt_v : Value.F fo -> string),
  exists s c w,
    ParseCheck.parse_check fo re fmt_v
      "select key as k, upper(k) as u where u in ('A', 'B') & !(split(value, ',')[0] between 'a' and k) order by k limit 3"
      = ParseCheck.PCOk s c false /\
    AcceptedShapeProofs.cstmt_where c = Some w /\ txt_ok w = true /\ rt_ok w = true /\
    render_text w = "((`u` in ('A', 'B')) & !((split(VALUE, ',')[0] BETWEEN 'a' AND `k`)))".
Proof.
  intros fo re fmt_v. eexists. eexists. eexists.
  split; [vm_compute; reflexivity|]. split; [reflexivity|]. repeat split; vm_compute; reflexivity.
Qed.

(* the same for EVERY expression of an accepted statement: the select fields (checked trees, as
   ValidateFields leaves them), the WHERE tree, the key / value expressions of PUT, the keys of
   REMOVE, DELETE's WHERE ([ParseCheck.cstmt_exprs]) *)
Theorem accepted_exprs_rt_ok :
  forall (fo : Value.fops) (re : string -> string -> Value.res bool) (fmt_v : Value.F fo -> string)
         q s c agg,
  ParseCheck.parse_check fo re fmt_v q = ParseCheck.PCOk s c agg ->
  Forall (fun e => rt_ok e = true) (ParseCheck.cstmt_exprs c).
Proof. exact AcceptedShapeProofs.accepted_exprs_rt_ok_thm. Qed.
Print Assumptions accepted_exprs_rt_ok.

Theorem accepted_exprs_reparse :
  forall (fo : Value.fops) (re : string -> string -> Value.res bool) (fmt_v : Value.F fo -> string)
         q s c agg e,
  ParseCheck.parse_check fo re fmt_v q = ParseCheck.PCOk s c agg ->
  In e (ParseCheck.cstmt_exprs c) -> txt_ok e = true ->
  exists e', parse_expr_top (lex (render_text e)) = POk e' [] /\ erase e' = erase e.
Proof.
  intros fo re fmt_v q s c agg e H Hin Ht. apply print_parse_text; [|exact Ht].
  pose proof (accepted_exprs_rt_ok fo re fmt_v q s c agg H) as Hall.
  rewrite Forall_forall in Hall. exact (Hall e Hin).
Qed.
Print Assumptions accepted_exprs_reparse.

Example accepted_exprs_nonvacuous :
  forall (fo : Value.fops) (re : string -> string -> Value.res bool) (fmt_v : Value.F fo -> string),
  (exists s c,
    ParseCheck.parse_check fo re fmt_v
      "select key as k, upper(k) + '!' as u, !(k in ('a', `u`)) where u ^= 'A'" = ParseCheck.PCOk s c false /\
    map render_text (ParseCheck.cstmt_exprs c)
      = ["KEY"; "(upper(`k`) + '!')"; "!((`k` in ('a', `u`)))"; "(`u` ^= 'A')"] /\
    forallb txt_ok (ParseCheck.cstmt_exprs c) = true) /\
  (exists s c,
    ParseCheck.parse_check fo re fmt_v "put ('k' + '1', upper('v')), ('k2', 'w')" = ParseCheck.PCOk s c false /\
    length (ParseCheck.cstmt_exprs c) = 4).
Proof.
  intros fo re fmt_v. split; eexists; eexists; (split; [vm_compute; reflexivity|]);
    [split|]; vm_compute; reflexivity.
Qed.
