(* Properties/C16.v -- tokens carry their true offset and text; spacing between tokens is
   irrelevant.  [lex] is the twin of Lexer.Split (Model/Lexer.v, repaired lexer); the
   requirements [tok_ok], [render], [expected], [admissible] are in Spec/LexSpec.v.
   Only property theorems here, each closed by [exact <lemma>] and followed by
   Print Assumptions. *)
From Coq Require Import String Ascii List.
From KV Require Import Base.Bytes Model.Token Model.Lexer Spec.LexSpec Proofs.LexerProofs.
Import ListNotations.
Local Open Scope string_scope.

(* For EVERY byte string q and every token of it: the token is
     - a symbol: its text is exactly the bytes at its offset, and a one-character ! < > ^ ~
       is not directly followed by = (a two-character operator is never reported in halves); or
     - a quoted literal: the byte at its offset is a quote, the content is the bytes after it,
       byte for byte, the same quote follows the content and does not occur inside it; or
     - a word: non-empty, its text is the ASCII-lower-cased bytes at its offset, and its kind
       is a function of that text (keyword table, integer, float, name). *)
Theorem token_text_offset : forall (q : string) (t : token), In t (lex q) -> tok_ok q t.
Proof. exact lex_tokens_ok. Qed.
Print Assumptions token_text_offset.

(* For every sequence of lexemes -- words, literals in any of the three quotes with arbitrary
   content not containing their own quote, one- and two-character operators, punctuation --
   written with ANY spacing (blanks of any kind and number before, between and after) that
   puts a blank at least where two neighbours would fuse (word.word, one of ! < > ^ ~ directly
   before =): the lexer returns exactly one token per lexeme, in order, each at the offset of
   its lexeme, literals with their exact content, two-character operators as one token. *)
Theorem lexemes_lex_to_their_tokens : forall (items : list item) (tail : string),
  admissible items tail = true -> lex (render items tail) = expected items 0.
Proof. exact lex_render_expected. Qed.
Print Assumptions lexemes_lex_to_their_tokens.

(* Inserting or removing optional blanks does not change the sequence of kinds and texts. *)
Theorem spacing_irrelevant : forall (items1 : list item) (tail1 : string)
                                    (items2 : list item) (tail2 : string),
  lexemes_of items1 = lexemes_of items2 ->
  admissible items1 tail1 = true -> admissible items2 tail2 = true ->
  map kind_text (lex (render items1 tail1)) = map kind_text (lex (render items2 tail2)).
Proof. exact lex_spacing_irrelevant. Qed.
Print Assumptions spacing_irrelevant.

(* For EVERY byte string q: q is exactly  blanks text1 blanks text2 ... textn blanks  where
   texti is the text token i of [lex q] stands for (a symbol verbatim, a literal with both its
   quotes, a word up to letter case) and token i reports the offset at which texti begins.
   So tokens come in source order, no two tokens share a byte, no byte that is not a blank is
   dropped, and a token text ending in ! < > ^ ~ is not directly followed by =.
   (After an unterminated quote the rest of the query, from the quote on, is one word.) *)
Theorem tokens_tile_the_query : forall (q : string), tiling q q (lex q).
Proof. exact lex_tiling. Qed.
Print Assumptions tokens_tile_the_query.

(* positions strictly increase and spans do not overlap: for any two tokens a before b,
   the text of a ends at or before the offset of b *)
Theorem tokens_disjoint_ordered : forall (q : string), ForallOrdPairs ends_before (lex q).
Proof. exact lex_ordered. Qed.
Print Assumptions tokens_disjoint_ordered.

(* ------------------------------------------------------------------ non-vacuity *)

(* a query with a word directly after a literal, a two-character operator without blanks, mixed
   case, a literal holding blanks, operators and the other quote: the tokens exist and are as
   the theorem says *)
Example token_text_offset_nonvacuous :
  lex "Key^='a <= ""b' AND x1>=.5" =
    [Tok KEY "key" 0; Tok OPERATOR "^=" 3; Tok STRING "a <= ""b" 5; Tok OPERATOR "and" 15;
     Tok NAME "x1" 19; Tok OPERATOR ">=" 21; Tok FLOAT ".5" 23] /\
  In (Tok STRING "a <= ""b" 5) (lex "Key^='a <= ""b' AND x1>=.5").
Proof. split; [vm_compute; reflexivity | vm_compute; tauto]. Qed.

(* two admissible spacings of the same five lexemes: the hypotheses hold, the offsets differ,
   kinds and texts agree *)
Example spacing_irrelevant_nonvacuous :
  let tight : list item :=
    [("", LWord "Key"); ("", LSym "<="); ("", LQuote "'" "a b"); ("", LSym "&"); ("", LSym "!");
     ("", LWord "x")] in
  let loose : list item :=
    [("  ", LWord "Key"); (" ", LSym "<="); (String "009" "", LQuote "'" "a b"); (" ", LSym "&");
     ("   ", LSym "!"); (" ", LWord "x")] in
  lexemes_of tight = lexemes_of loose /\
  admissible tight "" = true /\ admissible loose " " = true /\
  render tight "" = "Key<='a b'&!x" /\
  lex (render tight "") <> lex (render loose " ") /\
  map kind_text (lex (render tight "")) =
    [(KEY, "key"); (OPERATOR, "<="); (STRING, "a b"); (OPERATOR, "&"); (OPERATOR, "!"); (NAME, "x")].
Proof. cbv zeta. repeat split; try (vm_compute; reflexivity). vm_compute. discriminate. Qed.

(* a tiling exists for a query with an unterminated quote: the rest is one word at the quote *)
Example tokens_tile_the_query_nonvacuous :
  lex "a<='x' ""Bc " = [Tok NAME "a" 0; Tok OPERATOR "<=" 1; Tok STRING "x" 3; Tok NAME """bc" 7] /\
  ends_before (Tok OPERATOR "<=" 1) (Tok STRING "x" 3).
Proof.
  split; [vm_compute; reflexivity|]. exists "<=". split; [apply cov_sym; reflexivity|cbn; auto].
Qed.

(* the admissibility premise is needed: without the blank, < and = ARE the operator <= *)
Example fusing_pair_is_not_admissible :
  admissible [("", LSym "<"); ("", LSym "=")] "" = false /\
  lex "<=" = [Tok OPERATOR "<=" 0] /\ lex "< =" = [Tok OPERATOR "<" 0; Tok OPERATOR "=" 2].
Proof. repeat split; vm_compute; reflexivity. Qed.

(* ------------------------------------------------------------------ the pinned lexer violated C16 *)

(* D20: the pinned lexer lexes 'a'and as STRING a, NAME a'a @0 *)
Theorem token_text_offset_pinned_refuted :
  exists (q : string) (t : token), In t (lex_pinned q) /\ ~ tok_ok q t.
Proof. exact pinned_token_not_ok. Qed.
Print Assumptions token_text_offset_pinned_refuted.

(* D20: 'a' and  versus  'a'and *)
Theorem spacing_irrelevant_pinned_refuted :
  exists items1 tail1 items2 tail2,
    lexemes_of items1 = lexemes_of items2 /\
    admissible items1 tail1 = true /\ admissible items2 tail2 = true /\
    map kind_text (lex_pinned (render items1 tail1)) <>
    map kind_text (lex_pinned (render items2 tail2)).
Proof. exact pinned_spacing_matters. Qed.
Print Assumptions spacing_irrelevant_pinned_refuted.

(* D21: a * = b  versus  a*=b (the pinned lexer drops the * before =) *)
Theorem spacing_irrelevant_pinned_operator_refuted :
  exists items1 tail1 items2 tail2,
    lexemes_of items1 = lexemes_of items2 /\
    admissible items1 tail1 = true /\ admissible items2 tail2 = true /\
    map kind_text (lex_pinned (render items1 tail1)) <>
    map kind_text (lex_pinned (render items2 tail2)).
Proof. exact pinned_operator_dropped. Qed.
Print Assumptions spacing_irrelevant_pinned_operator_refuted.
