(* Properties/C17.v -- reported error positions lie inside the query and render with an
   aligned caret.  Only property theorems here, each closed by [exact <lemma>] and followed by
   Print Assumptions; then non-vacuity examples and the witnesses for the pinned (pre-fix) code.

   Part 1 (full strength): the renderer -- twin of errors.go after the fix: commit for D22 --
   for every query text, position, padding, leading / trailing white space and length.
   Part 2 (partial): where positions come from.  The full statements need the parser / checker
   twins, which are being built for C15 / C14; they are kept here as comments:

     Theorem err_pos_in_query       : forall q e, parse_check q = Err e ->
                                        e.pos = -1 \/ 0 <= e.pos < |q|
     Theorem err_pos_is_token_start : forall q e, parse_check q = Err e ->
                                        e.pos = -1 \/ e.pos = 0 \/ In e.pos (map pos (lex q))
     Theorem exec_err_pos_in_query  : forall q st pos, run q st = Err (Exec pos) ->
                                        pos = -1 \/ 0 <= pos < |q|

   What is proved instead ([..._partial]) is the provenance argument these theorems rest on, over
   the abstract model of Model/ErrPos.v: all node builders preserve "every Pos is 0 or a token's
   Pos"; an error position taken from -1, a token, any sub-node of such a tree, or a statement
   position is then -1, 0 or a token start, and inside the query when the token offsets are.
   Missing: that parser.go / checker.go / optimizer.go use only these builders and sources
   (checked on the implementation by the correspondence: verdict codes 2 and 3, and the
   provenance check of every accepted statement's trees). *)
From Coq Require Import String Ascii ZArith List.
From KV Require Import Model.Token Model.Ast Model.ErrRender Model.ErrPos Spec.CaretSpec
                       Proofs.ErrRenderProofs Proofs.ErrPosProofs.
Import ListNotations.
Local Open Scope string_scope.

(* ---------------------------------------------------------------- part 1: the renderer *)

(* Error() never panics: no slice of the query text is ever out of range, whatever the bound
   query, the position (any integer) and the padding (any integer) *)
Theorem render_no_panic : forall e : qerror, exists s, error_text true e = Ok s.
Proof. exact error_text_never_panics. Qed.
Print Assumptions render_no_panic.

(* the message is the two rendered lines followed by the padded label and the message text *)
Theorem render_layout : forall e : qerror, e_query e <> "" ->
  exists ret, output_query_and_err_pos true (e_query e) (e_pos e) (e_pad e) = Ok ret /\
    error_text true e = Ok (ret ++ spaces (Z.to_nat (e_pad e)) ++ kind_label (e_kind e) ++ e_msg e).
Proof. exact error_text_layout. Qed.
Print Assumptions render_layout.

(* the caret: for every query q, every offset pos of a non-blank byte of q and every padding
   pad >= 0, the output is  line1 "\n" (c blanks) "^--" "\n"  where line1 shows the stretch of the
   trimmed query around the position (Spec/CaretSpec.v: at most 70 bytes, 35 before, marked
   with "... " / " ..." exactly where text was left out) and column c - pad of line1 is the
   byte q[pos] *)
Theorem render_caret : forall (q : string) (pos pad : Z),
  (0 <= pad)%Z -> nonblank_at q pos = true ->
  exists line1 c,
    output_query_and_err_pos true q pos pad
      = Ok (line1 ++ nl ++ spaces (Z.to_nat c) ++ "^--" ++ nl) /\
    (pad <= c)%Z /\
    caret_ok q pos pad line1 c = true /\
    String.get (Z.to_nat (c - pad)) line1 = byte_at q pos.
Proof. exact render_caret_lemma. Qed.
Print Assumptions render_caret.

(* end of input (pos = -1): the caret is one past the last shown byte, and the shown text ends
   with the end of the trimmed query *)
Theorem render_eof : forall (q : string) (pad : Z),
  (0 <= pad)%Z ->
  exists line1 c,
    output_query_and_err_pos true q (-1) pad
      = Ok (line1 ++ nl ++ spaces (Z.to_nat c) ++ "^--" ++ nl) /\
    caret_ok q (-1) pad line1 c = true /\
    (c - pad)%Z = zlen line1 /\
    exists pre w, line1 = pre ++ w /\ (pre = "" \/ pre = "... ") /\
      w = String.substring (String.length (trim_space q) - String.length w) (String.length w)
                           (trim_space q).
Proof. exact render_eof_lemma. Qed.
Print Assumptions render_eof.

(* any other position (inside the leading / trailing blanks, outside the text, below -1) is
   clamped: the caret stays within the shown window, which is a stretch of the trimmed query *)
Theorem render_any_position : forall (q : string) (pos pad : Z),
  exists w off,
    output_query_and_err_pos true q pos pad = Ok (render_window w pad) /\
    (0 <= w_pos w <= zlen (w_text w))%Z /\ (zlen (w_text w) <= 70)%Z /\
    w_text w = String.substring (Z.to_nat off) (String.length (w_text w)) (trim_space q).
Proof. exact render_clamped_lemma. Qed.
Print Assumptions render_any_position.

(* ---------------------------------------------------------------- part 2: positions (partial) *)

(* every way parser.go / checker.go / expression_optimizer.go build a node keeps the invariant
   "every Pos in the tree is 0 or the Pos of a token" *)
Theorem position_provenance_partial : forall toks : list token,
  (forall t e, In t toks -> mk_operand t = Some e -> expr_prov toks e) /\
  (forall t o x y, In t toks -> expr_prov toks x -> expr_prov toks y ->
     expr_prov toks (mk_binop t o x y)) /\
  (forall t x, In t toks -> expr_prov toks x -> expr_prov toks (mk_not t x)) /\
  (forall f args, expr_prov toks f -> Forall (expr_prov toks) args ->
     expr_prov toks (mk_call f args)) /\
  (forall t x fld, In t toks -> expr_prov toks x -> expr_prov toks fld ->
     expr_prov toks (mk_access t x fld)) /\
  (forall t l, In t toks -> Forall (expr_prov toks) l -> expr_prov toks (mk_list t l)) /\
  Forall (expr_prov toks) star_fields /\
  (forall name def, expr_prov toks name -> expr_prov toks def ->
     expr_prov toks (mk_ref name def)) /\
  (forall e l, expr_prov toks e -> expr_prov toks (mk_folded e l)) /\
  (forall e o l r, expr_prov toks e -> expr_prov toks l -> expr_prov toks r ->
     expr_prov toks (mk_reassoc e o l r)).
Proof. exact builders_preserve_prov. Qed.
Print Assumptions position_provenance_partial.

(* an error whose position is -1, a token's Pos, the GetPos() of any sub-node of one of the
   statement's trees, or a statement / clause position, carries -1, 0 or a token start *)
Theorem err_pos_is_token_start_partial :
  forall (toks : list token) (roots : list expr) (s : err_src),
  Forall (expr_prov toks) roots -> src_ok toks roots s ->
  pos_is_token_start (zstarts toks) (err_pos s) = true.
Proof. exact err_pos_token_start. Qed.
Print Assumptions err_pos_is_token_start_partial.

(* ... and that position is -1 or an offset inside the query, given that the lexer's token
   offsets are (C16) *)
Theorem err_pos_in_query_partial :
  forall (q : string) (toks : list token) (roots : list expr) (s : err_src),
  tokens_in_query q toks -> toks <> [] ->
  Forall (expr_prov toks) roots -> src_ok toks roots s ->
  pos_in_query q (err_pos s) = true.
Proof. exact err_pos_inside_query. Qed.
Print Assumptions err_pos_in_query_partial.

(* ---------------------------------------------------------------- non-vacuity *)

(* three leading and two trailing blanks, the error at `keyy` (offset 18 of the bound text) *)
Example render_caret_nonvacuous :
  nonblank_at "   select * where keyy = 'a'  " 18 = true /\
  error_text true (QError SyntaxErr "   select * where keyy = 'a'  " "boom" 18 7)
    = Ok ("select * where keyy = 'a'" ++ nl ++ spaces 22 ++ "^--" ++ nl ++
          spaces 7 ++ "Syntax Error: boom") /\
  String.get (22 - 7) "select * where keyy = 'a'" = Some "k"%char.
Proof. repeat split; vm_compute; reflexivity. Qed.

(* a 40-blank prefix and a 77-byte statement: the window is cut on the left *)
Example render_caret_long_nonvacuous :
  nonblank_at d22_query 116 = true /\
  exists line1, output_query_and_err_pos true d22_query 116 0
    = Ok (line1 ++ nl ++ spaces 39 ++ "^--" ++ nl) /\
    String.get 39 line1 = Some "x"%char /\ String.get 116 d22_query = Some "x"%char.
Proof. split; [vm_compute; reflexivity|]. eexists. repeat split; vm_compute; reflexivity. Qed.

(* the provenance hypotheses are met by the tree of  where key = 'a' & !(value ^= 'b')  and an
   error raised at one of its inner nodes *)
Example err_pos_partial_nonvacuous :
  Forall (expr_prov ex_toks) [ex_tree] /\
  src_ok ex_toks [ex_tree] (AtNode (EStr 29 "b")) /\
  tokens_in_query "where key = 'a' & !(value ^= 'b')" ex_toks /\
  err_pos (AtNode (EStr 29 "b")) = 29%Z.
Proof.
  split; [constructor; [exact ex_tree_prov | constructor]|].
  split; [exists ex_tree; split; [now left | exact ex_sub]|].
  split; [|reflexivity].
  unfold tokens_in_query, ex_toks. repeat constructor.
Qed.

(* ---------------------------------------------------------------- the pinned renderer (D22) *)

(* before the fix the statement of render_no_panic / render_caret was false: 40 leading blanks
   and a position at the end of a 77-byte statement made the window slice run out of range *)
Theorem render_caret_refuted_panic :
  exists (q : string) (pos pad : Z),
    (0 <= pad)%Z /\ nonblank_at q pos = true /\
    output_query_and_err_pos false q pos pad = Panic.
Proof. exists d22_query, 116%Z, 7%Z. split; [discriminate | exact pinned_renderer_panics]. Qed.
Print Assumptions render_caret_refuted_panic.

(* ... and a single leading blank put the caret under the wrong byte *)
Theorem render_caret_refuted_misaligned :
  exists (q line1 : string) (pos pad : Z) (c : nat),
    (0 <= pad)%Z /\ nonblank_at q pos = true /\
    output_query_and_err_pos false q pos pad = Ok (line1 ++ nl ++ spaces c ++ "^--" ++ nl) /\
    String.get (Z.to_nat (Z.of_nat c - pad)) line1 <> byte_at q pos.
Proof.
  exists " ab", "ab", 1%Z, 0%Z, 1%nat.
  destruct pinned_renderer_misaligned as [A [B C]].
  split; [discriminate|]. split; [exact A|]. split; [exact B | exact C].
Qed.
Print Assumptions render_caret_refuted_misaligned.

(* ---------------------------------------------------------------- part 2 over the parser
   twins (W1): Model/StmtParser.v (twin of Parser.Parse: statement dispatch, SELECT lists, AS,
   WHERE, ORDER BY / GROUP BY / LIMIT, PUT, REMOVE, DELETE) and Model/ExprParser.v run on the
   tokens of the lexer twin Model/Lexer.lex.  No abstract provenance model: the premise of the
   _partial theorems above ("parser.go uses only these builders and sources") is discharged for
   the parser.  [hooks] are the four semantic tests parser.go runs in the middle of parsing
   (checkFieldCycles, findFieldInSelect for ORDER BY / GROUP BY items, Check of the GROUP BY
   fields); [hooks_ok] asks that they report positions of the nodes they are given;
   [parse_statement] is the pure syntax (no premise). *)
From KV Require Import Model.Lexer Model.StmtParser Proofs.StmtParserProofs Proofs.ParsePosProofs.

Theorem parse_err_pos_is_token_start : forall (q : string) (h : hooks) (z : Z),
  hooks_ok (prov (lex q)) (prov (lex q)) h ->
  parse_with h (lex q) = SErr z ->
  pos_is_token_start (zstarts (lex q)) z = true.
Proof. exact parse_err_pos_is_token_start_thm. Qed.
Print Assumptions parse_err_pos_is_token_start.

Theorem parse_err_pos_in_query : forall (q : string) (h : hooks) (z : Z),
  hooks_ok (prov (lex q)) (prov (lex q)) h ->
  parse_with h (lex q) = SErr z ->
  pos_in_query q z = true.
Proof. exact parse_err_pos_in_query_thm. Qed.
Print Assumptions parse_err_pos_in_query.

(* every Pos stored in a returned statement (statement structs and all nodes of all trees) is 0
   or a token offset, every tree satisfies the invariant of the abstract model, and every Pos
   lies inside the query *)
Theorem parse_tree_positions_are_token_starts : forall (q : string) (h : hooks) (s : stmt),
  hooks_ok (prov (lex q)) (prov (lex q)) h ->
  parse_with h (lex q) = SOk s ->
  Forall (prov (lex q)) (stmt_positions s) /\
  Forall (expr_prov (lex q)) (stmt_exprs s) /\
  Forall (fun p => pos_in_query q (Z.of_nat p) = true) (stmt_positions s).
Proof. exact parse_tree_positions_are_token_starts_thm. Qed.
Print Assumptions parse_tree_positions_are_token_starts.

(* syntax errors of EVERY query text, no premise: -1, or the offset of a token, inside the query *)
Theorem syntax_err_pos_is_token_start_in_query : forall (q : string) (z : Z),
  parse_statement (lex q) = SErr z ->
  z = (-1)%Z \/ (In z (zstarts (lex q)) /\ (0 <= z < Z.of_nat (String.length q))%Z).
Proof. exact syntax_err_pos_thm. Qed.
Print Assumptions syntax_err_pos_is_token_start_in_query.

(* the lexer fact used (C16's tiling theorem): every token offset lies inside the query *)
Theorem lexer_offsets_in_query : forall q : string, tokens_in_query q (lex q).
Proof. exact lex_tokens_in_query. Qed.
Print Assumptions lexer_offsets_in_query.

(* the hooks the correspondence runs the twin with (read off the observed rejection offset)
   satisfy the premise, for every token list and offset *)
Theorem observed_hooks_satisfy_premise : forall toks p,
  hooks_ok (prov toks) (prov toks) (observed_hooks p).
Proof. exact observed_hooks_prov. Qed.
Print Assumptions observed_hooks_satisfy_premise.

(* non-vacuity: a syntax error in the middle (LIMIT not last), one at end of input, and an
   accepted statement whose stored positions include the synthetic 0 of `select *` *)
Example parse_err_nonvacuous :
  parse_statement (lex "select key as k where key = 'a' limit 1, 2 order by k") = SErr 43%Z /\
  parse_statement (lex "select key as k where key = 'a' order by") = SErr 32%Z /\
  parse_statement (lex "put ('a', 'b'") = SErr (-1)%Z.
Proof. repeat split; vm_compute; reflexivity. Qed.

Example parse_tree_nonvacuous :
  exists s, parse_statement (lex "select * where key = 'a' order by key desc limit 2, 3;") = SOk s /\
            stmt_positions s = [0; 9; 25; 43; 0; 0; 19; 15; 21; 34].
Proof. eexists. split; vm_compute; reflexivity. Qed.

(* ---------------------------------------------------------------- part 2 over the parser AND
   checker twins (PA): Model/ParseCheck.v joins the parser twin to the checker twin of C14
   (Model/Checker.v): [parse_check fo re fmt_v q] = Lexer.lex, the statement parser run with the REAL
   mid-parse tests ([real_hooks]: twin of checkFieldCycles, findFieldInSelect for ORDER BY /
   GROUP BY items, the aggregate-name test, Check of the GROUP BY fields, all computed by the
   checker twin), [to_check], Checker.build_check (Check / Validate / ValidateFields, then the
   call validation of optimizer.go), the constant folder on the select fields
   (optimizeSelectExpressions, Model/FoldStmt.v) and the three tests of buildFinalPlan on the
   folded fields -- i.e. everything Optimizer.BuildPlan does with a query TEXT before the first
   plan node is initialised.  The
   premise [hooks_ok] of the parser-level theorems above is DISCHARGED for the real tests, the
   abstract provenance model (Model/ErrPos.v) is no longer needed for the type checker.
   [fo] is the float structure (no law assumed; it reads the divisor literal of `/` and serves the
   folder), [re] the regular-expression oracle and [fmt_v] the float printer of the folder (any:
   nothing is assumed of them here). *)
From KV Require Import Model.Value Model.ParseCheck Proofs.ParseCheckProofs.
From KV Require Model.Checker.

(* the full statements of the header, for EVERY query text and every rejection (syntax error,
   mid-parse test, checker, call validation, plan builder): the position is -1, 0 or the offset
   of one of the query's tokens, AND it is -1 or lies inside the query *)
Theorem err_pos_is_token_start_and_in_query : forall (fo : fops) (re : string -> string -> res bool) (fmt_v : F fo -> string)
         (q : string) (k : pckind) (z : Z),
  parse_check fo re fmt_v q = PCErr k z ->
  pos_is_token_start (zstarts (lex q)) z = true /\ pos_in_query q z = true.
Proof. exact parse_check_err_position_thm. Qed.
Print Assumptions err_pos_is_token_start_and_in_query.

Theorem err_pos_is_token_start : forall (fo : fops) (re : string -> string -> res bool) (fmt_v : F fo -> string)
         (q : string) (k : pckind) (z : Z),
  parse_check fo re fmt_v q = PCErr k z ->
  z = (-1)%Z \/ pos_is_token_start (zstarts (lex q)) z = true.
Proof. exact parse_check_err_token_start_thm. Qed.
Print Assumptions err_pos_is_token_start.

Theorem err_pos_in_query : forall (fo : fops) (re : string -> string -> res bool) (fmt_v : F fo -> string)
         (q : string) (k : pckind) (z : Z),
  parse_check fo re fmt_v q = PCErr k z -> pos_in_query q z = true.
Proof. exact parse_check_err_in_query_thm. Qed.
Print Assumptions err_pos_in_query.

(* the same in plain arithmetic *)
Theorem err_pos_arith : forall (fo : fops) (re : string -> string -> res bool) (fmt_v : F fo -> string)
         (q : string) (k : pckind) (z : Z),
  parse_check fo re fmt_v q = PCErr k z ->
  z = (-1)%Z \/
  ((0 <= z < Z.of_nat (String.length q))%Z /\ (z = 0%Z \/ In z (zstarts (lex q)))).
Proof. exact parse_check_err_arith_thm. Qed.
Print Assumptions err_pos_arith.

(* accepted statements: every Pos stored in the parser's statement (statement, clauses, all
   nodes of all trees) and in the checked trees (after name resolution: field references
   included) is 0 or a token offset, inside the query *)
Theorem accepted_positions_are_token_starts :
  forall (fo : fops) (re : string -> string -> res bool) (fmt_v : F fo -> string)
         (q : string) (s : StmtParser.stmt) (c : Checker.stmt) (a : bool),
  parse_check fo re fmt_v q = PCOk s c a ->
  parse_real fo (lex q) = SOk s /\
  Forall (prov (lex q)) (stmt_positions s) /\
  Forall (prov (lex q)) (cstmt_positions c) /\
  Forall (fun p => pos_in_query q (Z.of_nat p) = true) (stmt_positions s ++ cstmt_positions c).
Proof. exact parse_check_ok_positions_thm. Qed.
Print Assumptions accepted_positions_are_token_starts.

(* the composite twin is total: a statement, a positional rejection or "outside the model" *)
Theorem parse_check_total :
  forall (fo : fops) (re : string -> string -> res bool) (fmt_v : F fo -> string) (q : string),
  match parse_check fo re fmt_v q with PCPanic | PCFuel | PCOther => False | _ => True end.
Proof. exact parse_check_total_thm. Qed.
Print Assumptions parse_check_total.

(* the ingredients.  (a) the checker invents no position: its error is the Pos of a node of the
   statement it was given (or of an ORDER BY item), and every Pos of the checked statement is
   one of the input statement *)
Theorem checker_err_position : forall (fo : fops) (s : Checker.stmt) (p : nat),
  Checker.build_check fo true s = Err (ESyntax p) -> In p (cstmt_positions s).
Proof. exact build_check_err_position. Qed.
Print Assumptions checker_err_position.

Theorem checker_keeps_positions : forall (fo : fops) (s s2 : Checker.stmt),
  Checker.build_check fo true s = Ok s2 -> incl (cstmt_positions s2) (cstmt_positions s).
Proof. exact build_check_keeps_positions. Qed.
Print Assumptions checker_keeps_positions.

(* (b) the conversion hands the trees over unchanged *)
Theorem to_check_preserves_positions : forall (s : StmtParser.stmt) (c : Checker.stmt),
  to_check s = Some c -> incl (cstmt_positions c) (stmt_positions s).
Proof. exact to_check_positions. Qed.
Print Assumptions to_check_preserves_positions.

(* ... and takes EVERY statement the parser returns (it gives None only when FieldNames and
   Fields differ in length, which Parser.Parse never builds).  Before, a SELECT with GROUP BY one
   of whose fields uses the name of a field was kept outside; since resolveFieldNames
   (the fix "select fields were type checked against fields whose names were not resolved yet")
   the checker twin applies to it unchanged *)
Theorem to_check_none_exactly : forall (h : hooks) (ts : list token) (s : StmtParser.stmt),
  parse_with h ts = SOk s -> exists c, to_check s = Some c.
Proof. exact to_check_parsed_some. Qed.
Print Assumptions to_check_none_exactly.

(* (c) the real mid-parse tests report positions of the nodes they are given; the cycle test's
   fuel never runs out *)
Theorem real_hooks_satisfy_premise : forall (fo : fops) (Q : nat -> Prop), hooks_ok Q Q (real_hooks fo).
Proof. exact real_hooks_ok. Qed.
Print Assumptions real_hooks_satisfy_premise.

Theorem cycle_test_fuel_enough : forall names fields, check_cycles names fields <> CFuel.
Proof. exact check_cycles_fuel_enough. Qed.
Print Assumptions cycle_test_fuel_enough.

(* non-vacuity, for every float structure: a rejection by the type checker (operands of = of
   different kinds: position of the operator), by a mid-parse test (field defined through
   itself: the name), by the call validation (argument count: the call), by the plan builder
   (statement position 0; end of input), by a mid-parse test behind leading blanks, by the
   syntax; an accepted statement with an alias used inside another field and in WHERE *)
Example parse_check_rejections_nonvacuous :
  forall (fo : fops) (re : string -> string -> res bool) (fmt_v : F fo -> string),
  let parse_check := parse_check fo re fmt_v in
  parse_check "select * where key = 1" = PCErr KCheck 19%Z /\
  parse_check "select upper(u) as u where key = 'a'" = PCErr KMidParse 13%Z /\
  parse_check "select * where upper(key, key) = 'A'" = PCErr KCalls 15%Z /\
  parse_check "select key where key ^= 'k' group by key" = PCErr KPlan 0%Z /\
  parse_check "select count(1), key where key ^= 'k'" = PCErr KPlan (-1)%Z /\
  parse_check "   select key where value = 'a' order by kk" = PCErr KMidParse 41%Z /\
  parse_check "select * where key = 'a' &" = PCErr KSyntax (-1)%Z /\
  parse_check "select zq0 + 1 as zq2, zq1 + 'x' as zq0, key as zq1, zq2 * 2 as zq3 where key > 'a'"
    = PCErr KCheck 7%Z.
Proof. intros fo re fmt_v pc. repeat split; vm_compute; reflexivity. Qed.

Example parse_check_accepted_nonvacuous :
  forall (fo : fops) (re : string -> string -> res bool) (fmt_v : F fo -> string),
  exists s c, parse_check fo re fmt_v "select key as k, upper(k) as u where u = 'A' order by k limit 3" = PCOk s c false /\
              stmt_positions s = [0; 31; 45; 56; 7; 17; 17; 23; 39; 37; 41; 54] /\
              cstmt_positions c = [7; 17; 17; 23; 7; 39; 37; 17; 17; 23; 7; 41; 54].
Proof. intros fo re fmt_v. eexists. eexists. split; [vm_compute; reflexivity|]. split; vm_compute; reflexivity. Qed.

(* the plan stage runs on the FOLDED fields, as buildFinalPlan does (optimizeSelectExpressions
   comes first): `true | count(1) > 0` is folded to `true`, no aggregate call is left and a
   ProjectionPlan is built (on the unfolded field the answer would be "Missing group by
   statement", -1); a constant call next to an aggregate call stays an aggregate field; a
   constant-false `&` removes the aggregate call as well; GROUP BY together with select fields
   that use select-field names is inside the twin (accepted: an AggregatePlan; one plain field
   too many: "Missing aggregate fields in group by statement" at GROUP) *)
Example parse_check_folded_plan_nonvacuous :
  forall (fo : fops) (re : string -> string -> res bool) (fmt_v : F fo -> string),
  let parse_check := parse_check fo re fmt_v in
  (exists s c, parse_check "select true | (count(1) > 0) as x, key where key > ''" = PCOk s c false) /\
  (exists s c, parse_check "select false & (count(1) > 0) as x, key where key > ''" = PCOk s c false) /\
  parse_check "select false | (count(1) > 0) as x, key where key > ''" = PCErr KPlan (-1)%Z /\
  parse_check "select strlen('abc') + count(1) as x, key where key > ''" = PCErr KPlan (-1)%Z /\
  (exists s c, parse_check "select strlen('abc') + count(1) as x where key > ''" = PCOk s c true) /\
  (exists s c, parse_check "select int(value) as n, sum(n) as s, n + 1 as m where key > '' group by n, m"
               = PCOk s c true) /\
  parse_check "select int(value) as n, sum(n) as s, n + 1 as m, key where key > '' group by n, m"
    = PCErr KPlan 68%Z.
Proof.
  intros fo re fmt_v pc. subst pc. repeat split; vm_compute; try reflexivity; eexists; eexists; reflexivity.
Qed.

(* ---------------------------------------------------------------- part 2, EXECUTION (T3): the
   positions of errors raised while an ACCEPTED statement runs, and what the constant folder
   does to positions -- over the real twins (row evaluator Model/Eval.v, batch evaluator
   Model/EvalVec.v, constant folder Model/Fold.v, its statement-level in-place effect
   Model/FoldStmt.v, scan + filter + projection drain Model/ScanProj.v), composed with
   parse_check.  This discharges, for expression evaluation and for the drain of a SELECT
   without ORDER BY / GROUP BY / LIMIT, the statement the header keeps as a comment
   (exec_err_pos_in_query); the abstract model Model/ErrPos.v is no longer what covers the
   executor and the folder.

   [fo] is the float structure (no law assumed), [re] the regular-expression oracle
   (regexp.Compile + Match: library code).  One premise on the oracle, [re_plain re]: it
   returns no kvql error with a position -- execRegexpMatch hands regexp.Compile's error on as
   it is, a plain Go error.  Everything else is for every expression tree / every query text,
   every pair, every chunk, every batch size.

   (i) the evaluators invent no position.  No error of the twins is built with a literal 0 or -1
   (in the Go code only AggregatePlan does that, see below): every `args[i].GetPos()` of a
   function body lies behind the arity check of FunctionCallExpr.Execute, which the proof uses. *)
From KV Require Import Model.Eval Model.EvalVec Model.Fold Model.FoldStmt Model.ScanProj
                       Proofs.ExecPosProofs.

Theorem eval_err_position :
  forall (fo : fops) (re : string -> string -> res bool), re_plain re ->
  forall (k v : string) (e : expr) (p : nat),
  eval fo re k v e = Err (EExec p) -> In p (positions e).
Proof. exact eval_err_position_lemma. Qed.
Print Assumptions eval_err_position.

(* ... also for the SyntaxErrors Execute can return (function lookup, field-name expression) *)
Theorem eval_err_position_syntax :
  forall (fo : fops) (re : string -> string -> res bool), re_plain re ->
  forall (k v : string) (e : expr) (p : nat),
  eval fo re k v e = Err (ESyntax p) -> In p (positions e).
Proof. exact eval_err_position_syntax_lemma. Qed.
Print Assumptions eval_err_position_syntax.

(* FilterExec.Filter: "where expression result is not boolean" is raised at the root *)
Theorem filter_row_err_position :
  forall (fo : fops) (re : string -> string -> res bool), re_plain re ->
  forall (k v : string) (e : expr) (p : nat),
  filter_row fo re k v e = Err (EExec p) -> In p (positions e).
Proof. exact filter_row_err_position_lemma. Qed.
Print Assumptions filter_row_err_position.

(* batch mode (both variants of the BETWEEN type test, EvalVec.fixed_between) *)
Theorem eval_batch_err_position :
  forall (fo : fops) (re : string -> string -> res bool) (fixed_between : bool), re_plain re ->
  forall (e : expr) (ch : list kvpair) (p : nat),
  eval_batch fo re fixed_between e ch = Err (EExec p) -> In p (positions e).
Proof. exact eval_batch_err_position_lemma. Qed.
Print Assumptions eval_batch_err_position.

Theorem filter_batch_err_position :
  forall (fo : fops) (re : string -> string -> res bool) (fixed_between : bool), re_plain re ->
  forall (e : expr) (ch : list kvpair) (p : nat),
  filter_batch fo re fixed_between e ch = Err (EExec p) -> In p (positions e).
Proof. exact filter_batch_err_position_lemma. Qed.
Print Assumptions filter_batch_err_position.

(* The field-reference case is part of the statements above: [positions (ERef p name d)] is
   p :: positions d -- a reference evaluates its definition, the position then belongs to the
   DEFINITION (a field of the same statement, see accepted_positions_are_token_starts, which
   counts the definitions under references).

   Statement level: the drain of SELECT fields WHERE wh (scan, filter, projection; [fields = None]
   is `select *`), row mode and batch mode, over any stream of slots, at any batch size: an
   ExecuteError (the evaluators' and "Expression result type not support" of the projection)
   carries the Pos of a node of the WHERE tree or of a field *)
Theorem select_drain_err_position :
  forall (fo : fops) (re : string -> string -> res bool), re_plain re ->
  forall (wh : expr) (fields : option (list expr)) (slots : list (option kvpair)) (p : nat),
  select_row fo re wh fields slots = Err (EExec p) -> In p (select_positions wh fields).
Proof. exact select_row_err_position_lemma. Qed.
Print Assumptions select_drain_err_position.

Theorem select_drain_batch_err_position :
  forall (fo : fops) (re : string -> string -> res bool), re_plain re ->
  forall (B : nat) (wh : expr) (fields : option (list expr)) (slots : list (option kvpair)) (p : nat),
  select_batch fo re B wh fields slots = Err (EExec p) -> In p (select_positions wh fields).
Proof. exact select_batch_err_position_lemma. Qed.
Print Assumptions select_drain_batch_err_position.

(* (ii) the constant folder invents no position: every Pos of the folded tree is a Pos of the
   tree it was given.  A folded literal stands at the position of the call it replaces or of the
   LEFT operand of the operator it replaces; re-association builds its new BinaryOpExpr at the
   position of the operator it re-arranges and drops the position of the operator it dissolves.
   No premise on the oracles. *)
Theorem fold_positions :
  forall (fo : fops) (re : string -> string -> res bool) (fmt_v : F fo -> string) (e : expr),
  incl (positions (fold fo re fmt_v e)) (positions e).
Proof. exact fold_positions_lemma. Qed.
Print Assumptions fold_positions.

(* the single stages: re-association, one pass *)
Theorem fold_stage_positions :
  forall (fo : fops) (re : string -> string -> res bool) (fmt_v : F fo -> string) (e : expr),
  incl (positions (reorder e)) (positions e) /\
  incl (positions (optimize fo re fmt_v e)) (positions e).
Proof. intros fo re fmt_v e. split; [exact (reorder_positions_lemma e) | exact (optimize_positions_lemma fo re fmt_v e)]. Qed.
Print Assumptions fold_stage_positions.

(* The folder works IN PLACE and a FieldReferenceExpr points to the root object of the field it
   names: what a reference evaluates after BuildPlan is that object as the two passes left it
   (operands folded, root not replaced -- Model/FoldStmt.v in_place), and the tree a plan
   executes is [exec_tree T] = the folded tree with every reference re-pointed.  Both carry
   positions of the original only. *)
Theorem fold_in_place_positions :
  forall (fo : fops) (re : string -> string -> res bool) (fmt_v : F fo -> string) (e : expr),
  incl (positions (in_place fo re fmt_v e)) (positions e) /\
  incl (positions (exec_tree fo re fmt_v e)) (positions e).
Proof. intros fo re fmt_v e. split; [exact (in_place_positions_lemma fo re fmt_v e) | exact (exec_tree_positions_lemma fo re fmt_v e)]. Qed.
Print Assumptions fold_in_place_positions.

(* An error met WHILE folding is never reported: tryOptimizeBinaryOpExecute and
   tryOptimizeFunctionCall test `err == nil` and return the node unfolded otherwise, Optimize
   returns a tree, BuildPlan cannot fail in the folder ([fold] is a total function into trees).
   The error comes back, with the position (i) gives it, when the plan executes the node. *)
Theorem fold_reports_no_error :
  forall (fo : fops) (re : string -> string -> res bool) (fmt_v : F fo -> string),
  (forall p o l r x, is_value l = true -> is_value r = true ->
     const_eval fo re (EBin p o l r) = Err x ->
     try_exec fo re fmt_v (EBin p o l r) = (EBin p o l r, false)) /\
  (forall p n args x, const_eval fo re (ECall p n args) = Err x ->
     call_fold fo re fmt_v p n args = (ECall p n args, false)).
Proof.
  intros fo re fmt_v. split.
  - exact (try_exec_error_unfolded_lemma fo re fmt_v).
  - exact (call_fold_error_unfolded_lemma fo re fmt_v).
Qed.
Print Assumptions fold_reports_no_error.

(* (iii) composition with parse_check: for EVERY query text q that is accepted, every tree T of
   the checked statement (fields, WHERE; PUT pairs, REMOVE keys, DELETE's WHERE), its folded
   form, every pair: an execution error of the row evaluator carries an offset z that is 0 or
   the start of one of the tokens of q, and z lies inside q *)
Theorem exec_err_pos_row :
  forall (fo : fops) (re : string -> string -> res bool) (fmt_v : F fo -> string), re_plain re ->
  forall (q : string) (s : StmtParser.stmt) (c : Checker.stmt) (a : bool) (T : expr) (k v : string) (p : nat),
  parse_check fo re fmt_v q = PCOk s c a -> In T (cstmt_exprs c) ->
  eval fo re k v (fold fo re fmt_v T) = Err (EExec p) \/
  filter_row fo re k v (fold fo re fmt_v T) = Err (EExec p) ->
  (Z.of_nat p = 0%Z \/ In (Z.of_nat p) (zstarts (lex q))) /\ pos_in_query q (Z.of_nat p) = true.
Proof. exact exec_err_pos_row_lemma. Qed.
Print Assumptions exec_err_pos_row.

(* ... of the batch evaluator, every chunk *)
Theorem exec_err_pos_batch :
  forall (fo : fops) (re : string -> string -> res bool) (fmt_v : F fo -> string), re_plain re ->
  forall (q : string) (s : StmtParser.stmt) (c : Checker.stmt) (a : bool) (T : expr)
         (fixed_between : bool) (ch : list kvpair) (p : nat),
  parse_check fo re fmt_v q = PCOk s c a -> In T (cstmt_exprs c) ->
  eval_batch fo re fixed_between (fold fo re fmt_v T) ch = Err (EExec p) \/
  filter_batch fo re fixed_between (fold fo re fmt_v T) ch = Err (EExec p) ->
  (Z.of_nat p = 0%Z \/ In (Z.of_nat p) (zstarts (lex q))) /\ pos_in_query q (Z.of_nat p) = true.
Proof. exact exec_err_pos_batch_lemma. Qed.
Print Assumptions exec_err_pos_batch.

(* ... on the tree the plan really executes (references see the field objects as the folder
   left them), both evaluators *)
Theorem exec_err_pos_executed_tree :
  forall (fo : fops) (re : string -> string -> res bool) (fmt_v : F fo -> string), re_plain re ->
  forall (q : string) (s : StmtParser.stmt) (c : Checker.stmt) (a : bool) (T : expr) (p : nat),
  parse_check fo re fmt_v q = PCOk s c a -> In T (cstmt_exprs c) ->
  (exists k v, eval fo re k v (exec_tree fo re fmt_v T) = Err (EExec p) \/
               filter_row fo re k v (exec_tree fo re fmt_v T) = Err (EExec p)) \/
  (exists fb ch, eval_batch fo re fb (exec_tree fo re fmt_v T) ch = Err (EExec p) \/
                 filter_batch fo re fb (exec_tree fo re fmt_v T) ch = Err (EExec p)) ->
  (Z.of_nat p = 0%Z \/ In (Z.of_nat p) (zstarts (lex q))) /\ pos_in_query q (Z.of_nat p) = true.
Proof. exact exec_err_pos_exec_tree_lemma. Qed.
Print Assumptions exec_err_pos_executed_tree.

(* ... and on the checked tree itself (PUT / REMOVE trees are executed unfolded) *)
Theorem exec_err_pos_unfolded :
  forall (fo : fops) (re : string -> string -> res bool) (fmt_v : F fo -> string), re_plain re ->
  forall (q : string) (s : StmtParser.stmt) (c : Checker.stmt) (a : bool) (T : expr) (p : nat),
  parse_check fo re fmt_v q = PCOk s c a -> In T (cstmt_exprs c) ->
  (exists k v, eval fo re k v T = Err (EExec p)) \/
  (exists fb ch, eval_batch fo re fb T ch = Err (EExec p)) ->
  (Z.of_nat p = 0%Z \/ In (Z.of_nat p) (zstarts (lex q))) /\ pos_in_query q (Z.of_nat p) = true.
Proof. exact exec_err_pos_unfolded_lemma. Qed.
Print Assumptions exec_err_pos_unfolded.

(* the general form: ANY tree that carries only positions stored in the checked statement
   (whatever a later rewriting does, as long as it invents no position), all four entry points *)
Theorem exec_err_pos_general :
  forall (fo : fops) (re : string -> string -> res bool) (fmt_v : F fo -> string), re_plain re ->
  forall (q : string) (s : StmtParser.stmt) (c : Checker.stmt) (a : bool) (X : expr),
  parse_check fo re fmt_v q = PCOk s c a -> incl (positions X) (cstmt_positions c) ->
  (forall k v p, eval fo re k v X = Err (EExec p) ->
     (Z.of_nat p = 0%Z \/ In (Z.of_nat p) (zstarts (lex q))) /\ pos_in_query q (Z.of_nat p) = true) /\
  (forall k v p, filter_row fo re k v X = Err (EExec p) ->
     (Z.of_nat p = 0%Z \/ In (Z.of_nat p) (zstarts (lex q))) /\ pos_in_query q (Z.of_nat p) = true) /\
  (forall fb ch p, eval_batch fo re fb X ch = Err (EExec p) ->
     (Z.of_nat p = 0%Z \/ In (Z.of_nat p) (zstarts (lex q))) /\ pos_in_query q (Z.of_nat p) = true) /\
  (forall fb ch p, filter_batch fo re fb X ch = Err (EExec p) ->
     (Z.of_nat p = 0%Z \/ In (Z.of_nat p) (zstarts (lex q))) /\ pos_in_query q (Z.of_nat p) = true).
Proof. exact exec_err_pos_general_lemma. Qed.
Print Assumptions exec_err_pos_general.

(* the header's exec_err_pos_in_query, for a SELECT that buildFinalPlan turns into a
   ProjectionPlan over a scan (no ORDER BY / GROUP BY / LIMIT): the whole drain, row mode or
   batch mode, whatever the scan yields ([slots]: any stream, so every access path), any batch
   size, on the trees the plan executes: the offset of an ExecuteError is 0 or a token start
   of q, inside q.  ([all_fields] is SelectStmt.AllFields, `select *`.) *)
Theorem select_exec_err_pos_in_query :
  forall (fo : fops) (re : string -> string -> res bool) (fmt_v : F fo -> string), re_plain re ->
  forall (q : string) (s : StmtParser.stmt) (fields : list (string * expr)) (w : expr)
         (order : list (nat * string)) (a all_fields : bool) (slots : list (option kvpair)) (B p : nat),
  parse_check fo re fmt_v q = PCOk s (Checker.SSelect fields w order) a ->
  select_row fo re (exec_tree fo re fmt_v w)
             (if all_fields then None else Some (exec_fields fo re fmt_v fields)) slots = Err (EExec p) \/
  select_batch fo re B (exec_tree fo re fmt_v w)
             (if all_fields then None else Some (exec_fields fo re fmt_v fields)) slots = Err (EExec p) ->
  (Z.of_nat p = 0%Z \/ In (Z.of_nat p) (zstarts (lex q))) /\ pos_in_query q (Z.of_nat p) = true.
Proof. exact select_err_pos_lemma. Qed.
Print Assumptions select_exec_err_pos_in_query.

(* STILL outside these theorems (abstract model + correspondence only): errors raised by plan
   nodes other than scan / filter / projection -- AggregatePlan and the aggregate functions
   (aggregate_plan.go, aggr_func.go: two of their errors are built with NewExecuteError(0, ...),
   the others with the Pos of a call or of args[1]), FinalOrderPlan's "Cannot find field"; the
   expressions those plans evaluate are covered by exec_err_pos_general.  Storage errors carry
   no position. *)

(* ---------------------------------------------------------------- non-vacuity (T3).  For every
   float structure, oracle and float printer.  A division by zero met in the data: the position
   is the offset of the DIVISOR (executeMathOp gets e.Right), here the call int(value) at 20 *)
Example exec_err_div0_nonvacuous : forall (fo : fops) (re : string -> string -> res bool) (fmt_v : F fo -> string),
  let q := "select * where 10 / int(value) > 1" in
  exists w, pc_where (parse_check fo re fmt_v q) = Some w /\
    filter_row fo re "k1" "0" (fold fo re fmt_v w) = Err (EExec 20) /\
    filter_batch fo re true (fold fo re fmt_v w) [("k0", "5"); ("k1", "0")] = Err (EExec 20) /\
    filter_row fo re "k0" "5" (fold fo re fmt_v w) = Ok true /\
    In 20%Z (zstarts (lex q)) /\ String.get 20 q = Some "i"%char.
Proof. intros fo re fmt_v q. eexists. split; [vm_compute; reflexivity|]. repeat split; vm_compute; try reflexivity. tauto. Qed.

(* a constant divisor: folding (1 - 1) succeeds and puts the literal 0 at the offset of the
   LEFT operand (21); folding 10 / 0 fails and is not reported; the statement is accepted and
   fails on the first pair, at 21 -- unfolded it would be the `-` at 23.  BETWEEN with crossed
   bounds is reported at the operator *)
Example exec_err_folded_nonvacuous : forall (fo : fops) (re : string -> string -> res bool) (fmt_v : F fo -> string),
  let q := "select * where 10 / (1 - 1) > 1" in
  exists w, pc_where (parse_check fo re fmt_v q) = Some w /\
    filter_row fo re "k" "v" w = Err (EExec 23) /\
    filter_row fo re "k" "v" (fold fo re fmt_v w) = Err (EExec 21) /\
    filter_batch fo re true (fold fo re fmt_v w) [("k", "v")] = Err (EExec 21) /\
    In 21%Z (zstarts (lex q)) /\ In 23%Z (zstarts (lex q)) /\
  exists w2, pc_where (parse_check fo re fmt_v "select * where value between 'z' and 'a'") = Some w2 /\
    filter_row fo re "k" "v" (fold fo re fmt_v w2) = Err (EExec 21).
Proof.
  intros fo re fmt_v q. eexists. split; [vm_compute; reflexivity|].
  split; [vm_compute; reflexivity|]. split; [vm_compute; reflexivity|]. split; [vm_compute; reflexivity|].
  split; [vm_compute; tauto|]. split; [vm_compute; tauto|].
  eexists. split; [vm_compute; reflexivity | vm_compute; reflexivity].
Qed.

(* a reference: WHERE uses the alias x of a field whose divisor is constant.  The reference
   evaluates the field object as the folder left it IN PLACE (its right operand is the literal
   0 at 13), so the drain fails at 13 in both modes; the per-tree fold of WHERE alone (the
   reference still carrying the unfolded definition) would say 15 *)
Example exec_err_reference_nonvacuous : forall (fo : fops) (re : string -> string -> res bool) (fmt_v : F fo -> string),
  let q := "select 10 / (1 - 1) as x, key where x > 1" in
  exists w, pc_where (parse_check fo re fmt_v q) = Some w /\
    filter_row fo re "k" "5" (fold fo re fmt_v w) = Err (EExec 15) /\
    filter_row fo re "k" "5" (exec_tree fo re fmt_v w) = Err (EExec 13) /\
    select_row fo re (exec_tree fo re fmt_v w)
      (Some (map (exec_tree fo re fmt_v) (pc_fields (parse_check fo re fmt_v q)))) [Some ("k", "5")] = Err (EExec 13) /\
    select_batch fo re 2 (exec_tree fo re fmt_v w)
      (Some (map (exec_tree fo re fmt_v) (pc_fields (parse_check fo re fmt_v q)))) [Some ("k", "5")] = Err (EExec 13) /\
    In 13%Z (zstarts (lex q)) /\ In 15%Z (zstarts (lex q)).
Proof.
  intros fo re fmt_v q. eexists. split; [vm_compute; reflexivity|].
  split; [vm_compute; reflexivity|]. split; [vm_compute; reflexivity|]. split; [vm_compute; reflexivity|].
  split; [vm_compute; reflexivity|]. split; vm_compute; tauto.
Qed.

(* the premise on the oracle is satisfiable: an oracle that models nothing, one whose pattern
   does not compile (a plain error), one that answers *)
Example re_plain_nonvacuous :
  re_plain (fun _ _ => OutOfModel) /\ re_plain (fun _ _ => Err EOther) /\
  re_plain (fun pat text => Ok (String.eqb pat text)).
Proof. exact re_plain_examples. Qed.

(* ================================================================ ADDENDUM 5 (G2): execution
   errors of EVERY SELECT shape -- GROUP BY / aggregates / ORDER BY / LIMIT.

   select_exec_err_pos_in_query above covers a SELECT that buildFinalPlan turns into a
   ProjectionPlan over a scan.  Here the statement is the QUERY TEXT run through the text twin of
   Model/PipelineS.v (plan_stmt_text: lexer, parser with the mid-parse tests, checker, call
   validation, the folder in place, buildScanPlan, buildFinalPlan incl. AggregatePlan.Init;
   select_stmt_text_st: that plan drained by Next / by Batch over the slots its scan node reads
   from the store, errors kept with class and position), whatever plan buildFinalPlan builds:
   ProjectionPlan, AggregatePlan (with or without a pushed-down LIMIT), FinalOrderPlan and
   FinalLimitPlan on top.

   What the aggregate / order code adds to the errors of the expressions it evaluates
   (aggregate_plan.go, aggr_func.go, order_plan.go, read function by function):
     - the functors' Update raises nothing of its own: its only error is the error of
       args[0].Execute (sum / avg / min / max over text that is no number is NOT an error:
       convertToNumber answers 0);
     - the constructors' errors (quantile / group_concat second parameter, argument counts) are
       raised by AggregatePlan.Init inside BuildPlan: such a text is not accepted (STReject /
       STBuildErr of plan_stmt_text, compared with the Go code by C03's text stream and by the
       g2 stream's `init` cases);
     - Complete fails only for json_arrayagg (json.Marshal): a plain error without position;
     - completing a group's row evaluates the folded select field over the Results:
       `Divide by zero` at the Pos of the DIVISOR node (executeMathOp gets e.Right) -- the twins
       Model/Aggregate.v / AggregateLazy.v answer only "failed" there (Err EOther);
       Model/AggErrPos.v adds class and position next to them (select_stmt_text_stp);
     - the two NewExecuteError(0, ...) of aggregate_plan.go are unreachable inside the twin
       (a non-key column without calls is never built by Init; a list / JSON value handed to
       convertToBytes is outside the aggregate twin, SelectPlans.gval), and 0 is covered by the
       statement anyway;
     - FinalOrderPlan.findOrderIdx `Cannot find field`: raised by Init; the twin
       (SelectPlans.with_ords) reports it at 0, covered by the statement. *)
From KV Require Import Model.Storage Model.Pipeline.
From KV Require Import Model.SelectPlans Model.PipelineS Model.AggErrPos Proofs.ExecPosStmtProofs.
From KV Require Import Model.Value.
From KV Require Model.Order Model.Aggregate Spec.Group.

(* (i) the plan nodes above the evaluators invent no position: a positional error of the drain
   of ANY shape over the evaluator twins carries 0 or the Pos of a node of a tree the plan
   executes (WHERE, the select fields, the GROUP BY expressions, the non-aggregate fields, the
   first arguments of the aggregate calls), row mode and batch mode *)
Theorem select_shape_err_position :
  forall (fo : fops) (re : string -> string -> res bool), re_plain re ->
  forall (ag : aggops fo) (pi pf : string -> option Z) (m : tmode) (c : cstmt fo) (sh : shape)
         (sl : list (option kvpair)) (p : nat),
  run_mode fo re ag pi pf m c sh sl = Err (EExec p) \/ run_mode fo re ag pi pf m c sh sl = Err (ESyntax p) ->
  p = 0 \/ In p (cstmt_run_positions fo c).
Proof.
  intros fo re Hre ag pi pf m c sh sl p H.
  pose proof (run_mode_okp fo re Hre ag pi pf m c sh sl) as Hok.
  destruct H as [H|H]; rewrite H in Hok; exact Hok.
Qed.
Print Assumptions select_shape_err_position.

(* (ii) the trees an accepted text executes carry only positions stored in the parser's
   statement or in the checked statement *)
Theorem planned_trees_positions :
  forall (fo : fops) (re : string -> string -> res bool) (fmt_v : F fo -> string) (q : string) (pl : splanned fo),
  plan_stmt_text fo re fmt_v q = STOk pl ->
  incl (cstmt_run_positions fo (sp_q fo pl)) (planned_allpos fo pl).
Proof. exact planned_positions. Qed.
Print Assumptions planned_trees_positions.

(* (iii) THE STATEMENT: for every query text q the text pipeline accepts, every store, both
   modes, every batch size (B >= 1 is not needed): if the drain ends in a positional execution
   error at z -- an ExecuteError or one of the SyntaxErrors Execute can return -- then z = 0 or
   z is the offset of a token of q, and z lies inside q.  Full strength, no bound. *)
Theorem select_stmt_exec_err_pos_in_query :
  forall (fo : fops) (re : string -> string -> res bool) (fmt_v : F fo -> string), re_plain re ->
  forall (ag : aggops fo) (pi pf : string -> option Z)
         (q : string) (pl : splanned fo) (d : store) (m : tmode) (p : nat),
  plan_stmt_text fo re fmt_v q = STOk pl ->
  select_stmt_text_st fo re fmt_v ag pi pf q d m = STRunErr (EExec p) \/
  select_stmt_text_st fo re fmt_v ag pi pf q d m = STRunErr (ESyntax p) ->
  (Z.of_nat p = 0%Z \/ In (Z.of_nat p) (zstarts (lex q))) /\ pos_in_query q (Z.of_nat p) = true.
Proof. intros fo re fmt_v Hre ag pi pf q pl d m p. exact (select_stmt_exec_err_pos_lemma fo re fmt_v Hre ag pi pf q pl d m p). Qed.
Print Assumptions select_stmt_exec_err_pos_in_query.

(* (iv) the same with the errors of AggregatePlan.next / batch (completing a group's row) kept
   with class and position (Model/AggErrPos.v) *)
Theorem select_stmt_exec_err_pos_in_query_completion :
  forall (fo : fops) (re : string -> string -> res bool) (fmt_v : F fo -> string), re_plain re ->
  forall (ag : aggops fo) (pi pf : string -> option Z)
         (q : string) (pl : splanned fo) (d : store) (m : tmode) (p : nat),
  plan_stmt_text fo re fmt_v q = STOk pl ->
  select_stmt_text_stp fo re fmt_v ag pi pf q d m = STRunErr (EExec p) \/
  select_stmt_text_stp fo re fmt_v ag pi pf q d m = STRunErr (ESyntax p) ->
  (Z.of_nat p = 0%Z \/ In (Z.of_nat p) (zstarts (lex q))) /\ pos_in_query q (Z.of_nat p) = true.
Proof. intros fo re fmt_v Hre ag pi pf q pl d m p. exact (select_stmt_exec_err_pos_stp_lemma fo re fmt_v Hre ag pi pf q pl d m p). Qed.
Print Assumptions select_stmt_exec_err_pos_in_query_completion.

(* the completion layer changes nothing else: select_stmt_text_stp is select_stmt_text_st
   except that `STRunErr EOther` may become an ExecuteError (never a SyntaxError); both are
   C03's select_stmt_text once class and position are dropped *)
Theorem completion_layer_refines :
  forall (fo : fops) (re : string -> string -> res bool) (fmt_v : F fo -> string)
         (ag : aggops fo) (pi pf : string -> option Z) (q : string) (d : store) (m : tmode),
  (select_stmt_text_stp fo re fmt_v ag pi pf q d m = select_stmt_text_st fo re fmt_v ag pi pf q d m \/
   (select_stmt_text_st fo re fmt_v ag pi pf q d m = STRunErr EOther /\
    exists e, nosyn e /\ select_stmt_text_stp fo re fmt_v ag pi pf q d m = STRunErr e)) /\
  to_tres (select_stmt_text_stp fo re fmt_v ag pi pf q d m) = select_stmt_text fo re fmt_v ag pi pf q d m.
Proof. intros. split; [apply stp_refines_st | apply stp_same_tres]. Qed.
Print Assumptions completion_layer_refines.

(* the error a failing completion reports is EOther or an ExecuteError at the Pos of a node of
   one of the plan's Fields *)
Theorem completion_err_position :
  forall (fo : fops) (re : string -> string -> res bool) (ag : aggops fo) (c : cstmt fo) (sh : shape)
         (m : tmode) (sl : list (option kvpair)) (p : nat),
  completion_err fo re ag c sh m sl = EExec p -> In p (flat_map positions (agg_fields fo c)).
Proof.
  intros fo re ag c sh m sl p H. unfold completion_err in H.
  destruct (shape_agg sh) as [[st l]|]; [|discriminate].
  destruct (prepared_rows fo re ag c _ m sl) as [rows| | |]; try discriminate.
  pose proof (rows_err_ok (F fo) (fadd fo) (fsub fo) (fmul fo) (fdiv fo) (a_is0 fo ag) (f_of_Z fo)
                          (a_json_f fo ag) (a_json_s fo ag) (agg_fields fo c) rows) as Hok.
  unfold okerr in Hok. rewrite H in Hok. exact Hok.
Qed.
Print Assumptions completion_err_position.

(* ---------------------------------------------------------------- non-vacuity (G2).  For every
   float structure, oracle, float printer and library float operations. *)
Definition g2_store : store := [("ka", "12"); ("kb", "7"); ("kc", "0")]%string.

(* an aggregate ARGUMENT fails on the third pair (division by zero, the divisor int(value) at
   16), with ORDER BY and LIMIT on top, both modes; a GROUP BY expression fails (divisor at 12) *)
Example select_stmt_exec_err_argument_nonvacuous :
  forall (fo : fops) (re : string -> string -> res bool) (fmt_v : F fo -> string) (ag : aggops fo)
         (pi pf : string -> option Z),
  let q := "select sum(10 / int(value)) as s, count(1) as c where key > '' order by c limit 1" in
  let q' := "select 10 / int(value) as g, count(1) as c where key > '' group by g order by c desc" in
  select_stmt_text_st fo re fmt_v ag pi pf q g2_store MRow = STRunErr (EExec 16) /\
  select_stmt_text_st fo re fmt_v ag pi pf q g2_store (MBatch 2) = STRunErr (EExec 16) /\
  In 16%Z (zstarts (lex q)) /\
  select_stmt_text_st fo re fmt_v ag pi pf q' g2_store MRow = STRunErr (EExec 12) /\
  select_stmt_text_st fo re fmt_v ag pi pf q' g2_store (MBatch 2) = STRunErr (EExec 12) /\
  In 12%Z (zstarts (lex q')).
Proof.
  intros. split; [vm_compute; reflexivity|]. split; [vm_compute; reflexivity|]. split; [vm_compute; tauto|].
  split; [vm_compute; reflexivity|]. split; [vm_compute; reflexivity|]. vm_compute; tauto.
Qed.

(* COMPLETING the group of kb (sum = 7) divides by zero: the aggregate twin says "failed"
   (EOther), the completion layer says ExecuteError at 35, the `-` of the divisor.  With the LIMIT
   pushed into the AggregatePlan, row mode completes the first group only and succeeds, batch
   mode (PlanBatchSize 2) completes two groups and fails -- as the Go code does *)
Example select_stmt_exec_err_completion_nonvacuous :
  forall (fo : fops) (re : string -> string -> res bool) (fmt_v : F fo -> string) (ag : aggops fo)
         (pi pf : string -> option Z),
  let q := "select key, 100 / (sum(int(value)) - 7) as r where key > '' group by key" in
  let q' := "select key, 100 / (sum(int(value)) - 7) as r where key > '' group by key limit 1" in
  select_stmt_text_st fo re fmt_v ag pi pf q g2_store MRow = STRunErr EOther /\
  select_stmt_text_stp fo re fmt_v ag pi pf q g2_store MRow = STRunErr (EExec 35) /\
  select_stmt_text_stp fo re fmt_v ag pi pf q g2_store (MBatch 2) = STRunErr (EExec 35) /\
  In 35%Z (zstarts (lex q)) /\ String.get 35 q = Some "-"%char /\
  select_stmt_text_stp fo re fmt_v ag pi pf q' g2_store MRow = STOk [[Order.VBytes "ka"; Order.VInt 20]] /\
  select_stmt_text_stp fo re fmt_v ag pi pf q' g2_store (MBatch 2) = STRunErr (EExec 35).
Proof.
  intros. split; [vm_compute; reflexivity|]. split; [vm_compute; reflexivity|]. split; [vm_compute; reflexivity|].
  split; [vm_compute; tauto|]. split; [vm_compute; reflexivity|]. split; vm_compute; reflexivity.
Qed.

(* ================================================================ ADDENDUM 6 (agent MA): the
   Init chain of an aggregated SELECT -- FinalOrderPlan.Init, AggregatePlan.Init and the
   aggregate function constructors of aggr_func.go (Model/AggInit.v), which reject a statement
   AFTER parse_check has accepted it and before the first storage call: "Function %s require %d
   arguments", "quantile function second parameter ..." (ExecuteError), "group concat second
   parameter require string type" (SyntaxError), and whatever error the EVALUATION of the
   constant second argument of quantile / group_concat on the pair (nil, nil) returns.

   [parse_check_agg fo re fmt_v fxq fxa q] is parse_check followed by that chain (fxa / fxq: the
   two repairs made on the way, see Properties/C14.v; the theorems hold for either setting; with
   fxa = true the ExecuteError of a wrong aggregate argument count comes from the call validation
   and is reported as PAInitErr too).
   With these, EVERY positional error BuildPlan can return for a query text -- whichever of its
   stages raises it -- is -1, 0 or a token start, and lies inside the query. *)
From KV Require Import Model.AggInit Proofs.AggInitProofs.

(* the Init chain invents no position (no NewExecuteError(0, ..) site is reachable in it): a
   positional error carries the Pos of a node of the checked statement -- of a select field, of
   the constant argument, or of an ORDER BY item *)
Theorem agg_init_err_position :
  forall (fo : fops) (re : string -> string -> res bool) (fmt_v : F fo -> string) (fxq : bool) (c : Checker.stmt),
  re_plain re ->
  forall p, (init_check fo re fmt_v fxq c = Err (EExec p) \/ init_check fo re fmt_v fxq c = Err (ESyntax p)) ->
  In p (cstmt_positions c).
Proof. exact init_check_err_position_lemma. Qed.
Print Assumptions agg_init_err_position.

(* rejections before any plan node is initialised (the stages of parse_check, with either call
   validation) *)
Theorem agg_err_pos_is_token_start_and_in_query :
  forall (fo : fops) (re : string -> string -> res bool) (fmt_v : F fo -> string) (fxq fxa : bool)
         (q : string) (k : pckind) (z : Z),
  parse_check_agg fo re fmt_v fxq fxa q = PAErr k z ->
  pos_is_token_start (zstarts (lex q)) z = true /\ pos_in_query q z = true.
Proof. exact parse_check_agg_err_position_thm. Qed.
Print Assumptions agg_err_pos_is_token_start_and_in_query.

(* rejections by the Init chain: an ExecuteError or SyntaxError at a token start inside the
   query, or an error without a position (the plain error of a distance function met while the
   constant argument is evaluated) *)
Theorem agg_init_err_pos_is_token_start_and_in_query :
  forall (fo : fops) (re : string -> string -> res bool) (fmt_v : F fo -> string) (fxq fxa : bool)
         (q : string) (e : err),
  re_plain re ->
  parse_check_agg fo re fmt_v fxq fxa q = PAInitErr e ->
  init_err_at (fun p => pos_is_token_start (zstarts (lex q)) (Z.of_nat p) = true /\
                        pos_in_query q (Z.of_nat p) = true) e.
Proof. exact parse_check_agg_init_err_position_thm. Qed.
Print Assumptions agg_init_err_pos_is_token_start_and_in_query.

(* accepted statements keep the guarantee of accepted_positions_are_token_starts *)
Theorem agg_accepted_positions_are_token_starts :
  forall (fo : fops) (re : string -> string -> res bool) (fmt_v : F fo -> string) (fxq fxa : bool)
         (q : string) (s : StmtParser.stmt) (c : Checker.stmt) (a : bool),
  parse_check_agg fo re fmt_v fxq fxa q = PAOk s c a ->
  parse_real fo (lex q) = SOk s /\
  Forall (prov (lex q)) (stmt_positions s) /\
  Forall (prov (lex q)) (cstmt_positions c).
Proof. exact parse_check_agg_ok_positions_thm. Qed.
Print Assumptions agg_accepted_positions_are_token_starts.

(* non-vacuity: the four kinds of rejection of the Init chain, with the byte the position points
   at; concrete floats (Base/Flt.v) where the parameter of quantile is compared *)
From KV Require Import Base.Flt.
Example agg_init_rejections_nonvacuous :
  let pa := parse_check_agg prim_fops (fun _ _ => OutOfModel) Fold.pf_fmt_v true false in
  pa "select count(1, 2) as c where key > '' order by c limit 1" = PAInitErr (EExec 7) /\
  pa "select key, quantile(value, 2.5) where key > '' group by key" = PAInitErr (EExec 28) /\
  String.get 28 "select key, quantile(value, 2.5) where key > '' group by key" = Some "2"%char /\
  pa "select quantile(value, 1) where key > ''" = PAInitErr (EExec 23) /\
  pa "select group_concat(value, 1 + 2) where key > ''" = PAInitErr (ESyntax 27) /\
  pa "select group_concat(key, str(1 / int(key))) where key > ''" = PAInitErr (EExec 33) /\
  String.get 33 "select group_concat(key, str(1 / int(key))) where key > ''" = Some "i"%char /\
  pa "select quantile(key, l2_distance(list(1, 2), list(1))) where key > ''" = PAInitErr EOther /\
  (exists s c, pa "select key, quantile(value, 0.5), group_concat(value, ',') where key > '' group by key" = PAOk s c true).
Proof. repeat split; try (vm_compute; reflexivity). eexists. eexists. vm_compute. reflexivity. Qed.
