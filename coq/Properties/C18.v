(* Properties/C18.v -- key-pinning filters read only the pinned keys or region.
   Only property theorems (closed by [exact]), Print Assumptions, examples. *)
From Coq Require Import List String Bool.
Import ListNotations.
From KV Require Import Base.Bytes Model.Ast Model.FilterOpt Proofs.RangeProofs
                       Proofs.FilterOptProofs Proofs.NarrowProofs
                       Model.Storage Model.ScanIO Model.ScanSem Proofs.StorageProofs Proofs.ScanSemProofs.
Open Scope string_scope.

(* AND narrows: the region inferred for a conjunction lies inside the region of one of its
   conjuncts -- all region shapes, all literals *)
Theorem and_narrows : forall l r, wf l -> wf r ->
  region_sub (and_regions l r) l \/ region_sub (and_regions l r) r.
Proof. exact and_regions_narrows. Qed.
Print Assumptions and_narrows.

Theorem conjunction_reads_inside_a_conjunct : forall p o l r,
  o = OAnd \/ o = OKWAnd ->
  region_sub (optimize (EBin p o l r)) (optimize l) \/
  region_sub (optimize (EBin p o l r)) (optimize r).
Proof. exact optimize_and_narrows. Qed.
Print Assumptions conjunction_reads_inside_a_conjunct.

(* the intersection of two ranges lies inside both *)
Theorem range_intersection_inside_both : forall ls le rs re k,
  wf (RRange ls le) -> wf (RRange rs re) ->
  covers (inter_range ls le rs re) k = true ->
  covers (RRange ls le) k = true /\ covers (RRange rs re) k = true.
Proof. exact inter_range_inside. Qed.
Print Assumptions range_intersection_inside_both.

(* equality and IN over literals plan point reads, with the literal on either side and under
   a conjunction with a predicate that does not constrain the key *)
Theorem equality_is_point_read : forall p p1 p2 lit,
  optimize (EBin p OEq (EField p1 KeyKW) (EStr p2 lit)) = RMget [lit] /\
  optimize (EBin p OEq (EStr p2 lit) (EField p1 KeyKW)) = RMget [lit].
Proof. exact eq_is_point_read. Qed.
Print Assumptions equality_is_point_read.

Theorem in_list_is_point_read : forall p p1 p2 p3 lit lits,
  optimize (EBin p OIn (EField p1 KeyKW) (EList p2 (map (fun l => EStr p3 l) (lit :: lits))))
  = RMget (lit :: lits).
Proof. exact in_is_point_read. Qed.
Print Assumptions in_list_is_point_read.

Theorem point_read_survives_opaque_conjunct : forall ks q,
  optimize q = RFull ->
  and_regions (RMget ks) (optimize q) = RMget ks /\ and_regions (optimize q) (RMget ks) = RMget ks.
Proof. exact point_read_survives_opaque. Qed.
Print Assumptions point_read_survives_opaque_conjunct.

(* unsatisfiable on its face: nothing is read (REmpty is planned as EmptyResultPlan) *)
Theorem false_reads_nothing : forall p, optimize (EBool p false) = REmpty.
Proof. exact false_is_empty. Qed.
Theorem disjoint_equalities_read_nothing : forall a b, a <> b -> and_regions (RMget [a]) (RMget [b]) = REmpty.
Proof. exact disjoint_equalities_empty. Qed.
Theorem disjoint_prefixes_read_nothing : forall p q,
  has_prefix p q = false -> has_prefix q p = false -> and_regions (RPrefix p) (RPrefix q) = REmpty.
Proof. exact disjoint_prefixes_empty. Qed.
Theorem disjoint_ranges_read_nothing : forall lo hi, bltb hi lo = true ->
  and_regions (RRange (Some lo) None) (RRange None (Some hi)) = REmpty /\
  and_regions (RRange None (Some hi)) (RRange (Some lo) None) = REmpty.
Proof. exact disjoint_ranges_empty. Qed.
Print Assumptions disjoint_ranges_read_nothing.

(* Execution layer (twin of the scan plans' cursor loops, Model/ScanIO.v, with the done flag of
   the D23 repair): draining the plan in either mode over any strictly sorted store issues
   no storage call at all for an empty region, only Get calls on the listed keys for point
   reads, and for a cursor scan only Cursor / Seek / Next calls whose returned keys lie inside
   the region except at most one, the last, which ends the scan *)
Theorem reads_within_region :
  forall (flt : kvp -> bool) (B fuel : nat) (m : mode) (p : plan) (d : store) (l0 : list scall),
  1 <= B -> ssorted d -> keys_ok p -> List.length d + plan_keys p < fuel ->
  exists l, select_log true flt B fuel m p (SState d l0 None) = (l0 ++ l)%list /\ reads_ok (leaf p) l.
Proof. exact reads_within_region_lemma. Qed.
Print Assumptions reads_within_region.

(* without the done flag the statement is false: regression witness for D23 *)
Theorem reads_within_region_needs_done_flag :
  exists (flt : kvp -> bool) (B fuel : nat) (p : plan) (d : store),
    1 <= B /\ ssorted d /\ keys_ok p /\ List.length d + plan_keys p < fuel /\
    ~ reads_ok (leaf p) (select_log false flt B fuel BatchMode p (sinit d None)).
Proof. exact reads_within_region_needs_done_flag_lemma. Qed.

Example narrowing_example :
  optimize (EBin 0 OAnd (EBin 0 OPrefixMatch (EField 0 KeyKW) (EStr 0 "ab"))
                        (EBin 0 OEq (EField 0 ValueKW) (EStr 0 "x"))) = RPrefix "ab".
Proof. reflexivity. Qed.

(* ------------------------------------------------------------------ the composed SELECT
   (Proofs/ScanSlotsProofs.v).  [reads_within_region] above is about the scan node (and a
   LimitPlan over it).  A SELECT puts a projection or an aggregate node on the scan node, then
   possibly an order node and a limit node (Model/ScanIO.v fplan: the twins of their Init /
   Next / Batch / prepare loops as programs over the storage instructions). *)
From KV Require Import Model.Value Model.SelectPlans Model.Pipeline Model.PipelineS Model.PipelineIO
                       Proofs.ScanSlotsProofs.
From KV Require Import Model.ScanIO Model.Storage.
Local Open Scope list_scope.


(* none of these nodes issues a storage call of its own: for every final plan, every oracle,
   both modes, every batch size >= 1 and every strictly sorted store, the calls of BuildPlan +
   drain are calls the scan node may issue, inside its region *)
Theorem select_calls_are_scan_calls :
  forall (flt : kvp -> bool) (gkey : kvp -> bytes) (B fuel : nat) (m : mode) (fp : fplan)
         (d : store) (l0 : list scall),
  1 <= B -> ssorted d -> keys_ok (fchild fp) -> List.length d + fplan_keys fp < fuel ->
  exists sizes l, ScanIO.run_stmt true flt gkey B fuel m (StSelect fp) (SState d l0 None)
                  = (Storage.Ok sizes, SState d (l0 ++ l)%list None)
                  /\ reads_ok (fleaf fp) l.
Proof. exact select_calls_are_scan_calls_lemma. Qed.
Print Assumptions select_calls_are_scan_calls.

(* for every accepted SELECT text ([plan_stmt_text q = STOk pl], Model/PipelineS.v) the statement
   ScanIO runs is [text_fplan pl] (Model/PipelineIO.v: the shape buildFinalPlan built over the scan
   node of the region inferred from the FOLDED WHERE tree, [text_region pl]); its run reads
   nothing for REmpty, only the listed keys (Get) for RMget, and otherwise only through the
   cursor, the keys returned lying in the region except at most the last one, which ends the scan *)
Theorem reads_within_region_text :
  forall (fo : fops) (re : bytes -> bytes -> Value.res bool) (fmt_v : F fo -> string)
         (flt : kvp -> bool) (gkey : kvp -> bytes) (B fuel : nat) (m : mode)
         (q : string) (pl : splanned fo) (d : store) (l0 : list scall),
  plan_stmt_text fo re fmt_v q = STOk pl ->
  1 <= B -> ssorted d -> List.length d + plan_keys (PScan (sp_scan fo pl)) < fuel ->
  text_stmt fo re fmt_v q = Some (StSelect (text_fplan fo pl)) /\
  exists sizes l, ScanIO.run_stmt true flt gkey B fuel m (StSelect (text_fplan fo pl)) (SState d l0 None)
                  = (Storage.Ok sizes, SState d (l0 ++ l)%list None)
                  /\ reads_ok (sp_scan fo pl) l
                  /\ reads_in_region (text_region fo re fmt_v pl) l.
Proof. exact reads_within_region_text_lemma. Qed.
Print Assumptions reads_within_region_text.

(* non-vacuity: ORDER BY + LIMIT over a projection with a prefix filter; the scan is read once,
   up to the first key beyond the prefix, whatever the nodes above do *)
Example reads_within_region_text_nonvacuous :
  forall (fo : fops) (re : bytes -> bytes -> Value.res bool) (fmt_v : F fo -> string),
  let q := "select key, value where key ^= 'a' & value != 'x' order by value desc limit 1, 1" in
  let d := [("a","1");("ab","2");("abc","3");("b","4");("c","5")] in
  exists pl, plan_stmt_text fo re fmt_v q = STOk pl /\
    text_region fo re fmt_v pl = RPrefix "a" /\
    (exists os, text_fplan fo pl = FLimit 1 1 (FOrder (FProj (PScan (SPrefix "a")))) /\ sp_shape fo pl = SLimit 1 1 (SOrder os SProj)) /\
    ScanIO.run_stmt true (fun _ => true) snd 2 20 RowMode (StSelect (text_fplan fo pl)) (sinit d None)
    = (Storage.Ok [1], SState d [CCursor; CSeek "a"; CCursor; CSeek "a"; CNext (Some "a"); CNext (Some "ab");
                                 CNext (Some "abc"); CNext (Some "b")] None).
Proof.
  intros. eexists. split; [vm_compute; reflexivity|]. split; [vm_compute; reflexivity|].
  split; [eexists; split; vm_compute; reflexivity|]. vm_compute. reflexivity.
Qed.
