(* Properties/C18.v -- key-pinning filters read only the pinned keys or region.
   Only property theorems (closed by [exact]), Print Assumptions, examples. *)
From Coq Require Import List String Bool.
Import ListNotations.
From KV Require Import Base.Bytes Model.Ast Model.FilterOpt Proofs.RangeProofs
                       Proofs.FilterOptProofs Proofs.NarrowProofs
                       Model.Storage Model.ScanIO Model.ScanSem Proofs.StorageProofs Proofs.ScanSemProofs.
Open Scope string_scope.

(* AND narrows: the region inferred for a conjunction lies inside the region of one of its
   conjuncts -- all region shapes, all literals *)
Theorem and_narrows : forall l r, wf l -> wf r ->
  region_sub (and_regions l r) l \/ region_sub (and_regions l r) r.
Proof. exact and_regions_narrows. Qed.
Print Assumptions and_narrows.

Theorem conjunction_reads_inside_a_conjunct : forall p o l r,
  o = OAnd \/ o = OKWAnd ->
  region_sub (optimize (EBin p o l r)) (optimize l) \/
  region_sub (optimize (EBin p o l r)) (optimize r).
Proof. exact optimize_and_narrows. Qed.
Print Assumptions conjunction_reads_inside_a_conjunct.

(* the intersection of two ranges lies inside both *)
Theorem range_intersection_inside_both : forall ls le rs re k,
  wf (RRange ls le) -> wf (RRange rs re) ->
  covers (inter_range ls le rs re) k = true ->
  covers (RRange ls le) k = true /\ covers (RRange rs re) k = true.
Proof. exact inter_range_inside. Qed.
Print Assumptions range_intersection_inside_both.

(* equality and IN over literals plan point reads, with the literal on either side and under
   a conjunction with a predicate that does not constrain the key *)
Theorem equality_is_point_read : forall p p1 p2 lit,
  optimize (EBin p OEq (EField p1 KeyKW) (EStr p2 lit)) = RMget [lit] /\
  optimize (EBin p OEq (EStr p2 lit) (EField p1 KeyKW)) = RMget [lit].
Proof. exact eq_is_point_read. Qed.
Print Assumptions equality_is_point_read.

Theorem in_list_is_point_read : forall p p1 p2 p3 lit lits,
  optimize (EBin p OIn (EField p1 KeyKW) (EList p2 (map (fun l => EStr p3 l) (lit :: lits))))
  = RMget (lit :: lits).
Proof. exact in_is_point_read. Qed.
Print Assumptions in_list_is_point_read.

Theorem point_read_survives_opaque_conjunct : forall ks q,
  optimize q = RFull ->
  and_regions (RMget ks) (optimize q) = RMget ks /\ and_regions (optimize q) (RMget ks) = RMget ks.
Proof. exact point_read_survives_opaque. Qed.
Print Assumptions point_read_survives_opaque_conjunct.

(* unsatisfiable on its face: nothing is read (REmpty is planned as EmptyResultPlan) *)
Theorem false_reads_nothing : forall p, optimize (EBool p false) = REmpty.
Proof. exact false_is_empty. Qed.
Theorem disjoint_equalities_read_nothing : forall a b, a <> b -> and_regions (RMget [a]) (RMget [b]) = REmpty.
Proof. exact disjoint_equalities_empty. Qed.
Theorem disjoint_prefixes_read_nothing : forall p q,
  has_prefix p q = false -> has_prefix q p = false -> and_regions (RPrefix p) (RPrefix q) = REmpty.
Proof. exact disjoint_prefixes_empty. Qed.
Theorem disjoint_ranges_read_nothing : forall lo hi, bltb hi lo = true ->
  and_regions (RRange (Some lo) None) (RRange None (Some hi)) = REmpty /\
  and_regions (RRange None (Some hi)) (RRange (Some lo) None) = REmpty.
Proof. exact disjoint_ranges_empty. Qed.
Print Assumptions disjoint_ranges_read_nothing.

(* Execution layer (twin of the scan plans' cursor loops, Model/ScanIO.v, with the done flag of
   the D23 repair): draining the plan in either mode over any strictly sorted store issues
   no storage call at all for an empty region, only Get calls on the listed keys for point
   reads, and for a cursor scan only Cursor / Seek / Next calls whose returned keys lie inside
   the region except at most one, the last, which ends the scan *)
Theorem reads_within_region :
  forall (flt : kvp -> bool) (B fuel : nat) (m : mode) (p : plan) (d : store) (l0 : list scall),
  1 <= B -> ssorted d -> keys_ok p -> List.length d + plan_keys p < fuel ->
  exists l, select_log true flt B fuel m p (SState d l0 None) = (l0 ++ l)%list /\ reads_ok (leaf p) l.
Proof. exact reads_within_region_lemma. Qed.
Print Assumptions reads_within_region.

(* without the done flag the statement is false: regression witness for D23 *)
Theorem reads_within_region_needs_done_flag :
  exists (flt : kvp -> bool) (B fuel : nat) (p : plan) (d : store),
    1 <= B /\ ssorted d /\ keys_ok p /\ List.length d + plan_keys p < fuel /\
    ~ reads_ok (leaf p) (select_log false flt B fuel BatchMode p (sinit d None)).
Proof. exact reads_within_region_needs_done_flag_lemma. Qed.

Example narrowing_example :
  optimize (EBin 0 OAnd (EBin 0 OPrefixMatch (EField 0 KeyKW) (EStr 0 "ab"))
                        (EBin 0 OEq (EField 0 ValueKW) (EStr 0 "x"))) = RPrefix "ab".
Proof. reflexivity. Qed.

(* ------------------------------------------------------------------ the composed SELECT
   (Proofs/ScanSlotsProofs.v).  [reads_within_region] above is about the scan node (and a
   LimitPlan over it).  A SELECT puts a projection or an aggregate node on the scan node, then
   possibly an order node and a limit node (Model/ScanIO.v fplan: the twins of their Init /
   Next / Batch / prepare loops as programs over the storage instructions). *)
From KV Require Import Model.Value Model.SelectPlans Model.Pipeline Model.PipelineS Model.PipelineIO
                       Proofs.ScanSlotsProofs.
From KV Require Import Model.ScanIO Model.Storage.
Local Open Scope list_scope.


(* none of these nodes issues a storage call of its own: for every final plan, every oracle,
   both modes, every batch size >= 1 and every strictly sorted store, the calls of BuildPlan +
   drain are calls the scan node may issue, inside its region *)
Theorem select_calls_are_scan_calls :
  forall (flt : kvp -> bool) (gkey : kvp -> bytes) (B fuel : nat) (m : mode) (fp : fplan)
         (d : store) (l0 : list scall),
  1 <= B -> ssorted d -> keys_ok (fchild fp) -> List.length d + fplan_keys fp < fuel ->
  exists sizes l, ScanIO.run_stmt true flt gkey B fuel m (StSelect fp) (SState d l0 None)
                  = (Storage.Ok sizes, SState d (l0 ++ l)%list None)
                  /\ reads_ok (fleaf fp) l.
Proof. exact select_calls_are_scan_calls_lemma. Qed.
Print Assumptions select_calls_are_scan_calls.

(* for every accepted SELECT text ([plan_stmt_text q = STOk pl], Model/PipelineS.v) the statement
   ScanIO runs is [text_fplan pl] (Model/PipelineIO.v: the shape buildFinalPlan built over the scan
   node of the region inferred from the FOLDED WHERE tree, [text_region pl]); its run reads
   nothing for REmpty, only the listed keys (Get) for RMget, and otherwise only through the
   cursor, the keys returned lying in the region except at most the last one, which ends the scan *)
Theorem reads_within_region_text :
  forall (fo : fops) (re : bytes -> bytes -> Value.res bool) (fmt_v : F fo -> string)
         (flt : kvp -> bool) (gkey : kvp -> bytes) (B fuel : nat) (m : mode)
         (q : string) (pl : splanned fo) (d : store) (l0 : list scall),
  plan_stmt_text fo re fmt_v q = STOk pl ->
  1 <= B -> ssorted d -> List.length d + plan_keys (PScan (sp_scan fo pl)) < fuel ->
  text_stmt fo re fmt_v q = Some (StSelect (text_fplan fo pl)) /\
  exists sizes l, ScanIO.run_stmt true flt gkey B fuel m (StSelect (text_fplan fo pl)) (SState d l0 None)
                  = (Storage.Ok sizes, SState d (l0 ++ l)%list None)
                  /\ reads_ok (sp_scan fo pl) l
                  /\ reads_in_region (text_region fo re fmt_v pl) l.
Proof. exact reads_within_region_text_lemma. Qed.
Print Assumptions reads_within_region_text.

(* non-vacuity: ORDER BY + LIMIT over a projection with a prefix filter; the scan is read once,
   up to the first key beyond the prefix, whatever the nodes above do *)
Example reads_within_region_text_nonvacuous :
  forall (fo : fops) (re : bytes -> bytes -> Value.res bool) (fmt_v : F fo -> string),
  let q := "select key, value where key ^= 'a' & value != 'x' order by value desc limit 1, 1" in
  let d := [("a","1");("ab","2");("abc","3");("b","4");("c","5")] in
  exists pl, plan_stmt_text fo re fmt_v q = STOk pl /\
    text_region fo re fmt_v pl = RPrefix "a" /\
    (exists os, text_fplan fo pl = FLimit 1 1 (FOrder (FProj (PScan (SPrefix "a")))) /\ sp_shape fo pl = SLimit 1 1 (SOrder os SProj)) /\
    ScanIO.run_stmt true (fun _ => true) snd 2 20 RowMode (StSelect (text_fplan fo pl)) (sinit d None)
    = (Storage.Ok [1], SState d [CCursor; CSeek "a"; CCursor; CSeek "a"; CNext (Some "a"); CNext (Some "ab");
                                 CNext (Some "abc"); CNext (Some "b")] None).
Proof.
  intros. eexists. split; [vm_compute; reflexivity|]. split; [vm_compute; reflexivity|].
  split; [eexists; split; vm_compute; reflexivity|]. vm_compute. reflexivity.
Qed.

(* ------------------------------------------------------------------ WHICH Batch() CALL READS WHAT
   (Model/ScanBatches.v, Proofs/ScanBatchBoundaryProofs.v).  For every scan node (empty / full /
   prefix / range / multi-get), EVERY store, every filter oracle, every batch size B >= 1:
   BuildPlan and then Batch() polled until the empty batch, every call run on its own, returns
   EXACTLY [scan_polls_spec flt B sc d]: per Batch() call the storage calls it issued and the pairs
   it returned.  The spec is Model/ScanProj.v's batch loop over the slots of the scan, each slot
   annotated with the call that reads it (Next for a pair the cursor yields, Get for a listed key,
   stored or not), plus -- when fewer than B slots are left -- the one Next that discovers the
   end (it returns the first pair beyond the region, or nil).  A prefix / range scan that has seen
   its end is silent when polled again, a full scan asks its exhausted cursor again (Next -> nil). *)
From KV Require Import Model.ScanBatches Proofs.ScanBatchBoundaryProofs Proofs.RunCountsProofs.

Theorem scan_batches_agree :
  forall (flt : kvp -> bool) (B fuel : nat) (sc : scan) (d : store) (l0 : list scall),
  1 <= B -> List.length d + plan_keys (PScan sc) < fuel ->
  exists l, scan_polls true flt B fuel (PScan sc) (SState d l0 None)
            = (Storage.Ok (scan_init_calls sc ++ scan_init_calls sc, scan_polls_spec flt B sc d), SState d (l0 ++ l)%list None)
            /\ l = ((scan_init_calls sc ++ scan_init_calls sc) ++ List.concat (map fst (scan_polls_spec flt B sc d)))%list.
Proof. exact scan_polls_agree_lemma. Qed.
Print Assumptions scan_batches_agree.

(* one Batch() call of a cursor scan / a multi-get, exactly (rows, cursor, end flag, calls) *)
Theorem scan_batch_call_exact_cursor : forall (flt : kvp -> bool) (B : nat), 1 <= B -> forall f sc c ret d,
  rspec (cursor_batch_loop flt B f sc c ret) d (fun x l =>
    match batch_pass flt B f [cursor_term (scan_stop sc) (crest c)]
                     (annot (PipelineS.take_until (scan_stop sc) (crest c))) ret with
    | (rows, log, rest', e) =>
        fst (fst x) = rows /\ snd x = e /\ l = log /\
        csnap (snd (fst x)) = csnap c /\
        List.length (crest (snd (fst x))) <= List.length (crest c) /\
        (e = false -> rest' = annot (PipelineS.take_until (scan_stop sc) (crest (snd (fst x)))) /\
                      cursor_term (scan_stop sc) (crest (snd (fst x))) = cursor_term (scan_stop sc) (crest c)) /\
        (e = true -> (forall kv, scan_stop sc kv = false) -> crest (snd (fst x)) = [])
    end).
Proof. exact cursor_loop_exact. Qed.
Print Assumptions scan_batch_call_exact_cursor.

(* REFUTED: `the storage calls of a LIMIT statement are a prefix of the calls of the statement
   without the LIMIT`.  Batch mode, full scan, a window larger than the data: the LIMIT
   statement issues ONE MORE call, a Next on the exhausted cursor (it returns nil: no key is
   read, so [reads_within_region_text] is not affected).  Replayed on the Go code. *)
Theorem limit_calls_prefix_batch_refuted :
  let d := [("a","x");("ab","y")]%string in
  let lg fp := slog (snd (ScanIO.run_stmt true (fun _ => true) snd 32 30 BatchMode (StSelect fp) (sinit d None))) in
  lg (FProj (PScan SFull)) = [CCursor; CSeek ""; CCursor; CSeek ""; CNext (Some "a"); CNext (Some "ab"); CNext None; CNext None]%string /\
  lg (FLimit 0 100 (FProj (PScan SFull))) = (lg (FProj (PScan SFull)) ++ [CNext None])%list.
Proof. exact limit_calls_prefix_batch_refuted_lemma. Qed.
Print Assumptions limit_calls_prefix_batch_refuted.

(* non-vacuity: a multi-get with an absent key and a filter that rejects a pair, B = 2:
   the first Batch() reads a, b (keeps a: 1 < B rows, goes on), then c, zz (zz absent; keeps c:
   2 rows, returns); the second Batch() has no key left: no call, empty batch *)
Example scan_batches_agree_mget_nonvacuous :
  let d := [("a","x");("b","y");("c","x");("d","x")]%string in
  let flt := fun kv : kvp => String.eqb (snd kv) "x" in
  scan_polls_spec flt 2 (SMget ["a";"b";"c";"zz"]%string) d
  = [([CGet "a"; CGet "b"; CGet "c"; CGet "zz"], [("a","x");("c","x")]); ([], [])]%string /\
  scan_polls true flt 2 10 (PScan (SMget ["a";"b";"c";"zz"]%string)) (sinit d None)
  = (Storage.Ok ([], [([CGet "a"; CGet "b"; CGet "c"; CGet "zz"], [("a","x");("c","x")]); ([], [])]),
     SState d [CGet "a"; CGet "b"; CGet "c"; CGet "zz"] None)%string.
Proof. vm_compute. split; reflexivity. Qed.

(* non-vacuity: a range scan, B = 2, filter keeps everything: [a;ab] | [abc] + the Next that
   finds "b" beyond the range | silent *)
Example scan_batches_agree_range_nonvacuous :
  let d := [("a","1");("ab","2");("abc","3");("b","4");("c","5")]%string in
  scan_polls_spec (fun _ => true) 2 (SRange (Some "a") (Some "abd"))%string d
  = [([CNext (Some "a"); CNext (Some "ab")], [("a","1");("ab","2")]);
     ([CNext (Some "abc"); CNext (Some "b")], [("abc","3")]);
     ([], [])]%string.
Proof. vm_compute. reflexivity. Qed.

(* ------------------------------------------------------------------ LIMIT reads no more than the
   unlimited statement, call by call (Proofs/LimitCallsProofs.v).  ROW mode, EVERY final plan fp
   under the FinalLimitPlan (projection / aggregate / order / another limit, over any scan node,
   hence every SELECT statement Model/PipelineIO.v builds from an accepted text), every storage
   state (any data, any log so far, any fault index), every filter / group-key oracle, fuel above
   the store size + the listed keys (Proofs/ScanIOFuel.v: [stmt_fuel] is): the call log of
   `<select> limit start, count` is a PREFIX of the call log of `<select>`.  Hence the LIMIT
   statement reads no key the unlimited statement does not read, and call i of the limited run
   is call i of the unlimited run (a fault at call i hits both, C13).  The batch-mode statement
   is false as it stands ([limit_calls_prefix_batch_refuted] above). *)
From KV Require Import Proofs.LimitCallsProofs.

Theorem limit_calls_prefix_row :
  forall (remember_end : bool) (flt : kvp -> bool) (gkey : kvp -> bytes) (B fuel : nat)
         (start count : nat) (fp : fplan) (st : sstate),
  List.length (sdata st) + fplan_keys fp < fuel ->
  exists l,
    slog (snd (ScanIO.run_stmt remember_end flt gkey B fuel RowMode (StSelect fp) st))
    = (slog (snd (ScanIO.run_stmt remember_end flt gkey B fuel RowMode (StSelect (FLimit start count fp)) st)) ++ l)%list.
Proof. exact limit_calls_prefix_row_lemma. Qed.
Print Assumptions limit_calls_prefix_row.

(* non-vacuity: the hypothesis holds (3 pairs, fuel 30) and the prefix is PROPER: `limit 1, 1`
   over a full scan stops after the second pair, the unlimited statement reads on to the end *)
Example limit_calls_prefix_row_proper :
  let d := [("a","x");("ab","y");("b","z")]%string in
  let lg fp := slog (snd (ScanIO.run_stmt true (fun _ => true) snd 32 30 RowMode (StSelect fp) (sinit d None))) in
  List.length (sdata (sinit d None)) + fplan_keys (FProj (PScan SFull)) < 30 /\
  lg (FLimit 1 1 (FProj (PScan SFull))) = [CCursor; CSeek ""; CCursor; CSeek ""; CNext (Some "a"); CNext (Some "ab")]%string /\
  lg (FProj (PScan SFull)) = (lg (FLimit 1 1 (FProj (PScan SFull))) ++ [CNext (Some "b"); CNext None])%list%string.
Proof. vm_compute. split; [repeat constructor|split; reflexivity]. Qed.

(* call i of the limited run is call i of the unlimited run *)
Theorem limit_calls_same_index :
  forall (remember_end : bool) (flt : kvp -> bool) (gkey : kvp -> bytes) (B fuel : nat)
         (start count : nat) (fp : fplan) (st : sstate) (i : nat) (c : scall),
  List.length (sdata st) + fplan_keys fp < fuel ->
  nth_error (slog (snd (ScanIO.run_stmt remember_end flt gkey B fuel RowMode (StSelect (FLimit start count fp)) st))) i = Some c ->
  nth_error (slog (snd (ScanIO.run_stmt remember_end flt gkey B fuel RowMode (StSelect fp) st))) i = Some c.
Proof. exact limit_calls_same_index_lemma. Qed.
Print Assumptions limit_calls_same_index.
