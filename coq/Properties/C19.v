(* Properties/C19.v -- independent statements can run concurrently without interference.
   Only property theorems here, each closed by [exact <lemma>] and followed by Print Assumptions.

   What is proved (logic): statements are deterministic machines that write only locations they
   own and read an environment nobody owns; under EVERY schedule (any number of machines, any
   interleaving) each machine's view -- hence every result computed from it -- is the one of
   its solo run.  Instance: programs of atomic storage operations with disjoint write-sets (or
   read-only) over a linearizable store.

   What is NOT expressible in any Gallina model and is therefore not a theorem here: absence
   of data races in the sense of the Go memory model (unsynchronised conflicting accesses are
   undefined behaviour at the level of the runtime, not a result of an interleaving of atomic
   steps).  That half of C19 is covered by the footprint analysis (the premise [independent]
   for package-level state, checked against the source on every run) and by race-detector
   runs; see props/C19.json. *)
From Coq Require Import List Arith Bool String.
Import ListNotations.
From KV Require Import Model.Interleave Proofs.InterleaveProofs.
Open Scope string_scope.

(* any number of machines, any schedule: what machine i owns or reads is what its solo run
   produces in the same number of steps *)
Theorem interleave_noninterference :
  forall (loc val : Type) (ms : list (machine loc val)) (sched : list nat) (m0 : mem loc val)
         (i : nat) (mi : machine loc val),
  Forall (@well_behaved loc val) ms -> independent ms -> nth_error ms i = Some mi ->
  agree mi (run ms sched m0) (run_alone mi (steps_of i sched) m0).
Proof. exact noninterference. Qed.
Print Assumptions interleave_noninterference.

(* every result that is a function of the machine's view is the solo result *)
Theorem interleave_result_alone :
  forall (loc val : Type) (ms : list (machine loc val)) (sched : list nat) (m0 : mem loc val)
         (i : nat) (mi : machine loc val) (R : Type) (res : mem loc val -> R),
  Forall (@well_behaved loc val) ms -> independent ms -> nth_error ms i = Some mi ->
  observes mi res ->
  res (run ms sched m0) = res (run_alone mi (steps_of i sched) m0).
Proof. exact noninterference_result. Qed.
Print Assumptions interleave_result_alone.

(* a statement that finishes within k steps alone returns, under any schedule that lets it
   make k steps, exactly the result it returns when run alone to completion *)
Theorem interleave_completed_result :
  forall (loc val : Type) (ms : list (machine loc val)) (sched : list nat) (m0 : mem loc val)
         (i : nat) (mi : machine loc val) (k : nat) (R : Type) (res : mem loc val -> R),
  Forall (@well_behaved loc val) ms -> independent ms -> nth_error ms i = Some mi ->
  observes mi res -> halted_after mi m0 k -> k <= steps_of i sched ->
  res (run ms sched m0) = res (run_alone mi k m0).
Proof. exact noninterference_complete. Qed.
Print Assumptions interleave_completed_result.

(* the shared environment -- locations owned by nobody, i.e. the package-level state of kvql --
   is the same after any interleaving *)
Theorem shared_environment_immutable :
  forall (loc val : Type) (ms : list (machine loc val)) (sched : list nat) (m0 : mem loc val) (l : loc),
  Forall (fun mc : machine loc val => frame_write mc) ms -> shared ms l ->
  run ms sched m0 l = m0 l.
Proof. exact shared_env_unchanged. Qed.
Print Assumptions shared_environment_immutable.

(* storage instance: disjoint write-sets or read-only programs over a linearizable store *)
Theorem storage_statements_noninterference :
  forall (ps : list (list op)) (sched : list nat) (st : list (string * string)) (i : nat) (p : list op),
  indep_b ps = true -> nth_error ps i = Some p ->
  kout i (kv_run ps sched st) = kout i (kv_alone i p (steps_of i sched) st) /\
  kpc i (kv_run ps sched st) = kpc i (kv_alone i p (steps_of i sched) st) /\
  forall ks, (forall k, In k ks -> In k (wkeys p) \/ In k (rkeys p)) ->
    kcells (kv_run ps sched st) ks = kcells (kv_alone i p (steps_of i sched) st) ks.
Proof. exact kv_noninterference. Qed.
Print Assumptions storage_statements_noninterference.

Theorem storage_statements_completed :
  forall (ps : list (list op)) (sched : list nat) (st : list (string * string)) (i : nat) (p : list op),
  indep_b ps = true -> nth_error ps i = Some p -> List.length p <= steps_of i sched ->
  kout i (kv_run ps sched st) = kout i (kv_alone i p (List.length p) st) /\
  forall ks, (forall k, In k ks -> In k (wkeys p) \/ In k (rkeys p)) ->
    kcells (kv_run ps sched st) ks = kcells (kv_alone i p (List.length p) st) ks.
Proof. exact kv_noninterference_complete. Qed.
Print Assumptions storage_statements_completed.

Theorem storage_unwritten_keys_unchanged :
  forall (ps : list (list op)) (sched : list nat) (st : list (string * string)) (k : string),
  (forall p, In p ps -> ~ In k (wkeys p)) ->
  cell (kv_run ps sched st) k = lookup k st.
Proof. exact kv_unwritten_unchanged. Qed.
Print Assumptions storage_unwritten_keys_unchanged.

(* non-vacuity: three statements (a writer on its own keys, a second writer, a reader of
   untouched keys) satisfy the premises; under a genuinely interleaved schedule each sees
   what it sees alone, and the numbers are not trivial *)
Example storage_noninterference_nonvacuous :
  indep_b ex_progs = true /\
  Forall (@well_behaved kloc kval) (kmachines ex_progs) /\
  independent (kmachines ex_progs) /\
  map (fun i => kout i (kv_run ex_progs ex_sched ex_store)) [0; 1; 2] =
    [ [Some "1"; None]; [Some "old"; Some "y"]; [Some "s"; None] ] /\
  kout 0 (kv_alone 0 (nth 0 ex_progs []) 4 ex_store) = [Some "1"; None] /\
  kcells (kv_run ex_progs ex_sched ex_store) ["g0_a"; "g1_a"; "g1_b"; "shared"] =
    [None; Some "x"; Some "y"; Some "s"].
Proof.
  split; [reflexivity|]. split; [apply kmachines_well_behaved|].
  split; [apply kmachines_independent; reflexivity|].
  split; [vm_compute; reflexivity|]. split; vm_compute; reflexivity.
Qed.

(* the premise [independent] is necessary: two well-behaved machines that bump one shared
   counter (a call counter, a cache in a package-level variable) do interfere *)
Theorem interference_without_independence_refuted :
  exists (ms : list (machine nat nat)) (sched : list nat) (m0 : mem nat nat) (i : nat) (mi : machine nat nat),
    Forall (@well_behaved nat nat) ms /\ nth_error ms i = Some mi /\
    ~ independent ms /\
    run ms sched m0 2 <> run_alone mi (steps_of i sched) m0 2.
Proof. exact shared_counter_interferes. Qed.
Print Assumptions interference_without_independence_refuted.
